/-
  C04 — the GENERATORS of the `chain` engine satisfy the precondition of the C04 theorems.

  Property text (C04): "Every stack laid out by the platform calling convention (frame-pointer
  chains) … is walked to exactly the generated call chain …". The C04 theorems say
  `Pre case → walk = generated chain`; for the generators below `Pre` is no longer evaluated per
  case but PROVED of the generator: the generator is a Lean function of its parameters
  (MdModel/Walk/LayoutGen.lean), the theorem quantifies over ALL parameters in the generator's
  ranges, and the engine compares the function's value with every generated case (layout tie,
  class `layout-not-mirrored`).

  * `preFp_layout_arch` / `walk_layout_fp_generated_arch` — frame-pointer chains on x86, x86-64
    (not Windows), ARM on iOS, ARM64 (both context layouts).
  * `preCfi_layout` / `walk_layout_cfi_generated` — canonical STACK CFI chains on all seven context
    kinds / modes, incl. the leaf first frame and stacks that END with the outermost return-address
    slot; the stack part of `Pre` is proved, the side condition `gcfiSide` (which record covers
    which lookup address: module and CFI range tables) stays a hypothesis.
  * `gcfiSide_one_module` / `walk_layout_cfi_generated_one_module` — for worlds of ONE module the side
    condition follows from record-level facts: the module has a range, its STACK CFI records are
    non-empty, inside the module and pairwise disjoint (`oneModOkB`), and the FIRST record of the list
    covering each lookup address is the canonical one (`gcfiSideOne`: a linear search, no range tables).
  * `gcfiSide_world` / `walk_layout_cfi_generated_world` — the same for worlds of SEVERAL modules (`worldOkB`:
    modules with ranges, pairwise disjoint, each symbol file as above; `gcfiSideW`: linear search through the
    module list, then through the module's records).
  * `preScan_layout` / `walk_layout_scan_generated` (ARM64 ×2, MIPS64) / `walk_layout_scan_generated32` (x86,
    x86-64, ARM not iOS, MIPS32 with its four skipped words) — scan-only chains: junk words `< 4096` that
    are no valid instructions, within the scan windows; stacks that END with the outermost return address.
-/
import MdProofs.C04
import MdProofs.Lemmas.WalkGenFp
import MdProofs.Lemmas.WalkGenCfi
import MdProofs.Lemmas.WalkGenSide
import MdProofs.Lemmas.WalkGenSideW
import MdProofs.Lemmas.WalkGenScan
import MdProofs.Lemmas.WalkGenScanJunk
import MdProofs.C04Cfi
namespace MdModel.Walk
open MdModel

/-- "frame-pointer chains": the frame-pointer generator's stacks satisfy `preFp`, for ALL its
    parameters, on every architecture with the technique -/
theorem preFp_layout_arch (a : Arch) (ha : a.hasFp = true) (os : Os) (hos : a = .amd64 → os ≠ .windows)
    (hios : a = .arm → os = .ios) (mask base s0 f0 tail : Nat) (calls : List (Nat × Nat))
    (hbase : 16 < base) (hs : s0 ≤ f0)
    (htop : base + a.ptr * (gfpWords a.ptr base f0 tail calls).length + 32 ≤ a.regMax)
    (hmask : (a = .arm64 ∨ a = .arm64old) →
      ∃ k, mask = 2 ^ k - 1 ∧ base + a.ptr * (gfpWords a.ptr base f0 tail calls).length ≤ 2 ^ k)
    (hrets : ∀ c ∈ calls, 4096 ≤ c.2 ∧ c.2 ≤ a.regMax ∧ retOkFp a mask c.2 = true) :
    preFp a os mask (wordsMemP a.ptr base (gfpWords a.ptr base f0 tail calls)) (pAddr a.ptr base s0)
      (pAddr a.ptr base f0) (gfpChain a.ptr base f0 calls) = true :=
  preFp_layout_gen a ha os hos hios mask base s0 f0 tail calls hbase hs htop hmask hrets

/-- **every frame-pointer stack the generator's layout function produces is walked to its chain**
    (x86, x86-64 not Windows, ARM on iOS, ARM64 both layouts): any base above 16 keeping the stack
    32 bytes clear of the top of the register range, any word positions `s0 ≤ f0` of the context's
    stack and frame pointers, any number of calls with any gaps between the records, any return
    addresses `≥ 4096` (x86-64: canonical; ARM64: canonical, and return addresses and stack below
    `2^k` for the walk's pointer-authentication mask `2^k - 1`), any amount of trailing zeros; any
    environment without STACK CFI / STACK WIN for these frames. `fpn` is the name the frame
    pointer has in the context (`ebp`, `rbp`, `fp`). -/
theorem walk_layout_fp_generated_arch (env : Env) (a : Arch) (harch : env.arch = a) (ha : a.hasFp = true)
    (hos : a = .amd64 → env.os ≠ .windows) (hios : a = .arm → env.os = .ios)
    (hcfi : NoCfi env) (base s0 f0 tail : Nat) (calls : List (Nat × Nat)) (ip : Nat)
    (hbase : 16 < base) (hs : s0 ≤ f0)
    (htop : base + a.ptr * (gfpWords a.ptr base f0 tail calls).length + 32 ≤ a.regMax)
    (hmask : (a = .arm64 ∨ a = .arm64old) →
      ∃ k, env.mask = 2 ^ k - 1 ∧ base + a.ptr * (gfpWords a.ptr base f0 tail calls).length ≤ 2 ^ k)
    (hrets : ∀ c ∈ calls, 4096 ≤ c.2 ∧ c.2 ≤ a.regMax ∧ retOkFp a env.mask c.2 = true) :
    walk env (some (wordsMemP a.ptr base (gfpWords a.ptr base f0 tail calls)))
        { ip := ip, sp := pAddr a.ptr base s0, rest := [(a.fpName, pAddr a.ptr base f0)] } =
      symbolise env (Frame.ofCtx { ip := ip, sp := pAddr a.ptr base s0,
                                   rest := [(a.fpName, pAddr a.ptr base f0)] } .context) ::
        expectedFp env a (gfpChain a.ptr base f0 calls) := by
  have hlen : 0 < (gfpWords a.ptr base f0 tail calls).length := by rw [gfpWords_length]; omega
  have hm : (wordsMemP a.ptr base (gfpWords a.ptr base f0 tail calls)).range?.isSome = true :=
    wordsMemP_range a.ptr base _ (ptr_pos a) hlen (by have := regMax_le_u64 a; omega)
  have hraw : Ctx.raw a { ip := ip, sp := pAddr a.ptr base s0, rest := [(a.fpName, pAddr a.ptr base f0)] } a.fpName =
      pAddr a.ptr base f0 := by
    cases a <;> simp only [Arch.hasFp, Bool.false_eq_true] at ha <;> rfl
  refine walk_layout_fp env a harch ha hos hcfi _ hm _ rfl rfl _ ?_
  rw [hraw]
  exact preFp_layout_arch a ha env.os hos hios env.mask base s0 f0 tail calls hbase hs htop hmask hrets

-- non-vacuity: the layout of a two-call stack on x86 (4-byte words) and ARM64 spelled out; the
-- hypotheses of the theorem hold of it
example : gfpWords 4 0x8000 2 1 [(1, 0x400120), (0, 0x400500)] =
    [0, 0, 0x8014, 0x400120, 0, 0x801c, 0x400500, 0, 0, 0, 0] := by decide
example : (gfpChain 4 0x8000 2 [(1, 0x400120), (0, 0x400500)]).map (fun e => (e.ret, e.sp, e.fp)) =
    [(0x400120, 0x8010, some 0x8014), (0x400500, 0x801c, some 0x801c)] := by decide
example : preFp .x86 .other 0 (wordsMemP 4 0x8000 (gfpWords 4 0x8000 2 1 [(1, 0x400120), (0, 0x400500)]))
    (pAddr 4 0x8000 1) (pAddr 4 0x8000 2) (gfpChain 4 0x8000 2 [(1, 0x400120), (0, 0x400500)]) = true :=
  preFp_layout_arch .x86 rfl .other (by decide) (by decide) 0 0x8000 1 2 1 _ (by decide) (by decide) (by decide)
    (fun h => by rcases h with h | h <;> cases h) (by decide)
example : preFp .arm64 .ios (2 ^ 47 - 1)
    (wordsMemP 8 0x7fff00008000 (gfpWords 8 0x7fff00008000 2 1 [(1, 0x400120), (0, 0x400500)]))
    (pAddr 8 0x7fff00008000 1) (pAddr 8 0x7fff00008000 2)
    (gfpChain 8 0x7fff00008000 2 [(1, 0x400120), (0, 0x400500)]) = true :=
  preFp_layout_arch .arm64 rfl .ios (by decide) (by decide) (2 ^ 47 - 1) 0x7fff00008000 1 2 1 _ (by decide) (by decide)
    (by decide) (fun _ => ⟨47, rfl, by decide⟩) (by decide)
example : preFp .arm .ios 0 (wordsMemP 4 0x8000 (gfpWords 4 0x8000 0 3 []))
    (pAddr 4 0x8000 0) (pAddr 4 0x8000 0) (gfpChain 4 0x8000 0 []) = true :=
  preFp_layout_arch .arm rfl .ios (by decide) (by decide) 0 0x8000 0 0 3 [] (by decide) (by decide) (by decide)
    (fun h => by rcases h with h | h <;> cases h) (by decide)

/-- "described by STACK CFI": the canonical STACK CFI generator's stacks satisfy `preCfi`, for ALL
    its parameters (stack base, word position of the stack pointer, per frame its size in words,
    whether the record saves the frame pointer, the return address and the saved frame pointer;
    `tail` zero words behind the last frame — `tail = 0`: the stack ENDS with the outermost
    return-address slot), on every context kind / mode — given `gcfiSide`: the record covering each
    lookup address is the canonical one for the frame's size (the leaf rule for a frame of size 0),
    no record covers the outermost lookup address -/
theorem preCfi_layout (w : World) (a : Arch) (os : Os) (mask base s0 tail : Nat) (frames : List CfiFr) (ctx : Ctx)
    (hv : ctx.valid = none) (hsp : ctx.sp = pAddr a.ptr base s0)
    (hbase : 16 < base) (htop : base + a.ptr * (gcfiWords s0 tail frames).length ≤ a.regMax)
    (hin : s0 < (gcfiWords s0 tail frames).length)
    (hfp : stripOf a mask (ctx.raw a a.fpName) = ctx.raw a a.fpName)
    (hside : gcfiSide w a ctx.ip true frames = true) (hok : gcfiFramesOk a mask frames = true)
    (hlr : ∀ c rest, frames = c :: rest → c.n = 0 → ctx.raw a (if a.isMips then "ra" else "lr") = c.ret)
    (hend : tail = 0 ∨ gcfiLastFp (ctx.raw a a.fpName) frames = 0) :
    preCfi w a os mask (wordsMemP a.ptr base (gcfiWords s0 tail frames)) ctx
      (gcfiChain a.ptr base s0 (ctx.raw a a.fpName) frames) = true := by
  simp only [preCfi, hv, Option.isNone_none, Bool.true_and, hsp]
  exact preCfi_gen_aux w a os mask base tail (gcfiWords s0 tail frames) hbase htop frames s0 _ ctx.ip _ true
    (List.replicate s0 0) (by simp only [gcfiWords, List.append_assoc]) (by simp) hfp hside hok
    (fun c rest h hn => ⟨hlr c rest h hn, hin⟩) hend

/-- **every canonical STACK CFI stack the generator's layout function produces is walked to its
    chain** (all seven context kinds / modes, every OS), under the side condition `gcfiSide` on the
    module list and symbol records -/
theorem walk_layout_cfi_generated (a : Arch) (os : Os) (w : World) (base s0 tail : Nat) (frames : List CfiFr)
    (ctx : Ctx) (heff : effArch a ctx = a)
    (hv : ctx.valid = none) (hsp : ctx.sp = pAddr a.ptr base s0)
    (hbase : 16 < base) (htop : base + a.ptr * (gcfiWords s0 tail frames).length ≤ a.regMax)
    (hin : s0 < (gcfiWords s0 tail frames).length)
    (hfp : stripOf a (mkEnv a os w (wordsMemP a.ptr base (gcfiWords s0 tail frames))).mask (ctx.raw a a.fpName) =
      ctx.raw a a.fpName)
    (hside : gcfiSide w a ctx.ip true frames = true)
    (hok : gcfiFramesOk a (mkEnv a os w (wordsMemP a.ptr base (gcfiWords s0 tail frames))).mask frames = true)
    (hlr : ∀ c rest, frames = c :: rest → c.n = 0 → ctx.raw a (if a.isMips then "ra" else "lr") = c.ret)
    (hend : tail = 0 ∨ gcfiLastFp (ctx.raw a a.fpName) frames = 0) :
    walk (mkEnv a os w (wordsMemP a.ptr base (gcfiWords s0 tail frames)))
        (some (wordsMemP a.ptr base (gcfiWords s0 tail frames))) ctx =
      symbolise (mkEnv a os w (wordsMemP a.ptr base (gcfiWords s0 tail frames))) (Frame.ofCtx ctx .context) ::
        expectedCfi (mkEnv a os w (wordsMemP a.ptr base (gcfiWords s0 tail frames))) w a (Frame.ofCtx ctx .context)
          (gcfiChain a.ptr base s0 (ctx.raw a a.fpName) frames) := by
  have hp := ptr_pos a
  have h64 := regMax_le_u64 a
  have hm : (wordsMemP a.ptr base (gcfiWords s0 tail frames)).range?.isSome = true :=
    wordsMemP_range a.ptr base _ hp (by omega) (by omega)
  have hsp' : ctx.sp ≤ a.regMax := by
    have : a.ptr * s0 ≤ a.ptr * (gcfiWords s0 tail frames).length := Nat.mul_le_mul_left _ (Nat.le_of_lt hin)
    rw [hsp]; simp only [pAddr]; omega
  refine walk_layout_cfi a os w _ ctx _ heff hsp' ?_
  simp only [Pre, hm, Bool.true_and]
  exact preCfi_layout w a os _ base s0 tail frames ctx hv hsp hbase htop hin hfp hside hok hlr hend

-- non-vacuity: a two-frame x86-64 stack (3 words saving rbp, then 2 words), ending with the outermost
-- return-address slot, spelled out
example : gcfiWords 1 0 [{ n := 3, saves := true, ret := 0x400120, fpv := 0 }, { n := 2, saves := false, ret := 0x400500, fpv := 0 }] =
    [0, 0, 0, 0x400120, 0, 0x400500] := by decide
example : (gcfiChain 8 0x8000 1 0x9000 [{ n := 3, saves := true, ret := 0x400120, fpv := 0 },
      { n := 2, saves := false, ret := 0x400500, fpv := 0 }]).map (fun e => (e.ret, e.sp, e.fp)) =
    [(0x400120, 0x8020, some 0), (0x400500, 0x8030, some 0)] := by decide

/-- **the side condition from record-level facts, worlds of one module**: the module has a range,
    every STACK CFI record is non-empty and inside the module, the records are pairwise disjoint
    (`oneModOkB` — what `tidy_world` arranges, incl. the appended leaf FUNC/CFI pair); then the
    module-table and CFI-range-table lookups of `gcfiSide` (sort, drop overlapping ranges, binary
    search) are the linear search `gcfiSideOne` over the record list -/
theorem gcfiSide_one_module (w : World) (m : Module) (sf : SymFile) (hmods : w.mods = [m])
    (hsyms : w.syms = [some sf]) (hok : oneModOkB m sf = true) (a : Arch) (instr : Nat) (first : Bool)
    (frames : List CfiFr) (h : gcfiSideOne m sf a instr first frames = true) :
    gcfiSide w a instr first frames = true :=
  gcfiSide_of_one w m sf (oneModOk_of_B m sf hok) hmods hsyms a frames instr first h

/-- `walk_layout_cfi_generated` for worlds of one module, the side condition replaced by
    record-level facts -/
theorem walk_layout_cfi_generated_one_module (a : Arch) (os : Os) (m : Module) (sf : SymFile)
    (base s0 tail : Nat) (frames : List CfiFr)
    (ctx : Ctx) (heff : effArch a ctx = a)
    (hv : ctx.valid = none) (hsp : ctx.sp = pAddr a.ptr base s0)
    (hbase : 16 < base) (htop : base + a.ptr * (gcfiWords s0 tail frames).length ≤ a.regMax)
    (hin : s0 < (gcfiWords s0 tail frames).length)
    (hfp : stripOf a (mkEnv a os { mods := [m], syms := [some sf] }
        (wordsMemP a.ptr base (gcfiWords s0 tail frames))).mask (ctx.raw a a.fpName) = ctx.raw a a.fpName)
    (hmod : oneModOkB m sf = true)
    (hside : gcfiSideOne m sf a ctx.ip true frames = true)
    (hok : gcfiFramesOk a (mkEnv a os { mods := [m], syms := [some sf] }
        (wordsMemP a.ptr base (gcfiWords s0 tail frames))).mask frames = true)
    (hlr : ∀ c rest, frames = c :: rest → c.n = 0 → ctx.raw a (if a.isMips then "ra" else "lr") = c.ret)
    (hend : tail = 0 ∨ gcfiLastFp (ctx.raw a a.fpName) frames = 0) :
    walk (mkEnv a os { mods := [m], syms := [some sf] } (wordsMemP a.ptr base (gcfiWords s0 tail frames)))
        (some (wordsMemP a.ptr base (gcfiWords s0 tail frames))) ctx =
      symbolise (mkEnv a os { mods := [m], syms := [some sf] } (wordsMemP a.ptr base (gcfiWords s0 tail frames)))
          (Frame.ofCtx ctx .context) ::
        expectedCfi (mkEnv a os { mods := [m], syms := [some sf] } (wordsMemP a.ptr base (gcfiWords s0 tail frames)))
          { mods := [m], syms := [some sf] } a (Frame.ofCtx ctx .context)
          (gcfiChain a.ptr base s0 (ctx.raw a a.fpName) frames) :=
  walk_layout_cfi_generated a os { mods := [m], syms := [some sf] } base s0 tail frames ctx heff hv hsp hbase htop
    hin hfp (gcfiSide_one_module _ m sf rfl rfl hmod a ctx.ip true frames hside) hok hlr hend

-- non-vacuity: a module with two functions with canonical records (3 words saving rbp; 2 words) and a
-- function without; the record-level side condition holds of the two-frame chain through them
example : oneModOkB { base := 0x400000, size := 0x1000, name := "m0" }
    { cfis := [{ addr := 0x100, size := 0x80, init := ".cfa: $rsp 24 + .ra: .cfa -8 + ^ $rbp: .cfa -16 + ^", adds := [] },
               { addr := 0x200, size := 0x80, init := ".cfa: $rsp 16 + .ra: .cfa -8 + ^", adds := [] }] } = true := by decide
example : gcfiSideOne { base := 0x400000, size := 0x1000, name := "m0" }
    { cfis := [{ addr := 0x100, size := 0x80, init := ".cfa: $rsp 24 + .ra: .cfa -8 + ^ $rbp: .cfa -16 + ^", adds := [] },
               { addr := 0x200, size := 0x80, init := ".cfa: $rsp 16 + .ra: .cfa -8 + ^", adds := [] }] }
    .amd64 0x400110 true
    [{ n := 3, saves := true, ret := 0x400220, fpv := 0 }, { n := 2, saves := false, ret := 0x400500, fpv := 0 }] = true := by
  rfl

/-- **the side condition from record-level facts, worlds of several modules** (in any list order):
    the modules have ranges and are pairwise disjoint, every symbol file's STACK CFI records are
    non-empty, inside its module and pairwise disjoint (`worldOkB` — what `tidy_world` arranges); then
    `gcfiSide`'s lookups are two linear searches (`gcfiSideW`: first module containing the address,
    first record of it covering the address) -/
theorem gcfiSide_world (w : World) (hok : worldOkB w = true) (a : Arch) (instr : Nat) (first : Bool)
    (frames : List CfiFr) (h : gcfiSideW w a instr first frames = true) :
    gcfiSide w a instr first frames = true :=
  gcfiSide_of_world w hok a frames instr first h

/-- `walk_layout_cfi_generated` with the side condition replaced by record-level facts -/
theorem walk_layout_cfi_generated_world (a : Arch) (os : Os) (w : World) (base s0 tail : Nat) (frames : List CfiFr)
    (ctx : Ctx) (heff : effArch a ctx = a)
    (hv : ctx.valid = none) (hsp : ctx.sp = pAddr a.ptr base s0)
    (hbase : 16 < base) (htop : base + a.ptr * (gcfiWords s0 tail frames).length ≤ a.regMax)
    (hin : s0 < (gcfiWords s0 tail frames).length)
    (hfp : stripOf a (mkEnv a os w (wordsMemP a.ptr base (gcfiWords s0 tail frames))).mask (ctx.raw a a.fpName) =
      ctx.raw a a.fpName)
    (hworld : worldOkB w = true) (hside : gcfiSideW w a ctx.ip true frames = true)
    (hok : gcfiFramesOk a (mkEnv a os w (wordsMemP a.ptr base (gcfiWords s0 tail frames))).mask frames = true)
    (hlr : ∀ c rest, frames = c :: rest → c.n = 0 → ctx.raw a (if a.isMips then "ra" else "lr") = c.ret)
    (hend : tail = 0 ∨ gcfiLastFp (ctx.raw a a.fpName) frames = 0) :
    walk (mkEnv a os w (wordsMemP a.ptr base (gcfiWords s0 tail frames)))
        (some (wordsMemP a.ptr base (gcfiWords s0 tail frames))) ctx =
      symbolise (mkEnv a os w (wordsMemP a.ptr base (gcfiWords s0 tail frames))) (Frame.ofCtx ctx .context) ::
        expectedCfi (mkEnv a os w (wordsMemP a.ptr base (gcfiWords s0 tail frames))) w a (Frame.ofCtx ctx .context)
          (gcfiChain a.ptr base s0 (ctx.raw a a.fpName) frames) :=
  walk_layout_cfi_generated a os w base s0 tail frames ctx heff hv hsp hbase htop hin hfp
    (gcfiSide_world w hworld a ctx.ip true frames hside) hok hlr hend

theorem gscanWords_split (s0 tail : Nat) (frames : List ScFr) :
    gscanWords s0 tail frames = List.replicate s0 0 ++ (gscanBody frames ++ List.replicate tail 0) := by
  simp only [gscanWords, List.append_assoc]

/-- "findable only by scanning": the scan-only generator's stacks satisfy `preScan`, for ALL its
    parameters (stack base `≥ 4096`, word position of the stack pointer, per frame its junk words and
    return address, `tail` zero words behind the last frame — `tail = 0`: the stack ENDS with the
    outermost return-address slot), on every architecture — given `gscanFramesOk`: the junk words the
    walker looks at are `< 4096` and not valid instructions, fewer than the scan window (160 / 40;
    MIPS64 128; MIPS32 256 / 252 after the four skipped words of every frame but the topmost), the
    return addresses are valid instructions `≥ 4096` -/
theorem preScan_layout (env : Env) (a : Arch) (os : Os) (base s0 tail : Nat) (frames : List ScFr) (ctx : Ctx)
    (hv : ctx.valid = none) (hsp : ctx.sp = pAddr a.ptr base s0) (hfp : ctx.raw a a.fpName = 0)
    (hios : a = .arm → os ≠ .ios) (hbase : 4096 ≤ base)
    (htop : base + a.ptr * (gscanWords s0 tail frames).length ≤ a.regMax)
    (hok : gscanFramesOk env a true frames = true) :
    preScan env a os (wordsMemP a.ptr base (gscanWords s0 tail frames)) ctx (gscanChain a.ptr base s0 frames) = true := by
  have hfrom := preScan_gen_aux env a base tail (gscanWords s0 tail frames) htop frames s0 true (List.replicate s0 0)
    (gscanWords_split s0 tail frames) (by simp) hok
  have hi : (!(decide (a = .arm) && decide (os = .ios))) = true := by
    by_cases h : a = .arm
    · have := hios h; simp [h, this]
    · simp [h]
  simp only [preScan, hv, hfp, hsp, wordsMemP_base, hbase, hfrom, hi, Option.isNone_none, decide_true, Bool.and_self]

/-- **every scan-only stack the generator's layout function produces is walked to its chain**
    (ARM64 both context layouts, MIPS64): any environment without STACK CFI in which
    `gscanFramesOk` holds -/
theorem walk_layout_scan_generated (env : Env) (a : Arch) (harch : env.arch = a) (ha : a.plainScan64 = true)
    (hcfi : NoCfi env) (base s0 tail : Nat) (frames : List ScFr) (ctx : Ctx)
    (hv : ctx.valid = none) (hsp : ctx.sp = pAddr a.ptr base s0) (hfp : ctx.raw a a.fpName = 0)
    (h64 : a = .mips64 → ctx.m64 = true)
    (hlen : 0 < (gscanWords s0 tail frames).length)
    (htop : base + a.ptr * (gscanWords s0 tail frames).length ≤ a.regMax)
    (hok : gscanFramesOk env a true frames = true) :
    walk env (some (wordsMemP a.ptr base (gscanWords s0 tail frames))) ctx =
      symbolise env (Frame.ofCtx ctx .context) :: expectedScan env a (gscanChain a.ptr base s0 frames) := by
  have hm : (wordsMemP a.ptr base (gscanWords s0 tail frames)).range?.isSome = true :=
    wordsMemP_range a.ptr base _ (ptr_pos a) hlen (by have := regMax_le_u64 a; omega)
  refine walk_layout_scan env a harch ha hcfi _ hm ctx hv hfp h64 _ ?_
  rw [hsp]
  exact preScan_gen_aux env a base tail (gscanWords s0 tail frames) htop frames s0 true (List.replicate s0 0)
    (gscanWords_split s0 tail frames) (by simp) hok

/-- the same on x86, x86-64, ARM (not iOS) and MIPS32 (four skipped words on every frame but the
    topmost): stack base `≥ 4096` -/
theorem walk_layout_scan_generated32 (env : Env) (a : Arch) (harch : env.arch = a) (ha : a.scan32 = true)
    (hos : a = .arm → env.os ≠ .ios) (hcfi : NoCfi env) (hok0 : a = .arm → env.instrOk 0 = false)
    (base s0 tail : Nat) (frames : List ScFr) (ctx : Ctx)
    (hv : ctx.valid = none) (hsp : ctx.sp = pAddr a.ptr base s0) (hfp : ctx.raw a a.fpName = 0)
    (h64 : ctx.m64 = false) (hbase : 4096 ≤ base) (hin : s0 ≤ (gscanWords s0 tail frames).length)
    (hlen : 0 < (gscanWords s0 tail frames).length)
    (htop : base + a.ptr * (gscanWords s0 tail frames).length ≤ a.regMax)
    (hok : gscanFramesOk env a true frames = true) :
    walk env (some (wordsMemP a.ptr base (gscanWords s0 tail frames))) ctx =
      symbolise env (Frame.ofCtx ctx .context) :: expectedScan32 env a (gscanChain a.ptr base s0 frames) := by
  have hm : (wordsMemP a.ptr base (gscanWords s0 tail frames)).range?.isSome = true :=
    wordsMemP_range a.ptr base _ (ptr_pos a) hlen (by have := regMax_le_u64 a; omega)
  have hsp' : ctx.sp ≤ a.regMax := by
    have : a.ptr * s0 ≤ a.ptr * (gscanWords s0 tail frames).length := Nat.mul_le_mul_left _ hin
    rw [hsp]; simp only [pAddr]; omega
  refine walk_layout_scan' env a harch ha hos hcfi hok0 _ hm hbase ctx hv hfp h64 hsp' _ ?_
  rw [hsp]
  exact preScan_gen_aux env a base tail (gscanWords s0 tail frames) htop frames s0 true (List.replicate s0 0)
    (gscanWords_split s0 tail frames) (by simp) hok

/-- the junk half of `gscanFramesOk` from a record-level fact: in the environment of a world whose
    modules all start at or above 4096 (`tidy_world`: `≥ 0x10000`) a junk word `< 4096` is no valid
    instruction, so `gscanFramesOkJ` (windows, junk `< 4096`, return addresses valid) suffices -/
theorem gscanFramesOk_of_junk (a : Arch) (os : Os) (w : World) (mem : Mem)
    (hb : ∀ m ∈ w.mods, 4096 ≤ m.base) (first : Bool) (frames : List ScFr)
    (h : gscanFramesOkJ (mkEnv a os w mem) a first frames = true) :
    gscanFramesOk (mkEnv a os w mem) a first frames = true :=
  gscanFramesOk_of_J a os w mem hb frames first h

-- non-vacuity: a MIPS32 two-frame stack (one junk word; then four skipped words, one junk word), ending
-- with the outermost return-address slot, spelled out
example : gscanWords 1 0 [{ junk := [7], ret := 0x400120 }, { junk := [0, 0, 0, 0, 9], ret := 0x400500 }] =
    [0, 7, 0x400120, 0, 0, 0, 0, 9, 0x400500] := by decide
example : (gscanChain 4 0x8000 1 [{ junk := [7], ret := 0x400120 }, { junk := [0, 0, 0, 0, 9], ret := 0x400500 }]).map
    (fun e => (e.ret, e.sp, e.fp)) = [(0x400120, 0x800c, none), (0x400500, 0x8024, none)] := by decide

end MdModel.Walk
