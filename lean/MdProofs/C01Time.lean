/-
  C01, the `time` leaf — theorems about MdModel.TimeFmt, the model of `format_time_t` /
  `format_system_time` (minidump/src/minidump.rs 669-694, crate `time` 0.3: from_unix_timestamp + Rfc3339).

  Property text (C01): "reading … never panics … on ANY byte string" — the printers call `format_time_t`
  on every `u32` a dump can carry (header time_date_stamp, module / unloaded-module time_date_stamp, the PDB 2.0
  signature, MISC_INFO process_create_time). These theorems decide, for EVERY `u32`:
  the conversion is total, never takes the error branch (`unwrap_or_default` → empty string), yields
  exactly `YYYY-MM-DDTHH:MM:SSZ`, a real calendar date, and distinct seconds give distinct texts.
-/
import MdModel.TimeFmt
import MdProofs.Lemmas.TimeFmt

namespace MdModel.TimeFmt

/-- `civil_roundtrip` — for EVERY day count since 1970-01-01 (all naturals, not only the 49 710 days a `u32`
    of seconds reaches): the date the era algorithm yields is a real calendar date (month 1–12, day 1 … length
    of that month with the Gregorian leap-year rule) and counting its days back gives the input. -/
theorem civil_roundtrip (z : Nat) :
    daysFromCivil (civilFromDays z).1 (civilFromDays z).2.1 (civilFromDays z).2.2 = z
    ∧ 1 ≤ (civilFromDays z).2.1 ∧ (civilFromDays z).2.1 ≤ 12
    ∧ 1 ≤ (civilFromDays z).2.2
    ∧ (civilFromDays z).2.2 ≤ daysInMonth (civilFromDays z).1 (civilFromDays z).2.1 := by
  have hdoe : (z + 719468) % 146097 < 146097 := Nat.mod_lt _ (by decide)
  obtain ⟨h1, h2, h3, h4, h5, h6⟩ := era_facts _ hdoe
  have hc : civilFromDays z =
      ((doeParts ((z + 719468) % 146097)).1 + (z + 719468) / 146097 * 400
          + (if (doeParts ((z + 719468) % 146097)).2.1 ≤ 2 then 1 else 0),
        (doeParts ((z + 719468) % 146097)).2.1, (doeParts ((z + 719468) % 146097)).2.2) := rfl
  rw [hc]
  generalize doeParts ((z + 719468) % 146097) = p at *
  obtain ⟨yoe, m, d⟩ := p
  simp only [] at *
  have hz := Nat.div_add_mod (z + 719468) 146097
  generalize (z + 719468) / 146097 = E at *
  generalize (z + 719468) % 146097 = doe at *
  refine ⟨?_, h2, h3, h4, ?_⟩
  · unfold daysFromCivil
    simp only []
    by_cases hm : m ≤ 2
    · simp only [hm, if_true]
      have e1 : yoe + E * 400 + 1 - 1 = yoe + E * 400 := by omega
      have e2 : (yoe + E * 400) / 400 = E := by omega
      have e3 : (yoe + E * 400) % 400 = yoe := by omega
      rw [e1, e2, e3, h6]; omega
    · simp only [hm, if_false]
      have e1 : yoe + E * 400 + 0 - 0 = yoe + E * 400 := by omega
      have e2 : (yoe + E * 400) / 400 = E := by omega
      have e3 : (yoe + E * 400) % 400 = yoe := by omega
      rw [e1, e2, e3, h6]; omega
  · have e : yoe + E * 400 + (if m ≤ 2 then 1 else 0) = (yoe + (if m ≤ 2 then 1 else 0)) + E * 400 := by omega
    rw [e, daysInMonth_add_era]; exact h5

theorem daysInMonth_le (y m : Nat) : daysInMonth y m ≤ 31 := by
  unfold daysInMonth; split
  · split <;> omega
  · split <;> omega

/-- The civil year of a `u32` second count lies in 1970 ..= 2400 (in fact ≤ 2106), far inside the years
    0 ..= 9999 the RFC 3339 formatter of `time` accepts. -/
theorem year_bound (z : Nat) (h : z ≤ 49710) : (civilFromDays z).1 ≤ 2400 := by
  have hdoe : (z + 719468) % 146097 < 146097 := Nat.mod_lt _ (by decide)
  obtain ⟨h1, _⟩ := era_facts _ hdoe
  have hc : (civilFromDays z).1 =
      (doeParts ((z + 719468) % 146097)).1 + (z + 719468) / 146097 * 400
          + (if (doeParts ((z + 719468) % 146097)).2.1 ≤ 2 then 1 else 0) := rfl
  rw [hc]
  have : (z + 719468) / 146097 ≤ 5 := by omega
  split <;> omega

theorem digit_isDigit (k : Nat) : (digit k).isDigit = true := by
  unfold digit
  have h : k % 10 < 10 := Nat.mod_lt _ (by decide)
  generalize k % 10 = r at h
  obtain _|_|_|_|_|_|_|_|_|_|r := r <;> first | decide | omega

def digitVal (c : Char) : Nat := c.toNat - 48

theorem digitVal_digit (k : Nat) : digitVal (digit k) = k % 10 := by
  unfold digit
  have h : k % 10 < 10 := Nat.mod_lt _ (by decide)
  generalize k % 10 = r at h
  obtain _|_|_|_|_|_|_|_|_|_|r := r <;> first | decide | omega

theorem digit_inj {a b : Nat} (h : digit a = digit b) : a % 10 = b % 10 := by
  have := congrArg digitVal h
  rwa [digitVal_digit, digitVal_digit] at this

theorem formatTimeT_chars (t : Nat) (h : t < 4294967296) :
    (formatTimeT t).toList = renderChars (fieldsOf t) ++ ['Z'] := by
  unfold formatTimeT formatUnix formatUnixChars
  rw [Nat.mod_eq_of_lt h, String.toList_ofList, if_pos (by unfold MAX_TS; omega)]

/-- `format_shape` + `format_total` — for EVERY `u32`: `format_time_t` does not take the error branch; its
    output is exactly twenty characters, four digits `-` two `-` two `T` two `:` two `:` two `Z`. -/
theorem format_shape (t : Nat) (h : t < 4294967296) :
    ∃ y3 y2 y1 y0 m1 m0 d1 d0 h1 h0 i1 i0 s1 s0 : Char,
      (formatTimeT t).toList = [y3, y2, y1, y0, '-', m1, m0, '-', d1, d0, 'T', h1, h0, ':', i1, i0, ':', s1, s0, 'Z']
      ∧ y3.isDigit ∧ y2.isDigit ∧ y1.isDigit ∧ y0.isDigit ∧ m1.isDigit ∧ m0.isDigit ∧ d1.isDigit ∧ d0.isDigit
      ∧ h1.isDigit ∧ h0.isDigit ∧ i1.isDigit ∧ i0.isDigit ∧ s1.isDigit ∧ s0.isDigit := by
  rw [formatTimeT_chars t h]
  refine ⟨_, _, _, _, _, _, _, _, _, _, _, _, _, _, rfl, ?_⟩
  simp only [digit_isDigit, and_self]

/-- `format_total` — the empty string (what the code prints when the crate `time` rejects the value) is
    produced exactly for second counts beyond 9999-12-31T23:59:59Z; no `u32` gets there. -/
theorem format_total (t : Nat) (h : t < 4294967296) : (formatTimeT t).length = 20 ∧ formatTimeT t ≠ "" := by
  obtain ⟨y3, y2, y1, y0, m1, m0, d1, d0, h1, h0, i1, i0, s1, s0, he, _⟩ := format_shape t h
  have hl : (formatTimeT t).length = 20 := by rw [← String.length_toList, he]; rfl
  refine ⟨hl, ?_⟩
  intro hh; rw [hh] at hl; revert hl; decide

theorem formatUnix_empty_iff (n : Nat) : formatUnix n = "" ↔ n > MAX_TS := by
  unfold formatUnix formatUnixChars
  constructor
  · intro h
    by_cases hn : n ≤ MAX_TS
    · rw [if_pos hn] at h
      have := congrArg String.length h
      simp [renderChars, pad4, pad2] at this
    · omega
  · intro h; rw [if_neg (by omega)]

/-- The fields printed are those of a real instant: month 1–12, day within the month, 24/60/60, year ≤ 2400,
    and the second count is recovered from them. -/
theorem fields_sound (t : Nat) (h : t < 4294967296) :
    let f := fieldsOf t
    1 ≤ f.mo ∧ f.mo ≤ 12 ∧ 1 ≤ f.d ∧ f.d ≤ daysInMonth f.y f.mo ∧ f.h < 24 ∧ f.mi < 60 ∧ f.s < 60 ∧ f.y ≤ 2400
    ∧ daysFromCivil f.y f.mo f.d * 86400 + f.h * 3600 + f.mi * 60 + f.s = t := by
  obtain ⟨r1, r2, r3, r4, r5⟩ := civil_roundtrip (t / 86400)
  have hy := year_bound (t / 86400) (by omega)
  simp only [fieldsOf]
  refine ⟨r2, r3, r4, r5, by omega, by omega, by omega, hy, ?_⟩
  rw [r1]; omega

/-- `format_injective` — two different `u32` second counts never print the same text. -/
theorem format_injective (a b : Nat) (ha : a < 4294967296) (hb : b < 4294967296)
    (h : formatTimeT a = formatTimeT b) : a = b := by
  have hl := congrArg String.toList h
  rw [formatTimeT_chars a ha, formatTimeT_chars b hb] at hl
  obtain ⟨a1, a2, a3, a4, a5, a6, a7, a8, a9⟩ := fields_sound a ha
  obtain ⟨b1, b2, b3, b4, b5, b6, b7, b8, b9⟩ := fields_sound b hb
  have a4' := Nat.le_trans a4 (daysInMonth_le _ _)
  have b4' := Nat.le_trans b4 (daysInMonth_le _ _)
  simp only [renderChars, pad4, pad2, List.cons_append, List.nil_append, List.cons.injEq, and_true, true_and] at hl
  obtain ⟨y3, y2, y1, y0, m1, m0, d1, d0, h1, h0, i1, i0, s1, s0⟩ := hl
  have := digit_inj y3; have := digit_inj y2; have := digit_inj y1; have := digit_inj y0
  have := digit_inj m1; have := digit_inj m0; have := digit_inj d1; have := digit_inj d0
  have := digit_inj h1; have := digit_inj h0; have := digit_inj i1; have := digit_inj i0
  have := digit_inj s1; have := digit_inj s0
  have ey : (fieldsOf a).y = (fieldsOf b).y := by omega
  have em : (fieldsOf a).mo = (fieldsOf b).mo := by omega
  have ed : (fieldsOf a).d = (fieldsOf b).d := by omega
  have eh : (fieldsOf a).h = (fieldsOf b).h := by omega
  have ei : (fieldsOf a).mi = (fieldsOf b).mi := by omega
  have es : (fieldsOf a).s = (fieldsOf b).s := by omega
  rw [← a9, ← b9, ey, em, ed, eh, ei, es]

/-! Non-vacuity / concrete instances. -/
example : formatTimeT 0 = "1970-01-01T00:00:00Z" := by decide
example : formatTimeT 951782400 = "2000-02-29T00:00:00Z" := by decide
example : formatTimeT 2147483647 = "2038-01-19T03:14:07Z" := by decide
example : formatTimeT 4294967295 = "2106-02-07T06:28:15Z" := by decide
example : formatUnix 253402300799 = "9999-12-31T23:59:59Z" ∧ formatUnix 253402300800 = "" := by decide
example : civilFromDays 11016 = (2000, 2, 29) ∧ daysFromCivil 2000 2 29 = 11016 := by decide
example : formatSystemTime ⟨2024, 258, 285, 256, 256, 256, 120⟩ = "2024-02-29T00:00:00.12Z" := by decide
example : formatSystemTime ⟨1900, 2, 29, 0, 0, 0, 0⟩ = "<invalid date>" := by decide

end MdModel.TimeFmt
