/-
  C09 — Parsing a symbol file is total and bounded.

  STATEMENT (properties.jsonl): "For every byte string, parsing it as a Breakpad symbol file returns a
  symbol table or a parse error: it never panics, never loops forever, and keeps only a fixed-size
  window of unparsed input in memory. A single over-long line is dropped as corrupt rather than
  failing the parse or exhausting memory."

  The theorems are about `MdModel.Sym.parseStream` (= `SymbolFile::parse(reader, callback)`, the
  reader being ANY chunk schedule; the empty schedule is `SymbolFile::from_bytes`), which is the
  buffer state machine `MdModel.Stream` instantiated with the byte-level parser model
  `MdModel.Sym.parseMore`.  The machine-level theorems hold for every parser (`Ops`).
-/
import MdModel.SymParse
import MdProofs.Lemmas.SymStream
import MdProofs.Lemmas.SymNoPanic
import MdProofs.Lemmas.SymDrop
namespace MdModel.Sym
open MdModel MdModel.Stream MdModel.Gen.SymConsts

/-! ## "never loops forever" -/

/-- The streaming loop returns within `8·|input| + 3` iterations — for every input, every chunk
    schedule and EVERY line parser (the bound does not depend on the schedule: a read returns 0
    only at end of input or when the buffer is full). -/
theorem loop_terminates {σ} (maxCap initCap : Nat) (ops : Ops σ) (ps : σ) (input : Bytes) (sched : List Nat) :
    ∃ r, run maxCap ops (fuelFor input) (init initCap ps input sched) = some r :=
  run_terminates maxCap ops _ _ (measure_init initCap ps input sched)

/-- `SymbolFile::parse` always returns: the fuel `fuelFor input = 8·|input| + 3` handed to the
    model's loop is never exhausted. -/
theorem parse_terminates (input : Bytes) (sched : List Nat) :
    ∃ r, parseStream input sched = some r :=
  loop_terminates _ _ _ _ input sched

/-! ## "keeps only a fixed-size window of unparsed input in memory" -/

theorem consts_ok : 0 < INITIAL_BUFFER_CAPACITY ∧ INITIAL_BUFFER_CAPACITY ≤ MAX_BUFFER_CAPACITY := by
  decide

/-- In every state the loop can reach — for every input, schedule and parser — the buffer's
    capacity is at most `MAX_BUFFER_CAPACITY` and the window (the only unparsed input that is
    held) lies inside it: `position + |window| ≤ capacity ≤ MAX_BUFFER_CAPACITY`. -/
theorem window_bounded_machine {σ} (ops : Ops σ) (ps : σ) (input : Bytes) (sched : List Nat) (s : St σ)
    (h : Reach MAX_BUFFER_CAPACITY ops (init INITIAL_BUFFER_CAPACITY ps input sched) s) :
    s.buf.cap ≤ MAX_BUFFER_CAPACITY ∧ s.buf.pos + s.buf.data.length ≤ s.buf.cap := by
  have := reach_inv (init_inv MAX_BUFFER_CAPACITY INITIAL_BUFFER_CAPACITY ps input sched consts_ok.1 consts_ok.2) h
  exact ⟨this.capLe, this.buf.fits⟩

/-- … in particular for the symbol-file parser. -/
theorem window_bounded (input : Bytes) (sched : List Nat) (s : St PState)
    (h : Reach MAX_BUFFER_CAPACITY symOps (init INITIAL_BUFFER_CAPACITY {} input sched) s) :
    s.buf.cap ≤ MAX_BUFFER_CAPACITY ∧ s.buf.data.length ≤ s.buf.cap := by
  have := window_bounded_machine symOps {} input sched s h
  exact ⟨this.1, by omega⟩

/-- the state in which the loop returns is bounded too -/
theorem window_bounded_final (input : Bytes) (sched : List Nat) (out : Out PState) (sf : St PState)
    (h : parseStream input sched = some (out, sf)) :
    sf.buf.cap ≤ MAX_BUFFER_CAPACITY ∧ sf.buf.data.length ≤ sf.buf.cap := by
  unfold parseStream at h
  have := (run_spec MAX_BUFFER_CAPACITY input symOps _ _ out sf
    (init_inv MAX_BUFFER_CAPACITY INITIAL_BUFFER_CAPACITY {} input sched consts_ok.1 consts_ok.2) h).1
  exact ⟨this.capLe, by have := this.buf.fits; omega⟩

/-- non-vacuity: a reachable state other than the initial one (a parser that accepts everything) -/
example : ∃ s, Reach MAX_BUFFER_CAPACITY (⟨fun _ w => .ok w.length (), id, fun _ => 0⟩ : Ops Unit)
    (init INITIAL_BUFFER_CAPACITY () [70, 10] []) s ∧ s.totalConsumed = 2 :=
  ⟨_, Reach.step Reach.refl rfl, rfl⟩


/-! ## "never panics" -/

/-- the symbol parser, as the loop sees it, never panics, never reports more bytes than the window
    holds, and keeps the invariant `PInv` (STACK WIN sizes are `u32`s, every stored range is a
    valid `Range`) under which none of its panic sites is reachable -/
theorem symOps_safe : ParserSafe symOps PInv :=
  ⟨fun st w h => parseMore_ok st w h, fun _ h => h.congr rfl rfl rfl rfl⟩

/-- `SymbolFile::parse` never takes a panic outcome — for every input and every chunk schedule:
    neither the loop (`&input[..consumed]`, `parse_more`: `insert_win_stack_info`'s `as u32` +
    `unwrap`, `finish_item`'s `into_rangemap_safe().unwrap()`, `Range::new`, the model's own loop
    fuel) nor the final `parser.finish()` (four more `into_rangemap_safe().unwrap()`). -/
theorem parse_no_panic (input : Bytes) (sched : List Nat) :
    (∃ f, (parseResult input sched).1 = .ok f) ∨ (∃ k l, (parseResult input sched).1 = .err k l) := by
  obtain ⟨⟨out, sf⟩, hr⟩ := parse_terminates input sched
  have hsafe := run_safe MAX_BUFFER_CAPACITY symOps PInv symOps_safe _ _ out sf PInv.init
    (by unfold parseStream at hr; exact hr)
  unfold parseResult
  rw [hr]
  cases out with
  | ok ps =>
    obtain ⟨f, hf⟩ := finish_ok ps (hsafe.2 ps rfl)
    exact Or.inl ⟨f, by simp only [hf]⟩
  | err k l => exact Or.inr ⟨k, l, rfl⟩
  | panic e => exact absurd rfl (hsafe.1 e)

/-- **C09, first sentence**: for every byte string and every chunk schedule, parsing returns a
    symbol table or a parse error — it is never a panic and never out of fuel. -/
theorem parse_total (input : Bytes) (sched : List Nat) :
    (∀ e, (parseResult input sched).1 ≠ .panic e) ∧ (parseResult input sched).1 ≠ .fuel := by
  rcases parse_no_panic input sched with ⟨f, h⟩ | ⟨k, l, h⟩
  · rw [h]; exact ⟨fun e he => (by cases he), fun he => (by cases he)⟩
  · rw [h]; exact ⟨fun e he => (by cases he), fun he => (by cases he)⟩


/-! ## "A single over-long line is dropped as corrupt rather than failing the parse or exhausting
       memory." -/

theorem consts_drop : (∃ k, INITIAL_BUFFER_CAPACITY * 2 ^ k = MAX_BUFFER_CAPACITY) ∧
    2 * MAX_BUFFER_CAPACITY ≤ U64MAX ∧ 0 < INITIAL_BUFFER_CAPACITY :=
  ⟨⟨4, by decide⟩, by decide, by decide⟩

/-- **`SymbolFile::parse` computes the reference semantics with dropped lines, for EVERY chunk
    schedule**: if every line of the input (terminator included) is either at most
    `MAX_BUFFER_CAPACITY/2` long or longer than `MAX_BUFFER_CAPACITY` (and the unterminated rest is
    shorter than half or at least the limit), the outcome is `specOutM`: the per-line step folded
    over the lines, where an over-long line ONLY advances the line counter (it is never handed to a
    record parser, never fails the parse), an over-long unterminated rest is dropped (`Ok`), a short
    one is `unexpected EOF`. -/
theorem stream_eq_specM (input : Bytes) (sched : List Nat)
    (hmix : Mixed (MAX_BUFFER_CAPACITY / 2) MAX_BUFFER_CAPACITY input) :
    ∃ sf, parseStream input sched =
      some (specOutM Lsym symOps.bumpLine symOps.lines MAX_BUFFER_CAPACITY {} input, sf) :=
  machine_eq_specM MAX_BUFFER_CAPACITY INITIAL_BUFFER_CAPACITY input symOps Lsym {} sched
    parseMore_eq consts_drop.2.1 consts_drop.2.2 consts_drop.1 hmix

/-- the outcome of a file `pre ++ [dropped line] ++ post` (`withLine = true`) and of `pre ++ post`
    (`withLine = false`), `pre` being complete lines: they differ ONLY in the line counter being
    advanced by one before `post` -/
def dropOutcome (pre : List Bytes) (post : Bytes) (withLine : Bool) : Out PState :=
  match foldLM Lsym symOps.bumpLine MAX_BUFFER_CAPACITY {} pre with
  | .ok st1 =>
    specRestM Lsym symOps.bumpLine symOps.lines MAX_BUFFER_CAPACITY
      (if withLine then symOps.bumpLine st1 else st1) (withLine || !pre.isEmpty) post
  | .err k n => .err k n
  | .panic e => .panic e

/-- **long_line_dropped** (DESIGN §6.C09.4, for arbitrary chunk schedules on both sides): a line
    whose content is at least `MAX_BUFFER_CAPACITY` bytes is dropped — parsing
    `pre ++ long ++ "\n" ++ post` gives the outcome of parsing `pre ++ post` with the line counter
    advanced by one at that point, whatever the chunking of either parse.  Hypothesis: the other
    lines are short (≤ 80 KiB with terminator) or over-long themselves (`Mixed`); lines in between
    are alignment dependent in the code and are excluded. -/
theorem long_line_dropped (pre : List Bytes) (hpre : ∀ l ∈ pre, IsLine l) (long post : Bytes)
    (hnl : Stream.NL ∉ long) (hlen : long.length ≥ MAX_BUFFER_CAPACITY) (sched sched' : List Nat)
    (hmix : Mixed (MAX_BUFFER_CAPACITY / 2) MAX_BUFFER_CAPACITY (pre.flatten ++ ((long ++ [Stream.NL]) ++ post))) :
    ∃ sf sf',
      parseStream (pre.flatten ++ ((long ++ [Stream.NL]) ++ post)) sched = some (dropOutcome pre post true, sf) ∧
      parseStream (pre.flatten ++ post) sched' = some (dropOutcome pre post false, sf') := by
  have hline : ∀ l ∈ [long ++ [Stream.NL]], IsLine l := by
    intro l hl; simp only [List.mem_singleton] at hl; rw [hl]; exact ⟨long, hnl, rfl⟩
  have hlong : (long ++ [Stream.NL]).length > MAX_BUFFER_CAPACITY := by simp; omega
  have e1 : pre.flatten ++ ((long ++ [Stream.NL]) ++ post) = pre.flatten ++ ([long ++ [Stream.NL]].flatten ++ post) := by
    simp
  -- the shorter file has the same kinds of lines
  have hmix' : Mixed (MAX_BUFFER_CAPACITY / 2) MAX_BUFFER_CAPACITY (pre.flatten ++ post) := by
    unfold Mixed at *
    rw [e1, linesOf_append_lines pre hpre, linesOf_append_lines _ hline] at hmix
    rw [linesOf_append_lines pre hpre]
    refine ⟨fun l hl => hmix.1 l ?_, hmix.2⟩
    rcases List.mem_append.mp hl with h | h
    · exact List.mem_append.mpr (Or.inl h)
    · exact List.mem_append.mpr (Or.inr (List.mem_append.mpr (Or.inr h)))
  obtain ⟨sf, h⟩ := stream_eq_specM _ sched hmix
  obtain ⟨sf', h'⟩ := stream_eq_specM _ sched' hmix'
  have key1 : specOutM Lsym symOps.bumpLine symOps.lines MAX_BUFFER_CAPACITY {}
      (pre.flatten ++ ((long ++ [Stream.NL]) ++ post)) = dropOutcome pre post true := by
    unfold specOutM dropOutcome
    cases hf : foldLM Lsym symOps.bumpLine MAX_BUFFER_CAPACITY {} pre with
    | err k n => exact specRestM_err _ _ _ _ _ _ pre hpre _ k n hf
    | panic e => exact specRestM_panic _ _ _ _ _ _ pre hpre _ e hf
    | ok st1 =>
      rw [specRestM_append _ _ _ _ _ st1 _ pre hpre _ hf]
      have e2 : (long ++ [Stream.NL]) ++ post = [long ++ [Stream.NL]].flatten ++ post := by simp
      rw [e2, specRestM_append _ _ _ _ st1 (symOps.bumpLine st1) _ [long ++ [Stream.NL]] hline post
        (by simp only [foldLM, if_pos hlong])]
      simp
  have key2 : specOutM Lsym symOps.bumpLine symOps.lines MAX_BUFFER_CAPACITY {}
      (pre.flatten ++ post) = dropOutcome pre post false := by
    unfold specOutM dropOutcome
    cases hf : foldLM Lsym symOps.bumpLine MAX_BUFFER_CAPACITY {} pre with
    | err k n => exact specRestM_err _ _ _ _ _ _ pre hpre _ k n hf
    | panic e => exact specRestM_panic _ _ _ _ _ _ pre hpre _ e hf
    | ok st1 =>
      rw [specRestM_append _ _ _ _ _ st1 _ pre hpre _ hf]
      simp
  exact ⟨sf, sf', by rw [h, key1], by rw [h', key2]⟩

/-- an over-long line is never handed to the record parsers: whatever `parse_more` is given fits
    the window, which never exceeds `MAX_BUFFER_CAPACITY` (`window_bounded`), and `parse_more` only
    parses the complete lines inside it (`MdProofs.C10.parse_more_linewise`). -/
theorem parsed_lines_fit (w : Bytes) (hw : w.length ≤ MAX_BUFFER_CAPACITY) :
    ∀ l ∈ (linesOf w).1, l.length ≤ MAX_BUFFER_CAPACITY := by
  intro l hl
  have h1 := length_le_flatten hl
  have h2 := congrArg List.length (linesOf_flatten w)
  simp only [List.length_append] at h2
  omega

/-- non-vacuity of the hypotheses of `long_line_dropped` / `stream_eq_specM` at the real limit: a
    MODULE line, then a line of `MAX_BUFFER_CAPACITY` bytes, then a short unterminated rest -/
example : Mixed (MAX_BUFFER_CAPACITY / 2) MAX_BUFFER_CAPACITY
    ([kw "MODULE a b c d\n"].flatten ++ ((List.replicate MAX_BUFFER_CAPACITY 120 ++ [Stream.NL]) ++ kw "FILE 1")) := by
  have hnl : Stream.NL ∉ List.replicate MAX_BUFFER_CAPACITY (120 : UInt8) := by
    intro h; have := List.eq_of_mem_replicate h; revert this; decide
  have h1 : ∀ l ∈ [kw "MODULE a b c d\n"], IsLine l := by
    intro l hl; simp only [List.mem_singleton] at hl; rw [hl]; exact ⟨kw "MODULE a b c d", by decide, by decide⟩
  have h2 : ∀ l ∈ [List.replicate MAX_BUFFER_CAPACITY (120 : UInt8) ++ [Stream.NL]], IsLine l := by
    intro l hl; simp only [List.mem_singleton] at hl; rw [hl]; exact ⟨_, hnl, rfl⟩
  have e : (List.replicate MAX_BUFFER_CAPACITY (120 : UInt8) ++ [Stream.NL]) ++ kw "FILE 1" =
      [List.replicate MAX_BUFFER_CAPACITY (120 : UInt8) ++ [Stream.NL]].flatten ++ kw "FILE 1" := by simp
  unfold Mixed
  rw [linesOf_append_lines _ h1, e, linesOf_append_lines _ h2, linesOf_noNL (kw "FILE 1") (by decide)]
  refine ⟨fun l hl => ?_, Or.inl (by decide)⟩
  simp only [List.append_nil, List.mem_append, List.mem_singleton] at hl
  rcases hl with h | h
  · rw [h]; exact Or.inl (by decide)
  · rw [h]; exact Or.inr (by simp)

/-- non-vacuity of `Mixed`: a file with a short line, an over-long line and a short unterminated
    rest (checked through the definition's decidable core on a scaled-down limit) -/
example : Mixed 4 8 (kw "ab\n0123456789\ncd") := by
  unfold Mixed
  decide

end MdModel.Sym
