/-
  C20 — The command-line tool exits cleanly and prints exactly what the library computes.

  Property text: "For every file given as the minidump and every accepted combination of output
  options, the command-line tool either exits with status 0 having written to its primary output
  exactly the report the library produces for the same options (text, brief text, JSON, pretty
  JSON, raw dump; the combined mode writes both; an output file receives what standard output
  would), or exits with status 1 with a diagnostic on standard error and nothing on the primary
  output. It never ends by panic, abort or signal, and rejected option combinations fail without
  producing a report."

  What a theorem can carry here is the *decision logic* of `main_result` (which reports go to which
  writer, for which options and which kind of input, and when the tool refuses). `cli` transcribes
  main.rs; `spec` is written from the option documentation. The flag space is finite, so the
  theorems quantify over ALL 2^6 flag sets × 3 input classes and are decided by evaluation.
  What no theorem here shows: that nothing below `main` panics for every file (that is C01 + C03),
  and that the bytes behind a `Report` are what the library prints — the engine `cli` runs the built
  binary over the whole option cross product on a corpus and compares with the library in-process.
-/
import MdModel.Cli
import MdProofs.C20Io
import MdProofs.C20Opts
import MdProofs.C20Dump
namespace MdModel.Cli

/-- all flag sets -/
def allFlags : List Flags :=
  let bs := [false, true]
  bs.flatMap fun h => bs.flatMap fun j => bs.flatMap fun c => bs.flatMap fun d =>
    bs.flatMap fun b => bs.map fun p => ⟨h, j, c, d, b, p⟩

def allInputs : List Input := [.unreadable, .unprocessable, .ok]

theorem allFlags_complete (f : Flags) : f ∈ allFlags := by
  obtain ⟨h, j, c, d, b, p⟩ := f
  cases h <;> cases j <;> cases c <;> cases d <;> cases b <;> cases p <;> decide

theorem allInputs_complete (i : Input) : i ∈ allInputs := by
  cases i <;> decide

/-- lift a check over the finite table to a ∀-statement -/
theorem forall_of_table (P : Flags → Input → Bool)
    (h : (allFlags.all fun f => allInputs.all fun i => P f i) = true) : ∀ f i, P f i = true := by
  intro f i
  have := List.all_eq_true.mp h f (allFlags_complete f)
  exact List.all_eq_true.mp this i (allInputs_complete i)

/-- **C20.1** the code's decision table is the documented one, for every flag set and input. -/
theorem cli_eq_spec : ∀ f i, cli f i = spec f i := by
  intro f i
  have := forall_of_table (fun f i => decide (cli f i = spec f i)) (by decide) f i
  simpa using this

/-- what the option documentation prescribes for an accepted command line on a processable file:
    which reports go to the primary output `p` and which to the cyborg file `c` -/
def prescribed (f : Flags) (p c : List Report) : Bool :=
  match modeOf f with
  | none => false
  | some .human => p == [if f.brief then .humanBrief else .human] && c == [] && !f.pretty
  | some .json => p == [if f.pretty then .jsonPretty else .json] && c == [] && !f.brief
  | some .cyborg => p == [if f.brief then .humanBrief else .human] &&
                    c == [if f.pretty then .jsonPretty else .json]
  | some .dump => p == [if f.brief then .dumpBrief else .dump] && c == [] && !f.pretty

/-- **C20.2** accepted options ⇒ exactly the prescribed reports on the prescribed writers.
    (`--output-file` only redirects the primary; it is not part of the decision.) -/
theorem accepted_reports (f : Flags) (p c : List Report) (h : cli f .ok = .exit0 p c) :
    prescribed f p c = true := by
  have ht := forall_of_table (fun f _ =>
    match cli f .ok with
    | .exit0 p c => prescribed f p c
    | _ => true) (by decide) f .ok
  rw [h] at ht
  exact ht

/-- … and conversely every prescribed outcome is produced (the tool does not refuse an accepted
    combination on a processable file). -/
theorem accepted_complete (f : Flags) (p c : List Report) (h : prescribed f p c = true) :
    cli f .ok = .exit0 p c := by
  have ht := forall_of_table (fun f _ =>
    match modeOf f with
    | none => true
    | some _ =>
      if (f.pretty && !(f.json || f.cyborg)) || (f.brief && f.json) then true
      else match cli f .ok with
        | .exit0 p c => prescribed f p c
        | _ => false) (by decide) f .ok
  revert h ht
  obtain ⟨hh, j, cy, d, b, pr⟩ := f
  cases hh <;> cases j <;> cases cy <;> cases d <;> cases b <;> cases pr <;>
    simp [prescribed, modeOf, cli, groupCount, b2n] <;> intros <;> simp_all

/-- **C20.3** rejected combinations never produce a report: `--pretty` without JSON output,
    `--brief` with JSON alone, and two formats at once. -/
theorem rejected_no_report (f : Flags) (i : Input) :
    (groupCount f > 1 → cli f i = .usage) ∧
    (groupCount f ≤ 1 → f.pretty = true → f.json = false → f.cyborg = false → cli f i = .exit1) ∧
    (groupCount f ≤ 1 → f.brief = true → f.json = true → cli f i = .exit1) := by
  have h := forall_of_table (fun f i =>
    (decide (groupCount f > 1 → cli f i = .usage)) &&
    (decide (groupCount f ≤ 1 → f.pretty = true → f.json = false → f.cyborg = false → cli f i = .exit1)) &&
    (decide (groupCount f ≤ 1 → f.brief = true → f.json = true → cli f i = .exit1))) (by decide) f i
  simp only [Bool.and_eq_true, decide_eq_true_eq] at h
  exact ⟨h.1.1, h.1.2, h.2⟩

/-- **C20.4** an unreadable file never yields a report, whatever the options; an unprocessable one
    yields one only in raw-dump mode (which does not process). -/
theorem failure_silent (f : Flags) :
    (∀ p c, cli f .unreadable ≠ .exit0 p c) ∧
    (∀ p c, cli f .unprocessable = .exit0 p c → f.dump = true) := by
  have h := forall_of_table (fun f _ =>
    (decide (∀ p ∈ [([] : List Report)], True)) &&
    (match cli f .unreadable with | .exit0 _ _ => false | _ => true) &&
    (match cli f .unprocessable with | .exit0 _ _ => f.dump | _ => true)) (by decide) f .ok
  simp only [Bool.and_eq_true] at h
  constructor
  · intro p c hc; rw [hc] at h; simp at h
  · intro p c hc; rw [hc] at h; simpa using h.2

/-- **C20.5** the outcome depends on the file only through its class, and a successful run writes
    at most two reports in total, at most one per kind of writer in cyborg mode. -/
theorem reports_bounded (f : Flags) (i : Input) (p c : List Report) (h : cli f i = .exit0 p c) :
    p.length + c.length ≤ 2 ∧ c.length ≤ 1 ∧ (c ≠ [] → f.cyborg = true) := by
  have ht := forall_of_table (fun f i =>
    match cli f i with
    | .exit0 p c => decide (p.length + c.length ≤ 2 ∧ c.length ≤ 1 ∧ (c ≠ [] → f.cyborg = true))
    | _ => true) (by decide) f i
  rw [h] at ht
  simp only [decide_eq_true_eq] at ht
  exact ht

/-! non-vacuity -/
example : cli ⟨false, false, true, false, true, true⟩ .ok = .exit0 [.humanBrief] [.jsonPretty] := by decide
example : cli ⟨false, true, false, false, false, true⟩ .ok = .exit0 [.jsonPretty] [] := by decide
example : cli ⟨false, false, false, true, true, false⟩ .unprocessable = .exit0 [.dumpBrief] [] := by decide
example : cli ⟨true, true, false, false, false, false⟩ .ok = .usage := by decide
example : cli ⟨false, false, false, false, false, true⟩ .ok = .exit1 := by decide

end MdModel.Cli
