/-
  C07 on the REAL `FrameWalker`: STACK WIN evaluation (`SymbolFile::walk_frame` →
  `walk_with_stack_win_framedata` / `_fpo` / `eval_win_expr` / `clear_stack_win_caller_registers`)
  running against `CfiStackWalker<CONTEXT_X86>`.

  C07's theorems (`MdProofs.C07`) are about `MdModel.Win`'s evaluator applied to its own
  six-register record `Win.Caller`; `MdProofs.C06Walker.x86_win_caller_refines` related single
  `set`/`clear` calls of that record to the model of the real walker (`MdModel.CfiWalker`, over the
  machine-translated register tables of C18). This file lifts that to the WHOLE walk:

    win_walk_refines                       C07's `walkSelected` on the record = `walkSelectedReal`
                                           on the real walker: same outcome, same `Some`/`None`,
                                           every register of CONTEXT_X86 with the same validity
                                           and value afterwards, callee half untouched
    real_reads                             what the evaluator reads of the real walker
    real_win_no_panic, real_outputs_only_six, real_framedata_caller, real_fpo_formulae
                                           C07's guarantees, for the real x86 walker
    real_win_forwarding_known_finding      the known finding C07-clear-dollar-names on the whole
                                           walk: the registers the record did not set are STILL
                                           valid (forwarded) after a successful walk
    real_win_no_forwarding_if_plain_names  what holds with the `$` stripped from the clear list
-/
import MdProofs.Lemmas.WinWalker
namespace MdModel.WinWalker
open MdModel MdModel.CfiWalker MdModel.Win MdModel.Gen.Regs MdModel.Regs

/-- The invariants of every walker the x86 unwinder builds: the context type is CONTEXT_X86, the
    callee's validity set names only its registers (C18's hypothesis), and the cells of the
    caller's context hold `u32` values (the fields of CONTEXT_X86 are `u32`). -/
structure X86Walker (w : CfiStackWalker) : Prop where
  cpu : w.cpu = .ctx .X86
  names : validityWf .X86 w.calleeValidity = true
  cells : ∀ s ∈ x86Regs, rawOf .X86 w.callerCtx s < 2 ^ 32

/-- a STACK CFI continuation on the real walker and its C07 counterpart act alike -/
def CfiRefines (cfiR : Option Script) (cfi : Option (Caller → Option Caller)) : Prop :=
  match cfiR, cfi with
  | none, none => True
  | some f, some g => ∀ w c, w.cpu = .ctx .X86 → Sim w c →
      match g c with
      | some c' => ∃ w', f w = .ok (true, w') ∧ SameCallee w w' ∧ Sim w' c'
      | none => ∃ w', f w = .ok (false, w')
  | _, _ => False

/-! ## 1. the whole STACK WIN walk on the real walker is C07's walk on its record -/

/-- the STACK WIN half (framedata preferred to fpo), for ANY clear list -/
theorem winResult_refines (w : CfiStackWalker) (hx : w.cpu = .ctx .X86) (c : Caller) (hsim : Sim w c)
    (names : List String) (fd fpo : Option SInfo) :
    (∀ s, winResult names fd fpo (readOf w) c = .panic s → winResultReal names fd fpo w = .panic s) ∧
    (∀ b c', winResult names fd fpo (readOf w) c = .ok (b, c') →
      ∃ w', winResultReal names fd fpo w = .ok (b, w') ∧ SameCallee w w' ∧ Sim w' c') := by
  have key : ∀ (p : Plan),
      ∃ w1 w', clearAllReal names w = .ok w1 ∧ readOf w1 = readOf w ∧
        runPlanReal w1 p = .ok ((runPlan (clearAll names c) p).1, w') ∧ SameCallee w w' ∧
        Sim w' (runPlan (clearAll names c) p).2 := by
    intro p
    obtain ⟨w1, w', h1, hsc1, h2, hsc, hs⟩ := runPlan_refines names p w hx c hsim
    exact ⟨w1, w', h1, hsc1.readOf, h2, hsc, hs⟩
  unfold winResult winResultReal
  cases fd with
  | some i =>
    simp only [walkFramedata, walkFramedataReal]
    cases ht : i.thing with
    | abp x => simp
    | prog expr =>
      simp only
      cases he : evalWin expr i.info (readOf w) with
      | panic s =>
        obtain ⟨w1, _, h1, hr, _⟩ := key { sets := [], done := false }
        simp [h1, hr, he]
      | ok p =>
        obtain ⟨w1, w', h1, hr, h2, hsc, hs⟩ := key p
        simp only [h1, hr, he, h2]
        refine ⟨by simp, ?_⟩
        intro b c' hbc
        simp only [Outcome.ok.injEq] at hbc
        rw [hbc] at hs
        refine ⟨w', ?_, hsc, hs⟩
        rw [hbc]
  | none =>
    cases fpo with
    | none =>
      simp only [Outcome.ok.injEq, Prod.mk.injEq]
      refine ⟨by simp, ?_⟩
      rintro b c' ⟨rfl, rfl⟩
      exact ⟨w, by simp, SameCallee.rfl' w, hsim⟩
    | some i =>
      simp only [walkFpo, walkFpoReal]
      cases ht : i.thing with
      | prog x => simp
      | abp x =>
        simp only
        cases he : fpoPlan i.info x (readOf w) with
        | panic s =>
          obtain ⟨w1, _, h1, hr, _⟩ := key { sets := [], done := false }
          simp [h1, hr, he]
        | ok p =>
          obtain ⟨w1, w', h1, hr, h2, hsc, hs⟩ := key p
          simp only [h1, hr, he, h2]
          refine ⟨by simp, ?_⟩
          intro b c' hbc
          simp only [Outcome.ok.injEq] at hbc
          rw [hbc] at hs
          refine ⟨w', ?_, hsc, hs⟩
          rw [hbc]

/-- **`win_walk_refines`.** For EVERY real x86 walker `w` (any register file, validity set, stack
    memory, grand callee, module, caller state), every C07 record `c` that agrees with its caller
    half on the ten registers of CONTEXT_X86 (`callerOf w` is one: `callerOf_sim`), every pair of
    selected STACK WIN records, every list of names `clear_stack_win_caller_registers` might pass
    and every STACK CFI continuation acting alike on both sides: `SymbolFile::walk_frame` on the real
    walker (`walkSelectedReal`: the real `clear_caller_register` / `set_caller_register`, reads
    through the validity set and the stack memory) and C07's `walkSelected` on the record
    * panic together (neither does: `real_win_no_panic`),
    * return the same `Some`/`None`,
    * leave every register `eip esp ebp ebx esi edi eax ecx edx eflags` with the same validity and,
      when valid, the same value (`Sim w' c'`: register by register, validity set by validity set),
    * and the real walk changes nothing but the caller context and validity set. -/
theorem win_walk_refines (w : CfiStackWalker) (hx : w.cpu = .ctx .X86) (c : Caller) (hsim : Sim w c)
    (names : List String) (fd fpo : Option SInfo)
    (cfiR : Option Script) (cfi : Option (Caller → Option Caller)) (hcfi : CfiRefines cfiR cfi) :
    (∀ s, walkSelected names fd fpo cfi (readOf w) c = .panic s →
      walkSelectedReal names fd fpo cfiR w = .panic s) ∧
    (∀ b c', walkSelected names fd fpo cfi (readOf w) c = .ok (b, c') →
      ∃ w', walkSelectedReal names fd fpo cfiR w = .ok (b, w') ∧ SameCallee w w' ∧ Sim w' c') := by
  obtain ⟨hp, hok⟩ := winResult_refines w hx c hsim names fd fpo
  unfold walkSelected walkSelectedReal
  cases hr : winResult names fd fpo (readOf w) c with
  | panic s =>
    rw [hp s hr]
    simp [orElseCfi, orElseCfiReal]
  | ok r =>
    obtain ⟨b, c1⟩ := r
    obtain ⟨w1, h1, hsc1, hs1⟩ := hok b c1 hr
    rw [h1]
    cases b with
    | true =>
      simp only [orElseCfi, orElseCfiReal]
      refine ⟨by simp, ?_⟩
      intro b c' hbc
      simp only [Outcome.ok.injEq, Prod.mk.injEq] at hbc
      obtain ⟨rfl, rfl⟩ := hbc
      exact ⟨w1, rfl, hsc1, hs1⟩
    | false =>
      cases cfiR with
      | none =>
        cases cfi with
        | some g => exact absurd hcfi (by simp [CfiRefines])
        | none =>
          simp only [orElseCfi, orElseCfiReal]
          refine ⟨by simp, ?_⟩
          intro b c' hbc
          simp only [Outcome.ok.injEq, Prod.mk.injEq] at hbc
          obtain ⟨rfl, rfl⟩ := hbc
          exact ⟨w1, rfl, hsc1, hs1⟩
      | some f =>
        cases cfi with
        | none => exact absurd hcfi (by simp [CfiRefines])
        | some g =>
          have h := hcfi w1 c1 (hsc1.cpu.trans hx) hs1
          simp only [orElseCfi, orElseCfiReal]
          cases hg : g c1 with
          | none =>
            rw [hg] at h
            obtain ⟨w2, h2⟩ := h
            simp only [h2]
            refine ⟨by simp, ?_⟩
            intro b c' hbc
            simp only [Outcome.ok.injEq, Prod.mk.injEq] at hbc
            obtain ⟨rfl, rfl⟩ := hbc
            exact ⟨w1, rfl, hsc1, hs1⟩
          | some c2 =>
            rw [hg] at h
            obtain ⟨w2, h2, hsc2, hs2⟩ := h
            simp only [h2]
            refine ⟨by simp, ?_⟩
            intro b c' hbc
            simp only [Outcome.ok.injEq, Prod.mk.injEq] at hbc
            obtain ⟨rfl, rfl⟩ := hbc
            exact ⟨w2, rfl, hsc1.trans hsc2, hs2⟩

/-- **what the evaluator reads of the real walker**: a callee register is `Some` iff the context
    type knows the name and the callee's validity set covers the register (C06Walker's
    `calleeView`: C18 `validity_honoured`), truncated by `as u32`; a memory word is the 4-byte read
    of the stack memory in the dump's byte order; the grand callee as the walker stores it. -/
theorem real_reads (w : CfiStackWalker) (hw : X86Walker w) :
    (∀ n, (readOf w).reg n = (calleeView w n).map UInt32.ofNat) ∧
    (∀ a, (readOf w).mem a = (w.stack.read a 4).map UInt32.ofNat) ∧
    (readOf w).hasGC = w.hasGrandCallee ∧
    (readOf w).gcParam = UInt32.ofNat w.grandCalleeParameterSize := by
  refine ⟨fun n => ?_, fun a => ?_, rfl, rfl⟩
  · have hn : validityWf w.cpu.tbl w.calleeValidity = true := by rw [hw.cpu]; exact hw.names
    show (okOr none (w.getCalleeRegister n)).map UInt32.ofNat = _
    rw [getCalleeRegister_eq w hn n]; rfl
  · show (w.getRegisterAtAddress a).map UInt32.ofNat = _
    unfold CfiStackWalker.getRegisterAtAddress
    rw [hw.cpu]; rfl

/-! ## 2. C07's guarantees on the real x86 walker -/

/-- **`win_no_panic` on the real walker**: for records of the kinds the parser files, any program
    text, size fields, register file, validity set, stack memory, grand callee and caller state —
    `SymbolFile::walk_frame` on `CfiStackWalker<CONTEXT_X86>` returns; no panic outcome. -/
theorem real_win_no_panic (w : CfiStackWalker) (hw : X86Walker w) (names : List String)
    (fd fpo : Option SInfo)
    (hfd : ∀ i, fd = some i → ∃ e, i.thing = .prog e)
    (hfpo : ∀ i, fpo = some i → ∃ b, i.thing = .abp b)
    (cfiR : Option Script) (cfi : Option (Caller → Option Caller)) (hcfi : CfiRefines cfiR cfi) :
    ∃ r, walkSelectedReal names fd fpo cfiR w = .ok r := by
  obtain ⟨⟨b, c'⟩, hr⟩ := win_no_panic names fd fpo hfd hfpo cfi (readOf w) (callerOf w)
  obtain ⟨w', h, _⟩ := (win_walk_refines w hw.cpu _ (callerOf_sim w hw.cells) names fd fpo cfiR cfi hcfi).2 b c' hr
  exact ⟨_, h⟩

/-- **`outputs_only_six` on the real walker**: whatever STACK WIN record is selected, success or
    failure, a register of CONTEXT_X86 outside `eip esp ebp ebx esi edi` cannot become valid, and
    if the frame reports it, it reports the value it had before. -/
theorem real_outputs_only_six (w : CfiStackWalker) (hw : X86Walker w) (names : List String)
    (fd fpo : Option SInfo) (b : Bool) (w' : CfiStackWalker)
    (h : winResultReal names fd fpo w = .ok (b, w')) (r : String) (hr : r ∈ x86Regs)
    (hout : r ∉ outputRegs) :
    r ∈ w'.callerValidity →
      r ∈ w.callerValidity ∧ rawOf .X86 w'.callerCtx r = rawOf .X86 w.callerCtx r := by
  have hsim := callerOf_sim w hw.cells
  obtain ⟨hp, hok⟩ := winResult_refines w hw.cpu _ hsim names fd fpo
  cases hc : winResult names fd fpo (readOf w) (callerOf w) with
  | panic s => rw [hp s hc] at h; cases h
  | ok res =>
    obtain ⟨b1, c'⟩ := res
    obtain ⟨w1, h1, _, hs1⟩ := hok b1 c' hc
    rw [h1] at h
    simp only [Outcome.ok.injEq, Prod.mk.injEq] at h
    obtain ⟨rfl, rfl⟩ := h
    obtain ⟨hv, hval⟩ := outputs_only_six hc hout
    intro hin
    have h1' := (hs1 r hr).1.mpr hin
    have h0 := hv h1'
    refine ⟨((hsim r hr).1).mp h0, ?_⟩
    have e1 := (hs1 r hr).2 h1'
    have e0 := (hsim r hr).2 h0
    rw [hval, e0] at e1
    simpa using e1.symm

/-- **the caller after a successful program string, on the real walker** (C07 `framedata_caller`,
    `assign`/`.undef` semantics through `finalVars`): with `vs` the variable map at the end of the
    program evaluated against the real walker's reads, the walk succeeds, a register of
    CONTEXT_X86 is valid afterwards iff it was valid before and is not cleared (named by the clear
    list AND a name of the context type) or the program left `$<reg>` defined (one of the six);
    and every defined `$<reg>` is the register's value. -/
theorem real_framedata_caller (w : CfiStackWalker) (hw : X86Walker w) (names : List String)
    (i : SInfo) (expr : List Char) (vs : Vars) (hi : i.thing = .prog expr)
    (hv : finalVars expr i.info (readOf w) = .ok vs) :
    ∃ w', walkFramedataReal names i w = .ok (true, w') ∧ SameCallee w w' ∧
      (∀ r ∈ x86Regs, r ∈ w'.callerValidity ↔
        (r ∈ w.callerValidity ∧ ¬ (r ∈ names ∧ r ∈ x86Regs)) ∨
          (r ∈ outputRegs ∧ ∃ u, vs.get ("$" ++ r) = some u)) ∧
      (∀ r ∈ outputRegs, ∀ u, vs.get ("$" ++ r) = some u →
        rawOf .X86 w'.callerCtx r = u.toNat) := by
  have hsim := callerOf_sim w hw.cells
  obtain ⟨c', hc'⟩ := framedata_succeeds (names := names) (callerOf w) hi hv
  obtain ⟨_, hok⟩ := winResult_refines w hw.cpu _ hsim names (some i) none
  obtain ⟨w', h1, hsc, hs⟩ := hok true c' hc'
  obtain ⟨hvalid, hvals⟩ := framedata_caller hi hv hc'
  refine ⟨w', h1, hsc, ?_, ?_⟩
  · intro r hr
    rw [← (hs r hr).1, hvalid r, (hsim r hr).1]
  · intro r hr u hu
    have hx86 := six_sub_x86 r hr
    have hin : r ∈ c'.valid := (hvalid r).mpr (Or.inr ⟨hr, u, hu⟩)
    have e := (hs r hx86).2 hin
    rw [hvals r hr u hu] at e
    simpa using e.symm

/-- **the known finding C07-clear-dollar-names, on the whole walk of the REAL walker**: with the
    names `clear_stack_win_caller_registers` passes today (`$eip … $edi`) the clear is a no-op
    (`x86_clear_dollar_noop`), so after EVERY successful program string every register that was
    valid in the walker before — the callee-saved registers `callee_forwarded_regs` seeded — is
    STILL valid, whether the record set it or not: a register is valid afterwards iff it was
    forwarded or the program defined it. This contradicts "registers the record did not set are
    unknown in the caller" whenever a forwarded register is not assigned (witness: the example
    below, and `corpus/win/rw.txt`). -/
theorem real_win_forwarding_known_finding (w : CfiStackWalker) (hw : X86Walker w)
    (i : SInfo) (expr : List Char) (vs : Vars) (hi : i.thing = .prog expr)
    (hv : finalVars expr i.info (readOf w) = .ok vs) :
    clearAllReal clearNamesActual w = .ok w ∧
    ∃ w', walkFramedataReal clearNamesActual i w = .ok (true, w') ∧
      (∀ r ∈ x86Regs, r ∈ w'.callerValidity ↔
        r ∈ w.callerValidity ∨ (r ∈ outputRegs ∧ ∃ u, vs.get ("$" ++ r) = some u)) ∧
      (∀ r ∈ x86Regs, r ∈ w.callerValidity → vs.get ("$" ++ r) = none →
        r ∈ w'.callerValidity ∧ rawOf .X86 w'.callerCtx r = rawOf .X86 w.callerCtx r) := by
  refine ⟨(x86_clear_dollar_noop w hw.cpu).2, ?_⟩
  obtain ⟨w', h1, hsc, hvalid, hvals⟩ := real_framedata_caller w hw clearNamesActual i expr vs hi hv
  have hno : ∀ r, r ∈ x86Regs → ¬ (r ∈ clearNamesActual ∧ r ∈ x86Regs) := by
    intro r _ h
    have : ∀ n ∈ clearNamesActual, n ∉ x86Regs := by decide
    exact this r h.1 h.2
  have hiff : ∀ r ∈ x86Regs, r ∈ w'.callerValidity ↔
      r ∈ w.callerValidity ∨ (r ∈ outputRegs ∧ ∃ u, vs.get ("$" ++ r) = some u) := by
    intro r hr
    rw [hvalid r hr]
    constructor
    · rintro (⟨h, _⟩ | h)
      · exact Or.inl h
      · exact Or.inr h
    · rintro (h | h)
      · exact Or.inl ⟨h, hno r hr⟩
      · exact Or.inr h
  refine ⟨w', h1, hiff, ?_⟩
  intro r hr hin hnone
  refine ⟨(hiff r hr).mpr (Or.inl hin), ?_⟩
  -- the value: through the record, whose walk leaves `r` alone
  have hsim := callerOf_sim w hw.cells
  obtain ⟨c', hc'⟩ := framedata_succeeds (names := clearNamesActual) (callerOf w) hi hv
  obtain ⟨_, hok⟩ := winResult_refines w hw.cpu _ hsim clearNamesActual (some i) none
  obtain ⟨w2, h2, _, hs⟩ := hok true c' hc'
  have hw2 : w2 = w' := by
    have : winResultReal clearNamesActual (some i) none w = walkFramedataReal clearNamesActual i w := rfl
    rw [this, h1] at h2
    simp only [Outcome.ok.injEq, Prod.mk.injEq, true_and] at h2
    exact h2.symm
  subst hw2
  have hc0 : walkFramedata clearNamesActual i (readOf w) (callerOf w) = .ok (true, c') := hc'
  simp only [walkFramedata, hi, evalWin, hv, Outcome.ok.injEq] at hc0
  have hfr := (runPlan_frame (r := r) hc0 (by
    intro hm
    obtain ⟨⟨r', v⟩, hsm, hrv⟩ := List.mem_map.mp hm
    simp only at hrv; subst hrv
    obtain ⟨_, u, hu, _⟩ := mem_outputs.mp hsm
    rw [hnone] at hu; cases hu)).2
  have hin' : r ∈ w2.callerValidity := (hiff r hr).mpr (Or.inl hin)
  have hc'in : r ∈ c'.valid := (hs r hr).1.mpr hin'
  have h0in : r ∈ (callerOf w).valid := (hsim r hr).1.mpr hin
  have e1 := (hs r hr).2 hc'in
  have e0 := (hsim r hr).2 h0in
  rw [hfr, e0] at e1
  simpa using e1.symm

/-- **what would hold with the `$` stripped** (`clearNamesFixed`, the proposed patch), on the real
    walker: after a successful program string one of the six registers is valid in the caller iff
    the program left `$<reg>` defined, and then it holds that value — nothing is forwarded. -/
theorem real_win_no_forwarding_if_plain_names (w : CfiStackWalker) (hw : X86Walker w)
    (i : SInfo) (expr : List Char) (vs : Vars) (hi : i.thing = .prog expr)
    (hv : finalVars expr i.info (readOf w) = .ok vs) :
    ∃ w', walkFramedataReal clearNamesFixed i w = .ok (true, w') ∧
      ∀ r ∈ outputRegs, (r ∈ w'.callerValidity ↔ ∃ u, vs.get ("$" ++ r) = some u) ∧
        ∀ u, vs.get ("$" ++ r) = some u → rawOf .X86 w'.callerCtx r = u.toNat := by
  obtain ⟨w', h1, _, hvalid, hvals⟩ := real_framedata_caller w hw clearNamesFixed i expr vs hi hv
  refine ⟨w', h1, ?_⟩
  intro r hr
  have hx86 := six_sub_x86 r hr
  have hn : r ∈ clearNamesFixed := hr
  refine ⟨?_, hvals r hr⟩
  rw [hvalid r hx86]
  constructor
  · rintro (⟨_, h3⟩ | ⟨_, h3⟩)
    · exact absurd ⟨hn, hx86⟩ h3
    · exact h3
  · intro h3; exact Or.inr ⟨hr, h3⟩

/-! ## 3. concrete instances (non-vacuity) -/

/-- a real x86 walker: callee `esp=0x1000 ebp=0x1020 esi=0x51 edi=0xd1` (all valid), the four
    callee-saved registers forwarded, sixteen stack words `0x401000+i` at `0x1000` -/
def exRw : CfiStackWalker :=
  let st := (((Regs.State.zero.write ⟨"esp", none⟩ 0x1000).write ⟨"ebp", none⟩ 0x1020).write
    ⟨"esi", none⟩ 0x51).write ⟨"edi", none⟩ 0xd1
  { cpu := .ctx .X86, instruction := 0x401005, hasGrandCallee := false, grandCalleeParameterSize := 0,
    calleeCtx := st, calleeValidity := .all, callerCtx := st,
    callerValidity := ["ebp", "ebx", "edi", "esi"], moduleBase := 0x400000,
    stack := { base := 0x1000,
               bytes := (List.range 16).flatMap fun i => [UInt8.ofNat i, 0x10, 0x40, 0], bigEndian := false } }

/-- the record of the known finding's witness: `$eip .raSearch ^ = $esp .raSearch 4 + =` -/
def exRec : SInfo := { info := ⟨0, 0, 8⟩, thing := .prog witnessProg }

theorem exRw_x86 : X86Walker exRw := by
  refine ⟨rfl, rfl, ?_⟩
  intro s hs
  simp only [x86Regs, List.mem_cons, List.not_mem_nil, or_false] at hs
  rcases hs with rfl | rfl | rfl | rfl | rfl | rfl | rfl | rfl | rfl | rfl <;> decide +kernel

-- the hypothesis set of `win_walk_refines`: `callerOf` is a record that agrees with the walker
example : Sim exRw (callerOf exRw) := callerOf_sim exRw exRw_x86.cells

-- a CFI continuation acting alike on both sides (here: one that always fails)
example : CfiRefines (some fun w => .ok (false, w)) (some fun _ => none) :=
  fun w _ _ _ => ⟨w, rfl⟩

-- the hypotheses of `real_framedata_caller` / `real_win_forwarding_known_finding` are satisfiable,
-- and the finding shows on the model of the REAL walker: the program defines only `$eip`/`$esp`
-- (`.raSearch` = esp + 8 = 0x1008, the word there is 0x401002), yet `ebp ebx edi esi` are still
-- valid afterwards, `esi` with the callee's value 0x51
example : (match finalVars witnessProg exRec.info (readOf exRw) with
    | .ok vs => (vs.get "$eip", vs.get "$esp", vs.get "$esi", vs.get "$edi")
    | _ => (none, none, none, none)) = (some 0x401002, some 0x100c, none, none) := by decide +kernel

example : (match walkFramedataReal clearNamesActual exRec exRw with
    | .ok (b, w') => some (b, w'.callerValidity, callerView w' "eip", callerView w' "esp", callerView w' "esi")
    | .panic _ => none) =
    some (true, ["ebp", "ebx", "edi", "esi", "eip", "esp"], some 0x401002, some 0x100c, some 0x51) := by
  decide +kernel

-- with the `$` stripped from the clear list nothing is forwarded (`$ebp`/`$ebx` are variables the
-- evaluator initialises from the callee, so the program itself reports them; `esi`/`edi` are unknown)
example : (match walkFramedataReal clearNamesFixed exRec exRw with
    | .ok (b, w') => some (b, w'.callerValidity)
    | .panic _ => none) = some (true, ["eip", "esp", "ebp", "ebx"]) := by decide +kernel

-- fpo on the real walker (no base pointer): `ebx` is not valid in the callee? it is (`.all`): passed
-- through, `eip = *(esp + 8)`, `esp = esp + 12`, `ebp` = the callee's
example : (match walkFpoReal clearNamesActual { info := ⟨0, 0, 8⟩, thing := .abp false } exRw with
    | .ok (b, w') => some (b, callerView w' "eip", callerView w' "esp", callerView w' "ebp", callerView w' "ebx")
    | .panic _ => none) = some (true, some 0x401002, some 0x100c, some 0x1020, some 0) := by decide +kernel

end MdModel.WinWalker
