/-
  C05 — Every produced call stack is well-formed and makes progress.

  Property text: "For arbitrary register contexts, stack bytes, module lists and symbol files, any
  returned call stack starts with the context frame (exact instruction pointer, trust 'context'),
  and every later frame has a return address of at least 4096 with its lookup address set back by
  the architecture's call adjustment and a trust of cfi, frame-pointer or scan. Stack pointers
  strictly increase from callee to caller (ARM, ARM64 and MIPS may repeat it only between the first
  two frames), each scanned frame's return address is the word stored just below its stack pointer
  inside the thread's stack memory, and a frame's module and function, when present, cover its
  address."

  The theorems are about `MdModel.Walk.walk` (`walk_stack` + the six `get_caller_frame`s), the model
  the compiled driver executes and the `walk` engine compares with `minidump_unwind::walk_stack`
  on every run. They hold for EVERY environment `env : Env`: the result of CFI / STACK WIN
  evaluation (`env.cfi`), the symbol test used by scanning (`env.instrOk`), symbolication
  (`env.symb`) and the ptr-auth mask are arbitrary functions/values — "whatever a symbol file
  says". Only the last clause (module/function cover the address) is about the concrete
  environment `mkEnv` built from a module list and symbol records, and rests on C08's theorems.

  `walk` is total (a `List Frame`): no arithmetic of the unwinders can overflow any more — the
  Windows-x64 frame-pointer probe used to (found by the `walk` engine, repaired in /repo by
  90f11fe, `checked_add`); the model follows the repaired code.
-/
import MdProofs.Lemmas.Walk
import MdProofs.Lemmas.WalkSym
namespace MdModel.Walk
open MdModel

/-- the stack memory the walk really uses: one without a `memory_range()` is dropped (lib.rs:749) -/
def usedMem (mem : Option Mem) : Option Mem := mem.bind fun m => m.range?.map fun _ => m

/-- **The invariant of the property**, for a call stack `fs` returned for context `ctx0`. -/
structure WF (arch : Arch) (mem : Option Mem) (ctx0 : Ctx) (fs : List Frame) : Prop where
  /-- "starts with the context frame (exact instruction pointer, trust 'context')" -/
  head : ∃ f0 rest, fs = f0 :: rest ∧ f0.trust = .context ∧ f0.ctx = ctx0 ∧ f0.instruction = ctx0.ip
  /-- every later frame `f = fs[i+1]` with its callee `p = fs[i]` -/
  later : ∀ (i : Nat) (h : i + 1 < fs.length),
    -- "a trust of cfi, frame-pointer or scan"
    (fs[i + 1].trust = .cfi ∨ fs[i + 1].trust = .fp ∨ fs[i + 1].trust = .scan) ∧
    -- "a return address of at least 4096"
    4096 ≤ fs[i + 1].ctx.ip ∧
    -- "its lookup address set back by the architecture's call adjustment" (no underflow: 4096 ≥ adj)
    fs[i + 1].instruction = fs[i + 1].ctx.ip - arch.adj ∧ arch.adj ≤ fs[i + 1].ctx.ip ∧
    -- "stack pointers strictly increase from callee to caller (ARM, ARM64 and MIPS may repeat it
    --  only between the first two frames)"
    (fs[i].ctx.sp < fs[i + 1].ctx.sp ∨ (i = 0 ∧ arch.leafOk = true ∧ fs[i + 1].ctx.sp = fs[i].ctx.sp)) ∧
    -- "each scanned frame's return address is the word stored just below its stack pointer inside
    --  the thread's stack memory" (a pointer-sized little-endian word; on MIPS the width is that of
    --  the mode the callee frame was unwound in)
    (fs[i + 1].trust = .scan → ∃ m, mem = some m ∧
      (effArch arch fs[i].ctx).ptr ≤ fs[i + 1].ctx.sp ∧
      m.read (fs[i + 1].ctx.sp - (effArch arch fs[i].ctx).ptr) (effArch arch fs[i].ctx).ptr = some fs[i + 1].ctx.ip)

theorem chain_index {arch : Arch} {mem : Mem} :
    ∀ (rest : List Frame) (p : Frame), Chain arch mem p rest →
      ∀ (i : Nat) (h : i + 1 < (p :: rest).length), Link arch mem (p :: rest)[i] (p :: rest)[i + 1] := by
  intro rest
  induction rest with
  | nil => intro p _ i h; simp at h
  | cons f t ih =>
    intro p hc i h
    obtain ⟨hl, ht⟩ := hc
    cases i with
    | zero => exact hl
    | succ j =>
      have := ih f ht j (by simpa using h)
      simpa using this

/-- **C05 (main theorem).** Whatever the register context, the validity set, the stack memory (or
    its absence), the CFI oracle, the symbol test, symbolication and the mask are: the returned call
    stack satisfies the invariant. -/
theorem walk_wf (env : Env) (mem : Option Mem) (ctx : Ctx) :
    WF env.arch (usedMem mem) ctx (walk env mem ctx) := by
  unfold walk
  simp only
  split
  · exact ⟨⟨_, [], rfl, rfl, rfl, rfl⟩, fun i hi => by simp at hi⟩
  · rename_i m hm
    obtain ⟨rest, hfs, hc⟩ := walkLoop_chain (env := env) (mem := m) (walkFuel m) (Frame.ofCtx ctx .context) none
    rw [hfs]
    refine ⟨⟨_, rest, rfl, rfl, rfl, rfl⟩, ?_⟩
    intro i hi
    have hl := chain_index rest _ hc i hi
    have hadj : env.arch.adj ≤ 4096 := by have := adj_le_nullish env.arch; rw [nullish_eq] at this; exact this
    refine ⟨hl.trust, hl.ip, hl.instr, by have := hl.ip; omega, ?_, ?_⟩
    · rcases hl.sp with h1 | ⟨h1, h2, h3⟩
      · exact Or.inl h1
      · right
        refine ⟨?_, h1, h3⟩
        -- only frame 0 has trust `context`: every later frame was returned by `get_caller_frame`
        cases i with
        | zero => rfl
        | succ j =>
          have hp := (chain_index rest _ hc j (by omega)).trust
          rw [h2] at hp
          rcases hp with hp | hp | hp <;> cases hp
    · intro hs
      exact ⟨m, hm, (hl.scan hs).1, (hl.scan hs).2⟩

/-- **C03 (walk bound), also part of "makes progress".** No thread is walked for more frames than
    its stack memory has bytes, plus two. -/
theorem walk_bound (env : Env) (mem : Option Mem) (ctx : Ctx) :
    (walk env mem ctx).length ≤ (mem.map Mem.size).getD 0 + 2 := by
  unfold walk
  simp only
  split
  · simp
  · rename_i m hm
    have h1 := walkLoop_length (env := env) (mem := m) (walkFuel m) (Frame.ofCtx ctx .context) none
    have h2 := need_context_le m ctx
    have hmm : mem = some m := by
      cases mem with
      | none => simp at hm
      | some m' =>
        simp only [Option.bind_some, Option.map_eq_some_iff] at hm
        obtain ⟨_, _, rfl⟩ := hm
        rfl
    subst hmm
    simp only [Option.map_some, Option.getD_some]
    unfold walkFuel at h2
    omega

/-- **Termination with an explicit fuel bound.** The loop of `walk_stack` stops by itself within
    `stack bytes + 2` iterations: any larger fuel gives the same outcome (so the fuel of the model is
    never what ends a walk). -/
theorem walk_fuel_enough (env : Env) (m : Mem) (ctx : Ctx) (n : Nat) (hn : walkFuel m ≤ n) :
    walkLoop env m n (Frame.ofCtx ctx .context) none =
      walkLoop env m (walkFuel m) (Frame.ofCtx ctx .context) none :=
  walkLoop_fuel n (walkFuel m) _ _ (Nat.le_trans (need_context_le m ctx) hn) (need_context_le m ctx)

/-! ## "a frame's module and function, when present, cover its address" -/

/-- every frame of a returned stack carries exactly what `fill_source_line_info` computes for its
    lookup address -/
def Symbolised (env : Env) (f : Frame) : Prop :=
  f.module = (env.symb f.instruction).1 ∧
  f.func = (if (env.symb f.instruction).1.isSome then (env.symb f.instruction).2 else none)

theorem walkLoop_symbolised {env : Env} {mem : Mem} :
    ∀ (n : Nat) (f : Frame) (g : Option Frame), ∀ x ∈ walkLoop env mem n f g, Symbolised env x := by
  intro n
  induction n with
  | zero =>
    intro f g x hx
    simp only [walkLoop, List.mem_singleton] at hx
    subst hx; exact ⟨rfl, rfl⟩
  | succ n ih =>
    intro f g x hx
    simp only [walkLoop] at hx
    split at hx
    · simp only [List.mem_singleton] at hx
      subst hx; exact ⟨rfl, rfl⟩
    · split at hx
      · simp only [List.mem_singleton] at hx
        subst hx; exact ⟨rfl, rfl⟩
      · rcases List.mem_cons.mp hx with hx | hx
        · subst hx; exact ⟨rfl, rfl⟩
        · exact ih _ _ x hx

theorem walk_symbolised (env : Env) (mem : Option Mem) (ctx : Ctx) :
    ∀ x ∈ walk env mem ctx, Symbolised env x := by
  unfold walk
  simp only
  split
  · intro x hx
    simp only [List.mem_singleton] at hx
    subst hx; exact ⟨rfl, rfl⟩
  · exact walkLoop_symbolised _ _ _

/-- the module (by position in the list) contains the lookup address; the function is a FUNC of the
    module's symbol records whose range contains it, or a PUBLIC at or below it -/
def Covered (w : World) (f : Frame) : Prop :=
  (∀ i, f.module = some i → ∃ m, w.mods[i]? = some m ∧ m.base ≤ f.instruction ∧ f.instruction < m.base + m.size) ∧
  (∀ g, f.func = some g → ∃ i m sf, f.module = some i ∧ w.mods[i]? = some m ∧ w.syms[i]? = some (some sf) ∧
      FuncCovers sf m.base f.instruction g)

theorem symbOf_sound (w : World) (instr : Nat) :
    let r := symbOf w (modTable w.mods) (w.syms.map fun s => match s with
        | some sf => funcTable sf
        | none => []) instr
    (∀ i, r.1 = some i → ∃ m, w.mods[i]? = some m ∧ m.base ≤ instr ∧ instr < m.base + m.size) ∧
    (∀ g, r.2 = some g → ∃ i m sf, r.1 = some i ∧ w.mods[i]? = some m ∧ w.syms[i]? = some (some sf) ∧
        FuncCovers sf m.base instr g) := by
  simp only
  unfold symbOf
  split
  · exact ⟨fun i h => by simp at h, fun g h => by simp at h⟩
  · rename_i i hi
    have hmod := moduleAt_sound _ _ _ hi
    split
    · rename_i m sf ft hm hsf hft
      refine ⟨fun j hj => by cases hj; exact hmod, ?_⟩
      intro g hg
      simp only at hg
      have hs : w.syms[i]? = some (some sf) := by
        cases hq : w.syms[i]? with
        | none => rw [hq] at hsf; cases hsf
        | some o => rw [hq] at hsf; simp only [Option.join_some] at hsf; rw [hsf]
      have hft' : ft = funcTable sf := by
        simp only [List.getElem?_map, hs, Option.map_some] at hft
        injection hft with hft
        exact hft.symm
      subst hft'
      exact ⟨i, m, sf, rfl, hm, hs, fillSymbol_sound _ _ _ _ hg⟩
    · exact ⟨fun j hj => by cases hj; exact hmod, fun g h => by cases h⟩

/-- **C05, last clause.** For the environment built from a module list and symbol records, every
    frame of a returned stack is covered by its module and function (on top of C08: `get_sound`,
    `getP_sound`). -/
theorem walk_covered (arch : Arch) (os : Os) (w : World) (mem0 : Mem) (mem : Option Mem) (ctx : Ctx) :
    ∀ f ∈ walk (mkEnv arch os w mem0) mem ctx, Covered w f := by
  intro f hf
  obtain ⟨h1, h2⟩ := walk_symbolised _ _ _ f hf
  have hs := symbOf_sound w f.instruction
  simp only at hs
  have e : (mkEnv arch os w mem0).symb = symbOf w (modTable w.mods) (w.syms.map fun s => match s with
        | some sf => funcTable sf
        | none => []) := rfl
  rw [e] at h1 h2
  refine ⟨fun i hi => hs.1 i (by rw [← h1]; exact hi), ?_⟩
  intro g hg
  rw [h2] at hg
  split at hg
  · obtain ⟨i, m, sf, a, b, c, d⟩ := hs.2 g hg
    exact ⟨i, m, sf, by rw [h1]; exact a, b, c, d⟩
  · cases hg

/-! ## non-vacuity: concrete walks (abstract environment without CFI; every scanned word passes) -/

def exEnv (a : Arch) (os : Os) : Env :=
  { arch := a, os := os, cfi := fun _ _ => none, instrOk := fun _ => true,
    symb := fun _ => (none, none), mask := 2 ^ 48 - 1 }

/-- amd64: stack at 0x1000, `rbp` → saved rbp 0x1020, return address 0x5000; then one scan frame -/
def exMem : Mem :=
  { base := 4096, bytes := #[0x20, 0x10, 0, 0, 0, 0, 0, 0,  0x00, 0x50, 0, 0, 0, 0, 0, 0,
                              0, 0, 0, 0, 0, 0, 0, 0,        0x00, 0x60, 0, 0, 0, 0, 0, 0,
                              0, 0, 0, 0, 0, 0, 0, 0 ] }

example : walk (exEnv .amd64 .other) (some exMem) { ip := 0x7000, sp := 4096, rest := [("rbp", 4096)] } =
    [ { ctx := { ip := 0x7000, sp := 4096, rest := [("rbp", 4096)] }, trust := .context, instruction := 0x7000 },
          { ctx := { ip := 0x5000, sp := 4112, rest := [("rbp", 0x1020)], valid := some ["rip", "rsp", "rbp"] },
            trust := .fp, instruction := 0x4fff },
          { ctx := { ip := 0x6000, sp := 4128, rest := [("rbp", 0x1020)], valid := some ["rip", "rsp", "rbp"] },
            trust := .scan, instruction := 0x5fff } ] := by
  rfl

/-- ARM64 leaf: CFI oracle returning the same stack pointer for the context frame is accepted once -/
example : walk { exEnv .arm64 .other with cfi := fun f _ => if f.trust = .context then some { ip := 0x9000, sp := 4096 } else none }
      (some { base := 4096, bytes := #[0x20, 0x10, 0, 0, 0, 0, 0, 0, 0, 0, 0, 0, 0, 0, 0, 0] }) { ip := 0x7000, sp := 4096 } =
    [ { ctx := { ip := 0x7000, sp := 4096 }, trust := .context, instruction := 0x7000 },
          { ctx := { ip := 0x9000, sp := 4096 }, trust := .cfi, instruction := 0x8ffc },
          { ctx := { ip := 0x1020, sp := 4104, valid := some ["pc", "sp"] }, trust := .scan, instruction := 0x101c } ] := by
  rfl

/-- the Windows-x64 probe with `rbp` 24 bytes below 2^64: the second probe step does not fit `u64`
    and ends the search (this input used to panic before 90f11fe); scanning finds nothing -/
example : walk (exEnv .amd64 .windows)
      (some { base := 2 ^ 64 - 41, bytes := (List.replicate 40 (0 : UInt8)).toArray })
      { ip := 0x7000, sp := 2 ^ 64 - 41, rest := [("rbp", 2 ^ 64 - 24)] } =
    [ { ctx := { ip := 0x7000, sp := 2 ^ 64 - 41, rest := [("rbp", 2 ^ 64 - 24)] }, trust := .context,
        instruction := 0x7000 } ] := by
  rfl

end MdModel.Walk
