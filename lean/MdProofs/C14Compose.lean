/-
  C14, composition: END-TO-END statements about `MdModel.Index.index` (the model of
  `process_minidump`) obtained by putting C14's `stacks_are_walks` / `env_spec` under the per-walk
  theorems of the other properties. Nothing here is about a new model: every proof instantiates
  `stacks_are_walks` (the call stack IS `Walk.walk …`), picks the branch of `env_spec`
  (`Walk.mkEnv` / `Walk.mkEnvW`), and applies

    * C11's bridge (`walk_frames_follow_c11`, `walk_frames_follow_c11W`,
      `walk_func_frames_follow_c11[W]`, `instr_ok_follows_c11`)  → §1, §4
    * C06's bridge (`walk_frames_follow_c06`; with STACK WIN records `walk_frames_follow_c06W`
      off x86, `walk_cfi_frames_x86W` on x86 — MdProofs/C06EnvW.lean)   → §2
    * C05 `walk_wf` / C03 `c03_walk_bound` (= `stacks_wf`, `stacks_frame_bound`) → §3

  Adapter lemmas: `MdProofs/Lemmas/IndexCompose.lean` (among them the one walker fact no theorem
  had: a frame of trust `scan` has a return address the by-symbols validation accepted).

  What the statements quantify over: EVERY dump `d` (any threads / modules / memory regions / symbol
  records, either byte order) that yields a state, EVERY thread position `i`, EVERY frame.
  Hypotheses that remain (each is named where it appears):
    * §1: the STACK WIN records of the frame's module have `u32` sizes and there are at most 2^64 of
      them (what C11's table construction needs; true of every parsed file) — vacuous in the
      `mkEnv` branch; `state_function_is_c11` also needs the frame's lookup address ≤ u64::MAX
      (C11's `fill_symbol` panics above it in the model).
    * §2: `state_cfi_frames_follow_c06`: `Walk.noWins (winsOf d) = true` (the `mkEnv` branch);
      `state_cfi_frames_follow_c06W`: `noWins = false` and CPU ≠ x86 (the `mkEnvW` branch);
      `state_cfi_frames_follow_c06_nonx86`: CPU ≠ x86 only; `state_cfi_frames_x86W`: x86 with STACK
      WIN records, a weaker conclusion (`CfiFrameX86`), no register hypothesis. For `FollowsC06` the registers
      of the dump's context records are below 2^64 (`DumpRegsOk`, from which C06's `CtxOk` of every
      start context is PROVED: `startCtx_regsOk`, `toCtx_ok`). Both byte orders: the stack memory of
      the statement is `walkMem d …`, which carries `be := d.bigEndian`.
-/
import MdProofs.Lemmas.IndexCompose
import MdProofs.C03
import MdProofs.C06EnvW
namespace MdModel.Index
open MdModel
open MdModel.Walk (Mem)
open MdModel.Reason (Os)
open MdModel.SymBridge (FileRel WinRel winsAt recsOfW nm projW C11Named ftblsOf)
open MdModel.CfiBridge (FollowsC06 CtxOk)

/-! ## 1. the function of every frame is what C11's `fill_symbol` reports -/

/-- **state_stacks_follow_c11** — "the function name / base / parameter size of a frame is what the
    symbol file of the frame's module says for the frame's lookup address", end to end: for every
    dump that yields a state, every call stack, every frame `x` attributed to module `k` (by
    position in the state's module list = `worldOf d`'s) whose symbol file the supplier has (`sf`):
    `x`'s function — name, base, parameter size; none iff none — is EXACTLY `fr.fn` of C11's
    `Symbolize.fillSymbol` at the module's base and the frame's lookup address, for EVERY C11 record
    list `r` describing `sf`'s FUNC / PUBLIC records (`FileRel`: any line / INLINE sub-records) and
    the module's STACK WIN records (`WinRel` with `winsAt (winsOf d) k`).
    Both branches of `env_spec` are covered: without STACK WIN records anywhere the walk runs in
    `mkEnv` and `WinRel [] r` forces `r.win4 = r.win0 = []` (→ `walk_frames_follow_c11`); otherwise
    it runs in `mkEnvW` (→ `walk_frames_follow_c11W`). The two size hypotheses are what C11's STACK
    WIN table construction needs (`u32` sizes, at most 2^64 records); they are vacuous in the first
    branch. -/
theorem state_stacks_follow_c11 (d : Dump) (ts : List Thread) (s : State)
    (hth : d.threads = some ts) (h : index d = .state s)
    (i : Nat) (h1 : i < ts.length) (h2 : i < s.stacks.length)
    (x : IFrame) (hx : x ∈ s.stacks[i].frames) :
    ∀ k m sf, x.f.module = some k → (worldOf d).mods[k]? = some m →
      (worldOf d).syms[k]? = some (some sf) →
      ∀ (r : Symbolize.Recs) (csf : Symbolize.SymFile) (fr : Symbolize.Frame),
        FileRel sf r → WinRel (winsAt (winsOf d) k) r →
        (∀ w ∈ winsAt (winsOf d) k, w.size < 2 ^ 32) → (winsAt (winsOf d) k).length ≤ 2 ^ 64 →
        Symbolize.build r = .ok csf →
        Symbolize.fillSymbol csf m.base x.f.instruction = .ok fr →
        x.f.func.map projW = fr.fn := by
  intro k m sf hk hm hsf r csf fr hrel hwin hsz hlen hb hfr
  have hmem := mem_of_map_eq (stacks_are_walks d ts s hth h i h1 h2) x hx
  cases hs : startCtx d ts[i] with
  | none => rw [hs] at hmem; simp at hmem
  | some c =>
    rw [hs] at hmem
    simp only at hmem
    obtain ⟨-, -, e1, e2, -⟩ := env_spec d (selectMem (memoryList d) ts[i] (some c.sp))
    cases hn : Walk.noWins (winsOf d) with
    | true =>
      rw [e1 hn] at hmem
      rw [winsAt_noWins hn k] at hwin
      obtain ⟨w4, w0⟩ := winRel_nil hwin
      exact SymBridge.walk_frames_follow_c11 _ _ _ _ _ _ x.f hmem k m sf hk hm hsf r csf fr hrel w4 w0 hb hfr
    | false =>
      rw [e2 hn] at hmem
      exact SymBridge.walk_frames_follow_c11W _ _ _ _ _ _ _ x.f hmem k m sf hk hm hsf r csf fr hrel hwin hsz hlen hb hfr

theorem lookup_mem {α β : Type} [BEq α] (l : List (α × β)) (a : α) (b : β) (h : l.lookup a = some b) :
    ∃ a', (a', b) ∈ l := by
  induction l with
  | nil => simp at h
  | cons p t ih =>
    obtain ⟨a', b'⟩ := p
    simp only [List.lookup] at h
    split at h
    · cases h; exact ⟨a', List.mem_cons_self⟩
    · obtain ⟨a'', h'⟩ := ih h
      exact ⟨a'', List.mem_cons_of_mem _ h'⟩

/-- what `worldOf` / `winsOf` put at position `k`, in terms of the STATE's module list and the
    supplier (`d.syms.lookup` by module name) -/
theorem world_at (d : Dump) (ts : List Thread) (s : State)
    (hth : d.threads = some ts) (h : index d = .state s) (k : Nat) (wm : Walk.Module) (sf : Walk.SymFile)
    (hm : (worldOf d).mods[k]? = some wm) (hsf : (worldOf d).syms[k]? = some (some sf)) :
    ∃ m wins, s.modules[k]? = some m ∧ wm = toModule m ∧ d.syms.lookup m.name = some (sf, wins) ∧
      winsAt (winsOf d) k = wins := by
  obtain ⟨-, -, -, -, -, -, hmods, -⟩ := index_state_inv d ts s hth h
  simp only [worldOf, List.getElem?_map, Option.map_eq_some_iff] at hm hsf
  obtain ⟨m, hmk, rfl⟩ := hm
  obtain ⟨m', hmk', hl⟩ := hsf
  rw [hmk] at hmk'
  cases hmk'
  obtain ⟨⟨sf', wins⟩, hl1, hl2⟩ := hl
  simp only at hl2
  subst hl2
  refine ⟨m, wins, by rw [hmods]; exact hmk, rfl, hl1, ?_⟩
  simp only [winsAt, winsOf, List.getElem?_map, hmk, Option.map_some, hl1, Option.getD_some]

/-- **state_function_is_c11** — the same starting from a frame that CARRIES a function, with every
    C11-side object constructed and everything phrased over the state and the supplier: the frame
    lies in module `m = s.modules[k]`, the supplier has a symbol file `(sf, wins)` under `m`'s name,
    C11's `SymbolParser::finish` builds the canonical record list of that file
    (`recsOfW sf wins`: its FUNC / PUBLIC records, its frame-data / FPO STACK WIN records), C11's
    `fill_symbol` answers at `m.base` and the frame's lookup address, and the answer is the frame's
    function: name (as bytes), base, parameter size.
    Hypotheses: the STACK WIN records of the supplier's files have `u32` sizes and each file has at
    most 2^64 of them (the parser's `u32` fields / any real file), and the frame's lookup address
    fits `u64`. -/
theorem state_function_is_c11 (d : Dump) (ts : List Thread) (s : State)
    (hth : d.threads = some ts) (h : index d = .state s)
    (hsz : ∀ e ∈ d.syms, ∀ w ∈ e.2.2, w.size < 2 ^ 32) (hlen : ∀ e ∈ d.syms, e.2.2.length ≤ 2 ^ 64)
    (i : Nat) (h1 : i < ts.length) (h2 : i < s.stacks.length)
    (x : IFrame) (hx : x ∈ s.stacks[i].frames) (g : Walk.FuncInfo) (hg : x.f.func = some g)
    (hi : x.f.instruction ≤ U64MAX) :
    ∃ k m sf wins csf fr, x.f.module = some k ∧ s.modules[k]? = some m ∧
      d.syms.lookup m.name = some (sf, wins) ∧
      Symbolize.build (recsOfW sf wins) = .ok csf ∧
      Symbolize.fillSymbol csf m.base x.f.instruction = .ok fr ∧
      fr.fn = some (nm g.name, g.base, g.psize) := by
  have hmem := mem_of_map_eq (stacks_are_walks d ts s hth h i h1 h2) x hx
  have hszW : ∀ ws ∈ winsOf d, ∀ w ∈ ws, w.size < 2 ^ 32 := by
    intro ws hws w hw
    simp only [winsOf, List.mem_map] at hws
    obtain ⟨m, -, rfl⟩ := hws
    cases hl : d.syms.lookup m.name with
    | none => rw [hl] at hw; simp at hw
    | some p =>
      rw [hl] at hw
      obtain ⟨a, ha⟩ := lookup_mem _ _ _ hl
      exact hsz _ ha w hw
  have hlenW : ∀ ws ∈ winsOf d, ws.length ≤ 2 ^ 64 := by
    intro ws hws
    simp only [winsOf, List.mem_map] at hws
    obtain ⟨m, -, rfl⟩ := hws
    cases hl : d.syms.lookup m.name with
    | none => simp
    | some p =>
      obtain ⟨a, ha⟩ := lookup_mem _ _ _ hl
      exact hlen _ ha
  have key : ∃ k wm sf csf fr, x.f.module = some k ∧ (worldOf d).mods[k]? = some wm ∧
      (worldOf d).syms[k]? = some (some sf) ∧
      Symbolize.build (recsOfW sf (winsAt (winsOf d) k)) = .ok csf ∧
      Symbolize.fillSymbol csf wm.base x.f.instruction = .ok fr ∧
      fr.fn = some (nm g.name, g.base, g.psize) := by
    cases hs : startCtx d ts[i] with
    | none => rw [hs] at hmem; simp at hmem
    | some c =>
      rw [hs] at hmem
      simp only at hmem
      obtain ⟨-, -, e1, e2, -⟩ := env_spec d (selectMem (memoryList d) ts[i] (some c.sp))
      cases hn : Walk.noWins (winsOf d) with
      | true =>
        rw [e1 hn] at hmem
        obtain ⟨k, wm, sf, csf, fr, a1, a2, a3, a4, a5, a6⟩ :=
          SymBridge.walk_func_frames_follow_c11 _ _ _ _ _ _ x.f hmem g hg hi
        refine ⟨k, wm, sf, csf, fr, a1, a2, a3, ?_, a5, a6⟩
        rw [winsAt_noWins hn k]
        exact a4
      | false =>
        rw [e2 hn] at hmem
        exact SymBridge.walk_func_frames_follow_c11W _ _ _ _ _ _ _ hszW hlenW x.f hmem g hg hi
  obtain ⟨k, wm, sf, csf, fr, a1, a2, a3, a4, a5, a6⟩ := key
  obtain ⟨m, wins, b1, b2, b3, b4⟩ := world_at d ts s hth h k wm sf a2 a3
  subst b2
  rw [b4] at a4
  exact ⟨k, m, sf, wins, csf, fr, a1, b1, b3, a4, a5, a6⟩

/-! ## 2. every frame of trust `cfi` is what C06's evaluator prescribes -/

/-- **state_cfi_frames_follow_c06** — for every dump that yields a state and whose loaded modules'
    symbol files carry no STACK WIN record (`noWins`: the `mkEnv` branch of `env_spec`, the
    environment `walk_frames_follow_c06` is about), in EITHER byte order (the memory of the
    statement is `walkMem d …`: the selected region with `be := d.bigEndian`): every frame of trust
    `cfi` of every call stack satisfies `FollowsC06` w.r.t. the frame below it — a loaded module
    covers the callee's lookup address, its symbol file has a STACK CFI INIT record covering the
    module-relative address, C06's `walkFrame` on the callee's `Walker` succeeds, the frame's
    validity set and register values are C06's output (ARM64 pointer-authentication mask applied),
    raw sp / ip as `mkEnv_cfi_spec` says, and the epilogue facts.
    The hypothesis on the start context is `CtxOk` (`walk_frames_follow_c06`'s `hctx`); it is
    DISCHARGED here from `DumpRegsOk d`: the registers of the dump's context records (the
    exception's, the threads') are below 2^64 — true of any context read from dump bytes, not
    enforced by the abstract `Dump` type (its registers are naturals). The validity-set part of
    `CtxOk` holds outright: `index` starts every walk with all registers valid (`toCtx`). -/
theorem state_cfi_frames_follow_c06 (d : Dump) (ts : List Thread) (s : State)
    (hth : d.threads = some ts) (h : index d = .state s)
    (hn : Walk.noWins (winsOf d) = true) (hregs : DumpRegsOk d)
    (i : Nat) (h1 : i < ts.length) (h2 : i < s.stacks.length)
    (r : Regs) (hr : startCtx d ts[i] = some r)
    (j : Nat) (hj : j + 1 < s.stacks[i].frames.length)
    (hcfi : s.stacks[i].frames[j + 1].f.trust = .cfi) :
    FollowsC06 ((unwinderOf d.arch).getD .x86) (walkOs (Os.ofPlatformId d.platformId)) (worldOf d)
      ((walkMem d (selectMem (memoryList d) ts[i] (some r.sp))).getD { base := 0, bytes := #[] })
      s.stacks[i].frames[j].f s.stacks[i].frames[j + 1].f := by
  have hw := stacks_are_walks d ts s hth h i h1 h2
  rw [hr] at hw
  simp only at hw
  rw [(env_spec d _).2.2.1 hn] at hw
  have hok : CtxOk ((unwinderOf d.arch).getD .x86) (toCtx d.arch r) :=
    toCtx_ok _ _ _ (startCtx_regsOk d ts hth hregs ts[i] (List.getElem_mem h1) r hr)
  obtain ⟨hj0, e0⟩ := getElem_of_map_eq hw j (by omega)
  obtain ⟨hj1, e1⟩ := getElem_of_map_eq hw (j + 1) hj
  have := CfiBridge.walk_frames_follow_c06 _ _ _ _ _ _ hok j hj1 (by rw [e1]; exact hcfi)
  rw [e0, e1] at this
  exact this

/-- **state_cfi_frames_follow_c06W** — the `mkEnvW` branch of `env_spec`, off x86: for every dump
    that yields a state, whose loaded modules' symbol files DO carry STACK WIN records somewhere
    (`noWins = false`) and whose CPU is not x86 (amd64, arm, arm64, arm64old, mips32, mips64): every
    frame of trust `cfi` of every call stack satisfies `FollowsC06` w.r.t. the frame below it — the
    very conclusion of `state_cfi_frames_follow_c06`. The walk runs in `Walk.mkEnvW`, whose
    symbolication differs from `mkEnv`'s (parameter sizes from STACK WIN) but whose
    `get_caller_by_cfi` off x86 is STACK CFI evaluation (`CfiBridge.walk_frames_follow_c06W`, by
    `walk_frames_follow_c06_env` over the abstract `CfiEnv`). -/
theorem state_cfi_frames_follow_c06W (d : Dump) (ts : List Thread) (s : State)
    (hth : d.threads = some ts) (h : index d = .state s)
    (hn : Walk.noWins (winsOf d) = false) (hx86 : (unwinderOf d.arch).getD .x86 ≠ .x86)
    (hregs : DumpRegsOk d)
    (i : Nat) (h1 : i < ts.length) (h2 : i < s.stacks.length)
    (r : Regs) (hr : startCtx d ts[i] = some r)
    (j : Nat) (hj : j + 1 < s.stacks[i].frames.length)
    (hcfi : s.stacks[i].frames[j + 1].f.trust = .cfi) :
    FollowsC06 ((unwinderOf d.arch).getD .x86) (walkOs (Os.ofPlatformId d.platformId)) (worldOf d)
      ((walkMem d (selectMem (memoryList d) ts[i] (some r.sp))).getD { base := 0, bytes := #[] })
      s.stacks[i].frames[j].f s.stacks[i].frames[j + 1].f := by
  have hw := stacks_are_walks d ts s hth h i h1 h2
  rw [hr] at hw
  simp only at hw
  rw [(env_spec d _).2.2.2.1 hn] at hw
  have hok : CtxOk ((unwinderOf d.arch).getD .x86) (toCtx d.arch r) :=
    toCtx_ok _ _ _ (startCtx_regsOk d ts hth hregs ts[i] (List.getElem_mem h1) r hr)
  obtain ⟨hj0, e0⟩ := getElem_of_map_eq hw j (by omega)
  obtain ⟨hj1, e1⟩ := getElem_of_map_eq hw (j + 1) hj
  have := CfiBridge.walk_frames_follow_c06W hx86 _ _ _ _ _ _ hok j hj1 (by rw [e1]; exact hcfi)
  rw [e0, e1] at this
  exact this

/-- **state_cfi_frames_follow_c06_nonx86** — both branches of `env_spec` at once: on every CPU but
    x86, with or without STACK WIN records in the symbol files, every frame of trust `cfi` of every
    call stack of the state satisfies `FollowsC06`. The only hypotheses left are "the dump yields a
    state", "its CPU is not x86" and `DumpRegsOk`. -/
theorem state_cfi_frames_follow_c06_nonx86 (d : Dump) (ts : List Thread) (s : State)
    (hth : d.threads = some ts) (h : index d = .state s)
    (hx86 : (unwinderOf d.arch).getD .x86 ≠ .x86) (hregs : DumpRegsOk d)
    (i : Nat) (h1 : i < ts.length) (h2 : i < s.stacks.length)
    (r : Regs) (hr : startCtx d ts[i] = some r)
    (j : Nat) (hj : j + 1 < s.stacks[i].frames.length)
    (hcfi : s.stacks[i].frames[j + 1].f.trust = .cfi) :
    FollowsC06 ((unwinderOf d.arch).getD .x86) (walkOs (Os.ofPlatformId d.platformId)) (worldOf d)
      ((walkMem d (selectMem (memoryList d) ts[i] (some r.sp))).getD { base := 0, bytes := #[] })
      s.stacks[i].frames[j].f s.stacks[i].frames[j + 1].f := by
  cases hn : Walk.noWins (winsOf d) with
  | true => exact state_cfi_frames_follow_c06 d ts s hth h hn hregs i h1 h2 r hr j hj hcfi
  | false => exact state_cfi_frames_follow_c06W d ts s hth h hn hx86 hregs i h1 h2 r hr j hj hcfi

/-- **state_cfi_frames_x86W** — the remaining branch: an x86 dump whose symbol files carry STACK WIN
    records. There a frame of trust `cfi` is NOT in general a STACK CFI frame: `get_caller_by_cfi`
    is `SymbolFile::walk_frame`, which evaluates the STACK WIN record of the lookup address first
    (C07). What holds, for every such frame of every call stack (`CfiBridge.CfiFrameX86`): the
    callee's `esp` is valid, a loaded module with a symbol file covers its lookup address, and the
    frame's context is EITHER the successful result of C07's `Win.winResult` on the callee's walker
    (the function `MdProofs.C07` / `MdProofs.C04Win` are about) OR — no STACK WIN record evaluated —
    STACK CFI evaluation (`Walk.walkFrameCfi`, C06's evaluator by `walkFrame_eq_c06`) on that walker;
    plus the epilogue (`ip ≥ 4096`, lookup address `ip − 1`, stack pointer strictly increasing).
    No hypothesis on the registers is needed. -/
theorem state_cfi_frames_x86W (d : Dump) (ts : List Thread) (s : State)
    (hth : d.threads = some ts) (h : index d = .state s)
    (hn : Walk.noWins (winsOf d) = false) (hx86 : (unwinderOf d.arch).getD .x86 = .x86)
    (i : Nat) (h1 : i < ts.length) (h2 : i < s.stacks.length)
    (r : Regs) (hr : startCtx d ts[i] = some r)
    (j : Nat) (hj : j + 1 < s.stacks[i].frames.length)
    (hcfi : s.stacks[i].frames[j + 1].f.trust = .cfi) :
    CfiBridge.CfiFrameX86 (worldOf d) (winsOf d)
      ((walkMem d (selectMem (memoryList d) ts[i] (some r.sp))).getD { base := 0, bytes := #[] })
      s.stacks[i].frames[j].f s.stacks[i].frames[j + 1].f := by
  have hw := stacks_are_walks d ts s hth h i h1 h2
  rw [hr] at hw
  simp only at hw
  rw [(env_spec d _).2.2.2.1 hn, hx86] at hw
  obtain ⟨hj0, e0⟩ := getElem_of_map_eq hw j (by omega)
  obtain ⟨hj1, e1⟩ := getElem_of_map_eq hw (j + 1) hj
  have := CfiBridge.walk_cfi_frames_x86W _ _ _ _ _ _ j hj1 (by rw [e1]; exact hcfi)
  rw [e0, e1] at this
  exact this

/-! ## 3. C05's invariant and C03's frame bound, side by side -/

/-- **state_stacks_wf_bound** — `stacks_wf` and `stacks_frame_bound` restated together: every call
    stack of the state that has a start context satisfies C05's `Walk.WF` (context frame first;
    later frames: trust cfi / frame pointer / scan, return address ≥ 4096, lookup address = return
    address − call adjustment, strictly increasing stack pointers with the leaf exception, scanned
    return addresses read from the selected memory in the dump's byte order) AND has at most
    `selected stack bytes + 2` frames (C03 `c03_walk_bound`). -/
theorem state_stacks_wf_bound (d : Dump) (ts : List Thread) (s : State)
    (hth : d.threads = some ts) (h : index d = .state s)
    (i : Nat) (h1 : i < ts.length) (h2 : i < s.stacks.length) (r : Regs) (hr : startCtx d ts[i] = some r) :
    Walk.WF ((unwinderOf d.arch).getD .x86)
      (Walk.usedMem (walkMem d (selectMem (memoryList d) ts[i] (some r.sp))))
      (toCtx d.arch r) (s.stacks[i].frames.map (·.f)) ∧
    s.stacks[i].frames.length ≤
      ((selectMem (memoryList d) ts[i] (some r.sp)).map Mem.size).getD 0 + 2 := by
  refine ⟨stacks_wf d ts s hth h i h1 h2 r hr, ?_⟩
  have := stacks_frame_bound d ts s hth h i h1 h2
  rw [hr] at this
  exact this

/-- the bound as an instance of C03's own theorem (`c03_walk_bound`), on the memory the walk reads -/
theorem state_frame_bound_c03 (d : Dump) (ts : List Thread) (s : State)
    (hth : d.threads = some ts) (h : index d = .state s)
    (i : Nat) (h1 : i < ts.length) (h2 : i < s.stacks.length) (r : Regs) (hr : startCtx d ts[i] = some r) :
    s.stacks[i].frames.length ≤
      ((walkMem d (selectMem (memoryList d) ts[i] (some r.sp))).map Mem.size).getD 0 + 2 := by
  have hw := stacks_are_walks d ts s hth h i h1 h2
  rw [hr] at hw
  simp only at hw
  have hl : s.stacks[i].frames.length = (s.stacks[i].frames.map (·.f)).length := by simp
  rw [hl, hw]
  exact Process.c03_walk_bound _ _ _

/-! ## 4. scanned frames: the return address passed C11's rule -/

/-- **state_scanned_words_follow_c11** — every frame of trust `scan` of every call stack of the
    state has a return address `ip` that `instruction_seems_valid_by_symbols` accepted
    (`walk_scan_instrOk`, new: by `scanFrom_spec` through all seven scanners), which by
    `instr_ok_follows_c11` means: `ip - 1 ≠ 0`, a loaded module `m` (position `k`) covers `ip - 1`,
    and if the supplier has a symbol file `sf` for it, then C11's `fill_symbol` — on ANY C11 record
    list describing `sf`'s FUNC / PUBLIC records, at `m.base` and `ip - 1` — reports a function
    with a non-empty name (`C11Named`). Both branches of `env_spec` (`envOf_instrOk`); no
    hypothesis beyond "the dump yields a state". -/
theorem state_scanned_words_follow_c11 (d : Dump) (ts : List Thread) (s : State)
    (hth : d.threads = some ts) (h : index d = .state s)
    (i : Nat) (h1 : i < ts.length) (h2 : i < s.stacks.length)
    (x : IFrame) (hx : x ∈ s.stacks[i].frames) (hscan : x.f.trust = .scan) :
    x.f.ctx.ip - 1 ≠ 0 ∧
    ∃ k m, Walk.moduleAt (Walk.modTable (worldOf d).mods) (x.f.ctx.ip - 1) = some k ∧
      (worldOf d).mods[k]? = some m ∧ m.base ≤ x.f.ctx.ip - 1 ∧ x.f.ctx.ip - 1 < m.base + m.size ∧
      ∀ sf, (worldOf d).syms[k]? = some (some sf) →
        ∀ (r : Symbolize.Recs) (csf : Symbolize.SymFile) (fr : Symbolize.Frame),
          FileRel sf r → Symbolize.build r = .ok csf →
          Symbolize.fillSymbol csf m.base (x.f.ctx.ip - 1) = .ok fr → C11Named fr := by
  have hmem := mem_of_map_eq (stacks_are_walks d ts s hth h i h1 h2) x hx
  cases hs : startCtx d ts[i] with
  | none => rw [hs] at hmem; simp at hmem
  | some c =>
    rw [hs] at hmem
    simp only at hmem
    have hok := Walk.walk_scan_instrOk _ _ _ x.f hmem hscan
    rw [envOf_instrOk] at hok
    obtain ⟨hacc, hiff⟩ := SymBridge.instr_ok_follows_c11 (worldOf d) x.f.ctx.ip
    obtain ⟨h0, k, m, hk, hm, hlo, hhi⟩ := hacc hok
    refine ⟨h0, k, m, hk, hm, hlo, hhi, ?_⟩
    intro sf hsf r csf fr hrel hb hfr
    exact ((hiff k h0 hk).2 m sf hm hsf r csf fr hrel hb hfr).mp hok

/-! ## 5. non-vacuity: `cfiDump` (C14.lean) — an amd64 Linux dump, one thread, module `mod` at
    0x400000 with a symbol file (FUNC `f` @ 0x100 +0x300, its STACK CFI record), stack region A -/

/-- the supplier's symbol file for `mod` -/
def cfiSf : Walk.SymFile :=
  { funcs := [⟨0x100, 0x300, 0, "f"⟩],
    cfis := [⟨0x100, 0x300, ".cfa: $rsp 16 + .ra: .cfa -8 + ^", []⟩] }

def cfiThread : Thread :=
  { walkThread with ctx := some ⟨0x400100, 0x10008, 0x10010, [("rbx", 7), ("r12", 9)]⟩ }

theorem cfi_world : worldOf cfiDump = { mods := [⟨0x400000, 0x1000, "mod"⟩], syms := [some cfiSf] } := by
  rfl

theorem cfi_modTable : Walk.modTable (worldOf cfiDump).mods = [(⟨0x400000, 0x400fff⟩, 0)] := by
  rw [cfi_world]
  simp [Walk.modTable, RangeMap.safeVec, RangeMap.sortOpt, RangeMap.validOnly, RangeMap.pass, RangeMap.keep,
    RangeMap.mkRange, List.zipIdx, U64MAX]

theorem cfi_funcTable : Walk.funcTable cfiSf = [(⟨0x100, 0x3ff⟩, 0)] := by
  unfold Walk.funcTable RangeMap.safeVecP RangeMap.sortEntries
  simp [cfiSf, RangeMap.mkRange, U64MAX, RangeMap.pass, RangeMap.keep]

theorem cfi_fill : Walk.fillSymbol cfiSf (Walk.funcTable cfiSf) 0x400000 0x400100 = some ⟨"f", 0x400100, 0⟩ := by
  rw [cfi_funcTable]
  decide

/-- every hypothesis set of §1–§4 is inhabited by `cfiDump`: it yields a state, has no STACK WIN
    record (`mkEnv` branch), its context records have `u64` registers, thread 0 starts from its own
    context with region A selected -/
theorem cfi_hyps :
    cfiDump.threads = some [cfiThread] ∧ Walk.noWins (winsOf cfiDump) = true ∧ DumpRegsOk cfiDump ∧
    startCtx cfiDump cfiThread = some ⟨0x400100, 0x10008, 0x10010, [("rbx", 7), ("r12", 9)]⟩ ∧
    selectMem (memoryList cfiDump) cfiThread (some 0x10008) = some regionA ∧
    (∀ e ∈ cfiDump.syms, ∀ w ∈ e.2.2, w.size < 2 ^ 32) ∧ (∀ e ∈ cfiDump.syms, e.2.2.length ≤ 2 ^ 64) := by
  refine ⟨rfl, by decide, ⟨?_, ?_⟩, by decide, by rfl, ?_, ?_⟩
  · intro e c he; cases he
  · intro ts hts t ht c hc
    cases hts
    simp only [List.mem_singleton] at ht
    subst ht
    cases hc
    exact ⟨by decide, by decide, by decide, by decide⟩
  · intro e he w hw
    simp only [cfiDump, List.mem_singleton] at he
    subst he
    cases hw
  · intro e he
    simp only [cfiDump, List.mem_singleton] at he
    subst he
    decide

/-- **the composition theorems instantiated on `cfiDump`**: the state exists; call stack 0
    satisfies C05's `WF` on region A and has at most 0x40 + 2 frames (`state_stacks_wf_bound`); its
    first frame is the context frame at 0x400100, lies in module 0 and carries `f @ 0x400100 / 0`
    (computed on the walker model's tables); and `state_function_is_c11` yields C11's side: the
    canonical record list of the supplier's file builds, C11's `fill_symbol` answers at
    (0x400000, 0x400100), and its function is name `[102]` (= "f"), base 0x400100, parameter size 0 -/
example : ∃ s, index cfiDump = .state s ∧ ∃ (h2 : 0 < s.stacks.length),
    Walk.WF .amd64 (Walk.usedMem (walkMem cfiDump (some regionA)))
      (toCtx 9 ⟨0x400100, 0x10008, 0x10010, [("rbx", 7), ("r12", 9)]⟩) (s.stacks[0].frames.map (·.f)) ∧
    s.stacks[0].frames.length ≤ 0x40 + 2 ∧
    ∃ x, x ∈ s.stacks[0].frames ∧ x.f.trust = .context ∧ x.f.instruction = 0x400100 ∧
      x.f.module = some 0 ∧ x.f.func = some ⟨"f", 0x400100, 0⟩ ∧
      ∃ csf fr, Symbolize.build (recsOfW cfiSf []) = .ok csf ∧
        Symbolize.fillSymbol csf 0x400000 0x400100 = .ok fr ∧ fr.fn = some ([102], 0x400100, 0) := by
  obtain ⟨hth, hn, hregs, hstart, hsel, hsz, hlen⟩ := cfi_hyps
  obtain ⟨s, hs⟩ := index_total cfiDump [cfiThread] hth
  have hl := (stack_at cfiDump [cfiThread] s hth hs).1
  have h2 : 0 < s.stacks.length := by rw [hl]; decide
  have h1 : 0 < [cfiThread].length := by decide
  refine ⟨s, hs, h2, ?_⟩
  obtain ⟨hwf, hb⟩ := state_stacks_wf_bound cfiDump [cfiThread] s hth hs 0 h1 h2 _ hstart
  have hsel' : selectMem (memoryList cfiDump) [cfiThread][0] (some 0x10008) = some regionA := hsel
  simp only [hsel'] at hwf hb
  refine ⟨hwf, hb, ?_⟩
  -- the first frame
  obtain ⟨f0, rest, hfs, ht, hc, hi⟩ := hwf.head
  have hx0 : f0 ∈ s.stacks[0].frames.map (·.f) := by rw [hfs]; exact List.mem_cons_self
  obtain ⟨x, hx, rfl⟩ := List.mem_map.mp hx0
  have hi' : x.f.instruction = 0x400100 := hi
  -- it is symbolised in the environment of the walk
  have hw := stacks_are_walks cfiDump [cfiThread] s hth hs 0 h1 h2
  have hstart' : startCtx cfiDump [cfiThread][0] = some ⟨0x400100, 0x10008, 0x10010, [("rbx", 7), ("r12", 9)]⟩ := hstart
  rw [hstart'] at hw
  simp only at hw
  have hmem := mem_of_map_eq hw x hx
  obtain ⟨s1, s2⟩ := Walk.walk_symbolised _ _ _ x.f hmem
  rw [(env_spec cfiDump _).2.2.1 hn] at s1 s2
  have e : ∀ mem0, (Walk.mkEnv .amd64 .other (worldOf cfiDump) mem0).symb 0x400100 =
      (some 0, Walk.fillSymbol cfiSf (Walk.funcTable cfiSf) 0x400000 0x400100) := by
    intro mem0
    show Walk.symbOf (worldOf cfiDump) (Walk.modTable (worldOf cfiDump).mods) _ 0x400100 = _
    rw [cfi_modTable, cfi_world]
    rfl
  have ea : (unwinderOf cfiDump.arch).getD .x86 = .amd64 := by decide
  have eo : walkOs (Os.ofPlatformId cfiDump.platformId) = .other := by decide
  rw [ea, eo, hi', e] at s1 s2
  simp only [Option.isSome_some, if_true, cfi_fill] at s2
  refine ⟨x, hx, ht, hi', s1, s2, ?_⟩
  obtain ⟨k, m, sf, wins, csf, fr, a1, a2, a3, a4, a5, a6⟩ :=
    state_function_is_c11 cfiDump [cfiThread] s hth hs hsz hlen 0 h1 h2 x hx _ s2 (by rw [hi']; decide)
  rw [s1] at a1
  cases a1
  have hm0 : s.modules[0]? = some ⟨0x400000, 0x1000, "mod"⟩ := by
    rw [(modules_mirror cfiDump [cfiThread] s hth hs).1]
    decide
  rw [hm0] at a2
  cases a2
  have hl0 : cfiDump.syms.lookup "mod" = some (cfiSf, []) := by rfl
  rw [hl0] at a3
  cases a3
  rw [hi'] at a5
  exact ⟨csf, fr, a4, a5, a6⟩

/-- §2's hypotheses on the same dump: `CtxOk` of the start context is derived, not assumed -/
example : CtxOk .amd64 (toCtx cfiDump.arch ⟨0x400100, 0x10008, 0x10010, [("rbx", 7), ("r12", 9)]⟩) :=
  toCtx_ok _ _ _ (startCtx_regsOk cfiDump [cfiThread] cfi_hyps.1 cfi_hyps.2.2.1 cfiThread
    List.mem_cons_self _ cfi_hyps.2.2.2.1)

/-! ### an actual `cfi` frame on `cfiDump`

  The model of `index` is not kernel-reducible as a whole (range tables are built by a sort), so the
  second frame is obtained the way C06Env.lean's example obtains it: tables by C08's lemmas
  (`cfi_modTable`, `cfi_cfiTable`), C06's `walkFrame` on the record by kernel evaluation,
  `mkEnv_cfi_spec` + `cfi_frame_epilogue` + `walk_second` for the walker side, `stacks_are_walks`
  for the state. -/
section CfiFrame
open MdModel.CfiBridge

def cfiRegs : Regs := ⟨0x400100, 0x10008, 0x10010, [("rbx", 7), ("r12", 9)]⟩
def cfiMem0 : Mem := (walkMem cfiDump (some regionA)).getD { base := 0, bytes := #[] }
def cfiRec : Walk.CfiRec := ⟨0x100, 0x300, ".cfa: $rsp 16 + .ra: .cfa -8 + ^", []⟩

theorem cfi_cfiTable : Walk.cfiTable cfiSf = [(⟨0x100, 0x3ff⟩, 0)] := by
  have hsep : RangeMap.Sep [(⟨0x100, 0x3ff⟩, 0)] := by
    simp [RangeMap.Sep, RangeMap.WF, U64MAX]
  have hl : (cfiSf.cfis.zipIdx.filterMap fun (c, i) => (RangeMap.mkRange c.addr c.size).map fun r => (r, i)) =
      [(⟨0x100, 0x3ff⟩, 0)] := by decide
  unfold Walk.cfiTable
  rw [hl]
  simp [RangeMap.safeVecP, RangeMap.sortEntries_of_sep _ hsep, RangeMap.pass_of_sep _ hsep]

theorem cfiCtx_ok : CtxOk .amd64 (toCtx 9 cfiRegs) :=
  toCtx_ok _ _ _ (startCtx_regsOk cfiDump [cfiThread] cfi_hyps.1 cfi_hyps.2.2.1 cfiThread
    List.mem_cons_self _ cfi_hyps.2.2.2.1)

def cfiW : Cfi.Walker := walkerOf ⟨.amd64, toCtx 9 cfiRegs, cfiMem0⟩ 0x400100
  (fwdOf .amd64 ⟨toCtx 9 cfiRegs, Walk.forwarded .amd64 (toCtx 9 cfiRegs)⟩)

/-- `get_caller_by_cfi` on a frame with thread 0's start context at 0x400100 -/
theorem cfi_caller (callee : Walk.Frame) (grand : Option Walk.Frame) (hc : callee.ctx = toCtx 9 cfiRegs)
    (hi : callee.instruction = 0x400100) :
    ∃ r, (Walk.mkEnv .amd64 .other (worldOf cfiDump) cfiMem0).cfi callee grand = some r ∧
      r.sp = 0x10018 ∧ r.ip = 0x10030 := by
  obtain ⟨ctx, trust, instr, md, fn⟩ := callee
  simp only at hc hi
  subst hc hi
  obtain ⟨_, _, hsome⟩ := mkEnv_cfi_spec .amd64 .other (worldOf cfiDump) cfiMem0
    ⟨toCtx 9 cfiRegs, trust, 0x400100, md, fn⟩ grand cfiCtx_ok
  have hk : Walk.moduleAt (Walk.modTable (worldOf cfiDump).mods) 0x400100 = some 0 := by rw [cfi_modTable]; decide
  obtain ⟨m, hm, _, _, _, hsf⟩ := hsome 0 hk
  have hm' : m = ⟨0x400000, 0x1000, "mod"⟩ := by
    have : (worldOf cfiDump).mods[0]? = some ⟨0x400000, 0x1000, "mod"⟩ := by rw [cfi_world]; rfl
    rw [this] at hm; exact (Option.some.inj hm).symm
  obtain ⟨_, hget⟩ := hsf cfiSf (by rw [cfi_world]; rfl)
  have hj : RangeMap.get (Walk.cfiTable cfiSf) (0x400100 - m.base) = some 0 := by
    rw [hm', cfi_cfiTable]; decide
  obtain ⟨rec, hrec, _, hmain⟩ := hget 0 hj
  have hrec' : rec = cfiRec := by
    have : cfiSf.cfis[0]? = some cfiRec := rfl
    rw [this] at hrec; exact (Option.some.inj hrec).symm
  have hsp0 : spValid (Walk.effArch .amd64 (toCtx 9 cfiRegs)) (toCtx 9 cfiRegs) = true := rfl
  have hmain := hmain hsp0
  have hW : c06Walker .amd64 cfiMem0 ⟨toCtx 9 cfiRegs, trust, 0x400100, md, fn⟩ = cfiW := rfl
  have ha : Walk.effArch .amd64 (toCtx 9 cfiRegs) = .amd64 := rfl
  simp only [ha, hW] at hmain
  have hvals : (Cfi.walkFrame (recOf cfiRec) 0x400000 cfiW).map (fun c => (c.cfa, c.ra)) =
      some (some 0x10018, some 0x10030) := by decide
  have hbase : m.base = 0x400000 := by rw [hm']
  cases hc : Cfi.walkFrame (recOf rec) m.base cfiW with
  | none => rw [hrec', hbase] at hc; rw [hc] at hvals; cases hvals
  | some c =>
    rw [hc] at hmain
    simp only at hmain
    obtain ⟨cfa, ra, c', r, vs, h1, h2, h3, h4, _, _, _, h8⟩ := hmain
    rw [hrec', hbase] at hc h3
    rw [hc] at hvals
    simp only [Option.map_some, Option.some.injEq, Prod.mk.injEq] at hvals
    rw [hvals.1] at h1; rw [hvals.2] at h2
    cases h1; cases h2
    have hregs : (Cfi.walkFrame (recOf cfiRec) 0x400000 (seeded .amd64 cfiW 0x10018 0x10030)).map
        (fun c => (c.get (utf8 "rsp"), c.get (utf8 "rip"))) = some (some 0x10018, some 0x10030) := by decide
    rw [h3] at hregs
    simp only [Option.map_some, Option.some.injEq, Prod.mk.injEq] at hregs
    obtain ⟨r1, r2⟩ := hregs
    have hp : ∀ s v, paMask .amd64 (Walk.mkEnv .amd64 .other (worldOf cfiDump) cfiMem0).mask s v = v := by
      intro s v; simp [paMask, isArm64]
    obtain ⟨hsp, hip⟩ := h8 (by decide)
    refine ⟨r, h4, ?_, ?_⟩
    · rw [hsp]; show (Option.map UInt64.toNat (c'.get (utf8 "rsp"))).getD _ = _; rw [r1]; rfl
    · rw [hip, hp]; show (Option.map UInt64.toNat (c'.get (utf8 "rip"))).getD _ = _; rw [r2]; rfl

/-- **non-vacuity of §2 with an actual `cfi` frame**: call stack 0 of `cfiDump`'s state has a second
    frame, its trust is `cfi` (found through the STACK CFI record of `mod`: CFA = rsp + 16 = 0x10018,
    return address = the word at 0x10010 = 0x10030), and `state_cfi_frames_follow_c06` applies to it -/
example : ∃ s, index cfiDump = .state s ∧ ∃ (h2 : 0 < s.stacks.length) (hj : 0 + 1 < s.stacks[0].frames.length),
    s.stacks[0].frames[0 + 1].f.trust = .cfi ∧ s.stacks[0].frames[0 + 1].f.ctx.sp = 0x10018 ∧
    s.stacks[0].frames[0 + 1].f.ctx.ip = 0x10030 ∧
    FollowsC06 .amd64 .other (worldOf cfiDump) cfiMem0 s.stacks[0].frames[0].f s.stacks[0].frames[0 + 1].f := by
  obtain ⟨hth, hn, hregs, hstart, hsel, -, -⟩ := cfi_hyps
  obtain ⟨s, hs⟩ := index_total cfiDump [cfiThread] hth
  have hl := (stack_at cfiDump [cfiThread] s hth hs).1
  have h2 : 0 < s.stacks.length := by rw [hl]; decide
  have h1 : 0 < [cfiThread].length := by decide
  refine ⟨s, hs, h2, ?_⟩
  have hw := stacks_are_walks cfiDump [cfiThread] s hth hs 0 h1 h2
  have hstart' : startCtx cfiDump [cfiThread][0] = some cfiRegs := hstart
  rw [hstart'] at hw
  simp only at hw
  have hsel' : selectMem (memoryList cfiDump) [cfiThread][0] (some cfiRegs.sp) = some regionA := hsel
  rw [(env_spec cfiDump _).2.2.1 hn, hsel'] at hw
  have ea : (unwinderOf cfiDump.arch).getD .x86 = .amd64 := by decide
  have eo : walkOs (Os.ofPlatformId cfiDump.platformId) = .other := by decide
  have em : walkMem cfiDump (some regionA) = some cfiMem0 := by rfl
  have ec : toCtx cfiDump.arch cfiRegs = toCtx 9 cfiRegs := rfl
  rw [ea, eo, ec, em] at hw
  have hm0 : (some cfiMem0).getD { base := 0, bytes := #[] } = cfiMem0 := rfl
  rw [hm0] at hw
  -- the second frame of that walk, by `get_caller_by_cfi` + the epilogue
  obtain ⟨r, hcfi, hsp, hip⟩ := cfi_caller
    (Walk.symbolise (Walk.mkEnv .amd64 .other (worldOf cfiDump) cfiMem0) (Walk.Frame.ofCtx (toCtx 9 cfiRegs) .context))
    none rfl rfl
  have hstep := (cfi_frame_epilogue (Walk.mkEnv .amd64 .other (worldOf cfiDump) cfiMem0) cfiMem0
    (Walk.symbolise (Walk.mkEnv .amd64 .other (worldOf cfiDump) cfiMem0) (Walk.Frame.ofCtx (toCtx 9 cfiRegs) .context))
    { ctx := r, trust := .cfi, instruction := r.ip - 1 } none).mpr
      ⟨r, hcfi, by rw [hip]; decide, .inl (by rw [hsp]; decide), rfl⟩
  obtain ⟨rest, hwalk⟩ := walk_second _ cfiMem0 (toCtx 9 cfiRegs) _ (by decide) (by decide) hstep.1
  rw [hwalk] at hw
  have hlen : 0 + 1 < s.stacks[0].frames.length := by
    have := congrArg List.length hw
    simp at this
    omega
  obtain ⟨_, e1⟩ := getElem_of_map_eq hw (0 + 1) hlen
  have e1' : s.stacks[0].frames[0 + 1].f =
      Walk.symbolise (Walk.mkEnv .amd64 .other (worldOf cfiDump) cfiMem0) { ctx := r, trust := .cfi, instruction := r.ip - 1 } := e1.symm
  have ht : s.stacks[0].frames[0 + 1].f.trust = .cfi := by rw [e1']; rfl
  refine ⟨hlen, ht, by rw [e1']; exact hsp, by rw [e1']; exact hip, ?_⟩
  have := state_cfi_frames_follow_c06 cfiDump [cfiThread] s hth hs hn hregs 0 h1 h2 cfiRegs hstart' 0 hlen ht
  rw [ea, eo, hsel', em] at this
  exact this
end CfiFrame

/-! ### the same with a STACK WIN record present: the `mkEnvW` branch is inhabited -/
section CfiFrameW
open MdModel.CfiBridge

/-- `cfiDump` with a STACK WIN record in `mod`'s symbol file: `noWins` fails, the walks run in `mkEnvW` -/
def cfiDumpW : Dump :=
  { cfiDump with syms := [("mod", cfiSf, [⟨'4', 0x500, 0x10, 8, 0, 0, '1', "$T0 .raSearch =".toList⟩])] }

theorem cfiW_hyps :
    cfiDumpW.threads = some [cfiThread] ∧ Walk.noWins (winsOf cfiDumpW) = false ∧ DumpRegsOk cfiDumpW ∧
    startCtx cfiDumpW cfiThread = some cfiRegs ∧
    selectMem (memoryList cfiDumpW) cfiThread (some 0x10008) = some regionA ∧
    worldOf cfiDumpW = worldOf cfiDump := by
  refine ⟨rfl, by decide, ⟨?_, ?_⟩, by decide, by rfl, rfl⟩
  · intro e c he; cases he
  · intro ts hts t ht c hc
    cases hts
    simp only [List.mem_singleton] at ht
    subst ht
    cases hc
    exact ⟨by decide, by decide, by decide, by decide⟩

/-- **non-vacuity of `state_cfi_frames_follow_c06W`**: on `cfiDumpW` (amd64, a STACK WIN record
    present) call stack 0 has a frame 1 of trust `cfi` and the theorem applies to it -/
example : ∃ s, index cfiDumpW = .state s ∧ ∃ (h2 : 0 < s.stacks.length) (hj : 0 + 1 < s.stacks[0].frames.length),
    s.stacks[0].frames[0 + 1].f.trust = .cfi ∧ s.stacks[0].frames[0 + 1].f.ctx.sp = 0x10018 ∧
    s.stacks[0].frames[0 + 1].f.ctx.ip = 0x10030 ∧
    FollowsC06 .amd64 .other (worldOf cfiDump) cfiMem0 s.stacks[0].frames[0].f s.stacks[0].frames[0 + 1].f := by
  obtain ⟨hth, hn, hregs, hstart, hsel, hworld⟩ := cfiW_hyps
  obtain ⟨s, hs⟩ := index_total cfiDumpW [cfiThread] hth
  have hl := (stack_at cfiDumpW [cfiThread] s hth hs).1
  have h2 : 0 < s.stacks.length := by rw [hl]; decide
  have h1 : 0 < [cfiThread].length := by decide
  refine ⟨s, hs, h2, ?_⟩
  have hw := stacks_are_walks cfiDumpW [cfiThread] s hth hs 0 h1 h2
  have hstart' : startCtx cfiDumpW [cfiThread][0] = some cfiRegs := hstart
  rw [hstart'] at hw
  simp only at hw
  have hsel' : selectMem (memoryList cfiDumpW) [cfiThread][0] (some cfiRegs.sp) = some regionA := hsel
  rw [(env_spec cfiDumpW _).2.2.2.1 hn, hsel'] at hw
  have ea : (unwinderOf cfiDumpW.arch).getD .x86 = .amd64 := by decide
  have eo : walkOs (Os.ofPlatformId cfiDumpW.platformId) = .other := by decide
  have em : walkMem cfiDumpW (some regionA) = some cfiMem0 := by rfl
  have ec : toCtx cfiDumpW.arch cfiRegs = toCtx 9 cfiRegs := rfl
  rw [ea, eo, ec, em, hworld] at hw
  have hm0 : (some cfiMem0).getD { base := 0, bytes := #[] } = cfiMem0 := rfl
  rw [hm0] at hw
  have hne : Walk.Arch.amd64 ≠ .x86 := by decide
  obtain ⟨r, hcfi, hsp, hip⟩ := cfi_caller
    (Walk.symbolise (Walk.mkEnvW .amd64 .other (worldOf cfiDump) (winsOf cfiDumpW) cfiMem0)
      (Walk.Frame.ofCtx (toCtx 9 cfiRegs) .context)) none rfl rfl
  rw [← mkEnvW_cfi_specW hne .other (worldOf cfiDump) (winsOf cfiDumpW) cfiMem0] at hcfi
  have hstep := (cfi_frame_epilogue (Walk.mkEnvW .amd64 .other (worldOf cfiDump) (winsOf cfiDumpW) cfiMem0) cfiMem0
    (Walk.symbolise (Walk.mkEnvW .amd64 .other (worldOf cfiDump) (winsOf cfiDumpW) cfiMem0)
      (Walk.Frame.ofCtx (toCtx 9 cfiRegs) .context))
    { ctx := r, trust := .cfi, instruction := r.ip - 1 } none).mpr
      ⟨r, hcfi, by rw [hip]; decide, .inl (by rw [hsp]; decide), rfl⟩
  obtain ⟨rest, hwalk⟩ := walk_second _ cfiMem0 (toCtx 9 cfiRegs) _ (by decide) (by decide) hstep.1
  rw [hwalk] at hw
  have hlen : 0 + 1 < s.stacks[0].frames.length := by
    have := congrArg List.length hw
    simp at this
    omega
  obtain ⟨_, e1⟩ := getElem_of_map_eq hw (0 + 1) hlen
  have e1' : s.stacks[0].frames[0 + 1].f =
      Walk.symbolise (Walk.mkEnvW .amd64 .other (worldOf cfiDump) (winsOf cfiDumpW) cfiMem0)
        { ctx := r, trust := .cfi, instruction := r.ip - 1 } := e1.symm
  have ht : s.stacks[0].frames[0 + 1].f.trust = .cfi := by rw [e1']; rfl
  refine ⟨hlen, ht, by rw [e1']; exact hsp, by rw [e1']; exact hip, ?_⟩
  have := state_cfi_frames_follow_c06W cfiDumpW [cfiThread] s hth hs hn (by rw [ea]; exact hne) hregs 0 h1 h2
    cfiRegs hstart' 0 hlen ht
  rw [ea, eo, hsel', em, hworld] at this
  exact this
end CfiFrameW

end MdModel.Index
