/-
  C14, composition: END-TO-END statements about `MdModel.Index.index` (the model of
  `process_minidump`) obtained by putting C14's `stacks_are_walks` / `env_spec` under the per-walk
  theorems of the other properties. Nothing here is about a new model: every proof instantiates
  `stacks_are_walks` (the call stack IS `Walk.walk …`), picks the branch of `env_spec`
  (`Walk.mkEnv` / `Walk.mkEnvW`), and applies

    * C11's bridge (`walk_frames_follow_c11`, `walk_frames_follow_c11W`,
      `walk_func_frames_follow_c11[W]`, `instr_ok_follows_c11`)  → §1, §4
    * C06's bridge (`walk_frames_follow_c06`)                       → §2
    * C05 `walk_wf` / C03 `c03_walk_bound` (= `stacks_wf`, `stacks_frame_bound`) → §3

  Adapter lemmas: `MdProofs/Lemmas/IndexCompose.lean` (among them the one walker fact no theorem
  had: a frame of trust `scan` has a return address the by-symbols validation accepted).

  What the statements quantify over: EVERY dump `d` (any threads / modules / memory regions / symbol
  records, either byte order) that yields a state, EVERY thread position `i`, EVERY frame.
  Hypotheses that remain (each is named where it appears):
    * §1: the STACK WIN records of the frame's module have `u32` sizes and there are at most 2^64 of
      them (what C11's table construction needs; true of every parsed file) — vacuous in the
      `mkEnv` branch; `state_function_is_c11` also needs the frame's lookup address ≤ u64::MAX
      (C11's `fill_symbol` panics above it in the model).
    * §2: `Walk.noWins (winsOf d) = true` (no loaded module's symbol file has STACK WIN records: the
      `mkEnv` branch — `walk_frames_follow_c06` is a theorem about `mkEnv` only), and the registers
      of the dump's context records are below 2^64 (`DumpRegsOk`, from which C06's `CtxOk` of every
      start context is PROVED: `startCtx_regsOk`, `toCtx_ok`). Both byte orders: the stack memory of
      the statement is `walkMem d …`, which carries `be := d.bigEndian`.
-/
import MdProofs.Lemmas.IndexCompose
import MdProofs.C03
import MdProofs.C06EnvW
namespace MdModel.Index
open MdModel
open MdModel.Walk (Mem)
open MdModel.Reason (Os)
open MdModel.SymBridge (FileRel WinRel winsAt recsOfW nm projW C11Named ftblsOf)
open MdModel.CfiBridge (FollowsC06 CtxOk)

/-! ## 1. the function of every frame is what C11's `fill_symbol` reports -/

/-- **state_stacks_follow_c11** — "the function name / base / parameter size of a frame is what the
    symbol file of the frame's module says for the frame's lookup address", end to end: for every
    dump that yields a state, every call stack, every frame `x` attributed to module `k` (by
    position in the state's module list = `worldOf d`'s) whose symbol file the supplier has (`sf`):
    `x`'s function — name, base, parameter size; none iff none — is EXACTLY `fr.fn` of C11's
    `Symbolize.fillSymbol` at the module's base and the frame's lookup address, for EVERY C11 record
    list `r` describing `sf`'s FUNC / PUBLIC records (`FileRel`: any line / INLINE sub-records) and
    the module's STACK WIN records (`WinRel` with `winsAt (winsOf d) k`).
    Both branches of `env_spec` are covered: without STACK WIN records anywhere the walk runs in
    `mkEnv` and `WinRel [] r` forces `r.win4 = r.win0 = []` (→ `walk_frames_follow_c11`); otherwise
    it runs in `mkEnvW` (→ `walk_frames_follow_c11W`). The two size hypotheses are what C11's STACK
    WIN table construction needs (`u32` sizes, at most 2^64 records); they are vacuous in the first
    branch. -/
theorem state_stacks_follow_c11 (d : Dump) (ts : List Thread) (s : State)
    (hth : d.threads = some ts) (h : index d = .state s)
    (i : Nat) (h1 : i < ts.length) (h2 : i < s.stacks.length)
    (x : IFrame) (hx : x ∈ s.stacks[i].frames) :
    ∀ k m sf, x.f.module = some k → (worldOf d).mods[k]? = some m →
      (worldOf d).syms[k]? = some (some sf) →
      ∀ (r : Symbolize.Recs) (csf : Symbolize.SymFile) (fr : Symbolize.Frame),
        FileRel sf r → WinRel (winsAt (winsOf d) k) r →
        (∀ w ∈ winsAt (winsOf d) k, w.size < 2 ^ 32) → (winsAt (winsOf d) k).length ≤ 2 ^ 64 →
        Symbolize.build r = .ok csf →
        Symbolize.fillSymbol csf m.base x.f.instruction = .ok fr →
        x.f.func.map projW = fr.fn := by
  intro k m sf hk hm hsf r csf fr hrel hwin hsz hlen hb hfr
  have hmem := mem_of_map_eq (stacks_are_walks d ts s hth h i h1 h2) x hx
  cases hs : startCtx d ts[i] with
  | none => rw [hs] at hmem; simp at hmem
  | some c =>
    rw [hs] at hmem
    simp only at hmem
    obtain ⟨-, -, e1, e2, -⟩ := env_spec d (selectMem (memoryList d) ts[i] (some c.sp))
    cases hn : Walk.noWins (winsOf d) with
    | true =>
      rw [e1 hn] at hmem
      rw [winsAt_noWins hn k] at hwin
      obtain ⟨w4, w0⟩ := winRel_nil hwin
      exact SymBridge.walk_frames_follow_c11 _ _ _ _ _ _ x.f hmem k m sf hk hm hsf r csf fr hrel w4 w0 hb hfr
    | false =>
      rw [e2 hn] at hmem
      exact SymBridge.walk_frames_follow_c11W _ _ _ _ _ _ _ x.f hmem k m sf hk hm hsf r csf fr hrel hwin hsz hlen hb hfr

theorem lookup_mem {α β : Type} [BEq α] (l : List (α × β)) (a : α) (b : β) (h : l.lookup a = some b) :
    ∃ a', (a', b) ∈ l := by
  induction l with
  | nil => simp at h
  | cons p t ih =>
    obtain ⟨a', b'⟩ := p
    simp only [List.lookup] at h
    split at h
    · cases h; exact ⟨a', List.mem_cons_self⟩
    · obtain ⟨a'', h'⟩ := ih h
      exact ⟨a'', List.mem_cons_of_mem _ h'⟩

/-- what `worldOf` / `winsOf` put at position `k`, in terms of the STATE's module list and the
    supplier (`d.syms.lookup` by module name) -/
theorem world_at (d : Dump) (ts : List Thread) (s : State)
    (hth : d.threads = some ts) (h : index d = .state s) (k : Nat) (wm : Walk.Module) (sf : Walk.SymFile)
    (hm : (worldOf d).mods[k]? = some wm) (hsf : (worldOf d).syms[k]? = some (some sf)) :
    ∃ m wins, s.modules[k]? = some m ∧ wm = toModule m ∧ d.syms.lookup m.name = some (sf, wins) ∧
      winsAt (winsOf d) k = wins := by
  obtain ⟨-, -, -, -, -, -, hmods, -⟩ := index_state_inv d ts s hth h
  simp only [worldOf, List.getElem?_map, Option.map_eq_some_iff] at hm hsf
  obtain ⟨m, hmk, rfl⟩ := hm
  obtain ⟨m', hmk', hl⟩ := hsf
  rw [hmk] at hmk'
  cases hmk'
  obtain ⟨⟨sf', wins⟩, hl1, hl2⟩ := hl
  simp only at hl2
  subst hl2
  refine ⟨m, wins, by rw [hmods]; exact hmk, rfl, hl1, ?_⟩
  simp only [winsAt, winsOf, List.getElem?_map, hmk, Option.map_some, hl1, Option.getD_some]

/-- **state_function_is_c11** — the same starting from a frame that CARRIES a function, with every
    C11-side object constructed and everything phrased over the state and the supplier: the frame
    lies in module `m = s.modules[k]`, the supplier has a symbol file `(sf, wins)` under `m`'s name,
    C11's `SymbolParser::finish` builds the canonical record list of that file
    (`recsOfW sf wins`: its FUNC / PUBLIC records, its frame-data / FPO STACK WIN records), C11's
    `fill_symbol` answers at `m.base` and the frame's lookup address, and the answer is the frame's
    function: name (as bytes), base, parameter size.
    Hypotheses: the STACK WIN records of the supplier's files have `u32` sizes and each file has at
    most 2^64 of them (the parser's `u32` fields / any real file), and the frame's lookup address
    fits `u64`. -/
theorem state_function_is_c11 (d : Dump) (ts : List Thread) (s : State)
    (hth : d.threads = some ts) (h : index d = .state s)
    (hsz : ∀ e ∈ d.syms, ∀ w ∈ e.2.2, w.size < 2 ^ 32) (hlen : ∀ e ∈ d.syms, e.2.2.length ≤ 2 ^ 64)
    (i : Nat) (h1 : i < ts.length) (h2 : i < s.stacks.length)
    (x : IFrame) (hx : x ∈ s.stacks[i].frames) (g : Walk.FuncInfo) (hg : x.f.func = some g)
    (hi : x.f.instruction ≤ U64MAX) :
    ∃ k m sf wins csf fr, x.f.module = some k ∧ s.modules[k]? = some m ∧
      d.syms.lookup m.name = some (sf, wins) ∧
      Symbolize.build (recsOfW sf wins) = .ok csf ∧
      Symbolize.fillSymbol csf m.base x.f.instruction = .ok fr ∧
      fr.fn = some (nm g.name, g.base, g.psize) := by
  have hmem := mem_of_map_eq (stacks_are_walks d ts s hth h i h1 h2) x hx
  have hszW : ∀ ws ∈ winsOf d, ∀ w ∈ ws, w.size < 2 ^ 32 := by
    intro ws hws w hw
    simp only [winsOf, List.mem_map] at hws
    obtain ⟨m, -, rfl⟩ := hws
    cases hl : d.syms.lookup m.name with
    | none => rw [hl] at hw; simp at hw
    | some p =>
      rw [hl] at hw
      obtain ⟨a, ha⟩ := lookup_mem _ _ _ hl
      exact hsz _ ha w hw
  have hlenW : ∀ ws ∈ winsOf d, ws.length ≤ 2 ^ 64 := by
    intro ws hws
    simp only [winsOf, List.mem_map] at hws
    obtain ⟨m, -, rfl⟩ := hws
    cases hl : d.syms.lookup m.name with
    | none => simp
    | some p =>
      obtain ⟨a, ha⟩ := lookup_mem _ _ _ hl
      exact hlen _ ha
  have key : ∃ k wm sf csf fr, x.f.module = some k ∧ (worldOf d).mods[k]? = some wm ∧
      (worldOf d).syms[k]? = some (some sf) ∧
      Symbolize.build (recsOfW sf (winsAt (winsOf d) k)) = .ok csf ∧
      Symbolize.fillSymbol csf wm.base x.f.instruction = .ok fr ∧
      fr.fn = some (nm g.name, g.base, g.psize) := by
    cases hs : startCtx d ts[i] with
    | none => rw [hs] at hmem; simp at hmem
    | some c =>
      rw [hs] at hmem
      simp only at hmem
      obtain ⟨-, -, e1, e2, -⟩ := env_spec d (selectMem (memoryList d) ts[i] (some c.sp))
      cases hn : Walk.noWins (winsOf d) with
      | true =>
        rw [e1 hn] at hmem
        obtain ⟨k, wm, sf, csf, fr, a1, a2, a3, a4, a5, a6⟩ :=
          SymBridge.walk_func_frames_follow_c11 _ _ _ _ _ _ x.f hmem g hg hi
        refine ⟨k, wm, sf, csf, fr, a1, a2, a3, ?_, a5, a6⟩
        rw [winsAt_noWins hn k]
        exact a4
      | false =>
        rw [e2 hn] at hmem
        exact SymBridge.walk_func_frames_follow_c11W _ _ _ _ _ _ _ hszW hlenW x.f hmem g hg hi
  obtain ⟨k, wm, sf, csf, fr, a1, a2, a3, a4, a5, a6⟩ := key
  obtain ⟨m, wins, b1, b2, b3, b4⟩ := world_at d ts s hth h k wm sf a2 a3
  subst b2
  rw [b4] at a4
  exact ⟨k, m, sf, wins, csf, fr, a1, b1, b3, a4, a5, a6⟩

/-! ## 2. every frame of trust `cfi` is what C06's evaluator prescribes -/

/-- **state_cfi_frames_follow_c06** — for every dump that yields a state and whose loaded modules'
    symbol files carry no STACK WIN record (`noWins`: the `mkEnv` branch of `env_spec`, the
    environment `walk_frames_follow_c06` is about), in EITHER byte order (the memory of the
    statement is `walkMem d …`: the selected region with `be := d.bigEndian`): every frame of trust
    `cfi` of every call stack satisfies `FollowsC06` w.r.t. the frame below it — a loaded module
    covers the callee's lookup address, its symbol file has a STACK CFI INIT record covering the
    module-relative address, C06's `walkFrame` on the callee's `Walker` succeeds, the frame's
    validity set and register values are C06's output (ARM64 pointer-authentication mask applied),
    raw sp / ip as `mkEnv_cfi_spec` says, and the epilogue facts.
    The hypothesis on the start context is `CtxOk` (`walk_frames_follow_c06`'s `hctx`); it is
    DISCHARGED here from `DumpRegsOk d`: the registers of the dump's context records (the
    exception's, the threads') are below 2^64 — true of any context read from dump bytes, not
    enforced by the abstract `Dump` type (its registers are naturals). The validity-set part of
    `CtxOk` holds outright: `index` starts every walk with all registers valid (`toCtx`). -/
theorem state_cfi_frames_follow_c06 (d : Dump) (ts : List Thread) (s : State)
    (hth : d.threads = some ts) (h : index d = .state s)
    (hn : Walk.noWins (winsOf d) = true) (hregs : DumpRegsOk d)
    (i : Nat) (h1 : i < ts.length) (h2 : i < s.stacks.length)
    (r : Regs) (hr : startCtx d ts[i] = some r)
    (j : Nat) (hj : j + 1 < s.stacks[i].frames.length)
    (hcfi : s.stacks[i].frames[j + 1].f.trust = .cfi) :
    FollowsC06 ((unwinderOf d.arch).getD .x86) (walkOs (Os.ofPlatformId d.platformId)) (worldOf d)
      ((walkMem d (selectMem (memoryList d) ts[i] (some r.sp))).getD { base := 0, bytes := #[] })
      s.stacks[i].frames[j].f s.stacks[i].frames[j + 1].f := by
  have hw := stacks_are_walks d ts s hth h i h1 h2
  rw [hr] at hw
  simp only at hw
  rw [(env_spec d _).2.2.1 hn] at hw
  have hok : CtxOk ((unwinderOf d.arch).getD .x86) (toCtx d.arch r) :=
    toCtx_ok _ _ _ (startCtx_regsOk d ts hth hregs ts[i] (List.getElem_mem h1) r hr)
  obtain ⟨hj0, e0⟩ := getElem_of_map_eq hw j (by omega)
  obtain ⟨hj1, e1⟩ := getElem_of_map_eq hw (j + 1) hj
  have := CfiBridge.walk_frames_follow_c06 _ _ _ _ _ _ hok j hj1 (by rw [e1]; exact hcfi)
  rw [e0, e1] at this
  exact this

/-- **state_cfi_frames_follow_c06W** — the `mkEnvW` branch of `env_spec`, off x86: for every dump
    that yields a state, whose loaded modules' symbol files DO carry STACK WIN records somewhere
    (`noWins = false`) and whose CPU is not x86 (amd64, arm, arm64, arm64old, mips32, mips64): every
    frame of trust `cfi` of every call stack satisfies `FollowsC06` w.r.t. the frame below it — the
    very conclusion of `state_cfi_frames_follow_c06`. The walk runs in `Walk.mkEnvW`, whose
    symbolication differs from `mkEnv`'s (parameter sizes from STACK WIN) but whose
    `get_caller_by_cfi` off x86 is STACK CFI evaluation (`CfiBridge.walk_frames_follow_c06W`, by
    `walk_frames_follow_c06_env` over the abstract `CfiEnv`). -/
theorem state_cfi_frames_follow_c06W (d : Dump) (ts : List Thread) (s : State)
    (hth : d.threads = some ts) (h : index d = .state s)
    (hn : Walk.noWins (winsOf d) = false) (hx86 : (unwinderOf d.arch).getD .x86 ≠ .x86)
    (hregs : DumpRegsOk d)
    (i : Nat) (h1 : i < ts.length) (h2 : i < s.stacks.length)
    (r : Regs) (hr : startCtx d ts[i] = some r)
    (j : Nat) (hj : j + 1 < s.stacks[i].frames.length)
    (hcfi : s.stacks[i].frames[j + 1].f.trust = .cfi) :
    FollowsC06 ((unwinderOf d.arch).getD .x86) (walkOs (Os.ofPlatformId d.platformId)) (worldOf d)
      ((walkMem d (selectMem (memoryList d) ts[i] (some r.sp))).getD { base := 0, bytes := #[] })
      s.stacks[i].frames[j].f s.stacks[i].frames[j + 1].f := by
  have hw := stacks_are_walks d ts s hth h i h1 h2
  rw [hr] at hw
  simp only at hw
  rw [(env_spec d _).2.2.2.1 hn] at hw
  have hok : CtxOk ((unwinderOf d.arch).getD .x86) (toCtx d.arch r) :=
    toCtx_ok _ _ _ (startCtx_regsOk d ts hth hregs ts[i] (List.getElem_mem h1) r hr)
  obtain ⟨hj0, e0⟩ := getElem_of_map_eq hw j (by omega)
  obtain ⟨hj1, e1⟩ := getElem_of_map_eq hw (j + 1) hj
  have := CfiBridge.walk_frames_follow_c06W hx86 _ _ _ _ _ _ hok j hj1 (by rw [e1]; exact hcfi)
  rw [e0, e1] at this
  exact this

/-- **state_cfi_frames_follow_c06_nonx86** — both branches of `env_spec` at once: on every CPU but
    x86, with or without STACK WIN records in the symbol files, every frame of trust `cfi` of every
    call stack of the state satisfies `FollowsC06`. The only hypotheses left are "the dump yields a
    state", "its CPU is not x86" and `DumpRegsOk`. -/
theorem state_cfi_frames_follow_c06_nonx86 (d : Dump) (ts : List Thread) (s : State)
    (hth : d.threads = some ts) (h : index d = .state s)
    (hx86 : (unwinderOf d.arch).getD .x86 ≠ .x86) (hregs : DumpRegsOk d)
    (i : Nat) (h1 : i < ts.length) (h2 : i < s.stacks.length)
    (r : Regs) (hr : startCtx d ts[i] = some r)
    (j : Nat) (hj : j + 1 < s.stacks[i].frames.length)
    (hcfi : s.stacks[i].frames[j + 1].f.trust = .cfi) :
    FollowsC06 ((unwinderOf d.arch).getD .x86) (walkOs (Os.ofPlatformId d.platformId)) (worldOf d)
      ((walkMem d (selectMem (memoryList d) ts[i] (some r.sp))).getD { base := 0, bytes := #[] })
      s.stacks[i].frames[j].f s.stacks[i].frames[j + 1].f := by
  cases hn : Walk.noWins (winsOf d) with
  | true => exact state_cfi_frames_follow_c06 d ts s hth h hn hregs i h1 h2 r hr j hj hcfi
  | false => exact state_cfi_frames_follow_c06W d ts s hth h hn hx86 hregs i h1 h2 r hr j hj hcfi

/-! ## 3. C05's invariant and C03's frame bound, side by side -/

/-- **state_stacks_wf_bound** — `stacks_wf` and `stacks_frame_bound` restated together: every call
    stack of the state that has a start context satisfies C05's `Walk.WF` (context frame first;
    later frames: trust cfi / frame pointer / scan, return address ≥ 4096, lookup address = return
    address − call adjustment, strictly increasing stack pointers with the leaf exception, scanned
    return addresses read from the selected memory in the dump's byte order) AND has at most
    `selected stack bytes + 2` frames (C03 `c03_walk_bound`). -/
theorem state_stacks_wf_bound (d : Dump) (ts : List Thread) (s : State)
    (hth : d.threads = some ts) (h : index d = .state s)
    (i : Nat) (h1 : i < ts.length) (h2 : i < s.stacks.length) (r : Regs) (hr : startCtx d ts[i] = some r) :
    Walk.WF ((unwinderOf d.arch).getD .x86)
      (Walk.usedMem (walkMem d (selectMem (memoryList d) ts[i] (some r.sp))))
      (toCtx d.arch r) (s.stacks[i].frames.map (·.f)) ∧
    s.stacks[i].frames.length ≤
      ((selectMem (memoryList d) ts[i] (some r.sp)).map Mem.size).getD 0 + 2 := by
  refine ⟨stacks_wf d ts s hth h i h1 h2 r hr, ?_⟩
  have := stacks_frame_bound d ts s hth h i h1 h2
  rw [hr] at this
  exact this

/-- the bound as an instance of C03's own theorem (`c03_walk_bound`), on the memory the walk reads -/
theorem state_frame_bound_c03 (d : Dump) (ts : List Thread) (s : State)
    (hth : d.threads = some ts) (h : index d = .state s)
    (i : Nat) (h1 : i < ts.length) (h2 : i < s.stacks.length) (r : Regs) (hr : startCtx d ts[i] = some r) :
    s.stacks[i].frames.length ≤
      ((walkMem d (selectMem (memoryList d) ts[i] (some r.sp))).map Mem.size).getD 0 + 2 := by
  have hw := stacks_are_walks d ts s hth h i h1 h2
  rw [hr] at hw
  simp only at hw
  have hl : s.stacks[i].frames.length = (s.stacks[i].frames.map (·.f)).length := by simp
  rw [hl, hw]
  exact Process.c03_walk_bound _ _ _

/-! ## 4. scanned frames: the return address passed C11's rule -/

/-- **state_scanned_words_follow_c11** — every frame of trust `scan` of every call stack of the
    state has a return address `ip` that `instruction_seems_valid_by_symbols` accepted
    (`walk_scan_instrOk`, new: by `scanFrom_spec` through all seven scanners), which by
    `instr_ok_follows_c11` means: `ip - 1 ≠ 0`, a loaded module `m` (position `k`) covers `ip - 1`,
    and if the supplier has a symbol file `sf` for it, then C11's `fill_symbol` — on ANY C11 record
    list describing `sf`'s FUNC / PUBLIC records, at `m.base` and `ip - 1` — reports a function
    with a non-empty name (`C11Named`). Both branches of `env_spec` (`envOf_instrOk`); no
    hypothesis beyond "the dump yields a state". -/
theorem state_scanned_words_follow_c11 (d : Dump) (ts : List Thread) (s : State)
    (hth : d.threads = some ts) (h : index d = .state s)
    (i : Nat) (h1 : i < ts.length) (h2 : i < s.stacks.length)
    (x : IFrame) (hx : x ∈ s.stacks[i].frames) (hscan : x.f.trust = .scan) :
    x.f.ctx.ip - 1 ≠ 0 ∧
    ∃ k m, Walk.moduleAt (Walk.modTable (worldOf d).mods) (x.f.ctx.ip - 1) = some k ∧
      (worldOf d).mods[k]? = some m ∧ m.base ≤ x.f.ctx.ip - 1 ∧ x.f.ctx.ip - 1 < m.base + m.size ∧
      ∀ sf, (worldOf d).syms[k]? = some (some sf) →
        ∀ (r : Symbolize.Recs) (csf : Symbolize.SymFile) (fr : Symbolize.Frame),
          FileRel sf r → Symbolize.build r = .ok csf →
          Symbolize.fillSymbol csf m.base (x.f.ctx.ip - 1) = .ok fr → C11Named fr := by
  have hmem := mem_of_map_eq (stacks_are_walks d ts s hth h i h1 h2) x hx
  cases hs : startCtx d ts[i] with
  | none => rw [hs] at hmem; simp at hmem
  | some c =>
    rw [hs] at hmem
    simp only at hmem
    have hok := Walk.walk_scan_instrOk _ _ _ x.f hmem hscan
    rw [envOf_instrOk] at hok
    obtain ⟨hacc, hiff⟩ := SymBridge.instr_ok_follows_c11 (worldOf d) x.f.ctx.ip
    obtain ⟨h0, k, m, hk, hm, hlo, hhi⟩ := hacc hok
    refine ⟨h0, k, m, hk, hm, hlo, hhi, ?_⟩
    intro sf hsf r csf fr hrel hb hfr
    exact ((hiff k h0 hk).2 m sf hm hsf r csf fr hrel hb hfr).mp hok

/-! ## 5. non-vacuity: `cfiDump` (C14.lean) — an amd64 Linux dump, one thread, module `mod` at
    0x400000 with a symbol file (FUNC `f` @ 0x100 +0x300, its STACK CFI record), stack region A -/

/-- the supplier's symbol file for `mod` -/
def cfiSf : Walk.SymFile :=
  { funcs := [⟨0x100, 0x300, 0, "f"⟩],
    cfis := [⟨0x100, 0x300, ".cfa: $rsp 16 + .ra: .cfa -8 + ^", []⟩] }

def cfiThread : Thread :=
  { walkThread with ctx := some ⟨0x400100, 0x10008, 0x10010, [("rbx", 7), ("r12", 9)]⟩ }

theorem cfi_world : worldOf cfiDump = { mods := [⟨0x400000, 0x1000, "mod"⟩], syms := [some cfiSf] } := by
  rfl

theorem cfi_modTable : Walk.modTable (worldOf cfiDump).mods = [(⟨0x400000, 0x400fff⟩, 0)] := by
  rw [cfi_world]
  simp [Walk.modTable, RangeMap.safeVec, RangeMap.sortOpt, RangeMap.validOnly, RangeMap.pass, RangeMap.keep,
    RangeMap.mkRange, List.zipIdx, U64MAX]

theorem cfi_funcTable : Walk.funcTable cfiSf = [(⟨0x100, 0x3ff⟩, 0)] := by
  unfold Walk.funcTable RangeMap.safeVecP RangeMap.sortEntries
  simp [cfiSf, RangeMap.mkRange, U64MAX, RangeMap.pass, RangeMap.keep]

theorem cfi_fill : Walk.fillSymbol cfiSf (Walk.funcTable cfiSf) 0x400000 0x400100 = some ⟨"f", 0x400100, 0⟩ := by
  rw [cfi_funcTable]
  decide

/-- every hypothesis set of §1–§4 is inhabited by `cfiDump`: it yields a state, has no STACK WIN
    record (`mkEnv` branch), its context records have `u64` registers, thread 0 starts from its own
    context with region A selected -/
theorem cfi_hyps :
    cfiDump.threads = some [cfiThread] ∧ Walk.noWins (winsOf cfiDump) = true ∧ DumpRegsOk cfiDump ∧
    startCtx cfiDump cfiThread = some ⟨0x400100, 0x10008, 0x10010, [("rbx", 7), ("r12", 9)]⟩ ∧
    selectMem (memoryList cfiDump) cfiThread (some 0x10008) = some regionA ∧
    (∀ e ∈ cfiDump.syms, ∀ w ∈ e.2.2, w.size < 2 ^ 32) ∧ (∀ e ∈ cfiDump.syms, e.2.2.length ≤ 2 ^ 64) := by
  refine ⟨rfl, by decide, ⟨?_, ?_⟩, by decide, by rfl, ?_, ?_⟩
  · intro e c he; cases he
  · intro ts hts t ht c hc
    cases hts
    simp only [List.mem_singleton] at ht
    subst ht
    cases hc
    exact ⟨by decide, by decide, by decide, by decide⟩
  · intro e he w hw
    simp only [cfiDump, List.mem_singleton] at he
    subst he
    cases hw
  · intro e he
    simp only [cfiDump, List.mem_singleton] at he
    subst he
    decide

/-- **the composition theorems instantiated on `cfiDump`**: the state exists; call stack 0
    satisfies C05's `WF` on region A and has at most 0x40 + 2 frames (`state_stacks_wf_bound`); its
    first frame is the context frame at 0x400100, lies in module 0 and carries `f @ 0x400100 / 0`
    (computed on the walker model's tables); and `state_function_is_c11` yields C11's side: the
    canonical record list of the supplier's file builds, C11's `fill_symbol` answers at
    (0x400000, 0x400100), and its function is name `[102]` (= "f"), base 0x400100, parameter size 0 -/
example : ∃ s, index cfiDump = .state s ∧ ∃ (h2 : 0 < s.stacks.length),
    Walk.WF .amd64 (Walk.usedMem (walkMem cfiDump (some regionA)))
      (toCtx 9 ⟨0x400100, 0x10008, 0x10010, [("rbx", 7), ("r12", 9)]⟩) (s.stacks[0].frames.map (·.f)) ∧
    s.stacks[0].frames.length ≤ 0x40 + 2 ∧
    ∃ x, x ∈ s.stacks[0].frames ∧ x.f.trust = .context ∧ x.f.instruction = 0x400100 ∧
      x.f.module = some 0 ∧ x.f.func = some ⟨"f", 0x400100, 0⟩ ∧
      ∃ csf fr, Symbolize.build (recsOfW cfiSf []) = .ok csf ∧
        Symbolize.fillSymbol csf 0x400000 0x400100 = .ok fr ∧ fr.fn = some ([102], 0x400100, 0) := by
  obtain ⟨hth, hn, hregs, hstart, hsel, hsz, hlen⟩ := cfi_hyps
  obtain ⟨s, hs⟩ := index_total cfiDump [cfiThread] hth
  have hl := (stack_at cfiDump [cfiThread] s hth hs).1
  have h2 : 0 < s.stacks.length := by rw [hl]; decide
  have h1 : 0 < [cfiThread].length := by decide
  refine ⟨s, hs, h2, ?_⟩
  obtain ⟨hwf, hb⟩ := state_stacks_wf_bound cfiDump [cfiThread] s hth hs 0 h1 h2 _ hstart
  have hsel' : selectMem (memoryList cfiDump) [cfiThread][0] (some 0x10008) = some regionA := hsel
  simp only [hsel'] at hwf hb
  refine ⟨hwf, hb, ?_⟩
  -- the first frame
  obtain ⟨f0, rest, hfs, ht, hc, hi⟩ := hwf.head
  have hx0 : f0 ∈ s.stacks[0].frames.map (·.f) := by rw [hfs]; exact List.mem_cons_self
  obtain ⟨x, hx, rfl⟩ := List.mem_map.mp hx0
  have hi' : x.f.instruction = 0x400100 := hi
  -- it is symbolised in the environment of the walk
  have hw := stacks_are_walks cfiDump [cfiThread] s hth hs 0 h1 h2
  have hstart' : startCtx cfiDump [cfiThread][0] = some ⟨0x400100, 0x10008, 0x10010, [("rbx", 7), ("r12", 9)]⟩ := hstart
  rw [hstart'] at hw
  simp only at hw
  have hmem := mem_of_map_eq hw x hx
  obtain ⟨s1, s2⟩ := Walk.walk_symbolised _ _ _ x.f hmem
  rw [(env_spec cfiDump _).2.2.1 hn] at s1 s2
  have e : ∀ mem0, (Walk.mkEnv .amd64 .other (worldOf cfiDump) mem0).symb 0x400100 =
      (some 0, Walk.fillSymbol cfiSf (Walk.funcTable cfiSf) 0x400000 0x400100) := by
    intro mem0
    show Walk.symbOf (worldOf cfiDump) (Walk.modTable (worldOf cfiDump).mods) _ 0x400100 = _
    rw [cfi_modTable, cfi_world]
    rfl
  have ea : (unwinderOf cfiDump.arch).getD .x86 = .amd64 := by decide
  have eo : walkOs (Os.ofPlatformId cfiDump.platformId) = .other := by decide
  rw [ea, eo, hi', e] at s1 s2
  simp only [Option.isSome_some, if_true, cfi_fill] at s2
  refine ⟨x, hx, ht, hi', s1, s2, ?_⟩
  obtain ⟨k, m, sf, wins, csf, fr, a1, a2, a3, a4, a5, a6⟩ :=
    state_function_is_c11 cfiDump [cfiThread] s hth hs hsz hlen 0 h1 h2 x hx _ s2 (by rw [hi']; decide)
  rw [s1] at a1
  cases a1
  have hm0 : s.modules[0]? = some ⟨0x400000, 0x1000, "mod"⟩ := by
    rw [(modules_mirror cfiDump [cfiThread] s hth hs).1]
    decide
  rw [hm0] at a2
  cases a2
  have hl0 : cfiDump.syms.lookup "mod" = some (cfiSf, []) := by rfl
  rw [hl0] at a3
  cases a3
  rw [hi'] at a5
  exact ⟨csf, fr, a4, a5, a6⟩

/-- §2's hypotheses on the same dump: `CtxOk` of the start context is derived, not assumed -/
example : CtxOk .amd64 (toCtx cfiDump.arch ⟨0x400100, 0x10008, 0x10010, [("rbx", 7), ("r12", 9)]⟩) :=
  toCtx_ok _ _ _ (startCtx_regsOk cfiDump [cfiThread] cfi_hyps.1 cfi_hyps.2.2.1 cfiThread
    List.mem_cons_self _ cfi_hyps.2.2.2.1)

end MdModel.Index
