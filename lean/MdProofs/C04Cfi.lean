/-
  C04 — Stack walking recovers the true call chain of well-formed stacks: canonical STACK CFI chains.

  Property text: "For every synthetic thread whose stack is … described by STACK CFI … records …,
  on x86, x86-64, ARM, ARM64 (both context layouts) and MIPS, the walker returns exactly the
  generated call chain. Each generated call yields one frame with the right return address, stack
  pointer, recovered callee-saved registers, technique label, module and function name, and the
  walk stops at the generated end of stack."

  PROVED here, for chains of ANY depth (induction on the chain: `walkLoop_chain_generic` with the
  one-step lemma `step_cfi`), on ALL SEVEN context kinds/modes (x86, x86-64, ARM, ARM64 both
  layouts, MIPS32, MIPS64) and every OS: `walk_layout_cfi`. The hypothesis is `Pre … .cfi`
  (`preCfi`, MdModel/Walk/Layout.lean) — the decidable predicate the `chain` engine has the driver
  evaluate on every generated `cfi` case:
    * the context has every register valid;
    * the record covering each lookup address (context ip, then `ret - adj`; through the module
      and CFI range tables) has no delta lines and its classified tokens are the canonical rule
      `.cfa: $sp N + .ra: .cfa -W + ^` for N = the generated frame size, optionally followed by
      `$fp: .cfa -2W + ^` (the one callee-saved register the single-technique generator saves), or —
      for the context frame on ARM / ARM64 / MIPS — the leaf rule `.cfa: sp 0 + .ra: lr`;
    * the memory words are as generated (return address at `sp' - W`, saved frame pointer at
      `sp' - 2W`; on ARM64 up to the pointer-authentication bits the walker strips);
    * the outermost frame has no record, a zero frame pointer, and only zero words follow.
  Conclusion: `walk_stack`'s model returns the context frame followed by exactly one frame per
  generated call, found by `cfi`, with the generated return address, stack pointer, lookup address
  `ret - adj`, the claimed frame pointer (valid), every other callee-saved register forwarded from
  the context (validity set = callee-saved registers + sp + ip), module and function as
  symbolication of the lookup address gives them — and nothing after the generated end
  (`expectedCfi_spec`, `expectedCfi_fp` spell the frames out).

  NOT covered here (sampled by the `mixed` generator of the `chain` engine, inside `PreW`):
  canonical records saving SEVERAL callee-saved registers (`r: .cfa -OFF + ^` groups beyond the
  frame pointer), contexts with partial validity, CFI frames above frames found by other techniques.
  Full statement kept as a comment at the end of this file.
-/
import MdProofs.Lemmas.WalkCfiChainLoop
import MdProofs.Lemmas.RangeMap
namespace MdModel.Walk
open MdModel

/-- **C04, canonical STACK CFI chains (any depth, any of the seven context kinds/modes)**, for an
    environment whose `get_caller_by_cfi` is the model's `cfiOf` over the module list and symbol
    records `w`. `heff`: the context's MIPS mode is the walk's (`CONTEXT_MIPS64` set iff the
    architecture is `mips64`; vacuous elsewhere). `hsp`: the context's stack pointer fits the
    register (relevant for MIPS32, whose context stores 64-bit values). `hok0` (ARM32 only): the
    by-symbols check rejects the word 0, as `instruction_seems_valid_by_symbols` does. -/
theorem walk_layout_cfi_env (env : Env) (a : Arch) (w : World) (mem : Mem) (harch : env.arch = a)
    (hcfi : env.cfi = cfiOf a w (modTable w.mods) (cfiTables w) env.mask mem)
    (hok0 : a = .arm → env.instrOk 0 = false)
    (hm : mem.range?.isSome = true) (ctx : Ctx) (heff : effArch a ctx = a) (hsp : ctx.sp ≤ a.regMax)
    (chain : List Exp) (hpre : preCfi w a env.os env.mask mem ctx chain = true) :
    walk env (some mem) ctx =
      symbolise env (Frame.ofCtx ctx .context) :: expectedCfi env w a (Frame.ofCtx ctx .context) chain := by
  have hused : (some mem).bind (fun m => m.range?.map fun _ => m) = some mem := by
    obtain ⟨r, hr⟩ := Option.isSome_iff_exists.mp hm
    simp [hr]
  unfold walk
  simp only [hused]
  simp only [preCfi, Bool.and_eq_true, Option.isNone_iff_eq_none] at hpre
  obtain ⟨hv, hp⟩ := hpre
  exact walkLoop_cfi_chain harch hcfi hok0 env.os chain (walkFuel mem) (Frame.ofCtx ctx .context) none
    (Frame.ofCtx ctx .context) (ctx.raw a (if a.isMips then "ra" else "lr"))
    ⟨rfl, rfl, rfl, heff, Or.inl ⟨rfl, hv⟩, hsp⟩ (fun _ => rfl) hp (need_context_le mem ctx)

/-- **C04, canonical STACK CFI chains, for module lists and symbol records.** `Pre … .cfi` is
    exactly what the `chain` engine has the driver evaluate on each generated `cfi` case. -/
theorem walk_layout_cfi (a : Arch) (os : Os) (w : World) (mem : Mem) (ctx : Ctx) (chain : List Exp)
    (heff : effArch a ctx = a) (hsp : ctx.sp ≤ a.regMax)
    (hpre : Pre w (mkEnv a os w mem) a os .cfi mem ctx chain = true) :
    walk (mkEnv a os w mem) (some mem) ctx =
      symbolise (mkEnv a os w mem) (Frame.ofCtx ctx .context) ::
        expectedCfi (mkEnv a os w mem) w a (Frame.ofCtx ctx .context) chain := by
  simp only [Pre, Bool.and_eq_true] at hpre
  obtain ⟨hm, hp⟩ := hpre
  exact walk_layout_cfi_env (mkEnv a os w mem) a w mem rfl rfl (fun _ => by simp [mkEnv, instrOkOf]) hm ctx
    heff hsp chain hp

/-! ### the generated frames, frame by frame -/

/-- "Each generated call yields one frame with the right return address, stack pointer, …
    technique label, module and function name": frame `i` of the expected list has
    ip = `ret`, sp, trust `cfi`, lookup address `ret - adj`, the validity set "callee-saved
    registers + sp + ip", and module / function as symbolication of the lookup address. -/
theorem expectedCfi_spec (env : Env) (w : World) (a : Arch) (chain : List Exp) :
    ∀ (st : Frame) (i : Nat) (h : i < chain.length),
      ∃ f, (expectedCfi env w a st chain)[i]? = some f ∧
        f.ctx.ip = chain[i].ret ∧ f.ctx.sp = chain[i].sp ∧ f.trust = .cfi ∧
        f.instruction = chain[i].ret - a.adj ∧ f.ctx.valid = some (validAfter a) ∧
        f.module = (env.symb (chain[i].ret - a.adj)).1 := by
  induction chain with
  | nil => intro st i h; cases h
  | cons e rest ih =>
    intro st i h
    cases i with
    | zero => exact ⟨_, rfl, rfl, rfl, rfl, rfl, rfl, rfl⟩
    | succ i =>
      obtain ⟨f, hf, hrest⟩ := ih (cfiFrame w a st e) i (by simpa using h)
      exact ⟨f, by simpa [expectedCfi] using hf, hrest⟩

theorem expectedCfi_length (env : Env) (w : World) (a : Arch) (chain : List Exp) (st : Frame) :
    (expectedCfi env w a st chain).length = chain.length := by
  induction chain generalizing st with
  | nil => rfl
  | cons e rest ih => simp [expectedCfi, ih]

/-- "… recovered callee-saved registers …": under the precondition, frame `i` carries the claimed
    frame pointer, as a valid register -/
theorem expectedCfi_fp (env : Env) (w : World) (a : Arch) (os : Os) (mask : Nat) (mem : Mem) (chain : List Exp) :
    ∀ (st : Frame) (lr : Nat), (st.trust = .context → lr = st.ctx.raw a (lrName a)) →
      preCfiFrom w a os mask mem st.instruction st.ctx.sp (st.ctx.raw a a.fpName) lr (st.trust == .context)
        chain = true →
      ∀ (i : Nat) (h : i < chain.length),
        ∃ f, (expectedCfi env w a st chain)[i]? = some f ∧
          chain[i].fp = some (f.ctx.raw a a.fpName) ∧ f.ctx.has a a.fpName = true := by
  induction chain with
  | nil => intro st lr _ _ i h; cases h
  | cons e rest ih =>
    intro st lr hlr hp i h
    obtain ⟨_, hl, hrest⟩ := preCfiFrom_cons hlr hp
    cases i with
    | zero =>
      refine ⟨symbolise env (cfiFrame w a st e), rfl, ?_, has_fp_validAfter a _ rfl⟩
      have hraw := cfiFrame_raw_fp hl
      have hsome : e.fp.isSome = true := by
        unfold cfiLink linkCfi at hl
        simp only [Bool.and_eq_true] at hl
        obtain ⟨_, hm⟩ := hl
        cases hrec : cfiRecordAt w st.instruction with
        | none => rw [hrec] at hm; cases hm
        | some rec =>
          rw [hrec] at hm
          simp only [Bool.and_eq_true] at hm
          obtain ⟨_, hm⟩ := hm
          split at hm
          · simp only [Bool.and_eq_true, beq_iff_eq] at hm; rw [hm.2]; rfl
          · simp only [Bool.and_eq_true] at hm
            obtain ⟨_, hm⟩ := hm
            split at hm
            · simp only [Bool.and_eq_true] at hm; exact hm.2
            · simp only [Bool.and_eq_true, beq_iff_eq] at hm; rw [hm.2]; rfl
      obtain ⟨v, hv⟩ := Option.isSome_iff_exists.mp hsome
      show e.fp = some ((cfiFrame w a st e).ctx.raw a a.fpName)
      rw [hraw, hv]; rfl
    | succ i =>
      obtain ⟨f, hf, hr⟩ := ih (cfiFrame w a st e) 0 (fun h => by cases h) hrest i (by simpa using h)
      exact ⟨f, by simpa [expectedCfi] using hf, hr⟩

/-! ### the renderings of the canonical rules are the token lists of the precondition

  `canonicalRule` / `leafRule` (the dumper's spelling, what the Rust generator emits) tokenize to
  `canonicalToks` / `leafToks` — checked here by kernel evaluation on every architecture for some
  frame sizes; for a symbolic size the string does not reduce, which is why `Pre` is stated on the
  token lists. -/

example : ∀ a ∈ [Arch.x86, .amd64, .arm, .arm64, .arm64old, .mips32, .mips64], ∀ n ∈ [8, 4096],
    tokenize (canonicalRule a n true) = canonicalToks a n true ∧
    tokenize (canonicalRule a n false) = canonicalToks a n false ∧
    tokenize (leafRule a) = leafToks a := by decide +kernel

/-! ## non-vacuity: a two-call STACK CFI chain on x86-64 satisfying `Pre … .cfi`

  One module with two records: `[0x100, 0x200)` saves `$rbp`, `[0x300, 0x400)` does not. The
  context frame is in the second (its caller inherits `rbp = 7`), the caller in the first (its
  caller's `rbp` is the saved word 0), the outermost frame at `0x4007ff` has no record.
  The range tables are computed with C08's lemmas (`sortEntries_of_sep`, `pass_of_sep`: a sorted,
  separated list of records is its own table), everything else — tokenizing the rule texts,
  reading the stack words — by kernel evaluation. -/

def exCfiSf : SymFile :=
  { cfis := [ { addr := 0x100, size := 0x100, init := ".cfa: $rsp 16 + .ra: .cfa -8 + ^ $rbp: .cfa -16 + ^", adds := [] },
              { addr := 0x300, size := 0x100, init := ".cfa: $rsp 16 + .ra: .cfa -8 + ^", adds := [] } ] }
def exCfiW : World := { mods := [{ base := 0x400000, size := 0x1000, name := "m" }], syms := [some exCfiSf] }
def exCfiMem : Mem :=
  { base := 4096, bytes := #[
      0, 0, 0, 0, 0, 0, 0, 0,         0x20, 0x01, 0x40, 0, 0, 0, 0, 0,
      0, 0, 0, 0, 0, 0, 0, 0,         0x00, 0x08, 0x40, 0, 0, 0, 0, 0,
      0, 0, 0, 0, 0, 0, 0, 0,         0, 0, 0, 0, 0, 0, 0, 0 ] }
def exCfiCtx : Ctx := { ip := 0x400310, sp := 0x1000, rest := [("rbp", 7)] }
def exCfiChain : List Exp :=
  [ { ret := 0x400120, sp := 0x1010, fp := some 7 }, { ret := 0x400800, sp := 0x1020, fp := some 0 } ]

theorem exCfi_modTable : modTable exCfiW.mods = [(⟨0x400000, 0x400fff⟩, 0)] := by
  simp [modTable, exCfiW, RangeMap.safeVec, RangeMap.sortOpt, RangeMap.validOnly, RangeMap.pass, RangeMap.keep,
    RangeMap.mkRange, List.zipIdx, U64MAX]

theorem exCfi_cfiTable : cfiTable exCfiSf = [(⟨0x100, 0x1ff⟩, 0), (⟨0x300, 0x3ff⟩, 1)] := by
  have hsep : RangeMap.Sep [(⟨0x100, 0x1ff⟩, 0), (⟨0x300, 0x3ff⟩, 1)] := by
    simp [RangeMap.Sep, RangeMap.WF, RangeMap.Gap, RangeMap.satSucc, U64MAX]
  have hl : (exCfiSf.cfis.zipIdx.filterMap fun (c, i) => (RangeMap.mkRange c.addr c.size).map fun r => (r, i)) =
      [(⟨0x100, 0x1ff⟩, 0), (⟨0x300, 0x3ff⟩, 1)] := by decide
  unfold cfiTable
  rw [hl]
  simp [RangeMap.safeVecP, RangeMap.sortEntries_of_sep _ hsep, RangeMap.pass_of_sep _ hsep]

/-- the record `cfiRecordAt` finds for a lookup address inside the module -/
theorem exCfi_rec (instr : Nat) (j : Option Nat) (h1 : RangeMap.get [(⟨0x400000, 0x400fff⟩, 0)] instr = some 0)
    (h2 : RangeMap.get [(⟨0x100, 0x1ff⟩, 0), (⟨0x300, 0x3ff⟩, 1)] (instr - 0x400000) = j) :
    cfiRecordAt exCfiW instr = j.bind fun j => exCfiSf.cfis[j]? := by
  have hm : exCfiW.mods[0]? = some { base := 0x400000, size := 0x1000, name := "m" } := rfl
  have hs : (exCfiW.syms[0]?).join = some exCfiSf := rfl
  have hge : ¬ instr < 0x400000 := by
    intro hlt
    have : RangeMap.get [(⟨0x400000, 0x400fff⟩, 0)] instr = none := by
      simp [RangeMap.get, RangeMap.bsearch, RangeMap.bsearch.go]; omega
    rw [this] at h1; cases h1
  unfold cfiRecordAt moduleAt
  rw [exCfi_modTable, h1]
  simp only [hm, hs, if_neg hge, exCfi_cfiTable, h2]
  cases j <;> rfl

example : cfiRecordAt exCfiW 0x400310 = exCfiSf.cfis[1]? := exCfi_rec 0x400310 (some 1) (by decide) (by decide)
example : cfiRecordAt exCfiW 0x40011f = exCfiSf.cfis[0]? := exCfi_rec 0x40011f (some 0) (by decide) (by decide)
example : cfiRecordAt exCfiW 0x4007ff = none := exCfi_rec 0x4007ff none (by decide) (by decide)

theorem exCfi_pre :
    Pre exCfiW (mkEnv .amd64 .other exCfiW exCfiMem) .amd64 .other .cfi exCfiMem exCfiCtx exCfiChain = true := by
  have r0 := exCfi_rec 0x400310 (some 1) (by decide) (by decide)
  have r1 := exCfi_rec 0x40011f (some 0) (by decide) (by decide)
  have r2 := exCfi_rec 0x4007ff none (by decide) (by decide)
  simp only [Pre, preCfi, exCfiChain, preCfiFrom, linkCfi, exCfiCtx, Arch.adj, Consts.adj_amd64, Nat.reduceSub,
    r0, r1, r2]
  decide

example : (walk (mkEnv .amd64 .other exCfiW exCfiMem) (some exCfiMem) exCfiCtx).map
      (fun f => (f.trust, f.ctx.ip, f.ctx.sp, f.instruction, f.ctx.raw .amd64 "rbp")) =
    [(.context, 0x400310, 0x1000, 0x400310, 7), (.cfi, 0x400120, 0x1010, 0x40011f, 7),
     (.cfi, 0x400800, 0x1020, 0x4007ff, 0)] := by
  have r0 := exCfi_rec 0x400310 (some 1) (by decide) (by decide)
  have r1 := exCfi_rec 0x40011f (some 0) (by decide) (by decide)
  rw [walk_layout_cfi .amd64 .other exCfiW exCfiMem exCfiCtx exCfiChain rfl (by decide) exCfi_pre]
  simp only [exCfiChain, expectedCfi, List.map_cons, List.map_nil, symbolise_trust, symbolise_ctx,
    symbolise_instruction, cfiFrame, savesFpAt, Frame.ofCtx, exCfiCtx, Arch.adj, Consts.adj_amd64, Nat.reduceSub,
    r0, r1]
  decide

/-! ## non-vacuity: ARM64 — a leaf first frame, then a frame saving `fp`, with pointer-authentication bits

  The context frame is in a leaf function (record `.cfa: sp 0 + .ra: lr`): its caller has the same
  stack pointer and the return address `lr` with the ptr-auth bits (above bit 47) stripped. That
  caller's record saves `fp`; the return-address word on the stack carries ptr-auth bits too. -/

def exLeafSf : SymFile :=
  { cfis := [ { addr := 0x100, size := 0x100, init := ".cfa: sp 32 + .ra: .cfa -8 + ^ fp: .cfa -16 + ^", adds := [] },
              { addr := 0x500, size := 0x100, init := ".cfa: sp 0 + .ra: lr", adds := [] } ] }
def exLeafW : World := { mods := [{ base := 0x400000, size := 0x1000, name := "m" }], syms := [some exLeafSf] }
def exLeafMem : Mem :=
  { base := 4096, bytes := #[
      0, 0, 0, 0, 0, 0, 0, 0,         0, 0, 0, 0, 0, 0, 0, 0,
      0, 0, 0, 0, 0, 0, 0, 0,         0x00, 0x08, 0x40, 0, 0, 0, 0x7b, 0,
      0, 0, 0, 0, 0, 0, 0, 0,         0, 0, 0, 0, 0, 0, 0, 0 ] }
def exLeafCtx : Ctx := { ip := 0x400510, sp := 0x1000, rest := [("fp", 0x1234), ("lr", 0x00a5000000400120)] }
def exLeafChain : List Exp :=
  [ { ret := 0x400120, sp := 0x1000, fp := some 0x1234 }, { ret := 0x400800, sp := 0x1020, fp := some 0 } ]

theorem exLeaf_modTable : modTable exLeafW.mods = [(⟨0x400000, 0x400fff⟩, 0)] := exCfi_modTable

theorem exLeaf_cfiTable : cfiTable exLeafSf = [(⟨0x100, 0x1ff⟩, 0), (⟨0x500, 0x5ff⟩, 1)] := by
  have hsep : RangeMap.Sep [(⟨0x100, 0x1ff⟩, 0), (⟨0x500, 0x5ff⟩, 1)] := by
    simp [RangeMap.Sep, RangeMap.WF, RangeMap.Gap, RangeMap.satSucc, U64MAX]
  have hl : (exLeafSf.cfis.zipIdx.filterMap fun (c, i) => (RangeMap.mkRange c.addr c.size).map fun r => (r, i)) =
      [(⟨0x100, 0x1ff⟩, 0), (⟨0x500, 0x5ff⟩, 1)] := by decide
  unfold cfiTable
  rw [hl]
  simp [RangeMap.safeVecP, RangeMap.sortEntries_of_sep _ hsep, RangeMap.pass_of_sep _ hsep]

theorem exLeaf_rec (instr : Nat) (j : Option Nat) (h1 : RangeMap.get [(⟨0x400000, 0x400fff⟩, 0)] instr = some 0)
    (h2 : RangeMap.get [(⟨0x100, 0x1ff⟩, 0), (⟨0x500, 0x5ff⟩, 1)] (instr - 0x400000) = j) :
    cfiRecordAt exLeafW instr = j.bind fun j => exLeafSf.cfis[j]? := by
  have hm : exLeafW.mods[0]? = some { base := 0x400000, size := 0x1000, name := "m" } := rfl
  have hs : (exLeafW.syms[0]?).join = some exLeafSf := rfl
  have hge : ¬ instr < 0x400000 := by
    intro hlt
    have : RangeMap.get [(⟨0x400000, 0x400fff⟩, 0)] instr = none := by
      simp [RangeMap.get, RangeMap.bsearch, RangeMap.bsearch.go]; omega
    rw [this] at h1; cases h1
  unfold cfiRecordAt moduleAt
  rw [exLeaf_modTable, h1]
  simp only [hm, hs, if_neg hge, exLeaf_cfiTable, h2]
  cases j <;> rfl

/-- the walk's ptr-auth mask: 47 bits (the module ends far below) -/
theorem exLeaf_mask : (mkEnv .arm64 .other exLeafW exLeafMem).mask = 2 ^ 47 - 1 := by
  show ptrAuthMask exLeafW (modTable exLeafW.mods) _ = _
  rw [exLeaf_modTable]
  decide

theorem exLeaf_pre :
    Pre exLeafW (mkEnv .arm64 .other exLeafW exLeafMem) .arm64 .other .cfi exLeafMem exLeafCtx exLeafChain = true := by
  have r0 := exLeaf_rec 0x400510 (some 1) (by decide) (by decide)
  have r1 := exLeaf_rec 0x40011c (some 0) (by decide) (by decide)
  have r2 := exLeaf_rec 0x4007fc none (by decide) (by decide)
  simp only [Pre, preCfi, exLeafChain, preCfiFrom, linkCfi, exLeafCtx, Arch.adj, Consts.adj_arm64, Nat.reduceSub,
    r0, r1, r2, exLeaf_mask]
  decide

example : (walk (mkEnv .arm64 .other exLeafW exLeafMem) (some exLeafMem) exLeafCtx).map
      (fun f => (f.trust, f.ctx.ip, f.ctx.sp, f.instruction, f.ctx.raw .arm64 "fp")) =
    [(.context, 0x400510, 0x1000, 0x400510, 0x1234), (.cfi, 0x400120, 0x1000, 0x40011c, 0x1234),
     (.cfi, 0x400800, 0x1020, 0x4007fc, 0)] := by
  have r0 := exLeaf_rec 0x400510 (some 1) (by decide) (by decide)
  have r1 := exLeaf_rec 0x40011c (some 0) (by decide) (by decide)
  rw [walk_layout_cfi .arm64 .other exLeafW exLeafMem exLeafCtx exLeafChain rfl (by decide) exLeaf_pre]
  simp only [exLeafChain, expectedCfi, List.map_cons, List.map_nil, symbolise_trust, symbolise_ctx,
    symbolise_instruction, cfiFrame, savesFpAt, Frame.ofCtx, exLeafCtx, Arch.adj, Consts.adj_arm64, Nat.reduceSub,
    r0, r1]
  decide

/-
  Stated, not proved (sampled by the `mixed` generator of the `chain` engine inside `PreW`):

  theorem walk_layout_cfi_regs : the statement of `walk_layout_cfi` for records whose canonical rule
      is followed by ANY list of groups `$r: .cfa -OFF + ^` (r callee-saved, pairwise distinct, every
      slot readable): each frame carries every saved register's slot word and forwards the others.
      Missing: `parseRules` on a symbolic list of groups, and the name-ordered application of the
      remaining rules (`mergeSort` in `walkCfi`): the expected frame must be defined through the same
      sort (`List.map_mergeSort`, `List.mergeSort_perm` + `Nodup` give each register its slot word).
-/

end MdModel.Walk
