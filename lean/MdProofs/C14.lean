/-
  C14 — The process state is a faithful index of the dump.

  Property text: "For every processable dump, the result has exactly one call stack per entry of the
  thread list, in order, with the same thread ids and names, and the requesting thread is the
  non-dump-writer thread named by the exception record, else by the Breakpad info, whose walk starts
  from the exception's context when one can be read. Crash reason and crash address are the
  documented functions of the exception record, operating system and CPU (32-bit addresses
  zero-extended). Modules, unloaded modules with per-frame offsets, process id and times are those
  of the corresponding streams."

  The theorems are about `MdModel.Index.index` / `MdModel.Reason` — the model the compiled driver
  executes and the `index` engine compares with the real `process_minidump` on every run — for dumps
  with ANY number of threads, names, modules and any field values. "Processable" = the dump has a
  thread list (`d.threads = some ts`); `index_total` shows the model then always yields a state.

  Reading of the text (DESIGN.md §6.0): with duplicate thread ids the LAST matching thread is the
  requesting thread and the LAST readable duplicate name wins.
  History: the check found that the dump-writer thread's call stack lost its name (finding
  C14-dump-thread-name); /repo commit 1dec95b repaired it, the model follows the repaired code and
  `stacks_match_threads` states the names of ALL threads, the dump-writer thread included.
-/
import MdProofs.Lemmas.Index
import MdProofs.Lemmas.IndexReason
import MdProofs.Lemmas.IndexUnloaded
namespace MdModel.Index
open MdModel
open MdModel.Reason (Exc Reason Os Cpu)

/-! ## 1. "exactly one call stack per entry of the thread list, in order, with the same thread
        ids and names" -/

/-- **C14.1** one call stack per thread-list entry, in order, with the thread's id and the name
    the names stream gives that id — for EVERY thread, the skipped dump-writer thread included. -/
theorem stacks_match_threads (d : Dump) (ts : List Thread) (s : State)
    (hth : d.threads = some ts) (h : index d = .state s) :
    s.stacks.length = ts.length ∧
    ∀ i (h1 : i < ts.length) (h2 : i < s.stacks.length),
      s.stacks[i].id = ts[i].id ∧ s.stacks[i].name = nameOf d.names ts[i].id := by
  obtain ⟨hatt, -⟩ := index_state_inv d ts s hth h
  have hcore := attach_core _ _ _ _ hatt
  have hlen : s.stacks.length = ts.length := by
    have := congrArg List.length hcore
    simpa using this
  refine ⟨hlen, ?_⟩
  intro i h1 h2
  have hi : (s.stacks.map Stack.core)[i]'(by simpa using h2) =
      ((ts.map (stackOf d)).map Stack.core)[i]'(by simpa using h1) := by
    simp only [hcore]
  simp only [List.getElem_map, Stack.core, Prod.mk.injEq] at hi
  obtain ⟨hid, hname, -, -⟩ := hi
  constructor
  · rw [hid]; unfold stackOf
    split
    · rfl
    · split <;> rfl
  · rw [hname]; unfold stackOf
    split
    · rfl
    · split <;> rfl

/-- the names stream is an id-keyed map filled in stream order in which unreadable strings are
    skipped: the LAST readable entry for an id wins … -/
theorem nameOf_last_readable (pre post : List (Nat × Option String)) (id : Nat) (n : String)
    (hpost : ∀ e ∈ post, e.1 = id → e.2 = none) :
    nameOf (pre ++ (id, some n) :: post) id = some n := by
  rw [nameOf_eq, nameFold_append]
  simp only [nameFold, List.foldl_cons, if_true]
  exact nameFold_keep id (some n) post hpost

/-- … and an id without a readable entry has no name. -/
theorem nameOf_none (names : List (Nat × Option String)) (id : Nat)
    (h : ∀ e ∈ names, e.1 = id → e.2 = none) : nameOf names id = none := by
  rw [nameOf_eq]; exact nameFold_keep id none names h

/-- the dump-writer thread is skipped — no frame, `DumpThreadSkipped` — but keeps its name
    (processor.rs:1047-1056 after /repo commit 1dec95b) -/
theorem dump_thread_skipped (d : Dump) (t : Thread) (h : isDumpThread d t = true) :
    (stackOf d t).name = nameOf d.names t.id ∧ (stackOf d t).info = .dumpThreadSkipped ∧
    (stackOf d t).frame0 = none := by
  unfold stackOf; rw [if_pos h]; exact ⟨rfl, rfl, rfl⟩

/-! ## 2. "the requesting thread is the non-dump-writer thread named by the exception record,
        else by the Breakpad info" -/

/-- which id is asked for: the exception stream's thread id whenever an exception stream exists
    (Breakpad's requesting id is then not consulted at all), else Breakpad's requesting id, which
    counts only when validity bit 1 is set. -/
theorem requestingId_spec (d : Dump) :
    (∀ e c, d.exc = some (e, c) → requestingId d = some e.tid) ∧
    (d.exc = none → ∀ b, d.breakpad = some b →
        requestingId d = if b.validity.testBit 1 then some b.reqId else none) ∧
    (d.exc = none → d.breakpad = none → requestingId d = none) := by
  refine ⟨?_, ?_, ?_⟩
  · intro e c h; simp [requestingId, h]
  · intro h b hb
    simp only [requestingId, h, bpRequestingId, hb, Nat.testBit_succ, Nat.testBit_zero]
    by_cases hv : b.validity / 2 % 2 = 1 <;> simp [hv]
  · intro h hb; simp [requestingId, h, bpRequestingId, hb]

/-- a thread is marked as requesting iff it is not the dump-writer thread (Breakpad validity bit 0)
    and carries the requested id -/
theorem isRequesting_iff (d : Dump) (t : Thread) :
    isRequesting d t = true ↔ dumpThreadId d.breakpad ≠ some t.id ∧ requestingId d = some t.id := by
  simp [isRequesting, isDumpThread]

theorem dumpThreadId_spec (b : Breakpad) :
    dumpThreadId (some b) = if b.validity.testBit 0 then some b.dumpId else none := by
  simp only [dumpThreadId, Nat.testBit_zero]
  by_cases hv : b.validity % 2 = 1 <;> simp [hv]

/-- **C14.2** `requesting_thread = Some(i)` exactly for the LAST thread-list position `i` whose
    thread is marked (non-dump-writer, requested id); `None` exactly when no thread is marked.
    In particular the dump-writer thread is never the requesting thread, even when the exception
    record names it. -/
theorem requesting_thread_rule (d : Dump) (ts : List Thread) (s : State)
    (hth : d.threads = some ts) (h : index d = .state s) :
    (∀ i, s.requesting = some i ↔
        ∃ hi : i < ts.length, isRequesting d ts[i] = true ∧
          ∀ j (hj : j < ts.length), i < j → isRequesting d ts[j] = false) ∧
    (s.requesting = none ↔ ∀ t ∈ ts, isRequesting d t = false) := by
  obtain ⟨-, hreq, -⟩ := index_state_inv d ts s hth h
  rw [hreq]
  constructor
  · intro i
    rw [loop_req]
    constructor
    · rintro (⟨j, hj, hr, hq, hlast⟩ | ⟨hr, -⟩)
      · simp only [Nat.zero_add, Option.some.injEq] at hr
        subst hr
        exact ⟨hj, hq, hlast⟩
      · cases hr
    · rintro ⟨hi, hq, hlast⟩
      exact Or.inl ⟨i, hi, by simp, hq, hlast⟩
  · rw [loop_req]
    constructor
    · rintro (⟨j, hj, hr, -⟩ | ⟨-, hnone⟩)
      · cases hr
      · exact hnone
    · intro hnone
      exact Or.inr ⟨rfl, hnone⟩

theorem requesting_never_dump_thread (d : Dump) (ts : List Thread) (s : State)
    (hth : d.threads = some ts) (h : index d = .state s) (i : Nat) (hreq : s.requesting = some i) :
    ∃ hi : i < ts.length, isDumpThread d ts[i] = false := by
  obtain ⟨hi, hq, -⟩ := ((requesting_thread_rule d ts s hth h).1 i).mp hreq
  refine ⟨hi, ?_⟩
  simp only [isRequesting, Bool.and_eq_true, Bool.not_eq_eq_eq_not, Bool.not_true] at hq
  exact hq.1

/-! ## 3. "whose walk starts from the exception's context when one can be read" -/

/-- **C14.3** the first frame of every call stack: nothing for the skipped dump-writer thread; for
    the requesting thread(s) the exception's context when it is readable and only otherwise the
    thread's own context; for every other thread its own context; and `MissingContext` exactly
    when there is no such context. -/
theorem context_preference (d : Dump) (ts : List Thread) (s : State)
    (hth : d.threads = some ts) (h : index d = .state s)
    (i : Nat) (h1 : i < ts.length) (h2 : i < s.stacks.length) :
    (isDumpThread d ts[i] = true →
        s.stacks[i].info = .dumpThreadSkipped ∧ s.stacks[i].frame0 = none) ∧
    (isDumpThread d ts[i] = false →
        (isRequesting d ts[i] = true → ∀ ip, excCtx d = some ip →
            s.stacks[i].frame0 = some ip ∧ s.stacks[i].info = .ok) ∧
        (isRequesting d ts[i] = true → excCtx d = none →
            s.stacks[i].frame0 = readCtx d ts[i].ctx) ∧
        (isRequesting d ts[i] = false → s.stacks[i].frame0 = readCtx d ts[i].ctx) ∧
        (s.stacks[i].info = .missingContext ↔ s.stacks[i].frame0 = none) ∧
        (s.stacks[i].info = .ok ↔ ∃ ip, s.stacks[i].frame0 = some ip)) := by
  obtain ⟨hatt, -⟩ := index_state_inv d ts s hth h
  have hcore := attach_core _ _ _ _ hatt
  have hi : (s.stacks.map Stack.core)[i]'(by simpa using h2) =
      ((ts.map (stackOf d)).map Stack.core)[i]'(by simpa using h1) := by
    simp only [hcore]
  simp only [List.getElem_map, Stack.core, Prod.mk.injEq] at hi
  obtain ⟨-, -, hinfo, hf0⟩ := hi
  rw [hinfo, hf0]
  constructor
  · intro hd
    exact ⟨(dump_thread_skipped d _ hd).2.1, (dump_thread_skipped d _ hd).2.2⟩
  · intro hd
    have hstart : (stackOf d ts[i]).frame0 = startCtx d ts[i] ∧
        ((stackOf d ts[i]).info = .missingContext ↔ startCtx d ts[i] = none) ∧
        ((stackOf d ts[i]).info = .ok ↔ ∃ ip, startCtx d ts[i] = some ip) := by
      unfold stackOf
      rw [if_neg (by simp [hd])]
      split
      · rename_i ip hip; simp [hip]
      · rename_i hnone; simp [hnone]
    obtain ⟨hf, hmiss, hok⟩ := hstart
    refine ⟨?_, ?_, ?_, ?_, ?_⟩
    · intro hq ip hip
      have : startCtx d ts[i] = some ip := by simp [startCtx, hd, hq, hip]
      exact ⟨by rw [hf, this], hok.mpr ⟨ip, this⟩⟩
    · intro hq hnone
      rw [hf]; simp [startCtx, hd, hq, hnone]
    · intro hq
      rw [hf]; simp [startCtx, hd, hq]
    · rw [hf]; exact hmiss
    · rw [hf]; exact hok

/-- a context is readable only on an architecture for which `MinidumpContext::read` has a format -/
theorem readCtx_spec (d : Dump) (c : Option Nat) :
    readCtx d c = if Reason.archHasContext d.arch then c else none := rfl

/-! ## 4. "crash address [is] the documented function of the exception record, operating system
        and CPU (32-bit addresses zero-extended)" -/

end MdModel.Index
namespace MdModel.Reason
open MdModel MdModel.Gen

/-- the translated `ExceptionCodeWindows` table has no duplicate discriminant and no duplicate name -/
theorem exceptionCodeWindows_nodup :
    (Enums.ExceptionCodeWindows.map (·.1)).Nodup ∧ (Enums.ExceptionCodeWindows.map (·.2)).Nodup := by
  constructor <;> decide

/-- `ExceptionCodeWindows::from_u32(code) == Some(EXCEPTION_ACCESS_VIOLATION)` iff `code = 0xc0000005`
    (proved against the table translated from windows.rs on this run) -/
theorem access_violation_code (v : Nat) :
    lookup Enums.ExceptionCodeWindows v = some "EXCEPTION_ACCESS_VIOLATION" ↔ v = 0xc0000005 :=
  lookup_name_iff exceptionCodeWindows_nodup.1 exceptionCodeWindows_nodup.2 (by decide)

theorem in_page_error_code (v : Nat) :
    lookup Enums.ExceptionCodeWindows v = some "EXCEPTION_IN_PAGE_ERROR" ↔ v = 0xc0000006 :=
  lookup_name_iff exceptionCodeWindows_nodup.1 exceptionCodeWindows_nodup.2 (by decide)

/-- **C14.4** the crash address: exception parameter 1 exactly when the OS is Windows, the code is
    access-violation (0xc0000005) or in-page-error (0xc0000006) AND at least two parameters are
    present; the exception address otherwise; and on a 32-bit CPU the low 32 bits of that,
    zero-extended. -/
theorem crash_address_spec (e : Exc) (os : Os) (cpu : Cpu) :
    crashAddress e os cpu =
      (if cpu.is32 then
        (if os = .windows ∧ (e.code = 0xc0000005 ∨ e.code = 0xc0000006) ∧ 2 ≤ e.nparams then e.p1 else e.addr) % 2^32
      else
        (if os = .windows ∧ (e.code = 0xc0000005 ∨ e.code = 0xc0000006) ∧ 2 ≤ e.nparams then e.p1 else e.addr)) := by
  unfold crashAddress
  simp only [access_violation_code, in_page_error_code, ge_iff_le]

/-- zero-extension: on a 32-bit CPU the crash address fits 32 bits, whatever the (possibly
    sign-extended) 64-bit fields of the record hold -/
theorem crash_address_zero_extended (e : Exc) (os : Os) (cpu : Cpu) (h : cpu.is32 = true) :
    crashAddress e os cpu < 2^32 := by
  rw [crash_address_spec, if_pos h]
  exact Nat.mod_lt _ (by decide)

/-- the parameter-count gate: with fewer than two parameters parameter 1 is never used -/
theorem crash_address_param_gate (e : Exc) (os : Os) (cpu : Cpu) (h : e.nparams < 2) :
    crashAddress e os cpu = if cpu.is32 then e.addr % 2^32 else e.addr := by
  rw [crash_address_spec]
  have : ¬ (os = .windows ∧ (e.code = 0xc0000005 ∨ e.code = 0xc0000006) ∧ 2 ≤ e.nparams) := by omega
  simp only [if_neg this]

/-- on a 64-bit (or unknown-width) CPU nothing is masked -/
theorem crash_address_64 (e : Exc) (os : Os) (cpu : Cpu) (h : cpu.is32 = false) (hos : os ≠ .windows) :
    crashAddress e os cpu = e.addr := by
  rw [crash_address_spec]
  simp [h, hos]

/-- which raw `processor_architecture` values are 32-bit CPUs (x86, WoW64, MIPS, PPC, ARM, SPARC) -/
theorem is32_archs :
    [0, 10, 1, 3, 5, 0x8001].all (fun a => (Cpu.ofArch a).is32) = true ∧
    [9, 12, 0x8002, 0x8003, 0x8004, 6, 0xffff, 77].all (fun a => !(Cpu.ofArch a).is32) = true := by
  constructor <;> decide

/-! ## 5. "crash reason [is] the documented function of the exception record, operating system
        and CPU" — which enum family is consulted for which OS / CPU; unknown codes fall to
        `Unknown(code, flags)` -/

def windowsFamilies : List Family :=
  [.WindowsGeneral, .WindowsWinError, .WindowsWinErrorWithFacility, .WindowsNtStatus,
   .WindowsAccessViolation, .WindowsInPageError, .WindowsStackBufferOverrun, .WindowsUnknown]

def linuxFamilies : List Family :=
  [.LinuxGeneral, .LinuxSigill, .LinuxSigtrap, .LinuxSigbus, .LinuxSigfpe, .LinuxSigsegv, .LinuxSigsys]

def macFamilies : List Family :=
  [.MacGeneral, .MacBadAccessKern, .MacBadAccessArm, .MacBadAccessPpc, .MacBadAccessX86,
   .MacBadInstructionArm, .MacBadInstructionPpc, .MacBadInstructionX86,
   .MacArithmeticArm, .MacArithmeticPpc, .MacArithmeticX86, .MacSoftware,
   .MacBreakpointArm, .MacBreakpointPpc, .MacBreakpointX86, .MacResource, .MacGuard]

theorem windowsCode_family (code : Nat) :
    (windowsCode code).family ∈
      [Family.WindowsGeneral, .WindowsWinError, .WindowsNtStatus, .WindowsWinErrorWithFacility, .WindowsUnknown] := by
  unfold windowsCode
  split
  · simp [Reason.mk1]
  · unfold windowsError
    split
    · simp [Reason.mk1]
    · split
      · simp [Reason.mk1]
      · split
        · rename_i r hr
          unfold windowsWithFacility at hr
          split at hr
          · split at hr
            · split at hr
              · cases hr; simp
              · cases hr
            · cases hr
          · cases hr
        · simp

theorem windowsException_family (e : Exc) : (windowsException e).family ∈ windowsFamilies := by
  have hc := windowsCode_family e.code
  have hbase : (windowsCode e.code).family ∈ windowsFamilies := by
    simp only [windowsFamilies, List.mem_cons, List.mem_nil_iff, or_false] at hc ⊢
    rcases hc with h | h | h | h | h <;> simp [h]
  unfold windowsException
  simp only
  split
  · split
    · split
      · simp [windowsFamilies, Reason.mk1]
      · exact hbase
    · exact hbase
  · split
    · split
      · split
        · simp [windowsFamilies]
        · exact hbase
      · exact hbase
    · split
      · split
        · simp [windowsFamilies]
        · exact hbase
      · exact hbase

theorem windowsError_family (code : Nat) :
    (windowsError code).family ∈
      [Family.WindowsWinError, .WindowsNtStatus, .WindowsWinErrorWithFacility, .WindowsUnknown] := by
  have h := windowsCode_family code
  unfold windowsError
  split
  · simp [Reason.mk1]
  · split
    · simp [Reason.mk1]
    · split
      · rename_i r hr
        unfold windowsWithFacility at hr
        split at hr
        · split at hr
          · split at hr
            · cases hr; simp
            · cases hr
          · cases hr
        · cases hr
      · simp

/-- `from_windows_code` yields `WindowsGeneral(name)` exactly for the codes of `ExceptionCodeWindows` -/
theorem windowsCode_general_iff (code : Nat) (n : String) :
    windowsCode code = .mk1 .WindowsGeneral n ↔ lookup Enums.ExceptionCodeWindows code = some n := by
  unfold windowsCode
  cases h : lookup Enums.ExceptionCodeWindows code with
  | some m => simp [Reason.mk1]
  | none =>
    simp only [reduceCtorEq, iff_false]
    intro heq
    have hf := windowsError_family code
    rw [heq] at hf
    simp [Reason.mk1] at hf

/-- `ExceptionCodeWindowsAccessType::from_u64` knows exactly 0 (READ), 1 (WRITE) and 8 (EXEC) -/
theorem accessType_cases (v : Nat) :
    (v = 0 ∧ lookup Enums.ExceptionCodeWindowsAccessType v = some "READ") ∨
    (v = 1 ∧ lookup Enums.ExceptionCodeWindowsAccessType v = some "WRITE") ∨
    (v = 8 ∧ lookup Enums.ExceptionCodeWindowsAccessType v = some "EXEC") ∨
    (v ≠ 0 ∧ v ≠ 1 ∧ v ≠ 8 ∧ lookup Enums.ExceptionCodeWindowsAccessType v = none) := by
  by_cases h0 : v = 0
  · subst h0; left; exact ⟨rfl, by decide⟩
  by_cases h1 : v = 1
  · subst h1; right; left; exact ⟨rfl, by decide⟩
  by_cases h8 : v = 8
  · subst h8; right; right; left; exact ⟨rfl, by decide⟩
  right; right; right
  refine ⟨h0, h1, h8, ?_⟩
  rw [lookup_none_iff]
  intro n hn
  simp only [Enums.ExceptionCodeWindowsAccessType, List.mem_cons, Prod.mk.injEq, List.mem_nil_iff, or_false] at hn
  omega

/-- the access-violation refinement of the Windows reason and ITS parameter-count gate (one
    parameter suffices for the access type, while the address needs two — `crash_address_spec`) -/
theorem windows_access_violation_iff (e : Exc) :
    (windowsException e).family = .WindowsAccessViolation ↔
      e.code = 0xc0000005 ∧ 1 ≤ e.nparams ∧ (e.p0 = 0 ∨ e.p0 = 1 ∨ e.p0 = 8) := by
  have hfam := windowsCode_family e.code
  have hne : ∀ f, f ∈ [Family.WindowsGeneral, .WindowsWinError, .WindowsNtStatus,
      .WindowsWinErrorWithFacility, .WindowsUnknown] → f ≠ .WindowsAccessViolation := by decide
  have hbase := hne _ hfam
  unfold windowsException
  simp only [windowsCode_general_iff, access_violation_code, in_page_error_code, ge_iff_le]
  by_cases hc : e.code = 0xc0000005
  · rw [if_pos hc]
    by_cases hn : 1 ≤ e.nparams
    · rw [if_pos hn]
      rcases accessType_cases e.p0 with ⟨h, hl⟩ | ⟨h, hl⟩ | ⟨h, hl⟩ | ⟨h0, h1, h8, hl⟩
      · rw [hl]; simp [Reason.mk1, hc, hn, h]
      · rw [hl]; simp [Reason.mk1, hc, hn, h]
      · rw [hl]; simp [Reason.mk1, hc, hn, h]
      · rw [hl]; simp only; constructor
        · intro h; exact absurd h hbase
        · rintro ⟨-, -, h | h | h⟩ <;> contradiction
    · rw [if_neg hn]
      constructor
      · intro h; exact absurd h hbase
      · rintro ⟨-, h, -⟩; exact absurd h hn
  · rw [if_neg hc]
    constructor
    · intro h
      exfalso
      split at h
      · split at h
        · split at h
          · simp at h
          · exact hbase h
        · exact hbase h
      · split at h
        · split at h
          · simp at h
          · exact hbase h
        · exact hbase h
    · rintro ⟨h, -⟩; exact absurd h hc

/-- the small sub-code tables, as documented by the platform ABIs (asm-generic/siginfo.h,
    WinNT.h): a change of any of these values in the Rust source breaks this obligation -/
theorem documented_small_tables :
    Enums.ExceptionCodeLinuxSigsegvKind = [(1, "SEGV_MAPERR"), (2, "SEGV_ACCERR"), (3, "SEGV_BNDERR"), (4, "SEGV_PKUERR")] ∧
    Enums.ExceptionCodeLinuxSigbusKind =
      [(1, "BUS_ADRALN"), (2, "BUS_ADRERR"), (3, "BUS_OBJERR"), (4, "BUS_MCEERR_AR"), (5, "BUS_MCEERR_AO")] ∧
    Enums.ExceptionCodeLinuxSigsysKind = [(1, "SYS_SECCOMP"), (2, "SYS_USER_DISPATCH")] ∧
    Enums.ExceptionCodeWindowsAccessType = [(0, "READ"), (1, "WRITE"), (8, "EXEC")] ∧
    Enums.ExceptionCodeWindowsInPageErrorType = [(0, "READ"), (1, "WRITE"), (8, "EXEC")] ∧
    lookup Enums.ExceptionCodeLinux 11 = some "SIGSEGV" ∧ lookup Enums.ExceptionCodeLinux 7 = some "SIGBUS" ∧
    lookup Enums.ExceptionCodeLinux 4 = some "SIGILL" ∧ lookup Enums.ExceptionCodeLinux 8 = some "SIGFPE" ∧
    lookup Enums.ExceptionCodeLinux 5 = some "SIGTRAP" ∧ lookup Enums.ExceptionCodeLinux 31 = some "SIGSYS" ∧
    lookup Enums.ExceptionCodeLinux 6 = some "SIGABRT" ∧
    lookup Enums.ExceptionCodeMac 1 = some "EXC_BAD_ACCESS" ∧ lookup Enums.ExceptionCodeMac 2 = some "EXC_BAD_INSTRUCTION" ∧
    lookup Enums.ExceptionCodeMac 3 = some "EXC_ARITHMETIC" ∧ lookup Enums.ExceptionCodeMac 5 = some "EXC_SOFTWARE" ∧
    lookup Enums.ExceptionCodeMac 6 = some "EXC_BREAKPOINT" ∧ lookup Enums.ExceptionCodeMac 11 = some "EXC_RESOURCE" ∧
    lookup Enums.ExceptionCodeMac 12 = some "EXC_GUARD" ∧
    lookup Enums.NtStatusWindows 0xc0000409 = some "STATUS_STACK_BUFFER_OVERRUN" := by
  decide +kernel

theorem linuxException_cases (e : Exc) :
    (lookup Enums.ExceptionCodeLinux e.code = none ∧ linuxException e = none) ∨
    (∃ n r, lookup Enums.ExceptionCodeLinux e.code = some n ∧ linuxException e = some r ∧
        (r.family ∈ linuxFamilies) ∧ (r.family = .LinuxGeneral → r = ⟨.LinuxGeneral, [n], [e.flags]⟩)) := by
  unfold linuxException
  cases h : lookup Enums.ExceptionCodeLinux e.code with
  | none => left; exact ⟨rfl, rfl⟩
  | some n =>
    right
    refine ⟨n, _, rfl, rfl, ?_⟩
    have key : ∀ (t : Enums.Table) (f : Family), f ∈ linuxFamilies → f ≠ .LinuxGeneral →
        ((refine t f e.flags ⟨.LinuxGeneral, [n], [e.flags]⟩).family ∈ linuxFamilies) ∧
        ((refine t f e.flags ⟨.LinuxGeneral, [n], [e.flags]⟩).family = .LinuxGeneral →
          refine t f e.flags ⟨.LinuxGeneral, [n], [e.flags]⟩ = ⟨.LinuxGeneral, [n], [e.flags]⟩) := by
      intro t f hf hne
      rcases refine_family t f e.flags ⟨.LinuxGeneral, [n], [e.flags]⟩ with h | h
      · rw [h]; exact ⟨hf, fun h' => absurd h' hne⟩
      · rw [h]; exact ⟨by simp [linuxFamilies], fun _ => rfl⟩
    split
    · exact key _ _ (by simp [linuxFamilies]) (by decide)
    · split
      · exact key _ _ (by simp [linuxFamilies]) (by decide)
      · split
        · exact key _ _ (by simp [linuxFamilies]) (by decide)
        · split
          · exact key _ _ (by simp [linuxFamilies]) (by decide)
          · split
            · exact key _ _ (by simp [linuxFamilies]) (by decide)
            · split
              · exact key _ _ (by simp [linuxFamilies]) (by decide)
              · exact ⟨by simp [linuxFamilies], fun _ => rfl⟩

/-- the CPU-specific macOS families, by the CPU class they belong to -/
def macArmFamilies : List Family := [.MacBadAccessArm, .MacBadInstructionArm, .MacArithmeticArm, .MacBreakpointArm]
def macPpcFamilies : List Family := [.MacBadAccessPpc, .MacBadInstructionPpc, .MacArithmeticPpc, .MacBreakpointPpc]
def macX86Families : List Family := [.MacBadAccessX86, .MacBadInstructionX86, .MacArithmeticX86, .MacBreakpointX86]

/-- what holds of every reason `from_mac_exception` can return for a known exception code `n` -/
def MacOk (n : String) (e : Exc) (cpu : Cpu) (r : Reason) : Prop :=
  r.family ∈ macFamilies ∧
  (r.family ∈ macArmFamilies → MacCpu.of cpu = .arm) ∧
  (r.family ∈ macPpcFamilies → MacCpu.of cpu = .ppc) ∧
  (r.family ∈ macX86Families → MacCpu.of cpu = .x86) ∧
  (r.family = .MacGeneral → r = ⟨.MacGeneral, [n], [e.flags]⟩)

theorem macOk_dflt (n : String) (e : Exc) (cpu : Cpu) : MacOk n e cpu ⟨.MacGeneral, [n], [e.flags]⟩ :=
  ⟨(by decide : Family.MacGeneral ∈ macFamilies),
   fun h => absurd h (by decide : Family.MacGeneral ∉ macArmFamilies),
   fun h => absurd h (by decide : Family.MacGeneral ∉ macPpcFamilies),
   fun h => absurd h (by decide : Family.MacGeneral ∉ macX86Families),
   fun _ => rfl⟩

theorem macOk_of_family (n : String) (e : Exc) (cpu : Cpu) (r : Reason) (f : Family) (hr : r.family = f)
    (hf : f ∈ macFamilies) (hne : f ≠ .MacGeneral)
    (harm : f ∈ macArmFamilies → MacCpu.of cpu = .arm)
    (hppc : f ∈ macPpcFamilies → MacCpu.of cpu = .ppc)
    (hx86 : f ∈ macX86Families → MacCpu.of cpu = .x86) : MacOk n e cpu r := by
  unfold MacOk; rw [hr]
  exact ⟨hf, harm, hppc, hx86, fun h => absurd h hne⟩

theorem macOk_refine (n : String) (e : Exc) (cpu : Cpu) (t : Enums.Table) (f : Family)
    (hf : f ∈ macFamilies) (hne : f ≠ .MacGeneral)
    (harm : f ∈ macArmFamilies → MacCpu.of cpu = .arm)
    (hppc : f ∈ macPpcFamilies → MacCpu.of cpu = .ppc)
    (hx86 : f ∈ macX86Families → MacCpu.of cpu = .x86) :
    MacOk n e cpu (refine t f e.flags ⟨.MacGeneral, [n], [e.flags]⟩) := by
  rcases refine_family t f e.flags ⟨.MacGeneral, [n], [e.flags]⟩ with h | h
  · exact macOk_of_family n e cpu _ f h hf hne harm hppc hx86
  · rw [h]; exact macOk_dflt n e cpu

/-- closes one branch of `macException` -/
local macro "mac_branch" : tactic =>
  `(tactic| first
    | exact macOk_dflt _ _ _
    | (refine macOk_refine _ _ _ _ _ (by decide) (by decide) ?_ ?_ ?_ <;>
        first | (intro _; assumption) | (intro h'; exact absurd h' (by decide)))
    | (refine macOk_of_family _ _ _ _ Family.MacBadAccessKern rfl (by decide) (by decide) ?_ ?_ ?_ <;>
        (intro h'; exact absurd h' (by decide)))
    | (refine macOk_of_family _ _ _ _ Family.MacResource rfl (by decide) (by decide) ?_ ?_ ?_ <;>
        (intro h'; exact absurd h' (by decide)))
    | (refine macOk_of_family _ _ _ _ Family.MacGuard rfl (by decide) (by decide) ?_ ?_ ?_ <;>
        (intro h'; exact absurd h' (by decide))))

theorem macException_cases (e : Exc) (cpu : Cpu) :
    (lookup Enums.ExceptionCodeMac e.code = none ∧ macException e cpu = none) ∨
    (∃ n r, lookup Enums.ExceptionCodeMac e.code = some n ∧ macException e cpu = some r ∧ MacOk n e cpu r) := by
  unfold macException
  cases h : lookup Enums.ExceptionCodeMac e.code with
  | none => left; exact ⟨rfl, rfl⟩
  | some n =>
    right
    refine ⟨n, _, rfl, rfl, ?_⟩
    split
    · split
      · mac_branch
      · split <;> mac_branch
    · split
      · split <;> mac_branch
      · split
        · split <;> mac_branch
        · split
          · mac_branch
          · split
            · split <;> mac_branch
            · split
              · split <;> mac_branch
              · split
                · split <;> mac_branch
                · mac_branch

/-- **C14.5** which enum family is consulted for which OS and CPU:
    * Windows: always one of the eight Windows families (never `Unknown`), CPU-independent;
    * Linux / Android: signal in `ExceptionCodeLinux` ⇒ one of the seven Linux families
      (`LinuxGeneral(signal, flags)` when no sub-code table matches), CPU-independent;
      signal not in the table ⇒ `Unknown(code, flags)`;
    * macOS / iOS: exception in `ExceptionCodeMac` ⇒ one of the seventeen Mac families, where an
      ARM / PPC / X86 family is only ever produced for an arm64 / ppc / x86-or-amd64 CPU;
      exception not in the table ⇒ `Unknown(code, flags)`;
    * every other OS ⇒ `Unknown(code, flags)`. -/
theorem reason_family (e : Exc) (os : Os) (cpu : Cpu) :
    (os = .windows →
        fromException e os cpu = windowsException e ∧ (fromException e os cpu).family ∈ windowsFamilies) ∧
    (os = .linux ∨ os = .android →
        (lookup Enums.ExceptionCodeLinux e.code = none ∧ fromException e os cpu = unknownReason e) ∨
        (∃ n, lookup Enums.ExceptionCodeLinux e.code = some n ∧
            (fromException e os cpu).family ∈ linuxFamilies ∧
            ((fromException e os cpu).family = .LinuxGeneral →
                fromException e os cpu = ⟨.LinuxGeneral, [n], [e.flags]⟩))) ∧
    (os = .macos ∨ os = .ios →
        (lookup Enums.ExceptionCodeMac e.code = none ∧ fromException e os cpu = unknownReason e) ∨
        (∃ n, lookup Enums.ExceptionCodeMac e.code = some n ∧ MacOk n e cpu (fromException e os cpu))) ∧
    (os ≠ .windows → os ≠ .linux → os ≠ .android → os ≠ .macos → os ≠ .ios →
        fromException e os cpu = unknownReason e) := by
  refine ⟨?_, ?_, ?_, ?_⟩
  · rintro rfl
    have : fromException e .windows cpu = windowsException e := rfl
    exact ⟨this, by rw [this]; exact windowsException_family e⟩
  · intro hos
    have : fromException e os cpu = (linuxException e).getD (unknownReason e) := by
      rcases hos with rfl | rfl <;> rfl
    rw [this]
    rcases linuxException_cases e with ⟨h1, h2⟩ | ⟨n, r, h1, h2, h3, h4⟩
    · left; exact ⟨h1, by rw [h2]; rfl⟩
    · right; refine ⟨n, h1, ?_⟩; rw [h2]; exact ⟨h3, h4⟩
  · intro hos
    have : fromException e os cpu = (macException e cpu).getD (unknownReason e) := by
      rcases hos with rfl | rfl <;> rfl
    rw [this]
    rcases macException_cases e cpu with ⟨h1, h2⟩ | ⟨n, r, h1, h2, h3⟩
    · left; exact ⟨h1, by rw [h2]; rfl⟩
    · right; refine ⟨n, h1, ?_⟩; rw [h2]; exact h3
  · intro h1 h2 h3 h4 h5
    cases os <;> first | rfl | contradiction

/-- the `Unknown` fallback carries exactly the raw code and flags -/
theorem unknownReason_spec (e : Exc) : unknownReason e = ⟨.Unknown, [], [e.code, e.flags]⟩ := rfl

/-- the CPU classes of `from_mac_exception`: arm64 only (not 32-bit ARM), ppc only (not ppc64),
    x86 and amd64 -/
theorem macCpu_spec (cpu : Cpu) :
    (MacCpu.of cpu = .arm ↔ cpu = .arm64) ∧ (MacCpu.of cpu = .ppc ↔ cpu = .ppc) ∧
    (MacCpu.of cpu = .x86 ↔ cpu = .x86 ∨ cpu = .x86_64) := by
  cases cpu <;> simp [MacCpu.of]

end MdModel.Reason
namespace MdModel.Index
open MdModel
open MdModel.Reason (Exc Reason Os Cpu)

/-! ## 6. "process id and times are those of the corresponding streams" -/

/-- **C14.6** dump time from the header; process id and create time from the misc-info stream when
    that stream exists — each only under its own flag bit, with NO fallback to the Linux status —
    and otherwise the process id of the Linux status stream and no create time. -/
theorem pid_times_spec (d : Dump) (ts : List Thread) (s : State)
    (hth : d.threads = some ts) (h : index d = .state s) :
    s.time = d.timestamp ∧
    (∀ m, d.misc = some m →
        s.pid = (if m.flags.testBit 0 then some m.pid else none) ∧
        s.ctime = (if m.flags.testBit 1 then some m.ctime else none)) ∧
    (d.misc = none → s.ctime = none ∧ s.pid = d.status.map statusPid) := by
  obtain ⟨-, -, -, hpid, hct, htime, -⟩ := index_state_inv d ts s hth h
  refine ⟨htime, ?_, ?_⟩
  · intro m hm
    rw [hpid, hct]
    simp only [processId, createTime, hm, Nat.testBit_succ, Nat.testBit_zero]
    constructor
    · by_cases hv : m.flags % 2 = 1 <;> simp [hv]
    · by_cases hv : m.flags / 2 % 2 = 1 <;> simp [hv]
  · intro hm
    rw [hpid, hct]
    simp [processId, createTime, hm]

/-- the Linux status pid: the FIRST `Pid` line, 0 when it does not parse as a `u32` -/
theorem statusPid_spec (pre post : List (String × String)) (v : String)
    (hpre : ∀ e ∈ pre, e.1 ≠ "Pid") :
    statusPid (pre ++ ("Pid", v) :: post) = (parseU32 v).getD 0 := by
  unfold statusPid
  have : (pre ++ ("Pid", v) :: post).find? (fun e => e.1 == "Pid") = some ("Pid", v) := by
    rw [List.find?_append]
    have : pre.find? (fun e => e.1 == "Pid") = none := by
      simp only [List.find?_eq_none, beq_iff_eq]
      exact fun e he => hpre e he
    simp [this]
  rw [this]

theorem statusPid_none (kv : List (String × String)) (h : ∀ e ∈ kv, e.1 ≠ "Pid") : statusPid kv = 0 := by
  unfold statusPid
  have : kv.find? (fun e => e.1 == "Pid") = none := by
    simp only [List.find?_eq_none, beq_iff_eq]
    exact fun e he => h e he
  rw [this]

/-! ## 7. "Modules, unloaded modules with per-frame offsets … are those of the corresponding streams" -/

/-- **C14.0** a dump with a thread list is always processed: no panic outcome — neither the
    `unwrap` inside the loaded-module table (C08 `safe_ok`) nor the checked subtraction
    `frame.instruction - base_of_image` (every module returned by the lookup covers the address,
    C08 `unloaded_exact`) can fire. -/
theorem index_total (d : Dump) (ts : List Thread) (hth : d.threads = some ts) :
    ∃ s, index d = .state s := by
  obtain ⟨ss, hss⟩ := attach_some_of (loadedModules d) (unloadedModules d) (ts.map (stackOf d))
    (fun _ _ a _ => frameUnloaded_some _ _ a)
  unfold index
  rw [hth]
  simp only
  rw [loop_stacks, hss]
  exact ⟨_, rfl⟩

/-- without a thread list nothing is produced (`ProcessError::MissingThreadList`) -/
theorem index_no_thread_list (d : Dump) (hth : d.threads = none) : index d = .missingThreadList := by
  unfold index; rw [hth]

theorem stackOf_unloaded (d : Dump) (t : Thread) : (stackOf d t).unloaded = [] := by
  unfold stackOf; split
  · rfl
  · split <;> rfl

/-- **C14.7** per-frame unloaded-module offsets: a context frame inside a loaded module gets none;
    otherwise it gets `(name, instruction − base)` for exactly the unloaded modules whose range
    covers the instruction (all of them, possibly several per name), and nothing else. -/
theorem unloaded_offsets (d : Dump) (ts : List Thread) (s : State)
    (hth : d.threads = some ts) (h : index d = .state s)
    (i : Nat) (h1 : i < ts.length) (h2 : i < s.stacks.length) :
    (s.stacks[i].frame0 = none → s.stacks[i].unloaded = []) ∧
    (∀ a, s.stacks[i].frame0 = some a →
      (inLoadedModule (loadedModules d) a = some true → s.stacks[i].unloaded = []) ∧
      (inLoadedModule (loadedModules d) a = some false →
        ∀ name off, (name, off) ∈ s.stacks[i].unloaded ↔
          ∃ m ∈ unloadedModules d, covers m a = true ∧ name = m.name ∧ off = a - m.base)) := by
  obtain ⟨hatt, -⟩ := index_state_inv d ts s hth h
  have hcore := attach_core _ _ _ _ hatt
  have hi : (s.stacks.map Stack.core)[i]'(by simpa using h2) =
      ((ts.map (stackOf d)).map Stack.core)[i]'(by simpa using h1) := by
    simp only [hcore]
  simp only [List.getElem_map, Stack.core, Prod.mk.injEq] at hi
  obtain ⟨-, -, -, hf0⟩ := hi
  have hu := attach_unloaded _ _ _ _ hatt i (by simpa using h1) h2
  simp only [List.getElem_map] at hu
  rw [hf0]
  constructor
  · intro hnone
    rw [hnone] at hu
    simp only at hu
    rw [hu, stackOf_unloaded]
  · intro a ha
    rw [ha] at hu
    simp only at hu
    unfold frameUnloaded at hu
    constructor
    · intro hin
      rw [hin] at hu
      simp only [Option.some.injEq] at hu
      exact hu.symm
    · intro hin
      rw [hin] at hu
      simp only at hu
      obtain ⟨l, hl, hspec⟩ := offsetsAt_spec (unloadedModules d) a
      rw [hl] at hu
      cases hu
      exact hspec

/-- the loaded-module test of a frame is C08's sound lookup: a frame is attributed to a loaded
    module only if some (valid) loaded module's own range contains the instruction -/
theorem inLoadedModule_sound (ms : List Mod) (a : Nat) (h : inLoadedModule ms a = some true) :
    ∃ m ∈ ms, covers m a = true := by
  unfold inLoadedModule at h
  split at h
  · rename_i t ht
    simp only [Option.some.injEq, Option.isSome_iff_exists] at h
    obtain ⟨v, hv⟩ := h
    have hwf : RangeMap.InputWF (ms.zipIdx.map fun (m, i) => (RangeMap.mkRange m.base m.size, i)) := by
      intro e he r hr
      simp only [List.mem_map] at he
      obtain ⟨⟨m, i⟩, -, rfl⟩ := he
      have := RangeMap.mkRange_wf hr
      exact ⟨this.1, this.2.1⟩
    rw [RangeMap.safe_ok _ hwf] at ht
    cases ht
    obtain ⟨r, hr, hlo, hhi⟩ := RangeMap.get_sound _ a v hv
    simp only [List.mem_map] at hr
    obtain ⟨⟨m, i⟩, hmem, heq⟩ := hr
    simp only [Prod.mk.injEq] at heq
    have hm : m ∈ ms := List.mem_of_getElem? (List.mem_zipIdx_iff_getElem?.mp hmem)
    refine ⟨m, hm, ?_⟩
    unfold covers; rw [heq.1]; simp [RangeMap.Rng.contains, hlo, hhi]
  · cases h

/-- **C14.8** the module lists are those of the streams: loaded modules in stream order minus the
    entries with an impossible size (0, or overflowing the address space); the unloaded-module
    stream as a whole, or nothing if any of its entries has an impossible size. -/
theorem modules_mirror (d : Dump) (ts : List Thread) (s : State)
    (hth : d.threads = some ts) (h : index d = .state s) :
    s.modules = d.modules.filter (fun m => !badSize m) ∧
    s.unloaded = (if d.unloaded.any badSize then [] else d.unloaded) := by
  obtain ⟨-, -, -, -, -, -, hm, hu⟩ := index_state_inv d ts s hth h
  exact ⟨hm, hu⟩

theorem badSize_iff (m : Mod) : badSize m = true ↔ m.size = 0 ∨ m.base + m.size > U64MAX := by
  unfold badSize
  simp only [Bool.or_eq_true, decide_eq_true_eq]
  omega

/-! ## 8. non-vacuity: concrete instances of the hypotheses, evaluated by the kernel -/

/-- three threads (ids 5, 7, 5), Breakpad says thread 7 wrote the dump, the exception names
    thread 5: both threads with id 5 start from the exception context, the last one is the
    requesting thread, thread 7 is skipped and keeps its name -/
def exampleDump : Dump :=
  { platformId := 3, arch := 0, timestamp := 42,
    threads := some [⟨5, some 0x1000⟩, ⟨7, some 0x2000⟩, ⟨5, none⟩],
    names := [(5, some "a"), (7, some "writer"), (5, none), (5, some "b"), (5, none)],
    breakpad := some ⟨3, 7, 5⟩,
    exc := some (⟨5, 0xc0000005, 0, 0xffffffff80001234, 2, 1, 0xffffffff00000010, 0⟩, some 0x3000),
    misc := some ⟨1, 99, 1000⟩, status := some [("Pid", "7")],
    modules := [⟨0x2f00, 0x200, "m"⟩],
    unloaded := [⟨0x2000, 0x2000, "u"⟩, ⟨0x3000, 1, "v"⟩, ⟨0x3001, 5, "w"⟩] }

def exampleThreads : List Thread := [⟨5, some 0x1000⟩, ⟨7, some 0x2000⟩, ⟨5, none⟩]

/-- the hypotheses of the theorems above are inhabited by `exampleDump` … -/
example : ∃ s, exampleDump.threads = some exampleThreads ∧ index exampleDump = .state s := by
  obtain ⟨s, hs⟩ := index_total exampleDump exampleThreads rfl
  exact ⟨s, rfl, hs⟩

/-- … and this is what they say about it (the sort-free parts evaluated by the kernel) -/
example :
    (exampleThreads.map (stackOf exampleDump)).map Stack.core =
      [(5, some "b", .ok, some 0x3000), (7, some "writer", .dumpThreadSkipped, none), (5, some "b", .ok, some 0x3000)] ∧
    (loop exampleDump 0 exampleThreads none).2 = some 2 ∧
    requestingId exampleDump = some 5 ∧ dumpThreadId exampleDump.breakpad = some 7 ∧
    processId exampleDump = some 99 ∧ createTime exampleDump = none := by decide

example : isDumpThread exampleDump ⟨7, some 0x2000⟩ = true ∧
    nameOf exampleDump.names 7 = some "writer" ∧ (stackOf exampleDump ⟨7, some 0x2000⟩).name = some "writer" := by decide

example : isRequesting exampleDump ⟨5, none⟩ = true ∧ isRequesting exampleDump ⟨7, some 0x2000⟩ = false ∧
    excCtx exampleDump = some 0x3000 := by decide

/-- the frame at 0x3000 is covered by the unloaded modules `u` (offset 0x1000) and `v` (offset 0),
    not by `w` -/
example : ∃ l, offsetsAt exampleDump.unloaded 0x3000 = some l ∧
    ("u", 0x1000) ∈ l ∧ ("v", 0) ∈ l ∧ ∀ off, ("w", off) ∉ l := by
  obtain ⟨l, hl, hspec⟩ := offsetsAt_spec exampleDump.unloaded 0x3000
  refine ⟨l, hl, ?_, ?_, ?_⟩
  · exact (hspec _ _).mpr ⟨⟨0x2000, 0x2000, "u"⟩, by decide, by decide, rfl, by decide⟩
  · exact (hspec _ _).mpr ⟨⟨0x3000, 1, "v"⟩, by decide, by decide, rfl, by decide⟩
  · intro off hmem
    obtain ⟨m, hm, hc, hn, -⟩ := (hspec _ _).mp hmem
    simp only [exampleDump, List.mem_cons, List.mem_nil_iff, or_false] at hm
    rcases hm with rfl | rfl | rfl
    · exact absurd hn (by decide)
    · exact absurd hn (by decide)
    · exact absurd hc (by decide)

/-- `nameOf_last_readable` instantiated: entries after the last readable one for id 5 are unreadable -/
example : nameOf ([(5, some "a"), (7, some "writer"), (5, none)] ++ (5, some "b") :: [(5, none)]) 5 = some "b" :=
  nameOf_last_readable _ _ 5 "b" (by decide)

/-- `statusPid_spec` instantiated: the first `Pid` line counts, `+12` parses, `4294967296` does not -/
example : statusPid ([("Name", "x")] ++ ("Pid", "+12") :: [("Pid", "13")]) = 12 := by
  rw [statusPid_spec _ _ _ (by decide)]; decide
example : statusPid ([] ++ ("Pid", "4294967296") :: []) = 0 := by
  rw [statusPid_spec _ _ _ (by decide)]; decide

/-- `requesting_never_dump_thread`'s hypothesis is inhabited: position 2 of `exampleDump` -/
example : (loop exampleDump 0 exampleThreads none).2 = some 2 ∧ isDumpThread exampleDump ⟨5, none⟩ = false := by decide

/-- a frame inside a loaded module (hypothesis of `inLoadedModule_sound` and of the first clause
    of `unloaded_offsets`) -/
example : inLoadedModule [⟨0x2f00, 0x200, "m"⟩] 0x3000 = some true := by
  simp [inLoadedModule, RangeMap.safe, RangeMap.tryFromIter, RangeMap.safeVec, RangeMap.sortOpt,
    RangeMap.sortEntries, RangeMap.validOnly, RangeMap.pass, RangeMap.keep, RangeMap.disc,
    RangeMap.mkRange, U64MAX, List.zipIdx]
  decide

end MdModel.Index
namespace MdModel.Reason
open MdModel MdModel.Gen

example : crashAddress ⟨1, 0xc0000005, 0, 0xffffffff80001234, 2, 1, 0xffffffff00000010, 0⟩ .windows .x86 = 0x10 := by decide
example : crashAddress ⟨1, 0xc0000005, 0, 0xffffffff80001234, 1, 1, 0xffffffff00000010, 0⟩ .windows .x86 = 0x80001234 := by decide
example : crashAddress ⟨1, 0xc0000005, 0, 0xffffffff80001234, 2, 1, 0xffffffff00000010, 0⟩ .linux .x86_64 = 0xffffffff80001234 := by decide
example : (fromException ⟨1, 0xc0000006, 0, 0, 3, 8, 0, 0x1c000000e⟩ .windows .x86_64).render =
    "WindowsInPageError(EXEC,3221225486)" := by decide
example : (fromException ⟨1, 1, 0x101, 0, 0, 0, 0, 0⟩ .macos .arm64).family = .MacBadAccessArm ∧
    (fromException ⟨1, 1, 0x101, 0, 0, 0, 0, 0⟩ .macos .x86_64).family = .MacGeneral ∧
    (fromException ⟨1, 1, 1, 0, 0, 0, 0, 0⟩ .macos .arm64).family = .MacBadAccessKern := by decide
example : fromException ⟨1, 11, 1, 0, 0, 0, 0, 0⟩ .linux .arm = ⟨.LinuxSigsegv, ["SEGV_MAPERR"], []⟩ ∧
    fromException ⟨1, 11, 99, 0, 0, 0, 0, 0⟩ .android .arm = ⟨.LinuxGeneral, ["SIGSEGV"], [99]⟩ ∧
    fromException ⟨1, 99, 7, 0, 0, 0, 0, 0⟩ .linux .arm = ⟨.Unknown, [], [99, 7]⟩ ∧
    fromException ⟨1, 11, 1, 0, 0, 0, 0, 0⟩ .solaris .arm = ⟨.Unknown, [], [11, 1]⟩ := by decide
example : Os.ofPlatformId 0x8101 = .macos ∧ Os.ofPlatformId 3 = .windows ∧ Os.ofPlatformId 0 = .unknown 0 ∧
    Cpu.ofArch 0x8003 = .arm64 ∧ Cpu.ofArch 0x8004 = .mips64 ∧ archHasContext 0x8004 = false := by decide

end MdModel.Reason
