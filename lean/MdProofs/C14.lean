/-
  C14 — The process state is a faithful index of the dump.

  Property text: "For every processable dump, the result has exactly one call stack per entry of the
  thread list, in order, with the same thread ids and names, and the requesting thread is the
  non-dump-writer thread named by the exception record, else by the Breakpad info, whose walk starts
  from the exception's context when one can be read. Crash reason and crash address are the
  documented functions of the exception record, operating system and CPU (32-bit addresses
  zero-extended). Modules, unloaded modules with per-frame offsets, process id and times are those
  of the corresponding streams."

  The theorems are about `MdModel.Index.index` / `MdModel.Reason` — the model the compiled driver
  executes and the `index` engine compares with the real `process_minidump` on every run — for dumps
  with ANY number of threads, names, modules and any field values. "Processable" = the dump has a
  thread list (`d.threads = some ts`); `index_total` shows the model then always yields a state.

  Reading of the text (DESIGN.md §6.0): with duplicate thread ids the LAST matching thread is the
  requesting thread and the LAST readable duplicate name wins.
  Known deviation of the code from the text (finding C14-dump-thread-name): the call stack of the
  dump-writer thread carries no name even when the names stream has one; `stacks_match_threads`
  states names for all other threads and `dump_thread_name_dropped` exhibits the deviation.
-/
import MdProofs.Lemmas.Index
import MdProofs.Lemmas.IndexReason
namespace MdModel.Index
open MdModel
open MdModel.Reason (Exc Reason Os Cpu)

/-! ## 1. "exactly one call stack per entry of the thread list, in order, with the same thread
        ids and names" -/

/-- **C14.1** one call stack per thread-list entry, in order, with the thread's id and — for every
    thread but the skipped dump-writer thread — the name the names stream gives that id. -/
theorem stacks_match_threads (d : Dump) (ts : List Thread) (s : State)
    (hth : d.threads = some ts) (h : index d = .state s) :
    s.stacks.length = ts.length ∧
    ∀ i (h1 : i < ts.length) (h2 : i < s.stacks.length),
      s.stacks[i].id = ts[i].id ∧
      (isDumpThread d ts[i] = false → s.stacks[i].name = nameOf d.names ts[i].id) := by
  obtain ⟨hatt, -⟩ := index_state_inv d ts s hth h
  have hcore := attach_core _ _ _ _ hatt
  have hlen : s.stacks.length = ts.length := by
    have := congrArg List.length hcore
    simpa using this
  refine ⟨hlen, ?_⟩
  intro i h1 h2
  have hi : (s.stacks.map Stack.core)[i]'(by simpa using h2) =
      ((ts.map (stackOf d)).map Stack.core)[i]'(by simpa using h1) := by
    simp only [hcore]
  simp only [List.getElem_map, Stack.core, Prod.mk.injEq] at hi
  obtain ⟨hid, hname, -, -⟩ := hi
  constructor
  · rw [hid]; unfold stackOf
    split
    · rfl
    · split <;> rfl
  · intro hnd
    rw [hname]; unfold stackOf; rw [if_neg (by simp [hnd])]; split <;> rfl

/-- the names stream is an id-keyed map filled in stream order in which unreadable strings are
    skipped: the LAST readable entry for an id wins … -/
theorem nameOf_last_readable (pre post : List (Nat × Option String)) (id : Nat) (n : String)
    (hpost : ∀ e ∈ post, e.1 = id → e.2 = none) :
    nameOf (pre ++ (id, some n) :: post) id = some n := by
  rw [nameOf_eq, nameFold_append]
  simp only [nameFold, List.foldl_cons, if_true]
  exact nameFold_keep id (some n) post hpost

/-- … and an id without a readable entry has no name. -/
theorem nameOf_none (names : List (Nat × Option String)) (id : Nat)
    (h : ∀ e ∈ names, e.1 = id → e.2 = none) : nameOf names id = none := by
  rw [nameOf_eq]; exact nameFold_keep id none names h

/-- the deviation from the property text: the dump-writer thread's stack has no name, whatever the
    names stream says (`CallStack::with_info` at processor.rs:1049) -/
theorem dump_thread_name_dropped (d : Dump) (t : Thread) (h : isDumpThread d t = true) :
    (stackOf d t).name = none ∧ (stackOf d t).info = .dumpThreadSkipped ∧ (stackOf d t).frame0 = none := by
  unfold stackOf; rw [if_pos h]; exact ⟨rfl, rfl, rfl⟩

/-! ## 2. "the requesting thread is the non-dump-writer thread named by the exception record,
        else by the Breakpad info" -/

/-- which id is asked for: the exception stream's thread id whenever an exception stream exists
    (Breakpad's requesting id is then not consulted at all), else Breakpad's requesting id, which
    counts only when validity bit 1 is set. -/
theorem requestingId_spec (d : Dump) :
    (∀ e c, d.exc = some (e, c) → requestingId d = some e.tid) ∧
    (d.exc = none → ∀ b, d.breakpad = some b →
        requestingId d = if b.validity.testBit 1 then some b.reqId else none) ∧
    (d.exc = none → d.breakpad = none → requestingId d = none) := by
  refine ⟨?_, ?_, ?_⟩
  · intro e c h; simp [requestingId, h]
  · intro h b hb
    simp only [requestingId, h, bpRequestingId, hb, Nat.testBit_succ, Nat.testBit_zero]
    by_cases hv : b.validity / 2 % 2 = 1 <;> simp [hv]
  · intro h hb; simp [requestingId, h, bpRequestingId, hb]

/-- a thread is marked as requesting iff it is not the dump-writer thread (Breakpad validity bit 0)
    and carries the requested id -/
theorem isRequesting_iff (d : Dump) (t : Thread) :
    isRequesting d t = true ↔ dumpThreadId d.breakpad ≠ some t.id ∧ requestingId d = some t.id := by
  simp [isRequesting, isDumpThread]

theorem dumpThreadId_spec (b : Breakpad) :
    dumpThreadId (some b) = if b.validity.testBit 0 then some b.dumpId else none := by
  simp only [dumpThreadId, Nat.testBit_zero]
  by_cases hv : b.validity % 2 = 1 <;> simp [hv]

/-- **C14.2** `requesting_thread = Some(i)` exactly for the LAST thread-list position `i` whose
    thread is marked (non-dump-writer, requested id); `None` exactly when no thread is marked.
    In particular the dump-writer thread is never the requesting thread, even when the exception
    record names it. -/
theorem requesting_thread_rule (d : Dump) (ts : List Thread) (s : State)
    (hth : d.threads = some ts) (h : index d = .state s) :
    (∀ i, s.requesting = some i ↔
        ∃ hi : i < ts.length, isRequesting d ts[i] = true ∧
          ∀ j (hj : j < ts.length), i < j → isRequesting d ts[j] = false) ∧
    (s.requesting = none ↔ ∀ t ∈ ts, isRequesting d t = false) := by
  obtain ⟨-, hreq, -⟩ := index_state_inv d ts s hth h
  rw [hreq]
  constructor
  · intro i
    rw [loop_req]
    constructor
    · rintro (⟨j, hj, hr, hq, hlast⟩ | ⟨hr, -⟩)
      · simp only [Nat.zero_add, Option.some.injEq] at hr
        subst hr
        exact ⟨hj, hq, hlast⟩
      · cases hr
    · rintro ⟨hi, hq, hlast⟩
      exact Or.inl ⟨i, hi, by simp, hq, hlast⟩
  · rw [loop_req]
    constructor
    · rintro (⟨j, hj, hr, -⟩ | ⟨-, hnone⟩)
      · cases hr
      · exact hnone
    · intro hnone
      exact Or.inr ⟨rfl, hnone⟩

theorem requesting_never_dump_thread (d : Dump) (ts : List Thread) (s : State)
    (hth : d.threads = some ts) (h : index d = .state s) (i : Nat) (hreq : s.requesting = some i) :
    ∃ hi : i < ts.length, isDumpThread d ts[i] = false := by
  obtain ⟨hi, hq, -⟩ := ((requesting_thread_rule d ts s hth h).1 i).mp hreq
  refine ⟨hi, ?_⟩
  simp only [isRequesting, Bool.and_eq_true, Bool.not_eq_eq_eq_not, Bool.not_true] at hq
  exact hq.1

/-! ## 3. "whose walk starts from the exception's context when one can be read" -/

/-- **C14.3** the first frame of every call stack: nothing for the skipped dump-writer thread; for
    the requesting thread(s) the exception's context when it is readable and only otherwise the
    thread's own context; for every other thread its own context; and `MissingContext` exactly
    when there is no such context. -/
theorem context_preference (d : Dump) (ts : List Thread) (s : State)
    (hth : d.threads = some ts) (h : index d = .state s)
    (i : Nat) (h1 : i < ts.length) (h2 : i < s.stacks.length) :
    (isDumpThread d ts[i] = true →
        s.stacks[i].info = .dumpThreadSkipped ∧ s.stacks[i].frame0 = none) ∧
    (isDumpThread d ts[i] = false →
        (isRequesting d ts[i] = true → ∀ ip, excCtx d = some ip →
            s.stacks[i].frame0 = some ip ∧ s.stacks[i].info = .ok) ∧
        (isRequesting d ts[i] = true → excCtx d = none →
            s.stacks[i].frame0 = readCtx d ts[i].ctx) ∧
        (isRequesting d ts[i] = false → s.stacks[i].frame0 = readCtx d ts[i].ctx) ∧
        (s.stacks[i].info = .missingContext ↔ s.stacks[i].frame0 = none) ∧
        (s.stacks[i].info = .ok ↔ ∃ ip, s.stacks[i].frame0 = some ip)) := by
  obtain ⟨hatt, -⟩ := index_state_inv d ts s hth h
  have hcore := attach_core _ _ _ _ hatt
  have hi : (s.stacks.map Stack.core)[i]'(by simpa using h2) =
      ((ts.map (stackOf d)).map Stack.core)[i]'(by simpa using h1) := by
    simp only [hcore]
  simp only [List.getElem_map, Stack.core, Prod.mk.injEq] at hi
  obtain ⟨-, -, hinfo, hf0⟩ := hi
  rw [hinfo, hf0]
  constructor
  · intro hd
    exact ⟨(dump_thread_name_dropped d _ hd).2.1, (dump_thread_name_dropped d _ hd).2.2⟩
  · intro hd
    have hstart : (stackOf d ts[i]).frame0 = startCtx d ts[i] ∧
        ((stackOf d ts[i]).info = .missingContext ↔ startCtx d ts[i] = none) ∧
        ((stackOf d ts[i]).info = .ok ↔ ∃ ip, startCtx d ts[i] = some ip) := by
      unfold stackOf
      rw [if_neg (by simp [hd])]
      split
      · rename_i ip hip; simp [hip]
      · rename_i hnone; simp [hnone]
    obtain ⟨hf, hmiss, hok⟩ := hstart
    refine ⟨?_, ?_, ?_, ?_, ?_⟩
    · intro hq ip hip
      have : startCtx d ts[i] = some ip := by simp [startCtx, hd, hq, hip]
      exact ⟨by rw [hf, this], hok.mpr ⟨ip, this⟩⟩
    · intro hq hnone
      rw [hf]; simp [startCtx, hd, hq, hnone]
    · intro hq
      rw [hf]; simp [startCtx, hd, hq]
    · rw [hf]; exact hmiss
    · rw [hf]; exact hok

/-- a context is readable only on an architecture for which `MinidumpContext::read` has a format -/
theorem readCtx_spec (d : Dump) (c : Option Nat) :
    readCtx d c = if Reason.archHasContext d.arch then c else none := rfl

/-! ## 6. "process id and times are those of the corresponding streams" -/

/-- **C14.6** dump time from the header; process id and create time from the misc-info stream when
    that stream exists — each only under its own flag bit, with NO fallback to the Linux status —
    and otherwise the process id of the Linux status stream and no create time. -/
theorem pid_times_spec (d : Dump) (ts : List Thread) (s : State)
    (hth : d.threads = some ts) (h : index d = .state s) :
    s.time = d.timestamp ∧
    (∀ m, d.misc = some m →
        s.pid = (if m.flags.testBit 0 then some m.pid else none) ∧
        s.ctime = (if m.flags.testBit 1 then some m.ctime else none)) ∧
    (d.misc = none → s.ctime = none ∧ s.pid = d.status.map statusPid) := by
  obtain ⟨-, -, -, hpid, hct, htime, -⟩ := index_state_inv d ts s hth h
  refine ⟨htime, ?_, ?_⟩
  · intro m hm
    rw [hpid, hct]
    simp only [processId, createTime, hm, Nat.testBit_succ, Nat.testBit_zero]
    constructor
    · by_cases hv : m.flags % 2 = 1 <;> simp [hv]
    · by_cases hv : m.flags / 2 % 2 = 1 <;> simp [hv]
  · intro hm
    rw [hpid, hct]
    simp [processId, createTime, hm]

/-- the Linux status pid: the FIRST `Pid` line, 0 when it does not parse as a `u32` -/
theorem statusPid_spec (pre post : List (String × String)) (v : String)
    (hpre : ∀ e ∈ pre, e.1 ≠ "Pid") :
    statusPid (pre ++ ("Pid", v) :: post) = (parseU32 v).getD 0 := by
  unfold statusPid
  have : (pre ++ ("Pid", v) :: post).find? (fun e => e.1 == "Pid") = some ("Pid", v) := by
    rw [List.find?_append]
    have : pre.find? (fun e => e.1 == "Pid") = none := by
      simp only [List.find?_eq_none, beq_iff_eq]
      exact fun e he => hpre e he
    simp [this]
  rw [this]

theorem statusPid_none (kv : List (String × String)) (h : ∀ e ∈ kv, e.1 ≠ "Pid") : statusPid kv = 0 := by
  unfold statusPid
  have : kv.find? (fun e => e.1 == "Pid") = none := by
    simp only [List.find?_eq_none, beq_iff_eq]
    exact fun e he => h e he
  rw [this]

end MdModel.Index
