/-
  C14 — The process state is a faithful index of the dump.

  Property text: "For every processable dump, the result has exactly one call stack per entry of the
  thread list, in order, with the same thread ids and names, and the requesting thread is the
  non-dump-writer thread named by the exception record, else by the Breakpad info, whose walk starts
  from the exception's context when one can be read. Crash reason and crash address are the
  documented functions of the exception record, operating system and CPU (32-bit addresses
  zero-extended). Modules, unloaded modules with per-frame offsets, process id and times are those
  of the corresponding streams."

  The theorems are about `MdModel.Index.index` / `MdModel.Reason` — the model the compiled driver
  executes and the `index` engine compares with the real `process_minidump` on every run — for dumps
  with ANY number of threads, names, modules, memory regions and any field values. "Processable" =
  the dump has a thread list (`d.threads = some ts`); `index_total` shows the model then never
  panics and yields a state — in either byte order: the stack memory of a big-endian dump is read
  big-endian (`walk_mem_endian`), as `MinidumpMemoryBase::get_memory_at_address` does.

  `index` CALLS the walker model `MdModel.Walk.walk` (C05/C04) on the stack memory it selects with
  the start context it chooses: `stacks_are_walks` states this for every call stack of the state, so
  C05's well-formedness (`walk_wf`), C03's frame bound (`walk_bound`) and C05's module cover
  (`walk_covered`) hold for every stack of the process state (`stacks_wf`, `stacks_frame_bound`,
  `frame_module_sound`). The symbol files the supplier has are part of the dump description
  (`Dump.syms`), so these walks include CFI / STACK WIN frames and the frames carry the functions
  `fill_symbol` finds; contexts carry all their registers.
  `own_stack_by_start_redundant`: the fallback lookup of `MinidumpThread::stack_memory` by
  `start_of_memory_range` never changes a call stack (on top of C08: index-valued tables are never
  merged, `RangeMap.safeVec_mem_of_distinct`).

  Reading of the text (DESIGN.md §6.0): with duplicate thread ids the LAST matching thread is the
  requesting thread and the LAST readable duplicate name wins.
  History: the check found that the dump-writer thread's call stack lost its name (finding
  C14-dump-thread-name); /repo commit 1dec95b repaired it, the model follows the repaired code and
  `stacks_match_threads` states the names of ALL threads, the dump-writer thread included.
-/
import MdProofs.Lemmas.Index
import MdProofs.Lemmas.IndexReason
import MdProofs.Lemmas.IndexUnloaded
import MdProofs.Lemmas.IndexMem
import MdProofs.Lemmas.IndexWalk
import MdProofs.C05
namespace MdModel.Index
open MdModel
open MdModel.Reason (Exc Reason Os Cpu)
open MdModel.Walk (Mem)

/-! ## 0. how a call stack of the state arises from its thread -/

/-- the call stack at position `i` is the attributed, walked stack of thread `i` -/
theorem stack_at (d : Dump) (ts : List Thread) (s : State)
    (hth : d.threads = some ts) (h : index d = .state s) :
    s.stacks.length = ts.length ∧
    ∀ i (h1 : i < ts.length) (h2 : i < s.stacks.length),
      attachStack (unloadedModules d) (stackOf d ts[i]) = some s.stacks[i] := by
  obtain ⟨hatt, -⟩ := index_state_inv d ts s hth h
  have hlen := optMap_length _ _ _ hatt
  simp only [List.length_map] at hlen
  refine ⟨hlen, ?_⟩
  intro i h1 h2
  have := optMap_getElem _ _ _ hatt i (by simpa using h1) h2
  simpa using this

theorem stackOf_id (d : Dump) (t : Thread) : (stackOf d t).id = t.id := by
  unfold stackOf; split
  · rfl
  · split <;> rfl

theorem stackOf_name (d : Dump) (t : Thread) : (stackOf d t).name = nameOf d.names t.id := by
  unfold stackOf; split
  · rfl
  · split <;> rfl

theorem stackOf_frames (d : Dump) (t : Thread) :
    (stackOf d t).frames =
      match startCtx d t with
      | some r => framesOf d (stackMemOf d t) (toCtx d.arch r)
      | none => [] := by
  unfold stackOf
  split
  · rename_i hd; simp [startCtx, hd]
  · split
    · rename_i r hr; simp [hr]
    · rename_i hr; simp [hr]

theorem stackOf_info (d : Dump) (t : Thread) :
    (stackOf d t).info =
      if isDumpThread d t then .dumpThreadSkipped
      else match startCtx d t with
        | some _ => .ok
        | none => .missingContext := by
  unfold stackOf
  split
  · rfl
  · split
    · rename_i r hr; simp [hr]
    · rename_i hr; simp [hr]

/-! ## 1. "exactly one call stack per entry of the thread list, in order, with the same thread
        ids and names" -/

/-- **C14.1** one call stack per thread-list entry, in order, with the thread's id and the name
    the names stream gives that id — for EVERY thread, the skipped dump-writer thread included. -/
theorem stacks_match_threads (d : Dump) (ts : List Thread) (s : State)
    (hth : d.threads = some ts) (h : index d = .state s) :
    s.stacks.length = ts.length ∧
    ∀ i (h1 : i < ts.length) (h2 : i < s.stacks.length),
      s.stacks[i].id = ts[i].id ∧ s.stacks[i].name = nameOf d.names ts[i].id := by
  obtain ⟨hlen, hat⟩ := stack_at d ts s hth h
  refine ⟨hlen, ?_⟩
  intro i h1 h2
  obtain ⟨hid, hname, -⟩ := attachStack_core _ _ _ (hat i h1 h2)
  exact ⟨by rw [hid, stackOf_id], by rw [hname, stackOf_name]⟩

/-- the names stream is an id-keyed map filled in stream order in which unreadable strings are
    skipped: the LAST readable entry for an id wins … -/
theorem nameOf_last_readable (pre post : List (Nat × Option String)) (id : Nat) (n : String)
    (hpost : ∀ e ∈ post, e.1 = id → e.2 = none) :
    nameOf (pre ++ (id, some n) :: post) id = some n := by
  rw [nameOf_eq, nameFold_append]
  simp only [nameFold, List.foldl_cons, if_true]
  exact nameFold_keep id (some n) post hpost

/-- … and an id without a readable entry has no name. -/
theorem nameOf_none (names : List (Nat × Option String)) (id : Nat)
    (h : ∀ e ∈ names, e.1 = id → e.2 = none) : nameOf names id = none := by
  rw [nameOf_eq]; exact nameFold_keep id none names h

/-- the dump-writer thread is skipped — no frame, `DumpThreadSkipped` — but keeps its name
    (processor.rs:1056-1063 after /repo commit 1dec95b) -/
theorem dump_thread_skipped (d : Dump) (t : Thread) (h : isDumpThread d t = true) :
    (stackOf d t).name = nameOf d.names t.id ∧ (stackOf d t).info = .dumpThreadSkipped ∧
    (stackOf d t).frames = [] := by
  unfold stackOf; rw [if_pos h]; exact ⟨rfl, rfl, rfl⟩

/-! ## 2. "the requesting thread is the non-dump-writer thread named by the exception record,
        else by the Breakpad info" -/

/-- which id is asked for: the exception stream's thread id whenever an exception stream exists
    (Breakpad's requesting id is then not consulted at all), else Breakpad's requesting id, which
    counts only when validity bit 1 is set. -/
theorem requestingId_spec (d : Dump) :
    (∀ e c, d.exc = some (e, c) → requestingId d = some e.tid) ∧
    (d.exc = none → ∀ b, d.breakpad = some b →
        requestingId d = if b.validity.testBit 1 then some b.reqId else none) ∧
    (d.exc = none → d.breakpad = none → requestingId d = none) := by
  refine ⟨?_, ?_, ?_⟩
  · intro e c h; simp [requestingId, h]
  · intro h b hb
    simp only [requestingId, h, bpRequestingId, hb, Nat.testBit_succ, Nat.testBit_zero]
    by_cases hv : b.validity / 2 % 2 = 1 <;> simp [hv]
  · intro h hb; simp [requestingId, h, bpRequestingId, hb]

/-- a thread is marked as requesting iff it is not the dump-writer thread (Breakpad validity bit 0)
    and carries the requested id -/
theorem isRequesting_iff (d : Dump) (t : Thread) :
    isRequesting d t = true ↔ dumpThreadId d.breakpad ≠ some t.id ∧ requestingId d = some t.id := by
  simp [isRequesting, isDumpThread]

theorem dumpThreadId_spec (b : Breakpad) :
    dumpThreadId (some b) = if b.validity.testBit 0 then some b.dumpId else none := by
  simp only [dumpThreadId, Nat.testBit_zero]
  by_cases hv : b.validity % 2 = 1 <;> simp [hv]

/-- **C14.2** `requesting_thread = Some(i)` exactly for the LAST thread-list position `i` whose
    thread is marked (non-dump-writer, requested id); `None` exactly when no thread is marked.
    In particular the dump-writer thread is never the requesting thread, even when the exception
    record names it. -/
theorem requesting_thread_rule (d : Dump) (ts : List Thread) (s : State)
    (hth : d.threads = some ts) (h : index d = .state s) :
    (∀ i, s.requesting = some i ↔
        ∃ hi : i < ts.length, isRequesting d ts[i] = true ∧
          ∀ j (hj : j < ts.length), i < j → isRequesting d ts[j] = false) ∧
    (s.requesting = none ↔ ∀ t ∈ ts, isRequesting d t = false) := by
  obtain ⟨-, hreq, -⟩ := index_state_inv d ts s hth h
  rw [hreq]
  constructor
  · intro i
    rw [loop_req]
    constructor
    · rintro (⟨j, hj, hr, hq, hlast⟩ | ⟨hr, -⟩)
      · simp only [Nat.zero_add, Option.some.injEq] at hr
        subst hr
        exact ⟨hj, hq, hlast⟩
      · cases hr
    · rintro ⟨hi, hq, hlast⟩
      exact Or.inl ⟨i, hi, by simp, hq, hlast⟩
  · rw [loop_req]
    constructor
    · rintro (⟨j, hj, hr, -⟩ | ⟨-, hnone⟩)
      · cases hr
      · exact hnone
    · intro hnone
      exact Or.inr ⟨rfl, hnone⟩

theorem requesting_never_dump_thread (d : Dump) (ts : List Thread) (s : State)
    (hth : d.threads = some ts) (h : index d = .state s) (i : Nat) (hreq : s.requesting = some i) :
    ∃ hi : i < ts.length, isDumpThread d ts[i] = false := by
  obtain ⟨hi, hq, -⟩ := ((requesting_thread_rule d ts s hth h).1 i).mp hreq
  refine ⟨hi, ?_⟩
  simp only [isRequesting, Bool.and_eq_true, Bool.not_eq_eq_eq_not, Bool.not_true] at hq
  exact hq.1

/-! ## 3. "whose walk starts from the exception's context when one can be read" -/

/-- which context a thread's walk starts from: none for the skipped dump-writer thread; for the
    requesting thread(s) the exception's context when it is readable and only otherwise the
    thread's own; for every other thread its own -/
theorem start_context_rule (d : Dump) (t : Thread) :
    (isDumpThread d t = true → startCtx d t = none) ∧
    (isDumpThread d t = false →
        (isRequesting d t = true → ∀ r, excCtx d = some r → startCtx d t = some r) ∧
        (isRequesting d t = true → excCtx d = none → startCtx d t = readCtx d t.ctx) ∧
        (isRequesting d t = false → startCtx d t = readCtx d t.ctx)) := by
  refine ⟨fun hd => by simp [startCtx, hd], fun hd => ⟨?_, ?_, ?_⟩⟩
  · intro hq r hr; simp [startCtx, hd, hq, hr]
  · intro hq hr; simp [startCtx, hd, hq, hr]
  · intro hq; simp [startCtx, hd, hq]

/-- **C14.3** the call stack of thread `i`: `DumpThreadSkipped` without frames for the dump-writer
    thread; `MissingContext` without frames exactly when there is no start context; otherwise `Ok`
    and the FIRST FRAME IS the start context (`start_context_rule`): trust `context`, all its
    registers, instruction = its instruction pointer. -/
theorem context_preference (d : Dump) (ts : List Thread) (s : State)
    (hth : d.threads = some ts) (h : index d = .state s)
    (i : Nat) (h1 : i < ts.length) (h2 : i < s.stacks.length) :
    (isDumpThread d ts[i] = true →
        s.stacks[i].info = .dumpThreadSkipped ∧ s.stacks[i].frames = []) ∧
    (isDumpThread d ts[i] = false →
        (s.stacks[i].info = .missingContext ↔ startCtx d ts[i] = none) ∧
        (s.stacks[i].info = .ok ↔ ∃ r, startCtx d ts[i] = some r) ∧
        (startCtx d ts[i] = none → s.stacks[i].frames = []) ∧
        (∀ r, startCtx d ts[i] = some r →
          ∃ f0 rest, s.stacks[i].frames = f0 :: rest ∧ f0.f.trust = .context ∧
            f0.f.ctx = toCtx d.arch r ∧ f0.f.instruction = r.ip)) := by
  obtain ⟨-, hat⟩ := stack_at d ts s hth h
  obtain ⟨-, -, hinfo, hfr, -⟩ := attachStack_core _ _ _ (hat i h1 h2)
  rw [stackOf_frames] at hfr
  rw [hinfo, stackOf_info]
  constructor
  · intro hd
    have hs : startCtx d ts[i] = none := by simp [startCtx, hd]
    rw [hs] at hfr
    simp only [List.map_eq_nil_iff] at hfr
    exact ⟨by simp [hd], hfr⟩
  · intro hd
    rw [if_neg (by simp [hd])]
    refine ⟨?_, ?_, ?_, ?_⟩
    · cases hs : startCtx d ts[i] <;> simp
    · cases hs : startCtx d ts[i] <;> simp
    · intro hs
      rw [hs] at hfr
      simpa using hfr
    · intro r hs
      rw [hs] at hfr
      simp only at hfr
      obtain ⟨g0, grest, hg, htrust, hctx, hin⟩ :=
        (Walk.walk_wf (envOf d (stackMemOf d ts[i])) (walkMem d (stackMemOf d ts[i])) (toCtx d.arch r)).head
      unfold framesOf at hfr
      rw [hg] at hfr
      cases hfs : s.stacks[i].frames with
      | nil => rw [hfs] at hfr; simp at hfr
      | cons f0 rest =>
        rw [hfs] at hfr
        simp only [List.map_cons, List.cons.injEq] at hfr
        refine ⟨f0, rest, rfl, ?_, ?_, ?_⟩
        · rw [hfr.1]; exact htrust
        · rw [hfr.1]; exact hctx
        · rw [hfr.1, hin]; rfl

/-- a context is readable only on an architecture for which `MinidumpContext::read` has a format -/
theorem readCtx_spec (d : Dump) (c : Option Regs) :
    readCtx d c = if Reason.archHasContext d.arch then c else none := rfl

/-! ## 4. "crash address [is] the documented function of the exception record, operating system
        and CPU (32-bit addresses zero-extended)" -/

end MdModel.Index
namespace MdModel.Reason
open MdModel MdModel.Gen

/-- the translated `ExceptionCodeWindows` table has no duplicate discriminant and no duplicate name -/
theorem exceptionCodeWindows_nodup :
    (Enums.ExceptionCodeWindows.map (·.1)).Nodup ∧ (Enums.ExceptionCodeWindows.map (·.2)).Nodup := by
  constructor <;> decide

/-- `ExceptionCodeWindows::from_u32(code) == Some(EXCEPTION_ACCESS_VIOLATION)` iff `code = 0xc0000005`
    (proved against the table translated from windows.rs on this run) -/
theorem access_violation_code (v : Nat) :
    lookup Enums.ExceptionCodeWindows v = some "EXCEPTION_ACCESS_VIOLATION" ↔ v = 0xc0000005 :=
  lookup_name_iff exceptionCodeWindows_nodup.1 exceptionCodeWindows_nodup.2 (by decide)

theorem in_page_error_code (v : Nat) :
    lookup Enums.ExceptionCodeWindows v = some "EXCEPTION_IN_PAGE_ERROR" ↔ v = 0xc0000006 :=
  lookup_name_iff exceptionCodeWindows_nodup.1 exceptionCodeWindows_nodup.2 (by decide)

/-- **C14.4** the crash address: exception parameter 1 exactly when the OS is Windows, the code is
    access-violation (0xc0000005) or in-page-error (0xc0000006) AND at least two parameters are
    present; the exception address otherwise; and on a 32-bit CPU the low 32 bits of that,
    zero-extended. -/
theorem crash_address_spec (e : Exc) (os : Os) (cpu : Cpu) :
    crashAddress e os cpu =
      (if cpu.is32 then
        (if os = .windows ∧ (e.code = 0xc0000005 ∨ e.code = 0xc0000006) ∧ 2 ≤ e.nparams then e.p1 else e.addr) % 2^32
      else
        (if os = .windows ∧ (e.code = 0xc0000005 ∨ e.code = 0xc0000006) ∧ 2 ≤ e.nparams then e.p1 else e.addr)) := by
  unfold crashAddress
  simp only [access_violation_code, in_page_error_code, ge_iff_le]

/-- zero-extension: on a 32-bit CPU the crash address fits 32 bits, whatever the (possibly
    sign-extended) 64-bit fields of the record hold -/
theorem crash_address_zero_extended (e : Exc) (os : Os) (cpu : Cpu) (h : cpu.is32 = true) :
    crashAddress e os cpu < 2^32 := by
  rw [crash_address_spec, if_pos h]
  exact Nat.mod_lt _ (by decide)

/-- the parameter-count gate: with fewer than two parameters parameter 1 is never used -/
theorem crash_address_param_gate (e : Exc) (os : Os) (cpu : Cpu) (h : e.nparams < 2) :
    crashAddress e os cpu = if cpu.is32 then e.addr % 2^32 else e.addr := by
  rw [crash_address_spec]
  have : ¬ (os = .windows ∧ (e.code = 0xc0000005 ∨ e.code = 0xc0000006) ∧ 2 ≤ e.nparams) := by omega
  simp only [if_neg this]

/-- on a 64-bit (or unknown-width) CPU nothing is masked -/
theorem crash_address_64 (e : Exc) (os : Os) (cpu : Cpu) (h : cpu.is32 = false) (hos : os ≠ .windows) :
    crashAddress e os cpu = e.addr := by
  rw [crash_address_spec]
  simp [h, hos]

/-- which raw `processor_architecture` values are 32-bit CPUs (x86, WoW64, MIPS, PPC, ARM, SPARC) -/
theorem is32_archs :
    [0, 10, 1, 3, 5, 0x8001].all (fun a => (Cpu.ofArch a).is32) = true ∧
    [9, 12, 0x8002, 0x8003, 0x8004, 6, 0xffff, 77].all (fun a => !(Cpu.ofArch a).is32) = true := by
  constructor <;> decide

/-! ## 5. "crash reason [is] the documented function of the exception record, operating system
        and CPU" — which enum family is consulted for which OS / CPU; unknown codes fall to
        `Unknown(code, flags)` -/

def windowsFamilies : List Family :=
  [.WindowsGeneral, .WindowsWinError, .WindowsWinErrorWithFacility, .WindowsNtStatus,
   .WindowsAccessViolation, .WindowsInPageError, .WindowsStackBufferOverrun, .WindowsUnknown]

def linuxFamilies : List Family :=
  [.LinuxGeneral, .LinuxSigill, .LinuxSigtrap, .LinuxSigbus, .LinuxSigfpe, .LinuxSigsegv, .LinuxSigsys]

def macFamilies : List Family :=
  [.MacGeneral, .MacBadAccessKern, .MacBadAccessArm, .MacBadAccessPpc, .MacBadAccessX86,
   .MacBadInstructionArm, .MacBadInstructionPpc, .MacBadInstructionX86,
   .MacArithmeticArm, .MacArithmeticPpc, .MacArithmeticX86, .MacSoftware,
   .MacBreakpointArm, .MacBreakpointPpc, .MacBreakpointX86, .MacResource, .MacGuard]

theorem windowsCode_family (code : Nat) :
    (windowsCode code).family ∈
      [Family.WindowsGeneral, .WindowsWinError, .WindowsNtStatus, .WindowsWinErrorWithFacility, .WindowsUnknown] := by
  unfold windowsCode
  split
  · simp [Reason.mk1]
  · unfold windowsError
    split
    · simp [Reason.mk1]
    · split
      · simp [Reason.mk1]
      · split
        · rename_i r hr
          unfold windowsWithFacility at hr
          split at hr
          · split at hr
            · split at hr
              · cases hr; simp
              · cases hr
            · cases hr
          · cases hr
        · simp

theorem windowsException_family (e : Exc) : (windowsException e).family ∈ windowsFamilies := by
  have hc := windowsCode_family e.code
  have hbase : (windowsCode e.code).family ∈ windowsFamilies := by
    simp only [windowsFamilies, List.mem_cons, List.mem_nil_iff, or_false] at hc ⊢
    rcases hc with h | h | h | h | h <;> simp [h]
  unfold windowsException
  simp only
  split
  · split
    · split
      · simp [windowsFamilies, Reason.mk1]
      · exact hbase
    · exact hbase
  · split
    · split
      · split
        · simp [windowsFamilies]
        · exact hbase
      · exact hbase
    · split
      · split
        · simp [windowsFamilies]
        · exact hbase
      · exact hbase

theorem windowsError_family (code : Nat) :
    (windowsError code).family ∈
      [Family.WindowsWinError, .WindowsNtStatus, .WindowsWinErrorWithFacility, .WindowsUnknown] := by
  have h := windowsCode_family code
  unfold windowsError
  split
  · simp [Reason.mk1]
  · split
    · simp [Reason.mk1]
    · split
      · rename_i r hr
        unfold windowsWithFacility at hr
        split at hr
        · split at hr
          · split at hr
            · cases hr; simp
            · cases hr
          · cases hr
        · cases hr
      · simp

/-- `from_windows_code` yields `WindowsGeneral(name)` exactly for the codes of `ExceptionCodeWindows` -/
theorem windowsCode_general_iff (code : Nat) (n : String) :
    windowsCode code = .mk1 .WindowsGeneral n ↔ lookup Enums.ExceptionCodeWindows code = some n := by
  unfold windowsCode
  cases h : lookup Enums.ExceptionCodeWindows code with
  | some m => simp [Reason.mk1]
  | none =>
    simp only [reduceCtorEq, iff_false]
    intro heq
    have hf := windowsError_family code
    rw [heq] at hf
    simp [Reason.mk1] at hf

/-- `ExceptionCodeWindowsAccessType::from_u64` knows exactly 0 (READ), 1 (WRITE) and 8 (EXEC) -/
theorem accessType_cases (v : Nat) :
    (v = 0 ∧ lookup Enums.ExceptionCodeWindowsAccessType v = some "READ") ∨
    (v = 1 ∧ lookup Enums.ExceptionCodeWindowsAccessType v = some "WRITE") ∨
    (v = 8 ∧ lookup Enums.ExceptionCodeWindowsAccessType v = some "EXEC") ∨
    (v ≠ 0 ∧ v ≠ 1 ∧ v ≠ 8 ∧ lookup Enums.ExceptionCodeWindowsAccessType v = none) := by
  by_cases h0 : v = 0
  · subst h0; left; exact ⟨rfl, by decide⟩
  by_cases h1 : v = 1
  · subst h1; right; left; exact ⟨rfl, by decide⟩
  by_cases h8 : v = 8
  · subst h8; right; right; left; exact ⟨rfl, by decide⟩
  right; right; right
  refine ⟨h0, h1, h8, ?_⟩
  rw [lookup_none_iff]
  intro n hn
  simp only [Enums.ExceptionCodeWindowsAccessType, List.mem_cons, Prod.mk.injEq, List.mem_nil_iff, or_false] at hn
  omega

/-- the access-violation refinement of the Windows reason and ITS parameter-count gate (one
    parameter suffices for the access type, while the address needs two — `crash_address_spec`) -/
theorem windows_access_violation_iff (e : Exc) :
    (windowsException e).family = .WindowsAccessViolation ↔
      e.code = 0xc0000005 ∧ 1 ≤ e.nparams ∧ (e.p0 = 0 ∨ e.p0 = 1 ∨ e.p0 = 8) := by
  have hfam := windowsCode_family e.code
  have hne : ∀ f, f ∈ [Family.WindowsGeneral, .WindowsWinError, .WindowsNtStatus,
      .WindowsWinErrorWithFacility, .WindowsUnknown] → f ≠ .WindowsAccessViolation := by decide
  have hbase := hne _ hfam
  unfold windowsException
  simp only [windowsCode_general_iff, access_violation_code, in_page_error_code, ge_iff_le]
  by_cases hc : e.code = 0xc0000005
  · rw [if_pos hc]
    by_cases hn : 1 ≤ e.nparams
    · rw [if_pos hn]
      rcases accessType_cases e.p0 with ⟨h, hl⟩ | ⟨h, hl⟩ | ⟨h, hl⟩ | ⟨h0, h1, h8, hl⟩
      · rw [hl]; simp [Reason.mk1, hc, hn, h]
      · rw [hl]; simp [Reason.mk1, hc, hn, h]
      · rw [hl]; simp [Reason.mk1, hc, hn, h]
      · rw [hl]; simp only; constructor
        · intro h; exact absurd h hbase
        · rintro ⟨-, -, h | h | h⟩ <;> contradiction
    · rw [if_neg hn]
      constructor
      · intro h; exact absurd h hbase
      · rintro ⟨-, h, -⟩; exact absurd h hn
  · rw [if_neg hc]
    constructor
    · intro h
      exfalso
      split at h
      · split at h
        · split at h
          · simp at h
          · exact hbase h
        · exact hbase h
      · split at h
        · split at h
          · simp at h
          · exact hbase h
        · exact hbase h
    · rintro ⟨h, -⟩; exact absurd h hc

/-- the small sub-code tables, as documented by the platform ABIs (asm-generic/siginfo.h,
    WinNT.h): a change of any of these values in the Rust source breaks this obligation -/
theorem documented_small_tables :
    Enums.ExceptionCodeLinuxSigsegvKind = [(1, "SEGV_MAPERR"), (2, "SEGV_ACCERR"), (3, "SEGV_BNDERR"), (4, "SEGV_PKUERR")] ∧
    Enums.ExceptionCodeLinuxSigbusKind =
      [(1, "BUS_ADRALN"), (2, "BUS_ADRERR"), (3, "BUS_OBJERR"), (4, "BUS_MCEERR_AR"), (5, "BUS_MCEERR_AO")] ∧
    Enums.ExceptionCodeLinuxSigsysKind = [(1, "SYS_SECCOMP"), (2, "SYS_USER_DISPATCH")] ∧
    Enums.ExceptionCodeWindowsAccessType = [(0, "READ"), (1, "WRITE"), (8, "EXEC")] ∧
    Enums.ExceptionCodeWindowsInPageErrorType = [(0, "READ"), (1, "WRITE"), (8, "EXEC")] ∧
    lookup Enums.ExceptionCodeLinux 11 = some "SIGSEGV" ∧ lookup Enums.ExceptionCodeLinux 7 = some "SIGBUS" ∧
    lookup Enums.ExceptionCodeLinux 4 = some "SIGILL" ∧ lookup Enums.ExceptionCodeLinux 8 = some "SIGFPE" ∧
    lookup Enums.ExceptionCodeLinux 5 = some "SIGTRAP" ∧ lookup Enums.ExceptionCodeLinux 31 = some "SIGSYS" ∧
    lookup Enums.ExceptionCodeLinux 6 = some "SIGABRT" ∧
    lookup Enums.ExceptionCodeMac 1 = some "EXC_BAD_ACCESS" ∧ lookup Enums.ExceptionCodeMac 2 = some "EXC_BAD_INSTRUCTION" ∧
    lookup Enums.ExceptionCodeMac 3 = some "EXC_ARITHMETIC" ∧ lookup Enums.ExceptionCodeMac 5 = some "EXC_SOFTWARE" ∧
    lookup Enums.ExceptionCodeMac 6 = some "EXC_BREAKPOINT" ∧ lookup Enums.ExceptionCodeMac 11 = some "EXC_RESOURCE" ∧
    lookup Enums.ExceptionCodeMac 12 = some "EXC_GUARD" ∧
    lookup Enums.NtStatusWindows 0xc0000409 = some "STATUS_STACK_BUFFER_OVERRUN" := by
  decide +kernel

theorem linuxException_cases (e : Exc) :
    (lookup Enums.ExceptionCodeLinux e.code = none ∧ linuxException e = none) ∨
    (∃ n r, lookup Enums.ExceptionCodeLinux e.code = some n ∧ linuxException e = some r ∧
        (r.family ∈ linuxFamilies) ∧ (r.family = .LinuxGeneral → r = ⟨.LinuxGeneral, [n], [e.flags]⟩)) := by
  unfold linuxException
  cases h : lookup Enums.ExceptionCodeLinux e.code with
  | none => left; exact ⟨rfl, rfl⟩
  | some n =>
    right
    refine ⟨n, _, rfl, rfl, ?_⟩
    have key : ∀ (t : Enums.Table) (f : Family), f ∈ linuxFamilies → f ≠ .LinuxGeneral →
        ((refine t f e.flags ⟨.LinuxGeneral, [n], [e.flags]⟩).family ∈ linuxFamilies) ∧
        ((refine t f e.flags ⟨.LinuxGeneral, [n], [e.flags]⟩).family = .LinuxGeneral →
          refine t f e.flags ⟨.LinuxGeneral, [n], [e.flags]⟩ = ⟨.LinuxGeneral, [n], [e.flags]⟩) := by
      intro t f hf hne
      rcases refine_family t f e.flags ⟨.LinuxGeneral, [n], [e.flags]⟩ with h | h
      · rw [h]; exact ⟨hf, fun h' => absurd h' hne⟩
      · rw [h]; exact ⟨by simp [linuxFamilies], fun _ => rfl⟩
    split
    · exact key _ _ (by simp [linuxFamilies]) (by decide)
    · split
      · exact key _ _ (by simp [linuxFamilies]) (by decide)
      · split
        · exact key _ _ (by simp [linuxFamilies]) (by decide)
        · split
          · exact key _ _ (by simp [linuxFamilies]) (by decide)
          · split
            · exact key _ _ (by simp [linuxFamilies]) (by decide)
            · split
              · exact key _ _ (by simp [linuxFamilies]) (by decide)
              · exact ⟨by simp [linuxFamilies], fun _ => rfl⟩

/-- the CPU-specific macOS families, by the CPU class they belong to -/
def macArmFamilies : List Family := [.MacBadAccessArm, .MacBadInstructionArm, .MacArithmeticArm, .MacBreakpointArm]
def macPpcFamilies : List Family := [.MacBadAccessPpc, .MacBadInstructionPpc, .MacArithmeticPpc, .MacBreakpointPpc]
def macX86Families : List Family := [.MacBadAccessX86, .MacBadInstructionX86, .MacArithmeticX86, .MacBreakpointX86]

/-- what holds of every reason `from_mac_exception` can return for a known exception code `n` -/
def MacOk (n : String) (e : Exc) (cpu : Cpu) (r : Reason) : Prop :=
  r.family ∈ macFamilies ∧
  (r.family ∈ macArmFamilies → MacCpu.of cpu = .arm) ∧
  (r.family ∈ macPpcFamilies → MacCpu.of cpu = .ppc) ∧
  (r.family ∈ macX86Families → MacCpu.of cpu = .x86) ∧
  (r.family = .MacGeneral → r = ⟨.MacGeneral, [n], [e.flags]⟩)

theorem macOk_dflt (n : String) (e : Exc) (cpu : Cpu) : MacOk n e cpu ⟨.MacGeneral, [n], [e.flags]⟩ :=
  ⟨(by decide : Family.MacGeneral ∈ macFamilies),
   fun h => absurd h (by decide : Family.MacGeneral ∉ macArmFamilies),
   fun h => absurd h (by decide : Family.MacGeneral ∉ macPpcFamilies),
   fun h => absurd h (by decide : Family.MacGeneral ∉ macX86Families),
   fun _ => rfl⟩

theorem macOk_of_family (n : String) (e : Exc) (cpu : Cpu) (r : Reason) (f : Family) (hr : r.family = f)
    (hf : f ∈ macFamilies) (hne : f ≠ .MacGeneral)
    (harm : f ∈ macArmFamilies → MacCpu.of cpu = .arm)
    (hppc : f ∈ macPpcFamilies → MacCpu.of cpu = .ppc)
    (hx86 : f ∈ macX86Families → MacCpu.of cpu = .x86) : MacOk n e cpu r := by
  unfold MacOk; rw [hr]
  exact ⟨hf, harm, hppc, hx86, fun h => absurd h hne⟩

theorem macOk_refine (n : String) (e : Exc) (cpu : Cpu) (t : Enums.Table) (f : Family)
    (hf : f ∈ macFamilies) (hne : f ≠ .MacGeneral)
    (harm : f ∈ macArmFamilies → MacCpu.of cpu = .arm)
    (hppc : f ∈ macPpcFamilies → MacCpu.of cpu = .ppc)
    (hx86 : f ∈ macX86Families → MacCpu.of cpu = .x86) :
    MacOk n e cpu (refine t f e.flags ⟨.MacGeneral, [n], [e.flags]⟩) := by
  rcases refine_family t f e.flags ⟨.MacGeneral, [n], [e.flags]⟩ with h | h
  · exact macOk_of_family n e cpu _ f h hf hne harm hppc hx86
  · rw [h]; exact macOk_dflt n e cpu

/-- closes one branch of `macException` -/
local macro "mac_branch" : tactic =>
  `(tactic| first
    | exact macOk_dflt _ _ _
    | (refine macOk_refine _ _ _ _ _ (by decide) (by decide) ?_ ?_ ?_ <;>
        first | (intro _; assumption) | (intro h'; exact absurd h' (by decide)))
    | (refine macOk_of_family _ _ _ _ Family.MacBadAccessKern rfl (by decide) (by decide) ?_ ?_ ?_ <;>
        (intro h'; exact absurd h' (by decide)))
    | (refine macOk_of_family _ _ _ _ Family.MacResource rfl (by decide) (by decide) ?_ ?_ ?_ <;>
        (intro h'; exact absurd h' (by decide)))
    | (refine macOk_of_family _ _ _ _ Family.MacGuard rfl (by decide) (by decide) ?_ ?_ ?_ <;>
        (intro h'; exact absurd h' (by decide))))

theorem macException_cases (e : Exc) (cpu : Cpu) :
    (lookup Enums.ExceptionCodeMac e.code = none ∧ macException e cpu = none) ∨
    (∃ n r, lookup Enums.ExceptionCodeMac e.code = some n ∧ macException e cpu = some r ∧ MacOk n e cpu r) := by
  unfold macException
  cases h : lookup Enums.ExceptionCodeMac e.code with
  | none => left; exact ⟨rfl, rfl⟩
  | some n =>
    right
    refine ⟨n, _, rfl, rfl, ?_⟩
    split
    · split
      · mac_branch
      · split <;> mac_branch
    · split
      · split <;> mac_branch
      · split
        · split <;> mac_branch
        · split
          · mac_branch
          · split
            · split <;> mac_branch
            · split
              · split <;> mac_branch
              · split
                · split <;> mac_branch
                · mac_branch

/-- **C14.5** which enum family is consulted for which OS and CPU:
    * Windows: always one of the eight Windows families (never `Unknown`), CPU-independent;
    * Linux / Android: signal in `ExceptionCodeLinux` ⇒ one of the seven Linux families
      (`LinuxGeneral(signal, flags)` when no sub-code table matches), CPU-independent;
      signal not in the table ⇒ `Unknown(code, flags)`;
    * macOS / iOS: exception in `ExceptionCodeMac` ⇒ one of the seventeen Mac families, where an
      ARM / PPC / X86 family is only ever produced for an arm64 / ppc / x86-or-amd64 CPU;
      exception not in the table ⇒ `Unknown(code, flags)`;
    * every other OS ⇒ `Unknown(code, flags)`. -/
theorem reason_family (e : Exc) (os : Os) (cpu : Cpu) :
    (os = .windows →
        fromException e os cpu = windowsException e ∧ (fromException e os cpu).family ∈ windowsFamilies) ∧
    (os = .linux ∨ os = .android →
        (lookup Enums.ExceptionCodeLinux e.code = none ∧ fromException e os cpu = unknownReason e) ∨
        (∃ n, lookup Enums.ExceptionCodeLinux e.code = some n ∧
            (fromException e os cpu).family ∈ linuxFamilies ∧
            ((fromException e os cpu).family = .LinuxGeneral →
                fromException e os cpu = ⟨.LinuxGeneral, [n], [e.flags]⟩))) ∧
    (os = .macos ∨ os = .ios →
        (lookup Enums.ExceptionCodeMac e.code = none ∧ fromException e os cpu = unknownReason e) ∨
        (∃ n, lookup Enums.ExceptionCodeMac e.code = some n ∧ MacOk n e cpu (fromException e os cpu))) ∧
    (os ≠ .windows → os ≠ .linux → os ≠ .android → os ≠ .macos → os ≠ .ios →
        fromException e os cpu = unknownReason e) := by
  refine ⟨?_, ?_, ?_, ?_⟩
  · rintro rfl
    have : fromException e .windows cpu = windowsException e := rfl
    exact ⟨this, by rw [this]; exact windowsException_family e⟩
  · intro hos
    have : fromException e os cpu = (linuxException e).getD (unknownReason e) := by
      rcases hos with rfl | rfl <;> rfl
    rw [this]
    rcases linuxException_cases e with ⟨h1, h2⟩ | ⟨n, r, h1, h2, h3, h4⟩
    · left; exact ⟨h1, by rw [h2]; rfl⟩
    · right; refine ⟨n, h1, ?_⟩; rw [h2]; exact ⟨h3, h4⟩
  · intro hos
    have : fromException e os cpu = (macException e cpu).getD (unknownReason e) := by
      rcases hos with rfl | rfl <;> rfl
    rw [this]
    rcases macException_cases e cpu with ⟨h1, h2⟩ | ⟨n, r, h1, h2, h3⟩
    · left; exact ⟨h1, by rw [h2]; rfl⟩
    · right; refine ⟨n, h1, ?_⟩; rw [h2]; exact h3
  · intro h1 h2 h3 h4 h5
    cases os <;> first | rfl | contradiction

/-- the `Unknown` fallback carries exactly the raw code and flags -/
theorem unknownReason_spec (e : Exc) : unknownReason e = ⟨.Unknown, [], [e.code, e.flags]⟩ := rfl

/-- the CPU classes of `from_mac_exception`: arm64 only (not 32-bit ARM), ppc only (not ppc64),
    x86 and amd64 -/
theorem macCpu_spec (cpu : Cpu) :
    (MacCpu.of cpu = .arm ↔ cpu = .arm64) ∧ (MacCpu.of cpu = .ppc ↔ cpu = .ppc) ∧
    (MacCpu.of cpu = .x86 ↔ cpu = .x86 ∨ cpu = .x86_64) := by
  cases cpu <;> simp [MacCpu.of]

end MdModel.Reason
namespace MdModel.Index
open MdModel
open MdModel.Reason (Exc Reason Os Cpu)
open MdModel.Walk (Mem)

/-! ## 6. "process id and times are those of the corresponding streams" -/

/-- **C14.6** dump time from the header; process id and create time from the misc-info stream when
    that stream exists — each only under its own flag bit, with NO fallback to the Linux status —
    and otherwise the process id of the Linux status stream and no create time. -/
theorem pid_times_spec (d : Dump) (ts : List Thread) (s : State)
    (hth : d.threads = some ts) (h : index d = .state s) :
    s.time = d.timestamp ∧
    (∀ m, d.misc = some m →
        s.pid = (if m.flags.testBit 0 then some m.pid else none) ∧
        s.ctime = (if m.flags.testBit 1 then some m.ctime else none)) ∧
    (d.misc = none → s.ctime = none ∧ s.pid = d.status.map statusPid) := by
  obtain ⟨-, -, -, hpid, hct, htime, -⟩ := index_state_inv d ts s hth h
  refine ⟨htime, ?_, ?_⟩
  · intro m hm
    rw [hpid, hct]
    simp only [processId, createTime, hm, Nat.testBit_succ, Nat.testBit_zero]
    constructor
    · by_cases hv : m.flags % 2 = 1 <;> simp [hv]
    · by_cases hv : m.flags / 2 % 2 = 1 <;> simp [hv]
  · intro hm
    rw [hpid, hct]
    simp [processId, createTime, hm]

/-- the Linux status pid: the FIRST `Pid` line, 0 when it does not parse as a `u32` -/
theorem statusPid_spec (pre post : List (String × String)) (v : String)
    (hpre : ∀ e ∈ pre, e.1 ≠ "Pid") :
    statusPid (pre ++ ("Pid", v) :: post) = (parseU32 v).getD 0 := by
  unfold statusPid
  have : (pre ++ ("Pid", v) :: post).find? (fun e => e.1 == "Pid") = some ("Pid", v) := by
    rw [List.find?_append]
    have : pre.find? (fun e => e.1 == "Pid") = none := by
      simp only [List.find?_eq_none, beq_iff_eq]
      exact fun e he => hpre e he
    simp [this]
  rw [this]

theorem statusPid_none (kv : List (String × String)) (h : ∀ e ∈ kv, e.1 ≠ "Pid") : statusPid kv = 0 := by
  unfold statusPid
  have : kv.find? (fun e => e.1 == "Pid") = none := by
    simp only [List.find?_eq_none, beq_iff_eq]
    exact fun e he => h e he
  rw [this]

/-! ## 7. "Modules, unloaded modules with per-frame offsets … are those of the corresponding streams" -/

/-- **C14.0** a dump with a thread list is always processed, in either byte order: no panic
    outcome — neither the `unwrap` inside the loaded-module and memory range tables (C08 `safe_ok`)
    nor the checked subtraction `frame.instruction - base_of_image` (every module returned by the
    lookup covers the address, C08 `unloaded_exact`) can fire — and the model yields a state. -/
theorem index_total (d : Dump) (ts : List Thread) (hth : d.threads = some ts) :
    ∃ s, index d = .state s := by
  have hatt : ∃ ss, optMap (attachStack (unloadedModules d)) (ts.map (stackOf d)) = some ss := by
    apply optMap_some_of
    intro p _
    obtain ⟨fs, hfs⟩ := optMap_some_of (attachFrame (unloadedModules d)) p.frames
      (fun f _ => attachFrame_some _ f)
    exact ⟨{ id := p.id, name := p.name, info := p.info, frames := fs }, by simp [attachStack, hfs]⟩
  obtain ⟨ss, hss⟩ := hatt
  unfold index
  rw [hth]
  simp only [tableOk_modEntries, tableOk_memEntries, Bool.and_self, Bool.not_true, Bool.false_eq_true,
    if_false]
  rw [loop_stacks, hss]
  exact ⟨_, rfl⟩

/-- without a thread list nothing is produced (`ProcessError::MissingThreadList`) -/
theorem index_no_thread_list (d : Dump) (hth : d.threads = none) : index d = .missingThreadList := by
  unfold index; rw [hth]

/-- **C14.7** per-frame unloaded-module offsets, for EVERY frame of every call stack (the context
    frame and every frame the walk recovered): a frame inside a loaded module gets none; otherwise
    it gets `(name, instruction − base)` for exactly the unloaded modules whose range covers the
    instruction (all of them, possibly several per name), and nothing else. -/
theorem unloaded_offsets (d : Dump) (ts : List Thread) (s : State)
    (hth : d.threads = some ts) (h : index d = .state s)
    (i : Nat) (h1 : i < ts.length) (h2 : i < s.stacks.length)
    (j : Nat) (hj : j < s.stacks[i].frames.length) :
    (∀ k, s.stacks[i].frames[j].f.module = some k → s.stacks[i].frames[j].unloaded = []) ∧
    (s.stacks[i].frames[j].f.module = none →
      ∀ name off, (name, off) ∈ s.stacks[i].frames[j].unloaded ↔
        ∃ m ∈ unloadedModules d, covers m s.stacks[i].frames[j].f.instruction = true ∧
          name = m.name ∧ off = s.stacks[i].frames[j].f.instruction - m.base) := by
  obtain ⟨-, hat⟩ := stack_at d ts s hth h
  obtain ⟨-, -, -, -, hfr⟩ := attachStack_core _ _ _ (hat i h1 h2)
  have hlen := optMap_length _ _ _ hfr
  have hx := optMap_getElem _ _ _ hfr j (by omega) hj
  obtain ⟨hf, hsome, hnone⟩ := attachFrame_spec _ _ _ hx
  rw [hf]
  exact ⟨hsome, hnone⟩

/-- **C14.8** the module lists are those of the streams: loaded modules in stream order minus the
    entries with an impossible size (0, or overflowing the address space) — nothing at all if the
    name of a remaining entry cannot be read; the unloaded-module stream as a whole, or nothing if
    any of its entries has an impossible size or an unreadable name. -/
theorem modules_mirror (d : Dump) (ts : List Thread) (s : State)
    (hth : d.threads = some ts) (h : index d = .state s) :
    s.modules = (if (d.modules.filter (fun m => !badSize m)).any (fun m => m.name.isNone) then []
                 else (d.modules.filter (fun m => !badSize m)).map RawMod.toMod) ∧
    s.unloaded = (if d.unloaded.any badSize || d.unloaded.any (fun m => m.name.isNone) then []
                  else d.unloaded.map RawMod.toMod) := by
  obtain ⟨-, -, -, -, -, -, hm, hu, -⟩ := index_state_inv d ts s hth h
  exact ⟨hm, hu⟩

theorem badSize_iff (m : RawMod) : badSize m = true ↔ m.size = 0 ∨ m.base + m.size > U64MAX := by
  unfold badSize
  simp only [Bool.or_eq_true, decide_eq_true_eq]
  omega

/-- a module of the state keeps base, size and (readable) name of its stream entry -/
theorem toMod_spec (m : RawMod) (n : String) (h : m.name = some n) : m.toMod = ⟨m.base, m.size, n⟩ := by
  simp [RawMod.toMod, h]

/-! ## 9. "stack memory chosen to contain the context's stack pointer" (processor.rs:1166-1183) -/

/-- the thread's own stack memory (`thread.stack_memory(memory_list)`): the bytes its stack
    descriptor cites when that can be read (non-zero rva inside the file, non-zero size) — placed
    at `stack.start_of_memory_range` —, else the region of the memory list that contains
    `stack.start_of_memory_range` -/
theorem own_stack_spec (mem : List Mem) (t : Thread) :
    (∀ b, t.stack = .bytes b → b.size ≠ 0 → ownStack mem t = some { base := t.stackStart, bytes := b }) ∧
    (∀ b, t.stack = .bytes b → b.size = 0 → ownStack mem t = memAt mem t.stackStart) ∧
    (t.stack = .unreadable → ownStack mem t = memAt mem t.stackStart) := by
  refine ⟨?_, ?_, ?_⟩
  · intro b hb hs; simp [ownStack, ownDesc, hb, hs]
  · intro b hb hs; simp [ownStack, ownDesc, hb, hs]
  · intro hb; simp [ownStack, ownDesc, hb]

/-- **C14.9 (stack_memory_rule)** the memory handed to `walk_stack` for a thread whose walk starts
    with stack pointer `sp`:
    (1) the thread's own stack memory when EIGHT bytes at `sp` lie inside it (the test is
        `get_memory_at_address::<u64>`, also on 32-bit CPUs);
    (2) otherwise the region `memory_list.memory_at_address(sp)` returns, when it returns one —
        possibly the thread's own region again, when `sp` is within its last seven bytes;
    (3) otherwise the thread's own stack memory after all (possibly none);
    and without a start context (no frame), the thread's own stack memory. -/
theorem stack_memory_rule (mem : List Mem) (t : Thread) (sp : Nat) :
    (hasWord (ownStack mem t) sp = true → selectMem mem t (some sp) = ownStack mem t) ∧
    (hasWord (ownStack mem t) sp = false → ∀ r, memAt mem sp = some r → selectMem mem t (some sp) = some r) ∧
    (hasWord (ownStack mem t) sp = false → memAt mem sp = none → selectMem mem t (some sp) = ownStack mem t) ∧
    selectMem mem t none = ownStack mem t := by
  refine ⟨?_, ?_, ?_, rfl⟩
  · intro h; simp [selectMem, h]
  · intro h r hr; simp [selectMem, h, hr]
  · intro h hr; simp [selectMem, h, hr]

/-- "holds eight bytes at sp": `base ≤ sp` and `sp + 8 ≤ base + size` -/
theorem has_word_iff (m : Mem) (sp : Nat) :
    hasWord (some m) sp = true ↔ m.base ≤ sp ∧ sp + 8 ≤ m.base + m.size :=
  hasWord_some_iff m sp

/-- the lookup of case (2) is SOUND: the region it returns is a region of the memory list whose own
    address range `[base, base + size)` contains the stack pointer (C08 `get_sound`) … -/
theorem stack_memory_lookup_sound (mem : List Mem) (sp : Nat) (r : Mem) (h : memAt mem sp = some r) :
    r ∈ mem ∧ r.size ≠ 0 ∧ r.base + r.size ≤ U64MAX ∧ r.base ≤ sp ∧ sp < r.base + r.size := by
  obtain ⟨h1, ⟨h2, h3⟩, h4, h5⟩ := memAt_sound mem sp r h
  exact ⟨h1, h2, h3, h4, h5⟩

/-- … and COMPLETE for a region whose range meets no other region's range: "if such a region
    exists" it is the one found (C08 `get_complete`; with overlapping regions the table keeps one
    of them, which `stack_memory_lookup_sound` still covers). -/
theorem stack_memory_lookup_complete (pre post : List Mem) (r : Mem) (sp : Nat)
    (hr : r.size ≠ 0 ∧ r.base + r.size ≤ U64MAX)
    (hiso : ∀ x ∈ pre ++ post,
      x.size = 0 ∨ x.base + x.size > U64MAX ∨ x.base + x.size ≤ r.base ∨ r.base + r.size ≤ x.base)
    (hsp : r.base ≤ sp ∧ sp < r.base + r.size) :
    memAt (pre ++ r :: post) sp = some r :=
  memAt_complete pre post r sp hr hiso hsp

/-- so the selected memory, when the thread's own does not hold the stack pointer, contains it or
    is the thread's own -/
theorem selected_contains_sp (mem : List Mem) (t : Thread) (sp : Nat) (r : Mem)
    (h : selectMem mem t (some sp) = some r) :
    (r.base ≤ sp ∧ sp < r.base + r.size) ∨ ownStack mem t = some r := by
  unfold selectMem at h
  simp only at h
  split at h
  · exact Or.inr h
  · split at h
    · rename_i r' hr'
      cases h
      exact Or.inl ⟨(memAt_sound mem sp _ hr').2.2.1, (memAt_sound mem sp _ hr').2.2.2⟩
    · exact Or.inr h

/-- which memory list is consulted: the memory-64 list when that stream can be read, else the
    memory list without its unreadable or empty descriptors, else nothing -/
theorem memory_list_rule (d : Dump) :
    (∀ rs, d.mem64 = some (some rs) → memoryList d = rs) ∧
    (d.mem64 = none ∨ d.mem64 = some none → ∀ l, d.memList = some l → memoryList d = memoryOfList l) ∧
    (d.mem64 = none ∨ d.mem64 = some none → d.memList = none → memoryList d = []) := by
  refine ⟨?_, ?_, ?_⟩
  · intro rs h; simp [memoryList, h]
  · rintro (h | h) l hl <;> simp [memoryList, h, hl]
  · rintro (h | h) hl <;> simp [memoryList, h, hl]

/-! ## 10. every call stack of the state IS a walk of the walker model -/

/-- **C14.10 (stacks_are_walks)** the frames of the call stack of thread `i` are — frame by frame,
    before the unloaded-module attribution which leaves them alone — `Walk.walk` (the model of
    `walk_stack` that C05's and C04's theorems are about) run
      * from the start context `start_context_rule` names, all registers valid,
      * on the stack memory `stack_memory_rule` selects for that context's stack pointer, read in
        the dump's byte order (`walk_mem_endian`; no memory on a CPU whose contexts have no
        unwinder: PPC, PPC64, SPARC),
      * in the environment made of the state's loaded modules and the symbol files the supplier
        has for them (`env_spec`) — so the frames are found by STACK CFI / STACK WIN where records
        cover them, by frame pointer or scanning otherwise, and carry the function of `fill_symbol`;
    and a thread without start context (dump-writer thread, unreadable contexts) has no frame. -/
theorem stacks_are_walks (d : Dump) (ts : List Thread) (s : State)
    (hth : d.threads = some ts) (h : index d = .state s)
    (i : Nat) (h1 : i < ts.length) (h2 : i < s.stacks.length) :
    s.stacks[i].frames.map (·.f) =
      match startCtx d ts[i] with
      | some r =>
        Walk.walk (envOf d (selectMem (memoryList d) ts[i] (some r.sp)))
          (walkMem d (selectMem (memoryList d) ts[i] (some r.sp))) (toCtx d.arch r)
      | none => [] := by
  obtain ⟨-, hat⟩ := stack_at d ts s hth h
  obtain ⟨-, -, -, hfr, -⟩ := attachStack_core _ _ _ (hat i h1 h2)
  rw [hfr, stackOf_frames]
  cases hs : startCtx d ts[i] with
  | none => rfl
  | some r => simp [framesOf, stackMemOf, hs]

/-- the walker's architecture and OS class; the environment is `Walk.mkEnv` (engine `walk`'s, C05's
    and C04's single-technique theorems') when no symbol file of a loaded module has STACK WIN
    records, `Walk.mkEnvW` (engine `chain`'s, C04's STACK WIN / mixed theorems') otherwise; its
    modules are the state's loaded modules, each with the symbol file the supplier has under the
    module's name -/
theorem env_spec (d : Dump) (sel : Option Mem) :
    (envOf d sel).arch = (unwinderOf d.arch).getD .x86 ∧
    (envOf d sel).os = walkOs (Os.ofPlatformId d.platformId) ∧
    (Walk.noWins (winsOf d) = true →
      envOf d sel = Walk.mkEnv ((unwinderOf d.arch).getD .x86) (walkOs (Os.ofPlatformId d.platformId))
        (worldOf d) ((walkMem d sel).getD { base := 0, bytes := #[] })) ∧
    (Walk.noWins (winsOf d) = false →
      envOf d sel = Walk.mkEnvW ((unwinderOf d.arch).getD .x86) (walkOs (Os.ofPlatformId d.platformId))
        (worldOf d) (winsOf d) ((walkMem d sel).getD { base := 0, bytes := #[] })) ∧
    (worldOf d).mods = (loadedModules d).map toModule ∧
    (worldOf d).syms = (loadedModules d).map (fun m => (d.syms.lookup m.name).map (·.1)) ∧
    winsOf d = (loadedModules d).map (fun m => ((d.syms.lookup m.name).map (·.2)).getD []) := by
  refine ⟨?_, ?_, ?_, ?_, rfl, rfl, rfl⟩
  · unfold envOf; simp only; split <;> rfl
  · unfold envOf; simp only; split <;> rfl
  · intro h; unfold envOf; simp only; rw [if_pos h]
  · intro h; unfold envOf; simp only; rw [if_neg (by simp [h])]

/-- **byte order**: the memory a walk reads is the selected region with the DUMP's byte order — a
    big-endian dump's stack words are read big-endian (`Mem.read` on `be := true` is `beAt`) —
    and nothing at all on a CPU without an unwinder -/
theorem walk_mem_endian (d : Dump) (sel : Option Mem) :
    ((unwinderOf d.arch).isSome = false → walkMem d sel = none) ∧
    ((unwinderOf d.arch).isSome = true →
      walkMem d sel = sel.map fun m => { base := m.base, bytes := m.bytes, be := d.bigEndian }) := by
  constructor
  · intro h; simp [walkMem, h]
  · intro h; simp [walkMem, h]

/-- what "read in the memory's byte order" means: most significant byte first iff `be` -/
theorem mem_read_endian (m : Mem) (addr w : Nat) (h : m.base ≤ addr) (hfit : addr - m.base + w ≤ m.size) :
    m.read addr w = some (if m.be then m.beAt (addr - m.base) w else m.leAt (addr - m.base) w) := by
  unfold Mem.read Mem.wordAt
  rw [if_neg (by omega)]
  simp only [hfit, if_true]

/-- **C05 for the process state**: every call stack that has a start context satisfies C05's
    well-formedness invariant `Walk.WF` (context frame first; later frames with return address
    ≥ 4096, lookup address = return address − call adjustment, trust cfi / frame pointer / scan,
    strictly increasing stack pointers with the leaf exception, scanned return addresses read from
    the selected stack memory just below the frame's stack pointer). -/
theorem stacks_wf (d : Dump) (ts : List Thread) (s : State)
    (hth : d.threads = some ts) (h : index d = .state s)
    (i : Nat) (h1 : i < ts.length) (h2 : i < s.stacks.length) (r : Regs) (hr : startCtx d ts[i] = some r) :
    Walk.WF ((unwinderOf d.arch).getD .x86)
      (Walk.usedMem (walkMem d (selectMem (memoryList d) ts[i] (some r.sp))))
      (toCtx d.arch r) (s.stacks[i].frames.map (·.f)) := by
  rw [stacks_are_walks d ts s hth h i h1 h2, hr]
  have := Walk.walk_wf (envOf d (selectMem (memoryList d) ts[i] (some r.sp)))
    (walkMem d (selectMem (memoryList d) ts[i] (some r.sp))) (toCtx d.arch r)
  rw [(env_spec d _).1] at this
  exact this

/-- **C03's frame bound for the process state**: no call stack has more frames than the stack
    memory selected for it has bytes, plus two (a thread without stack memory: at most two — in
    fact one). -/
theorem stacks_frame_bound (d : Dump) (ts : List Thread) (s : State)
    (hth : d.threads = some ts) (h : index d = .state s)
    (i : Nat) (h1 : i < ts.length) (h2 : i < s.stacks.length) :
    s.stacks[i].frames.length ≤
      ((selectMem (memoryList d) ts[i] ((startCtx d ts[i]).map (·.sp))).map Mem.size).getD 0 + 2 := by
  have hw := stacks_are_walks d ts s hth h i h1 h2
  have hl : s.stacks[i].frames.length = (s.stacks[i].frames.map (·.f)).length := by simp
  rw [hl, hw]
  cases hs : startCtx d ts[i] with
  | none => simp
  | some r =>
    simp only [Option.map_some]
    have hb := Walk.walk_bound (envOf d (selectMem (memoryList d) ts[i] (some r.sp)))
      (walkMem d (selectMem (memoryList d) ts[i] (some r.sp))) (toCtx d.arch r)
    refine Nat.le_trans hb ?_
    unfold walkMem
    split
    · cases selectMem (memoryList d) ts[i] (some r.sp) with
      | none => exact Nat.le_refl _
      | some m => exact Nat.le_refl _
    · simp

/-- a thread whose selected memory is absent (or whose CPU has no unwinder) has the context frame only -/
theorem no_memory_one_frame (d : Dump) (sel : Option Mem) (c : Walk.Ctx) (h : walkMem d sel = none) :
    (framesOf d sel c).length = 1 := by
  unfold framesOf
  rw [h]
  simp [Walk.walk]

/-- **C05's module cover for the process state**: the loaded module a frame is attributed to
    (by its position in the state's module list) contains the frame's lookup address -/
theorem frame_module_sound (d : Dump) (ts : List Thread) (s : State)
    (hth : d.threads = some ts) (h : index d = .state s)
    (i : Nat) (h1 : i < ts.length) (h2 : i < s.stacks.length)
    (x : IFrame) (hx : x ∈ s.stacks[i].frames) (k : Nat) (hk : x.f.module = some k) :
    ∃ m, s.modules[k]? = some m ∧ m.base ≤ x.f.instruction ∧ x.f.instruction < m.base + m.size := by
  have hw := stacks_are_walks d ts s hth h i h1 h2
  have hmem : x.f ∈ s.stacks[i].frames.map (·.f) := List.mem_map.mpr ⟨x, hx, rfl⟩
  rw [hw] at hmem
  obtain ⟨-, -, -, -, -, -, hm, -⟩ := index_state_inv d ts s hth h
  cases hs : startCtx d ts[i] with
  | none => rw [hs] at hmem; simp at hmem
  | some r =>
    rw [hs] at hmem
    simp only at hmem
    obtain ⟨hmod, -⟩ := Walk.walk_symbolised _ _ _ _ hmem
    rw [hk, envOf_symb_fst] at hmod
    obtain ⟨wm, hwm, hlo, hhi⟩ := Walk.moduleAt_sound _ _ _ hmod.symm
    simp only [worldOf, List.getElem?_map, Option.map_eq_some_iff] at hwm
    obtain ⟨m, hmk, rfl⟩ := hwm
    exact ⟨m, by rw [hm]; exact hmk, hlo, hhi⟩

/-! ## 10b. the lookup of a thread's stack memory by its start address is redundant -/

/-- the memory handed to `walk_stack` if `MinidumpThread::stack_memory` did NOT fall back to
    `memory_list.memory_at_address(stack.start_of_memory_range)` when the thread's own stack
    descriptor cannot be read (`selectMem` with `ownDesc t` in place of `ownStack mem t`) -/
def selectMemDirect (mem : List Mem) (t : Thread) (sp : Option Nat) : Option Mem :=
  match sp with
  | none => ownDesc t
  | some sp =>
    if hasWord (ownDesc t) sp then ownDesc t
    else
      match memAt mem sp with
      | some r => some r
      | none => ownDesc t

/-- a region the memory list serves at one address is served at every address of its own range
    (the list's table is index-valued: no two regions are merged — `RangeMap.get_same_entry`) -/
theorem stack_memory_lookup_same_region (mem : List Mem) (a b : Nat) (r : Mem) (h : memAt mem a = some r)
    (hb : r.base ≤ b ∧ b < r.base + r.size) : memAt mem b = some r :=
  memAt_same_region mem a b r h hb

/-- with and without the fallback the selected memories are the same, or neither contains the
    start stack pointer -/
theorem selectMem_direct_cases (mem : List Mem) (t : Thread) (sp : Nat) :
    selectMem mem t (some sp) = selectMemDirect mem t (some sp) ∨
    (selectMemDirect mem t (some sp) = none ∧
      ∃ r, selectMem mem t (some sp) = some r ∧ ¬ (r.base ≤ sp ∧ sp < r.base + r.size)) := by
  unfold selectMem selectMemDirect ownStack
  simp only
  cases hd : ownDesc t with
  | some m => left; rfl
  | none =>
    simp only [hasWord_none, Bool.false_eq_true, if_false]
    cases ho : memAt mem t.stackStart with
    | none =>
      left
      simp only [hasWord_none, Bool.false_eq_true, if_false]
      rfl
    | some r0 =>
      by_cases hw : hasWord (some r0) sp = true
      · -- the region found by the start address holds eight bytes at sp: the lookup by sp finds it too
        left
        rw [if_pos hw]
        have hin := (hasWord_some_iff r0 sp).mp hw
        rw [memAt_same_region mem t.stackStart sp r0 ho ⟨hin.1, by omega⟩]
      · rw [if_neg hw]
        cases hs : memAt mem sp with
        | some r => left; rfl
        | none =>
          right
          refine ⟨rfl, r0, rfl, ?_⟩
          intro hin
          have := memAt_same_region mem t.stackStart sp r0 ho hin
          rw [hs] at this
          cases this

/-- **C14.10b (own_stack_by_start_redundant)** the fallback of `MinidumpThread::stack_memory` — "when
    the thread's own stack descriptor cannot be read, use the region of the memory list that contains
    `stack.start_of_memory_range`" — never changes a call stack: the region it finds is handed to the
    walker only if it holds a word at the start stack pointer, and then the lookup by the stack
    pointer finds the same region (`stack_memory_lookup_same_region`); if it does not contain the
    stack pointer, the walk stops at the context frame with it as without it
    (`Walk.walk_sp_outside`). So the frames of every call stack are the walk on `selectMemDirect`. -/
theorem own_stack_by_start_redundant (d : Dump) (t : Thread) (r : Regs) :
    framesOf d (selectMem (memoryList d) t (some r.sp)) (toCtx d.arch r) =
      framesOf d (selectMemDirect (memoryList d) t (some r.sp)) (toCtx d.arch r) := by
  rcases selectMem_direct_cases (memoryList d) t r.sp with h | ⟨hnone, r0, hsome, hout⟩
  · rw [h]
  · rw [hnone, hsome]
    exact framesOf_sp_outside d r0 (toCtx d.arch r) hout

/-- … stated for the process state: every call stack is the walk on the memory selected WITHOUT the
    fallback -/
theorem stacks_are_walks_direct (d : Dump) (ts : List Thread) (s : State)
    (hth : d.threads = some ts) (h : index d = .state s)
    (i : Nat) (h1 : i < ts.length) (h2 : i < s.stacks.length) :
    s.stacks[i].frames.map (·.f) =
      match startCtx d ts[i] with
      | some r =>
        Walk.walk (envOf d (selectMemDirect (memoryList d) ts[i] (some r.sp)))
          (walkMem d (selectMemDirect (memoryList d) ts[i] (some r.sp))) (toCtx d.arch r)
      | none => [] := by
  rw [stacks_are_walks d ts s hth h i h1 h2]
  cases hs : startCtx d ts[i] with
  | none => rfl
  | some r => exact own_stack_by_start_redundant d ts[i] r

/-! ## 11. the copy rules: fields of the state taken over from one stream -/

/-- **C14.11** what `process_minidump` copies: system info composed by `sysInfo`, the LSB stream
    folded by `lsbOf`, the macOS crash-info records, the boot-args stream and the handle stream as
    they were read; `assertion` is ALWAYS `None` (the assertion stream is not consulted) and
    `cert_info` is empty (it comes from the `evil_json` option, which `process_minidump` does not pass). -/
theorem copy_rules (d : Dump) (ts : List Thread) (s : State)
    (hth : d.threads = some ts) (h : index d = .state s) :
    s.sys = sysInfo d.platformId d.arch d.sys ∧ s.lsb = d.lsb.map lsbOf ∧
    s.macCrash = macCrashInfo d.macCrash ∧ s.bootArgs = d.bootArgs ∧ s.handles = d.handles ∧
    s.assertion = none ∧ s.certs = [] := by
  obtain ⟨-, -, -, -, -, -, -, -, h1, h2, h3, h4, h5, h6, h7⟩ := index_state_inv d ts s hth h
  exact ⟨h1, h2, h3, h4, h7, h5, h6⟩

/-- `system_info.cpu_count` is `number_of_processors`; `os_version` is always present -/
theorem cpu_count_spec (p a : Nat) (r : SysRaw) : (sysInfo p a r).cpuCount = r.ncpu := rfl

/-- `os_version` / `os_build`: `major.minor.build` and the trimmed, non-empty CSD string — except
    on Linux with version `0.0.0`, where the second blank-separated piece of the CSD string
    (`uname -srvmo`) is the version and the pieces after it, without the last one (two, when the
    last is `Linux/GNU`), are the build; a CSD string whose second piece is missing or `0.0.0`
    falls back to the first rule. -/
theorem os_parts_spec (p : Nat) (r : SysRaw) :
    (Reason.lookup Gen.Enums.PlatformId p ≠ some "Linux" ∨ versionString r ≠ "0.0.0" →
        osParts p r = (versionString r, csdBuild r)) ∧
    (Reason.lookup Gen.Enums.PlatformId p = some "Linux" → versionString r = "0.0.0" →
        osParts p r =
          (if (linuxBuildPieces ((r.csd.getD "").splitOn " ")).1 = "0.0.0" then (versionString r, csdBuild r)
           else ((linuxBuildPieces ((r.csd.getD "").splitOn " ")).1,
                 some (" ".intercalate (linuxBuildPieces ((r.csd.getD "").splitOn " ")).2)))) := by
  constructor
  · intro h
    unfold osParts
    simp only
    rw [if_pos h]
  · intro h1 h2
    unfold osParts
    simp only
    rw [if_neg (by simp [h1, h2])]

/-- the version-string pieces: fewer than two pieces ⇒ `0.0.0`; otherwise the second piece, and of
    the pieces after it all but the last — all but the last two when the last is `Linux/GNU` -/
theorem linuxBuildPieces_spec :
    linuxBuildPieces [] = ("0.0.0", []) ∧ (∀ a, linuxBuildPieces [a] = ("0.0.0", [])) ∧
    (∀ a v, linuxBuildPieces [a, v] = (v, [])) ∧
    (∀ a v mid last, last ≠ "Linux/GNU" → linuxBuildPieces (a :: v :: (mid ++ [last])) = (v, mid)) ∧
    (∀ a v mid, linuxBuildPieces (a :: v :: (mid ++ ["Linux/GNU"])) = (v, mid.dropLast)) := by
  refine ⟨rfl, fun _ => rfl, fun _ _ => rfl, ?_, ?_⟩
  · intro a v mid last hl
    simp [linuxBuildPieces, List.reverse_append, hl]
  · intro a v mid
    simp [linuxBuildPieces, List.reverse_append]

/-- `cpu_info`: x86 ⇒ the twelve vendor-id bytes as characters, a blank, and
    `family L model M stepping S` (model / stepping = high / low byte of `processor_revision`);
    x86-64 ⇒ the same without vendor id; ARM ⇒ `armCpuInfo`; every other CPU ⇒ none -/
theorem cpu_info_spec (r : SysRaw) :
    cpuInfo .x86_64 r = some s!"family {r.level} model {(r.revision / 256) % 256} stepping {r.revision % 256}" ∧
    cpuInfo .x86 r = some (String.ofList (leChars r.d0 ++ leChars r.d1 ++ leChars r.d2) ++ " " ++
        s!"family {r.level} model {(r.revision / 256) % 256} stepping {r.revision % 256}") ∧
    cpuInfo .arm r = some (armCpuInfo r) ∧
    (∀ c, c ≠ .x86 → c ≠ .x86_64 → c ≠ .arm → cpuInfo c r = none) := by
  refine ⟨rfl, rfl, rfl, ?_⟩
  intro c h1 h2 h3
  cases c <;> first | rfl | contradiction

/-- the key groups of the four LSB fields -/
def lsbKeys : List (String × String) :=
  [("DISTRIB_ID", "ID"), ("DISTRIB_RELEASE", "VERSION_ID"), ("DISTRIB_CODENAME", "VERSION_CODENAME"),
   ("DISTRIB_DESCRIPTION", "PRETTY_NAME")]

theorem lsbStep_id_keep (l : Lsb) (e : String × String) (h : e.1 ≠ "DISTRIB_ID" ∧ e.1 ≠ "ID") :
    (lsbStep l e).id = l.id := by
  unfold lsbStep
  rw [if_neg (by simp [h.1, h.2])]
  split
  · rfl
  · split
    · rfl
    · split <;> rfl

theorem lsbFold_id_keep (l : Lsb) (kv : List (String × String))
    (h : ∀ e ∈ kv, e.1 ≠ "DISTRIB_ID" ∧ e.1 ≠ "ID") : (kv.foldl lsbStep l).id = l.id := by
  induction kv generalizing l with
  | nil => rfl
  | cons e rest ih =>
    simp only [List.foldl_cons]
    rw [ih _ (fun x hx => h x (List.mem_cons_of_mem _ hx)), lsbStep_id_keep l e (h e List.mem_cons_self)]

/-- `LinuxStandardBase.id`: the value of the LAST entry keyed `DISTRIB_ID` or `ID` (either
    spelling overwrites the other); empty when there is none. The other three fields follow the
    same rule with their own pair of keys (`lsbOf` is one fold of `lsbStep`). -/
theorem lsb_id_last_wins (pre post : List (String × String)) (k v : String)
    (hk : k = "DISTRIB_ID" ∨ k = "ID") (hpost : ∀ e ∈ post, e.1 ≠ "DISTRIB_ID" ∧ e.1 ≠ "ID") :
    (lsbOf (pre ++ (k, v) :: post)).id = v := by
  unfold lsbOf
  rw [List.foldl_append, List.foldl_cons, lsbFold_id_keep _ _ hpost]
  unfold lsbStep
  rw [if_pos hk]

theorem lsb_id_none (kv : List (String × String)) (h : ∀ e ∈ kv, e.1 ≠ "DISTRIB_ID" ∧ e.1 ≠ "ID") :
    (lsbOf kv).id = "" :=
  lsbFold_id_keep {} kv h

/-- the step function, field by field: a key of a group sets that group's field to the value and
    leaves the other fields alone; any other key changes nothing -/
theorem lsbStep_spec (l : Lsb) (k v : String) :
    (k = "DISTRIB_ID" ∨ k = "ID" → lsbStep l (k, v) = { l with id := v }) ∧
    (k = "DISTRIB_RELEASE" ∨ k = "VERSION_ID" → lsbStep l (k, v) = { l with release := v }) ∧
    (k = "DISTRIB_CODENAME" ∨ k = "VERSION_CODENAME" → lsbStep l (k, v) = { l with codename := v }) ∧
    (k = "DISTRIB_DESCRIPTION" ∨ k = "PRETTY_NAME" → lsbStep l (k, v) = { l with description := v }) ∧
    ((∀ p ∈ lsbKeys, k ≠ p.1 ∧ k ≠ p.2) → lsbStep l (k, v) = l) := by
  refine ⟨?_, ?_, ?_, ?_, ?_⟩
  · intro h; unfold lsbStep; rw [if_pos h]
  · intro h; unfold lsbStep
    rw [if_neg (by rcases h with rfl | rfl <;> simp), if_pos h]
  · intro h; unfold lsbStep
    rw [if_neg (by rcases h with rfl | rfl <;> simp), if_neg (by rcases h with rfl | rfl <;> simp), if_pos h]
  · intro h; unfold lsbStep
    rw [if_neg (by rcases h with rfl | rfl <;> simp), if_neg (by rcases h with rfl | rfl <;> simp),
      if_neg (by rcases h with rfl | rfl <;> simp), if_pos h]
  · intro h
    have h1 := h ("DISTRIB_ID", "ID") (by simp [lsbKeys])
    have h2 := h ("DISTRIB_RELEASE", "VERSION_ID") (by simp [lsbKeys])
    have h3 := h ("DISTRIB_CODENAME", "VERSION_CODENAME") (by simp [lsbKeys])
    have h4 := h ("DISTRIB_DESCRIPTION", "PRETTY_NAME") (by simp [lsbKeys])
    unfold lsbStep
    rw [if_neg (by simp [h1.1, h1.2]), if_neg (by simp [h2.1, h2.2]), if_neg (by simp [h3.1, h3.2]),
      if_neg (by simp [h4.1, h4.2])]

/-- `mac_crash_info`: nothing without the stream or when a record's version differs from the first
    record's; otherwise one entry per record of version ≥ 1, in order: V5 (all fields) for version
    ≥ 5, V4 (no abort cause) for version 4, V1 (no fields, no strings) for versions 1–3 -/
theorem mac_crash_spec (rs : List MacRec) :
    macCrashInfo none = none ∧
    (macVersionsAgree rs = false → macCrashInfo (some rs) = none) ∧
    (macVersionsAgree rs = true → macCrashInfo (some rs) = some (rs.filterMap macOut)) ∧
    (∀ r : MacRec, 5 ≤ r.version →
        macOut r = some ⟨5, r.version, some r.thread, some r.dialogMode, some r.abortCause, r.strs⟩) ∧
    (∀ r : MacRec, r.version = 4 → macOut r = some ⟨4, 4, some r.thread, some r.dialogMode, none, r.strs⟩) ∧
    (∀ r : MacRec, 1 ≤ r.version → r.version ≤ 3 → macOut r = some ⟨1, r.version, none, none, none, []⟩) ∧
    (∀ r : MacRec, r.version = 0 → macOut r = none) := by
  refine ⟨rfl, ?_, ?_, ?_, ?_, ?_, ?_⟩
  · intro h; simp [macCrashInfo, h]
  · intro h; simp [macCrashInfo, h]
  · intro r h; simp [macOut, h]
  · intro r h; simp [macOut, h]
  · intro r h1 h2
    have h5 : ¬ r.version ≥ 5 := by omega
    have h4 : ¬ r.version ≥ 4 := by omega
    simp [macOut, h5, h4, h1]
  · intro r h; simp [macOut, h]

/-! ## 12. non-vacuity: concrete instances of the hypotheses, evaluated by the kernel -/

/-- three threads (ids 5, 7, 5), Breakpad says thread 7 wrote the dump, the exception names
    thread 5: both threads with id 5 start from the exception context, the last one is the
    requesting thread, thread 7 is skipped and keeps its name -/
def exampleDump : Dump :=
  { platformId := 3, arch := 0, timestamp := 42,
    threads := some [⟨5, some ⟨0x1000, 0, 0, []⟩, 0, .unreadable⟩, ⟨7, some ⟨0x2000, 0, 0, []⟩, 0, .unreadable⟩,
                     ⟨5, none, 0, .unreadable⟩],
    names := [(5, some "a"), (7, some "writer"), (5, none), (5, some "b"), (5, none)],
    breakpad := some ⟨3, 7, 5⟩,
    exc := some (⟨5, 0xc0000005, 0, 0xffffffff80001234, 2, 1, 0xffffffff00000010, 0⟩, some ⟨0x3000, 0, 0, []⟩),
    misc := some ⟨1, 99, 1000⟩, status := some [("Pid", "7")],
    modules := [⟨0x2f00, 0x200, some "m"⟩],
    unloaded := [⟨0x2000, 0x2000, some "u"⟩, ⟨0x3000, 1, some "v"⟩, ⟨0x3001, 5, some "w"⟩] }

def exampleThreads : List Thread :=
  [⟨5, some ⟨0x1000, 0, 0, []⟩, 0, .unreadable⟩, ⟨7, some ⟨0x2000, 0, 0, []⟩, 0, .unreadable⟩, ⟨5, none, 0, .unreadable⟩]

/-- the hypotheses of the theorems above are inhabited by `exampleDump` … -/
example : ∃ s, exampleDump.threads = some exampleThreads ∧ index exampleDump = .state s := by
  obtain ⟨s, hs⟩ := index_total exampleDump exampleThreads rfl
  exact ⟨s, rfl, hs⟩

/-- … and this is what they say about it (the sort-free parts evaluated by the kernel) -/
example :
    exampleThreads.map (fun t => ((stackOf exampleDump t).id, (stackOf exampleDump t).name,
        (stackOf exampleDump t).info, startCtx exampleDump t)) =
      [(5, some "b", .ok, some ⟨0x3000, 0, 0, []⟩), (7, some "writer", .dumpThreadSkipped, none),
       (5, some "b", .ok, some ⟨0x3000, 0, 0, []⟩)] ∧
    (loop exampleDump 0 exampleThreads none).2 = some 2 ∧
    requestingId exampleDump = some 5 ∧ dumpThreadId exampleDump.breakpad = some 7 ∧
    processId exampleDump = some 99 ∧ createTime exampleDump = none := by decide

example : isDumpThread exampleDump ⟨7, some ⟨0x2000, 0, 0, []⟩, 0, .unreadable⟩ = true ∧
    nameOf exampleDump.names 7 = some "writer" ∧
    (stackOf exampleDump ⟨7, some ⟨0x2000, 0, 0, []⟩, 0, .unreadable⟩).name = some "writer" := by decide

example : isRequesting exampleDump ⟨5, none, 0, .unreadable⟩ = true ∧
    isRequesting exampleDump ⟨7, some ⟨0x2000, 0, 0, []⟩, 0, .unreadable⟩ = false ∧
    excCtx exampleDump = some ⟨0x3000, 0, 0, []⟩ := by decide

/-- the frame at 0x3000 is covered by the unloaded modules `u` (offset 0x1000) and `v` (offset 0),
    not by `w` -/
example : ∃ l, offsetsAt (unloadedModules exampleDump) 0x3000 = some l ∧
    ("u", 0x1000) ∈ l ∧ ("v", 0) ∈ l ∧ ∀ off, ("w", off) ∉ l := by
  have hum : unloadedModules exampleDump = [⟨0x2000, 0x2000, "u"⟩, ⟨0x3000, 1, "v"⟩, ⟨0x3001, 5, "w"⟩] := by decide
  rw [hum]
  obtain ⟨l, hl, hspec⟩ := offsetsAt_spec [⟨0x2000, 0x2000, "u"⟩, ⟨0x3000, 1, "v"⟩, ⟨0x3001, 5, "w"⟩] 0x3000
  refine ⟨l, hl, ?_, ?_, ?_⟩
  · exact (hspec _ _).mpr ⟨⟨0x2000, 0x2000, "u"⟩, by decide, by decide, rfl, by decide⟩
  · exact (hspec _ _).mpr ⟨⟨0x3000, 1, "v"⟩, by decide, by decide, rfl, by decide⟩
  · intro off hmem
    obtain ⟨m, hm, hc, hn, -⟩ := (hspec _ _).mp hmem
    simp only [List.mem_cons, List.mem_nil_iff, or_false] at hm
    rcases hm with rfl | rfl | rfl
    · exact absurd hn (by decide)
    · exact absurd hn (by decide)
    · exact absurd hc (by decide)

/-- `nameOf_last_readable` instantiated: entries after the last readable one for id 5 are unreadable -/
example : nameOf ([(5, some "a"), (7, some "writer"), (5, none)] ++ (5, some "b") :: [(5, none)]) 5 = some "b" :=
  nameOf_last_readable _ _ 5 "b" (by decide)

/-- `statusPid_spec` instantiated: the first `Pid` line counts, `+12` parses, `4294967296` does not -/
example : statusPid ([("Name", "x")] ++ ("Pid", "+12") :: [("Pid", "13")]) = 12 := by
  rw [statusPid_spec _ _ _ (by decide)]; decide
example : statusPid ([] ++ ("Pid", "4294967296") :: []) = 0 := by
  rw [statusPid_spec _ _ _ (by decide)]; decide

/-- `requesting_never_dump_thread`'s hypothesis is inhabited: position 2 of `exampleDump` -/
example : (loop exampleDump 0 exampleThreads none).2 = some 2 ∧
    isDumpThread exampleDump ⟨5, none, 0, .unreadable⟩ = false := by decide

/-- a module list with an unreadable name is dropped as a whole; impossible sizes go first -/
example : loadedModules { exampleDump with modules := [⟨1, 0, none⟩, ⟨0x2f00, 0x200, some "m"⟩] } = [⟨0x2f00, 0x200, "m"⟩] ∧
    loadedModules { exampleDump with modules := [⟨1, 5, none⟩, ⟨0x2f00, 0x200, some "m"⟩] } = [] := by decide

/-! ### stack-memory selection and walks: an amd64 Linux dump -/

/-- region A = [0x10000, +0x40): a frame-pointer record at 0x10010 (saved rbp 0x10030, return
    address 0x400310); region B = [0x20000, +0x40) with a return address at 0x20008 -/
def regionA : Mem :=
  { base := 0x10000, bytes := #[0,0,0,0,0,0,0,0, 0,0,0,0,0,0,0,0,
                                 0x30,0,1,0,0,0,0,0, 0x10,3,0x40,0,0,0,0,0,
                                 0,0,0,0,0,0,0,0, 0,0,0,0,0,0,0,0,
                                 0,0,0,0,0,0,0,0, 0,0,0,0,0,0,0,0] }
def regionB : Mem :=
  { base := 0x20000, bytes := #[0,0,0,0,0,0,0,0, 0x20,3,0x40,0,0,0,0,0,
                                 0,0,0,0,0,0,0,0, 0,0,0,0,0,0,0,0,
                                 0,0,0,0,0,0,0,0, 0,0,0,0,0,0,0,0,
                                 0,0,0,0,0,0,0,0, 0,0,0,0,0,0,0,0] }

/-- thread 1 owns region A; its own context has sp in A, the exception context has sp in B -/
def walkThread : Thread := ⟨1, some ⟨0x400100, 0x10008, 0x10010, []⟩, 0x10000, .bytes regionA.bytes⟩

def walkDump : Dump :=
  { platformId := 0x8201, arch := 9, timestamp := 1,
    threads := some [walkThread], names := [], breakpad := none,
    exc := some (⟨1, 11, 1, 0x1234, 0, 0, 0, 0⟩, some ⟨0x400200, 0x20000, 0, []⟩),
    misc := none, status := none,
    modules := [⟨0x400000, 0x1000, some "mod"⟩], unloaded := [],
    memList := some [⟨0x10000, some regionA.bytes⟩, ⟨0x20000, some regionB.bytes⟩] }

/-- `stack_memory_rule` (1): the thread's own memory holds eight bytes at its own sp … -/
example : hasWord (ownStack [regionA, regionB] walkThread) 0x10008 = true := by decide
/-- … `has_word_iff` at the boundary: 0x10038 is the last address with eight bytes, 0x10039 is not -/
example : hasWord (some regionA) 0x10038 = true ∧ hasWord (some regionA) 0x10039 = false := by decide
/-- (2)/(3): the exception context's sp 0x20000 is not in A (`hasWord … = false`), region B is
    isolated and contains it (`stack_memory_lookup_complete` applies), so B is selected -/
example : hasWord (ownStack [regionA, regionB] walkThread) 0x20000 = false := by decide
example : memAt ([regionA] ++ regionB :: []) 0x20000 = some regionB :=
  stack_memory_lookup_complete [regionA] [] regionB 0x20000 (by decide)
    (by intro x hx; simp at hx; subst hx; right; right; left; decide) (by decide)

/-- `stacks_are_walks` / `stacks_wf` / `stacks_frame_bound` have inhabited hypotheses: the dump is
    processed, thread 0 is the requesting thread and starts from the exception context -/
example : ∃ s, walkDump.threads = some [walkThread] ∧ index walkDump = .state s ∧
    startCtx walkDump walkThread = some ⟨0x400200, 0x20000, 0, []⟩ := by
  obtain ⟨s, hs⟩ := index_total walkDump [walkThread] rfl
  exact ⟨s, rfl, hs, by decide⟩

/-- … and `stack_memory_rule` (2) gives region B for that thread's walk -/
example : selectMem [regionA, regionB] walkThread (some 0x20000) = some regionB :=
  (stack_memory_rule [regionA, regionB] walkThread 0x20000).2.1 (by decide) regionB
    (stack_memory_lookup_complete [regionA] [] regionB 0x20000 (by decide)
      (by intro x hx; simp at hx; subst hx; right; right; left; decide) (by decide))

/-! ### byte order: the same dump written big-endian -/

/-- region A / B of `walkDump` as a big-endian writer stores them (most significant byte first) -/
def regionAbe : Mem :=
  { base := 0x10000, bytes := #[0,0,0,0,0,0,0,0, 0,0,0,0,0,0,0,0,
                                 0,0,0,0,0,1,0,0x30, 0,0,0,0,0,0x40,3,0x10,
                                 0,0,0,0,0,0,0,0, 0,0,0,0,0,0,0,0,
                                 0,0,0,0,0,0,0,0, 0,0,0,0,0,0,0,0] }
def regionBbe : Mem :=
  { base := 0x20000, bytes := #[0,0,0,0,0,0,0,0, 0,0,0,0,0,0x40,3,0x20,
                                 0,0,0,0,0,0,0,0, 0,0,0,0,0,0,0,0,
                                 0,0,0,0,0,0,0,0, 0,0,0,0,0,0,0,0,
                                 0,0,0,0,0,0,0,0, 0,0,0,0,0,0,0,0] }

def walkDumpBE : Dump :=
  { walkDump with
    bigEndian := true,
    threads := some [{ walkThread with stack := .bytes regionAbe.bytes }],
    memList := some [⟨0x10000, some regionAbe.bytes⟩, ⟨0x20000, some regionBbe.bytes⟩] }

/-- `index_total` on a BIG-endian dump whose walk reads stack memory: a state, no exception -/
example : ∃ s, index walkDumpBE = .state s ∧ walkDumpBE.bigEndian = true :=
  let ⟨s, hs⟩ := index_total walkDumpBE [{ walkThread with stack := .bytes regionAbe.bytes }] rfl
  ⟨s, hs, rfl⟩

/-- `walk_mem_endian`: amd64 has an unwinder, so the walk gets region B with `be := true` … -/
example : walkMem walkDumpBE (some regionBbe) = some { regionBbe with be := true } :=
  ((walk_mem_endian walkDumpBE (some regionBbe)).2 (by decide))

/-- … and reads its words big-endian (`mem_read_endian`): the return address 0x400320 at 0x20008,
    which the same bytes read little-endian are not; the little-endian image gives the same word -/
example : ({ regionBbe with be := true } : Mem).read 0x20008 8 = some 0x400320 ∧
    regionBbe.read 0x20008 8 = some 0x2003400000000000 ∧ regionB.read 0x20008 8 = some 0x400320 := by decide

/-- the frame-pointer unwinder on the big-endian image of region A recovers the same caller
    (return address 0x400310, saved rbp 0x10030, sp = rbp + 16) as on the little-endian image -/
example :
    (Walk.fpAmd64 .other { regionAbe with be := true } (toCtx 9 ⟨0x400100, 0x10008, 0x10010, []⟩)).map
        (fun c => (c.ip, c.sp, c.rest)) = some (0x400310, 0x10020, [("rbp", 0x10030)]) ∧
    (Walk.fpAmd64 .other regionA (toCtx 9 ⟨0x400100, 0x10008, 0x10010, []⟩)).map
        (fun c => (c.ip, c.sp, c.rest)) = some (0x400310, 0x10020, [("rbp", 0x10030)]) := by decide

/-! ### symbol files: STACK CFI and STACK WIN records reach the walks of a dump -/

/-- `walkDump` with a symbol file for module `mod`: one FUNC and its canonical STACK CFI record;
    the context carries the callee-saved registers rbx and r12 -/
def cfiDump : Dump :=
  { walkDump with
    threads := some [{ walkThread with ctx := some ⟨0x400100, 0x10008, 0x10010, [("rbx", 7), ("r12", 9)]⟩ }],
    exc := none,
    syms := [("mod", { funcs := [⟨0x100, 0x300, 0, "f"⟩],
                        cfis := [⟨0x100, 0x300, ".cfa: $rsp 16 + .ra: .cfa -8 + ^", []⟩] }, [])] }

/-- `env_spec` on it: the module gets the supplier's file (its CFI record included), no STACK WIN
    record exists, so the environment is `Walk.mkEnv` — the one C04's `walk_layout_cfi` is about;
    and the start context hands the walker rbx / r12 (all registers valid) -/
example : (worldOf cfiDump).syms.map (fun o => o.map fun sf => (sf.funcs.length, sf.cfis.length)) = [some (1, 1)] ∧
    Walk.noWins (winsOf cfiDump) = true ∧
    ((toCtx 9 ⟨0x400100, 0x10008, 0x10010, [("rbx", 7), ("r12", 9)]⟩).raw .amd64 "r12" = 9) ∧
    ((toCtx 9 ⟨0x400100, 0x10008, 0x10010, [("rbx", 7), ("r12", 9)]⟩).raw .amd64 "rbp" = 0x10010) ∧
    (toCtx 9 ⟨0x400100, 0x10008, 0x10010, [("rbx", 7), ("r12", 9)]⟩).valid = none := by decide

/-- an x86 dump whose module has a STACK WIN record: the environment is `Walk.mkEnvW` -/
def winDump : Dump :=
  { walkDump with
    arch := 0,
    syms := [("mod", ({} : Walk.SymFile),
              [({ ty := '4', addr := 0x100, size := 0x300, par := 0, sav := 0, loc := 0, hp := '1',
                  rest := "$T0 $ebp = $eip $T0 4 + ^ = $ebp $T0 ^ = $esp $T0 8 + =".toList } : Win.Rec)])] }

example : Walk.noWins (winsOf winDump) = false ∧ (winsOf winDump).map List.length = [1] ∧
    (worldOf winDump).syms.map Option.isSome = [true] := by decide

/-! ### `own_stack_by_start_redundant`: both cases of the argument are inhabited -/

/-- a thread whose stack descriptor cannot be read and starts at region A's base -/
def bareThread : Thread := ⟨1, some ⟨0x400100, 0x10008, 0x10010, []⟩, 0x10000, .unreadable⟩

/-- the fallback finds region A by the start address (it is isolated: `stack_memory_lookup_complete`) -/
example : ownDesc bareThread = none ∧ ownStack [regionA, regionB] bareThread = some regionA := by
  refine ⟨rfl, ?_⟩
  show memAt ([] ++ regionA :: [regionB]) 0x10000 = some regionA
  exact stack_memory_lookup_complete [] [regionB] regionA 0x10000 (by decide)
    (by intro x hx; simp at hx; subst hx; right; right; right; decide) (by decide)

/-- case 1: sp = 0x10008 has eight bytes in region A — WITHOUT the fallback the lookup by sp finds
    the same region (`stack_memory_lookup_same_region`) -/
example : selectMemDirect [regionA, regionB] bareThread (some 0x10008) = some regionA := by
  have hA : memAt ([] ++ regionA :: [regionB]) 0x10000 = some regionA :=
    stack_memory_lookup_complete [] [regionB] regionA 0x10000 (by decide)
      (by intro x hx; simp at hx; subst hx; right; right; right; decide) (by decide)
  have := stack_memory_lookup_same_region _ 0x10000 0x10008 regionA hA (by decide)
  simp only [List.nil_append] at this
  simp [selectMemDirect, ownDesc, bareThread, hasWord_none, this]

/-- case 2: sp = 0x30000 lies in no region — with the fallback the walk gets region A, without it
    nothing; `own_stack_by_start_redundant` says the frames are the same (the context frame) -/
example : memAt [regionA, regionB] 0x30000 = none := by
  cases h : memAt [regionA, regionB] 0x30000 with
  | none => rfl
  | some r =>
    obtain ⟨hm, -, -, -, hhi⟩ := stack_memory_lookup_sound _ _ _ h
    simp only [List.mem_cons, List.not_mem_nil, or_false] at hm
    rcases hm with rfl | rfl
    · exact absurd hhi (by decide)
    · exact absurd hhi (by decide)

example (d : Dump) :
    framesOf d (selectMem (memoryList d) bareThread (some 0x30000)) (toCtx d.arch ⟨0x400100, 0x30000, 0, []⟩) =
    framesOf d (selectMemDirect (memoryList d) bareThread (some 0x30000)) (toCtx d.arch ⟨0x400100, 0x30000, 0, []⟩) :=
  own_stack_by_start_redundant d bareThread ⟨0x400100, 0x30000, 0, []⟩

/-- copy rules: Windows keeps version and service pack (`os_parts_spec`, first rule), Linux 0.0.0
    takes the `uname` text apart (`linuxBuildPieces_spec`) -/
example (r : SysRaw) : osParts 2 r = (versionString r, csdBuild r) :=
  (os_parts_spec 2 r).1 (Or.inl (by decide))
example : linuxBuildPieces ["Linux", "5.4.0-42", "#46-Ubuntu", "SMP", "x86_64", "Linux/GNU"] =
    ("5.4.0-42", ["#46-Ubuntu", "SMP"]) :=
  linuxBuildPieces_spec.2.2.2.2 "Linux" "5.4.0-42" ["#46-Ubuntu", "SMP", "x86_64"]
example : Reason.lookup Gen.Enums.PlatformId 0x8201 = some "Linux" := by decide
example : (lsbOf [("DISTRIB_ID", "Ubuntu"), ("FOO", "x"), ("ID", "ubuntu"), ("VERSION_ID", "20.04")]).id = "ubuntu" :=
  lsb_id_last_wins [("DISTRIB_ID", "Ubuntu"), ("FOO", "x")] [("VERSION_ID", "20.04")] "ID" "ubuntu" (Or.inr rfl)
    (by decide)
example : macCrashInfo (some [⟨5, 1, 2, 3, ["a", "b", "c", "d", "e"]⟩, ⟨4, 0, 0, 0, []⟩]) = none ∧
    macCrashInfo (some [⟨4, 1, 2, 3, ["a"]⟩, ⟨4, 0, 0, 0, []⟩]) =
      some [⟨4, 4, some 1, some 2, none, ["a"]⟩, ⟨4, 4, some 0, some 0, none, []⟩] := by decide

end MdModel.Index
namespace MdModel.Reason
open MdModel MdModel.Gen

example : crashAddress ⟨1, 0xc0000005, 0, 0xffffffff80001234, 2, 1, 0xffffffff00000010, 0⟩ .windows .x86 = 0x10 := by decide
example : crashAddress ⟨1, 0xc0000005, 0, 0xffffffff80001234, 1, 1, 0xffffffff00000010, 0⟩ .windows .x86 = 0x80001234 := by decide
example : crashAddress ⟨1, 0xc0000005, 0, 0xffffffff80001234, 2, 1, 0xffffffff00000010, 0⟩ .linux .x86_64 = 0xffffffff80001234 := by decide
example : (fromException ⟨1, 0xc0000006, 0, 0, 3, 8, 0, 0x1c000000e⟩ .windows .x86_64).render =
    "WindowsInPageError(EXEC,3221225486)" := by decide
example : (fromException ⟨1, 1, 0x101, 0, 0, 0, 0, 0⟩ .macos .arm64).family = .MacBadAccessArm ∧
    (fromException ⟨1, 1, 0x101, 0, 0, 0, 0, 0⟩ .macos .x86_64).family = .MacGeneral ∧
    (fromException ⟨1, 1, 1, 0, 0, 0, 0, 0⟩ .macos .arm64).family = .MacBadAccessKern := by decide
example : fromException ⟨1, 11, 1, 0, 0, 0, 0, 0⟩ .linux .arm = ⟨.LinuxSigsegv, ["SEGV_MAPERR"], []⟩ ∧
    fromException ⟨1, 11, 99, 0, 0, 0, 0, 0⟩ .android .arm = ⟨.LinuxGeneral, ["SIGSEGV"], [99]⟩ ∧
    fromException ⟨1, 99, 7, 0, 0, 0, 0, 0⟩ .linux .arm = ⟨.Unknown, [], [99, 7]⟩ ∧
    fromException ⟨1, 11, 1, 0, 0, 0, 0, 0⟩ .solaris .arm = ⟨.Unknown, [], [11, 1]⟩ := by decide
example : Os.ofPlatformId 0x8101 = .macos ∧ Os.ofPlatformId 3 = .windows ∧ Os.ofPlatformId 0 = .unknown 0 ∧
    Cpu.ofArch 0x8003 = .arm64 ∧ Cpu.ofArch 0x8004 = .mips64 ∧ archHasContext 0x8004 = false := by decide

end MdModel.Reason
