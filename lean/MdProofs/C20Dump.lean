/-
  C20 — the raw dump (`--dump`). Theorems about `MdModel.Cli.dumpSections`: the composition of
  `print_minidump_dump` (translated from main.rs into `Gen.dumpStmts`) against the INDEPENDENT list of
  stream types the library can print (`printable`, translated from minidump/src/minidump.rs), for
  ALL abstract dumps (any combination of present / unreadable / absent streams).

  Property text decided here: "… exactly the report the library produces for the same options (… raw
  dump …)"; option documentation: "--dump: Dump the 'raw' contents of the minidump"; "--brief …
  For dump: Omits all memory hexdumps."
-/
import MdProofs.Lemmas.CliDump
namespace MdModel.Cli

/-- every translated statement is understood by the model -/
theorem table_parses : stmts?.isSome = true := by decide

/-- the variables of `print_minidump_dump` hold exactly these four stream types -/
theorem preload_types :
    preloadTypes stmts = ["MinidumpSystemInfo", "MinidumpMemoryList", "MinidumpMemory64List", "MinidumpMiscInfo"] := by
  decide

theorem countP_covers (t n : String) (hn : streamTypeName t = some n) (secs : List Sec) :
    secs.countP (covers t) = typedCnt t secs + rawCnt n secs := by
  induction secs with
  | nil => rfl
  | cons s rest ih =>
    rw [List.countP_cons, ih, typedCnt_cons, rawCnt_cons]
    unfold covers
    rw [hn]
    cases hw : s.what <;> simp <;> omega

theorem all_bool (p : Bool → Bool) : [false, true].all p = true ↔ ∀ b, p b = true := by
  simp [Bool.forall_bool]

/-- the abstract dumps that differ only in which of the four streams held by variables are readable -/
def finEnv (b1 b2 b3 b4 : Bool) : DumpEnv where
  stream := fun t =>
    let ok (b : Bool) : St := if b then .ok else .absent
    if t = "MinidumpSystemInfo" then ok b1 else if t = "MinidumpMemoryList" then ok b2
    else if t = "MinidumpMemory64List" then ok b3 else if t = "MinidumpMiscInfo" then ok b4 else .absent
  raw := fun _ => false

def b2n' (b : Bool) : Nat := if b then 1 else 0

/-- all 32 cases, one kernel evaluation -/
def finCheckAll : Bool :=
  [false, true].all fun b1 => [false, true].all fun b2 => [false, true].all fun b3 => [false, true].all fun b4 =>
  [false, true].all fun b =>
    typedCnt "MinidumpSystemInfo" (dumpSections (finEnv b1 b2 b3 b4) b) == b2n' b1 &&
    typedCnt "MinidumpMemoryList" (dumpSections (finEnv b1 b2 b3 b4) b) == b2n' b2 &&
    typedCnt "MinidumpMemory64List" (dumpSections (finEnv b1 b2 b3 b4) b) == b2n' b3 &&
    typedCnt "MinidumpMiscInfo" (dumpSections (finEnv b1 b2 b3 b4) b) == b2n' b4

theorem finCheckAll_true : finCheckAll = true := by decide +kernel

theorem fin_check (b1 b2 b3 b4 b : Bool) :
    typedCnt "MinidumpSystemInfo" (dumpSections (finEnv b1 b2 b3 b4) b) = b2n' b1 ∧
    typedCnt "MinidumpMemoryList" (dumpSections (finEnv b1 b2 b3 b4) b) = b2n' b2 ∧
    typedCnt "MinidumpMemory64List" (dumpSections (finEnv b1 b2 b3 b4) b) = b2n' b3 ∧
    typedCnt "MinidumpMiscInfo" (dumpSections (finEnv b1 b2 b3 b4) b) = b2n' b4 := by
  have h := finCheckAll_true
  unfold finCheckAll at h
  have h := (all_bool _).mp h b1
  have h := (all_bool _).mp h b2
  have h := (all_bool _).mp h b3
  have h := (all_bool _).mp h b4
  have h := (all_bool _).mp h b
  simp only [Bool.and_eq_true, beq_iff_eq] at h
  exact ⟨h.1.1.1, h.1.1.2, h.1.2, h.2⟩

theorem typedCnt_preloaded (env : DumpEnv) (brief : Bool) (t : String)
    (ht : t ∈ ["MinidumpSystemInfo", "MinidumpMemoryList", "MinidumpMemory64List", "MinidumpMiscInfo"]) :
    typedCnt t (dumpSections env brief) = if env.stream t = .ok then 1 else 0 := by
  let e2 := finEnv (decide (env.stream "MinidumpSystemInfo" = .ok)) (decide (env.stream "MinidumpMemoryList" = .ok))
          (decide (env.stream "MinidumpMemory64List" = .ok)) (decide (env.stream "MinidumpMiscInfo" = .ok))
  have hag : ∀ t' ∈ ["MinidumpSystemInfo", "MinidumpMemoryList", "MinidumpMemory64List", "MinidumpMiscInfo"],
      (env.stream t' = .ok ↔ e2.stream t' = .ok) := by
    intro t' ht'
    simp only [List.mem_cons, List.mem_nil_iff, or_false] at ht'
    rcases ht' with rfl | rfl | rfl | rfl <;>
      (simp only [e2, finEnv]; split <;> simp_all)
  have hc : typedCnt t (dumpSections env brief) = typedCnt t (dumpSections e2 brief) := by
    unfold dumpSections
    apply typedCnt_run_congr
    · exact hag t ht
    · rw [preload_types]; exact hag
  rw [hc]
  obtain ⟨h1, h2, h3, h4⟩ := fin_check (decide (env.stream "MinidumpSystemInfo" = .ok))
    (decide (env.stream "MinidumpMemoryList" = .ok)) (decide (env.stream "MinidumpMemory64List" = .ok))
    (decide (env.stream "MinidumpMiscInfo" = .ok)) brief
  simp only [List.mem_cons, List.mem_nil_iff, or_false] at ht
  rcases ht with rfl | rfl | rfl | rfl
  · rw [h1]; by_cases h : env.stream "MinidumpSystemInfo" = .ok <;> simp [b2n', h]
  · rw [h2]; by_cases h : env.stream "MinidumpMemoryList" = .ok <;> simp [b2n', h]
  · rw [h3]; by_cases h : env.stream "MinidumpMemory64List" = .ok <;> simp [b2n', h]
  · rw [h4]; by_cases h : env.stream "MinidumpMiscInfo" = .ok <;> simp [b2n', h]

theorem typedCnt_not_preloaded (env : DumpEnv) (brief : Bool) (t : String)
    (ht : t ∉ ["MinidumpSystemInfo", "MinidumpMemoryList", "MinidumpMemory64List", "MinidumpMiscInfo"]) :
    typedCnt t (dumpSections env brief) = if env.stream t = .ok then staticTyped t stmts else 0 := by
  unfold dumpSections
  apply typedCnt_run_static
  · rw [preload_types]; exact ht
  · intro p hp; cases hp

/-- **C20.dump.1** `dump_sections_complete`: every stream type the library can print (independent list
    from the minidump crate) — except the explicit gap list `dumpGaps` — is printed by `--dump`
    EXACTLY ONCE when the dump contains a readable stream of that type and not at all otherwise, for
    every combination of other streams and with or without `--brief`. In particular the memory list
    AND the memory-64 list are each printed once when both exist. (`MinidumpLinuxMaps` is printed
    through main.rs's raw-stream printer, so its condition is the raw bytes being available.) -/
theorem dump_sections_complete (env : DumpEnv) (brief : Bool) (t : String)
    (ht : t ∈ printable) (hg : t ∉ dumpGaps) :
    (dumpSections env brief).countP (covers t) =
      if t = "MinidumpLinuxMaps" then (if env.raw "LinuxMaps" then 1 else 0)
      else (if env.stream t = .ok then 1 else 0) := by
  have hpr : printable = ["MinidumpThreadNames", "MinidumpModuleList", "MinidumpUnloadedModuleList",
      "MinidumpHandleDataStream", "MinidumpMemoryList", "MinidumpMemory64List", "MinidumpMemoryInfoList",
      "MinidumpLinuxMaps", "MinidumpThreadList", "MinidumpThreadInfoList", "MinidumpSystemInfo", "MinidumpMiscInfo",
      "MinidumpMacCrashInfo", "MinidumpMacBootargs", "MinidumpBreakpadInfo", "MinidumpException",
      "MinidumpAssertion", "MinidumpCrashpadInfo"] := by decide
  rw [hpr] at ht
  simp only [List.mem_cons, List.mem_nil_iff, or_false] at ht
  have static : ∀ (t n : String) (k r : Nat), streamTypeName t = some n →
      t ∉ ["MinidumpSystemInfo", "MinidumpMemoryList", "MinidumpMemory64List", "MinidumpMiscInfo"] →
      staticTyped t stmts = k → staticRaw n stmts = r →
      (dumpSections env brief).countP (covers t)
        = (if env.stream t = .ok then k else 0) + (if env.raw n then r else 0) := by
    intro t n k r hn hnp hk hr
    rw [countP_covers t n hn, typedCnt_not_preloaded env brief t hnp, hk]
    unfold dumpSections
    rw [rawCnt_run, hr]
  have pre : ∀ (t n : String), streamTypeName t = some n →
      t ∈ ["MinidumpSystemInfo", "MinidumpMemoryList", "MinidumpMemory64List", "MinidumpMiscInfo"] →
      staticRaw n stmts = 0 →
      (dumpSections env brief).countP (covers t) = (if env.stream t = .ok then 1 else 0) := by
    intro t n hn hp hr
    rw [countP_covers t n hn, typedCnt_preloaded env brief t hp]
    unfold dumpSections
    rw [rawCnt_run, hr]; simp
  rcases ht with rfl | rfl | rfl | rfl | rfl | rfl | rfl | rfl | rfl | rfl | rfl | rfl | rfl | rfl | rfl | rfl | rfl | rfl
  · rw [static _ "ThreadNamesStream" 1 0 (by decide) (by decide) (by decide) (by decide)]; simp
  · rw [static _ "ModuleListStream" 1 0 (by decide) (by decide) (by decide) (by decide)]; simp
  · rw [static _ "UnloadedModuleListStream" 1 0 (by decide) (by decide) (by decide) (by decide)]; simp
  · rw [static _ "HandleDataStream" 1 0 (by decide) (by decide) (by decide) (by decide)]; simp
  · rw [pre _ "MemoryListStream" (by decide) (by decide) (by decide)]; simp
  · rw [pre _ "Memory64ListStream" (by decide) (by decide) (by decide)]; simp
  · rw [static _ "MemoryInfoListStream" 1 0 (by decide) (by decide) (by decide) (by decide)]; simp
  · rw [static _ "LinuxMaps" 0 1 (by decide) (by decide) (by decide) (by decide)]; simp
  · rw [static _ "ThreadListStream" 1 0 (by decide) (by decide) (by decide) (by decide)]; simp
  · exact absurd (by decide) hg
  · rw [pre _ "SystemInfoStream" (by decide) (by decide) (by decide)]; simp
  · rw [pre _ "MiscInfoStream" (by decide) (by decide) (by decide)]; simp
  · rw [static _ "MozMacosCrashInfoStream" 1 0 (by decide) (by decide) (by decide) (by decide)]; simp
  · rw [static _ "MozMacosBootargsStream" 1 0 (by decide) (by decide) (by decide) (by decide)]; simp
  · rw [static _ "BreakpadInfoStream" 1 0 (by decide) (by decide) (by decide) (by decide)]; simp
  · rw [static _ "ExceptionStream" 1 0 (by decide) (by decide) (by decide) (by decide)]; simp
  · rw [static _ "AssertionInfoStream" 1 0 (by decide) (by decide) (by decide) (by decide)]; simp
  · rw [static _ "CrashpadInfoStream" 1 0 (by decide) (by decide) (by decide) (by decide)]; simp

/-- **C20.dump.2** the visible gap: the library can print a `ThreadInfoListStream`
    (`MinidumpThreadInfoList::print`), `--dump` never does, whatever the dump contains. (If main.rs
    starts printing it, this theorem fails and `dumpGaps` has to shrink.) -/
theorem dump_gap_thread_info_list (env : DumpEnv) (brief : Bool) :
    (dumpSections env brief).countP (covers "MinidumpThreadInfoList") = 0 := by
  rw [countP_covers _ "ThreadInfoListStream" (by decide), typedCnt_not_preloaded env brief _ (by decide)]
  unfold dumpSections
  rw [rawCnt_run]
  have h1 : staticTyped "MinidumpThreadInfoList" stmts = 0 := by decide
  have h2 : staticRaw "ThreadInfoListStream" stmts = 0 := by decide
  simp [h1, h2]

/-- the Rust types of the variables of `print_minidump_dump` -/
def varAllowed : String → List String
  | "system_info" => ["MinidumpSystemInfo"]
  | "memory_list" => ["MinidumpMemoryList"]
  | "memory64_list" => ["MinidumpMemory64List"]
  | "misc_info" => ["MinidumpMiscInfo"]
  | "unified_memory" => ["MinidumpMemoryList", "MinidumpMemory64List"]
  | _ => []

/-- the sections that contain memory hexdumps -/
def briefTypes : List String := ["MinidumpThreadList", "MinidumpMemoryList", "MinidumpMemory64List"]

/-- **C20.dump.3** "--brief … For dump: Omits all memory hexdumps" and nothing else: `--brief` neither
    removes nor adds nor reorders a section, and the flag is handed only to the printers of the thread
    list (thread stacks) and of the two memory lists. -/
theorem dump_brief_only_memory (env : DumpEnv) (b : Bool) :
    (dumpSections env true).map (·.what) = (dumpSections env false).map (·.what) ∧
    (∀ s ∈ dumpSections env b, hasBrief s = true → ∃ t ∈ briefTypes, s.what = .typed t) := by
  refine ⟨what_run_brief env true false stmts [], ?_⟩
  exact brief_sections varAllowed briefTypes env b stmts [] (by intro p hp; cases hp) (by decide) (by decide)

/-- abstract dumps over the four variable-held streams and the thread list -/
def finEnv5 (b1 b2 b3 b4 b5 : Bool) : DumpEnv where
  stream := fun t =>
    let ok (b : Bool) : St := if b then .ok else .absent
    if t = "MinidumpSystemInfo" then ok b1 else if t = "MinidumpMemoryList" then ok b2
    else if t = "MinidumpMemory64List" then ok b3 else if t = "MinidumpMiscInfo" then ok b4
    else if t = "MinidumpThreadList" then ok b5 else .absent
  raw := fun _ => false

def bitS (b : Bool) : String := if b then "1" else "0"
def optS (b : Bool) (t : String) : String := if b then t else "-"

/-- the thread-list section as the documentation of the printers wants it: the stacks are read from the
    64-bit memory list when there is one, else from the plain memory list; system and misc info when readable -/
def threadSec (b1 b2 b3 b4 b : Bool) : Sec :=
  ⟨.typed "MinidumpThreadList",
   [("unified_memory", if b3 then "MinidumpMemory64List" else optS b2 "MinidumpMemoryList"),
    ("system_info", optS b1 "MinidumpSystemInfo"), ("misc_info", optS b4 "MinidumpMiscInfo"), ("brief", bitS b)]⟩

def finCheck2 : Bool :=
  [false, true].all fun b1 => [false, true].all fun b2 => [false, true].all fun b3 => [false, true].all fun b4 =>
  [false, true].all fun b5 => [false, true].all fun b =>
    (dumpSections (finEnv5 b1 b2 b3 b4 b5) b).countP (· == threadSec b1 b2 b3 b4 b) == b2n' b5 &&
    (dumpSections (finEnv5 b1 b2 b3 b4 b5) b).countP (· == ⟨.typed "MinidumpMemoryList", [("brief", bitS b)]⟩) == b2n' b2 &&
    (dumpSections (finEnv5 b1 b2 b3 b4 b5) b).countP (· == ⟨.typed "MinidumpMemory64List", [("brief", bitS b)]⟩) == b2n' b3

theorem finCheck2_true : finCheck2 = true := by decide +kernel

/-- **C20.dump.4** the arguments of the sections with hexdumps, for every abstract dump: when the thread
    list is readable it is printed once with the 64-bit memory list if that is readable, else the plain
    memory list, else none — plus system/misc info when readable and the `--brief` flag; each readable
    memory list is printed once with exactly the `--brief` flag. -/
theorem dump_memory_args (env : DumpEnv) (b : Bool) :
    let o (t : String) : Bool := decide (env.stream t = .ok)
    (dumpSections env b).countP (· == threadSec (o "MinidumpSystemInfo") (o "MinidumpMemoryList")
        (o "MinidumpMemory64List") (o "MinidumpMiscInfo") b) = b2n' (o "MinidumpThreadList") ∧
    (dumpSections env b).countP (· == ⟨.typed "MinidumpMemoryList", [("brief", bitS b)]⟩) = b2n' (o "MinidumpMemoryList") ∧
    (dumpSections env b).countP (· == ⟨.typed "MinidumpMemory64List", [("brief", bitS b)]⟩) = b2n' (o "MinidumpMemory64List") := by
  intro o
  let e2 := finEnv5 (o "MinidumpSystemInfo") (o "MinidumpMemoryList") (o "MinidumpMemory64List")
    (o "MinidumpMiscInfo") (o "MinidumpThreadList")
  have hag : ∀ t' ∈ ["MinidumpSystemInfo", "MinidumpMemoryList", "MinidumpMemory64List", "MinidumpMiscInfo",
      "MinidumpThreadList"], (env.stream t' = .ok ↔ e2.stream t' = .ok) := by
    intro t' ht'
    simp only [List.mem_cons, List.mem_nil_iff, or_false] at ht'
    rcases ht' with rfl | rfl | rfl | rfl | rfl <;>
      (simp only [e2, finEnv5, o]; split <;> simp_all)
  have hpre : ∀ t' ∈ preloadTypes stmts, (env.stream t' = .ok ↔ e2.stream t' = .ok) := by
    rw [preload_types]
    intro t' ht'
    apply hag
    simp only [List.mem_cons, List.mem_nil_iff, or_false] at ht' ⊢
    rcases ht' with h | h | h | h <;> simp [h]
  have hfin : ∀ b1 b2 b3 b4 b5 b,
      (dumpSections (finEnv5 b1 b2 b3 b4 b5) b).countP (· == threadSec b1 b2 b3 b4 b) = b2n' b5 ∧
      (dumpSections (finEnv5 b1 b2 b3 b4 b5) b).countP (· == ⟨.typed "MinidumpMemoryList", [("brief", bitS b)]⟩) = b2n' b2 ∧
      (dumpSections (finEnv5 b1 b2 b3 b4 b5) b).countP (· == ⟨.typed "MinidumpMemory64List", [("brief", bitS b)]⟩) = b2n' b3 := by
    intro b1 b2 b3 b4 b5 b
    have h := finCheck2_true
    unfold finCheck2 at h
    have h := (all_bool _).mp h b1
    have h := (all_bool _).mp h b2
    have h := (all_bool _).mp h b3
    have h := (all_bool _).mp h b4
    have h := (all_bool _).mp h b5
    have h := (all_bool _).mp h b
    simp only [Bool.and_eq_true, beq_iff_eq] at h
    exact ⟨h.1.1, h.1.2, h.2⟩
  obtain ⟨f1, f2, f3⟩ := hfin (o "MinidumpSystemInfo") (o "MinidumpMemoryList") (o "MinidumpMemory64List")
    (o "MinidumpMiscInfo") (o "MinidumpThreadList") b
  refine ⟨?_, ?_, ?_⟩
  · rw [← f1]
    unfold dumpSections
    apply countQ_run_congr _ env e2 b "MinidumpThreadList"
    · intro s hs; simp only [beq_iff_eq] at hs; rw [hs]; rfl
    · exact hag _ (by simp)
    · exact hpre
  · rw [← f2]
    unfold dumpSections
    apply countQ_run_congr _ env e2 b "MinidumpMemoryList"
    · intro s hs; simp only [beq_iff_eq] at hs; rw [hs]
    · exact hag _ (by simp)
    · exact hpre
  · rw [← f3]
    unfold dumpSections
    apply countQ_run_congr _ env e2 b "MinidumpMemory64List"
    · intro s hs; simp only [beq_iff_eq] at hs; rw [hs]
    · exact hag _ (by simp)
    · exact hpre

/-! non-vacuity: a dump with BOTH memory lists, a thread list, an unreadable crashpad stream, a thread-info
    list (the gap) and a raw Linux stream -/
def sampleEnv : DumpEnv where
  stream := fun t =>
    if t ∈ ["MinidumpThreadList", "MinidumpMemoryList", "MinidumpMemory64List", "MinidumpSystemInfo",
            "MinidumpThreadInfoList"] then .ok
    else if t = "MinidumpCrashpadInfo" then .unreadable else .absent
  raw := fun n => n == "LinuxMaps"

example : (dumpSections sampleEnv true).map Sec.render =
    ["header",
     "MinidumpThreadList[unified_memory=MinidumpMemory64List,system_info=MinidumpSystemInfo,misc_info=-,brief=1]",
     "MinidumpMemory64List[brief=1]", "MinidumpMemoryList[brief=1]", "MinidumpSystemInfo",
     "note:MinidumpCrashpadInfo", "raw:LinuxMaps"] := by decide +kernel
example : "MinidumpMemoryList" ∈ printable ∧ "MinidumpMemoryList" ∉ dumpGaps ∧ sampleEnv.stream "MinidumpMemoryList" = .ok := by
  decide
example : (dumpSections sampleEnv false).countP (covers "MinidumpMemoryList") = 1 ∧
    (dumpSections sampleEnv false).countP (covers "MinidumpMemory64List") = 1 := by decide +kernel

end MdModel.Cli
