/-
  C06 (and C07's walker interface), for the REAL `FrameWalker`: `CfiStackWalker<C>`.

  C06's theorems (`MdProofs.C06`) are about `walk_with_stack_cfi` running against an abstract
  `Walker` record. The implementation the unwinders hand to it is `CfiStackWalker<C: CpuContext>`
  (minidump-unwind/src/lib.rs:553-655), which maps register NAMES to context cells through
  `memoize_register`, enforces validity, converts `u64` to the CPU's register width with `TryFrom`,
  keeps the caller's validity set and seeds it with `callee_forwarded_regs`. `MdModel.CfiWalker` is
  its model over the machine-translated register tables of C18; this file proves

    walker_refines_c06      the real walker, at any of the ten context types, IS an instance of the
                            abstract `Walker`: names through aliases to one cell (C18
                            `alias_same_cell`), validity honoured (C18 `validity_honoured`),
                            `fits` = the width test, every write with the same effect
    real_*                  hence C06's property text — "the CFA is computed first …, a
                            return-address rule is mandatory, and each other register is set from
                            its rule or marked unknown when its rule fails" — holds of
                            `walk_with_stack_cfi` on the REAL walker, on every CPU
    forwarded_regs_spec     exactly the valid callee-saved registers are forwarded, through aliases
    x86_*                   C07's six-register interface on `CfiStackWalker<CONTEXT_X86>`, incl. what
                            `clear_caller_register("$ebx")` does today (nothing: the known finding
                            C07-clear-dollar-names) and what clearing `ebx` does
    walkcfi_uses_cfiwalker  the CFI step of the stack-walk model (C03/C04/C05) is C06's `walkFrame`
                            run with this walker
-/
import MdProofs.Lemmas.CfiWalkerSim
import MdProofs.Lemmas.CfiWalkerArch
import MdProofs.Lemmas.Win
namespace MdModel.CfiWalker
open MdModel MdModel.Gen.Regs MdModel.Regs MdModel.CfiBridge

/-- The invariants of every walker the unwinders build (and the hypotheses of this file): the
    callee's validity set names only registers or aliases of the context type (C18's hypothesis;
    `foreign_name_in_set_panics` shows it cannot be dropped), and the dump is little-endian (the C06
    record reads memory little-endian; big-endian reads are modelled and tied, not proved about). -/
structure Wf (w : CfiStackWalker) : Prop where
  names : validityWf w.cpu.tbl w.calleeValidity = true
  little : w.stack.bigEndian = false

/-- the register a rule label denotes for the real walker: the label as text, memoised -/
def labelReg (w : CfiStackWalker) (b : Cfi.Name) : Option String := (nameStr b).bind w.cpu.canon

theorem memo_label (w : CfiStackWalker) (fwd : List (Cfi.Name × UInt64)) (b : Cfi.Name) :
    (toWalker w fwd).memo b = (labelReg w b).map utf8 := by
  unfold labelReg
  cases hb : nameStr b with
  | none => rw [memo_toWalker_not_text w fwd b (nameStr_none hb)]; rfl
  | some n => rw [nameStr_some hb, memo_toWalker]; rfl

/-! ## 1. the real walker is an instance of the abstract one -/

/-- **`walker_refines_c06`.** For EVERY real walker `w` — any of the nine context types of
    context.rs or `Mips32Context`, any register file, any validity set of the type's names, any
    little-endian stack image, any module, grand callee and caller state — the C06 record
    `toWalker w` answers everything `walk_with_stack_cfi` asks exactly as `w` does:
    1. names: `memoize_register` never panics; the record's `memo` is its result on every text, and
       `none` on a label that is not text;
    2. aliases denote ONE cell: names with the same canonical name read and write the same storage
       cell (C18 `alias_same_cell`);
    3. reads: `get_callee_register(n)` never panics and is the record's `getCallee`: `None` for an
       unknown name, else the value of the register's cell iff the validity set covers that
       register — under any of its names (C18 `validity_honoured`);
    4. memory: `get_register_at_address` is the record's `readMem`;
    5. `fits` is the width test `C::Register::try_from(u64)`;
    6. writes: one iteration of the loop over the remaining rules (evaluate, `set_caller_register`,
       `clear_caller_register` when the rule or the write fails) never panics, changes only the
       caller half, and leaves every canonical caller register valid-with-the-same-value or unknown
       on both sides if it was so before;
    7. `set_cfa` / `set_ra` are `set_caller_register` under the stack-pointer / instruction-pointer
       name. -/
theorem walker_refines_c06 (w : CfiStackWalker) (h : Wf w) (fwd : List (Cfi.Name × UInt64)) :
    (∀ n : String, w.cpu.memoize n = .ok (w.cpu.canon n) ∧
        (toWalker w fwd).memo (utf8 n) = (w.cpu.canon n).map utf8) ∧
    (∀ b : Cfi.Name, (∀ n : String, b ≠ utf8 n) → (toWalker w fwd).memo b = none) ∧
    (∀ n m r : String, w.cpu.canon n = some r → w.cpu.canon m = some r →
        getCell w.cpu.tbl n = getCell w.cpu.tbl m ∧ calleeView w n = calleeView w m) ∧
    (∀ n : String, w.getCalleeRegister n = .ok (calleeView w n) ∧
        (toWalker w fwd).getCallee (utf8 n) = (calleeView w n).map UInt64.ofNat) ∧
    (∀ a : UInt64, (toWalker w fwd).readMem a = toU64 (w.getRegisterAtAddress a.toNat)) ∧
    (∀ v : UInt64, (toWalker w fwd).fits v = w.cpu.fits v.toNat) ∧
    envOf w = (toWalker w fwd).env ∧
    (∀ (cfa : UInt64) (c : Cfi.Caller) (r : Cfi.Name × Cfi.Expr),
        ∃ st vs, applyOtherReal cfa w r = .ok (w.withCaller st vs) ∧
          ∀ s ∈ registers w.cpu.tbl, CallerSim w c s →
            CallerSim (w.withCaller st vs) (Cfi.applyOther (toWalker w fwd) cfa c r) s) ∧
    (∀ v : Nat, w.setCfa v = w.setCallerRegister w.cpu.spName v ∧
        w.setRa v = w.setCallerRegister w.cpu.ipName v) := by
  refine ⟨fun n => ⟨w.cpu.memoize_eq n, memo_toWalker w fwd n⟩, memo_toWalker_not_text w fwd, ?_,
    fun n => ⟨getCalleeRegister_eq w h.names n, getCallee_toWalker w fwd n⟩,
    readMem_toWalker w fwd h.little, fits_toWalker w fwd, envOf_eq w fwd h.names h.little,
    applyOtherReal_sim w fwd h.names h.little, fun v => ⟨setCfa_eq w v, setRa_eq w v⟩⟩
  intro n m r hn hm
  exact ⟨(canon_cell hn).trans (canon_cell hm).symm, (calleeView_canon w hn).trans (calleeView_canon w hm).symm⟩

/-- the writes, spelled out: what `set_caller_register` and `clear_caller_register` do to the
    frame the unwinder will report — for ANY name (alias, `$`-prefixed, unknown) and any value -/
theorem real_writes (w : CfiStackWalker) (n : String) (v : Nat) :
    (∃ b w', w.setCallerRegister n v = .ok (b, w') ∧
      (b = true ↔ (w.cpu.canon n).isSome = true ∧ v < 2 ^ w.cpu.bits) ∧
      (b = false → w' = w) ∧
      (∀ m, w.cpu.canon n = some m → b = true → ∀ s ∈ registers w.cpu.tbl,
          callerView w' s = if s = m then some v else callerView w s)) ∧
    (∃ w', w.clearCallerRegister n = .ok w' ∧ w'.callerCtx = w.callerCtx ∧
      (w.cpu.canon n = none → w' = w) ∧
      (∀ m, w.cpu.canon n = some m → ∀ s, callerView w' s = if s = m then none else callerView w s)) := by
  constructor
  · rw [setCallerRegister_eq]
    cases hc : w.cpu.canon n with
    | none =>
      refine ⟨false, w, rfl, ?_, fun _ => rfl, ?_⟩
      · simp
      · intro m hm; cases hm
    | some m =>
      by_cases hf : w.cpu.fits v = true
      · have hlt : v < 2 ^ w.cpu.bits := by simpa [Cpu.fits] using hf
        refine ⟨true, w.withCaller (writeOf w.cpu.tbl w.callerCtx n v) (setInsert w.callerValidity m), ?_, ?_, ?_, ?_⟩
        · simp only [hf, if_true]
        · simp only [Option.isSome_some, true_and, true_iff]; exact hlt
        · intro hb; cases hb
        · intro m' hm' _ s hs
          cases hm'
          exact callerView_set w hc hs v
      · have hlt : ¬ v < 2 ^ w.cpu.bits := fun hlt => hf (by simpa [Cpu.fits] using hlt)
        refine ⟨false, w, ?_, ?_, fun _ => rfl, ?_⟩
        · simp [hf]
        · simp only [Option.isSome_some, true_and]
          constructor
          · intro hb; cases hb
          · intro h'; exact absurd h' hlt
        · intro _ _ hb; cases hb
  · rw [clearCallerRegister_eq]
    cases hc : w.cpu.canon n with
    | none =>
      refine ⟨w, rfl, rfl, fun _ => rfl, ?_⟩
      intro m hm; cases hm
    | some m =>
      refine ⟨w.withCaller w.callerCtx (setRemove w.callerValidity m), rfl, rfl, ?_, ?_⟩
      · intro hn; cases hn
      · intro m' hm' s
        cases hm'
        exact callerView_clear w m s

/-! ## 2. C06's guarantees, for `walk_with_stack_cfi` on the real walker -/

/-- the real walker never panics and only its caller half changes, whatever the rule lines -/
theorem real_no_panic (w : CfiStackWalker) (h : Wf w) (lines : List Cfi.Bytes) :
    ∃ b st vs, walkCfiReal w lines = .ok (b, w.withCaller st vs) := by
  have hb := walkCfiReal_bridge w (fwdOfReal w) h.names h.little lines
  cases hc : Cfi.walkCfi (toWalker w (fwdOfReal w)) lines with
  | none => rw [hc] at hb; obtain ⟨st, vs, e⟩ := hb; exact ⟨false, st, vs, e⟩
  | some c =>
    rw [hc] at hb
    obtain ⟨_, _, st, vs, _, _, _, e, _⟩ := hb
    exact ⟨true, st, vs, e⟩

/-- what a successful walk of the real walker consists of, in C06's terms -/
theorem real_some (w : CfiStackWalker) (h : Wf w) (fwd : List (Cfi.Name × UInt64)) (lines : List Cfi.Bytes)
    (w' : CfiStackWalker) (hw : walkCfiReal w lines = .ok (true, w')) :
    ∃ c cfa ra c', Cfi.walkCfi (toWalker w fwd) lines = some c ∧ c.cfa = some cfa ∧ c.ra = some ra ∧
      Cfi.walkCfi (toWalker w (seededFwd w fwd cfa ra)) lines = some c' ∧
      c'.cfa = some cfa ∧ c'.ra = some ra ∧
      (∃ st vs, w' = w.withCaller st vs) ∧
      ∀ s ∈ registers w.cpu.tbl,
        (s = w.cpu.spName ∨ s = w.cpu.ipName ∨ CallerSim w ⟨none, none, fwd⟩ s) → CallerSim w' c' s := by
  have hb := walkCfiReal_bridge w fwd h.names h.little lines
  cases hc : Cfi.walkCfi (toWalker w fwd) lines with
  | none =>
    rw [hc] at hb
    obtain ⟨st, vs, e⟩ := hb
    rw [e] at hw; cases hw
  | some c =>
    rw [hc] at hb
    obtain ⟨cfa, ra, st, vs, c', h1, h2, h3, h4, h5, h6, h7⟩ := hb
    rw [h3] at hw
    cases hw
    exact ⟨c, cfa, ra, c', rfl, h1, h2, h4, h5, h6, ⟨st, vs, rfl⟩, h7⟩

/-- **`real_cfa_first`** (C06.5a on the real walker) — "the CFA is computed first": when
    `walk_with_stack_cfi` succeeds on the real walker, the lines parse into a map with a `.cfa` and
    a `.ra` rule; the CFA is the `.cfa` rule evaluated — against the real walker's registers and
    memory — with NO CFA available, the return address the `.ra` rule evaluated with that CFA;
    both fit the register width; and they are what the caller's stack pointer and instruction
    pointer hold unless a later rule names those registers. -/
theorem real_cfa_first (w : CfiStackWalker) (h : Wf w) (lines : List Cfi.Bytes) (w' : CfiStackWalker)
    (hw : walkCfiReal w lines = .ok (true, w')) :
    ∃ m cfaE raE cfa ra, Cfi.parseAll lines [] = some m ∧ m.get .cfa = some cfaE ∧ m.get .ra = some raE ∧
      Cfi.evalCfi (envOf w) none cfaE = some cfa ∧ Cfi.evalCfi (envOf w) (some cfa) raE = some ra ∧
      cfa.toNat < 2 ^ w.cpu.bits ∧ ra.toNat < 2 ^ w.cpu.bits ∧
      ((∀ q ∈ Cfi.others m, labelReg w q.1 ≠ some w.cpu.spName) → callerView w' w.cpu.spName = some cfa.toNat) ∧
      ((∀ q ∈ Cfi.others m, labelReg w q.1 ≠ some w.cpu.ipName) → callerView w' w.cpu.ipName = some ra.toNat) := by
  obtain ⟨c, cfa0, ra0, c', hc, hcfa, hra, hc', hcfa', _, _, hsim⟩ := real_some w h (fwdOfReal w) lines w' hw
  obtain ⟨m, cfaE, raE, cfa, ra, h1, h2, h3, h4, h5, h6, h7, rfl⟩ := (Cfi.walkCfi_some_iff _ _ c).mp hc
  have e1 : cfa0 = cfa := by
    have := (Cfi.foldl_applyOther_cfa_ra (toWalker w (fwdOfReal w)) cfa (Cfi.sortOthers (Cfi.others m)) ⟨some cfa, some ra, (toWalker w (fwdOfReal w)).fwd⟩).1
    rw [this] at hcfa; cases hcfa; rfl
  have e2 : ra0 = ra := by
    have := (Cfi.foldl_applyOther_cfa_ra (toWalker w (fwdOfReal w)) cfa (Cfi.sortOthers (Cfi.others m)) ⟨some cfa, some ra, (toWalker w (fwdOfReal w)).fwd⟩).2
    rw [this] at hra; cases hra; rfl
  subst e1; subst e2
  rw [← envOf_eq w (fwdOfReal w) h.names h.little] at h4 h5
  rw [fits_toWalker] at h6 h7
  obtain ⟨m2, cfa2, hm2, hcfa2, _, hfwd⟩ := Cfi.reg_set_or_unknown _ _ c' hc'
  rw [h1] at hm2; cases hm2
  refine ⟨m, cfaE, raE, cfa0, ra0, h1, h2, h3, h4, h5, by simpa [Cpu.fits] using h6, by simpa [Cpu.fits] using h7, ?_, ?_⟩
  · intro hno
    have := hsim w.cpu.spName (sp_known w.cpu).1 (.inl rfl)
    unfold CallerSim at this
    rw [← this, hfwd (utf8 w.cpu.spName) (fun q hq e => hno q hq (by
      rw [memo_label] at e
      exact (map_utf8_eq_some _ _).mp e))]
    show Option.map UInt64.toNat (Cfi.lookupName (seededFwd w (fwdOfReal w) cfa0 ra0) (utf8 w.cpu.spName)) = _
    unfold seededFwd
    rw [lookup_storeCfaRa]
    simp [(sp_known w.cpu).2.2]
  · intro hno
    have := hsim w.cpu.ipName (sp_known w.cpu).2.1 (.inr (.inl rfl))
    unfold CallerSim at this
    rw [← this, hfwd (utf8 w.cpu.ipName) (fun q hq e => hno q hq (by
      rw [memo_label] at e
      exact (map_utf8_eq_some _ _).mp e))]
    show Option.map UInt64.toNat (Cfi.lookupName (seededFwd w (fwdOfReal w) cfa0 ra0) (utf8 w.cpu.ipName)) = _
    unfold seededFwd
    rw [lookup_storeCfaRa]
    simp

/-- **`real_ra_mandatory`** (C06.5b/c on the real walker) — without a `.ra` rule, or a `.cfa` rule,
    or with a `.cfa` rule that mentions `.cfa`, or when either fails to evaluate against the real
    walker, or when a line does not parse: `walk_with_stack_cfi` on the real walker returns `None`
    (and does not panic) — whatever the other rules are. -/
theorem real_ra_mandatory (w : CfiStackWalker) (h : Wf w) (lines : List Cfi.Bytes) :
    (Cfi.parseAll lines [] = none → ∃ w', walkCfiReal w lines = .ok (false, w')) ∧
    (∀ m, Cfi.parseAll lines [] = some m →
      (m.get .ra = none → ∃ w', walkCfiReal w lines = .ok (false, w')) ∧
      (m.get .cfa = none → ∃ w', walkCfiReal w lines = .ok (false, w')) ∧
      (∀ cfaE, m.get .cfa = some cfaE → Cfi.tCfa ∈ cfaE → ∃ w', walkCfiReal w lines = .ok (false, w')) ∧
      (∀ cfaE, m.get .cfa = some cfaE → Cfi.evalCfi (envOf w) none cfaE = none →
          ∃ w', walkCfiReal w lines = .ok (false, w')) ∧
      (∀ cfaE raE cfa, m.get .cfa = some cfaE → m.get .ra = some raE →
          Cfi.evalCfi (envOf w) none cfaE = some cfa → Cfi.evalCfi (envOf w) (some cfa) raE = none →
          ∃ w', walkCfiReal w lines = .ok (false, w'))) := by
  have hb := walkCfiReal_bridge w (fwdOfReal w) h.names h.little lines
  have key : Cfi.walkCfi (toWalker w (fwdOfReal w)) lines = none → ∃ w', walkCfiReal w lines = .ok (false, w') := by
    intro hc; rw [hc] at hb; obtain ⟨st, vs, e⟩ := hb; exact ⟨_, e⟩
  have henv := envOf_eq w (fwdOfReal w) h.names h.little
  refine ⟨fun hp => key (Cfi.parse_failure_fails _ _ hp), fun m hm => ⟨?_, ?_, ?_, ?_, ?_⟩⟩
  · exact fun hr => key ((Cfi.ra_mandatory _ _ m hm).1 hr)
  · exact fun hc => key ((Cfi.ra_mandatory _ _ m hm).2.1 hc)
  · exact fun cfaE hc hself => key (Cfi.cfa_no_self _ _ m cfaE hm hc hself)
  · intro cfaE hc he; rw [henv] at he; exact key ((Cfi.ra_mandatory _ _ m hm).2.2.1 cfaE hc he)
  · intro cfaE raE cfa hc hr h1 h2
    rw [henv] at h1 h2
    exact key ((Cfi.ra_mandatory _ _ m hm).2.2.2 cfaE raE cfa hc hr h1 h2)

/-- **`real_reg_set_or_unknown`** (C06.6 on the real walker) — "each other register is set from its
    rule or marked unknown when its rule fails", for the frame `w'` the real walker holds after a
    successful `walk_with_stack_cfi`. With `m` the rule map and `cfa`/`ra` the computed CFA and
    return address, for every register `s` of the context type (canonical name):
    * if `p` is the one remaining rule whose label denotes `s` — directly, through an alias
      (`x29` for `fp`) or `$`-prefixed in the symbol file — `s` is valid in the caller with the
      rule's value when the rule evaluates (against the real walker, CFA available) and the value
      fits the CPU's register width, and UNKNOWN otherwise — even if the callee's value had been
      forwarded (this is where the defects F8, F8b lived);
    * if no remaining rule's label denotes `s`: the instruction pointer holds the return address,
      the stack pointer the CFA, any other register what was forwarded from the callee. -/
theorem real_reg_set_or_unknown (w : CfiStackWalker) (h : Wf w) (lines : List Cfi.Bytes) (w' : CfiStackWalker)
    (hw : walkCfiReal w lines = .ok (true, w'))
    (h64 : ∀ s, w.callerValidity.contains s = true → rawOf w.cpu.tbl w.callerCtx s < 2 ^ 64) :
    ∃ m cfaE raE cfa ra, Cfi.parseAll lines [] = some m ∧ m.get .cfa = some cfaE ∧ m.get .ra = some raE ∧
      Cfi.evalCfi (envOf w) none cfaE = some cfa ∧ Cfi.evalCfi (envOf w) (some cfa) raE = some ra ∧
      (∀ s ∈ registers w.cpu.tbl, ∀ p ∈ Cfi.others m, labelReg w p.1 = some s →
          (∀ q ∈ Cfi.others m, labelReg w q.1 = some s → q = p) →
          callerView w' s = match Cfi.evalCfi (envOf w) (some cfa) p.2 with
                            | some v => if v.toNat < 2 ^ w.cpu.bits then some v.toNat else none
                            | none => none) ∧
      (∀ s ∈ registers w.cpu.tbl, (∀ q ∈ Cfi.others m, labelReg w q.1 ≠ some s) →
          callerView w' s = if s = w.cpu.ipName then some ra.toNat
                            else if s = w.cpu.spName then some cfa.toNat
                            else callerView w s) := by
  obtain ⟨c, cfa0, ra0, c', hc, hcfa, hra, hc', hcfa', _, _, hsim⟩ := real_some w h (fwdOfReal w) lines w' hw
  obtain ⟨m, cfaE, raE, cfa, ra, h1, h2, h3, h4, h5, _, _, rfl⟩ := (Cfi.walkCfi_some_iff _ _ c).mp hc
  have e1 : cfa0 = cfa := by
    have := (Cfi.foldl_applyOther_cfa_ra (toWalker w (fwdOfReal w)) cfa (Cfi.sortOthers (Cfi.others m)) ⟨some cfa, some ra, (toWalker w (fwdOfReal w)).fwd⟩).1
    rw [this] at hcfa; cases hcfa; rfl
  have e2 : ra0 = ra := by
    have := (Cfi.foldl_applyOther_cfa_ra (toWalker w (fwdOfReal w)) cfa (Cfi.sortOthers (Cfi.others m)) ⟨some cfa, some ra, (toWalker w (fwdOfReal w)).fwd⟩).2
    rw [this] at hra; cases hra; rfl
  subst e1; subst e2
  have henv := envOf_eq w (fwdOfReal w) h.names h.little
  have henv' : envOf w = (toWalker w (seededFwd w (fwdOfReal w) cfa0 ra0)).env :=
    envOf_eq w _ h.names h.little
  obtain ⟨m2, cfa2, hm2, hcfa2, hset, hfwd⟩ := Cfi.reg_set_or_unknown _ _ c' hc'
  rw [h1] at hm2; cases hm2
  rw [hcfa'] at hcfa2; cases hcfa2
  have hrel : ∀ s ∈ registers w.cpu.tbl, CallerSim w' c' s := fun s hs =>
    hsim s hs (.inr (.inr (fwdOfReal_sim w s (h64 s))))
  refine ⟨m, cfaE, raE, cfa0, ra0, h1, h2, h3, henv ▸ h4, henv ▸ h5, ?_, ?_⟩
  · intro s hs p hp hlab huniq
    have := hrel s hs
    unfold CallerSim at this
    rw [← this, hset (utf8 s) p hp (by rw [memo_label, hlab]; rfl)
      (fun q hq e => huniq q hq (by rw [memo_label] at e; exact (map_utf8_eq_some _ _).mp e))]
    rw [← henv']
    cases Cfi.evalCfi (envOf w) (some cfa0) p.2 with
    | none => rfl
    | some v =>
      simp only [fits_toWalker, Cpu.fits]
      by_cases hf : v.toNat < 2 ^ w.cpu.bits <;> simp [hf]
  · intro s hs hno
    have := hrel s hs
    unfold CallerSim at this
    rw [← this, hfwd (utf8 s) (fun q hq e => hno q hq (by rw [memo_label] at e; exact (map_utf8_eq_some _ _).mp e))]
    show Option.map UInt64.toNat (Cfi.lookupName (seededFwd w (fwdOfReal w) cfa0 ra0) (utf8 s)) = _
    unfold seededFwd
    rw [lookup_storeCfaRa]
    by_cases hi : s = w.cpu.ipName
    · rw [if_pos hi, if_pos hi]; rfl
    · by_cases hp : s = w.cpu.spName
      · rw [if_neg hi, if_pos hp, if_neg hi, if_pos hp]; rfl
      · rw [if_neg hi, if_neg hp, if_neg hi, if_neg hp]
        exact fwdOfReal_sim w s (h64 s)

/-- **`real_order_independent`** (C06.7 on the real walker) — if no two labels denote the same
    register, processing the remaining rules in ANY order (any permutation of the hash map's
    entries) leaves every register of the real walker's caller with the same value-or-unknown. -/
theorem real_order_independent (w : CfiStackWalker) (h : Wf w) (cfa : UInt64)
    (l₁ l₂ : List (Cfi.Name × Cfi.Expr)) (hperm : l₁.Perm l₂)
    (hdistinct : ∀ x ∈ l₁, ∀ y ∈ l₁, labelReg w x.1 = labelReg w y.1 → labelReg w x.1 ≠ none → x = y)
    (s : String) (hs : s ∈ registers w.cpu.tbl)
    (h64 : w.callerValidity.contains s = true → rawOf w.cpu.tbl w.callerCtx s < 2 ^ 64) :
    ∃ w₁ w₂, foldReal cfa l₁ w = .ok w₁ ∧ foldReal cfa l₂ w = .ok w₂ ∧ callerView w₁ s = callerView w₂ s := by
  obtain ⟨st1, vs1, hf1, hs1⟩ := foldReal_sim w (fwdOfReal w) h.names h.little cfa l₁ w.callerCtx w.callerValidity ⟨none, none, fwdOfReal w⟩
  obtain ⟨st2, vs2, hf2, hs2⟩ := foldReal_sim w (fwdOfReal w) h.names h.little cfa l₂ w.callerCtx w.callerValidity ⟨none, none, fwdOfReal w⟩
  rw [withCaller_self] at hf1 hf2 hs1 hs2
  refine ⟨_, _, hf1, hf2, ?_⟩
  have r1 := hs1 s hs (fwdOfReal_sim w s h64)
  have r2 := hs2 s hs (fwdOfReal_sim w s h64)
  unfold CallerSim at r1 r2
  rw [← r1, ← r2]
  have hd : ∀ a ∈ l₁, ∀ b ∈ l₁, (toWalker w (fwdOfReal w)).memo a.1 = (toWalker w (fwdOfReal w)).memo b.1 →
      (toWalker w (fwdOfReal w)).memo a.1 ≠ none → a = b := by
    intro a ha b hb hab hne
    rw [memo_label, memo_label] at hab
    rw [memo_label] at hne
    apply hdistinct a ha b hb
    · cases ha' : labelReg w a.1 with
      | none => rw [ha'] at hne; exact absurd rfl hne
      | some x =>
        cases hb' : labelReg w b.1 with
        | none => rw [ha', hb'] at hab; cases hab
        | some y =>
          rw [ha', hb'] at hab
          simp only [Option.map_some, Option.some.injEq] at hab
          rw [utf8_inj hab]
    · intro e; rw [e] at hne; exact hne rfl
  exact congrArg (Option.map UInt64.toNat)
    ((Cfi.order_independent (toWalker w (fwdOfReal w)) cfa l₁ l₂ ⟨none, none, fwdOfReal w⟩ hperm hd).2.2 (utf8 s))

/-! ## 3. `callee_forwarded_regs`: what the caller starts with -/

/-- **`forwarded_regs_spec`** — `callee_forwarded_regs(valid)` never panics and returns EXACTLY the
    callee-saved registers of the architecture (`CALLEE_SAVED_REGS`, machine-read from the six
    unwinder files) that are valid in the callee — valid through ANY of their names: a frame pointer
    the frame-pointer unwinder recorded as `r11` / `x29` is forwarded as `fp` (the repaired
    behaviour of F28; on x86, x86-64 and MIPS the literal `which.contains(reg)` is the same thing
    because their callee-saved registers have no aliases: table fact `fwd_literal_no_alias`). -/
theorem forwarded_regs_spec (k : Kind) (valid : Validity) (hv : validityWf k.rawCtx valid = true) :
    ∃ fwd, calleeForwardedRegs k valid = .ok fwd ∧
      ∀ r, r ∈ fwd ↔ r ∈ Gen.CfiWalkerConsts.calleeSaved k.file ∧ covers k.rawCtx valid r = true := by
  unfold calleeForwardedRegs
  cases valid with
  | all => exact ⟨_, rfl, fun r => by simp [covers]⟩
  | some S =>
    have hS := validityWf_some hv
    simp only
    cases hk : Gen.CfiWalkerConsts.fwdLookup k.file with
    | literal =>
      refine ⟨_, rfl, fun r => ?_⟩
      rw [List.mem_filter]
      have hna := fwd_literal_no_alias k
      rw [hk] at hna
      simp only [List.all_eq_true] at hna
      constructor
      · rintro ⟨hr, hc⟩
        refine ⟨hr, ?_⟩
        have hrS : r ∈ S := by simpa using hc
        simp only [covers, List.any_eq_true]
        exact ⟨r, hrS, sameReg_self (known_of_registers (saved_known k hr))⟩
      · rintro ⟨hr, hc⟩
        refine ⟨hr, ?_⟩
        simp only [covers, List.any_eq_true] at hc
        obtain ⟨n, hnS, hsame⟩ := hc
        have := hna r hr n (hS n hnS)
        rw [hsame] at this
        have : n = r := by simpa using this
        subst this
        simpa using hnS
    | isValid =>
      have := filterO_ok (fun r => Regs.isValid k.rawCtx r (.some S)) (fun r => S.any (sameReg k.rawCtx r))
        (Gen.CfiWalkerConsts.calleeSaved k.file)
        (fun r hr => isValid_some_sameReg (known_of_registers (saved_known k hr)) hS)
      refine ⟨_, this, fun r => ?_⟩
      rw [List.mem_filter]
      rfl

/-- **the walker `from_ctx_and_args` builds**: the caller context is a clone of the callee's, the
    caller's validity set is exactly `forwarded_regs_spec`'s set, and every forwarded register is
    reported with the callee's raw cell value (verbatim — on MIPS in 32-bit mode the full 64-bit
    cell, although reads of the callee are truncated to 32 bits); nothing else is valid: neither
    the instruction pointer nor any caller-saved register is forwarded. -/
theorem forwarded_walker (a : Args) (hv : validityWf a.kind.rawCtx a.valid = true) (w : CfiStackWalker)
    (h : fromCtxAndArgs a = .ok (some w)) :
    w.cpu = a.kind.cpu ∧ w.instruction = a.instruction ∧ w.calleeCtx = a.ctx ∧ w.calleeValidity = a.valid ∧
    w.callerCtx = a.ctx ∧ w.stack = a.stack ∧
    w.hasGrandCallee = a.grand.isSome ∧
    (∀ r, r ∈ w.callerValidity ↔
        r ∈ Gen.CfiWalkerConsts.calleeSaved a.kind.file ∧ covers a.kind.rawCtx a.valid r = true) ∧
    (∀ r, callerView w r =
        if r ∈ Gen.CfiWalkerConsts.calleeSaved a.kind.file ∧ covers a.kind.rawCtx a.valid r = true
        then some (rawOf a.kind.rawCtx a.ctx r) else none) ∧
    callerView w (Gen.Regs.ipName a.kind.rawCtx) = none := by
  obtain ⟨fwd, hf, hmem⟩ := forwarded_regs_spec a.kind a.valid hv
  unfold fromCtxAndArgs at h
  split at h
  · cases h
  · split at h
    · cases h
    · rw [hf] at h
      simp only [Outcome.ok.injEq, Option.some.injEq] at h
      subst h
      have hval : ∀ r, r ∈ toSet fwd ↔
          r ∈ Gen.CfiWalkerConsts.calleeSaved a.kind.file ∧ covers a.kind.rawCtx a.valid r = true :=
        fun r => (mem_toSet fwd r).trans (hmem r)
      refine ⟨rfl, rfl, rfl, rfl, rfl, rfl, rfl, hval, ?_, ?_⟩
      · intro r
        unfold callerView
        simp only
        by_cases hr : r ∈ toSet fwd
        · have : (toSet fwd).contains r = true := by simpa using hr
          rw [this, if_pos ((hval r).mp hr)]; rfl
        · have : (toSet fwd).contains r = false := by simpa using hr
          rw [this, if_neg (fun h' => hr ((hval r).mpr h'))]; rfl
      · unfold callerView
        simp only
        have : ¬ Gen.Regs.ipName a.kind.rawCtx ∈ toSet fwd := by
          intro hin
          have hs := ((hval _).mp hin).1
          have := calleeSaved_canonical a.kind
          simp only [Bool.and_eq_true, List.all_eq_true] at this
          have := this.1 _ hs
          simp at this
        have : (toSet fwd).contains (Gen.Regs.ipName a.kind.rawCtx) = false := by simpa using this
        rw [this]; rfl

/-! ## 4. x86: C07's six-register interface on `CfiStackWalker<CONTEXT_X86>` -/

theorem x86_registers : registers .X86 = Win.x86Regs := by decide

/-- the six names C07's evaluators write are registers of CONTEXT_X86, their own canonical names;
    the `$`-prefixed spellings `clear_stack_win_caller_registers` passes are NOT names of the
    context type -/
theorem x86_six_names :
    (∀ n ∈ Win.clearNamesFixed, Cpu.canon (.ctx .X86) n = some n) ∧
    (∀ n ∈ Win.clearNamesActual, Cpu.canon (.ctx .X86) n = none) := by
  constructor <;> decide +kernel

/-- **what `clear_caller_register("$ebx")` does today: nothing** — for each of the six names
    `clear_stack_win_caller_registers` passes (`$eip $esp $ebp $ebx $esi $edi`) and hence for the
    whole call, on every x86 walker: the walker is returned unchanged, so every callee-saved
    register `callee_forwarded_regs` seeded stays valid in the caller (the known finding
    C07-clear-dollar-names, here on the REAL walker). -/
theorem x86_clear_dollar_noop (w : CfiStackWalker) (hx : w.cpu = .ctx .X86) :
    (∀ n ∈ Win.clearNamesActual, w.clearCallerRegister n = .ok w) ∧
    clearAllReal Win.clearNamesActual w = .ok w := by
  have h1 : ∀ n ∈ Win.clearNamesActual, w.clearCallerRegister n = .ok w := by
    intro n hn
    rw [clearCallerRegister_eq, hx, x86_six_names.2 n hn]
  refine ⟨h1, ?_⟩
  have e : Win.clearNamesActual = ["$eip", "$esp", "$ebp", "$ebx", "$esi", "$edi"] := rfl
  simp only [e, clearAllReal]
  rw [e] at h1
  simp only [h1 "$eip" (by simp), h1 "$esp" (by simp), h1 "$ebp" (by simp), h1 "$ebx" (by simp),
    h1 "$esi" (by simp), h1 "$edi" (by simp)]

/-- **what clearing `ebx` would do** (the names WITHOUT `$`, the proposed patch): exactly the six
    registers become unknown in the caller, every other register keeps its value and validity, the
    register file is untouched. -/
theorem x86_clear_plain (w : CfiStackWalker) (hx : w.cpu = .ctx .X86) :
    ∃ vs, clearAllReal Win.clearNamesFixed w = .ok (w.withCaller w.callerCtx vs) ∧
      ∀ s, callerView (w.withCaller w.callerCtx vs) s =
        if s ∈ Win.clearNamesFixed then none else callerView w s :=
  clearAllReal_view w _ (fun n hn => by rw [hx]; exact x86_six_names.1 n hn)

/-- C07's caller record and the real x86 walker agree on a register: same validity, and when valid
    the same value -/
def WinSim (w : CfiStackWalker) (c : Win.Caller) (s : String) : Prop :=
  (s ∈ c.valid ↔ s ∈ w.callerValidity) ∧
  (s ∈ c.valid → (c.vals.get s).map UInt32.toNat = some (rawOf .X86 w.callerCtx s))

/-- **C07's `Caller` is the caller half of `CfiStackWalker<CONTEXT_X86>`**: `setCore` (the model of
    `set_caller_register` / `set_cfa` / `set_ra` the C07 theorems use) succeeds exactly when the real
    method does — the name is one of the ten registers WITHOUT `$` and the value fits 32 bits — and
    then both sides stay related on every register; `clear` likewise (a `$`-prefixed name clears
    nothing on either side). -/
theorem x86_win_caller_refines (w : CfiStackWalker) (hx : w.cpu = .ctx .X86) (c : Win.Caller)
    (hsim : ∀ s ∈ Win.x86Regs, WinSim w c s) (name : String) (v : Nat) :
    (∃ b w', w.setCallerRegister name v = .ok (b, w') ∧ (b = (c.setCore name v).isSome) ∧
      ∀ c', c.setCore name v = some c' → ∀ s ∈ Win.x86Regs, WinSim w' c' s) ∧
    (∃ w', w.clearCallerRegister name = .ok w' ∧ ∀ s ∈ Win.x86Regs, WinSim w' (c.clear name) s) := by
  have hcan : ∀ n, w.cpu.canon n = if n ∈ Win.x86Regs then some n else none := by
    intro n
    rw [← x86_registers, hx]
    by_cases hn : n ∈ registers .X86
    · rw [if_pos hn]; exact canon_register (p := .ctx .X86) hn
    · rw [if_neg hn]
      cases hc : Cpu.canon (.ctx .X86) n with
      | none => rfl
      | some r =>
        exfalso
        have hk : n ∈ knownNames .X86 := canon_known (p := .ctx .X86) hc
        have : ∀ x ∈ knownNames .X86, x ∈ registers .X86 := by decide +kernel
        exact hn (this n hk)
  have htbl : w.cpu.tbl = .X86 := by rw [hx]; rfl
  have hbits : ∀ x, w.cpu.fits x = decide (x ≤ U32MAX) := by
    intro x; rw [hx]; simp only [Cpu.fits, Cpu.bits, U32MAX]
    congr 1; apply propext
    show x < 2 ^ 32 ↔ _
    omega
  constructor
  · rw [setCallerRegister_eq, hcan]
    unfold Win.Caller.setCore
    by_cases hn : name ∈ Win.x86Regs
    · simp only [hn, if_true]
      rw [hbits]
      by_cases hv : v ≤ U32MAX
      · simp only [hv, decide_true, if_true]
        refine ⟨true, _, rfl, by simp, ?_⟩
        intro c' hc' s hs
        simp only [Option.some.injEq] at hc'
        subst hc'
        obtain ⟨h1, h2⟩ := hsim s hs
        have hview := callerView_set w (n := name) (m := name) (s := s) (by rw [hcan, if_pos hn])
          (by rw [htbl, x86_registers]; exact hs) v
        unfold WinSim
        simp only
        have hmem : s ∈ (if name ∈ c.valid then c.valid else name :: c.valid) ↔ s = name ∨ s ∈ c.valid := by
          by_cases hnv : name ∈ c.valid
          · simp only [hnv, if_true]
            constructor
            · exact .inr
            · rintro (rfl | h); exact hnv; exact h
          · simp [hnv]
        have hmem' : s ∈ (w.withCaller (writeOf w.cpu.tbl w.callerCtx name v) (setInsert w.callerValidity name)).callerValidity
            ↔ s = name ∨ s ∈ w.callerValidity := by
          have := setInsert_contains w.callerValidity name s
          rw [Bool.eq_iff_iff] at this
          simpa [CfiStackWalker.withCaller] using this
        refine ⟨?_, ?_⟩
        · rw [hmem, hmem', h1]
        · intro hsv
          have hraw : rawOf .X86 (w.withCaller (writeOf w.cpu.tbl w.callerCtx name v) (setInsert w.callerValidity name)).callerCtx s
              = if s = name then v else rawOf .X86 w.callerCtx s := by
            have := rawOf_write w.cpu w.callerCtx (n := name) (m := name) (s := s) (by rw [hcan, if_pos hn])
              (by rw [htbl, x86_registers]; exact hs) v
            rw [htbl] at this
            show rawOf .X86 (writeOf w.cpu.tbl w.callerCtx name v) s = _
            rw [htbl]
            exact this
          rw [hraw]
          by_cases hsn : s = name
          · subst hsn
            rw [Win.Vars.get_set_self]
            simp only [Option.map_some, if_true, Option.some.injEq]
            rw [UInt32.toNat_ofNat']
            apply Nat.mod_eq_of_lt
            simp only [U32MAX] at hv; omega
          · rw [Win.Vars.get_set_other _ _ hsn, if_neg hsn]
            have : s ∈ c.valid := by
              rcases hmem.mp hsv with h | h
              · exact absurd h hsn
              · exact h
            exact h2 this
      · simp only [hv, decide_false, Bool.false_eq_true, if_false]
        exact ⟨false, w, rfl, by simp, fun c' hc' => by cases hc'⟩
    · simp only [hn, if_false]
      exact ⟨false, w, rfl, by simp, fun c' hc' => by cases hc'⟩
  · rw [clearCallerRegister_eq, hcan]
    unfold Win.Caller.clear
    by_cases hn : name ∈ Win.x86Regs
    · simp only [hn, if_true]
      refine ⟨_, rfl, ?_⟩
      intro s hs
      obtain ⟨h1, h2⟩ := hsim s hs
      unfold WinSim
      simp only [CfiStackWalker.withCaller, setRemove, List.mem_filter, ne_eq, decide_not,
        Bool.not_eq_eq_eq_not, Bool.not_true, decide_eq_false_iff_not]
      refine ⟨by rw [h1], fun hsv => h2 hsv.1⟩
    · simp only [hn, if_false]
      exact ⟨w, rfl, fun s hs => hsim s hs⟩

/-! ## 4b. what `get_caller_by_cfi` makes of the walker -/

/-- **the pointer-authentication strip of arm64.rs / arm64_old.rs** never panics and does exactly
    this to the caller context the walker left: the instruction pointer is ALWAYS masked (read raw —
    also when a rule cleared it), the link register and the frame pointer are masked when they are
    valid in the caller (under either of their names), every other register is untouched -/
theorem strip_spec (k : Kind) (hk : k = .arm64 ∨ k = .arm64old) (valid : List String)
    (hvalid : ∀ s ∈ valid, s ∈ knownNames k.rawCtx) (mask : Nat) (st : Regs.State) :
    ∃ st', stripAll k valid mask st (Gen.CfiWalkerConsts.stripRegs k.file) = .ok st' ∧
      ∀ s ∈ registers k.rawCtx, rawOf k.rawCtx st' s =
        if s = "pc" then rawOf k.rawCtx st "pc" &&& mask
        else if s = "lr" ∧ valid.any (sameReg k.rawCtx "lr") = true then rawOf k.rawCtx st "lr" &&& mask
        else if s = "fp" ∧ valid.any (sameReg k.rawCtx "fp") = true then rawOf k.rawCtx st "fp" &&& mask
        else rawOf k.rawCtx st s := by
  have hlist : Gen.CfiWalkerConsts.stripRegs k.file = [("pc", true), ("x30", false), ("x29", false)] := by
    rcases hk with rfl | rfl <;> rfl
  have hkn : "pc" ∈ knownNames k.rawCtx ∧ "x30" ∈ knownNames k.rawCtx ∧ "x29" ∈ knownNames k.rawCtx := by
    rcases hk with rfl | rfl <;> decide +kernel
  have hcan : k.cpu.canon "pc" = some "pc" ∧ k.cpu.canon "x30" = some "lr" ∧ k.cpu.canon "x29" = some "fp" := by
    rcases hk with rfl | rfl <;> decide +kernel
  have hsame : sameReg k.rawCtx "x30" = sameReg k.rawCtx "lr" ∧ sameReg k.rawCtx "x29" = sameReg k.rawCtx "fp" := by
    have c1 := canon_cell hcan.2.1
    have c2 := canon_cell hcan.2.2
    exact ⟨by funext s; simp only [sameReg]; rw [show getCell k.rawCtx "x30" = getCell k.rawCtx "lr" from c1],
           by funext s; simp only [sameReg]; rw [show getCell k.rawCtx "x29" = getCell k.rawCtx "fp" from c2]⟩
  have hraw : ∀ st : Regs.State, rawOf k.rawCtx st "x30" = rawOf k.rawCtx st "lr" ∧
      rawOf k.rawCtx st "x29" = rawOf k.rawCtx st "fp" := by
    intro st
    have c1 : getCell k.rawCtx "x30" = getCell k.rawCtx "lr" := canon_cell hcan.2.1
    have c2 : getCell k.rawCtx "x29" = getCell k.rawCtx "fp" := canon_cell hcan.2.2
    simp only [rawOf, c1, c2, and_self]
  have hne : ("lr" : String) ≠ "pc" ∧ ("fp" : String) ≠ "pc" ∧ ("fp" : String) ≠ "lr" := by decide
  rw [hlist]
  have s1 := fun st0 => stripStep_eq k valid hvalid mask st0 ("pc", true) hkn.1
  have s2 := fun st0 => stripStep_eq k valid hvalid mask st0 ("x30", false) hkn.2.1
  have s3 := fun st0 => stripStep_eq k valid hvalid mask st0 ("x29", false) hkn.2.2
  simp only [Bool.true_or, if_true, Bool.false_or] at s1 s2 s3
  simp only [stripAll, s1, s2, s3]
  refine ⟨_, rfl, ?_⟩
  intro s hs
  have hcpu : k.cpu.tbl = k.rawCtx := rfl
  have w1 := fun (st0 : Regs.State) (v : Nat) => rawOf_write k.cpu st0 (n := "pc") (m := "pc") (s := s) hcan.1 hs v
  have w2 := fun (st0 : Regs.State) (v : Nat) => rawOf_write k.cpu st0 (n := "x30") (m := "lr") (s := s) hcan.2.1 hs v
  have w3 := fun (st0 : Regs.State) (v : Nat) => rawOf_write k.cpu st0 (n := "x29") (m := "fp") (s := s) hcan.2.2 hs v
  have lrpc := rawOf_write k.cpu st (n := "pc") (m := "pc") (s := "lr") hcan.1 (canon_canon hcan.2.1).1 (rawOf k.rawCtx st "pc" &&& mask)
  have fppc := rawOf_write k.cpu st (n := "pc") (m := "pc") (s := "fp") hcan.1 (canon_canon hcan.2.2).1 (rawOf k.rawCtx st "pc" &&& mask)
  rw [hcpu] at w1 w2 w3 lrpc fppc
  simp only [hne.1, hne.2.1, if_false] at lrpc fppc
  rw [hsame.1, hsame.2]
  by_cases hl : valid.any (sameReg k.rawCtx "lr") = true
  · by_cases hf : valid.any (sameReg k.rawCtx "fp") = true
    · simp only [hl, hf, if_true, and_true]
      rw [w3, w2, w1]
      have fplr := rawOf_write k.cpu (writeOf k.rawCtx st "pc" (rawOf k.rawCtx st "pc" &&& mask)) (n := "x30") (m := "lr")
        (s := "fp") hcan.2.1 (canon_canon hcan.2.2).1 (rawOf k.rawCtx (writeOf k.rawCtx st "pc" (rawOf k.rawCtx st "pc" &&& mask)) "x30" &&& mask)
      rw [hcpu] at fplr
      simp only [hne.2.2, if_false] at fplr
      rw [(hraw _).2, fplr, fppc, (hraw _).1, lrpc]
      by_cases h1 : s = "pc"
      · simp [h1]
      · by_cases h2 : s = "lr"
        · simp [h2]
        · by_cases h3 : s = "fp" <;> simp [h1, h2, h3]
    · simp only [hl, hf, if_true, and_true, and_false, Bool.false_eq_true, if_false]
      rw [w2, w1, (hraw _).1, lrpc]
      by_cases h1 : s = "pc"
      · simp [h1]
      · by_cases h2 : s = "lr" <;> simp [h1, h2]
  · by_cases hf : valid.any (sameReg k.rawCtx "fp") = true
    · simp only [hl, hf, if_true, and_true, and_false, Bool.false_eq_true, if_false]
      rw [w3, w1, (hraw _).2, fppc]
      by_cases h1 : s = "pc"
      · simp [h1]
      · by_cases h3 : s = "fp" <;> simp [h1, h3]
    · simp only [hl, hf, and_false, Bool.false_eq_true, if_false]
      rw [w1]

/-- **`cfi_frame_spec`** — what `get_caller_by_cfi` returns, on every architecture. `walk_frame` is
    reached only when the callee's stack pointer is valid and a module covers the callee's
    instruction; it receives the walker of `forwarded_walker`; when it returns `Some`, the frame is
    the walker's caller context after the post-processing (`strip_spec` on ARM64, nothing elsewhere)
    with `Some(caller_validity)` as its validity — and its `instruction` is the instruction-pointer
    cell read RAW: a stack pointer or instruction pointer a later rule cleared is still used by the
    checks that follow, it is merely not reported as valid. -/
theorem cfi_frame_spec (a : Args) (script : Script) (f : CfiFrame)
    (h : getCallerByCfi a script = .ok (.frame f)) :
    spTest a = .ok true ∧
    ∃ w0 w st, fromCtxAndArgs a = .ok (some w0) ∧ script w0 = .ok (true, w) ∧
      stripAll a.kind w.callerValidity (stripMask a.kind a.modules) w.callerCtx
        (Gen.CfiWalkerConsts.stripRegs a.kind.file) = .ok st ∧
      (Gen.CfiWalkerConsts.stripRegs a.kind.file = [] → st = w.callerCtx) ∧
      f.ctx = st ∧ f.valid = w.callerValidity ∧
      Regs.instructionPointer a.kind.rawCtx st = .ok f.instruction := by
  unfold getCallerByCfi at h
  split at h
  · cases h
  · cases h
  · rename_i hsp
    refine ⟨hsp, ?_⟩
    split at h
    · cases h
    · cases h
    · rename_i w0 hw0
      split at h
      · cases h
      · cases h
      · rename_i w hs
        split at h
        · cases h
        · rename_i st hst
          split at h
          · cases h
          · rename_i ip hip
            simp only [Outcome.ok.injEq, CfiResult.frame.injEq] at h
            subst h
            refine ⟨w0, w, st, hw0, hs, hst, ?_, rfl, rfl, hip⟩
            intro hnil
            rw [hnil] at hst
            simp only [stripAll, Outcome.ok.injEq] at hst
            exact hst.symm

/-! ## 5. the stack-walk model's CFI step runs THIS walker -/

/-- **`walkcfi_uses_cfiwalker`.** The walker model of C03/C04/C05 (`MdModel.Walk.Cfi`: `CfiIn` /
    `CfiOut`, hand-written register tables) has the `CfiStackWalker` built in. For every
    architecture, callee context (validity set naming registers of the type, 64-bit values), stack
    memory, caller state `o0`, lookup address and module base, let `cw = cwOf x o0 instr modBase` be
    the REAL walker (`MdModel.CfiWalker`, C18's translated tables) of that frame and
    `W = toWalker cw (fwdOf x.arch o0)` its C06 record. Then
    1. `W` is related to the walker-model frame by the bridge's simulation relation, and the two
       initial caller states are related at every register — so every theorem of
       `MdProofs.C06Walk` holds with the real walker's record in the place of `walkerOf`;
    2. `SymbolFile::walk_frame` of the walker model (`walkFrameCfi`, through its own range table) is
       C06's `walkFrame` run with the real walker's record (`walkFrame_eq_c06` at `W`);
    3. (little-endian stack memory; the real walker's big-endian reads are modelled and tied, the
       walk-level bridge `walkCfiReal_bridge` is proved for little-endian memory)
       `walk_with_stack_cfi` of the walker model and `walkCfiReal cw` — the same rule lines on the
       real walker — fail together and, when they succeed, report every register of the context type
       alike: the same value, or unknown on both sides. -/
theorem walkcfi_uses_cfiwalker (x : Walk.CfiIn) (o0 : Walk.CfiOut) (instr modBase : Nat)
    (hvalid : ValidWf x.arch x.callee) (h64 : ∀ n v, x.reg n = some v → v < 2 ^ 64)
    (ho64 : ∀ s, o0.valid.contains s = true → rawC x.arch o0.ctx s < 2 ^ 64) :
    let cw := cwOf x o0 instr modBase
    let W := toWalker cw (fwdOf x.arch o0)
    (WalkerSim x W ∧ W.instr = instr ∧ ∀ s, OutSimAt x.arch o0 W.caller0 s) ∧
    (∀ (sf : Walk.SymFile) (i : Nat) (rec : Walk.CfiRec), ¬ instr < modBase →
        RangeMap.get (Walk.cfiTable sf) (instr - modBase) = some i → sf.cfis[i]? = some rec →
        match Cfi.walkFrame (recOf rec) modBase W with
        | none => Walk.walkFrameCfi sf (Walk.cfiTable sf) modBase x o0 instr = none
        | some _ => ∃ o, Walk.walkFrameCfi sf (Walk.cfiTable sf) modBase x o0 instr = some o) ∧
    (∀ (init : String) (adds : List String), x.mem.be = false →
        match Walk.walkCfi x o0 init adds with
        | none => ∃ w', walkCfiReal cw ((init :: adds).map utf8) = .ok (false, w')
        | some o => ∃ w', walkCfiReal cw ((init :: adds).map utf8) = .ok (true, w') ∧
            ∀ s ∈ registers cw.cpu.tbl, viewW x.arch o s = callerView w' s) := by
  intro cw W
  have hsim : WalkerSim x W := cwOf_sim x o0 instr modBase _ hvalid h64
  have hout : ∀ s, OutSimAt x.arch o0 W.caller0 s := fun s => fwdOf_related x.arch o0 s (ho64 s)
  refine ⟨⟨hsim, rfl, hout⟩, ?_, ?_⟩
  · intro sf i rec hlt hget hrec
    have hb := (walkFrame_eq_c06 sf modBase x o0 W hsim).2.2 i rec hlt hget hrec
    cases hc : Cfi.walkFrame (recOf rec) modBase W with
    | none => rw [hc] at hb; exact hb
    | some c =>
      rw [hc] at hb
      obtain ⟨_, _, o, _, _, _, ho, _⟩ := hb
      exact ⟨o, ho⟩
  · intro init adds hle
    have hb := walkCfi_eq_c06 x W hsim o0 init adds
    have hwf : validityWf cw.cpu.tbl cw.calleeValidity = true := cwOf_validityWf x o0 instr modBase hvalid
    have hr := walkCfiReal_bridge cw (fwdOf x.arch o0) hwf hle ((init :: adds).map utf8)
    cases hc : Cfi.walkCfi W ((init :: adds).map utf8) with
    | none =>
      rw [hc] at hb hr
      rw [hb]
      obtain ⟨st, vs, e⟩ := hr
      exact ⟨_, e⟩
    | some c =>
      rw [hc] at hb hr
      obtain ⟨cfa, ra, o, c1, h1, h2, ho, hc1, _, _, hsim1⟩ := hb
      obtain ⟨cfa', ra', st, vs, c2, h1', h2', hw, hc2, _, _, hsim2⟩ := hr
      rw [h1] at h1'; cases h1'
      rw [h2] at h2'; cases h2'
      rw [ho]
      refine ⟨_, hw, ?_⟩
      intro s hs
      -- both seeded C06 runs are the same run
      have hseed : toWalker cw (seededFwd cw (fwdOf x.arch o0) cfa ra) = seeded x.arch W cfa ra := by
        unfold seeded seededFwd seedFwd
        rw [arch_spName, arch_ipName]
        rfl
      rw [hseed] at hc2
      rw [hc1] at hc2
      cases hc2
      have i1 : OutSimAt x.arch o c1 s := hsim1 s (.inr (.inr (hout s)))
      have i2 : CallerSim (cw.withCaller st vs) c1 s := by
        apply hsim2 s hs
        right; right
        unfold CallerSim
        rw [callerView_cwOf x o0 instr modBase hs]
        exact hout s
      unfold OutSimAt at i1
      unfold CallerSim at i2
      rw [← i1, i2]

/-! ## non-vacuity: concrete instances of every hypothesis set, both sides computed -/

/-- ARM64 callee: `sp = 0x1000`, `pc = 0x400010`, `x29 = 0x1010`, `x19 = 7`; the validity set holds the
    frame pointer under its ALIAS `x29`; 32 bytes of stack with a saved frame pointer (`0x2040` at
    `0x1010`) and a return address (`0x401234` at `0x1018`) -/
def exSt : Regs.State :=
  (((Regs.State.zero.write ⟨"sp", none⟩ 0x1000).write ⟨"pc", none⟩ 0x400010).write ⟨"iregs", some 29⟩ 0x1010).write
    ⟨"iregs", some 19⟩ 7

def exArgs : Args :=
  { kind := .arm64, ctx := exSt, valid := .some ["sp", "pc", "x29", "x19"], instruction := 0x400010,
    isContext := true, grand := none, modules := [{ base := 0x400000, size := 0x10000, name := "m" }],
    stack := { base := 0x1000, bigEndian := false,
               bytes := [0,0,0,0,0,0,0,0, 0,0,0,0,0,0,0,0, 0x40,0x20,0,0,0,0,0,0, 0x34,0x12,0x40,0,0,0,0,0] } }

/-- the walker `from_ctx_and_args` builds for it -/
def exW : CfiStackWalker :=
  { cpu := .ctx .ARM64, instruction := 0x400010, hasGrandCallee := false, grandCalleeParameterSize := 0,
    calleeCtx := exSt, calleeValidity := .some ["sp", "pc", "x29", "x19"],
    callerCtx := exSt, callerValidity := ["x19", "fp"], moduleBase := 0x400000, stack := exArgs.stack }

/-- the hypotheses of `walker_refines_c06` / `real_*` hold of it -/
theorem exW_wf : Wf exW := ⟨by decide +kernel, rfl⟩

-- `forwarded_regs_spec` / `forwarded_walker`: `fp` is forwarded although the set says `x29` (F28)
example : validityWf exArgs.kind.rawCtx exArgs.valid = true := by decide +kernel
example : calleeForwardedRegs .arm64 exArgs.valid = .ok ["x19", "fp"] := by decide +kernel
example : (match fromCtxAndArgs exArgs with
           | .ok (some w) => some (w.callerValidity, callerView w "fp", callerView w "x19", callerView w "x20")
           | _ => none) = some (["x19", "fp"], some 0x1010, some 7, none) := by decide +kernel
-- x86: the literal test; a register that is valid but not callee-saved is not forwarded
example : calleeForwardedRegs .x86 (.some ["esp", "eax", "esi"]) = .ok ["esi"] := by decide +kernel

-- reads through aliases, validity honoured (both names of the frame pointer, an invalid register,
-- an unknown name, a `$`-prefixed spelling)
example : exW.getCalleeRegister "fp" = .ok (some 0x1010) ∧ exW.getCalleeRegister "x29" = .ok (some 0x1010) ∧
    exW.getCalleeRegister "x20" = .ok none ∧ exW.getCalleeRegister "nosuch" = .ok none ∧
    exW.getCalleeRegister "$sp" = .ok none := by decide +kernel

/-- `walk_with_stack_cfi` on the real walker: the CFA from `sp`, the return address from the stack,
    the frame pointer restored through its ALIAS `x29`, the forwarded `x19` cleared by `.undef` -/
def exRule : Cfi.Bytes := ".cfa: sp 32 + .ra: .cfa 8 - ^ x29: .cfa 16 - ^ x19: .undef".toUTF8.data.toList

example : (match walkCfiReal exW [exRule] with
           | .ok (b, w') => some (b, callerView w' "sp", callerView w' "pc", callerView w' "fp", callerView w' "x19")
           | .panic _ => none) = some (true, some 0x1020, some 0x401234, some 0x2040, none) := by decide +kernel

/-- the same through `real_reg_set_or_unknown`: the hypotheses are satisfiable and the conclusion is
    about a walk that succeeds -/
example : ∃ w', walkCfiReal exW [exRule] = .ok (true, w') ∧ callerView w' "fp" = some 0x2040 := by
  obtain ⟨b, st, vs, hw⟩ := real_no_panic exW exW_wf [exRule]
  have hb : (match walkCfiReal exW [exRule] with | .ok (b, _) => b | .panic _ => false) = true := by decide +kernel
  rw [hw] at hb
  simp only at hb
  subst hb
  refine ⟨_, hw, ?_⟩
  have hv : (match walkCfiReal exW [exRule] with | .ok (_, w') => callerView w' "fp" | .panic _ => none) = some 0x2040 := by
    decide +kernel
  rw [hw] at hv
  exact hv

/-- a 32-bit walker: a rule whose value does not fit the register CLEARS the forwarded register
    (F8b / fix 15b778b), `$`-prefixed labels as x86 symbol files write them -/
def exX86 : CfiStackWalker :=
  { cpu := .ctx .X86, instruction := 0x400010, hasGrandCallee := false, grandCalleeParameterSize := 0,
    calleeCtx := (Regs.State.zero.write ⟨"esp", none⟩ 0x1000).write ⟨"esi", none⟩ 5,
    calleeValidity := .all,
    callerCtx := (Regs.State.zero.write ⟨"esp", none⟩ 0x1000).write ⟨"esi", none⟩ 5,
    callerValidity := ["ebp", "ebx", "edi", "esi"], moduleBase := 0x400000,
    stack := { base := 0x1000, bytes := [], bigEndian := false } }

example : Wf exX86 := ⟨rfl, rfl⟩

example : (match walkCfiReal exX86 [".cfa: $esp 24 + .ra: 1073750224 $esi: 4294967296".toUTF8.data.toList] with
           | .ok (b, w') => some (b, callerView w' "esp", callerView w' "eip", callerView w' "esi", callerView w' "edi")
           | .panic _ => none) = some (true, some 0x1018, some 1073750224, none, some 0) := by decide +kernel

-- C07 on the real x86 walker: `$ebx` clears nothing, `ebx` clears `ebx`
example : (match exX86.clearCallerRegister "$ebx" with | .ok w' => w'.callerValidity | .panic _ => []) =
    ["ebp", "ebx", "edi", "esi"] := by decide +kernel
example : (match exX86.clearCallerRegister "ebx" with | .ok w' => w'.callerValidity | .panic _ => []) =
    ["ebp", "edi", "esi"] := by decide +kernel
example : ∀ s ∈ Win.x86Regs, WinSim exX86 (Win.Caller.init [("esp", 0x1000), ("esi", 5), ("ebp", 0), ("ebx", 0), ("edi", 0)]
    (fun _ => true)) s := by
  intro s hs
  simp only [Win.x86Regs, List.mem_cons, List.not_mem_nil, or_false] at hs
  rcases hs with rfl | rfl | rfl | rfl | rfl | rfl | rfl | rfl | rfl | rfl <;>
    (constructor <;> decide +kernel)

-- `cfi_frame_spec` / `strip_spec`: the post-processing and the end of `get_caller_frame` on the ARM64
-- frame, with a return address that carries pointer-authentication bits (`0xff…401234`, written as the
-- negative `i64` literal the rule language has for it): the frame's
-- pc is masked to 47 bits (`ptr_auth_strip` without modules above 2^47), `instruction` = pc − 4
-- (the module table of `from_ctx_and_args` is C08's range map, whose sort does not reduce in the
-- kernel: the walker `exW` is the one it builds — see the `fromCtxAndArgs` example above for its fields)
example : (match walkCfiReal exW [".cfa: sp 32 + .ra: -72057594033728972 x29: .cfa 16 - ^".toUTF8.data.toList] with
           | .ok (true, w) =>
             (match stripAll .arm64 w.callerValidity (2 ^ 47 - 1) w.callerCtx (Gen.CfiWalkerConsts.stripRegs .arm64) with
              | .ok st =>
                (match frameTail exArgs { ctx := st, valid := w.callerValidity, instruction := 0 } with
                 | .ok (some f') => some (f'.instruction, f'.valid, rawOf .ARM64 f'.ctx "pc", rawOf .ARM64 f'.ctx "fp")
                 | _ => none)
              | _ => none)
           | _ => none) = some (0x401230, ["x19", "fp", "sp", "pc"], 0x401234, 0x2040) := by decide +kernel
-- the stack-pointer test: without `sp` in the validity set `walk_frame` is never called
example : spTest exArgs = .ok true ∧ spTest { exArgs with valid := .some ["pc", "x29"] } = .ok false := by
  decide +kernel
-- the end of `get_caller_frame`: a nullish instruction pointer / a stack pointer that does not grow
example : (match frameTail exArgs { ctx := exSt, valid := [], instruction := 0 } with
           | .ok (some f) => some f.instruction | _ => none) = some 0x40000c ∧
    (match frameTail { exArgs with isContext := false } { ctx := exSt, valid := [], instruction := 0 } with
     | .ok none => true | _ => false) = true := by decide +kernel

-- `real_order_independent`: two rules for different registers, processed in either order
example : ∀ x ∈ [(utf8 "x19", [[0x31]]), (utf8 "x29", [Cfi.tCfa])], ∀ y ∈ [(utf8 "x19", [[0x31]]), (utf8 "x29", [Cfi.tCfa])],
    labelReg exW x.1 = labelReg exW y.1 → labelReg exW x.1 ≠ none → x = y := by decide +kernel

-- `walkcfi_uses_cfiwalker` on the concrete pair of `MdProofs.C06Walk`
example : ValidWf exIn.arch exIn.callee ∧ (∀ n v, exIn.reg n = some v → v < 2 ^ 64) ∧
    (∀ s, exOut.valid.contains s = true → rawC exIn.arch exOut.ctx s < 2 ^ 64) := by
  refine ⟨trivial, exIn_reg64, ?_⟩
  have : ∀ s ∈ exOut.valid, rawC exIn.arch exOut.ctx s < 2 ^ 64 := by decide
  intro s hs
  exact this s (by simpa using hs)

end MdModel.CfiWalker
