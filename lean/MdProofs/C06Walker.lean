/-
  C06 (and C07's walker interface), for the REAL `FrameWalker`: `CfiStackWalker<C>`.

  C06's theorems (`MdProofs.C06`) are about `walk_with_stack_cfi` running against an abstract
  `Walker` record. The implementation the unwinders hand to it is `CfiStackWalker<C: CpuContext>`
  (minidump-unwind/src/lib.rs:553-655), which maps register NAMES to context cells through
  `memoize_register`, enforces validity, converts `u64` to the CPU's register width with `TryFrom`,
  keeps the caller's validity set and seeds it with `callee_forwarded_regs`. `MdModel.CfiWalker` is
  its model over the machine-translated register tables of C18; this file proves

    walker_refines_c06      the real walker, at any of the ten context types, IS an instance of the
                            abstract `Walker`: names through aliases to one cell (C18
                            `alias_same_cell`), validity honoured (C18 `validity_honoured`),
                            `fits` = the width test, every write with the same effect
    real_*                  hence C06's property text — "the CFA is computed first …, a
                            return-address rule is mandatory, and each other register is set from
                            its rule or marked unknown when its rule fails" — holds of
                            `walk_with_stack_cfi` on the REAL walker, on every CPU
    forwarded_regs_spec     exactly the valid callee-saved registers are forwarded, through aliases
    x86_*                   C07's six-register interface on `CfiStackWalker<CONTEXT_X86>`, incl. what
                            `clear_caller_register("$ebx")` does today (nothing: the known finding
                            C07-clear-dollar-names) and what clearing `ebx` does
    walkcfi_uses_cfiwalker  the CFI step of the stack-walk model (C03/C04/C05) is C06's `walkFrame`
                            run with this walker
-/
import MdProofs.Lemmas.CfiWalkerSim
namespace MdModel.CfiWalker
open MdModel MdModel.Gen.Regs MdModel.Regs MdModel.CfiBridge

/-- The invariants of every walker the unwinders build (and the hypotheses of this file): the
    callee's validity set names only registers or aliases of the context type (C18's hypothesis;
    `foreign_name_in_set_panics` shows it cannot be dropped), and the dump is little-endian (the C06
    record reads memory little-endian; big-endian reads are modelled and tied, not proved about). -/
structure Wf (w : CfiStackWalker) : Prop where
  names : validityWf w.cpu.tbl w.calleeValidity = true
  little : w.stack.bigEndian = false

/-- the register a rule label denotes for the real walker: the label as text, memoised -/
def labelReg (w : CfiStackWalker) (b : Cfi.Name) : Option String := (nameStr b).bind w.cpu.canon

theorem memo_label (w : CfiStackWalker) (fwd : List (Cfi.Name × UInt64)) (b : Cfi.Name) :
    (toWalker w fwd).memo b = (labelReg w b).map utf8 := by
  unfold labelReg
  cases hb : nameStr b with
  | none => rw [memo_toWalker_not_text w fwd b (nameStr_none hb)]; rfl
  | some n => rw [nameStr_some hb, memo_toWalker]; rfl

/-! ## 1. the real walker is an instance of the abstract one -/

/-- **`walker_refines_c06`.** For EVERY real walker `w` — any of the nine context types of
    context.rs or `Mips32Context`, any register file, any validity set of the type's names, any
    little-endian stack image, any module, grand callee and caller state — the C06 record
    `toWalker w` answers everything `walk_with_stack_cfi` asks exactly as `w` does:
    1. names: `memoize_register` never panics; the record's `memo` is its result on every text, and
       `none` on a label that is not text;
    2. aliases denote ONE cell: names with the same canonical name read and write the same storage
       cell (C18 `alias_same_cell`);
    3. reads: `get_callee_register(n)` never panics and is the record's `getCallee`: `None` for an
       unknown name, else the value of the register's cell iff the validity set covers that
       register — under any of its names (C18 `validity_honoured`);
    4. memory: `get_register_at_address` is the record's `readMem`;
    5. `fits` is the width test `C::Register::try_from(u64)`;
    6. writes: one iteration of the loop over the remaining rules (evaluate, `set_caller_register`,
       `clear_caller_register` when the rule or the write fails) never panics, changes only the
       caller half, and leaves every canonical caller register valid-with-the-same-value or unknown
       on both sides if it was so before;
    7. `set_cfa` / `set_ra` are `set_caller_register` under the stack-pointer / instruction-pointer
       name. -/
theorem walker_refines_c06 (w : CfiStackWalker) (h : Wf w) (fwd : List (Cfi.Name × UInt64)) :
    (∀ n : String, w.cpu.memoize n = .ok (w.cpu.canon n) ∧
        (toWalker w fwd).memo (utf8 n) = (w.cpu.canon n).map utf8) ∧
    (∀ b : Cfi.Name, (∀ n : String, b ≠ utf8 n) → (toWalker w fwd).memo b = none) ∧
    (∀ n m r : String, w.cpu.canon n = some r → w.cpu.canon m = some r →
        getCell w.cpu.tbl n = getCell w.cpu.tbl m ∧ calleeView w n = calleeView w m) ∧
    (∀ n : String, w.getCalleeRegister n = .ok (calleeView w n) ∧
        (toWalker w fwd).getCallee (utf8 n) = (calleeView w n).map UInt64.ofNat) ∧
    (∀ a : UInt64, (toWalker w fwd).readMem a = toU64 (w.getRegisterAtAddress a.toNat)) ∧
    (∀ v : UInt64, (toWalker w fwd).fits v = w.cpu.fits v.toNat) ∧
    envOf w = (toWalker w fwd).env ∧
    (∀ (cfa : UInt64) (c : Cfi.Caller) (r : Cfi.Name × Cfi.Expr),
        ∃ st vs, applyOtherReal cfa w r = .ok (w.withCaller st vs) ∧
          ∀ s ∈ registers w.cpu.tbl, CallerSim w c s →
            CallerSim (w.withCaller st vs) (Cfi.applyOther (toWalker w fwd) cfa c r) s) ∧
    (∀ v : Nat, w.setCfa v = w.setCallerRegister w.cpu.spName v ∧
        w.setRa v = w.setCallerRegister w.cpu.ipName v) := by
  refine ⟨fun n => ⟨w.cpu.memoize_eq n, memo_toWalker w fwd n⟩, memo_toWalker_not_text w fwd, ?_,
    fun n => ⟨getCalleeRegister_eq w h.names n, getCallee_toWalker w fwd n⟩,
    readMem_toWalker w fwd h.little, fits_toWalker w fwd, envOf_eq w fwd h.names h.little,
    applyOtherReal_sim w fwd h.names h.little, fun v => ⟨setCfa_eq w v, setRa_eq w v⟩⟩
  intro n m r hn hm
  exact ⟨(canon_cell hn).trans (canon_cell hm).symm, (calleeView_canon w hn).trans (calleeView_canon w hm).symm⟩

/-- the writes, spelled out: what `set_caller_register` and `clear_caller_register` do to the
    frame the unwinder will report — for ANY name (alias, `$`-prefixed, unknown) and any value -/
theorem real_writes (w : CfiStackWalker) (n : String) (v : Nat) :
    (∃ b w', w.setCallerRegister n v = .ok (b, w') ∧
      (b = true ↔ (w.cpu.canon n).isSome = true ∧ v < 2 ^ w.cpu.bits) ∧
      (b = false → w' = w) ∧
      (∀ m, w.cpu.canon n = some m → b = true → ∀ s ∈ registers w.cpu.tbl,
          callerView w' s = if s = m then some v else callerView w s)) ∧
    (∃ w', w.clearCallerRegister n = .ok w' ∧ w'.callerCtx = w.callerCtx ∧
      (w.cpu.canon n = none → w' = w) ∧
      (∀ m, w.cpu.canon n = some m → ∀ s, callerView w' s = if s = m then none else callerView w s)) := by
  constructor
  · rw [setCallerRegister_eq]
    cases hc : w.cpu.canon n with
    | none =>
      refine ⟨false, w, rfl, ?_, fun _ => rfl, ?_⟩
      · simp
      · intro m hm; cases hm
    | some m =>
      by_cases hf : w.cpu.fits v = true
      · have hlt : v < 2 ^ w.cpu.bits := by simpa [Cpu.fits] using hf
        refine ⟨true, w.withCaller (writeOf w.cpu.tbl w.callerCtx n v) (setInsert w.callerValidity m), ?_, ?_, ?_, ?_⟩
        · simp only [hf, if_true]
        · simp only [Option.isSome_some, true_and, true_iff]; exact hlt
        · intro hb; cases hb
        · intro m' hm' _ s hs
          cases hm'
          exact callerView_set w hc hs v
      · have hlt : ¬ v < 2 ^ w.cpu.bits := fun hlt => hf (by simpa [Cpu.fits] using hlt)
        refine ⟨false, w, ?_, ?_, fun _ => rfl, ?_⟩
        · simp [hf]
        · simp only [Option.isSome_some, true_and]
          constructor
          · intro hb; cases hb
          · intro h'; exact absurd h' hlt
        · intro _ _ hb; cases hb
  · rw [clearCallerRegister_eq]
    cases hc : w.cpu.canon n with
    | none =>
      refine ⟨w, rfl, rfl, fun _ => rfl, ?_⟩
      intro m hm; cases hm
    | some m =>
      refine ⟨w.withCaller w.callerCtx (setRemove w.callerValidity m), rfl, rfl, ?_, ?_⟩
      · intro hn; cases hn
      · intro m' hm' s
        cases hm'
        exact callerView_clear w m s

/-! ## 2. C06's guarantees, for `walk_with_stack_cfi` on the real walker -/

/-- the real walker never panics and only its caller half changes, whatever the rule lines -/
theorem real_no_panic (w : CfiStackWalker) (h : Wf w) (lines : List Cfi.Bytes) :
    ∃ b st vs, walkCfiReal w lines = .ok (b, w.withCaller st vs) := by
  have hb := walkCfiReal_bridge w (fwdOfReal w) h.names h.little lines
  cases hc : Cfi.walkCfi (toWalker w (fwdOfReal w)) lines with
  | none => rw [hc] at hb; obtain ⟨st, vs, e⟩ := hb; exact ⟨false, st, vs, e⟩
  | some c =>
    rw [hc] at hb
    obtain ⟨_, _, st, vs, _, _, _, e, _⟩ := hb
    exact ⟨true, st, vs, e⟩

/-- what a successful walk of the real walker consists of, in C06's terms -/
theorem real_some (w : CfiStackWalker) (h : Wf w) (fwd : List (Cfi.Name × UInt64)) (lines : List Cfi.Bytes)
    (w' : CfiStackWalker) (hw : walkCfiReal w lines = .ok (true, w')) :
    ∃ c cfa ra c', Cfi.walkCfi (toWalker w fwd) lines = some c ∧ c.cfa = some cfa ∧ c.ra = some ra ∧
      Cfi.walkCfi (toWalker w (seededFwd w fwd cfa ra)) lines = some c' ∧
      c'.cfa = some cfa ∧ c'.ra = some ra ∧
      (∃ st vs, w' = w.withCaller st vs) ∧
      ∀ s ∈ registers w.cpu.tbl,
        (s = w.cpu.spName ∨ s = w.cpu.ipName ∨ CallerSim w ⟨none, none, fwd⟩ s) → CallerSim w' c' s := by
  have hb := walkCfiReal_bridge w fwd h.names h.little lines
  cases hc : Cfi.walkCfi (toWalker w fwd) lines with
  | none =>
    rw [hc] at hb
    obtain ⟨st, vs, e⟩ := hb
    rw [e] at hw; cases hw
  | some c =>
    rw [hc] at hb
    obtain ⟨cfa, ra, st, vs, c', h1, h2, h3, h4, h5, h6, h7⟩ := hb
    rw [h3] at hw
    cases hw
    exact ⟨c, cfa, ra, c', rfl, h1, h2, h4, h5, h6, ⟨st, vs, rfl⟩, h7⟩

/-- **`real_cfa_first`** (C06.5a on the real walker) — "the CFA is computed first": when
    `walk_with_stack_cfi` succeeds on the real walker, the lines parse into a map with a `.cfa` and
    a `.ra` rule; the CFA is the `.cfa` rule evaluated — against the real walker's registers and
    memory — with NO CFA available, the return address the `.ra` rule evaluated with that CFA;
    both fit the register width; and they are what the caller's stack pointer and instruction
    pointer hold unless a later rule names those registers. -/
theorem real_cfa_first (w : CfiStackWalker) (h : Wf w) (lines : List Cfi.Bytes) (w' : CfiStackWalker)
    (hw : walkCfiReal w lines = .ok (true, w')) :
    ∃ m cfaE raE cfa ra, Cfi.parseAll lines [] = some m ∧ m.get .cfa = some cfaE ∧ m.get .ra = some raE ∧
      Cfi.evalCfi (envOf w) none cfaE = some cfa ∧ Cfi.evalCfi (envOf w) (some cfa) raE = some ra ∧
      cfa.toNat < 2 ^ w.cpu.bits ∧ ra.toNat < 2 ^ w.cpu.bits ∧
      ((∀ q ∈ Cfi.others m, labelReg w q.1 ≠ some w.cpu.spName) → callerView w' w.cpu.spName = some cfa.toNat) ∧
      ((∀ q ∈ Cfi.others m, labelReg w q.1 ≠ some w.cpu.ipName) → callerView w' w.cpu.ipName = some ra.toNat) := by
  obtain ⟨c, cfa0, ra0, c', hc, hcfa, hra, hc', hcfa', _, _, hsim⟩ := real_some w h (fwdOfReal w) lines w' hw
  obtain ⟨m, cfaE, raE, cfa, ra, h1, h2, h3, h4, h5, h6, h7, rfl⟩ := (Cfi.walkCfi_some_iff _ _ c).mp hc
  have e1 : cfa0 = cfa := by
    have := (Cfi.foldl_applyOther_cfa_ra (toWalker w (fwdOfReal w)) cfa (Cfi.sortOthers (Cfi.others m)) ⟨some cfa, some ra, (toWalker w (fwdOfReal w)).fwd⟩).1
    rw [this] at hcfa; cases hcfa; rfl
  have e2 : ra0 = ra := by
    have := (Cfi.foldl_applyOther_cfa_ra (toWalker w (fwdOfReal w)) cfa (Cfi.sortOthers (Cfi.others m)) ⟨some cfa, some ra, (toWalker w (fwdOfReal w)).fwd⟩).2
    rw [this] at hra; cases hra; rfl
  subst e1; subst e2
  rw [← envOf_eq w (fwdOfReal w) h.names h.little] at h4 h5
  rw [fits_toWalker] at h6 h7
  obtain ⟨m2, cfa2, hm2, hcfa2, _, hfwd⟩ := Cfi.reg_set_or_unknown _ _ c' hc'
  rw [h1] at hm2; cases hm2
  refine ⟨m, cfaE, raE, cfa0, ra0, h1, h2, h3, h4, h5, by simpa [Cpu.fits] using h6, by simpa [Cpu.fits] using h7, ?_, ?_⟩
  · intro hno
    have := hsim w.cpu.spName (sp_known w.cpu).1 (.inl rfl)
    unfold CallerSim at this
    rw [← this, hfwd (utf8 w.cpu.spName) (fun q hq e => hno q hq (by
      rw [memo_label] at e
      exact (map_utf8_eq_some _ _).mp e))]
    show Option.map UInt64.toNat (Cfi.lookupName (seededFwd w (fwdOfReal w) cfa0 ra0) (utf8 w.cpu.spName)) = _
    unfold seededFwd
    rw [lookup_storeCfaRa]
    simp [(sp_known w.cpu).2.2]
  · intro hno
    have := hsim w.cpu.ipName (sp_known w.cpu).2.1 (.inr (.inl rfl))
    unfold CallerSim at this
    rw [← this, hfwd (utf8 w.cpu.ipName) (fun q hq e => hno q hq (by
      rw [memo_label] at e
      exact (map_utf8_eq_some _ _).mp e))]
    show Option.map UInt64.toNat (Cfi.lookupName (seededFwd w (fwdOfReal w) cfa0 ra0) (utf8 w.cpu.ipName)) = _
    unfold seededFwd
    rw [lookup_storeCfaRa]
    simp

/-- **`real_ra_mandatory`** (C06.5b/c on the real walker) — without a `.ra` rule, or a `.cfa` rule,
    or with a `.cfa` rule that mentions `.cfa`, or when either fails to evaluate against the real
    walker, or when a line does not parse: `walk_with_stack_cfi` on the real walker returns `None`
    (and does not panic) — whatever the other rules are. -/
theorem real_ra_mandatory (w : CfiStackWalker) (h : Wf w) (lines : List Cfi.Bytes) :
    (Cfi.parseAll lines [] = none → ∃ w', walkCfiReal w lines = .ok (false, w')) ∧
    (∀ m, Cfi.parseAll lines [] = some m →
      (m.get .ra = none → ∃ w', walkCfiReal w lines = .ok (false, w')) ∧
      (m.get .cfa = none → ∃ w', walkCfiReal w lines = .ok (false, w')) ∧
      (∀ cfaE, m.get .cfa = some cfaE → Cfi.tCfa ∈ cfaE → ∃ w', walkCfiReal w lines = .ok (false, w')) ∧
      (∀ cfaE, m.get .cfa = some cfaE → Cfi.evalCfi (envOf w) none cfaE = none →
          ∃ w', walkCfiReal w lines = .ok (false, w')) ∧
      (∀ cfaE raE cfa, m.get .cfa = some cfaE → m.get .ra = some raE →
          Cfi.evalCfi (envOf w) none cfaE = some cfa → Cfi.evalCfi (envOf w) (some cfa) raE = none →
          ∃ w', walkCfiReal w lines = .ok (false, w'))) := by
  have hb := walkCfiReal_bridge w (fwdOfReal w) h.names h.little lines
  have key : Cfi.walkCfi (toWalker w (fwdOfReal w)) lines = none → ∃ w', walkCfiReal w lines = .ok (false, w') := by
    intro hc; rw [hc] at hb; obtain ⟨st, vs, e⟩ := hb; exact ⟨_, e⟩
  have henv := envOf_eq w (fwdOfReal w) h.names h.little
  refine ⟨fun hp => key (Cfi.parse_failure_fails _ _ hp), fun m hm => ⟨?_, ?_, ?_, ?_, ?_⟩⟩
  · exact fun hr => key ((Cfi.ra_mandatory _ _ m hm).1 hr)
  · exact fun hc => key ((Cfi.ra_mandatory _ _ m hm).2.1 hc)
  · exact fun cfaE hc hself => key (Cfi.cfa_no_self _ _ m cfaE hm hc hself)
  · intro cfaE hc he; rw [henv] at he; exact key ((Cfi.ra_mandatory _ _ m hm).2.2.1 cfaE hc he)
  · intro cfaE raE cfa hc hr h1 h2
    rw [henv] at h1 h2
    exact key ((Cfi.ra_mandatory _ _ m hm).2.2.2 cfaE raE cfa hc hr h1 h2)

/-- **`real_reg_set_or_unknown`** (C06.6 on the real walker) — "each other register is set from its
    rule or marked unknown when its rule fails", for the frame `w'` the real walker holds after a
    successful `walk_with_stack_cfi`. With `m` the rule map and `cfa`/`ra` the computed CFA and
    return address, for every register `s` of the context type (canonical name):
    * if `p` is the one remaining rule whose label denotes `s` — directly, through an alias
      (`x29` for `fp`) or `$`-prefixed in the symbol file — `s` is valid in the caller with the
      rule's value when the rule evaluates (against the real walker, CFA available) and the value
      fits the CPU's register width, and UNKNOWN otherwise — even if the callee's value had been
      forwarded (this is where the defects F8, F8b lived);
    * if no remaining rule's label denotes `s`: the instruction pointer holds the return address,
      the stack pointer the CFA, any other register what was forwarded from the callee. -/
theorem real_reg_set_or_unknown (w : CfiStackWalker) (h : Wf w) (lines : List Cfi.Bytes) (w' : CfiStackWalker)
    (hw : walkCfiReal w lines = .ok (true, w'))
    (h64 : ∀ s, w.callerValidity.contains s = true → rawOf w.cpu.tbl w.callerCtx s < 2 ^ 64) :
    ∃ m cfaE raE cfa ra, Cfi.parseAll lines [] = some m ∧ m.get .cfa = some cfaE ∧ m.get .ra = some raE ∧
      Cfi.evalCfi (envOf w) none cfaE = some cfa ∧ Cfi.evalCfi (envOf w) (some cfa) raE = some ra ∧
      (∀ s ∈ registers w.cpu.tbl, ∀ p ∈ Cfi.others m, labelReg w p.1 = some s →
          (∀ q ∈ Cfi.others m, labelReg w q.1 = some s → q = p) →
          callerView w' s = match Cfi.evalCfi (envOf w) (some cfa) p.2 with
                            | some v => if v.toNat < 2 ^ w.cpu.bits then some v.toNat else none
                            | none => none) ∧
      (∀ s ∈ registers w.cpu.tbl, (∀ q ∈ Cfi.others m, labelReg w q.1 ≠ some s) →
          callerView w' s = if s = w.cpu.ipName then some ra.toNat
                            else if s = w.cpu.spName then some cfa.toNat
                            else callerView w s) := by
  obtain ⟨c, cfa0, ra0, c', hc, hcfa, hra, hc', hcfa', _, _, hsim⟩ := real_some w h (fwdOfReal w) lines w' hw
  obtain ⟨m, cfaE, raE, cfa, ra, h1, h2, h3, h4, h5, _, _, rfl⟩ := (Cfi.walkCfi_some_iff _ _ c).mp hc
  have e1 : cfa0 = cfa := by
    have := (Cfi.foldl_applyOther_cfa_ra (toWalker w (fwdOfReal w)) cfa (Cfi.sortOthers (Cfi.others m)) ⟨some cfa, some ra, (toWalker w (fwdOfReal w)).fwd⟩).1
    rw [this] at hcfa; cases hcfa; rfl
  have e2 : ra0 = ra := by
    have := (Cfi.foldl_applyOther_cfa_ra (toWalker w (fwdOfReal w)) cfa (Cfi.sortOthers (Cfi.others m)) ⟨some cfa, some ra, (toWalker w (fwdOfReal w)).fwd⟩).2
    rw [this] at hra; cases hra; rfl
  subst e1; subst e2
  have henv := envOf_eq w (fwdOfReal w) h.names h.little
  have henv' : envOf w = (toWalker w (seededFwd w (fwdOfReal w) cfa0 ra0)).env :=
    envOf_eq w _ h.names h.little
  obtain ⟨m2, cfa2, hm2, hcfa2, hset, hfwd⟩ := Cfi.reg_set_or_unknown _ _ c' hc'
  rw [h1] at hm2; cases hm2
  rw [hcfa'] at hcfa2; cases hcfa2
  have hrel : ∀ s ∈ registers w.cpu.tbl, CallerSim w' c' s := fun s hs =>
    hsim s hs (.inr (.inr (fwdOfReal_sim w s (h64 s))))
  refine ⟨m, cfaE, raE, cfa0, ra0, h1, h2, h3, henv ▸ h4, henv ▸ h5, ?_, ?_⟩
  · intro s hs p hp hlab huniq
    have := hrel s hs
    unfold CallerSim at this
    rw [← this, hset (utf8 s) p hp (by rw [memo_label, hlab]; rfl)
      (fun q hq e => huniq q hq (by rw [memo_label] at e; exact (map_utf8_eq_some _ _).mp e))]
    rw [← henv']
    cases Cfi.evalCfi (envOf w) (some cfa0) p.2 with
    | none => rfl
    | some v =>
      simp only [fits_toWalker, Cpu.fits]
      by_cases hf : v.toNat < 2 ^ w.cpu.bits <;> simp [hf]
  · intro s hs hno
    have := hrel s hs
    unfold CallerSim at this
    rw [← this, hfwd (utf8 s) (fun q hq e => hno q hq (by rw [memo_label] at e; exact (map_utf8_eq_some _ _).mp e))]
    show Option.map UInt64.toNat (Cfi.lookupName (seededFwd w (fwdOfReal w) cfa0 ra0) (utf8 s)) = _
    unfold seededFwd
    rw [lookup_storeCfaRa]
    by_cases hi : s = w.cpu.ipName
    · rw [if_pos hi, if_pos hi]; rfl
    · by_cases hp : s = w.cpu.spName
      · rw [if_neg hi, if_pos hp, if_neg hi, if_pos hp]; rfl
      · rw [if_neg hi, if_neg hp, if_neg hi, if_neg hp]
        exact fwdOfReal_sim w s (h64 s)

/-- **`real_order_independent`** (C06.7 on the real walker) — if no two labels denote the same
    register, processing the remaining rules in ANY order (any permutation of the hash map's
    entries) leaves every register of the real walker's caller with the same value-or-unknown. -/
theorem real_order_independent (w : CfiStackWalker) (h : Wf w) (cfa : UInt64)
    (l₁ l₂ : List (Cfi.Name × Cfi.Expr)) (hperm : l₁.Perm l₂)
    (hdistinct : ∀ x ∈ l₁, ∀ y ∈ l₁, labelReg w x.1 = labelReg w y.1 → labelReg w x.1 ≠ none → x = y)
    (s : String) (hs : s ∈ registers w.cpu.tbl)
    (h64 : w.callerValidity.contains s = true → rawOf w.cpu.tbl w.callerCtx s < 2 ^ 64) :
    ∃ w₁ w₂, foldReal cfa l₁ w = .ok w₁ ∧ foldReal cfa l₂ w = .ok w₂ ∧ callerView w₁ s = callerView w₂ s := by
  obtain ⟨st1, vs1, hf1, hs1⟩ := foldReal_sim w (fwdOfReal w) h.names h.little cfa l₁ w.callerCtx w.callerValidity ⟨none, none, fwdOfReal w⟩
  obtain ⟨st2, vs2, hf2, hs2⟩ := foldReal_sim w (fwdOfReal w) h.names h.little cfa l₂ w.callerCtx w.callerValidity ⟨none, none, fwdOfReal w⟩
  rw [withCaller_self] at hf1 hf2 hs1 hs2
  refine ⟨_, _, hf1, hf2, ?_⟩
  have r1 := hs1 s hs (fwdOfReal_sim w s h64)
  have r2 := hs2 s hs (fwdOfReal_sim w s h64)
  unfold CallerSim at r1 r2
  rw [← r1, ← r2]
  have hd : ∀ a ∈ l₁, ∀ b ∈ l₁, (toWalker w (fwdOfReal w)).memo a.1 = (toWalker w (fwdOfReal w)).memo b.1 →
      (toWalker w (fwdOfReal w)).memo a.1 ≠ none → a = b := by
    intro a ha b hb hab hne
    rw [memo_label, memo_label] at hab
    rw [memo_label] at hne
    apply hdistinct a ha b hb
    · cases ha' : labelReg w a.1 with
      | none => rw [ha'] at hne; exact absurd rfl hne
      | some x =>
        cases hb' : labelReg w b.1 with
        | none => rw [ha', hb'] at hab; cases hab
        | some y =>
          rw [ha', hb'] at hab
          simp only [Option.map_some, Option.some.injEq] at hab
          rw [utf8_inj hab]
    · intro e; rw [e] at hne; exact hne rfl
  exact congrArg (Option.map UInt64.toNat)
    ((Cfi.order_independent (toWalker w (fwdOfReal w)) cfa l₁ l₂ ⟨none, none, fwdOfReal w⟩ hperm hd).2.2 (utf8 s))

end MdModel.CfiWalker
