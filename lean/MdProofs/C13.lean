/-
  C13 — Processing is deterministic and independent of scheduling.

  Property text: "Processing the same minidump with the same symbols always yields byte-identical
  JSON and text reports, across repeated runs and regardless of the order and timing in which the
  symbol requests of the concurrently walked threads complete."

  Two sources can make two runs of one input differ: (a) the per-process random iteration order
  of `HashMap`/`HashSet` ("repeated runs": fresh hash seeds), (b) the order in which the
  concurrently walked threads' symbol requests complete ("order and timing"). Every place of the
  report pipeline where such an order is consumed is modelled in `MdModel.Det` with the order as an
  explicit parameter — an ARBITRARY permutation of the container's entries, an ARBITRARY completion
  order — and the theorems below state that the produced piece of the report does not depend on
  it, for containers of any size:

    §1 `limits_render_perm`          `"proc_limits"` of the JSON report            (source a)
    §2 `cfi_rules_order_free`        caller registers recovered by STACK CFI rules  (source a)
    §3 `join_by_index`, `threads_schedule_free`   `threads` of the report           (source b)
    §4 `json_registers_order_free`   registers of a frame, text and JSON            (source a)
    §5 `stats_order_free`            per-module symbol statistics of the JSON report (source b)
    §6 `cert_order_free`             module certificates taken from the evil JSON   (source a)

  For each, the NEGATION for the order-consuming variant (the code before its `fix:` commit, or
  the mutation the check must catch) is proved with a concrete witness, so the theorems are not
  vacuous and document what the repairs repaired. §5 needs a hypothesis — modules with one file
  leaf name have one symbol outcome — and `stats_order_dependent` proves that without it the
  report DOES depend on the completion order: that is the genuine residual defect F16
  (`known_findings.d/C13.json`), reproduced on the real code by engine `det`. §6 was a second
  defect found by this check (a dual-signed module's `cert_subject` depended on the hash seed,
  `cert_unsorted_order_dependent`), repaired by fix 2943e9c; `cert_order_free` is unconditional.

  The models are the ones the compiled driver executes; engine `det` compares them on every run
  with the real renderer / walker / processor, fed with the REAL iteration orders of the real
  containers and the REAL completion order of the supplier calls.
-/
import MdProofs.Lemmas.Det
import MdProofs.Lemmas.DetCfi
import MdProofs.C12
namespace MdModel.Det
open MdModel MdModel.Gen.Regs

/-! ASCII names used by the witnesses (byte strings) -/
abbrev nCpu : List Nat := [77, 97, 120, 32, 99, 112, 117, 32, 116, 105, 109, 101]  -- "Max cpu time"
abbrev nFiles : List Nat := [77, 97, 120, 32, 111, 112, 101, 110, 32, 102, 105, 108, 101, 115]  -- "Max open files"
abbrev nFp : List Nat := [102, 112]  -- "fp"
abbrev nX29 : List Nat := [120, 50, 57]  -- "x29"
abbrev nX19 : List Nat := [120, 49, 57]  -- "x19"
abbrev nX20 : List Nat := [120, 50, 48]  -- "x20"
abbrev nSp : List Nat := [115, 112]  -- "sp"
abbrev nPc : List Nat := [112, 99]  -- "pc"
abbrev nX30 : List Nat := [120, 51, 48]  -- "x30"
abbrev nLr : List Nat := [108, 114]  -- "lr"
abbrev nR11 : List Nat := [114, 49, 49]  -- "r11"
abbrev nR13 : List Nat := [114, 49, 51]  -- "r13"
abbrev nR14 : List Nat := [114, 49, 52]  -- "r14"
abbrev nR15 : List Nat := [114, 49, 53]  -- "r15"
abbrev nBogus : List Nat := [98, 111, 103, 117, 115]  -- "bogus"
abbrev nXdll : List Nat := [120, 46, 100, 108, 108]  -- "x.dll"
abbrev nYdll : List Nat := [121, 46, 100, 108, 108]  -- "y.dll"

/-! ## 0. sorting -/

/-- `slice::sort_by` is only assumed to return a sorted permutation of its input: for map entries
    (pairwise distinct keys) every such function agrees with the model's insertion sort. -/
theorem sort_unique {β : Type} (l out : List (List Nat × β)) (nd : (l.map (·.1)).Nodup)
    (hperm : out.Perm l) (hsorted : out.Pairwise (fun a b => keyLe a b = true)) :
    out = isort keyLe l := by
  refine (sorted_perm_unique keyLe ?_ (isort_sorted keyLe (fun a b => lexLe_total a.1 b.1)
    (fun _ _ _ => lexLe_trans) l) hsorted ((isort_perm keyLe l).trans hperm.symm)).symm
  intro a b ha hb h1 h2
  exact eq_of_key_eq nd ((isort_perm keyLe l).mem_iff.1 ha) ((isort_perm keyLe l).mem_iff.1 hb)
    (lexLe_antisymm h1 h2)

/-- non-vacuity of `sort_unique`'s hypotheses: a sorted arrangement of a two-entry map. -/
example :
    let l : List (List Nat × Nat) := [(nFiles, 1024), (nCpu, 0)]
    let out : List (List Nat × Nat) := [(nCpu, 0), (nFiles, 1024)]
    (l.map (·.1)).Nodup ∧ out.Pairwise (fun a b => keyLe a b = true) ∧ out = isort keyLe l := by
  decide

/-! ## 1. "byte-identical JSON … across repeated runs": the `/proc/limits` section -/

/-- **C13.1** `limits_render_perm`: the `"limits"` array is the same for every iteration order of
    the `HashMap` (`iter'` is any permutation of `iter`; keys of a map are pairwise distinct). -/
theorem limits_render_perm {β γ : Type} (json : LimitEntry β → γ) (iter iter' : List (LimitEntry β))
    (nd : (iter.map (·.1)).Nodup) (hp : iter.Perm iter') :
    renderLimits json iter' = renderLimits json iter := by
  unfold renderLimits
  rw [isort_keyLe_perm nd hp]

/-- what the array is: the entries in ascending name order (a permutation of the map, sorted) -/
theorem limits_render_sorted {β : Type} (iter : List (LimitEntry β)) :
    (isort keyLe iter).Perm iter ∧ (isort keyLe iter).Pairwise (fun a b => lexLe a.1 b.1 = true) :=
  ⟨isort_perm keyLe iter,
   isort_sorted keyLe (fun a b => lexLe_total a.1 b.1) (fun _ _ _ => lexLe_trans) iter⟩

/-- the renderer before fix 55811f9 (F14) DID depend on the iteration order: two limits suffice. -/
theorem limits_unsorted_order_dependent :
    ∃ iter iter' : List (LimitEntry Nat), (iter.map (·.1)).Nodup ∧ iter.Perm iter' ∧
      renderLimitsUnsorted id iter' ≠ renderLimitsUnsorted id iter :=
  ⟨[(nCpu, 0), (nFiles, 1024)], [(nFiles, 1024), (nCpu, 0)],
   by decide, List.Perm.swap _ _ _, by decide⟩

/-- non-vacuity of `limits_render_perm` on that witness: both orders render alike, sorted. -/
example :
    renderLimits id [(nFiles, 1024), (nCpu, 0)] = renderLimits id [(nCpu, 0), (nFiles, 1024)] ∧
    renderLimits id [(nFiles, 1024), (nCpu, 0)] = [(nCpu, 0), (nFiles, 1024)] := by
  decide

/-! ## 2. "across repeated runs": registers recovered by the remaining STACK CFI rules -/

/-- **C13.2** `cfi_rules_order_free`: the caller register file after the remaining-register loop is
    the same for every iteration order of the rule map — for EVERY label table `W.canon` (any
    function from labels to registers: every alias relation, equivalence or not) and with NO
    hypothesis on aliasing: two labels may denote one register (`fp`/`x29`, `r11`/`fp`, `r13`/`sp`
    …); the sort by label makes the later NAME win. -/
theorem cfi_rules_order_free (W : Walker) (s : Regs) (iter iter' : List Rule)
    (nd : (iter.map (·.1)).Nodup) (hp : iter.Perm iter') :
    walkRest W s iter' = walkRest W s iter := by
  unfold walkRest
  rw [isort_keyLe_perm nd hp]

/-- … in particular for the table of each of the nine CPU contexts, as generated from
    minidump/src/context.rs by translators/regs.py (`MdModel.Gen.Regs`, interpreted by
    `MdModel.Regs.memoize`, C18): X86, AMD64, ARM (`r11`/`fp`, `r13`/`sp`, `r14`/`lr`, `r15`/`pc`),
    ARM64 and ARM64_OLD (`x29`/`fp`, `x30`/`lr`), PPC, PPC64, MIPS, SPARC (`o0`…`i7` window names). -/
theorem cfi_rules_order_free_cpu (c : Gen.Regs.Ctx) (s : Regs) (iter iter' : List Rule)
    (nd : (iter.map (·.1)).Nodup) (hp : iter.Perm iter') :
    walkRest (cpu c) s iter' = walkRest (cpu c) s iter :=
  cfi_rules_order_free (cpu c) s iter iter' nd hp

/-- the alias pairs of the generated tables really are aliases in the model (so the statement
    above is not about an alias-free table): canonical register = position in `REGISTERS` -/
example :
    canonCpu .ARM nR11 = some 12 ∧ canonCpu .ARM nFp = some 12 ∧
    canonCpu .ARM nR13 = some 13 ∧ canonCpu .ARM nSp = some 13 ∧
    canonCpu .ARM nR14 = some 14 ∧ canonCpu .ARM nLr = some 14 ∧
    canonCpu .ARM nR15 = some 15 ∧ canonCpu .ARM nPc = some 15 ∧
    canonCpu .ARM64 nX29 = some 29 ∧ canonCpu .ARM64 nFp = some 29 ∧
    canonCpu .ARM64 nX30 = some 30 ∧ canonCpu .ARM64 nLr = some 30 ∧
    canonCpu .ARM64_OLD nX29 = some 29 ∧ canonCpu .ARM64_OLD nFp = some 29 ∧
    canonCpu .ARM64 nR11 = none ∧ canonCpu .X86 nFp = none ∧ canonCpu .MIPS nFp = some 2 := by
  decide +kernel

/-- the loop before fix c84fd4e (F15) depended on the iteration order as soon as two labels alias
    — for ANY table: labels `a ≠ b` of one register, two values the register can hold. -/
theorem cfi_unsorted_order_dependent_of_alias (W : Walker) (a b : List Nat) (r : Nat)
    (ha : W.canon a = some r) (hb : W.canon b = some r) (v w : Nat)
    (hv : W.fits v = true) (hw : W.fits w = true) (hvw : v ≠ w) (s : Regs) :
    walkRestUnsorted W s [(b, some w), (a, some v)] ≠ walkRestUnsorted W s [(a, some v), (b, some w)] := by
  intro h
  have := congrFun h r
  simp [walkRestUnsorted, runRules, applyRule, setReg, ha, hb, hv, hw, upd] at this
  exact hvw this

/-- … and equally with a failing rule (`fp: 5`, `x29: .undef`): valid or unknown. -/
theorem cfi_unsorted_clear_order_dependent_of_alias (W : Walker) (a b : List Nat) (r : Nat)
    (ha : W.canon a = some r) (hb : W.canon b = some r) (v : Nat) (hv : W.fits v = true) (s : Regs) :
    (walkRestUnsorted W s [(b, none), (a, some v)] r).valid ≠
      (walkRestUnsorted W s [(a, some v), (b, none)] r).valid := by
  simp [walkRestUnsorted, runRules, applyRule, setReg, clearReg, ha, hb, hv, upd]

/-- the ARM64 witnesses of F15: `fp: 5` and `x29: 6` leave `fp = 6` or `fp = 5`. -/
theorem cfi_unsorted_alias_order_dependent :
    ∃ (s : Regs) (iter iter' : List Rule), (iter.map (·.1)).Nodup ∧ iter.Perm iter' ∧
      walkRestUnsorted arm64 s iter' ≠ walkRestUnsorted arm64 s iter :=
  ⟨fun _ => ⟨0, false⟩, [(nFp, some 5), (nX29, some 6)], [(nX29, some 6), (nFp, some 5)],
    by decide, List.Perm.swap _ _ _,
    cfi_unsorted_order_dependent_of_alias arm64 nFp nX29 29 (by decide +kernel) (by decide +kernel)
      5 6 (by decide +kernel) (by decide +kernel) (by decide) _⟩

theorem cfi_unsorted_alias_clear_order_dependent :
    ∃ (s : Regs) (iter iter' : List Rule), (iter.map (·.1)).Nodup ∧ iter.Perm iter' ∧
      (walkRestUnsorted arm64 s iter' 29).valid ≠ (walkRestUnsorted arm64 s iter 29).valid :=
  ⟨fun _ => ⟨0, false⟩, [(nFp, some 5), (nX29, none)], [(nX29, none), (nFp, some 5)],
    by decide, List.Perm.swap _ _ _,
    cfi_unsorted_clear_order_dependent_of_alias arm64 nFp nX29 29 (by decide +kernel) (by decide +kernel)
      5 (by decide +kernel) _⟩

/-- the same on 32-bit ARM, for each of its four alias pairs (the inputs of seeded break C13-2a):
    without the sort `r11: 5 fp: 6` (`r13`/`sp`, `r14`/`lr`, `r15`/`pc`) is order dependent. -/
theorem cfi_unsorted_alias_order_dependent_arm :
    ∀ p, p ∈ [(nR11, nFp), (nR13, nSp), (nR14, nLr), (nR15, nPc)] → ∀ s : Regs,
      walkRestUnsorted arm s [(p.2, some 6), (p.1, some 5)] ≠
        walkRestUnsorted arm s [(p.1, some 5), (p.2, some 6)] := by
  intro p hp s
  have hfit5 : arm.fits 5 = true := by decide +kernel
  have hfit6 : arm.fits 6 = true := by decide +kernel
  simp only [List.mem_cons, List.not_mem_nil, or_false] at hp
  rcases hp with rfl | rfl | rfl | rfl
  · exact cfi_unsorted_order_dependent_of_alias arm nR11 nFp 12 (by decide +kernel) (by decide +kernel) 5 6 hfit5 hfit6 (by decide) s
  · exact cfi_unsorted_order_dependent_of_alias arm nR13 nSp 13 (by decide +kernel) (by decide +kernel) 5 6 hfit5 hfit6 (by decide) s
  · exact cfi_unsorted_order_dependent_of_alias arm nR14 nLr 14 (by decide +kernel) (by decide +kernel) 5 6 hfit5 hfit6 (by decide) s
  · exact cfi_unsorted_order_dependent_of_alias arm nR15 nPc 15 (by decide +kernel) (by decide +kernel) 5 6 hfit5 hfit6 (by decide) s

/-- non-vacuity: on the aliased witnesses the current loop gives the value of the label that sorts
    LAST in both orders (`x29` after `fp` on ARM64; `r11` after `fp` on ARM), and a value a 32-bit
    register cannot hold clears it (F25). -/
example :
    walkRest arm64 (fun _ => ⟨0, false⟩) [(nX29, some 6), (nFp, some 5)] 29 = ⟨6, true⟩ ∧
    walkRest arm64 (fun _ => ⟨0, false⟩) [(nFp, some 5), (nX29, some 6)] 29 = ⟨6, true⟩ ∧
    walkRest arm (fun _ => ⟨0, false⟩) [(nR11, some 5), (nFp, some 6)] 12 = ⟨5, true⟩ ∧
    walkRest arm (fun _ => ⟨0, false⟩) [(nFp, some 6), (nR11, some 5)] 12 = ⟨5, true⟩ ∧
    walkRest arm (fun _ => ⟨7, true⟩) [(nFp, some 6), (nR11, some (2 ^ 32))] 12 = ⟨6, false⟩ := by
  decide +kernel

/-- two rules commute when they do not hit the same register -/
theorem applyRule_comm (W : Walker) (s : Regs) (a b : Rule)
    (h : W.canon a.1 ≠ W.canon b.1 ∨ W.canon a.1 = none) :
    applyRule W (applyRule W s a) b = applyRule W (applyRule W s b) a := by
  obtain ⟨la, va⟩ := a
  obtain ⟨lb, vb⟩ := b
  simp only at h
  funext j
  cases hca : W.canon la with
  | none => cases va <;> cases vb <;> simp [applyRule, setReg, clearReg, hca]
  | some ra =>
    cases hcb : W.canon lb with
    | none => cases va <;> cases vb <;> simp [applyRule, setReg, clearReg, hca, hcb]
    | some rb =>
      have hne : ra ≠ rb := by
        rcases h with h | h
        · intro e; apply h; rw [hca, hcb, e]
        · rw [hca] at h; cases h
      have hne' : rb ≠ ra := fun e => hne e.symm
      cases va <;> cases vb <;> simp only [applyRule, setReg, clearReg, hca, hcb] <;>
        (repeat' split) <;> simp [upd, hne, hne'] <;> (repeat' split) <;> simp_all

theorem foldl_perm_of_comm {σ α : Type} (f : σ → α → σ) {l l' : List α} (hp : l.Perm l')
    (comm : ∀ a, a ∈ l → ∀ b, b ∈ l → a ≠ b → ∀ s, f (f s a) b = f (f s b) a) :
    ∀ s, l.foldl f s = l'.foldl f s := by
  induction hp with
  | nil => intro s; rfl
  | cons x _ ih =>
    intro s
    simp only [List.foldl_cons]
    exact ih (fun a ha b hb => comm a (List.mem_cons_of_mem _ ha) b (List.mem_cons_of_mem _ hb)) _
  | swap x y l =>
    intro s
    simp only [List.foldl_cons]
    by_cases hxy : y = x
    · subst hxy; rfl
    · rw [comm y (by simp) x (by simp) hxy]
  | trans p₁ _ ih₁ ih₂ =>
    intro s
    rw [ih₁ comm s]
    exact ih₂ (fun a ha b hb => comm a (p₁.mem_iff.2 ha) b (p₁.mem_iff.2 hb)) s

/-- **C13.2b** (= C06 `order_independent`): WITHOUT the sort the loop was order-free under the
    hypothesis that no two labels of the map denote the same register. -/
theorem cfi_unsorted_order_free_of_no_alias (W : Walker) (s : Regs) (iter iter' : List Rule)
    (noalias : ∀ a, a ∈ iter → ∀ b, b ∈ iter → a ≠ b → W.canon a.1 ≠ W.canon b.1 ∨ W.canon a.1 = none)
    (hp : iter.Perm iter') :
    walkRestUnsorted W s iter' = walkRestUnsorted W s iter := by
  unfold walkRestUnsorted runRules
  exact (foldl_perm_of_comm (applyRule W) hp
    (fun a ha b hb hab s => applyRule_comm W s a b (noalias a ha b hb hab)) s).symm

/-- non-vacuity of the no-alias hypothesis (three labels, three registers, one unknown name). -/
example :
    let iter : List Rule := [(nX19, some 1), (nFp, none), (nX20, some 2), (nBogus, some 3)]
    (∀ a, a ∈ iter → ∀ b, b ∈ iter → a ≠ b → arm64.canon a.1 ≠ arm64.canon b.1 ∨ arm64.canon a.1 = none) := by
  decide +kernel

/-- **C13.2c** aliasing was EXACTLY the leak: for a table whose registers can hold two different
    values, the unsorted loop is order-free on all rule maps iff the table maps no two different
    labels to one register. -/
theorem cfi_unsorted_order_free_iff_no_alias (W : Walker) (v w : Nat)
    (hv : W.fits v = true) (hw : W.fits w = true) (hvw : v ≠ w) :
    (∀ (s : Regs) (iter iter' : List Rule), (iter.map (·.1)).Nodup → iter.Perm iter' →
        walkRestUnsorted W s iter' = walkRestUnsorted W s iter) ↔
    (∀ a b : List Nat, a ≠ b → W.canon a ≠ W.canon b ∨ W.canon a = none) := by
  constructor
  · intro h a b hab
    cases hca : W.canon a with
    | none => right; rfl
    | some r =>
      left
      intro hcb
      exact cfi_unsorted_order_dependent_of_alias W a b r hca hcb.symm v w hv hw hvw (fun _ => ⟨0, false⟩)
        (h _ [(a, some v), (b, some w)] [(b, some w), (a, some v)]
          (by simp [hab]) (List.Perm.swap _ _ _))
  · intro h s iter iter' nd hp
    apply cfi_unsorted_order_free_of_no_alias W s iter iter' _ hp
    intro a ha b hb hab
    by_cases hl : a.1 = b.1
    · -- distinct entries of a map have distinct labels
      exact absurd (eq_of_key_eq nd ha hb hl) hab
    · exact h a.1 b.1 hl

/-! ### the seeded variant C13-2a: sort only when an alias NAME is used -/

/-- sorting only when some label is flagged is still order-free PROVIDED every aliasing pair of
    labels of the map contains a flagged label … -/
theorem cfi_sort_if_order_free_of_cover (isAlias : List Nat → Bool) (W : Walker) (s : Regs)
    (iter iter' : List Rule) (nd : (iter.map (·.1)).Nodup) (hp : iter.Perm iter')
    (cover : ∀ a, a ∈ iter → ∀ b, b ∈ iter → a ≠ b → W.canon a.1 = W.canon b.1 → W.canon a.1 ≠ none →
      isAlias a.1 = true ∨ isAlias b.1 = true) :
    walkRestSortIf isAlias W s iter' = walkRestSortIf isAlias W s iter := by
  have hany : iter'.any (fun r => isAlias r.1) = iter.any (fun r => isAlias r.1) := by
    rw [Bool.eq_iff_iff, List.any_eq_true, List.any_eq_true]
    constructor
    · rintro ⟨x, hx, h⟩; exact ⟨x, hp.mem_iff.2 hx, h⟩
    · rintro ⟨x, hx, h⟩; exact ⟨x, hp.mem_iff.1 hx, h⟩
  unfold walkRestSortIf
  rw [hany]
  split
  · exact cfi_rules_order_free W s iter iter' nd hp
  · rename_i hnone
    apply cfi_unsorted_order_free_of_no_alias W s iter iter' _ hp
    intro a ha b hb hab
    by_cases hc : W.canon a.1 = W.canon b.1
    · by_cases hn : W.canon a.1 = none
      · right; exact hn
      · exfalso
        apply hnone
        rw [List.any_eq_true]
        rcases cover a ha b hb hab hc hn with h | h
        · exact ⟨a, ha, h⟩
        · exact ⟨b, hb, h⟩
    · left; exact hc

/-- … which holds on every CPU but SPARC when the flagged labels are THAT CPU's alias-arm keys
    (ASCII labels): "only pay for the sort when one of the alias names is used" would have been
    sound with the right names per architecture. -/
theorem cfi_sort_if_own_alias_names_order_free (c : Gen.Regs.Ctx) (hc : c ≠ .SPARC) (s : Regs)
    (iter iter' : List Rule) (nd : (iter.map (·.1)).Nodup) (hp : iter.Perm iter')
    (ascii : ∀ r, r ∈ iter → ∀ x, x ∈ r.1 → x < 128) :
    walkRestSortIf (armKey c) (cpu c) s iter' = walkRestSortIf (armKey c) (cpu c) s iter := by
  apply cfi_sort_if_order_free_of_cover (armKey c) (cpu c) s iter iter' nd hp
  intro a ha b hb hab hcan hsome
  cases hi : (cpu c).canon a.1 with
  | none => exact absurd hi hsome
  | some i =>
    have hb' : canonCpu c b.1 = some i := by
      have : (cpu c).canon b.1 = some i := by rw [← hcan, hi]
      exact this
    rcases alias_needs_arm_key hc (a := a.1) (b := b.1) hi hb' with h | h | h
    · exact absurd (eq_of_key_eq nd ha hb (labelStr_inj (ascii a ha) (ascii b hb) h)) hab
    · left; exact h
    · right; exact h

/-- the seeded code flags ARM64's names `x29`/`x30` on EVERY architecture: on 32-bit ARM the map
    `r11: 5 fp: 6` uses no flagged name, is not sorted, and the result depends on the iteration
    order (likewise `r13`/`sp`, `r14`/`lr`, `r15`/`pc`). -/
theorem cfi_sort_if_arm64_names_order_dependent_on_arm :
    ∃ (s : Regs) (iter iter' : List Rule), (iter.map (·.1)).Nodup ∧ iter.Perm iter' ∧
      walkRestSortIf (armKey .ARM64) arm s iter' ≠ walkRestSortIf (armKey .ARM64) arm s iter := by
  refine ⟨fun _ => ⟨0, false⟩, [(nR11, some 5), (nFp, some 6)], [(nFp, some 6), (nR11, some 5)],
    by decide, List.Perm.swap _ _ _, ?_⟩
  have h1 : ([(nFp, some 6), (nR11, some 5)] : List Rule).any (fun r => armKey .ARM64 r.1) = false := by
    decide +kernel
  have h2 : ([(nR11, some 5), (nFp, some 6)] : List Rule).any (fun r => armKey .ARM64 r.1) = false := by
    decide +kernel
  unfold walkRestSortIf
  rw [h1, h2]
  exact cfi_unsorted_alias_order_dependent_arm (nR11, nFp) (by simp) _

/-- non-vacuity of the cover hypothesis / the ASCII hypothesis: ARM's own names flag `r11`. -/
example :
    let iter : List Rule := [(nR11, some 5), (nFp, some 6), (nR13, none)]
    (∀ r, r ∈ iter → ∀ x, x ∈ r.1 → x < 128) ∧ armKey .ARM nR11 = true ∧ armKey .ARM nFp = false ∧
    armKey .ARM64 nR11 = false ∧ armKey .ARM64 nX29 = true ∧ armKey .X86 nFp = false := by
  decide +kernel

/-! ## 3. "regardless of the order and timing in which the symbol requests … complete":
      the thread list -/

theorem joinByIndex_getElem? {R : Type} (res : Nat → R) (init : List R) (order : List Nat) (j : Nat) :
    (joinByIndex res init order)[j]? =
      if j ∈ order then (if j < init.length then some (res j) else none) else init[j]? := by
  induction order generalizing init with
  | nil => simp [joinByIndex]
  | cons i is ih =>
    have hstep : joinByIndex res init (i :: is) = joinByIndex res (init.set i (res i)) is := rfl
    rw [hstep, ih]
    by_cases hj : j ∈ is
    · simp [hj]
    · by_cases hji : j = i
      · subst hji
        simp [hj, List.getElem?_set]
      · have : i ≠ j := fun e => hji e.symm
        simp [hj, hji, this]

theorem joinByIndex_length {R : Type} (res : Nat → R) (init : List R) (order : List Nat) :
    (joinByIndex res init order).length = init.length := by
  induction order generalizing init with
  | nil => rfl
  | cons i is ih =>
    have hstep : joinByIndex res init (i :: is) = joinByIndex res (init.set i (res i)) is := rfl
    rw [hstep, ih, List.length_set]

/-- **C13.3** `join_by_index`: when every one of the `n` walks has finished — in ANY completion
    order (any permutation of `0..n-1`) — slot `i` of `state.threads` holds walk `i`'s result:
    the thread list is a function of the per-thread results only. -/
theorem join_by_index {R : Type} (res : Nat → R) (init : List R) (order : List Nat)
    (hp : order.Perm (List.range init.length)) :
    joinByIndex res init order = (List.range init.length).map res := by
  apply List.ext_getElem?
  intro j
  rw [joinByIndex_getElem?]
  have hmem : j ∈ order ↔ j < init.length := by rw [hp.mem_iff, List.mem_range]
  by_cases hj : j < init.length
  · simp [hmem.2 hj, hj]
  · have hn : ¬ j ∈ order := fun h => hj (hmem.1 h)
    simp [hn, hj]

/-- two completion orders give the same thread list -/
theorem join_order_free {R : Type} (res : Nat → R) (init : List R) (o₁ o₂ : List Nat)
    (h₁ : o₁.Perm (List.range init.length)) (h₂ : o₂.Perm (List.range init.length)) :
    joinByIndex res init o₁ = joinByIndex res init o₂ := by
  rw [join_by_index res init o₁ h₁, join_by_index res init o₂ h₂]

/-- a collector that appends results in completion order (mutation "collect `join_all` results by
    completion") is order dependent as soon as two threads differ. -/
theorem join_by_completion_order_dependent :
    ∃ (res : Nat → Nat) (o₁ o₂ : List Nat), o₁.Perm (List.range 2) ∧ o₂.Perm (List.range 2) ∧
      joinByCompletion res o₁ ≠ joinByCompletion res o₂ :=
  ⟨fun i => 100 + i, [0, 1], [1, 0], by decide, by decide, by decide⟩

/-- **C13.3b** `threads_schedule_free` — the symbol outcomes a walk sees come from C12
    (`MdModel.Once`, theorem `results_schedule_free`): task `t`'s sequence of lookup results is the
    same under every poll schedule that lets it finish. A walk's result is a function `walk t` of
    the thread's own data and of that sequence; so for ANY two poll schedules (both finishing all
    tasks) and ANY two completion orders of the walks the resulting thread lists are equal. -/
theorem threads_schedule_free {R : Type} (cfg : Once.Cfg) (walk : Nat → List (Nat × Once.Res) → R)
    (init : List R) (hn : init.length = cfg.ntasks)
    (sched₁ sched₂ : List Nat) (o₁ o₂ : List Nat)
    (hf₁ : ∀ t, t < cfg.ntasks → Once.isFin (Once.exec cfg sched₁ (Once.init cfg)) t = true)
    (hf₂ : ∀ t, t < cfg.ntasks → Once.isFin (Once.exec cfg sched₂ (Once.init cfg)) t = true)
    (h₁ : o₁.Perm (List.range init.length)) (h₂ : o₂.Perm (List.range init.length)) :
    joinByIndex (fun t => walk t (Once.seenBy t (Once.exec cfg sched₁ (Once.init cfg)).log)) init o₁
      = joinByIndex (fun t => walk t (Once.seenBy t (Once.exec cfg sched₂ (Once.init cfg)).log)) init o₂ := by
  rw [join_by_index _ init o₁ h₁, join_by_index _ init o₂ h₂]
  apply List.map_congr_left
  intro t ht
  have ht' : t < cfg.ntasks := by rw [← hn]; exact List.mem_range.1 ht
  show walk t _ = walk t _
  rw [Once.results_schedule_free cfg sched₁ sched₂ t (hf₁ t ht') (hf₂ t ht')]

/-- non-vacuity: two tasks, two different schedules that finish both, two completion orders. -/
example :
    let cfg : Once.Cfg := ⟨[[0, 1], [1, 0]], fun k => if k = 0 then ⟨1, .ok⟩ else ⟨2, .notFound⟩⟩
    (∀ t, t < cfg.ntasks → Once.isFin (Once.exec cfg [0, 1, 0, 1, 0, 1, 0, 1] (Once.init cfg)) t = true) ∧
    (∀ t, t < cfg.ntasks → Once.isFin (Once.exec cfg [1, 1, 1, 1, 1, 0, 0, 0, 0] (Once.init cfg)) t = true) ∧
    [1, 0].Perm (List.range 2) := by
  decide

/-! ## 4. "byte-identical JSON and text reports": the registers of a frame -/

theorem contains_perm {valid valid' : List (List Nat)} (hp : valid.Perm valid') (x : List Nat) :
    valid'.contains x = valid.contains x := by
  rw [Bool.eq_iff_iff, List.contains_iff_mem, List.contains_iff_mem]
  exact hp.mem_iff.symm

/-- **C13.4** `json_registers_order_free`: both renderers walk the fixed register list and only TEST
    membership in the validity `HashSet`, so its iteration order is never consumed. -/
theorem json_registers_order_free (fixed valid valid' : List (List Nat)) (hp : valid.Perm valid') :
    textRegs fixed valid' = textRegs fixed valid ∧ jsonRegs fixed valid' = jsonRegs fixed valid := by
  have h : textRegs fixed valid' = textRegs fixed valid := by
    unfold textRegs
    apply List.filter_congr
    intro x _
    exact contains_perm hp x
  exact ⟨h, by unfold jsonRegs; rw [h]⟩

/-- the text shows the valid registers in the order of the fixed list -/
theorem textRegs_sublist (fixed valid : List (List Nat)) : (textRegs fixed valid).Sublist fixed :=
  List.filter_sublist

/-- a renderer that iterates the validity set (mutation) is order dependent. -/
theorem regs_by_set_order_dependent :
    ∃ fixed valid valid' : List (List Nat), valid.Perm valid' ∧
      regsBySet fixed valid' ≠ regsBySet fixed valid :=
  ⟨[nX19, nFp, nSp, nPc], [nSp, nPc], [nPc, nSp],
   List.Perm.swap _ _ _, by decide⟩

example :
    textRegs [nX19, nFp, nSp, nPc] [nPc, nSp] = [nSp, nPc] ∧
    jsonRegs [nX19, nFp, nSp, nPc] [nPc, nSp] = [nPc, nSp] := by
  decide

/-! ## 5. "regardless of the order … in which the symbol requests … complete":
      the per-module symbol statistics (F16) -/

theorem statsAfter_eq (mods : Nat → Mod) (done : List Nat) :
    statsAfter mods done = (done.map fun k => ((mods k).leaf, (mods k).res)).reverse := by
  unfold statsAfter
  have : ∀ init : StatsMap, done.foldl (fun m k => ((mods k).leaf, (mods k).res) :: m) init
      = (done.map fun k => ((mods k).leaf, (mods k).res)).reverse ++ init := by
    induction done with
    | nil => intro init; rfl
    | cons k ks ih => intro init; simp [List.foldl_cons, ih]
  simp [this]

theorem mem_statsAfter {mods : Nat → Mod} {done : List Nat} {e : List Nat × Res} :
    e ∈ statsAfter mods done ↔ ∃ k, k ∈ done ∧ e = ((mods k).leaf, (mods k).res) := by
  rw [statsAfter_eq, List.mem_reverse, List.mem_map]
  constructor
  · rintro ⟨k, hk, rfl⟩; exact ⟨k, hk, rfl⟩
  · rintro ⟨k, hk, rfl⟩; exact ⟨k, hk, rfl⟩

theorem lookup_eq_none {m : StatsMap} {leaf : List Nat} :
    lookup m leaf = none ↔ ∀ e, e ∈ m → e.1 ≠ leaf := by
  simp [lookup, List.find?_eq_none]

theorem lookup_eq_some {m : StatsMap} {leaf : List Nat} {r : Res} (h : lookup m leaf = some r) :
    (leaf, r) ∈ m := by
  unfold lookup at h
  cases hf : m.find? (·.1 == leaf) with
  | none => rw [hf] at h; cases h
  | some e =>
    rw [hf] at h
    have hp := List.find?_some hf
    have hm := List.mem_of_find?_eq_some hf
    simp only [Option.map_some, Option.some.injEq] at h
    simp only [beq_iff_eq] at hp
    rw [← h, ← hp]
    exact hm

/-- **C13.5a** `stats_last_writer`: the entry the report finds for a leaf name is the outcome of the
    module with that leaf whose supplier call completed LAST. -/
theorem stats_last_writer (mods : Nat → Mod) (pre post : List Nat) (k : Nat)
    (hpost : ∀ j, j ∈ post → (mods j).leaf ≠ (mods k).leaf) :
    lookup (statsAfter mods (pre ++ k :: post)) (mods k).leaf = some (mods k).res := by
  rw [statsAfter_eq]
  simp only [List.map_append, List.map_cons, List.reverse_append, List.reverse_cons,
    List.append_assoc, List.singleton_append, lookup]
  rw [List.find?_append]
  have : List.find? (fun x => x.1 == (mods k).leaf)
      (post.map fun k => ((mods k).leaf, (mods k).res)).reverse = none := by
    rw [List.find?_eq_none]
    intro e he
    rw [List.mem_reverse, List.mem_map] at he
    obtain ⟨j, hj, rfl⟩ := he
    simpa using hpost j hj
  rw [this]
  simp

/-- non-vacuity of `stats_last_writer`: three completed lookups, the middle one is the last with
    leaf `x.dll`. -/
example :
    let mods : Nat → Mod := fun k =>
      if k = 0 then ⟨nXdll, .ok⟩ else if k = 1 then ⟨nXdll, .notFound⟩ else ⟨nYdll, .parseError⟩
    (∀ j, j ∈ [2] → (mods j).leaf ≠ (mods 1).leaf) ∧
    lookup (statsAfter mods ([0] ++ 1 :: [2])) nXdll = some .notFound := by
  decide

/-- **C13.5** `stats_order_free`: if modules (among those whose symbols were requested) that share a
    file leaf name have the same symbol outcome — in particular if distinct module keys have
    distinct leaf names — then the statistics shown for every module are the same for every
    completion order of the supplier calls. -/
theorem stats_order_free (mods : Nat → Mod) (done done' shown : List Nat)
    (hleaf : ∀ k, k ∈ done → ∀ k', k' ∈ done → (mods k).leaf = (mods k').leaf → (mods k).res = (mods k').res)
    (hp : done.Perm done') :
    statsReport mods done' shown = statsReport mods done shown := by
  unfold statsReport
  apply List.map_congr_left
  intro i _
  congr 1
  generalize (mods i).leaf = leaf
  cases h : lookup (statsAfter mods done) leaf with
  | none =>
    rw [lookup_eq_none] at h ⊢
    intro e he
    obtain ⟨k, hk, rfl⟩ := mem_statsAfter.1 he
    exact h _ (mem_statsAfter.2 ⟨k, hp.mem_iff.2 hk, rfl⟩)
  | some r =>
    obtain ⟨k, hk, hke⟩ := mem_statsAfter.1 (lookup_eq_some h)
    cases h' : lookup (statsAfter mods done') leaf with
    | none =>
      rw [lookup_eq_none] at h'
      exact absurd rfl (h' _ (mem_statsAfter.2 ⟨k, hp.mem_iff.1 hk, hke⟩))
    | some r' =>
      obtain ⟨k', hk', hke'⟩ := mem_statsAfter.1 (lookup_eq_some h')
      simp only [Prod.mk.injEq] at hke hke'
      have := hleaf k hk k' (hp.mem_iff.2 hk') (hke.1.symm.trans hke'.1)
      rw [hke'.2, hke.2, this]

/-- the form the property needs: distinct module keys ⇒ distinct leaf names. -/
theorem stats_order_free_of_distinct_leaves (mods : Nat → Mod) (done done' shown : List Nat)
    (hinj : ∀ k, k ∈ done → ∀ k', k' ∈ done → (mods k).leaf = (mods k').leaf → k = k')
    (hp : done.Perm done') :
    statsReport mods done' shown = statsReport mods done shown :=
  stats_order_free mods done done' shown
    (fun k hk k' hk' h => by rw [hinj k hk k' hk' h]) hp

/-- **F16** `stats_order_dependent`: WITHOUT the hypothesis the report depends on the completion
    order — `a/x.dll` (symbols found) and `b/x.dll` (no symbols) share the entry `x.dll`: whichever
    lookup completes last decides what BOTH modules show. -/
theorem stats_order_dependent :
    ∃ (mods : Nat → Mod) (done done' shown : List Nat), done.Perm done' ∧ done.Nodup ∧
      statsReport mods done' shown ≠ statsReport mods done shown :=
  ⟨fun k => if k = 0 then ⟨nXdll, .ok⟩ else ⟨nXdll, .notFound⟩,
   [0, 1], [1, 0], [0, 1], List.Perm.swap _ _ _, by decide, by decide⟩

/-- what the two reports of the witness are: both modules "missing" in one, both "loaded" in the
    other. -/
example :
    let mods : Nat → Mod := fun k => if k = 0 then ⟨nXdll, .ok⟩ else ⟨nXdll, .notFound⟩
    statsReport mods [0, 1] [0, 1] = [(true, false, false), (true, false, false)] ∧
    statsReport mods [1, 0] [0, 1] = [(false, true, false), (false, true, false)] := by
  decide

/-- non-vacuity of `stats_order_free`'s hypothesis: distinct leaves, mixed outcomes. -/
example :
    let mods : Nat → Mod := fun k => if k = 0 then ⟨nXdll, .ok⟩ else ⟨nYdll, .parseError⟩
    (∀ k, k ∈ [0, 1] → ∀ k', k' ∈ [0, 1] → (mods k).leaf = (mods k').leaf → k = k') ∧
    statsReport mods [0, 1] [0, 1] = statsReport mods [1, 0] [0, 1] ∧
    statsReport mods [0, 1] [0, 1] = [(false, true, false), (false, true, true)] := by
  decide

/-! ## 6. "across repeated runs": module certificates from the evil JSON
      (defect found by this check, repaired by fix 2943e9c) -/

/-- **C13.6** `cert_order_free`: the certificate shown for every module is the same for every
    iteration order of the `ModuleSignatureInfo` map — with NO hypothesis about modules listed
    under several certificates: the certificates are visited in name order, the last NAME wins. -/
theorem cert_order_free (iter iter' : CertInfo) (shown : List (List Nat))
    (nd : (iter.map (·.1)).Nodup) (hp : iter.Perm iter') :
    certReport iter' shown = certReport iter shown := by
  unfold certReport certMap
  rw [isort_keyLe_perm nd hp]

theorem certMapUnsorted_eq (entries : CertInfo) : certMapUnsorted entries = (certPairs entries).reverse := by
  unfold certMapUnsorted
  have : ∀ (l : List (List Nat × List Nat)) init, l.foldl (fun m kv => kv :: m) init = l.reverse ++ init := by
    intro l
    induction l with
    | nil => intro init; rfl
    | cons k ks ih => intro init; simp [List.foldl_cons, ih]
  simp [this]

theorem mem_certPairs_perm {iter iter' : CertInfo} (hp : iter.Perm iter') (e : List Nat × List Nat) :
    e ∈ certPairs iter ↔ e ∈ certPairs iter' := by
  unfold certPairs
  simp only [List.mem_flatMap]
  constructor
  · rintro ⟨a, ha, h⟩; exact ⟨a, hp.mem_iff.1 ha, h⟩
  · rintro ⟨a, ha, h⟩; exact ⟨a, hp.mem_iff.2 ha, h⟩

theorem certLookup_eq_none {m : List (List Nat × List Nat)} {name : List Nat} :
    certLookup m name = none ↔ ∀ e, e ∈ m → e.1 ≠ name := by
  simp [certLookup, List.find?_eq_none]

theorem certLookup_eq_some {m : List (List Nat × List Nat)} {name c : List Nat}
    (h : certLookup m name = some c) : (name, c) ∈ m := by
  unfold certLookup at h
  cases hf : m.find? (·.1 == name) with
  | none => rw [hf] at h; cases h
  | some e =>
    rw [hf] at h
    have hp := List.find?_some hf
    have hm := List.mem_of_find?_eq_some hf
    simp only [Option.map_some, Option.some.injEq] at h
    simp only [beq_iff_eq] at hp
    rw [← h, ← hp]
    exact hm

/-- **C13.6b** the loop BEFORE the fix was order-free only if no module is listed under two
    different certificates … -/
theorem cert_unsorted_order_free_of_unique (iter iter' : CertInfo) (shown : List (List Nat))
    (huniq : ∀ e, e ∈ certPairs iter → ∀ e', e' ∈ certPairs iter → e.1 = e'.1 → e.2 = e'.2)
    (hp : iter.Perm iter') :
    certReportUnsorted iter' shown = certReportUnsorted iter shown := by
  unfold certReportUnsorted
  apply List.map_congr_left
  intro name _
  cases h : certLookup (certMapUnsorted iter) name with
  | none =>
    rw [certLookup_eq_none] at h ⊢
    intro e he
    rw [certMapUnsorted_eq, List.mem_reverse] at he
    apply h e
    rw [certMapUnsorted_eq, List.mem_reverse]
    exact (mem_certPairs_perm hp e).2 he
  | some c =>
    have hk := certLookup_eq_some h
    rw [certMapUnsorted_eq, List.mem_reverse] at hk
    cases h' : certLookup (certMapUnsorted iter') name with
    | none =>
      rw [certLookup_eq_none] at h'
      refine absurd rfl (h' (name, c) ?_)
      rw [certMapUnsorted_eq, List.mem_reverse]
      exact (mem_certPairs_perm hp _).1 hk
    | some c' =>
      have hk' := certLookup_eq_some h'
      rw [certMapUnsorted_eq, List.mem_reverse] at hk'
      have := huniq _ hk _ ((mem_certPairs_perm hp _).2 hk') rfl
      simp only at this
      rw [this]

/-- … and `cert_unsorted_order_dependent`: a module listed under two certificates (a dual-signed
    binary) got whichever certificate the map iterated LAST — the report depended on the hash
    seed. This is what fix 2943e9c repaired. -/
theorem cert_unsorted_order_dependent :
    ∃ (iter iter' : CertInfo) (shown : List (List Nat)), (iter.map (·.1)).Nodup ∧ iter.Perm iter' ∧
      certReportUnsorted iter' shown ≠ certReportUnsorted iter shown :=
  ⟨[([65], [nXdll]), ([66], [nXdll, nYdll])], [([66], [nXdll, nYdll]), ([65], [nXdll])], [nXdll, nYdll],
   by decide, List.Perm.swap _ _ _, by decide⟩

/-- non-vacuity: on that witness the current code shows certificate `B` (the later name) for the
    dual-signed module in both iteration orders; an unknown module has none. -/
example :
    certReport [([65], [nXdll]), ([66], [nXdll, nYdll])] [nXdll, nYdll, nBogus] = [some [66], some [66], none] ∧
    certReport [([66], [nXdll, nYdll]), ([65], [nXdll])] [nXdll, nYdll, nBogus] = [some [66], some [66], none] := by
  decide

/-- non-vacuity of `cert_unsorted_order_free_of_unique`'s hypothesis. -/
example :
    let iter : CertInfo := [([65], [nXdll]), ([66], [nYdll])]
    (∀ e, e ∈ certPairs iter → ∀ e', e' ∈ certPairs iter → e.1 = e'.1 → e.2 = e'.2) ∧
    certReportUnsorted iter [nXdll, nYdll, nBogus] = [some [65], some [66], none] := by
  decide

/-! ## 7. "byte-identical … reports": the thread-local print context (seeded break C13-2b) -/

theorem printSeq_setCtx (ctx : Option Width) (ws : List Width) :
    printSeq setCtx ctx ws = ws.map (fun w => addrChars (some w)) := by
  induction ws generalizing ctx with
  | nil => rfl
  | cons w ws ih => simp [printSeq, setCtx, ih]

/-- **C13.7** `print_context_history_free`: what a print shows depends on the printed state only —
    not on the context the thread was left with (`ctx`, `ctx'`: anything earlier prints, of any
    dumps, on this thread or worker did) and not on what is printed before it (`pre`, `pre'`). -/
theorem print_context_history_free (ctx ctx' : Option Width) (pre pre' : List Width) (w : Width)
    (post : List Width) :
    (printSeq setCtx ctx (pre ++ w :: post)).drop pre.length =
      (printSeq setCtx ctx' (pre' ++ w :: post)).drop pre'.length := by
  rw [printSeq_setCtx, printSeq_setCtx]
  simp [List.map_append]

/-- a 32-bit dump is printed with 10-character addresses, a 64-bit one with 18, whatever came first -/
example : printSeq setCtx none [64, 32, 64, 32] = [18, 10, 18, 10] ∧
    printSeq setCtx (some 64) [32] = [10] := by decide

/-- the variant of seeded break C13-2b (fill the context only when it is empty) makes the bytes of
    a report depend on what the thread printed before: an x86 dump after an amd64 dump gets
    18-character addresses, alone it gets 10. -/
theorem print_context_once_history_dependent :
    ∃ (ctx ctx' : Option Width) (w : Width), printSeq setCtxOnce ctx [w] ≠ printSeq setCtxOnce ctx' [w] :=
  ⟨none, some 64, 32, by decide⟩

example : printSeq setCtxOnce none [64, 32] = [18, 18] ∧ printSeq setCtxOnce none [32] = [10] := by decide

/-! ## 8. "across repeated runs": register heuristics of a bit-flip candidate -/

theorem heurStep_comm (near poison : Nat → Bool) (acc : Nat × Bool) (a b : Nat) :
    heurStep near poison (heurStep near poison acc a) b = heurStep near poison (heurStep near poison acc b) a := by
  obtain ⟨n, p⟩ := acc
  unfold heurStep
  cases near a <;> cases near b <;> cases poison a <;> cases poison b <;> cases p <;> simp <;> omega

/-- **C13.8** `heuristics_order_free`: `nearby_registers` and `poison_registers` (hence the
    confidence shown for a bit-flip candidate) do not depend on the order in which
    `valid_registers()` yields the registers — the loop body commutes. -/
theorem heuristics_order_free (near poison : Nat → Bool) (vals vals' : List Nat) (hp : vals.Perm vals') :
    heuristics near poison vals' = heuristics near poison vals := by
  unfold heuristics
  exact (foldl_perm_of_comm (heurStep near poison) hp
    (fun a _ b _ _ s => heurStep_comm near poison s a b) (0, false)).symm

example : heuristics (· < 10) (· == 0xa5) [3, 0xa5, 20, 4] = (2, true) ∧
    heuristics (· < 10) (· == 0xa5) [4, 20, 0xa5, 3] = (2, true) := by decide

end MdModel.Det
