/-
  C06 — STACK CFI rules evaluate exactly as the documented postfix language.

  Property text: "For every STACK CFI INIT record with its delta records, every lookup address and
  every callee register and memory state, unwinding yields exactly what the documented semantics
  prescribe: rules at or below the address are applied in address order with later ones overriding,
  the CFA is computed first and may not refer to itself, a return-address rule is mandatory, and
  each other register is set from its rule or marked unknown when its rule fails. Arithmetic is
  64-bit wrapping, and stack underflow, leftover operands, division by zero, non-power-of-two
  alignment, unreadable memory, unknown registers and `.undef` make the affected rule fail without
  ever panicking."

  The theorems are about `MdModel.Cfi` — the model the compiled driver executes and the `cfi`
  engine compares with `SymbolFile::walk_frame` on every run. "The documented semantics" are
  stated independently in `MdProofs.Lemmas.Cfi`: expression trees (`Tree`), their denotation by
  structural recursion over ℕ-arithmetic modulo 2^64 (`denote`, `binSem`) and `postfixOf`.
  Environments (`Env`: callee registers, readable memory) are arbitrary functions; programs are
  arbitrary token lists of any length.
-/
import MdProofs.Lemmas.Cfi
import MdProofs.Lemmas.CfiWalk
namespace MdModel.Cfi
open MdModel

/-! ## 1. the evaluator computes the denotation of the tree whose postfix form it is given
  "STACK CFI expressions are in postfix (Reverse Polish) notation … For binary operators the
  right-hand-side (rhs) will be the first value popped from the stack." -/

/-- **C06.1** Evaluating the postfix form of *any* tree gives exactly its denotation: operand
    order (`l` below `r`), 64-bit wrapping arithmetic (`binSem` is ℕ-arithmetic mod 2^64),
    failure of any sub-expression fails the rule. -/
theorem eval_postfix (env : Env) (cfa : Option UInt64) (t : Tree) :
    evalToks env cfa (postfixOf t) = denote env cfa t := by
  unfold evalToks
  have h := run_postfix env cfa t [] []
  simp only [List.append_nil] at h
  rw [h]
  cases denote env cfa t <;> simp [run, single]

/-- **C06.2 (shape)** A token list evaluates to a value **iff** it is the postfix form of a tree
    whose denotation is that value. So: stack underflow, leftover operands, the empty program, or
    any failing sub-expression make the rule fail — nothing else does. -/
theorem eval_shape (env : Env) (cfa : Option UInt64) (ts : List Tok) (v : UInt64) :
    evalToks env cfa ts = some v ↔ ∃ t : Tree, ts = postfixOf t ∧ denote env cfa t = some v := by
  constructor
  · intro h
    unfold evalToks at h
    cases hr : run env cfa ts [] with
    | none => rw [hr] at h; simp [single] at h
    | some st =>
      rw [hr] at h
      have hst : st = [v] := by
        match st, h with
        | [w], h => simp [single] at h; rw [h]
        | [], h => simp [single] at h
        | _ :: _ :: _, h => simp [single] at h
      subst hst
      obtain ⟨f, hf, hd⟩ := run_forest env cfa ts _ hr
      simp only [List.reverse_cons, List.reverse_nil, List.nil_append, List.map_cons, List.map_nil] at hd
      match f, hf, hd with
      | [t], hf, hd =>
        refine ⟨t, ?_, ?_⟩
        · simpa using hf
        · simpa using hd
      | [], _, hd => simp at hd
      | _ :: _ :: _, _, hd => simp at hd
  · rintro ⟨t, rfl, hd⟩
    rw [eval_postfix, hd]

example : evalToks ⟨fun _ => none, fun _ => none⟩ none (postfixOf (.bin .sub (.lit 10) (.lit 3))) = some 7 := by
  rw [eval_postfix]; decide

/-! ### from text to tokens: the lexical layer (`classify`), A.4 of the design notes -/

/-- the operator and keyword spellings -/
theorem classify_fixed :
    classify tPlus = .bin .add ∧ classify tMinus = .bin .sub ∧ classify tStar = .bin .mul ∧
    classify tSlash = .bin .div ∧ classify tPercent = .bin .rem ∧ classify tAt = .bin .align ∧
    classify tCaret = .deref ∧ classify tCfa = .cfa ∧ classify tUndef = .undef := by decide

/-- `$name` reads the register `name`, whatever `name` is (unknown names fail at evaluation) -/
theorem classify_dollar (n : Name) : classify (0x24 :: n) = .reg n := by
  simp [classify, tPlus, tMinus, tStar, tSlash, tPercent, tAt, tCaret, tCfa, tUndef, afterDollar]

/-- with `Tree` leaves spelled `$name`, the byte-level evaluator computes the denotation -/
theorem evalCfi_dollar_reg (env : Env) (cfa : Option UInt64) (n : Name) :
    evalCfi env cfa [0x24 :: n] = env.reg n := by
  simp only [evalCfi, List.map_cons, List.map_nil, classify_dollar]
  exact eval_postfix env cfa (.reg n)

/-! "`<a signed decimal integer>`: read this integer constant (limited to i64 precision)" -/

/-- a non-negative decimal literal within `i64` denotes itself; beyond `i64::MAX` it is not a literal -/
theorem literal_nonneg (n : Nat) :
    parseI64 (renderNat n) = if n < 2^63 then some (UInt64.ofNat n) else none := by
  obtain ⟨d, rest, hd, hr⟩ := renderNat_head n
  have hp := parseDigits_render n
  rw [hr] at hp ⊢
  simp only [parseI64, (digit_not_sign d hd).1, (digit_not_sign d hd).2, Bool.false_eq_true, if_false, hp]

/-- a negative decimal literal `-n` within `i64` denotes `2^64 - n` (two's complement);
    below `i64::MIN` it is not a literal -/
theorem literal_neg (n : Nat) :
    parseI64 (0x2D :: renderNat n) = if n ≤ 2^63 then some (UInt64.ofNat (2^64 - n)) else none := by
  obtain ⟨d, rest, hd, hr⟩ := renderNat_head n
  have hp := parseDigits_render n
  simp only [parseI64, hp]
  rw [hr]; simp

/-- literals: decimal, optional sign, two's complement, `i64` range — out of range is not a
    literal (and then names a register nobody has) -/
example : classify [0x2D, 0x38] = .lit 0xFFFFFFFFFFFFFFF8 := by decide                    -- "-8"
example : classify [0x2B, 0x35] = .lit 5 := by decide                                     -- "+5"
example : classify [0x30, 0x30, 0x37] = .lit 7 := by decide                               -- "007"
example : parseI64 [0x39,0x32,0x32,0x33,0x33,0x37,0x32,0x30,0x33,0x36,0x38,0x35,0x34,0x37,0x37,0x35,0x38,0x30,0x37]
    = some 0x7FFFFFFFFFFFFFFF := by decide                                                -- i64::MAX
example : parseI64 [0x39,0x32,0x32,0x33,0x33,0x37,0x32,0x30,0x33,0x36,0x38,0x35,0x34,0x37,0x37,0x35,0x38,0x30,0x38]
    = none := by decide                                                                   -- i64::MAX + 1
example : parseI64 [0x2D,0x39,0x32,0x32,0x33,0x33,0x37,0x32,0x30,0x33,0x36,0x38,0x35,0x34,0x37,0x37,0x35,0x38,0x30,0x38]
    = some 0x8000000000000000 := by decide                                                -- i64::MIN
example : parseI64 [0x30, 0x78, 0x31] = none := by decide                                 -- "0x1"
example : classify [0x61, 0x24, 0x62] = .reg [0x62] := by decide                          -- "a$b" is register b

/-! ### every failure cause named by the property -/

/-- stack underflow: an operator with fewer than two operands below it fails -/
theorem underflow_fails (env : Env) (cfa : Option UInt64) (o : BinOp) (st : Stack) (h : st.length < 2) :
    step env cfa (.bin o) st = none := by
  match st, h with
  | [], _ => rfl
  | [_], _ => rfl

theorem deref_underflow_fails (env : Env) (cfa : Option UInt64) : step env cfa .deref [] = none := rfl

/-- leftover operands: two complete expressions in a row do not evaluate -/
theorem leftover_fails (env : Env) (cfa : Option UInt64) (t₁ t₂ : Tree) :
    evalToks env cfa (postfixOf t₁ ++ postfixOf t₂) = none := by
  unfold evalToks
  rw [run_postfix]
  cases denote env cfa t₁ with
  | none => rfl
  | some a =>
    have h := run_postfix env cfa t₂ [] [a]
    simp only [List.append_nil] at h
    simp only [h]
    cases denote env cfa t₂ <;> simp [run, single]

/-- the empty program fails -/
theorem empty_fails (env : Env) (cfa : Option UInt64) : evalToks env cfa [] = none := rfl

/-- division and remainder by zero fail -/
theorem div_zero_fails (env : Env) (cfa : Option UInt64) (l r : Tree) (h : denote env cfa r = some 0) :
    evalToks env cfa (postfixOf (.bin .div l r)) = none ∧
    evalToks env cfa (postfixOf (.bin .rem l r)) = none := by
  simp only [eval_postfix, denote, h]
  cases denote env cfa l <;> simp [binSem]

/-- alignment to anything but a power of two fails -/
theorem align_non_pow2_fails (env : Env) (cfa : Option UInt64) (l r : Tree) (b : UInt64)
    (h : denote env cfa r = some b) (hb : ¬ ∃ k, k < 64 ∧ b.toNat = 2 ^ k) :
    evalToks env cfa (postfixOf (.bin .align l r)) = none := by
  simp only [eval_postfix, denote, h]
  cases denote env cfa l <;> simp [binSem, hb]

/-- unreadable memory fails -/
theorem unreadable_fails (env : Env) (cfa : Option UInt64) (t : Tree) (a : UInt64)
    (h : denote env cfa t = some a) (hm : env.deref a = none) :
    evalToks env cfa (postfixOf (.deref t)) = none := by
  simp [eval_postfix, denote, h, hm]

/-- an unknown register fails -/
theorem unknown_reg_fails (env : Env) (cfa : Option UInt64) (n : Name) (h : env.reg n = none) :
    evalToks env cfa (postfixOf (.reg n)) = none := by
  simp [eval_postfix, denote, h]

/-- a failing sub-expression anywhere fails the whole rule (`.undef` is the failing leaf) -/
theorem failure_propagates (env : Env) (cfa : Option UInt64) (o : BinOp) (l r : Tree)
    (h : denote env cfa l = none ∨ denote env cfa r = none) :
    evalToks env cfa (postfixOf (.bin o l r)) = none ∧
    (denote env cfa l = none → evalToks env cfa (postfixOf (.deref l)) = none) := by
  constructor
  · simp only [eval_postfix, denote]
    rcases h with h | h
    · simp [h]
    · rw [h]; cases denote env cfa l <;> rfl
  · intro hl; simp [eval_postfix, denote, hl]

/-- `.undef` anywhere in a program makes it fail (not only in tree position). -/
theorem undef_fails (env : Env) (cfa : Option UInt64) (pre post : List Tok) :
    evalToks env cfa (pre ++ .undef :: post) = none := by
  unfold evalToks
  rw [run_append]
  cases run env cfa pre [] <;> simp [run, step, single]

/-- `.cfa` inside an expression evaluated without a CFA (the CFA's own rule) fails. -/
theorem cfa_unavailable_fails (env : Env) (pre post : List Tok) :
    evalToks env none (pre ++ .cfa :: post) = none := by
  unfold evalToks
  rw [run_append]
  cases run env none pre [] <;> simp [run, step, single]

/-! ### totality: the evaluator with Rust's panic sites explicit never panics -/

theorem applyBinO_eq (o : BinOp) (l r : UInt64) : applyBinO o l r = .ok (applyBin o l r) := by
  cases o <;> try rfl
  simp only [applyBinO, applyBin]
  by_cases h : (r = 0 || !isPow2 r) = true
  · simp [h]
  · simp only [h, Bool.false_eq_true, if_false]
    have hr : ¬ r = 0 := by
      intro e; apply h; simp [e]
    have : ¬ r < 1 := by
      intro hlt
      apply hr
      apply UInt64.toNat_inj.mp
      have := UInt64.lt_iff_toNat_lt.mp hlt
      simp at this
      simpa using this
    simp [checkedSub, this, alignDown]

theorem stepO_eq (env : Env) (cfa : Option UInt64) (t : Tok) (st : Stack) :
    stepO env cfa t st = .ok (step env cfa t st) := by
  unfold stepO
  split
  · rw [applyBinO_eq]; rfl
  · rfl

theorem runO_eq (env : Env) (cfa : Option UInt64) (ts : List Tok) (st : Stack) :
    runO env cfa ts st = .ok (run env cfa ts st) := by
  induction ts generalizing st with
  | nil => rfl
  | cons t ts ih =>
    simp only [runO, run, stepO_eq]
    cases step env cfa t st with
    | none => rfl
    | some st' => exact ih st'

/-- **C06 totality** `eval_cfi_expr` with its only arithmetic panic site (`rhs - 1` under overflow
    checks) made explicit never takes it, for any program, registers and memory; and it agrees
    with the pure evaluator the other theorems are about. -/
theorem evalCfiO_eq (env : Env) (cfa : Option UInt64) (toks : List Bytes) :
    evalCfiO env cfa toks = .ok (evalCfi env cfa toks) := by
  simp [evalCfiO, runO_eq, evalCfi, evalToks]

/-- **C06 totality (walk)** `walk_with_stack_cfi` with its panic sites explicit — the evaluator's
    checked subtraction and the `unreachable!()` for a `.cfa`/`.ra` key met in the loop over the
    remaining rules — never panics, for any rule lines and any walker; and it is the pure `walkCfi`
    the other theorems are about (the driver runs `walkFrameO`). -/
theorem walkCfiO_eq (w : Walker) (lines : List Bytes) : walkCfiO w lines = .ok (walkCfi w lines) := by
  unfold walkCfiO walkCfi
  cases parseAll lines [] with
  | none => rfl
  | some m =>
    simp only []
    rw [get_remove_ne m .ra .cfa (by decide), remove_cfa_ra_eq]
    cases m.get .cfa with
    | none => rfl
    | some cfaE =>
      cases m.get .ra with
      | none => rfl
      | some raE =>
        simp only [evalCfiO_eq]
        cases evalCfi w.env none cfaE with
        | none => rfl
        | some cfa =>
          simp only []
          cases evalCfi w.env (some cfa) raE with
          | none => rfl
          | some ra =>
            simp only []
            cases w.setCfa w.caller0 cfa with
            | none => rfl
            | some c1 =>
              simp only []
              cases w.setRa c1 ra with
              | none => rfl
              | some c2 =>
                simp only []
                have hs : sortBy regLe ((others m).map otherEntry) = (sortOthers (others m)).map otherEntry :=
                  sortBy_map (fun a b : Name × Expr => bytesLe a.1 b.1) regLe otherEntry (fun _ _ => rfl) _
                rw [hs, foldO_applyOtherO w cfa (fun e => evalCfiO_eq _ _ e)]

theorem walkFrameO_eq (r : CfiRec) (base : Nat) (w : Walker) :
    walkFrameO r base w = .ok (walkFrame r base w) := by
  unfold walkFrameO walkFrame
  split
  · rfl
  · simp only []; split
    · exact walkCfiO_eq _ _
    · rfl

/-! ## 3. alignment -/

/-- **C06.3** for a power of two `r`, `l @ r` is the largest multiple of `r` that is `≤ l`. -/
theorem align_spec (l r : UInt64) (h : ∃ k, k < 64 ∧ r.toNat = 2 ^ k) :
    ∃ v, applyBin .align l r = some v ∧ r.toNat ∣ v.toNat ∧ v.toNat ≤ l.toNat ∧
      ∀ m, r.toNat ∣ m → m ≤ l.toNat → m ≤ v.toNat := by
  obtain ⟨k, hk, hr⟩ := h
  have hpos : 0 < r.toNat := by rw [hr]; exact Nat.pow_pos (by omega)
  have hlt : l.toNat - l.toNat % r.toNat < 2^64 := Nat.lt_of_le_of_lt (Nat.sub_le _ _) l.toNat_lt
  refine ⟨UInt64.ofNat (l.toNat - l.toNat % r.toNat), ?_, ?_, ?_, ?_⟩
  · rw [applyBin_eq_binSem]
    have : ∃ k, k < 64 ∧ r.toNat = 2 ^ k := ⟨k, hk, hr⟩
    simp [binSem, this]
  · simp only [UInt64.toNat_ofNat', Nat.mod_eq_of_lt hlt]
    exact Nat.dvd_sub_mod _
  · simp only [UInt64.toNat_ofNat', Nat.mod_eq_of_lt hlt]
    exact Nat.sub_le _ _
  · intro m hm hle
    simp only [UInt64.toNat_ofNat', Nat.mod_eq_of_lt hlt]
    obtain ⟨q, rfl⟩ := hm
    have h1 : q ≤ l.toNat / r.toNat := (Nat.le_div_iff_mul_le hpos).mpr (by rw [Nat.mul_comm]; exact hle)
    have h2 : l.toNat - l.toNat % r.toNat = r.toNat * (l.toNat / r.toNat) := by
      have := Nat.div_add_mod l.toNat r.toNat; omega
    rw [h2]
    exact Nat.mul_le_mul_left _ h1

example : applyBin .align 0x1237 16 = some 0x1230 := by decide
example : applyBin .align 0x1237 24 = none := by decide


/-! ## 4. which rules apply at a lookup address
  "rules at or below the address are applied in address order with later ones overriding";
  walker.rs: "To get the final rules for a given address, start with its STACK CFI INIT and then
  apply all the applicable STACK CFI diffs in order." -/

/-- **C06.4 (`rules_override`, selection part)** For a record `r` and module-relative address `a`,
    the lines handed to the evaluator are the INIT rules followed by **exactly** the delta records
    whose address is `≤ a` (every one of them; none with a larger address), in the order of the
    parser's sort — non-decreasing address (ties by rule text) — which is a permutation of the
    deltas as written in the file. -/
theorem rules_override (r : CfiRec) (a : Nat) :
    linesAt r a = r.init :: ((sortAdds r.adds).filter (fun d => decide (d.1 ≤ a))).map (·.2) ∧
    (∀ d, d ∈ (sortAdds r.adds).filter (fun d => decide (d.1 ≤ a)) ↔ d ∈ r.adds ∧ d.1 ≤ a) ∧
    (sortAdds r.adds).Pairwise (fun x y => x.1 ≤ y.1) ∧
    (sortAdds r.adds).Perm r.adds := by
  have hsorted : (sortAdds r.adds).Pairwise (fun x y => ruleLe x y = true) :=
    sortBy_pairwise ruleLe ruleLe_total ruleLe_trans _
  have haddr : (sortAdds r.adds).Pairwise (fun x y => x.1 ≤ y.1) :=
    hsorted.imp (fun h => ruleLe_addr _ _ h)
  have hperm : (sortAdds r.adds).Perm r.adds := sortBy_perm _ _
  refine ⟨?_, ?_, haddr, hperm⟩
  · unfold linesAt selectAdds
    rw [takeWhile_eq_filter_of_sorted _ a haddr]
  · intro d
    simp only [List.mem_filter, decide_eq_true_eq, hperm.mem_iff]

/-- deltas above the lookup address are ignored: removing them changes nothing -/
theorem deltas_above_ignored (r : CfiRec) (a : Nat) (extra : List (Nat × Bytes))
    (h : ∀ d ∈ extra, a < d.1) :
    (linesAt { r with adds := r.adds ++ extra } a).length = (linesAt r a).length ∧
    ∀ l, l ∈ linesAt { r with adds := r.adds ++ extra } a ↔ l ∈ linesAt r a := by
  have h1 := (rules_override { r with adds := r.adds ++ extra } a)
  have h2 := (rules_override r a)
  have hp : ((sortAdds (r.adds ++ extra)).filter (fun d => decide (d.1 ≤ a))).Perm
      ((sortAdds r.adds).filter (fun d => decide (d.1 ≤ a))) := by
    have e : (r.adds ++ extra).filter (fun d => decide (d.1 ≤ a)) = r.adds.filter (fun d => decide (d.1 ≤ a)) := by
      rw [List.filter_append]
      have : extra.filter (fun d => decide (d.1 ≤ a)) = [] := by
        rw [List.filter_eq_nil_iff]; intro d hd; have := h d hd; simp; omega
      rw [this, List.append_nil]
    exact ((h1.2.2.2.filter _).trans (e ▸ List.Perm.refl _)).trans (h2.2.2.2.filter _).symm
  rw [h1.1, h2.1]
  constructor
  · simp only [List.length_cons, List.length_map]; rw [hp.length_eq]
  · intro l
    simp only [List.mem_cons]
    rw [(hp.map (·.2)).mem_iff]

example : linesAt ⟨0x10, 0x10, [1], [(0x12, [3]), (0x11, [2]), (0x13, [4])]⟩ 0x12 = [[1], [2], [3]] := by decide

/-- **C06.4 (`rules_override`, overriding part)** "with later ones overriding": parsing a further
    line into the rules collected so far succeeds iff the line parses on its own, and the result is
    the line's own rules laid over the earlier ones — for every register the line defines, its rule
    replaces the earlier one; every other register keeps its rule. -/
theorem later_overrides (line : Bytes) (m : RuleMap) :
    match parseCfiExprs line m, parseCfiExprs line [] with
    | some m', some own => ∀ k, m'.get k = match own.get k with
                                           | some e => some e
                                           | none => m.get k
    | none, none => True
    | _, _ => False :=
  parseLoop_overlay (splitWs line) none [] m

/-- the lines are parsed in order, each into the map left by the previous ones -/
theorem parseAll_append (ls : List Bytes) (l : Bytes) (m : RuleMap) :
    parseAll (ls ++ [l]) m = match parseAll ls m with
                             | some m' => parseCfiExprs l m'
                             | none => none := by
  induction ls generalizing m with
  | nil => simp only [List.nil_append, parseAll]; cases parseCfiExprs l m <;> rfl
  | cons x xs ih =>
    simp only [List.cons_append, parseAll]
    cases parseCfiExprs x m with
    | none => rfl
    | some m' => exact ih m'

/-- the documentation's example: the 0x11 delta replaces the CFA rule and adds one for `$rax`,
    leaving `.ra` alone (register names and expressions abbreviated to single bytes) -/
example : (parseAll [[0x2E,0x63,0x66,0x61,0x3A,0x20,0x31,0x20,0x2E,0x72,0x61,0x3A,0x20,0x32],
                     [0x2E,0x63,0x66,0x61,0x3A,0x20,0x33,0x20,0x24,0x61,0x3A,0x20,0x34]] []).map
            (fun m => (m.get .cfa, m.get .ra, m.get (.other [0x61]))) =
          some (some [[0x33]], some [[0x32]], some [[0x34]]) := by decide

/-! ## 5. `walk_with_stack_cfi`: CFA first and not from itself, return address mandatory -/

/-- What a successful walk consists of: the lines parse into a rule map that has a `.cfa` and a
    `.ra` rule; the CFA rule evaluates **without** a CFA; the return-address rule evaluates
    **with** that CFA; both fit the register width; and the caller is the forwarded registers
    updated by the remaining rules (in the order of their names), all evaluated with that CFA. -/
theorem walkCfi_some_iff (w : Walker) (lines : List Bytes) (c : Caller) :
    walkCfi w lines = some c ↔
      ∃ m cfaE raE cfa ra, parseAll lines [] = some m ∧ m.get .cfa = some cfaE ∧ m.get .ra = some raE ∧
        evalCfi w.env none cfaE = some cfa ∧ evalCfi w.env (some cfa) raE = some ra ∧
        w.fits cfa = true ∧ w.fits ra = true ∧
        c = (sortOthers (others m)).foldl (applyOther w cfa) ⟨some cfa, some ra, w.fwd⟩ := by
  unfold walkCfi
  cases hp : parseAll lines [] with
  | none => simp
  | some m =>
    cases hc : m.get .cfa with
    | none => simp [hc]
    | some cfaE =>
      cases hr : m.get .ra with
      | none => simp [hc, hr]
      | some raE =>
        cases he1 : evalCfi w.env none cfaE with
        | none => simp [hc, hr, he1]
        | some cfa =>
          cases he2 : evalCfi w.env (some cfa) raE with
          | none => simp [hc, hr, he1, he2]
          | some ra =>
            by_cases hf1 : w.fits cfa = true
            · by_cases hf2 : w.fits ra = true
              · simp only [hc, hr, he1, he2, Walker.setCfa, Walker.setRa, Walker.caller0, hf1, hf2, if_true,
                  Option.some.injEq]
                constructor
                · intro h; exact ⟨m, cfaE, raE, cfa, ra, rfl, hc, hr, he1, he2, hf1, hf2, h.symm⟩
                · rintro ⟨m', cfaE', raE', cfa', ra', hm, hc', hr', h1, h2, _, _, hcc⟩
                  cases hm; rw [hc] at hc'; cases hc'; rw [hr] at hr'; cases hr'
                  rw [he1] at h1; cases h1; rw [he2] at h2; cases h2; exact hcc.symm
              · simp [hc, hr, he1, he2, Walker.setCfa, Walker.setRa, Walker.caller0, hf1, hf2]
            · simp [hc, hr, he1, he2, Walker.setCfa, hf1]

/-- **C06.5a (`cfa_first`)** "the CFA is computed first": the caller's CFA is the value of the
    `.cfa` rule evaluated with no CFA available, the caller's return address is the value of the
    `.ra` rule evaluated with that CFA. -/
theorem cfa_first (w : Walker) (lines : List Bytes) (c : Caller) (h : walkCfi w lines = some c) :
    ∃ m cfaE raE cfa ra, parseAll lines [] = some m ∧ m.get .cfa = some cfaE ∧ m.get .ra = some raE ∧
      evalCfi w.env none cfaE = some cfa ∧ evalCfi w.env (some cfa) raE = some ra ∧
      c.cfa = some cfa ∧ c.ra = some ra := by
  obtain ⟨m, cfaE, raE, cfa, ra, hm, hc, hr, h1, h2, _, _, rfl⟩ := (walkCfi_some_iff w lines c).mp h
  refine ⟨m, cfaE, raE, cfa, ra, hm, hc, hr, h1, h2, ?_, ?_⟩
  · exact (foldl_applyOther_cfa_ra w cfa _ _).1
  · exact (foldl_applyOther_cfa_ra w cfa _ _).2

theorem classify_cfa : classify tCfa = .cfa := by decide

/-- **C06.5b (`cfa_no_self`)** "may not refer to itself": if the `.cfa` rule mentions `.cfa`
    anywhere, the walk fails. -/
theorem cfa_no_self (w : Walker) (lines : List Bytes) (m : RuleMap) (cfaE : Expr)
    (hm : parseAll lines [] = some m) (hc : m.get .cfa = some cfaE) (hself : tCfa ∈ cfaE) :
    walkCfi w lines = none := by
  have hfail : evalCfi w.env none cfaE = none := by
    obtain ⟨pre, post, rfl⟩ := List.append_of_mem hself
    unfold evalCfi
    simp only [List.map_append, List.map_cons, classify_cfa]
    exact cfa_unavailable_fails _ _ _
  cases hw : walkCfi w lines with
  | none => rfl
  | some c =>
    obtain ⟨m', cfaE', _, cfa, _, hm', hc', _, h1, _⟩ := (walkCfi_some_iff w lines c).mp hw
    rw [hm] at hm'; cases hm'
    rw [hc] at hc'; cases hc'
    rw [hfail] at h1; cases h1

/-- **C06.5c (`ra_mandatory`)** "a return-address rule is mandatory" (and so is the CFA rule):
    without a `.ra` rule, or a `.cfa` rule, or when either fails to evaluate, the walk fails —
    whatever the other rules are. -/
theorem ra_mandatory (w : Walker) (lines : List Bytes) (m : RuleMap) (hm : parseAll lines [] = some m) :
    (m.get .ra = none → walkCfi w lines = none) ∧
    (m.get .cfa = none → walkCfi w lines = none) ∧
    (∀ cfaE, m.get .cfa = some cfaE → evalCfi w.env none cfaE = none → walkCfi w lines = none) ∧
    (∀ cfaE raE cfa, m.get .cfa = some cfaE → m.get .ra = some raE →
        evalCfi w.env none cfaE = some cfa → evalCfi w.env (some cfa) raE = none →
        walkCfi w lines = none) := by
  refine ⟨?_, ?_, ?_, ?_⟩
  · intro h
    cases hw : walkCfi w lines with
    | none => rfl
    | some c =>
      obtain ⟨m', _, _, _, _, hm', _, hr, _⟩ := (walkCfi_some_iff w lines c).mp hw
      rw [hm] at hm'; cases hm'; rw [h] at hr; cases hr
  · intro h
    cases hw : walkCfi w lines with
    | none => rfl
    | some c =>
      obtain ⟨m', _, _, _, _, hm', hc, _⟩ := (walkCfi_some_iff w lines c).mp hw
      rw [hm] at hm'; cases hm'; rw [h] at hc; cases hc
  · intro cfaE hc he
    cases hw : walkCfi w lines with
    | none => rfl
    | some c =>
      obtain ⟨m', _, _, _, _, hm', hc', _, h1, _⟩ := (walkCfi_some_iff w lines c).mp hw
      rw [hm] at hm'; cases hm'; rw [hc] at hc'; cases hc'; rw [he] at h1; cases h1
  · intro cfaE raE cfa hc hr h1 h2
    cases hw : walkCfi w lines with
    | none => rfl
    | some c =>
      obtain ⟨m', _, _, _, _, hm', hc', hr', h1', h2', _⟩ := (walkCfi_some_iff w lines c).mp hw
      rw [hm] at hm'; cases hm'; rw [hc] at hc'; cases hc'; rw [hr] at hr'; cases hr'
      rw [h1] at h1'; cases h1'; rw [h2] at h2'; cases h2'

/-- a parse failure of any line (INIT or an applicable delta) fails the walk -/
theorem parse_failure_fails (w : Walker) (lines : List Bytes) (h : parseAll lines [] = none) :
    walkCfi w lines = none := by
  unfold walkCfi; rw [h]


/-! ## 6. every other register: set from its rule, or unknown when the rule fails -/

/-- **C06.6 (`reg_set_or_unknown`)** "each other register is set from its rule or marked unknown
    when its rule fails". After a successful walk with rule map `m` and CFA `cfa`, for a register
    `r` of the walker:
    * if `p = (label, expr)` is the one rule whose label denotes `r` (directly or through an
      alias), the caller's `r` is the rule's value when the rule evaluates (with the CFA
      available) **and** the value fits the register width, and **unknown** otherwise — even if
      the callee's value had been forwarded (a value the register cannot hold counts as a failed
      rule: fix 15b778b; on 64-bit walkers every value fits, `fits_of_ptr8`);
    * if no rule's label denotes `r`, the caller's `r` is what was forwarded from the callee. -/
theorem reg_set_or_unknown (w : Walker) (lines : List Bytes) (c : Caller)
    (h : walkCfi w lines = some c) :
    ∃ m cfa, parseAll lines [] = some m ∧ c.cfa = some cfa ∧
      (∀ r p, p ∈ others m → w.memo p.1 = some r →
          (∀ q ∈ others m, w.memo q.1 = some r → q = p) →
          c.get r = match evalCfi w.env (some cfa) p.2 with
                    | some v => if w.fits v then some v else none
                    | none => none) ∧
      (∀ r, (∀ q ∈ others m, w.memo q.1 ≠ some r) → c.get r = lookupName w.fwd r) := by
  obtain ⟨m, cfaE, raE, cfa, ra, hm, _, _, _, _, _, _, rfl⟩ := (walkCfi_some_iff w lines c).mp h
  refine ⟨m, cfa, hm, (foldl_applyOther_cfa_ra w cfa _ _).1, ?_, ?_⟩
  · intro r p hp hmemo huniq
    rw [get_foldl_applyOther]
    have hperm := sortBy_perm (fun a b : Name × Expr => bytesLe a.1 b.1) (others m)
    rw [sortOthers, foldl_upd_unique w cfa r p _ _ (hperm.mem_iff.mpr hp) hmemo
      (fun q hq => huniq q (hperm.mem_iff.mp hq))]
    simp only [upd, hmemo, if_true, Caller.get]
    cases evalCfi w.env (some cfa) p.2 <;> rfl
  · intro r hnone
    rw [get_foldl_applyOther]
    have hperm := sortBy_perm (fun a b : Name × Expr => bytesLe a.1 b.1) (others m)
    rw [sortOthers, foldl_upd_of_not_memo w cfa r _ _ (fun q hq => hnone q (hperm.mem_iff.mp hq))]
    rfl

/-- on a 64-bit walker every value fits: the register is set exactly when its rule evaluates -/
theorem fits_of_ptr8 (w : Walker) (hp : w.ptr = 8) (v : UInt64) : w.fits v = true := by
  simp only [Walker.fits, hp, decide_eq_true_eq]
  exact v.toNat_lt

/-! ## 7. independence of the iteration order of the rule map -/

/-- **C06.7 (`order_independent`)** If no two labels denote the same register, processing the
    remaining rules in *any* order (any permutation of the hash map's entries) yields the same
    caller: same CFA, same return address, same value-or-unknown for every register. -/
theorem order_independent (w : Walker) (cfa : UInt64) (l₁ l₂ : List (Name × Expr)) (c : Caller)
    (hperm : l₁.Perm l₂)
    (hdistinct : ∀ x ∈ l₁, ∀ y ∈ l₁, w.memo x.1 = w.memo y.1 → w.memo x.1 ≠ none → x = y) :
    (l₁.foldl (applyOther w cfa) c).cfa = (l₂.foldl (applyOther w cfa) c).cfa ∧
    (l₁.foldl (applyOther w cfa) c).ra = (l₂.foldl (applyOther w cfa) c).ra ∧
    ∀ r, (l₁.foldl (applyOther w cfa) c).get r = (l₂.foldl (applyOther w cfa) c).get r := by
  refine ⟨?_, ?_, ?_⟩
  · rw [(foldl_applyOther_cfa_ra w cfa l₁ c).1, (foldl_applyOther_cfa_ra w cfa l₂ c).1]
  · rw [(foldl_applyOther_cfa_ra w cfa l₁ c).2, (foldl_applyOther_cfa_ra w cfa l₂ c).2]
  · intro r
    rw [get_foldl_applyOther, get_foldl_applyOther]
    apply List.Perm.foldl_eq' hperm
    intro x hx y hy z
    apply upd_comm
    intro h1 h2
    exact hdistinct x hx y hy (h1.trans h2.symm) (by rw [h1]; simp)

/-- **C06.7b** Whatever the labels denote: the order in which `walk_with_stack_cfi` processes the
    remaining rules (sorted by name) is a function of the *set* of rules, not of the order in which
    the hash map yields them (the map has one entry per name). Feeds C13. -/
theorem sorted_order_canonical (l₁ l₂ : List (Name × Expr)) (hperm : l₁.Perm l₂)
    (hkeys : ∀ x ∈ l₁, ∀ y ∈ l₁, x.1 = y.1 → x = y) : sortOthers l₁ = sortOthers l₂ := by
  unfold sortOthers
  let le := fun a b : Name × Expr => bytesLe a.1 b.1
  have htot : ∀ a b : Name × Expr, le a b = true ∨ le b a = true := fun a b => bytesLe_total a.1 b.1
  have htr : ∀ a b c : Name × Expr, le a b = true → le b c = true → le a c = true :=
    fun a b c => bytesLe_trans a.1 b.1 c.1
  apply List.Perm.eq_of_pairwise (le := fun a b => le a b = true)
  · intro a b ha hb h1 h2
    have ha' : a ∈ l₁ := (sortBy_perm le l₁).mem_iff.mp ha
    have hb' : b ∈ l₁ := hperm.mem_iff.mpr ((sortBy_perm le l₂).mem_iff.mp hb)
    exact hkeys a ha' b hb' (bytesLe_antisymm _ _ h1 h2)
  · exact sortBy_pairwise le htot htr l₁
  · exact sortBy_pairwise le htot htr l₂
  · exact ((sortBy_perm le l₁).trans hperm).trans (sortBy_perm le l₂).symm

end MdModel.Cfi
