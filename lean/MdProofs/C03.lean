/-
  C03 — Processing any dump with any symbols terminates, never panics, always renders.

  Property text: "For every byte string accepted as a minidump together with arbitrary bytes served
  as symbol files for its modules, full processing under every option set returns a result or an
  error without panicking and within a time and memory budget tied to the input size. No thread is
  walked for more frames than its stack memory has bytes (plus two), and the resulting state can
  always be written as full text, brief text and JSON."

  LEVEL: proof, PARTIAL. What the theorems below carry:
   (1) the walk bound and the termination of the walk loop — C05's `walk_bound` and
       `walk_fuel_enough` about `MdModel.Walk.walk`, restated here as the C03 obligation;
   (2) `no panic outcome` for every arithmetic kernel of the pipeline named in the anchors, each
       modelled in `MdModel.Process` with CHECKED operations exactly as the code is now, for ALL
       inputs (hypotheses only where the code relies on an invariant established elsewhere; each
       is named and has a non-vacuity `example`);
   (2b) the whole crashing-instruction analysis (op_analysis.rs) over an ABSTRACT decoded
       instruction (`MdModel.OpAnalysis`): no panic inside the decoder's `Shape`, `Shape` is exact,
       every reported access is the documented function of the operands, the register set;
   (2c) the whole x86 argument recovery (arg_recovery.rs) at byte level (`MdModel.ArgRecovery`):
       no panic on valid-UTF-8 names and u32 stack pointers; termination by construction;
   (2d) the remaining small sites (STACK WIN evaluator = C07's theorem, time stamp, stat counters);
   (3) `render_total`: the printers' own arithmetic is total on every state satisfying the reader
       and frame invariants, and the frame invariants are discharged for every stack the walk
       model returns (`render_walk_frames_total`, on top of C05/C08).
  What they cannot carry (SAMPLED / MEASURED by engine `process`, see propcfg/C03.json): that the
  yaxpeax-x86 decoder only produces instructions inside `Shape` (systematic sweep), panics inside
  code that is not modelled (yaxpeax-x86, procfs-core, serde_json, encoding_rs, time, debugid, the
  `format!`/`write!` machinery), real time (wall-clock budget) and memory (counting allocator
  against an explicit budget affine in dump length + symbol bytes + frames — by (1) affine in
  the input size), and the glue between the kernels.
-/
import MdProofs.C05
import MdProofs.C07
import MdProofs.Lemmas.Process
import MdProofs.Lemmas.OpAnalysis
import MdProofs.Lemmas.ArgRecovery
namespace MdModel.Process
open MdModel MdModel.Walk

/-! ## (1) "No thread is walked for more frames than its stack memory has bytes (plus two)" -/

/-- **C03, frame bound.** For every unwinding environment (arbitrary CFI / STACK WIN results,
    arbitrary symbol files), every stack memory (or none) and every register context: the call
    stack `walk_stack` returns has at most `stack bytes + 2` frames. (= C05 `walk_bound`.) -/
theorem c03_walk_bound (env : Env) (mem : Option Mem) (ctx : Ctx) :
    (walk env mem ctx).length ≤ (mem.map Mem.size).getD 0 + 2 :=
  walk_bound env mem ctx

/-- **C03, the walk loop terminates**: the loop of `walk_stack` ends by itself within
    `stack bytes + 2` iterations — giving it more fuel changes nothing. (= C05 `walk_fuel_enough`.) -/
theorem c03_walk_terminates (env : Env) (m : Mem) (ctx : Ctx) (n : Nat) (hn : m.size + 2 ≤ n) :
    walkLoop env m n (Frame.ofCtx ctx .context) none =
      walkLoop env m (m.size + 2) (Frame.ofCtx ctx .context) none :=
  walk_fuel_enough env m ctx n hn

/-- **"within a … budget tied to the input size" — the part a theorem carries.** A thread's stack
    memory is a slice of the dump (its bytes are borrowed from the file), so no thread has more
    frames than the dump has bytes, plus two; the work of unwinding is linear in the input.
    (Wall-clock time and allocator behaviour themselves are sampled, not proved.) -/
theorem c03_frames_le_input (env : Env) (m : Mem) (ctx : Ctx) (dumpLen : Nat) (h : m.size ≤ dumpLen) :
    (walk env (some m) ctx).length ≤ dumpLen + 2 := by
  have := walk_bound env (some m) ctx
  simp only [Option.map_some, Option.getD_some] at this
  omega

/-- the bound the engine evaluates on the implementation's frame counts is this one -/
theorem boundOk_iff (frames bytes : Nat) : boundOk frames bytes = true ↔ frames ≤ bytes + 2 := by
  simp [boundOk]

/-! ## (2) "without panicking": the arithmetic kernels -/

/-- **`LinuxProcLimits::from` never panics**, whatever the `/proc/<pid>/limits` text is: the field
    vector is indexed at 0, 1, 2 (and 3) only after `.filter(|m| m.len() >= 3)`. -/
theorem limits_no_panic (text : List Char) : NoPanic (parseLimits text) := by
  unfold parseLimits
  apply mapO_ok
  intro m hm
  have h := of_decide_eq_true (List.mem_filter.mp hm).2
  -- the constant read off the source must be at least 3 (it is 3)
  have h3 : 3 ≤ LIMIT_MIN_FIELDS := by decide
  exact limitLine_ok m (Nat.le_trans h3 h)

/-- the filter is what carries it: a field vector shorter than three panics in the closure (this
    was finding F9; the model of the closure is faithful to the indexing) -/
example : limitLine ["Max cpu time".toList] = .panic "limits: m[3]" := by rfl
example : limitLine ["a".toList, "b".toList, "c".toList] =
    .ok { name := "a".toList, soft := .limited 0, hard := .limited 0, unit := "n/a".toList } := by rfl

/-- **`check_for_guard_pages` never panics**: for every region list (`by_addr()`), every region
    kind and every region found at the accessed address — including regions ending at 2^64-1
    (`checked_add(1)`), empty or overflowing regions (`memory_range()` is `None`) and the
    subtraction `range.end - range.start` (ordered by construction). -/
theorem guard_no_panic (k : InfoKind) (byAddr : List RawRegion) (info : RawRegion) :
    NoPanic (guardFlag k byAddr info) :=
  guardFlag_ok k byAddr info

/-- Linux maps (end inclusive): a guard page right below the last page of the address space;
    the last page ends at 2^64-1 and `end + 1` does not exist (`checked_add` is `None`, F10) -/
example : guardFlag .maps [⟨2^64 - 8192, 2^64 - 4097, false⟩, ⟨2^64 - 4096, 2^64 - 1, true⟩]
    ⟨2^64 - 8192, 2^64 - 4097, false⟩ = .ok true := by decide
/-- the region that ends at 2^64-1 itself, as the accessed one -/
example : guardFlag .maps [⟨2^64 - 8192, 2^64 - 4097, true⟩, ⟨2^64 - 4096, 2^64 - 1, false⟩]
    ⟨2^64 - 4096, 2^64 - 1, false⟩ = .ok true := by decide
example : guardFlag .maps [⟨2^64 - 4096, 2^64 - 1, false⟩] ⟨2^64 - 4096, 2^64 - 1, false⟩ = .ok false := by decide
/-- memory-info regions: one whose `base + size` is 2^64 has no range at all and is skipped -/
example : guardFlag .info [⟨2^64 - 8192, 4096, false⟩, ⟨2^64 - 4096, 4096, true⟩] ⟨2^64 - 8192, 4096, false⟩ = .ok false := by
  decide
example : guardFlag .info [⟨4096, 4096, true⟩, ⟨8192, 4096, false⟩] ⟨8192, 4096, false⟩ = .ok true := by decide

/-- **the implicit stack access of push/call wraps** (`rsp.wrapping_sub(8)`): it is a `u64` for
    every `rsp`, equals `rsp - 8` when that exists and `rsp + 2^64 - 8` below 8 — no panic outcome
    exists in this kernel at all. -/
theorem implicit_access_total (rsp : Nat) (h : rsp ≤ U64MAX) :
    (∀ op, implicitAccess op rsp ≤ U64MAX) ∧
    (8 ≤ rsp → implicitAccess .push rsp = rsp - 8 ∧ implicitAccess .call rsp = rsp - 8) ∧
    (rsp < 8 → implicitAccess .push rsp = rsp + 2 ^ 64 - 8 ∧ implicitAccess .call rsp = rsp + 2 ^ 64 - 8) ∧
    (implicitAccess .pop rsp = rsp ∧ implicitAccess .ret rsp = rsp) := by
  have hu : U64MAX = 18446744073709551615 := rfl
  refine ⟨?_, ?_, ?_, rfl, rfl⟩
  · intro op
    cases op <;> simp only [implicitAccess, wrappingSub64, Consts.push_adjust, TWO64]
    all_goals first
      | omega
      | (by_cases h8 : 8 ≤ rsp <;> simp only [h8, if_true, if_false] <;> omega)
  · intro h8
    simp [implicitAccess, wrappingSub64, Consts.push_adjust, h8]
  · intro h8
    have : ¬ 8 ≤ rsp := by omega
    have e : (2 : Nat) ^ 64 = 18446744073709551616 := by decide
    simp [implicitAccess, wrappingSub64, Consts.push_adjust, TWO64, this, e]

example : implicitAccess .push 0 = 2 ^ 64 - 8 := by decide
example : implicitAccess .call 7 = 2 ^ 64 - 1 := by decide

/-- **`win_frame_size` cannot overflow**: it answers exactly when the u32 sum exists. -/
theorem win_frame_size_sound (i : WinInfo) (gcps : Nat) :
    (∀ v, winFrameSize i gcps = some v → v = i.localSize + i.savedSize + gcps ∧ v ≤ U32MAX) ∧
    (winFrameSize i gcps = none → U32MAX < i.localSize + i.savedSize + gcps) := by
  refine ⟨fun v h => winFrameSize_le h, ?_⟩
  intro h
  unfold winFrameSize checkedAdd32 at h
  by_cases h1 : i.localSize + i.savedSize ≤ U32MAX
  · simp only [h1, if_true, Option.bind_some] at h
    by_cases h2 : i.localSize + i.savedSize + gcps ≤ U32MAX
    · simp [h2] at h
    · omega
  · omega

/-- F6's input: `STACK WIN 4 … ffffffff ffffffff …` has no frame size (the rule fails) -/
example : winFrameSize ⟨4294967295, 4294967295, 0, false⟩ 0 = none := by decide

/-- **`.raSearchStart` cannot overflow** (`checked_add` throughout): when it exists it is a u32 -/
theorem search_start_le (i : WinInfo) (gcps esp ebp : Nat) (aligned : Bool) (v : Nat)
    (h : searchStart i gcps esp ebp aligned = some v) : v ≤ U32MAX := by
  unfold searchStart at h
  split at h
  · exact (checkedAdd32_le h).2
  · cases hf : winFrameSize i gcps with
    | none => rw [hf] at h; cases h
    | some fs => rw [hf] at h; exact (checkedAdd32_le h).2

/-- **the FPO walk never panics** when its operands are what an x86 frame supplies: `esp` is a
    register of `CONTEXT_X86` (the only context that knows a register named `esp`; u32), the
    sizes are u32 fields of the STACK WIN record, the grand callee's parameter size is a u32.
    The `ebp` slot `esp + params + saved - 8` is `checked_sub` (F7), the frame size `checked_add` (F6). -/
theorem fpo_no_panic (i : WinInfo) (x : FpoIn)
    (hesp : ∀ e, x.esp = some e → e ≤ U32MAX) (hg : x.gcps ≤ U32MAX) (hs : i.savedSize ≤ U32MAX) :
    NoPanic (fpo i x) := by
  have hu := u64_u32
  have hw := fpo_word_eq
  unfold fpo
  cases hf : winFrameSize i x.gcps with
  | none => exact ⟨none, rfl⟩
  | some fs =>
    simp only
    cases he : x.esp with
    | none => exact ⟨none, rfl⟩
    | some esp =>
      simp only
      have hesp' := hesp esp he
      have hfs := (winFrameSize_le hf).2
      obtain ⟨o, ho, hb⟩ := fpoEip_ok x esp fs hesp' hfs
      rw [ho]
      cases o with
      | none => exact ⟨none, rfl⟩
      | some p =>
        obtain ⟨a, e⟩ := p
        simp only
        have ha := hb a e rfl
        rw [cadd64_ok _ _ _ (by omega)]
        simp only
        obtain ⟨q, hq⟩ := fpoEbp_ok i x esp hesp' hg hs
        rw [hq]
        cases q with
        | none => exact ⟨none, rfl⟩
        | some r =>
          obtain ⟨c, d⟩ := r
          simp only
          split <;> exact ⟨_, rfl⟩

/-- F7's input: FPO record that allocates a base pointer with `esp = 4`: the slot would be below
    address 0; the walk fails instead of underflowing -/
example : fpo ⟨0, 0, 0, true⟩ ⟨some 4, some 0, some 0, none, 0, true, fun _ => some 4096⟩ = .ok none := by rfl
/-- a regular FPO frame: return address at `esp + locals + saved`, caller esp right above it -/
example : fpo ⟨8, 4, 0, false⟩ ⟨some 100, some 1, some 77, some 5, 0, true, fun a => if a = 112 then some 4096 else none⟩ =
    .ok (some { eip := 4096, esp := 116, ebp := 77, ebx := some 5 }) := by rfl
/-- the hypothesis is needed by the model (a 64-bit `esp` next to 2^64 would overflow `callee_esp +
    frame_size`) and cannot arise: only `CONTEXT_X86` has a register `esp` -/
example : fpo ⟨8, 4, 0, false⟩ ⟨some (2 ^ 64 - 4), none, none, none, 0, true, fun _ => none⟩ =
    .panic "fpo: callee_esp + frame_size" := by rfl

/-- **the unloaded-module offsets of a frame never underflow** (processor.rs:1180): the offset is
    taken only for modules whose range contains the address. -/
theorem unloaded_offsets_no_panic (instr : Nat) (unl : List ModRaw) : NoPanic (unloadedOffsets instr unl) := by
  unfold unloadedOffsets
  apply mapO_ok
  intro m hm
  have h := (List.mem_filter.mp hm).2
  simp only [decide_eq_true_eq] at h
  rw [csub_ok _ _ _ h.1]
  exact ⟨_, rfl⟩

/-- **reading the crashing instruction** (op_analysis.rs:213): inside the region
    `memory_at_address(ip)` returned, the offset exists and the slice start is in bounds. -/
theorem instruction_offset_no_panic (ip base len : Nat) (h1 : base ≤ ip) (h2 : ip - base < len) :
    NoPanic (instructionOffset ip base len) := by
  unfold instructionOffset
  rw [csub_ok _ _ _ h1, bind_ok]
  have : ip - base ≤ len := by omega
  simp only [this, if_true]
  exact ⟨_, rfl⟩

example : instructionOffset 4100 4096 16 = .ok 4 := by rfl

/-- **`BitFlipDetails::confidence`**: `min(nearby, 4) - 1` is an index of the 4-element table -/
theorem nearby_index_no_panic (nearby : Nat) : NoPanic (nearbyIndex nearby) := by
  unfold nearbyIndex
  split
  · rename_i h
    rw [csub_ok _ _ _ (by omega), bind_ok]
    have : min nearby 4 - 1 < 4 := by omega
    simp only [this, if_true]
    exact ⟨_, rfl⟩
  · exact ⟨none, rfl⟩

/-- **argument recovery** (arg_recovery.rs:100-120): the read head starts at an x86 stack pointer
    (u32) or at the stack's end, is advanced by 4 only while below the limit, once per argument —
    it cannot overflow while `start + 4 * pops` fits (`pops` ≤ length of the function name). -/
theorem arg_read_head_no_panic (start limit : Nat) :
    ∀ n, start + 4 * n ≤ U64MAX → ∃ h, argReadHead start limit n = .ok h ∧ h ≤ start + 4 * n := by
  intro n
  induction n with
  | zero => intro _; exact ⟨start, rfl, by omega⟩
  | succ n ih =>
    intro hb
    obtain ⟨h, hh, hle⟩ := ih (by omega)
    have hw : Consts.arg_pointer_width = 4 := rfl
    simp only [argReadHead, hh]
    split
    · rw [cadd64_ok _ _ _ (by omega)]
      exact ⟨_, rfl, by omega⟩
    · exact ⟨h, rfl, by omega⟩

example : argReadHead 4294967292 4294967295 3 = .ok 4294967296 := by rfl

/-! ## (2b) "without panicking": the crashing-instruction analysis (op_analysis.rs, amd64)

`MdModel.OpAnalysis` is the whole decision logic of `amd64::analyze_instruction` over an abstract
decoded instruction (opcode name, `mem_size`, the `Operand` variants of yaxpeax-x86), with the
nine `panic!("… unexpected memory operand")` arms, `assert_eq!(operand_count(), 1)` and yaxpeax's
`assert!(i < 4)` as panic outcomes. -/

section OpAnalysisTheorems
open MdModel.OpAnalysis

/-- **no panic arm is reachable from an instruction of the decoder's shape**, whatever the register
    file, the memory list and the stack memory are: at most four operands, exactly one for
    CALL/CALLF/JMP/JMPF/JMPE, and memory operands of an access-derivable opcode only where the
    `match idx` arms expect them (`Shape`). -/
theorem op_analysis_no_panic (i : Instr) (env : OpAnalysis.Env) (h : Shape i = true) : NoPanic (analyze i env) := by
  rcases isPanic_or_noPanic (analyze i env) with hp | hn
  · exfalso
    rcases (analyze_isPanic_iff i env).mp hp with h1 | h2 | h3
    · exact not_isPanic_of_noPanic (memAccesses_ok i env.rf h) h1
    · exact not_isPanic_of_noPanic (ipUpdate_ok i env h) h2
    · exact not_isPanic_of_noPanic (getRegisters_ok i.operands 0 [] (by have := (shape_unpack i h).1; omega)) h3
  · exact hn

/-- **`Shape` is exact**: with every register valid, an abstract instruction reaches a `panic!` /
    `assert_eq!` / `assert!` if and only if it is outside `Shape`. So the abstract instructions that
    panic are precisely: more than four operands; a CALL/CALLF/JMP/JMPF/JMPE without exactly one
    operand; a memory-accessing ADD/SUB/CMP/UCOMISS/MOV/MOVAPS/MOVUPS/LEA with a memory operand at
    position ≥ 2, CALL/JMP/JMPF/PUSH/DEC/INC/POP with one at position ≥ 1, RETURN/RETF/Jcc with
    any memory operand. (No byte sequence yaxpeax-x86 2.0 decodes was found to produce one — sampled.) -/
theorem op_analysis_panic_iff (i : Instr) (readMem : Nat → Option Nat) (readStack : Option (Nat → Option Nat)) :
    IsPanic (analyze i ⟨allValid, readMem, readStack⟩) ↔ Shape i = false := by
  constructor
  · intro hp
    cases hs : Shape i with
    | false => rfl
    | true => exact absurd hp (not_isPanic_of_noPanic (op_analysis_no_panic i _ hs))
  · intro hs
    rw [analyze_isPanic_iff]
    by_cases h1 : i.operands.length ≤ 4
    · by_cases h2 : ipClass i.opc = .callLike ∧ i.operands.length ≠ 1
      · exact Or.inr (Or.inl (ipUpdate_panic i _ h2.1 h2.2))
      · left
        simp only [Shape, h1, decide_true, Bool.true_and] at hs
        have h2' : (ipClass i.opc != .callLike || decide (i.operands.length = 1)) = true := by
          by_cases hc : ipClass i.opc = .callLike
          · have : i.operands.length = 1 := by
              by_cases hl : i.operands.length = 1
              · exact hl
              · exact absurd ⟨hc, hl⟩ h2
            simp [this]
          · simp [hc]
        rw [h2', Bool.true_and] at hs
        cases hms : i.memSize with
        | none => rw [hms] at hs; simp at hs
        | some ms =>
          cases had : derivable i.opc with
          | none => rw [hms, had] at hs; simp at hs
          | some ad =>
            rw [hms, had] at hs
            exact memAccesses_panic i ms ad hms had hs
    · exact Or.inr (Or.inr (getRegisters_panic i.operands 0 [] (by omega) (by omega)))

/-- opcodes that are neither access-derivable nor CALL/JMP-like never reach a panic arm (≤ 4 operands) -/
theorem op_analysis_other_opcodes (i : Instr) (env : OpAnalysis.Env) (h4 : i.operands.length ≤ 4)
    (hd : derivable i.opc = none) (hc : ipClass i.opc ≠ .callLike) : NoPanic (analyze i env) := by
  apply op_analysis_no_panic
  simp only [Shape, h4, decide_true, Bool.true_and, hd, Bool.and_eq_true, Bool.or_eq_true, bne_iff_ne, ne_eq]
  refine ⟨Or.inl hc, ?_⟩
  cases i.memSize <;> rfl

/-- **"every reported memory access address is the documented function of the operands".**
    Every access `memory_access_list` reports is
    * an explicit one: it belongs to a memory operand `operands[k]` whose `MemoryOperandInfo` is
      `(base, index, scale, disp)`, its address is
      `(B + I * scale + disp) mod 2^64` — `B`, `I` the values of the base / index registers (0 when
      absent), `scale` defaulting to 1, `disp` the sign-extended displacement (`i32`, or the
      `u32`/`u64` absolute address reinterpreted as `i32`/`i64`) —, flagged as a null-pointer
      dereference exactly when there is a base register holding 0, with the instruction's `mem_size`; or
    * the implicit stack slot of an access-derivable CALL/PUSH/POP/RETF/RETURN. -/
theorem op_access_documented (i : Instr) (rf : Reg → Option Nat) (l : List MemAccess)
    (h : memAccesses i rf = .ok (.ok l)) :
    ∀ m ∈ l,
      (∃ (k : Nat) (op : Operand) (inf : OpInfo) (B I : Nat), i.operands[k]? = some op ∧ op.isMemory = true ∧ opInfo op = some inf ∧
          regVal rf inf.base = some B ∧ regVal rf inf.index = some I ∧
          (m.info.address : Int) =
            ((B : Int) + (I : Int) * ((inf.scale.getD 1 : Nat) : Int) + inf.disp.getD 0) % 18446744073709551616 ∧
          m.info.null = (inf.base.isSome && B == 0) ∧ i.memSize = some m.size) ∨
      (∃ ad ms, derivable i.opc = some ad ∧ i.memSize = some ms ∧ m ∈ implicitAccesses ad rf ms) := by
  intro m hm
  unfold memAccesses at h
  cases hms : i.memSize with
  | none =>
    rw [hms] at h
    simp only [Outcome.ok.injEq, Res.ok.injEq] at h
    subst h
    cases hm
  | some ms =>
    rw [hms] at h
    simp only at h
    cases had : derivable i.opc with
    | none =>
      rw [had] at h
      simp only at h
      obtain ⟨k, op, l', hk, hf, hml⟩ := operandLoop_mem _ i.operands 0 l h m hm
      obtain ⟨hmem, _, hsz, inf, hinf, haddr⟩ := explicitUnderivable_mem rf ms op l' hf m hml
      obtain ⟨B, I, hB, hI, hform, hnull⟩ := addrOfInfo_spec rf inf m.info haddr
      exact Or.inl ⟨k, op, inf, B, I, hk, hmem, hinf, hB, hI, hform, hnull, by rw [hsz]⟩
    | some ad =>
      rw [had] at h
      simp only at h
      cases hl : operandLoop (explicitDerivable ad rf ms) 0 i.operands with
      | panic s => rw [hl] at h; cases h
      | ok r =>
        rw [hl] at h
        cases r with
        | regInvalid => cases h
        | ok l1 =>
          simp only [Outcome.ok.injEq, Res.ok.injEq] at h
          subst h
          rcases List.mem_append.mp hm with h1 | h2
          · obtain ⟨k, op, l', hk, hf, hml⟩ := operandLoop_mem _ i.operands 0 l1 hl m h1
            obtain ⟨hmem, _, hsz, inf, hinf, haddr⟩ := explicitDerivable_mem ad rf ms (0 + k) op l' hf m hml
            obtain ⟨B, I, hB, hI, hform, hnull⟩ := addrOfInfo_spec rf inf m.info haddr
            exact Or.inl ⟨k, op, inf, B, I, hk, hmem, hinf, hB, hI, hform, hnull, by rw [hsz]⟩
          · exact Or.inr ⟨ad, ms, rfl, rfl, h2⟩

/-- the implicit stack slot: CALL/PUSH write `rsp.wrapping_sub(8)` (the kernel `implicitAccess` of
    `implicit_access_total`), POP/RETF/RETURN read `rsp`; nothing when `rsp` is invalid or for
    another opcode -/
theorem op_implicit_access (ad : AD) (rf : Reg → Option Nat) (ms : Option Nat) :
    implicitAccesses ad rf ms =
      match rf "rsp" with
      | none => []
      | some rsp =>
        if ad = .CALL ∨ ad = .PUSH then
          [{ info := { address := implicitAccess .push rsp, null := implicitAccess .push rsp == 0 }, size := ms, ty := .write }]
        else if ad = .POP ∨ ad = .RETF ∨ ad = .RETURN then
          [{ info := { address := implicitAccess .pop rsp, null := rsp == 0 }, size := ms, ty := .read }]
        else [] := by
  cases ad <;> cases h : rf "rsp" <;> simp [implicitAccesses, implicitAccess, h]

/-- **an explicit access fails (the whole list is `None`) exactly on an invalid base or index
    register** — there is no other error path in the address derivation -/
theorem op_address_total (rf : Reg → Option Nat) (inf : OpInfo) :
    (∃ a, addrOfInfo rf inf = .ok a) ∨ (regVal rf inf.base = none ∨ regVal rf inf.index = none) := by
  cases h : addrOfInfo rf inf with
  | ok a => exact Or.inl ⟨a, rfl⟩
  | regInvalid => exact Or.inr ((addrOfInfo_invalid rf inf).mp h)

/-- **the register set** (`get_registers`): exactly the base and index registers of the operands
    that have a `MemoryOperandInfo` (the masked AVX-512 memory operands have none) -/
theorem op_registers_spec (i : Instr) (env : OpAnalysis.Env) (a : Analysis) (h : analyze i env = .ok a) :
    ∀ r, r ∈ a.registers ↔ ∃ op ∈ i.operands, ∃ inf, opInfo op = some inf ∧ (inf.base = some r ∨ inf.index = some r) := by
  intro r
  unfold analyze at h
  cases h1 : memAccesses i env.rf with
  | panic s => rw [h1] at h; cases h
  | ok acc =>
    rw [h1] at h
    simp only at h
    cases h2 : ipUpdate i env with
    | panic s => rw [h2] at h; cases h
    | ok ip =>
      rw [h2] at h
      simp only at h
      cases h3 : getRegisters 0 i.operands [] with
      | panic s => rw [h3] at h; cases h
      | ok regs =>
        rw [h3] at h
        simp only [Outcome.ok.injEq] at h
        subst h
        simp only
        rw [mem_getRegisters i.operands 0 [] regs h3 r]
        simp

/-- the classification of an opcode name by the lists read off op_analysis.rs (generated tables) -/
def ipClassOfName (n : String) : IpClass :=
  if Tables.calllike_names.contains n then .callLike
  else if Tables.retlike_names.contains n then .retLike
  else if Tables.jcc_names.contains n then .jcc
  else .other

/-- **the model's opcode classification is the source's**: for every opcode the model knows,
    `AccessDerivableOpcode::from_opcode`, `is_privileged`, `is_division` and the three opcode lists
    of `InstructionPointerUpdate::from_instruction` — as regenerated from op_analysis.rs on every
    run (`MdModel.Gen.OpAnalysisTables`) — say what `derivable`, `isPrivileged`, `isDivision`,
    `ipClass` say; and every name in those lists is an opcode the model knows. -/
theorem op_tables_agree :
    (∀ o : Opc, (derivable o).isSome = Tables.derivable_names.contains o.name ∧
      isPrivileged o = Tables.privileged_names.contains o.name ∧
      isDivision o = Tables.division_names.contains o.name ∧
      ipClass o = ipClassOfName o.name ∧ (o ≠ .other → opcOfName o.name = o)) ∧
    (∀ n ∈ Tables.derivable_names ++ Tables.privileged_names ++ Tables.division_names ++
        Tables.calllike_names ++ Tables.retlike_names ++ Tables.jcc_names, opcOfName n ≠ .other) := by
  refine ⟨?_, by decide⟩
  intro o
  cases o <;> decide

/-- `mov rax, [rbx + rcx*8 + 16]`: one read of 8 bytes at `rbx + 8*rcx + 16`, registers `{rbx, rcx}` -/
example : analyze ⟨.MOV, some (some 8), [.reg "rax", .baseIndexScaleDisp "rbx" "rcx" 8 16]⟩
    ⟨fun r => if r = "rbx" then some 4096 else if r = "rcx" then some 2 else none, fun _ => none, none⟩ =
    .ok { props := ⟨true, false, true, true⟩,
          accesses := some [⟨⟨4128, false⟩, some 8, .read⟩], ipUpdate := some .noUpdate, registers := ["rbx", "rcx"] } := by
  decide
/-- the arithmetic wraps: `[rbx + rcx*8 - 16]` with `rbx = 8`, `rcx = 2^61` -/
example : addrOfInfo (fun r => if r = "rbx" then some 8 else some (2 ^ 61)) ⟨some "rbx", some "rcx", some 8, some (-16)⟩ =
    .ok ⟨2 ^ 64 - 8, false⟩ := by decide
/-- `AbsoluteU32 { addr: 0xfffffff0 }` is sign-extended (`addr as i32 as i64`) -/
example : addrOf (fun _ => none) (.absU32 0xfffffff0) = .ok (some ⟨2 ^ 64 - 16, false⟩) := by decide
/-- a 32-bit base register (address-size override) names no amd64 context register: no access list -/
example : memAccesses ⟨.MOV, some (some 4), [.reg "eax", .deref "ebx"]⟩ (fun r => if r = "rbx" then some 1 else none) =
    .ok .regInvalid := by decide
/-- abstract instructions outside `Shape` reach the panic arms: a `ret` with a memory operand, a
    `call` with two operands, an `add` with a memory operand in third place, five operands -/
example : analyze ⟨.RETURN, some (some 8), [.deref "rax"]⟩ ⟨allValid, fun _ => none, none⟩ =
    .panic "ret/iret instruction had unexpected memory operand" := by decide
example : analyze ⟨.CALL, none, [.reg "rax", .imm]⟩ ⟨allValid, fun _ => none, none⟩ =
    .panic "call/jmp instruction had incorrect operand count" := by decide
example : Shape ⟨.ADD, some (some 4), [.reg "eax", .imm, .deref "rax"]⟩ = false ∧
    Shape ⟨.other, none, [.imm, .imm, .imm, .imm, .imm]⟩ = false ∧
    Shape ⟨.ADD, some (some 4), [.deref "rax", .imm]⟩ = true ∧ Shape ⟨.JMPF, some (some 10), [.deref "rax"]⟩ = true := by decide
/-- an invalid register at position 0 ends the loop before a later panic arm (the order of evaluation is modelled) -/
example : memAccesses ⟨.ADD, some (some 4), [.deref "eax", .imm, .deref "rax"]⟩ (fun r => if r = "rax" then some 1 else none) =
    .ok .regInvalid := by decide

end OpAnalysisTheorems

/-! ## (2c) "without panicking": x86 argument recovery (arg_recovery.rs, `recover_function_args`)

`MdModel.ArgRecovery` is the whole of `fill_arguments` / `parse_x86_arg_list` at byte level. Every
loop of the model is structural recursion over the bytes of the function name, the argument list
or the frame list: termination is by construction. -/

section ArgRecoveryTheorems
open MdModel.ArgRecovery

/-- **the function-signature parser never panics** on a function name that is a Rust `String`
    (valid UTF-8) shorter than 2 GiB: the `&str` slices `arg_list[arg_start..idx]` are taken at an
    ASCII comma and right behind it (character boundaries — a continuation byte never follows an
    ASCII byte, `valid_nca`), `arg_start ≤ idx` always, and the two `i32` nesting depths count
    bytes of the name. It yields at most as many arguments as the name has bytes. -/
theorem arg_list_parse_no_panic (name : Bytes) (hv : validUtf8 name = true) (hl : name.length ≤ I32MAX) :
    ∃ r, parseArgList name = .ok r ∧ ∀ cc l, r = some (cc, l) → l.length ≤ name.length :=
  parseArgList_ok name hv hl

/-- **`fill_arguments` never panics** on the frames of an x86 thread: every frame's stack pointer
    is a `u32` (`CONTEXT_X86.esp`; the unwinders build caller contexts of the callee's type), every
    function name is valid UTF-8 below 2 GiB (a symbol-file line, C09). The read head starts at a
    caller's `esp` — or at the saturated end of the stack memory, where it can never move —, is
    advanced by 4 only while below the limit and at most once per argument (+ `this`):
    `read_head += POINTER_WIDTH` stays below `2^32 + 4·(2^31 + 1)`. Whatever the stack memory
    holds (any base, any bytes, also ending at 2^64-1) and whatever `eax` is. -/
theorem arg_recovery_no_panic (frames : List ArgRecovery.Frame) (mem : Option StackMem)
    (hsp : ∀ g ∈ frames, g.sp ≤ U32MAX)
    (hname : ∀ f ∈ frames, ∀ n, f.name = some n → validUtf8 n = true ∧ n.length ≤ I32MAX) :
    NoPanic (fillArguments frames mem) :=
  fillFrom_ok frames mem hsp frames 0 hname

/-- the bytes of an ASCII literal -/
def asc (s : String) : Bytes := s.toList.map fun c => UInt8.ofNat c.toNat

/-- nested templates and parentheses hide commas; the pieces are trimmed -/
example : parseArgList (asc "ns::f(int a, std::map<int, char> , void (*)(int, int))") =
    .ok (some (.windowsThisCall, [asc "int a", asc "std::map<int, char>", asc "void (*)(int, int)"])) := by
  decide
/-- unbalanced nesting: the parser is lost / the result is rejected -/
example : ∀ n ∈ [asc "f(a>b)", asc "g(a<b)", asc "h(", asc "k(a))(b"],
    (match parseArgList n with | .ok none => true | _ => false) = true := by decide
/-- everything between the FIRST `(` and the LAST `)`; multi-byte white space is trimmed:
    `m(<U+00A0>é ,<U+3000>ü<U+2003>) const` -/
example : parseArgList ([0x6D, 0x28, 0xC2, 0xA0, 0xC3, 0xA9, 0x20, 0x2C, 0xE3, 0x80, 0x80, 0xC3, 0xBC, 0xE2, 0x80, 0x83, 0x29] ++ asc " const") =
    .ok (some (.cdecl, [[0xC3, 0xA9], [0xC3, 0xBC]])) := by decide
/-- the UTF-8 hypothesis is needed by the model: a continuation byte right behind a comma makes
    `arg_list[arg_start..]` start inside a character (Rust's slice would panic); a `String` never holds that -/
example : parseArgList [102, 40, 97, 44, 0x80, 41] = .panic "arg_list[arg_start..]" ∧ validUtf8 [102, 40, 97, 44, 0x80, 41] = false := by
  decide
/-- two cdecl arguments read from the caller's frame; the third lies beyond the caller's frame pointer -/
example : fillArguments
    [⟨100, some (asc "f(a, b, c)"), true, some 7⟩, ⟨104, none, true, none⟩, ⟨112, none, true, none⟩]
    (some ⟨100, [0,0,0,0, 1,0,0,0, 2,1,0,0, 3,0,0,0]⟩) =
    .ok [some ⟨.cdecl, [(asc "a", some 1), (asc "b", some 258), (asc "c", none)]⟩, none, none] := by
  decide
/-- the `u32` hypothesis is needed by the model (a 64-bit stack pointer next to 2^64 overflows the
    read head) and cannot arise for `MinidumpRawContext::X86` frames -/
example : fillArguments [⟨0, some (asc "f(a)"), true, none⟩, ⟨2 ^ 64 - 2, none, true, none⟩, ⟨2 ^ 64 - 1, none, true, none⟩] (some ⟨0, []⟩) =
    .panic "read_head += POINTER_WIDTH" := by decide
/-- without a caller frame both limits are the (saturated) end of the stack: nothing is read, nothing moves -/
example : fillArguments [⟨5, some (asc "A::f(a, b)"), true, some 9⟩] (some ⟨2 ^ 64 - 4, [1, 2, 3, 4, 5, 6, 7, 8]⟩) =
    .ok [some ⟨.windowsThisCall, [(thisName, some 9), (asc "a", none), (asc "b", none)]⟩] := by decide

end ArgRecoveryTheorems

/-! ## (2d) the remaining sites of the site review (notes/C03.md) -/

/-- **the STACK WIN program evaluator never panics** (walker.rs:800-890: `wrapping_*`, `/` and `%`
    behind the `rhs == 0` tests, `rhs - 1` of the alignment operator behind `rhs == 0 ||`): for every
    program text, size fields, register file, grand callee and memory. (= C07 `evalWin_ok` about
    `MdModel.Win.evalWin`, tied by C07's engine `win`; restated here as the C03 obligation.) -/
theorem c03_win_program_no_panic (expr : List Char) (info : MdModel.Win.Info) (w : MdModel.Win.Walker) :
    ∃ p, MdModel.Win.evalWin expr info w = .ok p :=
  MdModel.Win.evalWin_ok expr info w

/-- processor.rs:1125 `SystemTime::UNIX_EPOCH + Duration::from_secs(dump.header.time_date_stamp as u64)`:
    `SystemTime + Duration` panics only when the sum leaves the platform's range (i64 seconds on
    every supported target); a `u32` of seconds after 1970 never does. -/
theorem dump_time_no_panic (stamp : Nat) (h : stamp ≤ U32MAX) : NoPanic (dumpTime stamp) := by
  unfold dumpTime
  have : (0 : Nat) + stamp ≤ 9223372036854775807 := by
    have : U32MAX = 4294967295 := rfl
    omega
  simp only [this, if_true]
  exact ⟨_, rfl⟩

/-- processor.rs:245/255 `num_threads_processed += 1`, `num_frames_processed += 1` (u64, under the
    stats mutex): after `n` increments from 0 the counter is `n`; it cannot overflow while `n ≤ 2^64-1`,
    and `n` is the number of threads (a u32 count) resp. of frames (`c03_walk_bound`: at most
    stack bytes + 2 per thread). No other statement runs while the mutex is held, so it is never poisoned. -/
theorem stat_counter_no_panic (n : Nat) (h : n ≤ U64MAX) : statCounter n = .ok n := by
  induction n with
  | zero => rfl
  | succ k ih =>
    simp only [statCounter, ih (by omega)]
    exact cadd64_ok _ k 1 (by omega)

example : dumpTime 4294967295 = .ok 4294967295 := by decide
example : statCounter 3 = .ok 3 := by decide

/-! ## (3) "the resulting state can always be written as full text, brief text and JSON" -/

/-- the invariants of a frame the printers rely on: its module, function and source-line bases
    are at or below its lookup address (module: C08 lookup soundness via C05 `walk_covered`;
    function and line: `fill_symbol` adds the module base to an address at or below the offset, C11) -/
def FrameInv (f : FrameIn) : Prop :=
  (∀ b, f.mbase = some b → b ≤ f.instr) ∧ (∀ b, f.fbase = some b → b ≤ f.instr) ∧ (∀ b, f.lbase = some b → b ≤ f.instr)

theorem frameOffsets_ok (f : FrameIn) (h : FrameInv f) : NoPanic (frameOffsets f) := by
  obtain ⟨h1, h2, h3⟩ := h
  obtain ⟨a, ha⟩ := optSub_ok "frame.instruction - module.base" f.instr f.mbase h1
  obtain ⟨b, hb⟩ := optSub_ok "frame.instruction - function_base" f.instr f.fbase h2
  obtain ⟨c, hc⟩ := optSub_ok "frame.instruction - source_line_base" f.instr f.lbase h3
  unfold frameOffsets
  rw [ha, bind_ok, hb, bind_ok, hc, bind_ok]
  exact ⟨_, rfl⟩

/-- **render_total.** On every state whose module lists are what the readers keep
    (`size_of_image ≠ 0 ∧ size_of_image ≤ u64::MAX - base_of_image`, minidump.rs:1556/1662) and whose
    frames satisfy the frame invariants, all the arithmetic of `print`, `print_brief` and
    `print_json` — `base + size` (JSON `end_addr`), `base + size - 1` (text), `instruction - module
    base`, `instruction - function_base`, `instruction - source_line_base` — has no panic outcome. -/
theorem render_total (r : RenderIn)
    (hm : ∀ m ∈ r.mods, readerKeeps m = true) (hmt : ∀ m ∈ r.modsText, readerKeeps m = true)
    (hu : ∀ m ∈ r.unl, readerKeeps m = true) (hut : ∀ m ∈ r.unlText, readerKeeps m = true)
    (hf : ∀ f ∈ r.frames, FrameInv f) : NoPanic (render r) := by
  obtain ⟨a, ha⟩ := mapO_ok jsonEnd r.mods (fun m h => jsonEnd_ok m (hm m h))
  obtain ⟨a', ha'⟩ := mapO_ok textEnd r.modsText (fun m h => textEnd_ok m (hmt m h))
  obtain ⟨b, hb⟩ := mapO_ok jsonEnd r.unl (fun m h => jsonEnd_ok m (hu m h))
  obtain ⟨b', hb'⟩ := mapO_ok textEnd r.unlText (fun m h => textEnd_ok m (hut m h))
  obtain ⟨c, hc⟩ := mapO_ok frameOffsets r.frames (fun f h => frameOffsets_ok f (hf f h))
  unfold render
  rw [ha, bind_ok, ha', bind_ok, hb, bind_ok, hb', bind_ok, hc, bind_ok]
  exact ⟨_, rfl⟩

/-- a non-trivial state: a module ending exactly at 2^64-1 and a frame at its last byte -/
example : ∃ o, render ⟨[⟨2^64 - 4096, 4095⟩], [⟨2^64 - 4096, 4095⟩], [⟨4096, 1⟩], [⟨4096, 1⟩],
    [⟨2^64 - 2, some (2^64 - 4096), some (2^64 - 100), some (2^64 - 2)⟩]⟩ = .ok o ∧
    o.modEnds = [2^64 - 1] ∧ o.modTextEnds = [2^64 - 2] ∧ o.unlTextEnds = [4096] ∧
    o.frames = [(some 4094, some 98, some 0)] := by
  refine ⟨_, rfl, ?_, ?_, ?_, ?_⟩ <;> decide
/-- the reader invariant is needed: a module the readers would have dropped overflows `end_addr` -/
example : render ⟨[⟨2^64 - 1, 1⟩], [], [], [], []⟩ =
    .panic "print_json: base_of_image + size_of_image" := by rfl
example : readerKeeps ⟨2^64 - 1, 1⟩ = false ∧ readerKeeps ⟨5, 0⟩ = false ∧ readerKeeps ⟨2^64 - 2, 1⟩ = true := by decide

/-- how a frame of the walk model is seen by the printers -/
def frameIn (w : World) (f : Frame) : FrameIn :=
  { instr := f.instruction,
    mbase := f.module.bind fun i => (w.mods[i]?).map (·.base),
    fbase := f.func.map (·.base),
    lbase := none }

/-- **render_walk_frames_total.** The frame invariants hold for every frame of every call stack
    the walk model returns for a module list and symbol records (C05 `walk_covered`, on top of C08's
    lookup soundness): so the printers' frame arithmetic is total on everything `walk_stack`
    produces, whatever the context, the stack bytes and the symbol files are. -/
theorem render_walk_frames_total (arch : Arch) (os : Os) (w : World) (mem0 : Mem) (mem : Option Mem) (ctx : Ctx) :
    ∀ f ∈ walk (mkEnv arch os w mem0) mem ctx, NoPanic (frameOffsets (frameIn w f)) := by
  intro f hf
  obtain ⟨hmod, hfun⟩ := walk_covered arch os w mem0 mem ctx f hf
  apply frameOffsets_ok
  refine ⟨?_, ?_, ?_⟩
  · intro b hb
    simp only [frameIn] at hb
    cases hi : f.module with
    | none => rw [hi] at hb; cases hb
    | some i =>
      rw [hi] at hb
      obtain ⟨m, hm, hle, _⟩ := hmod i hi
      simp only [Option.bind_some, hm, Option.map_some] at hb
      cases hb
      exact hle
  · intro b hb
    simp only [frameIn] at hb
    cases hg : f.func with
    | none => rw [hg] at hb; cases hb
    | some g =>
      rw [hg] at hb
      simp only [Option.map_some] at hb
      cases hb
      obtain ⟨i, m, sf, _, _, _, hc⟩ := hfun g hg
      exact hc.2.1
  · intro b hb
    simp only [frameIn] at hb
    cases hb

end MdModel.Process
