/-
  C07 — STACK WIN records evaluate exactly as documented (program strings and FPO).

  Property text: "For every STACK WIN record (frame-data program string or FPO form), callee x86
  registers, grand-callee parameter size and stack contents, unwinding yields exactly the documented
  result: the predefined constants (.cbParams, .cbCalleeParams, .cbSavedRegs, .cbLocals,
  .raSearch/.raSearchStart including the `@` rule), 32-bit wrapping arithmetic, assignment and
  `.undef` semantics, and the FPO formulae including the leftover-return-address skip. Only $eip,
  $esp, $ebp, $ebx, $esi and $edi are reported, registers the record did not set are unknown in the
  caller (apart from FPO's documented pass-through of %ebp and %ebx), and malformed programs or
  extreme size fields fail cleanly instead of panicking."

  The theorems are about `MdModel.Win` (the model the compiled driver executes and the `win` engine
  compares with `SymbolFile::walk_frame` on every run).  Size fields, registers and memory words
  range over all of `UInt32`; programs are arbitrary character lists / token lists of any length;
  the walker's register file and memory are arbitrary functions.
-/
import MdProofs.Lemmas.Win
set_option linter.unusedSimpArgs false
namespace MdModel.Win
open MdModel

/-! ## 1. the predefined constants -/

/-- the nine variables that exist before the first token -/
def initNames : List String :=
  ["$esp", "$ebp", "$ebx", ".cbParams", ".cbCalleeParams", ".cbSavedRegs", ".cbLocals", ".raSearch",
   ".raSearchStart"]

/-- **consts_table** — "the predefined constants (.cbParams, .cbCalleeParams, .cbSavedRegs,
    .cbLocals, .raSearch/.raSearchStart …)": whenever initialisation succeeds, the variable map
    holds exactly: `.cbParams = parameter_size`, `.cbCalleeParams = grand_callee_parameter_size`,
    `.cbSavedRegs = saved_register_size`, `.cbLocals = local_size`, `.raSearch = .raSearchStart =`
    the search start, `$esp`/`$ebp` = the callee's, `$ebx` = the callee's if known — and nothing
    else. -/
theorem consts_table {hasAt : Bool} {info : Info} {w : Walker} {vs : Vars}
    (h : initVars hasAt info w = some vs) :
    ∃ esp ebp ss, w.reg "esp" = some esp ∧ w.reg "ebp" = some ebp ∧
      searchStart hasAt info w.gcParam esp ebp = some ss ∧
      vs.get ".cbParams" = some info.par ∧
      vs.get ".cbCalleeParams" = some w.gcParam ∧
      vs.get ".cbSavedRegs" = some info.sav ∧
      vs.get ".cbLocals" = some info.loc ∧
      vs.get ".raSearch" = some ss ∧
      vs.get ".raSearchStart" = some ss ∧
      vs.get "$esp" = some esp ∧
      vs.get "$ebp" = some ebp ∧
      vs.get "$ebx" = w.reg "ebx" ∧
      ∀ k, k ∉ initNames → vs.get k = none := by
  unfold initVars at h
  cases hesp : w.reg "esp" with
  | none => simp [hesp] at h
  | some esp =>
  cases hebp : w.reg "ebp" with
  | none => simp [hesp, hebp] at h
  | some ebp =>
  cases hss : searchStart hasAt info w.gcParam esp ebp with
  | none => simp [hesp, hebp, hss] at h
  | some ss =>
  refine ⟨esp, ebp, ss, rfl, rfl, hss, ?_⟩
  cases hb : w.reg "ebx" with
  | none =>
    simp only [hesp, hebp, hss, hb, Option.some.injEq] at h
    subst h
    simp (config := { decide := true }) only [Vars.get_set_self, Vars.get_set_other, ne_eq,
      not_false_eq_true, true_and, Vars.get_nil]
    intro k hk
    simp only [initNames, List.mem_cons, List.not_mem_nil, or_false, not_or] at hk
    obtain ⟨h1, h2, h3, h4, h5, h6, h7, h8, h9⟩ := hk
    rw [Vars.get_set_other _ _ h9, Vars.get_set_other _ _ h8, Vars.get_set_other _ _ h7,
      Vars.get_set_other _ _ h6, Vars.get_set_other _ _ h5, Vars.get_set_other _ _ h4,
      Vars.get_set_other _ _ h2, Vars.get_set_other _ _ h1]
    rfl
  | some ebx =>
    simp only [hesp, hebp, hss, hb, Option.some.injEq] at h
    subst h
    simp (config := { decide := true }) only [Vars.get_set_self, Vars.get_set_other, ne_eq,
      not_false_eq_true, true_and, Vars.get_nil]
    intro k hk
    simp only [initNames, List.mem_cons, List.not_mem_nil, or_false, not_or] at hk
    obtain ⟨h1, h2, h3, h4, h5, h6, h7, h8, h9⟩ := hk
    rw [Vars.get_set_other _ _ h9, Vars.get_set_other _ _ h8, Vars.get_set_other _ _ h7,
      Vars.get_set_other _ _ h6, Vars.get_set_other _ _ h5, Vars.get_set_other _ _ h4,
      Vars.get_set_other _ _ h3, Vars.get_set_other _ _ h2, Vars.get_set_other _ _ h1]
    rfl

/-! ## 2. `.raSearch` / `.raSearchStart`, both branches of the `@` rule -/

theorem checkedAdd32_some {a b v : UInt32} :
    checkedAdd32 a b = some v ↔ a.toNat + b.toNat ≤ U32MAX ∧ v.toNat = a.toNat + b.toNat := by
  unfold checkedAdd32
  have ha := UInt32.toNat_lt a
  have hb := UInt32.toNat_lt b
  by_cases h : a.toNat + b.toNat ≤ U32MAX
  · simp only [h, if_true, Option.some.injEq, true_and]
    have hs : (a + b).toNat = a.toNat + b.toNat := by
      rw [UInt32.toNat_add]; apply Nat.mod_eq_of_lt; simp only [U32MAX] at h; omega
    constructor
    · intro e; rw [← e]; exact hs
    · intro e; apply UInt32.toNat_inj.mp; rw [hs, e]
  · simp [h]

theorem checkedAdd32_none {a b : UInt32} :
    checkedAdd32 a b = none ↔ U32MAX < a.toNat + b.toNat := by
  unfold checkedAdd32
  by_cases h : a.toNat + b.toNat ≤ U32MAX
  · simp [h]
  · simp [h]; omega

/-- `win_frame_size = local_size + saved_register_size + grand_callee_parameter_size`, defined
    exactly when the sum fits `u32` ("extreme size fields fail cleanly"). -/
theorem winFrameSize_some {info : Info} {gc v : UInt32} :
    winFrameSize info gc = some v ↔
      info.loc.toNat + info.sav.toNat + gc.toNat ≤ U32MAX ∧
      v.toNat = info.loc.toNat + info.sav.toNat + gc.toNat := by
  unfold winFrameSize
  cases h1 : checkedAdd32 info.loc info.sav with
  | none =>
    have := checkedAdd32_none.mp h1
    simp only [Option.bind_none, reduceCtorEq, false_iff, not_and]
    intro h; omega
  | some s =>
    obtain ⟨h1a, h1b⟩ := checkedAdd32_some.mp h1
    simp only [Option.bind_some]
    rw [checkedAdd32_some, h1b]

theorem winFrameSize_none {info : Info} {gc : UInt32} :
    winFrameSize info gc = none ↔ U32MAX < info.loc.toNat + info.sav.toNat + gc.toNat := by
  constructor
  · intro h
    by_cases hle : info.loc.toNat + info.sav.toNat + gc.toNat ≤ U32MAX
    · have hlt := UInt32.toNat_lt info.loc
      have : winFrameSize info gc = some (UInt32.ofNat (info.loc.toNat + info.sav.toNat + gc.toNat)) := by
        rw [winFrameSize_some]; refine ⟨hle, ?_⟩
        rw [UInt32.toNat_ofNat']; apply Nat.mod_eq_of_lt; simp only [U32MAX] at hle; omega
      rw [h] at this; cases this
    · omega
  · intro h
    cases hv : winFrameSize info gc with
    | none => rfl
    | some v => have := (winFrameSize_some.mp hv).1; omega

/-- **ra_search (no `@`)** — `.raSearch = $esp + frame_size`; the record fails when the frame size
    or the address does not fit 32 bits. -/
theorem ra_search_esp {info : Info} {gc esp ebp v : UInt32} :
    searchStart false info gc esp ebp = some v ↔
      esp.toNat + (info.loc.toNat + info.sav.toNat + gc.toNat) ≤ U32MAX ∧
      v.toNat = esp.toNat + (info.loc.toNat + info.sav.toNat + gc.toNat) := by
  unfold searchStart
  simp only [Bool.false_eq_true, if_false]
  cases hf : winFrameSize info gc with
  | none =>
    have := winFrameSize_none.mp hf
    simp only [Option.bind_none, reduceCtorEq, false_iff, not_and]
    intro h; omega
  | some fs =>
    obtain ⟨ha, hb⟩ := winFrameSize_some.mp hf
    simp only [Option.bind_some]
    rw [checkedAdd32_some, hb]

/-- **ra_search (`@` branch)** — a program whose text contains `@` gets `.raSearch = $ebp + 4`
    (fails when that overflows); `$esp` and the size fields play no role. -/
theorem ra_search_ebp {info : Info} {gc esp ebp v : UInt32} :
    searchStart true info gc esp ebp = some v ↔
      ebp.toNat + 4 ≤ U32MAX ∧ v.toNat = ebp.toNat + 4 := by
  unfold searchStart
  simp only [if_true]
  rw [checkedAdd32_some]
  rfl

/-- the `@` rule is decided on the raw program text (`expr.contains('@')`), not on the tokens:
    `finalVars` initialises with `expr.contains '@'`. -/
theorem ra_search_rule_on_raw_text (expr : List Char) (info : Info) (w : Walker) :
    finalVars expr info w =
      match initVars (expr.contains '@') info w with
      | none => .fail
      | some vs =>
        match run w.mem { vars := vs, stack := [] } (tokenize expr) with
        | .ok st => .ok st.vars
        | .fail => .fail
        | .panic s => .panic s := rfl

/-! ## 3. 32-bit wrapping arithmetic of every operator -/

/-- **wrapping** — `+ - *` wrap modulo 2^32, `/ %` are the unsigned operations and fail exactly on
    a zero divisor. -/
theorem wrapping_add (a b : UInt32) :
    ∃ c, BinOp.eval .add a b = some c ∧ c.toNat = (a.toNat + b.toNat) % 2 ^ 32 :=
  ⟨a + b, rfl, UInt32.toNat_add a b⟩

theorem wrapping_sub (a b : UInt32) :
    ∃ c, BinOp.eval .sub a b = some c ∧ c.toNat = (2 ^ 32 - b.toNat + a.toNat) % 2 ^ 32 :=
  ⟨a - b, rfl, UInt32.toNat_sub a b⟩

theorem wrapping_mul (a b : UInt32) :
    ∃ c, BinOp.eval .mul a b = some c ∧ c.toNat = (a.toNat * b.toNat) % 2 ^ 32 :=
  ⟨a * b, rfl, UInt32.toNat_mul a b⟩

theorem div_spec (a b : UInt32) :
    (b = 0 → BinOp.eval .div a b = none) ∧
    (b ≠ 0 → ∃ c, BinOp.eval .div a b = some c ∧ c.toNat = a.toNat / b.toNat) := by
  constructor
  · intro h; simp [BinOp.eval, h]
  · intro h; exact ⟨a / b, by simp [BinOp.eval, h], UInt32.toNat_div a b⟩

theorem rem_spec (a b : UInt32) :
    (b = 0 → BinOp.eval .rem a b = none) ∧
    (b ≠ 0 → ∃ c, BinOp.eval .rem a b = some c ∧ c.toNat = a.toNat % b.toNat) := by
  constructor
  · intro h; simp [BinOp.eval, h]
  · intro h; exact ⟨a % b, by simp [BinOp.eval, h], UInt32.toNat_mod a b⟩

/-- a binary operator pops the right operand first, reads variables through the map, and pushes
    the result as an integer; any missing operand / unset variable / `.undef` fails. -/
theorem stepBin_spec (op : BinOp) (vs : Vars) (r l : Val) (rest : List Val) :
    stepBin op ⟨vs, r :: l :: rest⟩ =
      match r.toInt vs, l.toInt vs with
      | some rv, some lv =>
        match op.eval lv rv with
        | some v => .ok ⟨vs, .int v :: rest⟩
        | none => .fail
      | _, _ => .fail := by
  unfold stepBin pop2
  cases hr : r.toInt vs <;> cases hl : l.toInt vs <;> simp [hr, hl]
  rename_i rv lv
  cases op.eval lv rv <;> rfl

theorem stepBin_underflow (op : BinOp) (vs : Vars) (stack : List Val) (h : stack.length < 2) :
    stepBin op ⟨vs, stack⟩ = .fail := by
  unfold stepBin pop2
  match stack, h with
  | [], _ => rfl
  | [_], _ => rfl

/-! ## 4. assignment and `.undef` -/

/-- **assign** — `x v =` binds `x` to the integer value of `v` and leaves every other variable
    alone. -/
theorem assign_sem (mem : Nat → Option UInt32) (vs : Vars) (rhs : Val) (x : String)
    (rest : List Val) (v : UInt32) (hv : rhs.toInt vs = some v) :
    ∃ vs', step mem ⟨vs, rhs :: .var x :: rest⟩ .assign = .ok ⟨vs', rest⟩ ∧
      vs'.get x = some v ∧ ∀ y, y ≠ x → vs'.get y = vs.get y := by
  refine ⟨vs.set x v, ?_, Vars.get_set_self vs x v, fun y hy => Vars.get_set_other vs v hy⟩
  cases rhs with
  | undef => simp [Val.toInt] at hv
  | var n => simp only [step, hv]
  | int u => simp only [step, hv]

/-- **undef** — `x .undef =` removes `x` (its value in the caller becomes unknown) and leaves
    every other variable alone. -/
theorem undef_sem (mem : Nat → Option UInt32) (vs : Vars) (x : String) (rest : List Val) :
    ∃ vs', step mem ⟨vs, .undef :: .var x :: rest⟩ .assign = .ok ⟨vs', rest⟩ ∧
      vs'.get x = none ∧ ∀ y, y ≠ x → vs'.get y = vs.get y :=
  ⟨vs.erase x, rfl, Vars.get_erase_self vs x, fun _ hy => Vars.get_erase_other vs hy⟩

/-- assigning from an unset variable fails the program -/
theorem assign_unset_fails (mem : Nat → Option UInt32) (vs : Vars) (y x : String) (rest : List Val)
    (h : vs.get y = none) : step mem ⟨vs, .var y :: .var x :: rest⟩ .assign = .fail := by
  simp only [step, Val.toInt, h]

/-- the left operand of `=` must be a variable -/
theorem assign_lhs_not_var_fails (mem : Nat → Option UInt32) (vs : Vars) (rhs lhs : Val)
    (rest : List Val) (h : ∀ n, lhs ≠ .var n) : step mem ⟨vs, rhs :: lhs :: rest⟩ .assign = .fail := by
  cases lhs with
  | var n => exact absurd rfl (h n)
  | int u => rfl
  | undef => rfl

/-- `.undef` can only be assigned: as an operand of any other operator it fails -/
theorem undef_operand_fails (vs : Vars) : Val.toInt vs .undef = none := rfl

/-- reading a variable that is not set fails; reading a set one yields its value -/
theorem var_read (vs : Vars) (n : String) : Val.toInt vs (.var n) = vs.get n := rfl

/-- `^` reads the 32-bit word at the address through the walker; unreadable memory fails -/
theorem deref_sem (mem : Nat → Option UInt32) (vs : Vars) (p : Val) (rest : List Val) (a : UInt32)
    (ha : p.toInt vs = some a) :
    step mem ⟨vs, p :: rest⟩ .deref =
      match mem a.toNat with
      | some v => .ok ⟨vs, .int v :: rest⟩
      | none => .fail := by
  simp only [step, ha]
  cases mem a.toNat <;> rfl

end MdModel.Win
