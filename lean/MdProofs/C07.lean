/-
  C07 — STACK WIN records evaluate exactly as documented (program strings and FPO).

  Property text: "For every STACK WIN record (frame-data program string or FPO form), callee x86
  registers, grand-callee parameter size and stack contents, unwinding yields exactly the documented
  result: the predefined constants (.cbParams, .cbCalleeParams, .cbSavedRegs, .cbLocals,
  .raSearch/.raSearchStart including the `@` rule), 32-bit wrapping arithmetic, assignment and
  `.undef` semantics, and the FPO formulae including the leftover-return-address skip. Only $eip,
  $esp, $ebp, $ebx, $esi and $edi are reported, registers the record did not set are unknown in the
  caller (apart from FPO's documented pass-through of %ebp and %ebx), and malformed programs or
  extreme size fields fail cleanly instead of panicking."

  The theorems are about `MdModel.Win` (the model the compiled driver executes and the `win` engine
  compares with `SymbolFile::walk_frame` on every run).  Size fields, registers and memory words
  range over all of `UInt32`; programs are arbitrary character lists / token lists of any length;
  the walker's register file and memory are arbitrary functions.
-/
import MdProofs.Lemmas.Win
set_option linter.unusedSimpArgs false
namespace MdModel.Win
open MdModel

/-! ## 1. the predefined constants -/

/-- the nine variables that exist before the first token -/
def initNames : List String :=
  ["$esp", "$ebp", "$ebx", ".cbParams", ".cbCalleeParams", ".cbSavedRegs", ".cbLocals", ".raSearch",
   ".raSearchStart"]

/-- **consts_table** — "the predefined constants (.cbParams, .cbCalleeParams, .cbSavedRegs,
    .cbLocals, .raSearch/.raSearchStart …)": whenever initialisation succeeds, the variable map
    holds exactly: `.cbParams = parameter_size`, `.cbCalleeParams = grand_callee_parameter_size`,
    `.cbSavedRegs = saved_register_size`, `.cbLocals = local_size`, `.raSearch = .raSearchStart =`
    the search start, `$esp`/`$ebp` = the callee's, `$ebx` = the callee's if known — and nothing
    else. -/
theorem consts_table {hasAt : Bool} {info : Info} {w : Walker} {vs : Vars}
    (h : initVars hasAt info w = some vs) :
    ∃ esp ebp ss, w.reg "esp" = some esp ∧ w.reg "ebp" = some ebp ∧
      searchStart hasAt info w.gcParam esp ebp = some ss ∧
      vs.get ".cbParams" = some info.par ∧
      vs.get ".cbCalleeParams" = some w.gcParam ∧
      vs.get ".cbSavedRegs" = some info.sav ∧
      vs.get ".cbLocals" = some info.loc ∧
      vs.get ".raSearch" = some ss ∧
      vs.get ".raSearchStart" = some ss ∧
      vs.get "$esp" = some esp ∧
      vs.get "$ebp" = some ebp ∧
      vs.get "$ebx" = w.reg "ebx" ∧
      ∀ k, k ∉ initNames → vs.get k = none := by
  unfold initVars at h
  cases hesp : w.reg "esp" with
  | none => simp [hesp] at h
  | some esp =>
  cases hebp : w.reg "ebp" with
  | none => simp [hesp, hebp] at h
  | some ebp =>
  cases hss : searchStart hasAt info w.gcParam esp ebp with
  | none => simp [hesp, hebp, hss] at h
  | some ss =>
  refine ⟨esp, ebp, ss, rfl, rfl, hss, ?_⟩
  cases hb : w.reg "ebx" with
  | none =>
    simp only [hesp, hebp, hss, hb, Option.some.injEq] at h
    subst h
    simp (config := { decide := true }) only [Vars.get_set_self, Vars.get_set_other, ne_eq,
      not_false_eq_true, true_and, Vars.get_nil]
    intro k hk
    simp only [initNames, List.mem_cons, List.not_mem_nil, or_false, not_or] at hk
    obtain ⟨h1, h2, h3, h4, h5, h6, h7, h8, h9⟩ := hk
    rw [Vars.get_set_other _ _ h9, Vars.get_set_other _ _ h8, Vars.get_set_other _ _ h7,
      Vars.get_set_other _ _ h6, Vars.get_set_other _ _ h5, Vars.get_set_other _ _ h4,
      Vars.get_set_other _ _ h2, Vars.get_set_other _ _ h1]
    rfl
  | some ebx =>
    simp only [hesp, hebp, hss, hb, Option.some.injEq] at h
    subst h
    simp (config := { decide := true }) only [Vars.get_set_self, Vars.get_set_other, ne_eq,
      not_false_eq_true, true_and, Vars.get_nil]
    intro k hk
    simp only [initNames, List.mem_cons, List.not_mem_nil, or_false, not_or] at hk
    obtain ⟨h1, h2, h3, h4, h5, h6, h7, h8, h9⟩ := hk
    rw [Vars.get_set_other _ _ h9, Vars.get_set_other _ _ h8, Vars.get_set_other _ _ h7,
      Vars.get_set_other _ _ h6, Vars.get_set_other _ _ h5, Vars.get_set_other _ _ h4,
      Vars.get_set_other _ _ h3, Vars.get_set_other _ _ h2, Vars.get_set_other _ _ h1]
    rfl

/-! ## 2. `.raSearch` / `.raSearchStart`, both branches of the `@` rule -/

theorem checkedAdd32_some {a b v : UInt32} :
    checkedAdd32 a b = some v ↔ a.toNat + b.toNat ≤ U32MAX ∧ v.toNat = a.toNat + b.toNat := by
  unfold checkedAdd32
  have ha := UInt32.toNat_lt a
  have hb := UInt32.toNat_lt b
  by_cases h : a.toNat + b.toNat ≤ U32MAX
  · simp only [h, if_true, Option.some.injEq, true_and]
    have hs : (a + b).toNat = a.toNat + b.toNat := by
      rw [UInt32.toNat_add]; apply Nat.mod_eq_of_lt; simp only [U32MAX] at h; omega
    constructor
    · intro e; rw [← e]; exact hs
    · intro e; apply UInt32.toNat_inj.mp; rw [hs, e]
  · simp [h]

theorem checkedAdd32_none {a b : UInt32} :
    checkedAdd32 a b = none ↔ U32MAX < a.toNat + b.toNat := by
  unfold checkedAdd32
  by_cases h : a.toNat + b.toNat ≤ U32MAX
  · simp [h]
  · simp [h]; omega

/-- `win_frame_size = local_size + saved_register_size + grand_callee_parameter_size`, defined
    exactly when the sum fits `u32` ("extreme size fields fail cleanly"). -/
theorem winFrameSize_some {info : Info} {gc v : UInt32} :
    winFrameSize info gc = some v ↔
      info.loc.toNat + info.sav.toNat + gc.toNat ≤ U32MAX ∧
      v.toNat = info.loc.toNat + info.sav.toNat + gc.toNat := by
  unfold winFrameSize
  cases h1 : checkedAdd32 info.loc info.sav with
  | none =>
    have := checkedAdd32_none.mp h1
    simp only [Option.bind_none, reduceCtorEq, false_iff, not_and]
    intro h; omega
  | some s =>
    obtain ⟨h1a, h1b⟩ := checkedAdd32_some.mp h1
    simp only [Option.bind_some]
    rw [checkedAdd32_some, h1b]

theorem winFrameSize_none {info : Info} {gc : UInt32} :
    winFrameSize info gc = none ↔ U32MAX < info.loc.toNat + info.sav.toNat + gc.toNat := by
  constructor
  · intro h
    by_cases hle : info.loc.toNat + info.sav.toNat + gc.toNat ≤ U32MAX
    · have hlt := UInt32.toNat_lt info.loc
      have : winFrameSize info gc = some (UInt32.ofNat (info.loc.toNat + info.sav.toNat + gc.toNat)) := by
        rw [winFrameSize_some]; refine ⟨hle, ?_⟩
        rw [UInt32.toNat_ofNat']; apply Nat.mod_eq_of_lt; simp only [U32MAX] at hle; omega
      rw [h] at this; cases this
    · omega
  · intro h
    cases hv : winFrameSize info gc with
    | none => rfl
    | some v => have := (winFrameSize_some.mp hv).1; omega

/-- **ra_search (no `@`)** — `.raSearch = $esp + frame_size`; the record fails when the frame size
    or the address does not fit 32 bits. -/
theorem ra_search_esp {info : Info} {gc esp ebp v : UInt32} :
    searchStart false info gc esp ebp = some v ↔
      esp.toNat + (info.loc.toNat + info.sav.toNat + gc.toNat) ≤ U32MAX ∧
      v.toNat = esp.toNat + (info.loc.toNat + info.sav.toNat + gc.toNat) := by
  unfold searchStart
  simp only [Bool.false_eq_true, if_false]
  cases hf : winFrameSize info gc with
  | none =>
    have := winFrameSize_none.mp hf
    simp only [Option.bind_none, reduceCtorEq, false_iff, not_and]
    intro h; omega
  | some fs =>
    obtain ⟨ha, hb⟩ := winFrameSize_some.mp hf
    simp only [Option.bind_some]
    rw [checkedAdd32_some, hb]

/-- **ra_search (`@` branch)** — a program whose text contains `@` gets `.raSearch = $ebp + 4`
    (fails when that overflows); `$esp` and the size fields play no role. -/
theorem ra_search_ebp {info : Info} {gc esp ebp v : UInt32} :
    searchStart true info gc esp ebp = some v ↔
      ebp.toNat + 4 ≤ U32MAX ∧ v.toNat = ebp.toNat + 4 := by
  unfold searchStart
  simp only [if_true]
  rw [checkedAdd32_some]
  rfl

/-- the `@` rule is decided on the raw program text (`expr.contains('@')`), not on the tokens:
    `finalVars` initialises with `expr.contains '@'`. -/
theorem ra_search_rule_on_raw_text (expr : List Char) (info : Info) (w : Walker) :
    finalVars expr info w =
      match initVars (expr.contains '@') info w with
      | none => .fail
      | some vs =>
        match run w.mem { vars := vs, stack := [] } (tokenize expr) with
        | .ok st => .ok st.vars
        | .fail => .fail
        | .panic s => .panic s := rfl

/-! ## 3. 32-bit wrapping arithmetic of every operator -/

/-- **wrapping** — `+ - *` wrap modulo 2^32, `/ %` are the unsigned operations and fail exactly on
    a zero divisor. -/
theorem wrapping_add (a b : UInt32) :
    ∃ c, BinOp.eval .add a b = some c ∧ c.toNat = (a.toNat + b.toNat) % 2 ^ 32 :=
  ⟨a + b, rfl, UInt32.toNat_add a b⟩

theorem wrapping_sub (a b : UInt32) :
    ∃ c, BinOp.eval .sub a b = some c ∧ c.toNat = (2 ^ 32 - b.toNat + a.toNat) % 2 ^ 32 :=
  ⟨a - b, rfl, UInt32.toNat_sub a b⟩

theorem wrapping_mul (a b : UInt32) :
    ∃ c, BinOp.eval .mul a b = some c ∧ c.toNat = (a.toNat * b.toNat) % 2 ^ 32 :=
  ⟨a * b, rfl, UInt32.toNat_mul a b⟩

theorem div_spec (a b : UInt32) :
    (b = 0 → BinOp.eval .div a b = none) ∧
    (b ≠ 0 → ∃ c, BinOp.eval .div a b = some c ∧ c.toNat = a.toNat / b.toNat) := by
  constructor
  · intro h; simp [BinOp.eval, h]
  · intro h; exact ⟨a / b, by simp [BinOp.eval, h], UInt32.toNat_div a b⟩

theorem rem_spec (a b : UInt32) :
    (b = 0 → BinOp.eval .rem a b = none) ∧
    (b ≠ 0 → ∃ c, BinOp.eval .rem a b = some c ∧ c.toNat = a.toNat % b.toNat) := by
  constructor
  · intro h; simp [BinOp.eval, h]
  · intro h; exact ⟨a % b, by simp [BinOp.eval, h], UInt32.toNat_mod a b⟩

/-- a binary operator pops the right operand first, reads variables through the map, and pushes
    the result as an integer; any missing operand / unset variable / `.undef` fails. -/
theorem stepBin_spec (op : BinOp) (vs : Vars) (r l : Val) (rest : List Val) :
    stepBin op ⟨vs, r :: l :: rest⟩ =
      match r.toInt vs, l.toInt vs with
      | some rv, some lv =>
        match op.eval lv rv with
        | some v => .ok ⟨vs, .int v :: rest⟩
        | none => .fail
      | _, _ => .fail := by
  unfold stepBin pop2
  cases hr : r.toInt vs <;> cases hl : l.toInt vs <;> simp [hr, hl]
  rename_i rv lv
  cases op.eval lv rv <;> rfl

theorem stepBin_underflow (op : BinOp) (vs : Vars) (stack : List Val) (h : stack.length < 2) :
    stepBin op ⟨vs, stack⟩ = .fail := by
  unfold stepBin pop2
  match stack, h with
  | [], _ => rfl
  | [_], _ => rfl

/-! ## 4. assignment and `.undef` -/

/-- **assign** — `x v =` binds `x` to the integer value of `v` and leaves every other variable
    alone. -/
theorem assign_sem (mem : Nat → Option UInt32) (vs : Vars) (rhs : Val) (x : String)
    (rest : List Val) (v : UInt32) (hv : rhs.toInt vs = some v) :
    ∃ vs', step mem ⟨vs, rhs :: .var x :: rest⟩ .assign = .ok ⟨vs', rest⟩ ∧
      vs'.get x = some v ∧ ∀ y, y ≠ x → vs'.get y = vs.get y := by
  refine ⟨vs.set x v, ?_, Vars.get_set_self vs x v, fun y hy => Vars.get_set_other vs v hy⟩
  cases rhs with
  | undef => simp [Val.toInt] at hv
  | var n => simp only [step, hv]
  | int u => simp only [step, hv]

/-- **undef** — `x .undef =` removes `x` (its value in the caller becomes unknown) and leaves
    every other variable alone. -/
theorem undef_sem (mem : Nat → Option UInt32) (vs : Vars) (x : String) (rest : List Val) :
    ∃ vs', step mem ⟨vs, .undef :: .var x :: rest⟩ .assign = .ok ⟨vs', rest⟩ ∧
      vs'.get x = none ∧ ∀ y, y ≠ x → vs'.get y = vs.get y :=
  ⟨vs.erase x, rfl, Vars.get_erase_self vs x, fun _ hy => Vars.get_erase_other vs hy⟩

/-- assigning from an unset variable fails the program -/
theorem assign_unset_fails (mem : Nat → Option UInt32) (vs : Vars) (y x : String) (rest : List Val)
    (h : vs.get y = none) : step mem ⟨vs, .var y :: .var x :: rest⟩ .assign = .fail := by
  simp only [step, Val.toInt, h]

/-- the left operand of `=` must be a variable -/
theorem assign_lhs_not_var_fails (mem : Nat → Option UInt32) (vs : Vars) (rhs lhs : Val)
    (rest : List Val) (h : ∀ n, lhs ≠ .var n) : step mem ⟨vs, rhs :: lhs :: rest⟩ .assign = .fail := by
  cases lhs with
  | var n => exact absurd rfl (h n)
  | int u => rfl
  | undef => rfl

/-- `.undef` can only be assigned: as an operand of any other operator it fails -/
theorem undef_operand_fails (vs : Vars) : Val.toInt vs .undef = none := rfl

/-- reading a variable that is not set fails; reading a set one yields its value -/
theorem var_read (vs : Vars) (n : String) : Val.toInt vs (.var n) = vs.get n := rfl

/-- `^` reads the 32-bit word at the address through the walker; unreadable memory fails -/
theorem deref_sem (mem : Nat → Option UInt32) (vs : Vars) (p : Val) (rest : List Val) (a : UInt32)
    (ha : p.toInt vs = some a) :
    step mem ⟨vs, p :: rest⟩ .deref =
      match mem a.toNat with
      | some v => .ok ⟨vs, .int v :: rest⟩
      | none => .fail := by
  simp only [step, ha]
  cases mem a.toNat <;> rfl

/-! ## 5. malformed programs and extreme size fields fail cleanly: no panic outcome -/

theorem addU64_ok {a b : Nat} (h : a + b ≤ U64MAX) : addU64 a b = .ok (a + b) := by
  unfold addU64; simp [h]

/-- the only overflow-checked operator inside the evaluation loop (`rhs - 1` of `@`) is guarded -/
theorem alignOp_no_panic (l r : UInt32) : (alignOp l r).isPanic = false := by
  unfold alignOp
  by_cases h0 : r = 0
  · simp [h0, R.isPanic]
  · have : ¬ r.toNat < 1 := by
      intro h; apply h0; apply UInt32.toNat_inj.mp; simp; omega
    simp only [h0, this, if_false]
    split <;> rfl

theorem step_no_panic (mem : Nat → Option UInt32) (st : St) (t : Tok) :
    (step mem st t).isPanic = false := by
  cases t <;> simp only [step, stepBin]
  all_goals (repeat' split)
  all_goals first | rfl | skip
  all_goals (rename_i l r _ _ _ _ h; have := alignOp_no_panic l r; rw [h] at this; exact this)

theorem run_no_panic (mem : Nat → Option UInt32) (st : St) (ts : List Tok) :
    (run mem st ts).isPanic = false := by
  induction ts generalizing st with
  | nil => rfl
  | cons t rest ih =>
    simp only [run]
    have h := step_no_panic mem st t
    cases hs : step mem st t with
    | ok st' => exact ih st'
    | fail => rfl
    | panic s => rw [hs] at h; exact h

theorem finalVars_no_panic (expr : List Char) (info : Info) (w : Walker) :
    (finalVars expr info w).isPanic = false := by
  unfold finalVars
  split
  · rfl
  · rename_i vs _
    have h := run_no_panic w.mem { vars := vs, stack := [] } (tokenize expr)
    cases hr : run w.mem { vars := vs, stack := [] } (tokenize expr) with
    | ok st => rfl
    | fail => rfl
    | panic s => rw [hr] at h; exact h

/-- `eval_win_expr` never panics: for EVERY program text, size fields, register file, grand
    callee and memory it returns `Some`/`None` -/
theorem evalWin_ok (expr : List Char) (info : Info) (w : Walker) :
    ∃ p, evalWin expr info w = .ok p := by
  unfold evalWin
  have h := finalVars_no_panic expr info w
  cases hf : finalVars expr info w with
  | ok vs => exact ⟨_, rfl⟩
  | fail => exact ⟨_, rfl⟩
  | panic s => rw [hf] at h; cases h

theorem fpoRet_no_panic (info : Info) (w : Walker) : (fpoRet info w).isPanic = false := by
  unfold fpoRet
  cases winFrameSize info w.gcParam with
  | none => rfl
  | some fs =>
  cases w.reg "esp" with
  | none => rfl
  | some esp =>
  have h1 := UInt32.toNat_lt esp
  have h2 := UInt32.toNat_lt fs
  simp only [R.ofOpt, R.bind]
  rw [addU64_ok (by simp only [U64MAX]; omega)]
  simp only []
  cases w.mem (esp.toNat + fs.toNat) with
  | none => rfl
  | some eip0 =>
  simp only []
  cases w.hasGC with
  | true => rfl
  | false =>
    simp only [Bool.not_false, if_true]
    cases w.reg "eip" with
    | none => rfl
    | some ce =>
      simp only []
      by_cases he : eip0 = ce
      · simp only [he, if_true]
        rw [addU64_ok (by simp only [U64MAX]; omega)]
        simp only []
        cases w.mem (esp.toNat + fs.toNat + 4) <;> rfl
      · simp only [he, if_false]; rfl

/-- the address of the return-address slot stays far below 2^64 -/
theorem fpoRet_bound {info : Info} {w : Walker} {esp : UInt32} {a : Nat} {e : UInt32}
    (h : fpoRet info w = .ok (esp, a, e)) : a < 2 ^ 33 + 4 ∧ w.reg "esp" = some esp := by
  unfold fpoRet at h
  cases hf : winFrameSize info w.gcParam with
  | none => simp [hf, R.ofOpt, R.bind] at h
  | some fs =>
  cases hesp : w.reg "esp" with
  | none => simp [hf, hesp, R.ofOpt, R.bind] at h
  | some esp' =>
  have h1 := UInt32.toNat_lt esp'
  have h2 := UInt32.toNat_lt fs
  simp only [hf, hesp, R.ofOpt, R.bind] at h
  rw [addU64_ok (by simp only [U64MAX]; omega)] at h
  simp only [] at h
  cases hm : w.mem (esp'.toNat + fs.toNat) with
  | none => simp [hm] at h
  | some eip0 =>
  simp only [hm] at h
  cases hg : w.hasGC with
  | true =>
    simp only [hg, Bool.not_true, Bool.false_eq_true, if_false, R.ok.injEq, Prod.mk.injEq] at h
    obtain ⟨rfl, rfl, _⟩ := h
    exact ⟨by omega, rfl⟩
  | false =>
    simp only [hg, Bool.not_false, if_true] at h
    cases hce : w.reg "eip" with
    | none => simp [hce] at h
    | some ce =>
      simp only [hce] at h
      by_cases he : eip0 = ce
      · simp only [he, if_true] at h
        rw [addU64_ok (by simp only [U64MAX]; omega)] at h
        simp only [] at h
        cases hm1 : w.mem (esp'.toNat + fs.toNat + 4) with
        | none => simp [hm1] at h
        | some e1 =>
          simp only [hm1, R.ok.injEq, Prod.mk.injEq] at h
          obtain ⟨rfl, rfl, _⟩ := h
          exact ⟨by omega, rfl⟩
      · simp only [he, if_false, R.ok.injEq, Prod.mk.injEq] at h
        obtain ⟨rfl, rfl, _⟩ := h
        exact ⟨by omega, rfl⟩

theorem fpoEbp_no_panic (info : Info) (abp : Bool) (w : Walker) (esp : UInt32) :
    (fpoEbp info abp w esp).isPanic = false := by
  unfold fpoEbp
  have h1 := UInt32.toNat_lt esp
  have h2 := UInt32.toNat_lt w.gcParam
  have h3 := UInt32.toNat_lt info.sav
  cases abp with
  | false => simp only [Bool.false_eq_true, if_false]; cases w.reg "ebp" <;> rfl
  | true =>
    simp only [if_true]
    rw [addU64_ok (by simp only [U64MAX]; omega)]
    simp only [R.bind]
    rw [addU64_ok (by simp only [U64MAX]; omega)]
    simp only []
    split
    · rfl
    · cases w.mem (esp.toNat + w.gcParam.toNat + info.sav.toNat - 8) <;> rfl

/-- `walk_with_stack_win_fpo` never panics: size fields over the full `u32` range (sums past
    2^32), `esp < 8`, missing `ebx`/`ebp`/`eip`, any grand callee and any memory -/
theorem fpoPlan_ok (info : Info) (abp : Bool) (w : Walker) : ∃ p, fpoPlan info abp w = .ok p := by
  unfold fpoPlan
  have hr := fpoRet_no_panic info w
  cases hret : fpoRet info w with
  | panic s => rw [hret] at hr; cases hr
  | fail => exact ⟨_, rfl⟩
  | ok t =>
    obtain ⟨esp, a, e⟩ := t
    have hb := (fpoRet_bound hret).1
    simp only []
    rw [addU64_ok (by simp only [U64MAX]; omega)]
    simp only []
    have he := fpoEbp_no_panic info abp w esp
    cases hebp : fpoEbp info abp w esp with
    | panic s => rw [hebp] at he; cases he
    | fail => exact ⟨_, rfl⟩
    | ok ebp => exact ⟨_, rfl⟩

/-- the parser only files a record under "framedata" when it carries a program string, and under
    "fpo" when it carries the `allocates_base_pointer` flag — so the two `unreachable!()` of
    walker.rs cannot be reached through `SymbolFile::walk_frame` -/
theorem classifyRec_kind (r : Rec) :
    (∀ i, classifyRec r = .frameData i → ∃ e, i.thing = .prog e) ∧
    (∀ i, classifyRec r = .fpo i → ∃ b, i.thing = .abp b) := by
  constructor
  · intro i hi
    unfold classifyRec at hi
    by_cases h4 : r.ty = '4'
    · by_cases h1 : r.hp = '1'
      · simp [h4, h1] at hi; subst hi; exact ⟨_, rfl⟩
      · simp [h4, h1] at hi
    · by_cases h1 : r.hp = '1'
      · simp [h4, h1] at hi
      · by_cases h0 : r.ty = '0'
        · simp [h0, h1] at hi
        · simp [h4, h1, h0] at hi
  · intro i hi
    unfold classifyRec at hi
    by_cases h4 : r.ty = '4'
    · by_cases h1 : r.hp = '1'
      · simp [h4, h1] at hi
      · simp [h4, h1] at hi
    · by_cases h1 : r.hp = '1'
      · simp [h4, h1] at hi
      · by_cases h0 : r.ty = '0'
        · simp [h0, h1] at hi; subst hi; exact ⟨_, rfl⟩
        · simp [h4, h1, h0] at hi

/-- a record is used as framedata iff `type = 4` and `has_program_string = 1`, as fpo iff
    `type = 0` and `has_program_string ≠ 1`; every other combination is discarded -/
theorem classifyRec_spec (r : Rec) :
    ((∃ i, classifyRec r = .frameData i) ↔ (r.ty = '4' ∧ r.hp = '1')) ∧
    ((∃ i, classifyRec r = .fpo i) ↔ (r.ty = '0' ∧ r.hp ≠ '1')) := by
  unfold classifyRec
  by_cases h4 : r.ty = '4'
  · by_cases h1 : r.hp = '1'
    · simp [h4, h1]
    · simp [h4, h1]
  · by_cases h1 : r.hp = '1'
    · simp [h4, h1]
    · by_cases h0 : r.ty = '0'
      · simp [h0, h1]
      · simp [h4, h1, h0]

/-- **win_no_panic** — "malformed programs or extreme size fields fail cleanly instead of
    panicking": for every pair of selected records of the right kinds (what `classifyRec`
    produces), every CFI continuation, every walker (registers, memory, grand callee) and every
    caller state — and whatever names are passed to `clear_caller_register` — `walk_frame`
    returns; there is no panic outcome. -/
theorem win_no_panic (names : List String) (fd fpo : Option SInfo)
    (hfd : ∀ i, fd = some i → ∃ e, i.thing = .prog e)
    (hfpo : ∀ i, fpo = some i → ∃ b, i.thing = .abp b)
    (cfi : Option (Caller → Option Caller)) (w : Walker) (c : Caller) :
    ∃ r, walkSelected names fd fpo cfi w c = .ok r := by
  have fin : ∀ (b : Bool) (c' : Caller), ∃ r, orElseCfi cfi (.ok (b, c')) = .ok r := by
    intro b c'
    cases b with
    | true => exact ⟨_, rfl⟩
    | false =>
      cases cfi with
      | none => exact ⟨_, rfl⟩
      | some f =>
        simp only [orElseCfi]
        cases f c' <;> exact ⟨_, rfl⟩
  unfold walkSelected winResult
  cases fd with
  | some i =>
    obtain ⟨e, he⟩ := hfd i rfl
    obtain ⟨p, hp⟩ := evalWin_ok e i.info w
    simp only [walkFramedata, he, hp]
    exact fin _ _
  | none =>
    cases fpo with
    | some i =>
      obtain ⟨b, hb⟩ := hfpo i rfl
      obtain ⟨p, hp⟩ := fpoPlan_ok i.info b w
      simp only [walkFpo, hb, hp]
      exact fin _ _
    | none => exact fin _ _

/-! ## 6. the FPO formulae, including the leftover-return-address skip -/

/-- `$ebp := *($esp + grand_callee_parameter_size + saved_register_size - 8)` when the function
    allocates a base pointer; a slot below address 0 fails (checked) -/
theorem fpoEbp_abp (info : Info) (w : Walker) (esp : UInt32) :
    fpoEbp info true w esp =
      if esp.toNat + w.gcParam.toNat + info.sav.toNat < 8 then .fail
      else R.ofOpt (w.mem (esp.toNat + w.gcParam.toNat + info.sav.toNat - 8)) := by
  unfold fpoEbp
  have h1 := UInt32.toNat_lt esp
  have h2 := UInt32.toNat_lt w.gcParam
  have h3 := UInt32.toNat_lt info.sav
  simp only [if_true]
  rw [addU64_ok (by simp only [U64MAX]; omega)]
  simp only [R.bind]
  rw [addU64_ok (by simp only [U64MAX]; omega)]

/-- `$ebp := $ebp` otherwise (the callee's `ebp` must be known) -/
theorem fpoEbp_noabp (info : Info) (w : Walker) (esp : UInt32) :
    fpoEbp info false w esp = R.ofOpt (w.reg "ebp") := by
  unfold fpoEbp; simp

/-- `$ebx := $ebx` is set first, only when no base pointer is allocated and `ebx` is known -/
theorem fpoPre_spec (abp : Bool) (w : Walker) :
    fpoPre abp w = match abp, w.reg "ebx" with
      | false, some ebx => [("ebx", ebx.toNat)]
      | _, _ => [] := by
  unfold fpoPre
  cases abp <;> cases w.reg "ebx" <;> rfl

/-- `$eip := *($esp + frame_size)` — no leftover return address: there is a grand callee, or the
    slot does not hold the callee's `eip` -/
theorem fpoRet_plain {info : Info} {w : Walker} {fs esp eip0 : UInt32}
    (hfs : winFrameSize info w.gcParam = some fs) (hesp : w.reg "esp" = some esp)
    (hm : w.mem (esp.toNat + fs.toNat) = some eip0)
    (hno : w.hasGC = true ∨ ∃ ce, w.reg "eip" = some ce ∧ eip0 ≠ ce) :
    fpoRet info w = .ok (esp, esp.toNat + fs.toNat, eip0) := by
  unfold fpoRet
  have h1 := UInt32.toNat_lt esp
  have h2 := UInt32.toNat_lt fs
  simp only [hfs, hesp, R.ofOpt, R.bind]
  rw [addU64_ok (by simp only [U64MAX]; omega)]
  simp only [hm]
  rcases hno with hg | ⟨ce, hce, hne⟩
  · simp [hg]
  · cases hg : w.hasGC with
    | true => simp
    | false => simp [hce, hne]

/-- the leftover-return-address skip: in a context frame (no grand callee) whose return-address
    slot holds the callee's own `eip`, the caller's `eip` is read one word further -/
theorem fpoRet_leftover {info : Info} {w : Walker} {fs esp eip0 : UInt32}
    (hfs : winFrameSize info w.gcParam = some fs) (hesp : w.reg "esp" = some esp)
    (hm : w.mem (esp.toNat + fs.toNat) = some eip0)
    (hgc : w.hasGC = false) (hce : w.reg "eip" = some eip0) :
    fpoRet info w =
      match w.mem (esp.toNat + fs.toNat + 4) with
      | some e1 => .ok (esp, esp.toNat + fs.toNat + 4, e1)
      | none => .fail := by
  unfold fpoRet
  have h1 := UInt32.toNat_lt esp
  have h2 := UInt32.toNat_lt fs
  simp only [hfs, hesp, R.ofOpt, R.bind]
  rw [addU64_ok (by simp only [U64MAX]; omega)]
  simp only [hm, hgc, hce, Bool.not_false, if_true]
  rw [addU64_ok (by simp only [U64MAX]; omega)]
  simp only []
  cases w.mem (esp.toNat + fs.toNat + 4) <;> rfl

/-- in a context frame the callee's `eip` is needed to make the comparison -/
theorem fpoRet_context_needs_eip {info : Info} {w : Walker} {fs esp eip0 : UInt32}
    (hfs : winFrameSize info w.gcParam = some fs) (hesp : w.reg "esp" = some esp)
    (hm : w.mem (esp.toNat + fs.toNat) = some eip0)
    (hgc : w.hasGC = false) (hce : w.reg "eip" = none) : fpoRet info w = .fail := by
  unfold fpoRet
  have h1 := UInt32.toNat_lt esp
  have h2 := UInt32.toNat_lt fs
  simp only [hfs, hesp, R.ofOpt, R.bind]
  rw [addU64_ok (by simp only [U64MAX]; omega)]
  simp only [hm, hgc, hce, Bool.not_false, if_true]

/-- `$esp := <address of the return-address slot> + 4`, `$ebp` per `fpoEbp`, and the order of the
    `set_caller_register` calls (ebx, eip, esp, ebp) -/
theorem fpoPlan_of_ret {info : Info} {abp : Bool} {w : Walker} {esp : UInt32} {a : Nat} {e : UInt32}
    (hret : fpoRet info w = .ok (esp, a, e)) :
    fpoPlan info abp w =
      match fpoEbp info abp w esp with
      | .ok ebp => .ok { sets := fpoPre abp w ++ [("eip", e.toNat), ("esp", a + 4), ("ebp", ebp.toNat)],
                         done := true }
      | .fail => .ok { sets := fpoPre abp w, done := false }
      | .panic s => .panic s := by
  have hb := (fpoRet_bound hret).1
  unfold fpoPlan
  simp only [hret]
  rw [addU64_ok (by simp only [U64MAX]; omega)]
  simp only []
  cases fpoEbp info abp w esp <;> rfl

/-- **fpo_formulae** — the documented pseudocode, no leftover return address:
    `$eip := *($esp + frame_size)`, `$esp := $esp + frame_size + 4`, `$ebp` from the saved slot or
    passed through, `$ebx` passed through; `frame_size = local + saved + grand_callee_params`. -/
theorem fpo_formulae {info : Info} {abp : Bool} {w : Walker} {fs esp eip0 ebp : UInt32}
    (hfs : winFrameSize info w.gcParam = some fs) (hesp : w.reg "esp" = some esp)
    (hm : w.mem (esp.toNat + fs.toNat) = some eip0)
    (hno : w.hasGC = true ∨ ∃ ce, w.reg "eip" = some ce ∧ eip0 ≠ ce)
    (hebp : fpoEbp info abp w esp = .ok ebp) :
    fs.toNat = info.loc.toNat + info.sav.toNat + w.gcParam.toNat ∧
    fpoPlan info abp w =
      .ok { sets := fpoPre abp w ++
              [("eip", eip0.toNat), ("esp", esp.toNat + fs.toNat + 4), ("ebp", ebp.toNat)],
            done := true } := by
  refine ⟨(winFrameSize_some.mp hfs).2, ?_⟩
  rw [fpoPlan_of_ret (fpoRet_plain hfs hesp hm hno), hebp]

/-- **fpo leftover skip** — only when there is no grand callee and `*(esp+frame) == callee eip`:
    `$eip := *($esp + frame_size + 4)`, `$esp := $esp + frame_size + 8`. -/
theorem fpo_leftover_skip {info : Info} {abp : Bool} {w : Walker} {fs esp eip0 e1 ebp : UInt32}
    (hfs : winFrameSize info w.gcParam = some fs) (hesp : w.reg "esp" = some esp)
    (hm : w.mem (esp.toNat + fs.toNat) = some eip0)
    (hgc : w.hasGC = false) (hce : w.reg "eip" = some eip0)
    (hm1 : w.mem (esp.toNat + fs.toNat + 4) = some e1)
    (hebp : fpoEbp info abp w esp = .ok ebp) :
    fpoPlan info abp w =
      .ok { sets := fpoPre abp w ++
              [("eip", e1.toNat), ("esp", esp.toNat + fs.toNat + 4 + 4), ("ebp", ebp.toNat)],
            done := true } := by
  have hr := fpoRet_leftover hfs hesp hm hgc hce
  rw [hm1] at hr
  rw [fpoPlan_of_ret hr, hebp]

/-- an fpo record fails cleanly when the frame size does not fit `u32` -/
theorem fpo_frame_overflow_fails {info : Info} {abp : Bool} {w : Walker}
    (h : U32MAX < info.loc.toNat + info.sav.toNat + w.gcParam.toNat) :
    fpoPlan info abp w = .ok { sets := [], done := false } := by
  unfold fpoPlan fpoRet
  rw [winFrameSize_none.mpr h]
  rfl

/-! ## 7. only the six output registers are reported -/

/-- every `set_caller_register` call made for a program names one of `eip esp ebp ebx esi edi`
    and passes the 32-bit value of the variable `$<name>` -/
theorem evalWin_sets {expr : List Char} {info : Info} {w : Walker} {p : Plan}
    (h : evalWin expr info w = .ok p) :
    (p.done = true → ∃ vs, finalVars expr info w = .ok vs ∧ p.sets = outputs vs) ∧
    (p.done = false → p.sets = []) ∧
    ∀ s ∈ p.sets, s.1 ∈ outputRegs ∧ s.2 ≤ U32MAX := by
  unfold evalWin at h
  cases hf : finalVars expr info w with
  | panic s => simp [hf] at h
  | fail =>
    simp only [hf, Outcome.ok.injEq] at h; subst h
    refine ⟨?_, ?_, ?_⟩
    · intro h; cases h
    · intro _; rfl
    · intro s hs; cases hs
  | ok vs =>
    simp only [hf, Outcome.ok.injEq] at h; subst h
    refine ⟨?_, ?_, ?_⟩
    · intro _; exact ⟨vs, rfl, rfl⟩
    · intro h; cases h
    · rintro ⟨r, v⟩ hs
      obtain ⟨hr, u, _, rfl⟩ := mem_outputs.mp hs
      have := UInt32.toNat_lt u
      exact ⟨hr, by simp only [U32MAX]; omega⟩

theorem fpoPre_names (abp : Bool) (w : Walker) : ∀ s ∈ fpoPre abp w, s.1 = "ebx" := by
  rw [fpoPre_spec]
  cases abp <;> cases w.reg "ebx" <;> simp

/-- the fpo form only ever sets `ebx`, `eip`, `esp`, `ebp` -/
theorem fpoPlan_sets {info : Info} {abp : Bool} {w : Walker} {p : Plan}
    (h : fpoPlan info abp w = .ok p) : ∀ s ∈ p.sets, s.1 ∈ ["ebx", "eip", "esp", "ebp"] := by
  have hpre := fpoPre_names abp w
  cases hret : fpoRet info w with
  | panic s => unfold fpoPlan at h; simp [hret] at h
  | fail =>
    unfold fpoPlan at h; simp only [hret, Outcome.ok.injEq] at h; subst h
    intro s hs; cases hs
  | ok t =>
    obtain ⟨esp, a, e⟩ := t
    rw [fpoPlan_of_ret hret] at h
    cases hebp : fpoEbp info abp w esp with
    | panic s => simp [hebp] at h
    | fail =>
      simp only [hebp, Outcome.ok.injEq] at h; subst h
      intro s hs; simp [hpre s hs]
    | ok ebp =>
      simp only [hebp, Outcome.ok.injEq] at h; subst h
      intro s hs
      simp only [List.mem_append, List.mem_cons, List.not_mem_nil, or_false] at hs
      rcases hs with hs | hs | hs | hs
      · simp [hpre s hs]
      · simp [hs]
      · simp [hs]
      · simp [hs]

/-- frame rule for one STACK WIN routine: a register that the plan does not name keeps its value,
    and cannot become valid -/
theorem runPlan_frame {names : List String} {c c' : Caller} {p : Plan} {b : Bool}
    (h : runPlan (clearAll names c) p = (b, c')) {r : String} (hr : r ∉ p.sets.map (·.1)) :
    (r ∈ c'.valid → r ∈ c.valid) ∧ c'.vals.get r = c.vals.get r := by
  unfold runPlan at h
  cases ha : applySets (clearAll names c) p.sets with
  | mk ok c1 =>
    simp only [ha, Prod.mk.injEq] at h
    obtain ⟨_, rfl⟩ := h
    constructor
    · intro hv
      rcases (applySets_valid_sub ha r).2 hv with h1 | h1
      · exact ((clearAll_valid names c r).mp h1).1
      · exact absurd h1 hr
    · rw [applySets_vals_other ha hr, clearAll_vals]

/-- **outputs_only_six** — "Only $eip, $esp, $ebp, $ebx, $esi and $edi are reported": whatever
    STACK WIN record is selected (either form), whatever the walker holds and whether the walk
    succeeds or not, a register outside the six keeps its value in the caller's context and
    cannot become valid (`eax ecx edx eflags` stay unknown). -/
theorem outputs_only_six {names : List String} {fd fpo : Option SInfo} {w : Walker} {c c' : Caller}
    {b : Bool} (h : winResult names fd fpo w c = .ok (b, c')) {r : String} (hr : r ∉ outputRegs) :
    (r ∈ c'.valid → r ∈ c.valid) ∧ c'.vals.get r = c.vals.get r := by
  unfold winResult at h
  have key : ∀ (p : Plan), (∀ s ∈ p.sets, s.1 ∈ outputRegs) →
      runPlan (clearAll names c) p = (b, c') →
      (r ∈ c'.valid → r ∈ c.valid) ∧ c'.vals.get r = c.vals.get r := by
    intro p hp hrun
    apply runPlan_frame hrun
    intro hm
    obtain ⟨s, hs, rfl⟩ := List.mem_map.mp hm
    exact hr (hp s hs)
  cases fd with
  | some i =>
    simp only [walkFramedata] at h
    cases ht : i.thing with
    | abp x => simp [ht] at h
    | prog expr =>
      simp only [ht] at h
      cases he : evalWin expr i.info w with
      | panic s => simp [he] at h
      | ok p =>
        simp only [he, Outcome.ok.injEq] at h
        exact key p (fun s hs => ((evalWin_sets he).2.2 s hs).1) h
  | none =>
    cases fpo with
    | none =>
      simp only [Outcome.ok.injEq, Prod.mk.injEq] at h
      obtain ⟨_, rfl⟩ := h
      exact ⟨fun h => h, rfl⟩
    | some i =>
      simp only [walkFpo] at h
      cases ht : i.thing with
      | prog x => simp [ht] at h
      | abp x =>
        simp only [ht] at h
        cases he : fpoPlan i.info x w with
        | panic s => simp [he] at h
        | ok p =>
          simp only [he, Outcome.ok.injEq] at h
          refine key p (fun s hs => ?_) h
          have := fpoPlan_sets he s hs
          simp only [List.mem_cons, List.not_mem_nil, or_false] at this
          rcases this with h1 | h1 | h1 | h1 <;> simp [outputRegs, h1]

/-! ## 8. no implicit forwarding -/

/-- the caller's validity set and register values after a successful program, for ANY list of
    names handed to `clear_caller_register` -/
theorem framedata_caller {names : List String} {i : SInfo} {expr : List Char} {w : Walker}
    {c c' : Caller} {vs : Vars} (hi : i.thing = .prog expr)
    (hv : finalVars expr i.info w = .ok vs)
    (h : walkFramedata names i w c = .ok (true, c')) :
    (∀ r, r ∈ c'.valid ↔
      (r ∈ c.valid ∧ ¬ (r ∈ names ∧ r ∈ x86Regs)) ∨ (r ∈ outputRegs ∧ ∃ u, vs.get ("$" ++ r) = some u)) ∧
    (∀ r ∈ outputRegs, ∀ u, vs.get ("$" ++ r) = some u → c'.vals.get r = some u) := by
  simp only [walkFramedata, hi, evalWin, hv, Outcome.ok.injEq] at h
  unfold runPlan at h
  cases ha : applySets (clearAll names c) (outputs vs) with
  | mk ok c1 =>
    simp only [ha, Bool.and_true, Prod.mk.injEq] at h
    obtain ⟨rfl, rfl⟩ := h
    constructor
    · intro r
      rw [applySets_valid ha, clearAll_valid]
      apply or_congr Iff.rfl
      simp only [List.mem_map]
      constructor
      · rintro ⟨⟨r', v⟩, hm, rfl⟩
        obtain ⟨h1, u, h2, _⟩ := mem_outputs.mp hm
        exact ⟨h1, u, h2⟩
      · rintro ⟨h1, u, h2⟩
        exact ⟨(r, u.toNat), mem_outputs.mpr ⟨h1, u, h2, rfl⟩, rfl⟩
    · intro r hr u hu
      have := applySets_vals_mem ha (outputs_names_nodup vs) (mem_outputs.mpr ⟨hr, u, hu, rfl⟩)
      rw [this, UInt32.ofNat_toNat]

/-- a program that evaluates always completes its `set_caller_register` calls on the x86 walker -/
theorem framedata_succeeds {names : List String} {i : SInfo} {expr : List Char} {w : Walker}
    (c : Caller) {vs : Vars} (hi : i.thing = .prog expr) (hv : finalVars expr i.info w = .ok vs) :
    ∃ c', walkFramedata names i w c = .ok (true, c') := by
  have he : evalWin expr i.info w = .ok { sets := outputs vs, done := true } := by
    simp only [evalWin, hv]
  obtain ⟨c', hc'⟩ := applySets_ok (clearAll names c) (outputs vs) (by
    intro s hs
    obtain ⟨h1, h2⟩ := (evalWin_sets he).2.2 s hs
    refine ⟨?_, h2⟩
    revert h1; generalize s.1 = n; intro h1
    simp only [outputRegs, List.mem_cons, List.not_mem_nil, or_false] at h1
    rcases h1 with h | h | h | h | h | h <;> subst h <;> decide)
  exact ⟨c', by simp only [walkFramedata, hi, he, runPlan, hc', Bool.and_true]⟩

theorem six_sub_x86 : ∀ r ∈ outputRegs, r ∈ x86Regs := by decide

/-- **no_implicit_forwarding_partial** — "registers the record did not set are unknown in the
    caller", CONDITIONAL on `clear_stack_win_caller_registers` passing the register names without
    `$` (`clearNamesFixed`, the proposed patch): after a successful program, for every starting
    state of the caller, one of the six registers is valid in the caller iff the variable
    `$<reg>` is defined at the end of the program, and then it holds that variable's value. -/
theorem no_implicit_forwarding_partial {i : SInfo} {expr : List Char} {w : Walker} {c c' : Caller}
    {vs : Vars} (hi : i.thing = .prog expr) (hv : finalVars expr i.info w = .ok vs)
    (h : walkFramedata clearNamesFixed i w c = .ok (true, c')) :
    ∀ r ∈ outputRegs, (r ∈ c'.valid ↔ ∃ u, vs.get ("$" ++ r) = some u) ∧
      ∀ u, vs.get ("$" ++ r) = some u → c'.vals.get r = some u := by
  obtain ⟨h1, h2⟩ := framedata_caller hi hv h
  intro r hr
  refine ⟨?_, h2 r hr⟩
  rw [h1 r]
  have hx := six_sub_x86 r hr
  have hn : r ∈ clearNamesFixed := hr
  constructor
  · rintro (⟨_, h3⟩ | ⟨_, h3⟩)
    · exact absurd ⟨hn, hx⟩ h3
    · exact h3
  · intro h3; exact Or.inr ⟨hr, h3⟩

/-- the same for the fpo form with the corrected clear list: exactly `eip esp ebp`, plus `ebx`
    when it is passed through, are valid among the six -/
theorem no_implicit_forwarding_fpo_partial {i : SInfo} {abp : Bool} {w : Walker} {c c' : Caller}
    {p : Plan} (hi : i.thing = .abp abp) (hp : fpoPlan i.info abp w = .ok p)
    (h : walkFpo clearNamesFixed i w c = .ok (true, c')) :
    ∀ r ∈ outputRegs, (r ∈ c'.valid ↔ r ∈ p.sets.map (·.1)) := by
  simp only [walkFpo, hi, hp, Outcome.ok.injEq] at h
  unfold runPlan at h
  cases ha : applySets (clearAll clearNamesFixed c) p.sets with
  | mk ok c1 =>
    simp only [ha, Prod.mk.injEq, Bool.and_eq_true] at h
    obtain ⟨⟨rfl, _⟩, rfl⟩ := h
    intro r hr
    rw [applySets_valid ha, clearAll_valid]
    have hx := six_sub_x86 r hr
    have hn : r ∈ clearNamesFixed := hr
    constructor
    · rintro (⟨_, h3⟩ | h3)
      · exact absurd ⟨hn, hx⟩ h3
      · exact h3
    · intro h3; exact Or.inr h3

/-- what the code does TODAY: the names carry a `$`, the x86 context knows none of them, so
    `clear_stack_win_caller_registers` clears nothing -/
theorem actual_clear_is_noop (c : Caller) (r : String) :
    r ∈ (clearAll clearNamesActual c).valid ↔ r ∈ c.valid := by
  rw [clearAll_valid]
  constructor
  · exact fun h => h.1
  · intro h
    refine ⟨h, ?_⟩
    rintro ⟨h1, h2⟩
    simp only [clearNamesActual, List.mem_cons, List.not_mem_nil, or_false] at h1
    rcases h1 with h1 | h1 | h1 | h1 | h1 | h1 <;> subst h1 <;> revert h2 <;> decide

/-- **implicit forwarding happens** (the real walker, for EVERY input): after a successful
    program every register that was valid before — the callee-saved registers forwarded from the
    callee — is still valid, whether the program set it or not. -/
theorem implicit_forwarding_actual {i : SInfo} {expr : List Char} {w : Walker} {c c' : Caller}
    {vs : Vars} (hi : i.thing = .prog expr) (hv : finalVars expr i.info w = .ok vs)
    (h : walkFramedata clearNamesActual i w c = .ok (true, c')) (r : String) :
    r ∈ c'.valid ↔ r ∈ c.valid ∨ (r ∈ outputRegs ∧ ∃ u, vs.get ("$" ++ r) = some u) := by
  rw [(framedata_caller hi hv h).1 r, ← clearAll_valid, actual_clear_is_noop]

/-- witness of the defect: callee `esp=0x1010 ebp=0x1020 esi=0x51`, every stack word `0xdeadbeef`,
    record `STACK WIN 4 … 0 0 0 … 1 $eip .raSearch ^ = $esp .raSearch 4 + =` -/
def witnessW : Walker :=
  { hasGC := false, gcParam := 0,
    reg := fun n => if n = "esp" then some 0x1010 else if n = "ebp" then some 0x1020
                    else if n = "esi" then some 0x51 else none,
    mem := fun _ => some 0xdeadbeef }
def witnessProg : List Char := "$eip .raSearch ^ = $esp .raSearch 4 + =".toList
def witnessInfo : SInfo := { info := ⟨0, 0, 0⟩, thing := .prog witnessProg }
/-- the caller as `CfiStackWalker::from_ctx_and_args` seeds it: `ebp` and `esi` forwarded -/
def witnessCaller : Caller :=
  Caller.init [("esp", 0x1010), ("ebp", 0x1020), ("esi", 0x51)] (fun n => (witnessW.reg n).isSome)

theorem witness_eval :
    (match finalVars witnessProg ⟨0, 0, 0⟩ witnessW with
      | .ok vs => (vs.get "$esi", vs.get "$eip", vs.get "$esp")
      | _ => (none, none, none)) = (none, some 0xdeadbeef, some 0x1014) := by decide

/-- **no_implicit_forwarding is FALSE for the code as it is** (known finding
    `C07-clear-dollar-names`): the program assigns only `$eip` and `$esp`, never mentions `$esi`,
    the walk succeeds, `$esi` is undefined at the end — and `esi` is valid in the caller with the
    callee's value. -/
theorem no_implicit_forwarding_fails :
    ∃ vs c', finalVars witnessProg witnessInfo.info witnessW = .ok vs ∧
      walkFramedata clearNamesActual witnessInfo witnessW witnessCaller = .ok (true, c') ∧
      vs.get ("$" ++ "esi") = none ∧ "esi" ∈ outputRegs ∧ "esi" ∈ c'.valid ∧
      c'.vals.get "esi" = some 0x51 ∧
      ¬ (∀ r ∈ outputRegs, (r ∈ c'.valid ↔ ∃ u, vs.get ("$" ++ r) = some u)) := by
  have he := witness_eval
  cases hv : finalVars witnessProg ⟨0, 0, 0⟩ witnessW with
  | panic s => rw [hv] at he; simp at he
  | fail => rw [hv] at he; simp at he
  | ok vs =>
    rw [hv] at he
    simp only [Prod.mk.injEq] at he
    obtain ⟨hesi, _, _⟩ := he
    obtain ⟨c', hc'⟩ := framedata_succeeds (names := clearNamesActual) witnessCaller
      (i := witnessInfo) rfl hv
    have hval := implicit_forwarding_actual (i := witnessInfo) rfl hv hc'
    have hesi' : vs.get ("$" ++ "esi") = none := hesi
    have hin : "esi" ∈ c'.valid := (hval "esi").mpr (Or.inl (by decide))
    have hvals : c'.vals.get "esi" = some 0x51 := by
      have hout : walkFramedata clearNamesActual witnessInfo witnessW witnessCaller = .ok (true, c') := hc'
      simp only [walkFramedata, witnessInfo, evalWin, hv, Outcome.ok.injEq] at hout
      have hfr := (runPlan_frame (r := "esi") hout (by
        intro hm
        obtain ⟨⟨r, v⟩, hs, hrv⟩ := List.mem_map.mp hm
        simp only at hrv; subst hrv
        obtain ⟨_, u, hu, _⟩ := mem_outputs.mp hs
        rw [hesi'] at hu; cases hu)).2
      rw [hfr]; decide
    refine ⟨vs, c', hv, hc', hesi', by decide, hin, hvals, ?_⟩
    intro hall
    obtain ⟨u, hu⟩ := (hall "esi" (by decide)).mp hin
    rw [hesi'] at hu; cases hu

/-! ## 9. record selection: framedata > fpo > STACK CFI -/

/-- a framedata record is preferred to an fpo record for the same address -/
theorem select_framedata_first (names : List String) (i : SInfo) (fpo : Option SInfo) (w : Walker)
    (c : Caller) : winResult names (some i) fpo w c = walkFramedata names i w c := rfl

/-- an fpo record is used when no framedata record covers the address -/
theorem select_fpo_second (names : List String) (i : SInfo) (w : Walker) (c : Caller) :
    winResult names none (some i) w c = walkFpo names i w c := rfl

/-- a framedata record that fails is NOT retried as fpo: the fpo record plays no role -/
theorem framedata_failure_skips_fpo (names : List String) (i : SInfo) (fpo fpo' : Option SInfo)
    (cfi : Option (Caller → Option Caller)) (w : Walker) (c : Caller) :
    walkSelected names (some i) fpo cfi w c = walkSelected names (some i) fpo' cfi w c := rfl

/-- a successful STACK WIN result is final: STACK CFI is not consulted -/
theorem win_success_is_final {names : List String} {fd fpo : Option SInfo} {w : Walker}
    {c c' : Caller} (cfi : Option (Caller → Option Caller))
    (h : winResult names fd fpo w c = .ok (true, c')) :
    walkSelected names fd fpo cfi w c = .ok (true, c') := by
  unfold walkSelected; rw [h]; rfl

/-- STACK CFI runs exactly when STACK WIN returned `None`, on the walker as STACK WIN left it -/
theorem cfi_after_win_failure {names : List String} {fd fpo : Option SInfo} {w : Walker}
    {c c' : Caller} (f : Caller → Option Caller)
    (h : winResult names fd fpo w c = .ok (false, c')) :
    walkSelected names fd fpo (some f) w c =
      match f c' with
      | some c'' => .ok (true, c'')
      | none => .ok (false, c') := by
  unfold walkSelected; rw [h]; rfl

/-- FPO's documented pass-through: without a base pointer allocation `%ebx` (when known) and
    `%ebp` of the callee are handed to the caller unchanged, `%ebx` first -/
theorem fpo_passthrough {info : Info} {w : Walker} {fs esp eip0 bx bp : UInt32}
    (hfs : winFrameSize info w.gcParam = some fs) (hesp : w.reg "esp" = some esp)
    (hm : w.mem (esp.toNat + fs.toNat) = some eip0)
    (hno : w.hasGC = true ∨ ∃ ce, w.reg "eip" = some ce ∧ eip0 ≠ ce)
    (hbx : w.reg "ebx" = some bx) (hbp : w.reg "ebp" = some bp) :
    fpoPlan info false w =
      .ok { sets := [("ebx", bx.toNat), ("eip", eip0.toNat), ("esp", esp.toNat + fs.toNat + 4),
                     ("ebp", bp.toNat)], done := true } := by
  have hebp : fpoEbp info false w esp = .ok bp := by rw [fpoEbp_noabp, hbp]; rfl
  rw [(fpo_formulae hfs hesp hm hno hebp).2, fpoPre_spec, hbx]
  rfl

/-! ## 10. tokens: the `=tok` spelling, variables, literals -/

/-- the `=tok` hack: a piece that starts with `=` and is longer than one character is read as
    `=` followed by the rest — one level only -/
theorem splitEq_hack (c : Char) (rest : List Char) :
    splitEq ('=' :: c :: rest) = [['='], c :: rest] := rfl

theorem splitEq_plain (p : List Char) (h : p.head? ≠ some '=') : splitEq p = [p] := by
  unfold splitEq
  split
  · simp at h
  · rfl

theorem splitEq_eq : splitEq ['='] = [['=']] := rfl

/-- every token that starts with `$` is a variable -/
theorem classify_dollar (t : List Char) : classify ('$' :: t) = .var (String.ofList ('$' :: t)) := by
  unfold classify
  simp (config := { decide := true })

/-- every token that starts with `.` is a variable, except `.undef` -/
theorem classify_dot (t : List Char) (h : '.' :: t ≠ ".undef".toList) :
    classify ('.' :: t) = .var (String.ofList ('.' :: t)) := by
  have ht : ¬ t = ['u', 'n', 'd', 'e', 'f'] := fun e => h (by rw [e]; decide)
  unfold classify
  simp (config := { decide := true }) [ht]

example : tokenize "$T0 $ebp = $eip $T0 4 + ^ =".toList =
    [.var "$T0", .var "$ebp", .assign, .var "$eip", .var "$T0", .lit 4, .add, .deref, .assign] := by decide
example : tokenize "$eip 4 =$esp .undef\t= ==x".toList =
    [.var "$eip", .lit 4, .assign, .var "$esp", .undef, .assign, .assign, .bad] := by decide
example : tokenize "+ - * / % @ = ^ .undef".toList =
    [.add, .sub, .mul, .div, .rem, .align, .assign, .deref, .undef] := by decide
example : tokenize "2147483647 -2147483648 2147483648 -2147483649 +5 -0 007".toList =
    [.lit 2147483647, .lit 2147483648, .bad, .bad, .lit 5, .lit 0, .lit 7] := by decide
example : tokenize "-1 ebp 1x 0x10 +-1 - +".toList =
    [.lit 4294967295, .bad, .bad, .bad, .bad, .sub, .add] := by decide

/-- `@` fails exactly on a right operand that is zero or not a power of two -/
theorem align_fail_iff (l r : UInt32) : alignOp l r = .fail ↔ (r = 0 ∨ isPow2 r = false) := by
  unfold alignOp
  by_cases h0 : r = 0
  · simp [h0]
  · have hlt : ¬ r.toNat < 1 := by
      intro h; apply h0; apply UInt32.toNat_inj.mp; simp; omega
    cases hp : isPow2 r <;> simp [h0, hp, hlt]

example : alignOp 13 4 = .ok 12 := by decide
example : alignOp 0xffffffff 0x80000000 = .ok 0x80000000 := by decide
example : alignOp 13 1 = .ok 13 := by decide
example : alignOp 13 3 = .fail := by decide
example : alignOp 13 0 = .fail := by decide

theorem nat_align (l k : Nat) (hl : l < 2 ^ 32) (hk : k < 32) :
    l &&& ((2 ^ 32 - 1) ^^^ (2 ^ k - 1)) = l - l % 2 ^ k := by
  have h2 : l - l % 2 ^ k = 2 ^ k * (l / 2 ^ k) := by
    have := Nat.div_add_mod l (2 ^ k); omega
  rw [h2]
  apply Nat.eq_of_testBit_eq
  intro i
  rw [Nat.testBit_and, Nat.testBit_xor, Nat.testBit_two_pow_sub_one, Nat.testBit_two_pow_sub_one,
    Nat.testBit_two_pow_mul, Nat.testBit_div_two_pow]
  by_cases hi : i < 32
  · by_cases hik : i < k
    · have hki : ¬ k ≤ i := by omega
      simp [hi, hik, hki]
    · have hki : k ≤ i := by omega
      have h3 : i - k + k = i := by omega
      simp [hi, hik, hki, h3]
  · have hz : l.testBit i = false := Nat.testBit_lt_two_pow (by
      calc l < 2 ^ 32 := hl
        _ ≤ 2 ^ i := Nat.pow_le_pow_right (by omega) (by omega))
    have hik : ¬ i < k := by omega
    have hki : k ≤ i := by omega
    have h3 : i - k + k = i := by omega
    simp [hi, hik, hki, h3, hz]

theorem pow2_table : ∀ k : Fin 32, isPow2 (UInt32.ofNat (2 ^ k.val)) = true ∧
    (UInt32.ofNat (2 ^ k.val)).toNat = 2 ^ k.val ∧ UInt32.ofNat (2 ^ k.val) ≠ 0 := by decide

/-- **align** — for a power of two `r = 2^k` (any of the 32), `l r @` is `l` truncated to a
    multiple of `r`: `l - l mod r`. -/
theorem align_spec (l r : UInt32) (k : Nat) (hk : k < 32) (hr : r.toNat = 2 ^ k) :
    ∃ v, alignOp l r = .ok v ∧ v.toNat = l.toNat - l.toNat % 2 ^ k := by
  have hrr : r = UInt32.ofNat (2 ^ k) := by
    apply UInt32.toNat_inj.mp; rw [hr]; exact ((pow2_table ⟨k, hk⟩).2.1).symm
  obtain ⟨hp, _, hne⟩ := pow2_table ⟨k, hk⟩
  simp only at hp hne
  rw [← hrr] at hp hne
  have hlt : ¬ r.toNat < 1 := by rw [hr]; have := Nat.two_pow_pos k; omega
  refine ⟨l &&& (0xffffffff ^^^ (r - 1)), ?_, ?_⟩
  · unfold alignOp; simp [hne, hp, hlt]
  · rw [UInt32.toNat_and, UInt32.toNat_xor]
    have h1 : (r - 1).toNat = 2 ^ k - 1 := by
      rw [UInt32.toNat_sub]
      have : (1 : UInt32).toNat = 1 := rfl
      rw [this, hr]
      have hpos := Nat.two_pow_pos k
      have hlt32 : 2 ^ k < 2 ^ 32 := Nat.pow_lt_pow_right (by omega) hk
      omega
    rw [h1]
    have h2 : (0xffffffff : UInt32).toNat = 2 ^ 32 - 1 := by decide
    rw [h2]
    exact nat_align l.toNat k (UInt32.toNat_lt l) hk

/-- a successful program reports its outputs through `set_caller_register`, exactly the defined
    variables among the six, in the order `eip esp ebp ebx esi edi` — nothing is left to what the
    walker forwards on its own -/
theorem framedata_calls {names : List String} {i : SInfo} {expr : List Char} {w : Walker}
    {c c' : Caller} {vs : Vars} (hi : i.thing = .prog expr)
    (hv : finalVars expr i.info w = .ok vs)
    (h : walkFramedata names i w c = .ok (true, c')) :
    c'.log = c.log ++ outputs vs ∧ c'.clears = c.clears ++ names := by
  simp only [walkFramedata, hi, evalWin, hv, Outcome.ok.injEq] at h
  unfold runPlan at h
  cases ha : applySets (clearAll names c) (outputs vs) with
  | mk ok c1 =>
    simp only [ha, Bool.and_true, Prod.mk.injEq] at h
    obtain ⟨rfl, rfl⟩ := h
    constructor
    · rw [applySets_log ha]
      have : (clearAll names c).log = c.log := clearAll_log names c
      rw [this]
    · rw [applySets_clears ha, clearAll_clears]

/-! ## 11. non-vacuity: concrete instances of the hypothesis sets used above -/

def exW : Walker :=
  { hasGC := true, gcParam := 4,
    reg := fun n => if n = "esp" then some 0x1000 else if n = "ebp" then some 0x1010
                    else if n = "ebx" then some 0xb0 else if n = "eip" then some 0x401005 else none,
    mem := fun a => if a % 4 = 0 ∧ 0x1000 ≤ a ∧ a < 0x1100 then some (UInt32.ofNat (a + 7)) else none }
def exInfo : Info := { par := 12, sav := 8, loc := 16 }

-- consts_table / ra_search: initialisation succeeds, both branches
example : (initVars false exInfo exW).isSome = true := by decide
example : (initVars true exInfo exW).isSome = true := by decide
example : searchStart false exInfo 4 0x1000 0x1010 = some 0x101c := by decide
example : searchStart true exInfo 4 0x1000 0x1010 = some 0x1014 := by decide
-- … and fails past 2^32
example : searchStart false ⟨0, 0xffffffff, 0xffffffff⟩ 0 0x1000 0 = none := by decide
example : searchStart false ⟨0, 0, 8⟩ 0 0xfffffffc 0 = none := by decide
example : searchStart true exInfo 4 0 0xfffffffc = none := by decide
-- fpo_formulae (grand callee present), fpo_passthrough
example : winFrameSize exInfo exW.gcParam = some 28 ∧ exW.reg "esp" = some 0x1000 ∧
    exW.mem ((0x1000 : UInt32).toNat + (28 : UInt32).toNat) = some 0x1023 ∧ exW.hasGC = true ∧
    fpoEbp exInfo true exW 0x1000 = .ok 0x100b ∧ fpoEbp exInfo false exW 0x1000 = .ok 0x1010 := by decide
example : fpoPlan exInfo false exW =
    .ok { sets := [("ebx", 0xb0), ("eip", 0x1023), ("esp", 0x1020), ("ebp", 0x1010)], done := true } := by decide
example : fpoPlan exInfo true exW =
    .ok { sets := [("eip", 0x1023), ("esp", 0x1020), ("ebp", 0x100b)], done := true } := by decide
-- fpo_leftover_skip: no grand callee and the slot holds the callee's eip
def exW2 : Walker :=
  { exW with hasGC := false, gcParam := 0,
             mem := fun a => if a = 0x1018 then some 0x401005 else if a = 0x101c then some 0x77 else none }
example : winFrameSize exInfo exW2.gcParam = some 24 ∧ exW2.mem (0x1000 + 24) = some 0x401005 ∧
    exW2.hasGC = false ∧ exW2.reg "eip" = some 0x401005 ∧ exW2.mem (0x1000 + 24 + 4) = some 0x77 := by decide
example : fpoPlan exInfo false exW2 =
    .ok { sets := [("ebx", 0xb0), ("eip", 0x77), ("esp", 0x1020), ("ebp", 0x1010)], done := true } := by decide
-- the same stack WITH a grand callee: no skip
example : fpoPlan exInfo false { exW2 with hasGC := true } =
    .ok { sets := [("ebx", 0xb0), ("eip", 0x401005), ("esp", 0x101c), ("ebp", 0x1010)], done := true } := by decide
-- fpo: esp < 8 with a base pointer allocation fails cleanly; frame size past 2^32 fails cleanly
def exW3 : Walker :=
  { hasGC := true, gcParam := 0, reg := fun n => if n = "esp" then some 4 else none, mem := fun _ => some 1 }
example : fpoPlan ⟨0, 0, 0⟩ true exW3 = .ok { sets := [], done := false } := by decide
example : fpoPlan ⟨0, 0xffffffff, 0xffffffff⟩ false exW = .ok { sets := [], done := false } := by decide
-- no_implicit_forwarding_partial: with the corrected names the witness walk succeeds and `esi` is unknown
example : (match walkFramedata clearNamesFixed witnessInfo witnessW witnessCaller with
    | .ok (true, c') => (c'.valid.contains "esi", c'.valid.contains "eip", c'.valid.contains "esp",
        c'.valid.contains "ebp")
    | _ => (true, false, false, false)) = (false, true, true, true) := by decide
-- … and with the names the code passes today `esi` stays valid
example : (match walkFramedata clearNamesActual witnessInfo witnessW witnessCaller with
    | .ok (true, c') => c'.valid.contains "esi"
    | _ => false) = true := by decide
-- win_no_panic / selection / CFI fallback: a failing program followed by the CFI continuation
example : (match walkSelected clearNamesActual (some { info := exInfo, thing := .prog "foo".toList })
      (some { info := exInfo, thing := .abp false }) (some cfiConst) exW (Caller.init [] fun _ => false) with
    | .ok (true, c') => (c'.vals.get "esp", c'.vals.get "eip")
    | _ => (none, none)) = (some 4096, some 8192) := by decide
-- classifyRec_kind: both kinds occur
example : classifyRec { ty := '4', addr := 0, size := 1, par := 0, sav := 0, loc := 0, hp := '1', rest := ['x'] } =
    .frameData { info := ⟨0, 0, 0⟩, thing := .prog ['x'] } := by decide
example : classifyRec { ty := '0', addr := 0, size := 1, par := 0, sav := 0, loc := 0, hp := '0', rest := ['1'] } =
    .fpo { info := ⟨0, 0, 0⟩, thing := .abp true } := by decide
example : classifyRec { ty := '4', addr := 0, size := 1, par := 0, sav := 0, loc := 0, hp := '0', rest := ['1'] } =
    .unhandled := by decide
example : classifyRec { ty := '0', addr := 0, size := 1, par := 0, sav := 0, loc := 0, hp := '1', rest := ['1'] } =
    .unhandled := by decide

end MdModel.Win
