/-
  C06, bridged to the stack walks — `MdModel.Walk.Cfi` evaluates STACK CFI exactly as `MdModel.Cfi`.

  The framework has two hand-written Lean models of the one Rust evaluator
  (`eval_cfi_expr`, `parse_cfi_exprs`, `walk_with_stack_cfi`, `SymbolFile::walk_frame`):
  `MdModel.Cfi` (bytes, `UInt64`; the subject of C06's theorems in `MdProofs.C06`) and
  `MdModel.Walk.Cfi` (characters, classified tokens, `Nat`; what the walks of C03/C04/C05 run).
  The theorems here say they are the same function, so that C06's property text

    "… unwinding yields exactly what the documented semantics prescribe: rules at or below the
     address are applied in address order with later ones overriding, the CFA is computed first
     and may not refer to itself, a return-address rule is mandatory, and each other register is
     set from its rule or marked unknown when its rule fails. Arithmetic is 64-bit wrapping, and
     stack underflow, leftover operands, division by zero, non-power-of-two alignment, unreadable
     memory, unknown registers and `.undef` make the affected rule fail …"

  also holds of the evaluator inside the walker model. Part A is the bridge (`walk_cfi_eq_c06`,
  `walkCfi_eq_c06`, `walkFrame_eq_c06`, and `walkerOf_related`: the simulation relation is
  inhabited for every architecture); part B transports C06's theorems.

  Relations (defined in `MdProofs.Lemmas.CfiBridge*`): text ↦ its UTF-8 bytes (`enc`, `utf8`);
  values by `UInt64.toNat`; `EnvSim` (callee registers, memory), `WalkerSim` (+ register names,
  register width), `OutSimAt` (a caller register valid with the same value on both sides).
-/
import MdProofs.Lemmas.CfiBridgeSpec
namespace MdModel.CfiBridge
open MdModel

/-! ## A. the bridge -/

/-- **`walk_cfi_eq_c06`** — "STACK CFI rules evaluate exactly as the documented postfix language",
    for the walker model's evaluator: on EVERY list of token texts (any characters, any length),
    every CFA (or none) and all related register files and memories, the walker model's
    `eval_cfi_expr` on the classified tokens is the C06 model's on the UTF-8 bytes of the same
    tokens — same success, same value. -/
theorem walk_cfi_eq_c06 (x : Walk.CfiIn) (env : Cfi.Env) (h : EnvSim x env) (cfa : Option UInt64)
    (toks : List (List Char)) :
    Walk.evalCfi x (cfa.map UInt64.toNat) (toks.map Walk.classifyL) [] =
      (Cfi.evalCfi env cfa (toks.map enc)).map UInt64.toNat := by
  have hwf : ∀ t ∈ toks.map Walk.classifyL, ETokWf t := by
    intro t ht
    obtain ⟨tok, _, rfl⟩ := List.mem_map.mp ht
    exact classifyL_wf tok
  rw [evalCfi_toks x env h cfa _ hwf]
  unfold Cfi.evalCfi
  simp only [List.map_map]
  congr 2
  apply List.map_congr_left
  intro tok _
  exact (classify_enc tok).symm

/-- the same for a whole expression text: whitespace splitting included -/
theorem walk_cfi_eq_c06_text (x : Walk.CfiIn) (env : Cfi.Env) (h : EnvSim x env) (cfa : Option UInt64)
    (expr : String) :
    Walk.evalCfi x (cfa.map UInt64.toNat) ((Walk.splitWsL expr.toList).map Walk.classifyL) [] =
      (Cfi.evalCfi env cfa (Cfi.splitWs (utf8 expr))).map UInt64.toNat := by
  rw [walk_cfi_eq_c06 x env h]
  unfold utf8
  rw [splitWs_enc]

/-- the same for ANY list of classified tokens whose literals are 64-bit (not only lexer output) -/
theorem walk_cfi_eq_c06_toks (x : Walk.CfiIn) (env : Cfi.Env) (h : EnvSim x env) (cfa : Option UInt64)
    (ts : List Walk.ETok) (hwf : ∀ t ∈ ts, ETokWf t) :
    Walk.evalCfi x (cfa.map UInt64.toNat) ts [] = (Cfi.evalToks env cfa (ts.map tokOf)).map UInt64.toNat :=
  evalCfi_toks x env h cfa ts hwf

/-- **`walkCfi ≙ walkCfi`** (`walk_with_stack_cfi`): see `walkCfi_bridge`. Both models parse the
    same rules from the same lines (later definitions overriding), demand `.cfa` and `.ra`,
    evaluate the CFA without a CFA and the return address with it, apply the register-width test,
    process the remaining rules in the same (name) order, and set-or-clear the same registers
    through the same alias resolution. -/
theorem walkCfi_eq_c06 (x : Walk.CfiIn) (W : Cfi.Walker) (h : WalkerSim x W) (o0 : Walk.CfiOut)
    (init : String) (adds : List String) :
    match Cfi.walkCfi W ((init :: adds).map utf8) with
    | none => Walk.walkCfi x o0 init adds = none
    | some c =>
      ∃ cfa ra o c', c.cfa = some cfa ∧ c.ra = some ra ∧
        Walk.walkCfi x o0 init adds = some o ∧
        Cfi.walkCfi (seeded x.arch W cfa ra) ((init :: adds).map utf8) = some c' ∧
        c'.cfa = some cfa ∧ c'.ra = some ra ∧
        ∀ s, (s = x.arch.spName ∨ s = x.arch.ipName ∨ OutSimAt x.arch o0 W.caller0 s) →
          OutSimAt x.arch o c' s :=
  walkCfi_bridge x W h o0 init adds

/-- **`walkFrameCfi ≙ walkFrame`** (`SymbolFile::walk_frame`, STACK CFI part): INIT + delta
    selection by address, through the walker model's own range table (C08). -/
theorem walkFrame_eq_c06 (sf : Walk.SymFile) (modBase : Nat) (x : Walk.CfiIn) (o0 : Walk.CfiOut)
    (W : Cfi.Walker) (h : WalkerSim x W) :
    (W.instr < modBase → Walk.walkFrameCfi sf (Walk.cfiTable sf) modBase x o0 W.instr = none ∧
        ∀ r, Cfi.walkFrame r modBase W = none) ∧
    (RangeMap.get (Walk.cfiTable sf) (W.instr - modBase) = none →
        Walk.walkFrameCfi sf (Walk.cfiTable sf) modBase x o0 W.instr = none) ∧
    (∀ i rec, ¬ W.instr < modBase → RangeMap.get (Walk.cfiTable sf) (W.instr - modBase) = some i →
        sf.cfis[i]? = some rec →
        match Cfi.walkFrame (recOf rec) modBase W with
        | none => Walk.walkFrameCfi sf (Walk.cfiTable sf) modBase x o0 W.instr = none
        | some c =>
          ∃ cfa ra o c', c.cfa = some cfa ∧ c.ra = some ra ∧
            Walk.walkFrameCfi sf (Walk.cfiTable sf) modBase x o0 W.instr = some o ∧
            Cfi.walkFrame (recOf rec) modBase (seeded x.arch W cfa ra) = some c' ∧
            c'.cfa = some cfa ∧ c'.ra = some ra ∧
            ∀ s, (s = x.arch.spName ∨ s = x.arch.ipName ∨ OutSimAt x.arch o0 W.caller0 s) →
              OutSimAt x.arch o c' s) :=
  walkFrame_bridge sf modBase x o0 W h

/-- **The simulation relation is inhabited**: for every architecture, every callee context whose
    validity set names only registers of the context type and whose registers are 64-bit, every
    stack memory, lookup address and forwarded set, `walkerOf` is a related C06 `Walker`. -/
theorem walkerOf_related (x : Walk.CfiIn) (instr : Nat) (fwd : List (Cfi.Name × UInt64))
    (hvalid : ValidWf x.arch x.callee) (h64 : ∀ n v, x.reg n = some v → v < 2 ^ 64) :
    WalkerSim x (walkerOf x instr fwd) :=
  walkerOf_sim x instr fwd hvalid h64

/-- … and so are the forwarded registers of any `CfiOut` with 64-bit values -/
theorem fwdOf_related (a : Walk.Arch) (o : Walk.CfiOut) (s : String)
    (h64 : o.valid.contains s = true → rawC a o.ctx s < 2 ^ 64) :
    OutSimAt a o ⟨none, none, fwdOf a o⟩ s :=
  fwdOf_sim a o s h64

/-! ### non-vacuity: a concrete related pair, both sides computed -/

/-- x86-64 callee: `rsp = 0x1000`, `rbp = 0x1010`, 32 bytes of stack holding a saved `rbp`
    (`0x2040` at `0x1010`) and a return address (`0x401234` at `0x1018`) -/
def exIn : Walk.CfiIn :=
  { arch := .amd64
    callee := { ip := 0x401000, sp := 0x1000, rest := [("rbp", 0x1010), ("rbx", 7)] }
    mem := { base := 0x1000,
             bytes := #[0,0,0,0,0,0,0,0, 0,0,0,0,0,0,0,0,
                        0x40,0x20,0,0,0,0,0,0, 0x34,0x12,0x40,0,0,0,0,0] } }

def exOut : Walk.CfiOut := { ctx := exIn.callee, valid := Walk.forwarded .amd64 exIn.callee }

def exW : Cfi.Walker := walkerOf exIn 0x401000 (fwdOf .amd64 exOut)

theorem exIn_reg64 : ∀ n v, exIn.reg n = some v → v < 2 ^ 64 :=
  reg64_of_ctx exIn (by decide) (by decide) (by decide)

/-- the hypotheses of the bridge theorems hold of a concrete pair -/
theorem exW_related : WalkerSim exIn exW := walkerOf_related exIn _ _ trivial exIn_reg64

example : EnvSim exIn exW.env := exW_related.env

/-- both evaluators computed on `.cfa 8 - ^` with CFA `0x1020`: the return address -/
example : Walk.evalCfi exIn (some 0x1020) ([['.', 'c', 'f', 'a'], ['8'], ['-'], ['^']].map Walk.classifyL) []
    = some 0x401234 := by decide
example : Cfi.evalCfi exW.env (some 0x1020) [Cfi.tCfa, [0x38], Cfi.tMinus, Cfi.tCaret] = some 0x401234 := by decide

/-- both `walk_with_stack_cfi` computed on a canonical rule set with a saved frame pointer -/
def exRule : String := ".cfa: $rsp 32 + .ra: .cfa 8 - ^ $rbp: .cfa 16 - ^"

example : (Cfi.walkCfi exW [utf8 exRule]).map (fun c => (c.cfa, c.ra, c.get (utf8 "rbp"), c.get (utf8 "rbx")))
    = some (some 0x1020, some 0x401234, some 0x2040, some 7) := by decide

/-- … and the bridge applied to it: the walker model's `walk_with_stack_cfi` succeeds on the same
    rule text, with the CFA in `rsp`, the return address in `rip`, the frame pointer restored
    from the stack and `rbx` forwarded (`Walk.walkCfi` sorts with `mergeSort`, which does not
    reduce in the kernel: the values come from the C06 side through `walkCfi_eq_c06`) -/
example : ∃ o, Walk.walkCfi exIn exOut exRule [] = some o ∧
    viewW .amd64 o "rsp" = some 0x1020 ∧ viewW .amd64 o "rip" = some 0x401234 ∧
    viewW .amd64 o "rbp" = some 0x2040 ∧ viewW .amd64 o "rbx" = some 7 := by
  have hb := walkCfi_eq_c06 exIn exW exW_related exOut exRule []
  have hvals : (Cfi.walkCfi exW ([exRule].map utf8)).map (fun c => (c.cfa, c.ra)) =
      some (some 0x1020, some 0x401234) := by decide
  cases hc : Cfi.walkCfi exW ([exRule].map utf8) with
  | none => rw [hc] at hvals; cases hvals
  | some c =>
    rw [hc] at hb hvals
    obtain ⟨cfa, ra, o, c', h1, h2, h3, h4, _, _, h7⟩ := hb
    simp only [Option.map_some, Option.some.injEq, Prod.mk.injEq] at hvals
    rw [hvals.1] at h1; rw [hvals.2] at h2
    cases h1; cases h2
    have hregs : (Cfi.walkCfi (seeded .amd64 exW 0x1020 0x401234) ([exRule].map utf8)).map
        (fun c => (c.get (utf8 "rsp"), c.get (utf8 "rip"), c.get (utf8 "rbp"), c.get (utf8 "rbx"))) =
        some (some 0x1020, some 0x401234, some 0x2040, some 7) := by decide
    have h4' : Cfi.walkCfi (seeded .amd64 exW 0x1020 0x401234) ([exRule].map utf8) = some c' := h4
    rw [h4'] at hregs
    simp only [Option.map_some, Option.some.injEq, Prod.mk.injEq] at hregs
    obtain ⟨r1, r2, r3, r4⟩ := hregs
    refine ⟨o, h3, ?_, ?_, ?_, ?_⟩
    · have := h7 "rsp" (.inl rfl); unfold OutSimAt at this; rw [r1] at this; exact this.symm
    · have := h7 "rip" (.inr (.inl rfl)); unfold OutSimAt at this; rw [r2] at this; exact this.symm
    · have := h7 "rbp" (.inr (.inr (fwdOf_related _ _ _ (by decide)))); unfold OutSimAt at this; rw [r3] at this; exact this.symm
    · have := h7 "rbx" (.inr (.inr (fwdOf_related _ _ _ (by decide)))); unfold OutSimAt at this; rw [r4] at this; exact this.symm

/-! ## B. C06's theorems, for the walker model's evaluator -/

/-- **`walk_eval_postfix`** (C06.1 transported) — the walker model's evaluator applied to the
    postfix form of ANY expression tree returns the tree's denotation (`wdenote`: structural
    recursion over the walker model's own register file and memory, `Nat` arithmetic modulo
    2^64): operand order, wrapping, failure propagation. -/
theorem walk_eval_postfix (x : Walk.CfiIn) (env : Cfi.Env) (h : EnvSim x env) (cfa : Option UInt64)
    (t : WTree) :
    Walk.evalCfi x (cfa.map UInt64.toNat) (wpostfix t) [] = wdenote x (cfa.map UInt64.toNat) t := by
  rw [walk_cfi_eq_c06_toks x env h cfa _ (wpostfix_wf t), wpostfix_tokOf, Cfi.eval_postfix, wdenote_eq x env h]

/-- `^(.cfa - 8)` on the concrete pair: evaluator on the postfix form = denotation = the return address -/
example : Walk.evalCfi exIn (some 0x1020) (wpostfix (.deref (.bin .sub .cfa (.lit 8)))) [] = some 0x401234 ∧
    wdenote exIn (some 0x1020) (.deref (.bin .sub .cfa (.lit 8))) = some 0x401234 := by decide

/-- **`walk_eval_shape`** (C06.2 transported) — a token list evaluates in the walker model iff
    it is (in C06's vocabulary) the postfix form of a tree with that value: underflow, leftover
    operands, the empty program and failing sub-expressions fail; nothing else does. -/
theorem walk_eval_shape (x : Walk.CfiIn) (env : Cfi.Env) (h : EnvSim x env) (cfa : Option UInt64)
    (ts : List Walk.ETok) (hwf : ∀ t ∈ ts, ETokWf t) (v : UInt64) :
    Walk.evalCfi x (cfa.map UInt64.toNat) ts [] = some v.toNat ↔
      ∃ t : Cfi.Tree, ts.map tokOf = Cfi.postfixOf t ∧ Cfi.denote env cfa t = some v := by
  rw [walk_cfi_eq_c06_toks x env h cfa ts hwf, ← Cfi.eval_shape]
  constructor
  · intro hv
    cases he : Cfi.evalToks env cfa (ts.map tokOf) with
    | none => rw [he] at hv; cases hv
    | some w =>
      rw [he] at hv
      simp only [Option.map_some, Option.some.injEq] at hv
      rw [UInt64.toNat_inj.mp hv]
  · intro hv; rw [hv]; rfl

/-- `.undef` anywhere, `.cfa` without a CFA anywhere: the rule fails (C06.2 transported) -/
theorem walk_undef_cfa_fail (x : Walk.CfiIn) (env : Cfi.Env) (h : EnvSim x env) (cfa : Option UInt64)
    (pre post : List Walk.ETok) (hwf : ∀ t ∈ pre ++ post, ETokWf t) :
    Walk.evalCfi x (cfa.map UInt64.toNat) (pre ++ .undef :: post) [] = none ∧
    Walk.evalCfi x none (pre ++ .cfa :: post) [] = none := by
  have hwf1 : ∀ t ∈ pre ++ Walk.ETok.undef :: post, ETokWf t := by
    intro t ht
    rcases List.mem_append.mp ht with h1 | h1
    · exact hwf t (List.mem_append_left _ h1)
    · rcases List.mem_cons.mp h1 with rfl | h2
      · trivial
      · exact hwf t (List.mem_append_right _ h2)
  have hwf2 : ∀ t ∈ pre ++ Walk.ETok.cfa :: post, ETokWf t := by
    intro t ht
    rcases List.mem_append.mp ht with h1 | h1
    · exact hwf t (List.mem_append_left _ h1)
    · rcases List.mem_cons.mp h1 with rfl | h2
      · trivial
      · exact hwf t (List.mem_append_right _ h2)
  constructor
  · rw [walk_cfi_eq_c06_toks x env h cfa _ hwf1]
    simp only [List.map_append, List.map_cons, tokOf]
    rw [Cfi.undef_fails]; rfl
  · have := walk_cfi_eq_c06_toks x env h none _ hwf2
    simp only [Option.map_none] at this
    rw [this]
    simp only [List.map_append, List.map_cons, tokOf]
    rw [Cfi.cfa_unavailable_fails]; rfl

/-- **`walk_rules_override`** (C06.4 transported) — "rules at or below the address are applied in
    address order with later ones overriding": the lines the walker model's `walk_frame` hands to
    `walk_with_stack_cfi` for record `rec` at module-relative address `a` are (as UTF-8) exactly
    C06's `linesAt`: INIT, then exactly the deltas with address `≤ a`, in the order of the
    parser's sort (non-decreasing address), a permutation of the deltas as written. -/
theorem walk_rules_override (rec : Walk.CfiRec) (a : Nat) :
    (rec.init :: selOf rec a).map utf8 =
      utf8 rec.init :: ((Cfi.sortAdds (recOf rec).adds).filter (fun d => decide (d.1 ≤ a))).map (·.2) ∧
    (∀ d, d ∈ (Cfi.sortAdds (recOf rec).adds).filter (fun d => decide (d.1 ≤ a)) ↔
        d ∈ (recOf rec).adds ∧ d.1 ≤ a) ∧
    (Cfi.sortAdds (recOf rec).adds).Pairwise (fun p q => p.1 ≤ q.1) ∧
    (Cfi.sortAdds (recOf rec).adds).Perm (recOf rec).adds := by
  have h := Cfi.rules_override (recOf rec) a
  rw [linesAt_recOf] at h
  exact h

/-- deltas written out of order, lookup at the middle one: INIT, then the 0x11 and 0x12 deltas
    (`mergeSort` does not reduce: computed on the C06 side through the theorem) -/
example : (("i" : String) :: selOf ⟨0x10, 0x10, "i", [(0x12, "c"), (0x11, "b"), (0x13, "d")]⟩ 0x12).map utf8 =
    [utf8 "i", utf8 "b", utf8 "c"] := by
  rw [(walk_rules_override ⟨0x10, 0x10, "i", [(0x12, "c"), (0x11, "b"), (0x13, "d")]⟩ 0x12).1]
  decide

/-- … and within `walk_with_stack_cfi` a later line's rules are laid over the earlier ones in both
    models alike: parsing one more line into related rule maps gives related rule maps. -/
theorem walk_later_overrides (line : String) (rs : List (Walk.CfiReg × List Walk.ETok)) (m : Cfi.RuleMap)
    (h : MapRel rs m) :
    OptRel (Walk.parseRules (Walk.tokenize line) none [] rs) (Cfi.parseCfiExprs (utf8 line) m) :=
  parseLine_bridge line rs m h

/-- what a successful walk of the walker model consists of, in C06's terms -/
theorem walk_some (x : Walk.CfiIn) (W : Cfi.Walker) (h : WalkerSim x W) (o0 o : Walk.CfiOut)
    (init : String) (adds : List String) (hw : Walk.walkCfi x o0 init adds = some o) :
    ∃ c cfa ra c', Cfi.walkCfi W ((init :: adds).map utf8) = some c ∧ c.cfa = some cfa ∧ c.ra = some ra ∧
      Cfi.walkCfi (seeded x.arch W cfa ra) ((init :: adds).map utf8) = some c' ∧
      c'.cfa = some cfa ∧ c'.ra = some ra ∧
      ∀ s, (s = x.arch.spName ∨ s = x.arch.ipName ∨ OutSimAt x.arch o0 W.caller0 s) →
        OutSimAt x.arch o c' s := by
  have hb := walkCfi_bridge x W h o0 init adds
  cases hc : Cfi.walkCfi W ((init :: adds).map utf8) with
  | none => rw [hc] at hb; rw [hb] at hw; cases hw
  | some c =>
    rw [hc] at hb
    obtain ⟨cfa, ra, o', c', h1, h2, h3, h4, h5, h6, h7⟩ := hb
    rw [h3] at hw; cases hw
    exact ⟨c, cfa, ra, c', rfl, h1, h2, h4, h5, h6, h7⟩

/-- **`walk_cfa_first`** (C06.5a) — when the walker model's `walk_with_stack_cfi` succeeds, the
    lines parse (C06's parser) into a map with a `.cfa` and a `.ra` rule, the CFA is the `.cfa`
    rule evaluated with NO CFA, the return address the `.ra` rule evaluated with that CFA. -/
theorem walk_cfa_first (x : Walk.CfiIn) (W : Cfi.Walker) (h : WalkerSim x W) (o0 o : Walk.CfiOut)
    (init : String) (adds : List String) (hw : Walk.walkCfi x o0 init adds = some o) :
    ∃ m cfaE raE cfa ra, Cfi.parseAll ((init :: adds).map utf8) [] = some m ∧
      m.get .cfa = some cfaE ∧ m.get .ra = some raE ∧
      Cfi.evalCfi W.env none cfaE = some cfa ∧ Cfi.evalCfi W.env (some cfa) raE = some ra ∧
      W.fits cfa = true ∧ W.fits ra = true := by
  obtain ⟨c, _, _, _, hc, _⟩ := walk_some x W h o0 o init adds hw
  obtain ⟨m, cfaE, raE, cfa, ra, h1, h2, h3, h4, h5, h6, h7, _⟩ := (Cfi.walkCfi_some_iff W _ c).mp hc
  exact ⟨m, cfaE, raE, cfa, ra, h1, h2, h3, h4, h5, h6, h7⟩

/-- **`walk_ra_mandatory` / `walk_cfa_no_self`** (C06.5b/c) — without a `.ra` rule, or a `.cfa`
    rule, or with a `.cfa` rule that mentions `.cfa`, or when a line does not parse, the walker
    model finds no caller. -/
theorem walk_ra_mandatory (x : Walk.CfiIn) (W : Cfi.Walker) (h : WalkerSim x W) (o0 : Walk.CfiOut)
    (init : String) (adds : List String) :
    (Cfi.parseAll ((init :: adds).map utf8) [] = none → Walk.walkCfi x o0 init adds = none) ∧
    (∀ m, Cfi.parseAll ((init :: adds).map utf8) [] = some m →
      (m.get .ra = none → Walk.walkCfi x o0 init adds = none) ∧
      (m.get .cfa = none → Walk.walkCfi x o0 init adds = none) ∧
      (∀ cfaE, m.get .cfa = some cfaE → Cfi.tCfa ∈ cfaE → Walk.walkCfi x o0 init adds = none)) := by
  have hb := walkCfi_bridge x W h o0 init adds
  have key : Cfi.walkCfi W ((init :: adds).map utf8) = none → Walk.walkCfi x o0 init adds = none := by
    intro hc; rw [hc] at hb; exact hb
  refine ⟨fun hp => key (Cfi.parse_failure_fails W _ hp), fun m hm => ⟨?_, ?_, ?_⟩⟩
  · exact fun hr => key ((Cfi.ra_mandatory W _ m hm).1 hr)
  · exact fun hc => key ((Cfi.ra_mandatory W _ m hm).2.1 hc)
  · exact fun cfaE hc hself => key (Cfi.cfa_no_self W _ m cfaE hm hc hself)

/-- **`walk_reg_set_or_unknown`** (C06.6 transported) — "each other register is set from its rule
    or marked unknown when its rule fails", for the walker model's result `o`. With `m` the rule
    map, `cfa`/`ra` the computed CFA and return address, and `s` a register (canonical name) of
    the context:
    * if `p` is the one remaining rule whose label denotes `s` (directly or through an alias), `s`
      is valid with the rule's value when the rule evaluates (C06's evaluator, CFA available) and
      the value fits the register, and unknown otherwise;
    * if no remaining rule's label denotes `s`: the instruction pointer holds the return address,
      the stack pointer the CFA, any other register what was forwarded from the callee. -/
theorem walk_reg_set_or_unknown (x : Walk.CfiIn) (W : Cfi.Walker) (h : WalkerSim x W) (o0 o : Walk.CfiOut)
    (init : String) (adds : List String) (hw : Walk.walkCfi x o0 init adds = some o) :
    ∃ m cfa ra, Cfi.parseAll ((init :: adds).map utf8) [] = some m ∧
      (∃ c, Cfi.walkCfi W ((init :: adds).map utf8) = some c ∧ c.cfa = some cfa ∧ c.ra = some ra) ∧
      (∀ s p, p ∈ Cfi.others m → W.memo p.1 = some (utf8 s) →
          (∀ q ∈ Cfi.others m, W.memo q.1 = some (utf8 s) → q = p) →
          (s = x.arch.spName ∨ s = x.arch.ipName ∨ OutSimAt x.arch o0 W.caller0 s) →
          viewW x.arch o s = match Cfi.evalCfi W.env (some cfa) p.2 with
                             | some v => if W.fits v then some v.toNat else none
                             | none => none) ∧
      (∀ s, (∀ q ∈ Cfi.others m, W.memo q.1 ≠ some (utf8 s)) →
          (s = x.arch.spName ∨ s = x.arch.ipName ∨ OutSimAt x.arch o0 W.caller0 s) →
          viewW x.arch o s = if s = x.arch.ipName then some ra.toNat
                             else if s = x.arch.spName then some cfa.toNat
                             else viewW x.arch o0 s) := by
  obtain ⟨c, cfa, ra, c', hc, hcfa, hra, hc', hcfa', _, hsim⟩ := walk_some x W h o0 o init adds hw
  obtain ⟨m, cfa2, hm, hcfa2, hset, hfwd⟩ := Cfi.reg_set_or_unknown (seeded x.arch W cfa ra) _ c' hc'
  rw [hcfa'] at hcfa2; cases hcfa2
  have henv : (seeded x.arch W cfa ra).env = W.env := rfl
  have hfits : ∀ v, (seeded x.arch W cfa ra).fits v = W.fits v := fun _ => rfl
  have hmemo' : ∀ n, (seeded x.arch W cfa ra).memo n = W.memo n := fun _ => rfl
  simp only [henv, hfits, hmemo'] at hset hfwd
  refine ⟨m, cfa, ra, hm, ⟨c, hc, hcfa, hra⟩, ?_, ?_⟩
  · intro s p hp hmemo huniq hs
    have := hsim s hs
    unfold OutSimAt at this
    rw [← this, hset (utf8 s) p hp hmemo huniq]
    cases Cfi.evalCfi W.env (some cfa) p.2 with
    | none => rfl
    | some v =>
      simp only
      by_cases hf : W.fits v = true <;> simp [hf]
  · intro s hnone hs
    have := hsim s hs
    unfold OutSimAt at this
    rw [← this, hfwd (utf8 s) hnone]
    show Option.map UInt64.toNat (Cfi.lookupName (seedFwd x.arch W.fwd cfa ra) (utf8 s)) = _
    rw [lookup_seedFwd]
    by_cases h1 : s = x.arch.ipName
    · subst h1; simp
    · by_cases h2 : s = x.arch.spName
      · subst h2; simp [h1]
      · simp only [h1, h2, if_false]
        rcases hs with hs | hs | hs
        · exact absurd hs h2
        · exact absurd hs h1
        · exact hs

/-- **`walk_order_independent`** (C06.7 transported) — for rules that come from text (`lc`: the
    C06 model's entries, `lw₁`: their classification), one rule per label and no two labels
    denoting one register: the walker model's loop gives the same value-or-unknown for register
    `s` whatever the processing order (any permutation `lw₂`). -/
theorem walk_order_independent (x : Walk.CfiIn) (W : Cfi.Walker) (h : WalkerSim x W) (cfa : UInt64)
    (lc : List (Cfi.Name × Cfi.Expr)) (lw₁ lw₂ : List (String × List Walk.ETok))
    (hmap : lc.map fC = lw₁.map fW) (hwf : ∀ p ∈ lw₁, ∀ t ∈ p.2, ETokWf t) (hperm : lw₁.Perm lw₂)
    (hkeys : (lw₁.map (·.1)).Nodup)
    (hdistinct : ∀ p ∈ lw₁, ∀ q ∈ lw₁, x.arch.canon p.1 = x.arch.canon q.1 → x.arch.canon p.1 ≠ none → p.1 = q.1)
    (o : Walk.CfiOut) (s : String) (h64 : ∀ v, viewW x.arch o s = some v → v < 2 ^ 64) :
    viewW x.arch (lw₁.foldl (stepW x cfa.toNat) o) s = viewW x.arch (lw₂.foldl (stepW x cfa.toNat) o) s := by
  -- a C06 caller related to `o` at `s`
  let c0 : Cfi.Caller := ⟨none, none, match viewW x.arch o s with
                                        | some v => [(utf8 s, UInt64.ofNat v)]
                                        | none => []⟩
  have hc0 : OutSimAt x.arch o c0 s := by
    unfold OutSimAt Cfi.Caller.get
    show Option.map UInt64.toNat (Cfi.lookupName (match viewW x.arch o s with
          | some v => [(utf8 s, UInt64.ofNat v)] | none => []) (utf8 s)) = viewW x.arch o s
    cases hv : viewW x.arch o s with
    | none => rfl
    | some v =>
      simp only [Cfi.lookupName_cons, if_true, Option.map_some]
      rw [u64_toNat_ofNat_lt v (h64 v hv)]
  obtain ⟨lc₂, hpc, hmap₂⟩ := perm_lift fC fW hperm lc hmap
  have hwf₂ : ∀ p ∈ lw₂, ∀ t ∈ p.2, ETokWf t := fun p hp => hwf p (hperm.mem_iff.mpr hp)
  have h1 := fold_sim x W h cfa s lw₁ lc o c0 hmap hwf hc0
  have h2 := fold_sim x W h cfa s lw₂ lc₂ o c0 hmap₂ hwf₂ hc0
  unfold OutSimAt at h1 h2
  rw [← h1, ← h2]
  -- C06.7 on the C06 side
  have hkeysC : (lc.map (·.1)).Nodup := by
    have : lc.map (·.1) = (lw₁.map (·.1)).map utf8 := by
      have := congrArg (List.map Prod.fst) hmap
      simpa [List.map_map, fC, fW, Function.comp_def] using this
    rw [this, List.Nodup, List.pairwise_map]
    exact hkeys.imp (fun hne e => hne (utf8_inj e))
  have hd : ∀ a ∈ lc, ∀ b ∈ lc, W.memo a.1 = W.memo b.1 → W.memo a.1 ≠ none → a = b := by
    intro a ha b hb hab hne
    have hfa : fC a ∈ lw₁.map fW := hmap ▸ List.mem_map.mpr ⟨a, ha, rfl⟩
    have hfb : fC b ∈ lw₁.map fW := hmap ▸ List.mem_map.mpr ⟨b, hb, rfl⟩
    obtain ⟨p, hp, hpa⟩ := List.mem_map.mp hfa
    obtain ⟨q, hq, hqb⟩ := List.mem_map.mp hfb
    have ea : a.1 = utf8 p.1 := (congrArg Prod.fst hpa).symm
    have eb : b.1 = utf8 q.1 := (congrArg Prod.fst hqb).symm
    rw [ea, eb, h.memo, h.memo] at hab
    rw [ea, h.memo] at hne
    have hcan : x.arch.canon p.1 = x.arch.canon q.1 := by
      cases hp1 : x.arch.canon p.1 with
      | none => rw [hp1] at hne; exact absurd rfl hne
      | some m1 =>
        cases hq1 : x.arch.canon q.1 with
        | none => rw [hp1, hq1] at hab; cases hab
        | some m2 =>
          rw [hp1, hq1] at hab
          simp only [Option.map_some, Option.some.injEq] at hab
          rw [utf8_inj hab]
    have hne' : x.arch.canon p.1 ≠ none := by
      intro e; rw [e] at hne; exact hne rfl
    have hpq : p.1 = q.1 := hdistinct p hp q hq hcan hne'
    exact eq_of_key_eq lc hkeysC a b ha hb (by rw [ea, eb, hpq])
  exact congrArg (Option.map UInt64.toNat) ((Cfi.order_independent W cfa lc lc₂ c0 hpc hd).2.2 (utf8 s))

/-- the hypotheses of `walk_order_independent` on a concrete rule set (`$rbx: 1`, `$rbp: .cfa`):
    processed in either order, `rbp` ends up with the same value -/
example : viewW .amd64 ([("rbx", [Walk.ETok.lit 1]), ("rbp", [Walk.ETok.cfa])].foldl (stepW exIn 0x1020) exOut) "rbp" =
    viewW .amd64 ([("rbp", [Walk.ETok.cfa]), ("rbx", [Walk.ETok.lit 1])].foldl (stepW exIn 0x1020) exOut) "rbp" := by
  refine walk_order_independent exIn exW exW_related 0x1020
    [(utf8 "rbx", [[0x31]]), (utf8 "rbp", [Cfi.tCfa])] _ _ (by decide) ?_ (List.Perm.swap _ _ _) (by decide) ?_
    exOut "rbp" ?_
  · intro p hp t ht
    simp only [List.mem_cons, List.not_mem_nil, or_false] at hp
    rcases hp with rfl | rfl <;>
      (simp only [List.mem_cons, List.not_mem_nil, or_false] at ht; subst ht; first | trivial | (show (1 : Nat) < 2 ^ 64; decide))
  · intro p hp q hq
    simp only [List.mem_cons, List.not_mem_nil, or_false] at hp hq
    rcases hp with rfl | rfl <;> rcases hq with rfl | rfl <;> decide
  · intro v hv
    have : viewW .amd64 exOut "rbp" = some 0x1010 := by decide
    have e : exIn.arch = .amd64 := rfl
    rw [e, this] at hv
    cases hv; decide

end MdModel.CfiBridge
