/-
  MdModel.Stream — model of the streaming loop `SymbolFile::parse`
  (breakpad-symbols/src/sym_file/mod.rs:83-193; `parse_async`, mod.rs:197-326, is the same loop
  around a different "read a chunk" block — tied by translators/dupcheck_sym.py) and of
  `circular::Buffer` 0.3.0 (`with_capacity / available_space / space / fill / data / consume /
  shift / grow / capacity`), re-implemented from its source.

  The line parser is a parameter (`Ops`): the theorems about the buffer machine
  (`MdProofs.C09`, `MdProofs.C10`) hold for every parser that satisfies the stated interface
  facts, and are then instantiated with the concrete parser of `MdModel.SymParse`.

  * the reader is a chunk schedule: the i-th successful `read` returns `min(max(nᵢ,1), space,
    remaining)` bytes; with the schedule exhausted it fills all the space it is given (this is what
    `impl Read for &[u8]` does, so the empty schedule is `SymbolFile::from_bytes`); a `read` returns
    0 only when it is handed an empty slice or the input is exhausted (the contract of `Read`).
  * the callback log is part of the state (`cb`, newest call first).
  * `total_consumed: u64` and `parser.lines: u64` are `Nat`s: overflowing them needs an input of
    2^64 bytes (recorded as an assumption).
-/
import MdModel.Prelude
namespace MdModel.Stream
open MdModel

abbrev Bytes := List UInt8

def NL : UInt8 := 10

/-! ### circular::Buffer -/

/-- `memory[position..end]` is `data`; `end = pos + data.length`. Bytes outside the window are
    never read by the loop, so they are not represented. -/
structure Buf where
  cap : Nat
  pos : Nat
  data : Bytes
  deriving Repr

namespace Buf

def withCapacity (c : Nat) : Buf := ⟨c, 0, []⟩
def end_ (b : Buf) : Nat := b.pos + b.data.length
/-- `capacity - end` (a `usize` subtraction: `window_bounded` shows `end ≤ capacity` always). -/
def availableSpace (b : Buf) : Nat := b.cap - b.end_
def availableData (b : Buf) : Nat := b.data.length

/-- `shift()`: move the window to the front. -/
def shift (b : Buf) : Buf := if b.pos > 0 then { b with pos := 0 } else b

/-- `consume(count)`: `position += min(count, available_data)`; shift iff `position > capacity/2`. -/
def consume (b : Buf) (count : Nat) : Buf :=
  let cnt := min count b.availableData
  let b' : Buf := { b with pos := b.pos + cnt, data := b.data.drop cnt }
  if b'.pos > b'.cap / 2 then b'.shift else b'

/-- the reader wrote `chunk` into `space()`, then `fill(chunk.len())`:
    `end += min(count, available_space)`; shift iff `available_space < available_data + cnt`
    (also for `count = 0`). -/
def fill (b : Buf) (chunk : Bytes) : Buf :=
  let cnt := min chunk.length b.availableSpace
  let b' : Buf := { b with data := b.data ++ chunk.take cnt }
  if b'.availableSpace < b'.availableData + cnt then b'.shift else b'

/-- `grow(new_size)`: only ever enlarges. -/
def grow (b : Buf) (newSize : Nat) : Buf :=
  if b.cap ≥ newSize then b else { b with cap := newSize }

end Buf

/-! ### the parser as seen by the loop -/

/-- result of `SymbolParser::parse_more` -/
inductive PM (σ : Type) where
  | ok (consumed : Nat) (st : σ)
  | err (kind : Nat) (line : Nat)
  | panic (site : String)

structure Ops (σ : Type) where
  /-- `parser.parse_more(input)` -/
  parseMore : σ → Bytes → PM σ
  /-- `parser.lines += 1` (recovery found its newline) -/
  bumpLine : σ → σ
  /-- `parser.lines` -/
  lines : σ → Nat

/-- error kinds (the `&'static str` of `SymbolError::ParseError`) -/
def errFailedToParse : Nat := 1   -- "failed to parse file"
def errModuleLate : Nat := 2      -- "MODULE line found after the start of the file"
def errEmpty : Nat := 3           -- "empty SymbolFile (probably something wrong ...)"
def errEof : Nat := 4             -- "unexpected EOF during parsing of SymbolFile (or a line was too long?)"

/-! ### the loop -/

structure St (σ : Type) where
  buf : Buf
  /-- what the reader has not delivered yet -/
  unread : Bytes
  /-- requested sizes of the coming successful reads -/
  sched : List Nat
  fullyConsumed : Bool
  triedToGrow : Bool
  inRecovery : Bool
  justFinished : Bool
  totalConsumed : Nat
  /-- arguments of the callback so far, newest first -/
  cb : List Bytes
  ps : σ

inductive Out (σ : Type) where
  | ok (ps : σ)                      -- `Ok(parser.finish())` (finish is applied by the caller)
  | err (kind : Nat) (line : Nat)
  | panic (site : String)

/-- `input_reader.read(buf.space())` for a reader that follows the schedule. -/
def readChunk (space : Nat) (unread : Bytes) (sched : List Nat) : Bytes × Bytes × List Nat :=
  if space = 0 ∨ unread.isEmpty then ([], unread, sched)
  else
    match sched with
    | [] => (unread.take space, unread.drop space, [])
    | k :: rest =>
      let n := min (max k 1) space
      (unread.take n, unread.drop n, rest)

/-- position of the first `\n` (`input.iter().position(|&b| b == b'\n')`) -/
def firstNL : Bytes → Option Nat
  | [] => none
  | b :: rest => if b = NL then some 0 else (firstNL rest).map (· + 1)

/-- `usize::saturating_mul(2)` (64-bit `usize`) -/
def satDouble (c : Nat) : Nat := min (2 * c) U64MAX

/-- the `if in_panic_recovery { .. }` block at the top of the loop (mod.rs:95-121) -/
def recoverBlock {σ} (ops : Ops σ) (s : St σ) : St σ :=
  let input := s.buf.data
  match firstNL input with
  | some idx =>
    let amount := idx + 1
    { s with cb := input.take amount :: s.cb, buf := s.buf.consume amount,
             totalConsumed := s.totalConsumed + amount,
             inRecovery := false,
             -- `fully_consumed = buf.data().is_empty()` (after the consume)
             fullyConsumed := (s.buf.consume amount).data.isEmpty,
             justFinished := true,
             ps := ops.bumpLine s.ps }
  | none =>
    let amount := input.length
    { s with cb := input.take amount :: s.cb, buf := s.buf.consume amount,
             totalConsumed := s.totalConsumed + amount, fullyConsumed := true }

/-- the tail of the loop body (mod.rs:175-191): skip while recovering, else `parse_more`,
    callback, `consume`. -/
def parseBlock {σ} (ops : Ops σ) (s : St σ) : Sum (St σ) (Out σ × St σ) :=
  if s.inRecovery then .inl s else
  let s := { s with justFinished := false }
  let input := s.buf.data
  match ops.parseMore s.ps input with
  | .err k l => .inr (.err k l, s)
  | .panic site => .inr (.panic site, s)
  | .ok consumed ps' =>
    -- `&input[..consumed]`
    if consumed > input.length then .inr (.panic "callback(&input[..consumed])", s) else
    .inl { s with ps := ps', totalConsumed := s.totalConsumed + consumed,
                  cb := input.take consumed :: s.cb,
                  fullyConsumed := (input.length == consumed),
                  buf := s.buf.consume consumed }

/-- `input_reader.read(buf.space())` followed by `buf.fill(size)` (mod.rs:126-127);
    returns the new state and the chunk that was read (`size = chunk.length`). -/
def readBlock {σ} (s : St σ) : St σ × Bytes :=
  let r := readChunk s.buf.availableSpace s.unread s.sched
  ({ s with buf := s.buf.fill r.1, unread := r.2.1, sched := r.2.2 }, r.1)

/-- the `if size == 0 { .. }` branch (mod.rs:129-170) -/
def zeroBlock {σ} (maxCap : Nat) (ops : Ops σ) (hadSpace : Bool) (s : St σ) :
    Sum (St σ) (Out σ × St σ) :=
  if s.justFinished && !s.buf.data.isEmpty then parseBlock ops s
  else if s.fullyConsumed then .inr (.ok s.ps, s)
  else if !s.triedToGrow && !hadSpace then
    let newCap := satDouble s.buf.cap
    if newCap > maxCap then .inl { s with inRecovery := true }
    else .inl { s with buf := s.buf.grow newCap, triedToGrow := true }
  else if s.totalConsumed = 0 then .inr (.err errEmpty 0, s)
  else .inr (.err errEof (ops.lines s.ps), s)

/-- one iteration of the `loop` (mod.rs:94-192): `inl` = next iteration, `inr` = `return`. -/
def step {σ} (maxCap : Nat) (ops : Ops σ) (s0 : St σ) : Sum (St σ) (Out σ × St σ) :=
  let s1 := if s0.inRecovery then recoverBlock ops s0 else s0
  let hadSpace : Bool := s1.buf.availableSpace > 0
  let r := readBlock s1
  if r.2.length = 0 then zeroBlock maxCap ops hadSpace r.1
  else parseBlock ops { r.1 with triedToGrow := false }

def init {σ} (initCap : Nat) (ps : σ) (input : Bytes) (sched : List Nat) : St σ :=
  { buf := Buf.withCapacity initCap, unread := input, sched := sched,
    fullyConsumed := false, triedToGrow := false, inRecovery := false, justFinished := false,
    totalConsumed := 0, cb := [], ps := ps }

/-- the loop with fuel; `none` = out of fuel (`MdProofs.C09.parse_terminates` gives a fuel that is
    always enough). -/
def run {σ} (maxCap : Nat) (ops : Ops σ) : Nat → St σ → Option (Out σ × St σ)
  | 0, _ => none
  | fuel + 1, s =>
    match step maxCap ops s with
    | .inl s' => run maxCap ops fuel s'
    | .inr r => some r

/-- concatenation of everything the callback was given, in call order -/
def cbBytes {σ} (s : St σ) : Bytes := s.cb.reverse.flatten

/-- fuel that always suffices (`MdProofs.C09.parse_terminates`) -/
def fuelFor (input : Bytes) : Nat := 8 * input.length + 3

end MdModel.Stream
