/-
  MdModel.SymParse — model of `SymbolParser` (breakpad-symbols/src/sym_file/parser.rs:408-744):
  `parse_more` (trim to the last newline; sub-line attempt for an open FUNC / STACK CFI INIT with
  the finish-and-resubmit fallback; blank lines; MODULE only at line 0; the line counter),
  `parse_func_subline`, `finish_item`, `finish`, and the parser-local `into_rangemap_safe`
  (range tables reuse `MdModel.RangeMap` of C08) — and the instantiation of the streaming loop
  (`MdModel.Stream`) with it: `parseStream` is `SymbolFile::parse(reader, callback)`.
  The output type `SymbolFile` mirrors the Rust struct field by field (the four statistics
  counters are constant 0 and omitted).
  Engine `sym` (C09, C10).
-/
import MdModel.Prelude
import MdModel.RangeMap
import MdModel.SymLine
import MdModel.Stream
import MdModel.Gen.SymConsts
namespace MdModel.Sym
open MdModel MdModel.RangeMap

/-! ### orders used by the `sort()` calls (derived `Ord`, lexicographic in field order) -/

/-- `String`/`Vec<u8>` order: byte-wise lexicographic, a proper prefix is smaller. -/
def bytesLe : Bytes → Bytes → Bool
  | [], _ => true
  | _ :: _, [] => false
  | a :: as, b :: bs => a < b || (a == b && bytesLe as bs)

def bytesLt (a b : Bytes) : Bool := !bytesLe b a

/-- `PublicSymbol: Ord` — `(address, name, parameter_size)` -/
def publicLe (a b : PublicSymbol) : Bool :=
  a.address < b.address || (a.address == b.address &&
    (bytesLt a.name b.name || (a.name == b.name && a.parameterSize ≤ b.parameterSize)))

/-- `Inlinee: Ord` — `(depth, address, size, call_file, call_line, origin_id)` -/
def inlineeLe (a b : Inlinee) : Bool :=
  a.depth < b.depth || (a.depth == b.depth &&
  (a.address < b.address || (a.address == b.address &&
  (a.size < b.size || (a.size == b.size &&
  (a.callFile < b.callFile || (a.callFile == b.callFile &&
  (a.callLine < b.callLine || (a.callLine == b.callLine && a.originId ≤ b.originId)))))))))

/-- `CfiRules: Ord` — `(address, rules)` -/
def cfiRulesLe (a b : CfiRules) : Bool :=
  a.address < b.address || (a.address == b.address && bytesLe a.rules b.rules)

/-! ### range tables with record values

  `into_rangemap_safe` and `RangeMap::try_from_iter` only ever compare VALUES for equality.
  `MdModel.RangeMap` works on numeric values, so each record is replaced by the position of its
  first equal occurrence (`idxOf`): equal records ↦ equal numbers, distinct ↦ distinct. -/

def withIds {α} [DecidableEq α] (vals : List α) (m : List Entry) : List (Rng × α) :=
  m.filterMap fun (r, id) => vals[id]?.map fun v => (r, v)

/-- `IntoRangeMapSafe::into_rangemap_safe` (the `Option<Range>` version, used for FUNC lines) -/
def tableOpt {α} [DecidableEq α] (xs : List (Option Rng × α)) : Outcome (List (Rng × α)) :=
  let vals := xs.map (·.2)
  match safe (xs.map fun (r, v) => (r, vals.idxOf v)) with
  | .panic s => .panic s
  | .ok m => .ok (withIds vals m)

/-- the parser-local `into_rangemap_safe` (parser.rs:727) -/
def tableP {α} [DecidableEq α] (xs : List (Rng × α)) : Outcome (List (Rng × α)) :=
  let vals := xs.map (·.2)
  match safeP (xs.map fun (r, v) => (r, vals.idxOf v)) with
  | .panic s => .panic s
  | .ok m => .ok (withIds vals m)

/-! ### parser state -/

/-- `cur_item`: an open FUNC (with its sub-line vectors, newest first) or STACK CFI INIT
    (add_rules newest first). -/
inductive Cur where
  | none
  | func (f : Function) (lines : List SourceLine) (inlinees : List Inlinee)
  | cfi (c : StackInfoCfi)
  deriving Repr

structure PState where
  moduleId : Bytes := []
  debugFile : Bytes := []
  /-- `HashMap<u32,String>` as its insertion log, newest first (a later insert wins) -/
  files : List (Nat × Bytes) := []
  inlineOrigins : List (Nat × Bytes) := []
  /-- newest first -/
  publics : List PublicSymbol := []
  /-- `Vec<(Range, Function)>`, newest first -/
  functions : List (Rng × Function) := []
  cfi : List (Rng × StackInfoCfi) := []
  /-- the STACK WIN vectors as `insert_win_stack_info` keeps them (head = `last_mut()`);
      the `tag` of a record is its index in the `…Infos` log -/
  winFd : List (Rng × Rec) := []
  winFpo : List (Rng × Rec) := []
  /-- all FrameData / Fpo records seen, oldest first is `reverse` -/
  winFdInfos : List StackInfoWin := []
  winFpoInfos : List StackInfoWin := []
  url : Option Bytes := none
  lines : Nat := 0
  cur : Cur := .none
  deriving Repr

structure SymbolFile where
  moduleId : Bytes
  debugFile : Bytes
  /-- sorted by key (canonical view of the `HashMap`) -/
  files : List (Nat × Bytes)
  publics : List PublicSymbol
  functions : List (Rng × Function)
  inlineOrigins : List (Nat × Bytes)
  cfiStackInfo : List (Rng × StackInfoCfi)
  winStackFramedataInfo : List (Rng × StackInfoWin)
  winStackFpoInfo : List (Rng × StackInfoWin)
  url : Option Bytes
  deriving Repr

/-- `Function::memory_range`, `StackInfoCfi::memory_range`, `StackInfoWin::memory_range` are all
    `RangeMap.mkRange address size`. -/
def Function.memoryRange (f : Function) : Option Rng := mkRange f.address f.size
def StackInfoCfi.memoryRange (c : StackInfoCfi) : Option Rng := mkRange c.init.address c.size

/-- `finish_item` for a FUNC (parser.rs:662-681) -/
def finishFunc (st : PState) (f : Function) (lines : List SourceLine) (inl : List Inlinee) :
    Outcome PState :=
  let ls := (lines.reverse.filter fun l => l.size > 0).map fun l => (mkRangeLine l.address l.size, l)
  match tableOpt ls with
  | .panic s => .panic s
  | .ok tbl =>
    -- `inlinees.retain(|i| i.size > 0); inlinees.sort();`
    let f' : Function := { f with lines := tbl,
                                  inlinees := (inl.reverse.filter fun i => i.size > 0).mergeSort inlineeLe }
    match f'.memoryRange with
    | some r => .ok { st with functions := (r, f') :: st.functions }
    | none => .ok st

/-- `finish_item` for a STACK CFI INIT (parser.rs:682-687) -/
def finishCfi (st : PState) (c : StackInfoCfi) : PState :=
  let c' : StackInfoCfi := { c with addRules := c.addRules.reverse.mergeSort cfiRulesLe }
  match c'.memoryRange with
  | some r => { st with cfi := (r, c') :: st.cfi }
  | none => st

/-- `self.cur_item.take()` followed by `finish_item` (no-op when nothing is open) -/
def finishCur (st : PState) : Outcome PState :=
  match st.cur with
  | .none => .ok st
  | .func f ls inl => finishFunc { st with cur := .none } f ls inl
  | .cfi c => .ok (finishCfi { st with cur := .none } c)

/-- what a FUNC sub-line yields -/
inductive Sub where
  | origin (id : Nat) (name : Bytes)
  | inlinees (xs : List Inlinee)
  | line (l : SourceLine)

/-- `parse_func_subline` (parser.rs:634): dispatch by `starts_with` (a SPACE, not `space1`). -/
def funcSubline : P Sub := fun i =>
  if (kw "INLINE_ORIGIN ").isPrefixOf i then
    (inlineOriginLine.bind fun (id, name) => P.pure (Sub.origin id name)) i
  else if (kw "INLINE ").isPrefixOf i then
    (inlineLine.bind fun xs => P.pure (Sub.inlinees xs)) i
  else (funcLineData.bind fun l => P.pure (Sub.line l)) i

inductive StepRes where
  | ok (rest : Bytes) (st : PState)
  | err (kind : Nat) (line : Nat)
  | panic (site : String)

/-- the `match line { .. }` of parse_more (parser.rs:536-626), without the line count -/
def applyLine (st : PState) : Line → Except (Nat × Nat) (Outcome PState)
  | .module _ _ id file =>
    if st.lines ≠ 0 then .error (Stream.errModuleLate, st.lines)
    else .ok (.ok { st with moduleId := id, debugFile := file })
  | .infoUrl u => .ok (.ok { st with url := some u })
  | .infoUnknown => .ok (.ok st)
  | .file id name => .ok (.ok { st with files := (id, name) :: st.files })
  | .inlineOrigin id name => .ok (.ok { st with inlineOrigins := (id, name) :: st.inlineOrigins })
  | .public_ p => .ok (.ok { st with publics := p :: st.publics })
  | .stackWin (.frameData s) =>
    .ok (match insertWin st.winFd ⟨s.address, s.size, st.winFdInfos.length⟩ with
      | .panic e => .panic e
      | .ok v => .ok { st with winFd := v, winFdInfos := s :: st.winFdInfos })
  | .stackWin (.fpo s) =>
    .ok (match insertWin st.winFpo ⟨s.address, s.size, st.winFpoInfos.length⟩ with
      | .panic e => .panic e
      | .ok v => .ok { st with winFpo := v, winFpoInfos := s :: st.winFpoInfos })
  | .stackWin .unhandled => .ok (.ok st)
  | .function f => .ok (.ok { st with cur := .func f [] [] })
  | .stackCfi c => .ok (.ok { st with cur := .cfi c })

/-- the top-level part of one loop round (parser.rs:513-629); `st.cur = .none` here -/
def topLevel (st : PState) (input : Bytes) : StepRes :=
  match myEol input with
  | .ok rest _ => .ok rest { st with lines := st.lines + 1 }
  | _ =>
    match line input with
    | .ok rest l =>
      match applyLine st l with
      | .error (k, n) => .err k n
      | .ok (.panic e) => .panic e
      | .ok (.ok st') => .ok rest { st' with lines := st'.lines + 1 }
    | _ => .err Stream.errFailedToParse st.lines

/-- One line's worth of the `loop` in `parse_more`: the sub-line attempt for an open item; when it
    fails the item is finished and — `continue` with `cur_item = None` and the SAME input — the
    top-level parser sees the line. -/
def stepLine (st : PState) (input : Bytes) : StepRes :=
  match st.cur with
  | .none => topLevel st input
  | .func f ls inl =>
    match funcSubline input with
    | .ok rest (.origin id name) =>
      .ok rest { st with inlineOrigins := (id, name) :: st.inlineOrigins, lines := st.lines + 1 }
    | .ok rest (.inlinees xs) =>
      .ok rest { st with cur := .func f ls (xs.reverse ++ inl), lines := st.lines + 1 }
    | .ok rest (.line l) =>
      .ok rest { st with cur := .func f (l :: ls) inl, lines := st.lines + 1 }
    | _ =>
      match finishCur st with
      | .panic e => .panic e
      | .ok st' => topLevel st' input
  | .cfi c =>
    match stackCfi input with
    | .ok rest r =>
      .ok rest { st with cur := .cfi { c with addRules := r :: c.addRules }, lines := st.lines + 1 }
    | _ =>
      match finishCur st with
      | .panic e => .panic e
      | .ok st' => topLevel st' input

/-- the `loop` of parse_more over the trimmed input; every round consumes at least one byte
    (`MdProofs`: `stepLine_consumes`), so `fuel = input.length` is enough — running out of it is
    reported as a panic outcome and excluded by `parse_no_panic`. -/
def linesLoop : Nat → PState → Bytes → StepRes
  | _, st, [] => .ok [] st
  | 0, _, _ :: _ => .panic "MODEL: parse_more loop out of fuel"
  | fuel + 1, st, b :: bs =>
    match stepLine st (b :: bs) with
    | .ok rest st' => linesLoop fuel st' rest
    | r => r

/-- `input.iter().rposition(|&x| x == b'\n')` -/
def lastNL (input : Bytes) : Option Nat :=
  let rec go : Bytes → Nat → Option Nat → Option Nat
    | [], _, acc => acc
    | b :: rest, i, acc => go rest (i + 1) (if b = NL then some i else acc)
  go input 0 none

/-- `SymbolParser::parse_more` (parser.rs:445) -/
def parseMore (st : PState) (input : Bytes) : Stream.PM PState :=
  match lastNL input with
  | none => .ok 0 st
  | some idx =>
    let inp := input.take (idx + 1)
    match linesLoop inp.length st inp with
    | .ok _ st' => .ok inp.length st'
    | .err k l => .err k l
    | .panic e => .panic e

/-- canonical view of a `HashMap<u32, String>` given its insertion log (newest first):
    sorted by key, the newest value of each key. -/
def canonMap (log : List (Nat × Bytes)) : List (Nat × Bytes) :=
  let sorted := log.mergeSort fun a b => a.1 ≤ b.1      -- stable: newest stays first per key
  let rec dedup : List (Nat × Bytes) → Option Nat → List (Nat × Bytes)
    | [], _ => []
    | e :: rest, last => if last = some e.1 then dedup rest last else e :: dedup rest (some e.1)
  dedup sorted none

/-- map a STACK WIN vector back to records: the `tag` indexes the log, the (possibly repaired)
    `size` comes from the vector. -/
def winBack (infos : List StackInfoWin) (v : List (Rng × Rec)) : List (Rng × StackInfoWin) :=
  let arr := infos.reverse.toArray
  v.reverse.filterMap fun (r, c) => arr[c.tag]?.map fun i => (r, { i with size := c.size })

/-- `SymbolParser::finish` (parser.rs:697) -/
def finish (st0 : PState) : Outcome SymbolFile :=
  match finishCur st0 with
  | .panic e => .panic e
  | .ok st =>
    match tableP st.functions.reverse, tableP st.cfi.reverse,
          tableP (winBack st.winFdInfos st.winFd), tableP (winBack st.winFpoInfos st.winFpo) with
    | .ok fs, .ok cs, .ok wd, .ok wo =>
      .ok { moduleId := st.moduleId, debugFile := st.debugFile, files := canonMap st.files,
            publics := st.publics.reverse.mergeSort publicLe, functions := fs,
            inlineOrigins := canonMap st.inlineOrigins, cfiStackInfo := cs,
            winStackFramedataInfo := wd, winStackFpoInfo := wo, url := st.url }
    | .panic e, _, _, _ => .panic e
    | _, .panic e, _, _ => .panic e
    | _, _, .panic e, _ => .panic e
    | _, _, _, .panic e => .panic e

/-! ### the streaming parser -/

def symOps : Stream.Ops PState :=
  { parseMore := parseMore
    bumpLine := fun st => { st with lines := st.lines + 1 }
    lines := fun st => st.lines }

open MdModel.Gen.SymConsts in
/-- `SymbolFile::parse(reader following `sched`, recording callback)`; `none` = out of fuel. -/
def parseStream (input : Bytes) (sched : List Nat) : Option (Stream.Out PState × Stream.St PState) :=
  Stream.run MAX_BUFFER_CAPACITY symOps (Stream.fuelFor input)
    (Stream.init INITIAL_BUFFER_CAPACITY {} input sched)

/-- what the caller of `parse` observes -/
inductive Outcome' where
  | ok (f : SymbolFile)
  | err (kind line : Nat)
  | panic (site : String)
  | fuel

def parseResult (input : Bytes) (sched : List Nat) : Outcome' × Bytes :=
  match parseStream input sched with
  | none => (.fuel, [])
  | some (.ok ps, s) =>
    (match finish ps with | .ok f => .ok f | .panic e => .panic e, Stream.cbBytes s)
  | some (.err k l, s) => (.err k l, Stream.cbBytes s)
  | some (.panic e, s) => (.panic e, Stream.cbBytes s)

/-! ### canonical dump and line protocol

  `sym parse <input> sched:<whole | item,item,..>`   item = `n` | `n*k` (n, k times) | `n~` (n for ever)
  `<input>` = `.`-separated segments: plain hex, or `XX*N` = byte XX repeated N times; `-` = empty
  answer: `ok <dump> cb:<fnv64>:<len>:<calls>` | `err <kind> <line> cb:..` | `PANIC`
  A dump longer than 1500 characters is replaced by `#<fnv64>:<length>`. -/
open Proto

def hx (b : Bytes) : String := hex b

def fnvStep (h : UInt64) (b : UInt8) : UInt64 := (h ^^^ b.toUInt64) * 0x100000001b3
def fnvInit : UInt64 := 0xcbf29ce484222325
def fnvBytes (h : UInt64) (bs : Bytes) : UInt64 := bs.foldl fnvStep h
def fnvString (s : String) : UInt64 := s.toUTF8.foldl fnvStep fnvInit

def rng (r : Rng) : String := s!"{r.lo}-{r.hi}"

def dumpMap (m : List (Nat × Bytes)) : String :=
  joinWith "," (m.map fun (k, v) => s!"{k}={hx v}")

def dumpFunc (e : Rng × Function) : String :=
  let f := e.2
  s!"{rng e.1} {f.address} {f.size} {f.parameterSize} {hx f.name} L[" ++
  joinWith "," (f.lines.map fun (r, l) => s!"{rng r} {l.address} {l.size} {l.file} {l.line}") ++ "] I[" ++
  joinWith "," (f.inlinees.map fun i =>
    s!"{i.depth} {i.address} {i.size} {i.callFile} {i.callLine} {i.originId}") ++ "]"

def dumpCfi (e : Rng × StackInfoCfi) : String :=
  let c := e.2
  s!"{rng e.1} {c.init.address} {c.size} {hx c.init.rules} A[" ++
  joinWith "," (c.addRules.map fun a => s!"{a.address}:{hx a.rules}") ++ "]"

def dumpWin (e : Rng × StackInfoWin) : String :=
  let w := e.2
  let t := match w.thing with
    | .programString s => "P" ++ hx s
    | .allocatesBasePointer b => if b then "B1" else "B0"
  s!"{rng e.1} {w.address} {w.size} {w.prologueSize} {w.epilogueSize} {w.parameterSize} " ++
  s!"{w.savedRegisterSize} {w.localSize} {w.maxStackSize} {t}"

def dump (f : SymbolFile) : String :=
  s!"mod={hx f.moduleId},{hx f.debugFile};files:{dumpMap f.files};origins:{dumpMap f.inlineOrigins};pub:" ++
  joinWith "," (f.publics.map fun p => s!"{p.address}/{p.parameterSize}/{hx p.name}") ++ ";func:" ++
  joinWith ";" (f.functions.map dumpFunc) ++ ";cfi:" ++
  joinWith ";" (f.cfiStackInfo.map dumpCfi) ++ ";wfd:" ++
  joinWith ";" (f.winStackFramedataInfo.map dumpWin) ++ ";wfpo:" ++
  joinWith ";" (f.winStackFpoInfo.map dumpWin) ++ ";url=" ++
  (match f.url with | some u => hx u | none => "none")

def shorten (d : String) : String :=
  if d.length ≤ 1500 then d else s!"#{natToHex (fnvString d).toNat}:{d.length}"

/-- schedule syntax; `n~` needs the input length -/
def parseSched (s : String) (inputLen : Nat) : Option (List Nat) :=
  if s = "whole" then some [] else
  (pieces s ",").foldr (fun item acc =>
    match acc with
    | none => none
    | some tail =>
      if item.endsWith "~" then
        match (item.dropEnd 1).toString.toNat? with
        | some n => some (List.replicate (inputLen + 8) n ++ tail)
        | none => none
      else match (item.splitOn "*").map String.toNat? with
        | [some n] => some (n :: tail)
        | [some n, some k] => some (List.replicate k n ++ tail)
        | _ => none) (some [])

def answer (input : Bytes) (sched : List Nat) : String :=
  match parseStream input sched with
  | none => "MODEL-OUT-OF-FUEL"
  | some (out, s) =>
    let cbs := s.cb.reverse
    let h := cbs.foldl fnvBytes fnvInit
    let len := cbs.foldl (fun n c => n + c.length) 0
    let cb := s!" cb:{natToHex h.toNat}:{len}:{cbs.length}"
    match out with
    | .panic _ => "PANIC"
    | .err k l => s!"err {k} {l}" ++ cb
    | .ok ps =>
      match finish ps with
      | .panic _ => "PANIC"
      | .ok f => "ok " ++ shorten (dump f) ++ cb

/-- input encoding: `.`-separated segments, each plain hex or `XX*N` (byte `XX`, `N` times);
    `-` is the empty input. -/
def decodeInput (h : String) : Option Bytes :=
  if h = "-" then some [] else
  (h.splitOn ".").foldr (fun seg acc =>
    match acc with
    | none => none
    | some tail =>
      match seg.splitOn "*" with
      | [x] => (unhex x).map (· ++ tail)
      | [x, n] =>
        match unhex x, n.toNat? with
        | some [b], some k => some (List.replicate k b ++ tail)
        | _, _ => none
      | _ => none) (some [])

def handle (_engine : String) (args : List String) : String :=
  match args with
  | ["parse", h, sc] =>
    match decodeInput h, sc.dropPrefix? "sched:" with
    | some input, some rest =>
      match parseSched rest.toString input.length with
      | some sched => answer input sched
      | none => "bad-op"
    | _, _ => "bad-op"
  | _ => "bad-op"

end MdModel.Sym

namespace MdModel.SymParse
/-- line-protocol entry point of this model (engine(s): sym) -/
def handle (engine : String) (args : List String) : String := MdModel.Sym.handle engine args
end MdModel.SymParse
