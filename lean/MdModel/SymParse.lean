/-
  MdModel.SymParse — placeholder (model not written yet).
-/
import MdModel.Prelude
namespace MdModel.SymParse

/-- line-protocol entry point of this model (engine(s): sym) -/
def handle (_engine : String) (_args : List String) : String := "bad-op"

end MdModel.SymParse
