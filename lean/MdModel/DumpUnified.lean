/-
  MdModel.DumpUnified — `MinidumpMemoryInfoList`'s lookup table and `UnifiedMemoryInfoList`
  (line numbers of the pinned minidump/src/minidump.rs in brackets).

    MinidumpMemoryInfoList::from_regions [2446] (`memory_range()` [2525] = C08's `mkRange`,
        `into_rangemap_safe`)                                   -> `memInfoFromRegions`
    MinidumpMemoryInfoList::memory_info_at_address [2459] (`&self.regions[index]`), by_addr [2476]
                                                                -> `memInfoAt`, `byAddrIndices`
    UnifiedMemoryInfoList::new [2728] (the memory-info list wins when both exist),
        memory_info_at_address [2745], iter [2757], by_addr [2774] -> `unifiedNew`, `unifiedAt`, …
-/
import MdModel.Dump
import MdModel.DumpMaps
import MdModel.RangeMap
namespace MdModel.Dump
open MdModel

/-- `MinidumpMemoryInfoList::from_regions` [2446]; the final `unwrap` of `into_rangemap_safe` is the
    panic outcome (unreachable: C08) -/
def memInfoFromRegions (is : List MemInfo) : M (List RangeMap.Entry) :=
  M.alloc is.length 32 false >>= fun _ =>
  match RangeMap.safe (is.zipIdx.map fun (x, i) => (RangeMap.mkRange x.base x.size, i)) with
  | .ok m => pure m
  | .panic s => M.panic s

/-- `regions_by_addr.get(address).map(|&index| &self.regions[index])` with the index panic explicit;
    `n` = `self.regions.len()` -/
def tableAt (site : String) (table : List RangeMap.Entry) (n : Nat) (a : Nat) : M (Option Nat) :=
  match RangeMap.get table a with
  | none => pure none
  | some i => if i < n then pure (some i) else M.panic site

/-- `by_addr()`: `ranges_values().map(move |&(_, index)| &self.regions[index])` driven to the end -/
def byAddrIndices (site : String) (n : Nat) : List RangeMap.Entry → M (List Nat)
  | [] => pure []
  | (_, i) :: rest =>
    if i < n then byAddrIndices site n rest >>= fun r => pure (i :: r) else M.panic site

inductive UnifiedKind where
  | info
  | maps
  deriving DecidableEq, Repr

/-- `UnifiedMemoryInfoList::new(info, maps)` [2728]: `Some(Info)` whenever the memory-info list
    exists, else `Some(Maps)`, else `None` -/
def unifiedNew {α β : Type} (info : Option α) (maps : Option β) : Option UnifiedKind :=
  match info, maps with
  | some _, _ => some .info
  | none, some _ => some .maps
  | none, none => none

structure UnifiedOut where
  kind : UnifiedKind
  /-- `iter().count()` -/
  count : Nat
  /-- `by_addr()` as indices into the region vector -/
  byAddr : List Nat
  /-- `memory_info_at_address` at the probe addresses: the index served -/
  probes : List (Nat × Option Nat)
  deriving Repr

def memInfoProbeAddrs (is : List MemInfo) : List Nat :=
  [0, 0x1000, U64MAX] ++ is.flatMap fun x =>
    (if x.base > 0 then [x.base - 1] else []) ++ [x.base] ++
    (if x.size > 0 ∧ x.base + x.size - 1 ≤ U64MAX then [x.base + x.size - 1] else []) ++
    (if x.base + x.size ≤ U64MAX then [x.base + x.size] else [])

def probeAll (site : String) (table : List RangeMap.Entry) (n : Nat) : List Nat → M (List (Nat × Option Nat))
  | [] => pure []
  | a :: as => tableAt site table n a >>= fun r => probeAll site table n as >>= fun rest => pure ((a, r) :: rest)

/-- `UnifiedMemoryInfoList::new(get_stream::<MinidumpMemoryInfoList>().ok(), get_stream::<MinidumpLinuxMaps>().ok())`
    followed by `iter().count()`, `by_addr()`, `memory_info_at_address` at the probe addresses -/
def unifiedOut (info : Option (List MemInfo)) (maps : Option LinuxMapsX) : M (Option UnifiedOut) :=
  match unifiedNew info maps with
  | none => pure none
  | some .info =>
    let is := info.getD []
    memInfoFromRegions is >>= fun t =>
    byAddrIndices "MinidumpMemoryInfoList::by_addr: self.regions[index]" is.length t >>= fun ba =>
    probeAll "MinidumpMemoryInfoList::memory_info_at_address: self.regions[index]" t is.length (memInfoProbeAddrs is) >>= fun ps =>
    pure (some ⟨.info, is.length, ba, ps⟩)
  | some .maps =>
    let m := maps.getD ⟨[], []⟩
    let n := m.entries.length
    byAddrIndices "MinidumpLinuxMaps::by_addr: self.regions[index]" n m.table >>= fun ba =>
    probeAll "MinidumpLinuxMaps::memory_info_at_address: self.regions[index]" m.table n
      ([0, 0x1000, U64MAX] ++ mapsProbeAddrs m.entries) >>= fun ps =>
    pure (some ⟨.maps, n, ba, ps⟩)

end MdModel.Dump
