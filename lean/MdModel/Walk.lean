/-
  MdModel.Walk — executable model of the stack walker (`minidump-unwind`), line-protocol entry.

    Walk/Common.lean   architectures, contexts, stack memory, frames, environment
    Walk/Unwind.lean   frame-pointer and scan unwinders, epilogue, `walk_stack`
    Walk/Sym.lean      module lists, FUNC/PUBLIC lookup, by-symbols validation, ptr-auth mask
    Walk/Cfi.lean      STACK CFI evaluation and `CfiStackWalker`
    Walk/Layout.lean   C04: calling-convention layouts, expected chains, precondition `Pre`

  request (engine `walk`):
    walk <arch> <os> ctx:<r=v,..> valid:<all|-|r,..> stack:<none|base:hex> mods:<-|base:size:name,..> (sym:<module name>:<records>)*
      records (`;`-separated, fields `|`-separated):
      optional LAST field `be:1` (`be:0`): the stack memory is read big-endian (`Mem.be`); also on `chain` requests
        F|addr|size|psize|name    P|addr|psize|name    C|addr|size|rules    A|addr|rules (belongs to the last C)
        c|addr|size|<hex rules>   a|addr|<hex rules>
      rule text: `C`/`A` carry it with `_` for a space (plain texts), `c`/`a` hex-encoded UTF-8 (any text a
      symbol-file line can hold); leading blanks / tabs are dropped as the symbol-file parser drops them
  answer:
    frames:<trust>|ip=..|in=..|sp=..|m=<idx|->|f=<name@base/psize|->|v=<all|r=v,..>;...
-/
import MdModel.Prelude
import MdModel.Walk.Common
import MdModel.Walk.Unwind
import MdModel.Walk.Sym
import MdModel.Walk.Cfi
import MdModel.Walk.Proto
import MdModel.Walk.Layout
import MdModel.Walk.WinWalk
import MdModel.Walk.LayoutMixed
import MdModel.Walk.LayoutGen
import MdModel.Walk.LayoutGenScan
namespace MdModel.Walk
open MdModel MdModel.Proto

/-- the optional trailing field `be:1` / `be:0` of `walk` and `chain` requests -/
def splitBe (args : List String) : List String × Bool :=
  match args.getLast? with
  | some "be:1" => (args.dropLast, true)
  | some "be:0" => (args.dropLast, false)
  | _ => (args, false)

/-- `parseRequest` on the fields before the optional `be:` field; the stack memory gets the byte order -/
def parseRequestBe (args : List String) : Option Request :=
  let (args, be) := splitBe args
  (parseRequest args).map fun r => { r with mem := r.mem.map fun m => { m with be := be } }

def handleWalk (args : List String) : String :=
  match parseRequestBe args with
  | some r => showWalk r.arch (walk r.env r.mem r.ctx)
  | none => "bad-op"

/-- `win:<module>:<rec>;<rec>..,<module>:..` with `rec = ty|addr|size|par|sav|loc|hp|rest`
    (`_` for a space inside `rest`): the STACK WIN records per module, by module position -/
def parseWinRec (s : String) : Option Win.Rec :=
  match s.splitOn "|" with
  | [ty, addr, size, par, sav, loc, hp, rest] =>
    match ty.toList, hp.toList, addr.toNat?, size.toNat?, par.toNat?, sav.toNat?, loc.toNat? with
    | [tyc], [hpc], some a, some sz, some p, some sv, some lc =>
      if sz ≤ U32MAX ∧ p ≤ U32MAX ∧ sv ≤ U32MAX ∧ lc ≤ U32MAX ∧ a ≤ U64MAX ∧ (tyc = '0' ∨ tyc = '4') ∧
         (hpc = '0' ∨ hpc = '1') ∧ rest ≠ "" then
        some { ty := tyc, addr := a, size := sz, par := UInt32.ofNat p, sav := UInt32.ofNat sv,
               loc := UInt32.ofNat lc, hp := hpc, rest := (unUnderscore rest).toList }
      else none
    | _, _, _, _, _, _, _ => none
  | _ => none

def parseWins (mods : List Module) (field : String) : Option (List (List Win.Rec)) := do
  let body ← stripPrefix? field "win:"
  if body = "-" then some (mods.map fun _ => [])
  else
    let named ← (body.splitOn ",").mapM fun m =>
      let n := String.ofList (m.toList.takeWhile (· ≠ ':'))
      let recs := String.ofList ((m.toList.dropWhile (· ≠ ':')).drop 1)
      ((pieces recs ";").mapM parseWinRec).map fun l => (n, l)
    if named.all fun (n, _) => mods.any fun m => m.name = n then
      some (mods.map fun m => (named.lookup m.name).getD [])
    else none

/-- `chain pre <technique> exp:<frames> [win:<records>] <walk fields>`: the decidable precondition
    of the C04 theorems on a generated case;
    `chain walk win:<records> <walk fields>`: the walk itself with STACK WIN records present;
    `chain layout fp <base> <s0> <f0> <tail> <gap:ret,..|->`: the generator's x86-64 frame-pointer layout;
    `chain layout fpg <arch> <base> <s0> <f0> <tail> <gap:ret,..|->`: the same generically in the architecture;
    `chain layout cfi <base> <s0> <tail> <n:saves:ret:fpv,..> <walk fields>`: the canonical STACK CFI layout;
    `chain layout scan <base> <s0> <tail> <junk.junk..:ret,..> <walk fields>`: the scan-only layout (`-`: no junk) -/
def handleChain (args : List String) : String :=
  match args with
  | "walk" :: win :: rest =>
    match parseRequestBe rest with
    | some r =>
      match parseWins r.world.mods win with
      | some wins =>
        let env := mkEnvW r.arch r.os r.world wins (r.mem.getD { base := 0, bytes := #[] })
        showWalk r.arch (walk env r.mem r.ctx)
      | none => "bad-op"
    | none => "bad-op"
  | ["layout", "fp", base, s0, f0, tail, calls] =>
    -- the generator's frame-pointer layout on x86-64 as a function of its parameters
    let cs : Option (List (Nat × Nat)) :=
      if calls = "-" then some []
      else (pieces calls ",").mapM fun c =>
        match c.splitOn ":" with
        | [g, r] => do let g ← optNat g; let r ← optNat r; some (g, r)
        | _ => none
    match optNat base, optNat s0, optNat f0, optNat tail, cs with
    | some b, some s, some f, some t, some cs =>
      if s ≤ f ∧ b ≤ U64MAX ∧ f ≤ 4096 ∧ t ≤ 4096 ∧ cs.all (fun c => decide (c.1 ≤ 4096)) then
        let showExp := fun (e : Exp) => s!"{e.ret},{e.sp},{(e.fp.map toString).getD "-"}"
        s!"rsp={wAddr b s} rbp={wAddr b f} stack:{hex (wordsMem b (fpWords b f t cs)).bytes.toList} exp:{"|".intercalate ((fpChain b f cs).map showExp)}"
      else "bad-op"
    | _, _, _, _, _ => "bad-op"
  | ["layout", "fpg", arch, base, s0, f0, tail, calls] =>
    -- the generator's frame-pointer layout on any architecture with the technique
    -- (`gfpWords` / `gfpChain`, Walk/LayoutGen.lean; `preFp` of it: MdProofs/C04Gen.lean)
    let cs : Option (List (Nat × Nat)) :=
      if calls = "-" then some []
      else (pieces calls ",").mapM fun c =>
        match c.splitOn ":" with
        | [g, r] => do let g ← optNat g; let r ← optNat r; some (g, r)
        | _ => none
    match Arch.ofStr arch, optNat base, optNat s0, optNat f0, optNat tail, cs with
    | some a, some b, some s, some f, some t, some cs =>
      if s ≤ f ∧ b ≤ U64MAX ∧ f ≤ 4096 ∧ t ≤ 4096 ∧ cs.all (fun c => decide (c.1 ≤ 4096)) then
        let showExp := fun (e : Exp) => s!"{e.ret},{e.sp},{(e.fp.map toString).getD "-"}"
        s!"sp={pAddr a.ptr b s} fp={pAddr a.ptr b f} stack:{hex (wordsMemP a.ptr b (gfpWords a.ptr b f t cs)).bytes.toList} exp:{"|".intercalate ((gfpChain a.ptr b f cs).map showExp)}"
      else "bad-op"
    | _, _, _, _, _, _ => "bad-op"
  | "layout" :: "cfi" :: base :: s0 :: tail :: frames :: rest =>
    -- the canonical STACK CFI generator's layout (`gcfiWords` / `gcfiChain`, Walk/LayoutGen.lean) as a
    -- function of its parameters; `rest` = the walk fields of the generated case, of which the context,
    -- module list and symbol records are used (NOT the stack bytes beyond their base); `hyp` = every
    -- hypothesis of `walk_layout_cfi_generated` (MdProofs/C04Gen.lean) evaluated on these parameters
    let fs : Option (List CfiFr) :=
      if frames = "-" then some []
      else (pieces frames ",").mapM fun c =>
        match c.splitOn ":" with
        | [n, sv, r, f] => do
          let n ← optNat n; let r ← optNat r; let f ← optNat f
          if n ≤ 4096 ∧ (sv = "0" ∨ sv = "1") then some { n := n, saves := sv = "1", ret := r, fpv := f } else none
        | _ => none
    match parseRequestBe rest, optNat base, optNat s0, optNat tail, fs with
    | some r, some b, some s, some t, some fs =>
      if b ≤ U64MAX ∧ s ≤ 4096 ∧ t ≤ 4096 ∧ !(r.mem.map (·.be)).getD false then
        let a := r.arch
        let ws := gcfiWords s t fs
        let m := wordsMemP a.ptr b ws
        let mask := (mkEnv a r.os r.world m).mask
        let fp0 := r.ctx.raw a a.fpName
        let hyp :=
          decide (effArch a r.ctx = a) && r.ctx.valid.isNone && decide (r.ctx.sp = pAddr a.ptr b s) &&
          decide (16 < b) && decide (b + a.ptr * ws.length ≤ a.regMax) && decide (s < ws.length) &&
          decide (stripOf a mask fp0 = fp0) && gcfiSide r.world a r.ctx.ip true fs && gcfiFramesOk a mask fs &&
          (match fs with
           | c :: _ => c.n != 0 || decide (r.ctx.raw a (if a.isMips then "ra" else "lr") = c.ret)
           | [] => true) &&
          (t == 0 || gcfiLastFp fp0 fs == 0)
        let showExp := fun (e : Exp) => s!"{e.ret},{e.sp},{(e.fp.map toString).getD "-"}"
        -- worlds of one module: the side condition from record-level facts (`gcfiSide_one_module`)
        let one := match r.world.mods, r.world.syms with
          | [md], [some sf] => if oneModOkB md sf && gcfiSideOne md sf a r.ctx.ip true fs then "1" else "0"
          | _, _ => "-"
        -- any number of modules: `gcfiSide_world`
        let recs := worldOkB r.world && gcfiSideW r.world a r.ctx.ip true fs
        s!"hyp={if hyp then 1 else 0} one={one} rec={if recs then 1 else 0} sp={pAddr a.ptr b s} stack:{hex m.bytes.toList} exp:{"|".intercalate ((gcfiChain a.ptr b s fp0 fs).map showExp)}"
      else "bad-op"
    | _, _, _, _, _ => "bad-op"
  | "layout" :: "scan" :: base :: s0 :: tail :: frames :: rest =>
    -- the scan-only generator's layout (`gscanWords` / `gscanChain`, Walk/LayoutGenScan.lean) as a function
    -- of its parameters; `rest` = the walk fields of the generated case, of which the context, module list
    -- and symbol records are used; `hyp` = every hypothesis of `walk_layout_scan_generated` /
    -- `walk_layout_scan_generated32` (MdProofs/C04Gen.lean) evaluated on these parameters
    let fs : Option (List ScFr) :=
      if frames = "-" then some []
      else (pieces frames ",").mapM fun c =>
        match c.splitOn ":" with
        | [j, r] => do
          let r ← optNat r
          let j ← if j = "-" then some [] else (j.splitOn ".").mapM optNat
          if j.length ≤ 4096 then some { junk := j, ret := r } else none
        | _ => none
    match parseRequestBe rest, optNat base, optNat s0, optNat tail, fs with
    | some r, some b, some s, some t, some fs =>
      if b ≤ U64MAX ∧ s ≤ 4096 ∧ t ≤ 4096 ∧ !(r.mem.map (·.be)).getD false then
        let a := r.arch
        let ws := gscanWords s t fs
        let m := wordsMemP a.ptr b ws
        let env := mkEnv a r.os r.world m
        let wide := a == .arm64 || a == .arm64old || a == .mips64
        let hyp :=
          noCfi r.world && r.ctx.valid.isNone && decide (r.ctx.sp = pAddr a.ptr b s) &&
          decide (r.ctx.raw a a.fpName = 0) && !(a == .arm && r.os == .ios) &&
          (if wide then (a != .mips64 || r.ctx.m64) else !r.ctx.m64 && decide (4096 ≤ b) && decide (s ≤ ws.length)) &&
          decide (0 < ws.length) && decide (b + a.ptr * ws.length ≤ a.regMax) && gscanFramesOk env a true fs
        let showExp := fun (e : Exp) => s!"{e.ret},{e.sp},{(e.fp.map toString).getD "-"}"
        -- `gscanFramesOk_of_junk`: module bases `≥ 4096` and the junk words `< 4096`
        let junk := r.world.mods.all (fun md => decide (4096 ≤ md.base)) && gscanFramesOkJ env a true fs
        s!"hyp={if hyp then 1 else 0} junk={if junk then 1 else 0} sp={pAddr a.ptr b s} stack:{hex m.bytes.toList} exp:{"|".intercalate ((gscanChain a.ptr b s fs).map showExp)}"
      else "bad-op"
    | _, _, _, _, _ => "bad-op"
  | "pre" :: tech :: exp :: rest =>
    let (win, rest) := match rest with
      | f :: more => if f.startsWith "win:" then (f, more) else ("win:-", rest)
      | [] => ("win:-", rest)
    match parseRequestBe rest, parseExp exp, Technique.ofStr tech with
    | some r, some chain, some t =>
      match r.mem, parseWins r.world.mods win with
      | some m, some wins =>
        if t = .win ∨ t = .mixed then
          if PreW r.world wins (mkEnvW r.arch r.os r.world wins m) r.arch r.os m r.ctx chain then "1" else "0"
        else if !noWins wins then "0"
        else if Pre r.world r.env r.arch r.os t m r.ctx chain then "1" else "0"
      | none, some _ => "0"
      | _, none => "bad-op"
    | _, _, _ => "bad-op"
  | _ => "bad-op"

/-- line-protocol entry point of this model (engines: walk, chain) -/
def handle (engine : String) (args : List String) : String :=
  match engine with
  | "walk" => handleWalk args
  | "chain" => handleChain args
  | _ => "bad-op"

end MdModel.Walk
