/-
  MdModel.Walk — placeholder (model not written yet).
-/
import MdModel.Prelude
namespace MdModel.Walk

/-- line-protocol entry point of this model (engine(s): walk, chain) -/
def handle (_engine : String) (_args : List String) : String := "bad-op"

end MdModel.Walk
