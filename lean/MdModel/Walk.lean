/-
  MdModel.Walk — executable model of the stack walker (`minidump-unwind`), line-protocol entry.

    Walk/Common.lean   architectures, contexts, stack memory, frames, environment
    Walk/Unwind.lean   frame-pointer and scan unwinders, epilogue, `walk_stack`
    Walk/Sym.lean      module lists, FUNC/PUBLIC lookup, by-symbols validation, ptr-auth mask
    Walk/Cfi.lean      STACK CFI evaluation and `CfiStackWalker`
    Walk/Layout.lean   C04: calling-convention layouts, expected chains, precondition `Pre`

  request (engine `walk`):
    walk <arch> <os> ctx:<r=v,..> valid:<all|-|r,..> stack:<none|base:hex> mods:<-|base:size:name,..> (sym:<module name>:<records>)*
      records (`;`-separated, fields `|`-separated, `_` for a space inside rules):
        F|addr|size|psize|name    P|addr|psize|name    C|addr|size|rules    A|addr|rules (belongs to the last C)
  answer:
    frames:<trust>|ip=..|in=..|sp=..|m=<idx|->|f=<name@base/psize|->|v=<all|r=v,..>;...
-/
import MdModel.Prelude
import MdModel.Walk.Common
import MdModel.Walk.Unwind
import MdModel.Walk.Sym
import MdModel.Walk.Cfi
import MdModel.Walk.Layout
namespace MdModel.Walk
open MdModel MdModel.Proto

def stripPrefix? (s pre : String) : Option String :=
  if s.startsWith pre then some (s.drop pre.length).toString else none

def parseOs (s : String) : Os :=
  if s = "windows" then .windows else if s = "ios" then .ios else .other

def parseAssign (s : String) : Option (String × Nat) :=
  match s.splitOn "=" with
  | [k, v] => (optNat v).map fun n => (k, n)
  | _ => none

def parseCtx (a : Arch) (regs valid : String) : Option Ctx := do
  let assigns ← (pieces regs ",").mapM parseAssign
  let v : Option (List String) ←
    if valid = "all" then some none
    else if valid = "-" then some (some [])
    else some (some (pieces valid ","))
  let base : Ctx := { ip := 0, sp := 0, rest := [], valid := v, m64 := a = .mips64 }
  let lim := if a.isMips then U64MAX else a.regMax
  assigns.foldlM (fun c (k, n) => if n ≤ lim then c.set a k n else none) base

def parseMem (s : String) : Option (Option Mem) :=
  if s = "none" then some none
  else match s.splitOn ":" with
    | [b, h] => do
      let base ← optNat b
      let bytes ← unhex h
      if base ≤ U64MAX then some (some { base := base, bytes := bytes.toArray }) else none
    | _ => none

def parseMods (s : String) : Option (List Module) :=
  if s = "-" then some []
  else (pieces s ",").mapM fun m =>
    match m.splitOn ":" with
    | [b, sz, n] => do
      let base ← optNat b
      let size ← optNat sz
      if base ≤ U64MAX ∧ size ≤ U32MAX then some { base := base, size := size, name := n } else none
    | _ => none

def unUnderscore (s : String) : String := s.map fun c => if c = '_' then ' ' else c

def parseRecords (s : String) : Option SymFile :=
  (pieces s ";").foldlM (fun (sf : SymFile) r =>
    match r.splitOn "|" with
    | ["F", a, sz, ps, n] => do
      let a ← optNat a; let sz ← optNat sz; let ps ← optNat ps
      some { sf with funcs := sf.funcs ++ [{ addr := a, size := sz, psize := ps, name := n }] }
    | ["P", a, ps, n] => do
      let a ← optNat a; let ps ← optNat ps
      some { sf with pubs := sf.pubs ++ [{ addr := a, psize := ps, name := n }] }
    | ["C", a, sz, rules] => do
      let a ← optNat a; let sz ← optNat sz
      some { sf with cfis := sf.cfis ++ [{ addr := a, size := sz, init := unUnderscore rules, adds := [] }] }
    | ["A", a, rules] => do
      let a ← optNat a
      match sf.cfis.reverse with
      | last :: before =>
        some { sf with cfis := (({ last with adds := last.adds ++ [(a, unUnderscore rules)] }) :: before).reverse }
      | [] => none
    | _ => none) {}

def parseSyms (mods : List Module) (fields : List String) : Option (List (Option SymFile)) := do
  let named ← fields.mapM fun f => do
    let body ← stripPrefix? f "sym:"
    -- module name up to the first `:`; the records (CFI rules contain `:`) follow
    let n := String.ofList (body.toList.takeWhile (· ≠ ':'))
    let recs := String.ofList ((body.toList.dropWhile (· ≠ ':')).drop 1)
    (parseRecords recs).map fun sf => (n, sf)
  some (mods.map fun m => named.lookup m.name)

def showValid (a : Arch) (c : Ctx) : String :=
  match c.valid with
  | none => "all"
  | some names =>
    let sorted := names.mergeSort fun p q => strLe p q
    joinWith "," (sorted.map fun n => s!"{n}={c.raw a n}")

def showFrame (a : Arch) (f : Frame) : String :=
  let m := match f.module with
    | some i => toString i
    | none => "-"
  let fn := match f.func with
    | some g => s!"{g.name}@{g.base}/{g.psize}"
    | none => "-"
  s!"{f.trust.str}|ip={f.ctx.ip}|in={f.instruction}|sp={f.ctx.sp}|m={m}|f={fn}|v={showValid (effArch a f.ctx) f.ctx}"

def showWalk (a : Arch) (fs : List Frame) : String :=
  "frames:" ++ joinWith ";" (fs.map (showFrame a))

def handleWalk (args : List String) : String :=
  match args with
  | arch :: os :: ctx :: valid :: stack :: mods :: syms =>
    let r : Option String := do
      let a ← Arch.ofStr arch
      let regs ← stripPrefix? ctx "ctx:"
      let v ← stripPrefix? valid "valid:"
      let c ← parseCtx a regs v
      let mem ← (stripPrefix? stack "stack:").bind parseMem
      let ms ← (stripPrefix? mods "mods:").bind parseMods
      let sy ← parseSyms ms syms
      let w : World := { mods := ms, syms := sy }
      let env := mkEnv a (parseOs os) w (mem.getD { base := 0, bytes := #[] })
      some (showWalk a (walk env mem c))
    r.getD "bad-op"
  | _ => "bad-op"

/-- line-protocol entry point of this model (engines: walk, chain) -/
def handle (engine : String) (args : List String) : String :=
  match engine with
  | "walk" => handleWalk args
  | "chain" => handleChain args
  | _ => "bad-op"

end MdModel.Walk
