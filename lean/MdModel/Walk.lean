/-
  MdModel.Walk — executable model of the stack walker (`minidump-unwind`), line-protocol entry.

    Walk/Common.lean   architectures, contexts, stack memory, frames, environment
    Walk/Unwind.lean   frame-pointer and scan unwinders, epilogue, `walk_stack`
    Walk/Sym.lean      module lists, FUNC/PUBLIC lookup, by-symbols validation, ptr-auth mask
    Walk/Cfi.lean      STACK CFI evaluation and `CfiStackWalker`
    Walk/Layout.lean   C04: calling-convention layouts, expected chains, precondition `Pre`

  request (engine `walk`):
    walk <arch> <os> ctx:<r=v,..> valid:<all|-|r,..> stack:<none|base:hex> mods:<-|base:size:name,..> (sym:<module name>:<records>)*
      records (`;`-separated, fields `|`-separated, `_` for a space inside rules):
        F|addr|size|psize|name    P|addr|psize|name    C|addr|size|rules    A|addr|rules (belongs to the last C)
  answer:
    frames:<trust>|ip=..|in=..|sp=..|m=<idx|->|f=<name@base/psize|->|v=<all|r=v,..>;...
-/
import MdModel.Prelude
import MdModel.Walk.Common
import MdModel.Walk.Unwind
import MdModel.Walk.Sym
import MdModel.Walk.Cfi
import MdModel.Walk.Proto
import MdModel.Walk.Layout
namespace MdModel.Walk
open MdModel MdModel.Proto

def handleWalk (args : List String) : String :=
  match parseRequest args with
  | some r => showWalk r.arch (walk r.env r.mem r.ctx)
  | none => "bad-op"

/-- `chain pre <technique> exp:<ret,sp,fp|-,module,function>|.. <walk fields>`: the decidable
    precondition of the C04 theorems on a generated case -/
def handleChain (args : List String) : String :=
  match args with
  | "pre" :: tech :: exp :: rest =>
    match parseRequest rest, parseExp exp, Technique.ofStr tech with
    | some r, some chain, some t =>
      match r.mem with
      | some m => if Pre r.world r.env r.arch r.os t m r.ctx chain then "1" else "0"
      | none => "0"
    | _, _, _ => "bad-op"
  | _ => "bad-op"

/-- line-protocol entry point of this model (engines: walk, chain) -/
def handle (engine : String) (args : List String) : String :=
  match engine with
  | "walk" => handleWalk args
  | "chain" => handleChain args
  | _ => "bad-op"

end MdModel.Walk
