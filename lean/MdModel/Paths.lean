/-
  MdModel.Paths — executable model of the symbol lookup paths (property C17).

  Code modelled (breakpad-symbols/src/lib.rs, as repaired by the `fix:` commit "symbol lookup
  paths can no longer escape the symbol and cache directories"):
    `leafname`, `safe_leafname`, `replace_or_add_extension`, `breakpad_sym_lookup`,
    `code_info_breakpad_sym_lookup`, `extra_debuginfo_lookup`, `binary_lookup`, `moz_lookup`,
    `lookup`; from the `debugid` crate (0.8.0, trusted, re-implemented from its source):
    `CodeId::new` (retain ASCII hex digits, ASCII lower-case), `DebugId::breakpad()` and
    `DebugId`'s `Display`; and the join operations of the consumers (`Path::join`, `Url::join`).

  Paths are `List Char` (Rust `str` = sequence of Unicode scalar values; every operation used by
  the code is char-wise or, where byte-wise, only inspects ASCII bytes — see `hasDrivePrefix`).
  Core-only imports.
-/
import MdModel.Prelude
namespace MdModel.Paths

abbrev Str := List Char

/-- the two path separator styles the code recognises: `['/', '\\']` -/
def isSep (c : Char) : Bool := c == '/' || c == '\\'

/-- Split at every character satisfying `p` (Rust `str::split(pattern)`): always at least one
    piece; `n` separators give `n+1` pieces, empty pieces included. -/
def splitOnP (p : Char → Bool) : Str → List Str
  | [] => [[]]
  | c :: cs =>
    if p c then [] :: splitOnP p cs
    else match splitOnP p cs with
      | [] => [[c]]          -- unreachable: `splitOnP` never returns `[]`
      | w :: ws => (c :: w) :: ws

/-- Rust `[..].join(sep)` -/
def joinWith (sep : Str) : List Str → Str
  | [] => []
  | [x] => x
  | x :: y :: rest => x ++ sep ++ joinWith sep (y :: rest)

/-- `leafname` (lib.rs:173): `path.rsplit(['/', '\\']).next().unwrap_or(path)` — the text after
    the last separator, the whole string if there is none (`rsplit` always yields one item, so
    the `unwrap_or` branch is dead). -/
def leafname (path : Str) : Str :=
  (path.reverse.takeWhile (fun c => !isSep c)).reverse

/-- `bytes.len() >= 2 && bytes[0].is_ascii_alphabetic() && bytes[1] == b':'` (lib.rs:185).
    The Rust test is on UTF-8 bytes; byte 0 is an ASCII letter iff the first char is one (lead
    bytes of multi-byte chars are ≥ 0x80), and then byte 1 starts the second char, which is `:`
    iff that byte is 0x3A. So the char-wise test is the same test. -/
def hasDrivePrefix : Str → Bool
  | a :: b :: _ => a.isAlpha && b == ':'
  | _ => false

/-- `safe_leafname` (lib.rs:182-191) -/
def safeLeafname (path : Str) : Option Str :=
  let leaf := leafname path
  if leaf = [] ∨ leaf = ['.'] ∨ leaf = ['.', '.'] ∨ hasDrivePrefix leaf = true then none
  else some leaf

/-- `replace_or_add_extension` (lib.rs:194-205).
    `e.to_lowercase() == match_extension`: Rust lower-cases by Unicode rules; the only call sites
    pass `"pdb"` and `"dll"`, and the only characters whose Unicode lower-casing yields one of
    `p d b l` are those letters and their ASCII capitals (checked exhaustively over all scalar
    values by the `paths` engine, case `lowercase-table`), and no multi-char lower-casing
    (`İ` → `i̇`) produces them. Hence ASCII lower-casing (`Char.toLower`) decides the same test. -/
def replaceOrAddExtension (filename matchExt newExt : Str) : Str :=
  let bits := splitOnP (· == '.') filename
  let bits :=
    if bits.length > 1 ∧ (bits.getLast?.map (·.map Char.toLower)) = some matchExt
    then bits.dropLast else bits
  joinWith ['.'] (bits ++ [newExt])

/-! ### identifiers (crate `debugid` 0.8.0 — trusted, modelled from its source) -/

def isAsciiHexDigit (c : Char) : Bool :=
  ('0' ≤ c ∧ c ≤ '9') || ('a' ≤ c ∧ c ≤ 'f') || ('A' ≤ c ∧ c ≤ 'F')

/-- `CodeId::new`: `string.retain(|c| c.is_ascii_hexdigit()); string.make_ascii_lowercase()`.
    Every `CodeId` value is `CodeId::new s` for some `s` (the field is private; `nil`/`default`
    is `new ""`, `from_binary`/`From`/`FromStr` call `new`), and `new` is idempotent, so a module's
    code identifier is represented by an arbitrary raw string to which `new` is applied. -/
def codeIdNew (s : Str) : Str := (s.filter isAsciiHexDigit).map Char.toLower

def hexU (n : Nat) : Char :=
  if n < 10 then Char.ofNat ('0'.toNat + n) else Char.ofNat ('A'.toNat + (n - 10))
def hexL (n : Nat) : Char :=
  if n < 10 then Char.ofNat ('0'.toNat + n) else Char.ofNat ('a'.toNat + (n - 10))

def upperHexByte (b : UInt8) : Str := [hexU (b.toNat / 16), hexU (b.toNat % 16)]
def lowerHexByte (b : UInt8) : Str := [hexL (b.toNat / 16), hexL (b.toNat % 16)]

def lowerHexFuel : Nat → Nat → Str → Str
  | 0, _, acc => acc
  | fuel + 1, n, acc =>
    let acc' := hexL (n % 16) :: acc
    if n / 16 = 0 then acc' else lowerHexFuel fuel (n / 16) acc'

/-- `{:x}` of an unsigned number: at least one digit, lower case, no padding. -/
def lowerHexNat (n : Nat) : Str := lowerHexFuel (n + 1) n []

/-- `debugid::DebugId`: 16 `bytes` (a UUID, or for PDB 2.0 a big-endian timestamp in the first 4),
    `appendix` (age, `u32`), `typ`. The theorems do not need the sizes, so they are not restricted. -/
structure DebugId where
  pdb20 : Bool
  bytes : List UInt8
  appendix : Nat
  deriving Repr, DecidableEq

/-- `DebugId::breakpad().to_string()`: `{:08X}{:x}` (timestamp, appendix) for PDB 2.0, else
    `{:X}{:x}` (uuid.simple(), appendix). -/
def DebugId.breakpad (d : DebugId) : Str :=
  (if d.pdb20 then (d.bytes.take 4).flatMap upperHexByte else d.bytes.flatMap upperHexByte)
    ++ lowerHexNat d.appendix

/-- hyphenated lower-case UUID `8-4-4-4-12` -/
def uuidHyphenated (bs : List UInt8) : Str :=
  let h (xs : List UInt8) : Str := xs.flatMap lowerHexByte
  h (bs.take 4) ++ '-' :: h ((bs.drop 4).take 2) ++ '-' :: h ((bs.drop 6).take 2) ++ '-' ::
    h ((bs.drop 8).take 2) ++ '-' :: h (bs.drop 10)

/-- `DebugId`'s `Display` (`debug_id.to_string()`) -/
def DebugId.display (d : DebugId) : Str :=
  (if d.pdb20 then (d.bytes.take 4).flatMap upperHexByte else uuidHyphenated d.bytes)
    ++ (if d.appendix > 0 then '-' :: lowerHexNat d.appendix else [])

/-! ### the lookups -/

/-- what the lookups read from a `Module` (`minidump_common::traits::Module`) -/
structure Module where
  code_file : Str                 -- `code_file()`: never absent
  code_id : Option Str            -- `code_identifier()`: raw string, see `codeIdNew`
  debug_file : Option Str         -- `debug_file()`
  debug_id : Option DebugId       -- `debug_identifier()`
  deriving Repr

structure FileLookup where
  debug_id : Str
  debug_file : Str
  cache_rel : Str
  server_rel : Str
  deriving Repr, DecidableEq

inductive FileKind | BreakpadSym | Binary | ExtraDebugInfo
  deriving Repr, DecidableEq

def sym : Str := ['s', 'y', 'm']
def pdb : Str := ['p', 'd', 'b']
def dll : Str := ['d', 'l', 'l']
def slash : Str := ['/']

/-- the lookups are parameterised by the leaf function so that the pre-fix variant
    (`leafname` only, never `none`) can be stated next to the current one -/
def breakpadSymLookupWith (leafOf : Str → Option Str) (m : Module) : Option FileLookup := do
  let debug_file ← m.debug_file
  let debug_id ← m.debug_id
  let leaf ← leafOf debug_file
  let filename := replaceOrAddExtension leaf pdb sym
  let rel := joinWith slash [leaf, debug_id.breakpad, filename]
  some { cache_rel := rel, server_rel := rel, debug_id := debug_id.breakpad, debug_file := filename }

def codeInfoLookupWith (leafOf : Str → Option Str) (m : Module) : Option Str := do
  let code_id ← m.code_id
  if m.code_file = [] then none else
  let leaf ← leafOf m.code_file
  let filename := replaceOrAddExtension leaf dll sym
  -- `code_identifier.to_string().to_uppercase()`: the string is ASCII hex only
  some (joinWith slash [leaf, (codeIdNew code_id).map Char.toUpper, filename])

def extraDebuginfoLookupWith (leafOf : Str → Option Str) (m : Module) : Option FileLookup := do
  let debug_file ← m.debug_file
  let debug_id ← m.debug_id
  let leaf ← leafOf debug_file
  let rel := joinWith slash [leaf, debug_id.breakpad, leaf]
  some { cache_rel := rel, server_rel := rel, debug_id := debug_id.display, debug_file := leaf }

def binaryLookupWith (leafOf : Str → Option Str) (m : Module) : Option FileLookup := do
  let code_id ← m.code_id
  let debug_file ← m.debug_file
  let debug_id ← m.debug_id
  let bin_leaf ← leafOf m.code_file
  let debug_leaf ← leafOf debug_file
  some { cache_rel := joinWith slash [debug_leaf, debug_id.breakpad, bin_leaf],
         server_rel := joinWith slash [bin_leaf, codeIdNew code_id, bin_leaf],
         debug_id := debug_id.display, debug_file := debug_file }

def lookupWith (leafOf : Str → Option Str) (m : Module) : FileKind → Option FileLookup
  | .BreakpadSym => breakpadSymLookupWith leafOf m
  | .Binary => binaryLookupWith leafOf m
  | .ExtraDebugInfo => extraDebuginfoLookupWith leafOf m

/-- the code as it is now (lib.rs:233-327) -/
def breakpadSymLookup := breakpadSymLookupWith safeLeafname
def codeInfoBreakpadSymLookup := codeInfoLookupWith safeLeafname
def extraDebuginfoLookup := extraDebuginfoLookupWith safeLeafname
def binaryLookup := binaryLookupWith safeLeafname
def lookup := lookupWith safeLeafname

/-- the code before the repair: `leafname` only -/
def lookupOld := lookupWith (fun p => some (leafname p))
def codeInfoLookupOld := codeInfoLookupWith (fun p => some (leafname p))

/-- `moz_lookup` (lib.rs:317-321): `server_rel.pop().unwrap(); server_rel.push('_')`.
    `pop` on an empty string is `None`: the `unwrap` panics. -/
def mozLookup (l : FileLookup) : Outcome FileLookup :=
  if l.server_rel = [] then .panic "moz_lookup: server_rel.pop().unwrap()"
  else .ok { l with server_rel := l.server_rel.dropLast ++ ['_'] }

/-! ### what "genuinely relative" means, and the joins of the consumers -/

/-- components as the property counts them: split on BOTH separator styles -/
def comps (p : Str) : List Str := splitOnP isSep p

def dotdot : Str := ['.', '.']

/-- executable form of `Rooted` (MdProofs.C17): non-empty, does not start with a separator
    (which also excludes a UNC prefix = two leading separators), does not start with a drive
    prefix `[A-Za-z]:`, and no component (on both separators) is `..`. -/
def rootedb (p : Str) : Bool :=
  (match p with
   | [] => false
   | c :: _ => !isSep c)
  && !hasDrivePrefix p
  && !(comps p).contains dotdot

/-- **The specification predicate of C17**: `p` is genuinely relative.
    * `nonempty`, `no_leading_sep`: the first component is non-empty — the path does not start with
      `/` or `\` (so it is neither absolute nor carries a UNC / verbatim / device prefix, which all
      begin with two separators);
    * `no_drive`: it does not begin with a drive prefix `[A-Za-z]:` (`C:x` is drive-relative on
      Windows and `Path::join` then discards the root);
    * `no_dotdot`: no component — splitting on BOTH separators — is `..`.
    Platform independent: checked on the string, not through the host's `Path`. -/
structure Rooted (p : Str) : Prop where
  nonempty : p ≠ []
  no_leading_sep : ∀ c, p.head? = some c → isSep c = false
  no_drive : hasDrivePrefix p = false
  no_dotdot : dotdot ∉ comps p

inductive Flavor | unix | windows
  deriving Repr, DecidableEq

def Flavor.isSep : Flavor → Char → Bool
  | .unix, c => c == '/'
  | .windows, c => Paths.isSep c
def Flavor.mainSep : Flavor → Char
  | .unix => '/'
  | .windows => '\\'

/-- does pushing `rel` onto a path discard (part of) that path?  Unix: `rel` is absolute (leading
    `/`). Windows: `rel` has a root (leading `/` or `\`, which includes UNC/verbatim/device
    prefixes) or a drive prefix `X:`. -/
def Flavor.replaces (f : Flavor) (rel : Str) : Bool :=
  (match rel with
   | [] => false
   | c :: _ => f.isSep c)
  || (match f with
      | .unix => false
      | .windows => hasDrivePrefix rel)

/-- `need_sep` of `PathBuf::push`: the path is non-empty and does not end with a separator -/
def Flavor.needSep (f : Flavor) (root : Str) : Bool :=
  match root.getLast? with
  | none => false
  | some c => !f.isSep c

/-- `Path::join` / `PathBuf::push` (std, trusted; the Unix flavour is compared with
    `std::path::Path::join` on every run, the Windows flavour is an abstraction of the documented
    behaviour: a rooted or prefixed argument does not extend the path, it replaces it — here by
    `rel` itself, the exact result for drive-relative arguments is irrelevant to the theorems). -/
def pathJoin (f : Flavor) (root rel : Str) : Str :=
  if f.replaces rel then rel
  else if f.needSep root then root ++ f.mainSep :: rel else root ++ rel

/-- normalised components of a path in one flavour, as `Path::components()` yields them after the
    root: empty components and `.` are dropped -/
def Flavor.comps (f : Flavor) (p : Str) : List Str :=
  (splitOnP f.isSep p).filter (fun w => w ≠ [] ∧ w ≠ ['.'])

/-- containment by component walk: depth below the start never becomes negative.
    `none` = the walk climbed above its starting directory. -/
def walkDepth : Nat → List Str → Option Nat
  | d, [] => some d
  | d, w :: ws =>
    if w = dotdot then (match d with
      | 0 => none
      | d' + 1 => walkDepth d' ws)
    else walkDepth (d + 1) ws

/-! ### the URL of a download: `join_lookup_path` (breakpad-symbols/src/http.rs, as repaired by
     "fix: module names can no longer redirect symbol downloads away from the server's base URL")

  Every `/`-separated component of `rel` is percent-encoded byte-wise and appended below the
  directory of the base URL's path; a component `.` or `..` makes the function return `None`.
  Only the path of the base URL changes (`set_path`, query and fragment cleared): trusted — the
  `url` crate stores an ASCII path made of the characters below and `%XX` triples unchanged; the
  engine compares the path of the request actually sent with this model. -/

/-- bytes copied as they are: ASCII letters, digits and `- . _ ~ ! $ & ' ( ) * + , ; = : @` -/
def keepRaw (b : UInt8) : Bool :=
  (65 ≤ b && b ≤ 90) || (97 ≤ b && b ≤ 122) || (48 ≤ b && b ≤ 57) ||
  [45, 46, 95, 126, 33, 36, 38, 39, 40, 41, 42, 43, 44, 59, 61, 58, 64].contains b

/-- one byte of a component: itself, or `%XX` with upper-case hex -/
def pctEncodeByte (b : UInt8) : Str :=
  if keepRaw b then [Char.ofNat b.toNat] else ['%', hexU (b.toNat / 16), hexU (b.toNat % 16)]

def utf8 (w : Str) : List UInt8 := w.flatMap String.utf8EncodeChar

/-- `for byte in component.bytes() { … }` -/
def pctEncode (w : Str) : Str := (utf8 w).flatMap pctEncodeByte

/-- `base_path[..base_path.rfind('/')? + 1]`: up to and including the last `/` -/
def baseDir (basePath : Str) : Option Str :=
  if basePath.contains '/' then
    some (basePath.reverse.dropWhile (· != '/')).reverse
  else none

/-- `join_lookup_path`, as a function of the base URL's path: the new path -/
def joinLookupPath (basePath rel : Str) : Option Str :=
  match baseDir basePath with
  | none => none
  | some dir =>
    let cs := splitOnP (· == '/') rel
    if cs.any (fun c => c == ['.'] || c == dotdot) then none
    else some (dir ++ joinWith ['/'] (cs.map pctEncode))

/-- percent-decoding of an ASCII path segment into bytes (a malformed `%` stands for itself) -/
def pctDecode : Str → List UInt8
  | [] => []
  | c :: rest =>
    if c = '%' then
      match rest with
      | a :: b :: rest' =>
        match Proto.hexDigitVal a, Proto.hexDigitVal b with
        | some x, some y => UInt8.ofNat (x * 16 + y) :: pctDecode rest'
        | _, _ => 37 :: pctDecode (a :: b :: rest')
      | short => 37 :: short.map (fun d => UInt8.ofNat d.toNat)
    else UInt8.ofNat c.toNat :: pctDecode rest
termination_by l => l.length
decreasing_by all_goals (simp_all; try omega)

/-- the Unicode-free alphabet of an encoded segment -/
def urlSegChars : List Char :=
  "ABCDEFGHIJKLMNOPQRSTUVWXYZabcdefghijklmnopqrstuvwxyz0123456789-._~!$&'()*+,;=:@%".toList

/-- what the pre-fix code did: `Url::join(rel)` parses `rel` as a URL reference. Not modelled
    (WHATWG URL parsing); `urlRefHazard` names the inputs on which it demonstrably left the
    base (witnesses replayed by the engine against `url::Url::join`): a scheme prefix, a
    leading C0-control/space (trimmed, exposing a leading `/`), TAB/LF/CR (deleted), `%2e`
    spelled dots. -/
def hasSchemePrefix : Str → Bool
  | c :: rest =>
    c.isAlpha &&
      (match rest.dropWhile (fun d => d.isAlphanum || d == '+' || d == '-' || d == '.') with
       | ':' :: _ => true
       | _ => false)
  | [] => false

/-! ### line protocol

  `paths <op> code:<hex> debug:<hex|none> did:<none|u:<hex bytes>:<appendix hex>|p:<hex bytes>:<appendix hex>> cid:<hex|none>`
      op ∈ sym bin extra            -> none | cache:<hex> server:<hex> file:<hex> id:<hex> rooted:<0|1>,<0|1>
      op = codeinfo                 -> none | rel:<hex> rooted:<0|1>
      op ∈ moz-sym moz-bin moz-extra-> none | PANIC | (as above, after `moz_lookup`)
      op ∈ old-sym old-bin old-extra old-codeinfo : the pre-fix variant (model only)
  `paths mozraw server:<hex>`       -> PANIC | server:<hex>
  `paths join <unix|windows> root:<hex> rel:<hex>` -> joined:<hex> inside:<0|1>
  `paths rooted rel:<hex>`          -> rooted:<0|1>
  `paths url <sym|bin|extra|codeinfo|moz-*> base:<hex> code:.. debug:.. did:.. cid:..`
                                    -> none | path:<hex>     (path of the request URL)
  `paths urljoin base:<hex> rel:<hex>` -> none | path:<hex>
  strings are the hex of their UTF-8 bytes (`-` = empty).
-/
open Proto

def decodeStr (h : String) : Option Str := do
  let bs ← unhex h
  let s ← String.fromUTF8? (ByteArray.mk bs.toArray)
  some s.toList

def encodeStr (s : Str) : String := hex (String.ofList s).toUTF8.toList

def field (pre : String) (s : String) : Option String :=
  if s.startsWith pre then some (s.drop pre.length).toString else none

def decodeOptStr (h : String) : Option (Option Str) :=
  if h == "none" then some none else (decodeStr h).map some

def decodeDid (s : String) : Option (Option DebugId) :=
  if s == "none" then some none else
  match s.splitOn ":" with
  | [t, b, a] =>
    match unhex b, parseHexNat a with
    | some bs, some app =>
      if t == "u" then some (some ⟨false, bs, app⟩)
      else if t == "p" then some (some ⟨true, bs, app⟩)
      else none
    | _, _ => none
  | _ => none

def b01 (b : Bool) : String := if b then "1" else "0"

def showLookup (l : FileLookup) : String :=
  s!"cache:{encodeStr l.cache_rel} server:{encodeStr l.server_rel} file:{encodeStr l.debug_file} id:{encodeStr l.debug_id} rooted:{b01 (rootedb l.cache_rel)},{b01 (rootedb l.server_rel)}"

def showOptLookup : Option FileLookup → String
  | none => "none"
  | some l => showLookup l

def showMoz : Option FileLookup → String
  | none => "none"
  | some l => match mozLookup l with
    | .panic _ => "PANIC"
    | .ok l' => showLookup l'

def showRel : Option Str → String
  | none => "none"
  | some r => s!"rel:{encodeStr r} rooted:{b01 (rootedb r)}"

def parseModule (args : List String) : Option Module :=
  match args with
  | [c, d, i, k] => do
    let code ← (field "code:" c) >>= decodeStr
    let debug ← (field "debug:" d) >>= decodeOptStr
    let did ← (field "did:" i) >>= decodeDid
    let cid ← (field "cid:" k) >>= decodeOptStr
    some { code_file := code, code_id := cid, debug_file := debug, debug_id := did }
  | _ => none

def kindOf : String → Option FileKind
  | "sym" => some .BreakpadSym
  | "bin" => some .Binary
  | "extra" => some .ExtraDebugInfo
  | _ => none

def handle (_engine : String) (args : List String) : String :=
  match args with
  | ["mozraw", s] =>
    match (field "server:" s) >>= decodeStr with
    | none => "bad-op"
    | some sr =>
      match mozLookup { debug_id := [], debug_file := [], cache_rel := [], server_rel := sr } with
      | .panic _ => "PANIC"
      | .ok l => s!"server:{encodeStr l.server_rel}"
  | ["join", fl, r, s] =>
    match (if fl == "unix" then some Flavor.unix else if fl == "windows" then some Flavor.windows else none),
          (field "root:" r) >>= decodeStr, (field "rel:" s) >>= decodeStr with
    | some f, some root, some rel =>
      let j := pathJoin f root rel
      -- inside: the joined path starts with root's components and the walk over the rest never climbs
      let rc := f.comps root
      let jc := f.comps j
      let inside := !f.replaces rel && jc.take rc.length == rc && (walkDepth 0 (jc.drop rc.length)).isSome
      s!"joined:{encodeStr j} inside:{b01 inside}"
    | _, _, _ => "bad-op"
  | ["urljoin", b, s] =>
    match (field "base:" b) >>= decodeStr, (field "rel:" s) >>= decodeStr with
    | some base, some rel =>
      match joinLookupPath base rel with
      | none => "none"
      | some p => s!"path:{encodeStr p}"
    | _, _ => "bad-op"
  | "url" :: op :: b :: rest =>
    match (field "base:" b) >>= decodeStr, parseModule rest with
    | some base, some m =>
      let rel : Option (Option Str) :=
        if op == "codeinfo" then some (codeInfoBreakpadSymLookup m)
        else if op.startsWith "moz-" then
          (kindOf (op.drop 4).toString).map fun k =>
            match lookup m k with
            | none => none
            | some l => match mozLookup l with
              | .ok l' => some l'.server_rel
              | .panic _ => none
        else (kindOf op).map fun k => (lookup m k).map (·.server_rel)
      match rel with
      | none => "bad-op"
      | some none => "none"
      | some (some r) =>
        match joinLookupPath base r with
        | none => "none"
        | some p => s!"path:{encodeStr p}"
    | _, _ => "bad-op"
  | ["rooted", s] =>
    match (field "rel:" s) >>= decodeStr with
    | none => "bad-op"
    | some rel => s!"rooted:{b01 (rootedb rel)}"
  | op :: rest =>
    match parseModule rest with
    | none => "bad-op"
    | some m =>
      match op with
      | "codeinfo" => showRel (codeInfoBreakpadSymLookup m)
      | "old-codeinfo" => showRel (codeInfoLookupOld m)
      | _ =>
        if op.startsWith "moz-" then
          match kindOf (op.drop 4).toString with
          | some k => showMoz (lookup m k)
          | none => "bad-op"
        else if op.startsWith "old-" then
          match kindOf (op.drop 4).toString with
          | some k => showOptLookup (lookupOld m k)
          | none => "bad-op"
        else
          match kindOf op with
          | some k => showOptLookup (lookup m k)
          | none => "bad-op"
  | _ => "bad-op"

end MdModel.Paths
