/-
  MdModel.Paths — placeholder (model not written yet).
-/
import MdModel.Prelude
namespace MdModel.Paths

/-- line-protocol entry point of this model (engine(s): paths) -/
def handle (_engine : String) (_args : List String) : String := "bad-op"

end MdModel.Paths
