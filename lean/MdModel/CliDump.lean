/-
  MdModel.CliDump — the raw dump (`--dump`, `print_minidump_dump`, main.rs:651-764) as DATA: the
  ordered list of sections with the condition under which each is printed. `Gen.dumpStmts` is
  translated from main.rs, `Gen.streamTypes` (which stream types the library can read, and which of
  them it can print) independently from minidump/src/minidump.rs, by translators/cli_streams.py.
  This file interprets the statements over an abstract dump: for every stream TYPE whether
  `dump.get_stream::<T>()` is `Ok`, `Err(StreamNotFound)` or another error, and for the raw Linux
  streams whether `get_raw_stream` succeeds.
-/
import MdModel.Prelude
import MdModel.Gen.CliDump
namespace MdModel.Cli

/-- the result of `dump.get_stream::<T>()` -/
inductive St where
  | absent        -- Err(StreamNotFound)
  | unreadable    -- any other error
  | ok
  deriving DecidableEq, Repr

/-- a statement of `print_minidump_dump` -/
inductive Stmt where
  | header                                              -- `dump.print(output)?;`
  | preload (v t : String)                              -- `let v = dump.get_stream::<t>().ok();`
  | unify (v a va : String) (eager : Bool) (b vb : String)
      -- `let v = a.take().map(U::va).or_else(|| b.take().map(U::vb));`  (`eager`: `.or(…)`)
  | stream (t : String) (args : List String)            -- `if let Ok(x) = dump.get_stream::<t>() { x.print(output, args…)?; }`
  | var (v : String) (args : List String)               -- `if let Some(x) = v { x.print(output, args…)?; }`
  | streamOrNote (t : String)                           -- the crashpad `match` with its "cannot print invalid data" note
  | raw (n : String)                                    -- one round of the loop over the raw Linux streams
  deriving DecidableEq, Repr

def parseStmt : String × String × List String → Option Stmt
  | ("header", _, []) => some .header
  | ("preload", v, [t]) => some (.preload v t)
  | ("unify", v, [_, a, va, lz, _, b, vb]) => some (.unify v a va (lz == "or") b vb)
  | ("stream", t, args) => some (.stream t args)
  | ("var", v, args) => some (.var v args)
  | ("streamOrNote", t, []) => some (.streamOrNote t)
  | ("raw", n, []) => some (.raw n)
  | _ => none

/-- the translated statements; `none` if one of them is not understood -/
def stmts? : Option (List Stmt) := Gen.dumpStmts.mapM parseStmt
def stmts : List Stmt := stmts?.getD []

/-- what a section prints -/
inductive What where
  | header
  | typed (t : String)      -- the library's printer of stream type `t`
  | note (t : String)       -- "<t> cannot print invalid data"
  | raw (n : String)        -- main.rs's own `print_raw_stream` of the stream named `n`
  deriving DecidableEq, Repr

/-- one printed section: what is printed and with which resolved arguments -/
structure Sec where
  what : What
  args : List (String × String) -- (parameter, value): variables resolve to the stream type they hold or "-", `brief` to 0/1
  deriving DecidableEq, Repr

/-- the abstract dump -/
structure DumpEnv where
  stream : String → St          -- by rust type name
  raw : String → Bool           -- by MINIDUMP_STREAM_TYPE name

abbrev Vars := List (String × Option String)   -- variable ↦ stream type it holds (`none`: None / moved out)

def Vars.get (vs : Vars) (v : String) : Option String :=
  match vs.find? (fun p => p.1 == v) with
  | some (_, x) => x
  | none => none

def Vars.set (vs : Vars) (v : String) (x : Option String) : Vars :=
  (v, x) :: vs.filter (fun p => p.1 != v)

def resolveArg (vs : Vars) (brief : Bool) (a : String) : String × String :=
  if a == "brief" then ("brief", if brief then "1" else "0")
  else (a, (vs.get a).getD "-")

def variantType (v : String) : Option String :=
  (Gen.unifiedVariants.find? (fun p => p.1 == v)).map (·.2)

/-- `a.take().map(va).or_else(|| b.take().map(vb))` and its eager variant -/
def unify (vs : Vars) (v a va : String) (eager : Bool) (b vb : String) : Vars :=
  -- the wrapped type must be the variant's (a mismatch would not compile)
  let xa := if vs.get a == variantType va then vs.get a else none
  let xb := if vs.get b == variantType vb then vs.get b else none
  match xa with
  | some t =>
    -- `take` leaves `a` empty; with `.or(…)` the second operand is consumed as well
    let vs := vs.set a none
    let vs := if eager then vs.set b none else vs
    vs.set v (some t)
  | none =>
    let vs := vs.set b none
    vs.set v xb

/-- interpret the statements -/
def runStmts (env : DumpEnv) (brief : Bool) : List Stmt → Vars → List Sec
  | [], _ => []
  | .header :: rest, vs => ⟨.header, []⟩ :: runStmts env brief rest vs
  | .preload v t :: rest, vs =>
    runStmts env brief rest (vs.set v (if env.stream t = .ok then some t else none))
  | .unify v a va eager b vb :: rest, vs => runStmts env brief rest (unify vs v a va eager b vb)
  | .stream t args :: rest, vs =>
    (if env.stream t = .ok then [⟨.typed t, args.map (resolveArg vs brief)⟩] else [])
      ++ runStmts env brief rest vs
  | .var v args :: rest, vs =>
    (match vs.get v with
     | some t => [⟨.typed t, args.map (resolveArg vs brief)⟩]
     | none => [])
      ++ runStmts env brief rest (vs.set v none)
  | .streamOrNote t :: rest, vs =>
    (match env.stream t with
     | .ok => [⟨.typed t, []⟩]
     | .absent => []
     | .unreadable => [⟨.note t, []⟩])
      ++ runStmts env brief rest vs
  | .raw n :: rest, vs =>
    (if env.raw n then [⟨.raw n, []⟩] else []) ++ runStmts env brief rest vs

/-- the sections `--dump [--brief]` prints for an abstract dump, in order -/
def dumpSections (env : DumpEnv) (brief : Bool) : List Sec := runStmts env brief stmts []

/-- the stream types the library can print (independent list, from the minidump crate) -/
def printable : List String := (Gen.streamTypes.filter (fun p => p.2.2)).map (·.1)

/-- printable stream types `--dump` does NOT print (hand-written, visible exception list):
    `MinidumpThreadInfoList::print` exists but `print_minidump_dump` never calls it. -/
def dumpGaps : List String := ["MinidumpThreadInfoList"]

/-- the STREAM_TYPE name of a rust type -/
def streamTypeName (t : String) : Option String :=
  (Gen.streamTypes.find? (fun p => p.1 == t)).map (·.2.1)

/-- does section `s` print the stream type `t` (through the library's printer, or raw)? -/
def covers (t : String) (s : Sec) : Bool :=
  s.what == .typed t || (match streamTypeName t with | some n => s.what == .raw n | none => false)

/-! ### line protocol
    `cli dumpsecs b:<0|1> ok:<types|-> bad:<types|-> raw:<names|->`   (comma separated)
    answer: sections joined with `;`, each `what[param=value,…]` -/

def What.render : What → String
  | .header => "header"
  | .typed t => t
  | .note t => "note:" ++ t
  | .raw n => "raw:" ++ n

def Sec.render (s : Sec) : String :=
  if s.args.isEmpty then s.what.render
  else s.what.render ++ "[" ++ ",".intercalate (s.args.map fun p => p.1 ++ "=" ++ p.2) ++ "]"

def listOf (s : String) : List String := if s == "-" then [] else Proto.pieces s ","

def handleDump (args : List String) : String :=
  match args with
  | [b, ok, bad, raw] =>
    match b, ok.startsWith "ok:", bad.startsWith "bad:", raw.startsWith "raw:" with
    | "b:0", true, true, true | "b:1", true, true, true =>
      if stmts?.isNone then "bad-table" else
      let oks := listOf (ok.drop 3).toString
      let bads := listOf (bad.drop 4).toString
      let raws := listOf (raw.drop 4).toString
      let env : DumpEnv := {
        stream := fun t => if oks.contains t then .ok else if bads.contains t then .unreadable else .absent,
        raw := fun n => raws.contains n }
      ";".intercalate ((dumpSections env (b == "b:1")).map Sec.render)
    | _, _, _, _ => "bad-op"
  | _ => "bad-op"

end MdModel.Cli
