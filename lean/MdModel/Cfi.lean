/-
  MdModel.Cfi — model of STACK CFI evaluation:
    * `parse_cfi_exprs`, `eval_cfi_expr`, `walk_with_stack_cfi`   (breakpad-symbols/src/sym_file/walker.rs:493-728)
    * the rule selection of `SymbolFile::walk_frame`                (breakpad-symbols/src/sym_file/mod.rs:493-521)
    * `finish_item`'s `add_rules.sort()` and `StackInfoCfi::memory_range` (parser.rs:682-687, types.rs:181-190)
  parameterised by a `Walker` record — the twin of the mock `FrameWalker` in
  harness/src/engines/cfi.rs, itself shaped after `CfiStackWalker` (minidump-unwind/src/lib.rs:604-652):
  callee registers by (aliased) name, a byte image of stack memory read in pointer-sized
  little-endian words, a pointer width that bounds every value written to the caller, and the
  caller registers forwarded from the callee.

  Text is `List UInt8` (the Rust code works on the bytes of an ASCII format). An expression is kept as
  its list of whitespace separated tokens: `parse_cfi_exprs` hands `eval_cfi_expr` the substring from
  the first to the last token of a rule, which `split_ascii_whitespace` splits into those same tokens.
-/
import MdModel.Prelude
namespace MdModel.Cfi
open MdModel

abbrev Bytes := List UInt8
abbrev Name := List UInt8

/-! ### tokens -/

/-- `u8::is_ascii_whitespace`: space, `\t`, `\n`, form feed, `\r`. -/
def isWs (b : UInt8) : Bool := b == 0x20 || b == 0x09 || b == 0x0A || b == 0x0C || b == 0x0D

/-- `str::split_ascii_whitespace`; `cur` is the token being accumulated (reversed). -/
def splitWsAux : Bytes → Bytes → List Bytes
  | [], cur => if cur.isEmpty then [] else [cur.reverse]
  | b :: rest, cur =>
    if isWs b then
      if cur.isEmpty then splitWsAux rest [] else cur.reverse :: splitWsAux rest []
    else splitWsAux rest (b :: cur)

def splitWs (s : Bytes) : List Bytes := splitWsAux s []

inductive BinOp where
  | add | sub | mul | div | rem | align
  deriving DecidableEq, Repr

/-- What a token of an expression means (the `match token` of `eval_cfi_expr`). -/
inductive Tok where
  | bin (o : BinOp)
  | deref
  | cfa
  | undef
  | lit (v : UInt64)
  /-- a callee register: `…$name` (text after the first `$`) or a bare `name`;
      a name the walker does not know makes the rule fail -/
  | reg (n : Name)
  deriving DecidableEq, Repr

def tPlus : Bytes := [0x2B]
def tMinus : Bytes := [0x2D]
def tStar : Bytes := [0x2A]
def tSlash : Bytes := [0x2F]
def tPercent : Bytes := [0x25]
def tAt : Bytes := [0x40]
def tCaret : Bytes := [0x5E]
def tCfa : Bytes := [0x2E, 0x63, 0x66, 0x61]
def tRa : Bytes := [0x2E, 0x72, 0x61]
def tUndef : Bytes := [0x2E, 0x75, 0x6E, 0x64, 0x65, 0x66]

/-- `token.split_once('$')` keeping the part after the first `$`. -/
def afterDollar : Bytes → Option Bytes
  | [] => none
  | b :: rest => if b == 0x24 then some rest else afterDollar rest

def digitVal (b : UInt8) : Option Nat :=
  if 0x30 ≤ b ∧ b ≤ 0x39 then some (b.toNat - 0x30) else none

/-- all bytes are ASCII digits: their decimal value (unbounded), starting from `acc`. -/
def parseDigits : Bytes → Nat → Option Nat
  | [], acc => some acc
  | b :: rest, acc =>
    match digitVal b with
    | some d => parseDigits rest (acc * 10 + d)
    | none => none

/-- `i64::from_str(token)` followed by `as u64`: an optional single `+`/`-`, at least one digit,
    digits only, value within `i64`; the result is the two's complement bit pattern. -/
def parseI64 (t : Bytes) : Option UInt64 :=
  match t with
  | [] => none
  | b :: rest =>
    if b == 0x2D then
      if rest.isEmpty then none else
      match parseDigits rest 0 with
      | some n => if n ≤ 2^63 then some (UInt64.ofNat (2^64 - n)) else none
      | none => none
    else if b == 0x2B then
      if rest.isEmpty then none else
      match parseDigits rest 0 with
      | some n => if n < 2^63 then some (UInt64.ofNat n) else none
      | none => none
    else
      match parseDigits t 0 with
      | some n => if n < 2^63 then some (UInt64.ofNat n) else none
      | none => none

/-- The order of the `match` in `eval_cfi_expr`: the seven operators, `.cfa`, `.undef`, then a
    token containing `$` is the register named after the first `$`, else an `i64` literal, else a
    bare register name. -/
def classify (t : Bytes) : Tok :=
  if t = tPlus then .bin .add
  else if t = tMinus then .bin .sub
  else if t = tStar then .bin .mul
  else if t = tSlash then .bin .div
  else if t = tPercent then .bin .rem
  else if t = tAt then .bin .align
  else if t = tCaret then .deref
  else if t = tCfa then .cfa
  else if t = tUndef then .undef
  else match afterDollar t with
    | some n => .reg n
    | none =>
      match parseI64 t with
      | some v => .lit v
      | none => .reg t

/-! ### expression evaluation -/

/-- What an expression can observe of the callee (`get_callee_register`, `get_register_at_address`). -/
structure Env where
  reg : Name → Option UInt64
  deref : UInt64 → Option UInt64

/-- `u64::is_power_of_two` (exactly one bit set). -/
def isPow2 (x : UInt64) : Bool := (List.range 64).any fun k => x == (1 : UInt64) <<< (UInt64.ofNat k)

def allOnes : UInt64 := 0xFFFFFFFFFFFFFFFF

/-- `lhs & (-1i64 as u64 ^ (rhs - 1))` -/
def alignDown (l r : UInt64) : UInt64 := l &&& (allOnes ^^^ (r - 1))

/-- One binary operator on `lhs`, `rhs` (wrapping `u64` arithmetic; `/` `%` unsigned;
    division by zero and alignment to a non-power-of-two fail). -/
def applyBin (o : BinOp) (l r : UInt64) : Option UInt64 :=
  match o with
  | .add => some (l + r)
  | .sub => some (l - r)
  | .mul => some (l * r)
  | .div => if r = 0 then none else some (l / r)
  | .rem => if r = 0 then none else some (l % r)
  | .align => if r = 0 || !isPow2 r then none else some (alignDown l r)

/-- The value stack; the head is the top (`Vec::pop` takes the head). -/
abbrev Stack := List UInt64

def step (env : Env) (cfa : Option UInt64) (t : Tok) (st : Stack) : Option Stack :=
  match t with
  | .bin o =>
    match st with
    | r :: l :: rest => (applyBin o l r).map (· :: rest)
    | _ => none
  | .deref =>
    match st with
    | p :: rest => (env.deref p).map (· :: rest)
    | _ => none
  | .cfa => cfa.map (· :: st)
  | .undef => none
  | .lit v => some (v :: st)
  | .reg n => (env.reg n).map (· :: st)

def run (env : Env) (cfa : Option UInt64) : List Tok → Stack → Option Stack
  | [], st => some st
  | t :: ts, st =>
    match step env cfa t st with
    | some st' => run env cfa ts st'
    | none => none

/-- the final `if stack.len() == 1 { stack.pop() } else { None }` -/
def single : Option Stack → Option UInt64
  | some [v] => some v
  | _ => none

def evalToks (env : Env) (cfa : Option UInt64) (ts : List Tok) : Option UInt64 :=
  single (run env cfa ts [])

/-- `eval_cfi_expr(expr, walker, cfa)` on the tokens of `expr`. -/
def evalCfi (env : Env) (cfa : Option UInt64) (toks : List Bytes) : Option UInt64 :=
  evalToks env cfa (toks.map classify)

/-! #### the same evaluator with every Rust operation that can panic made explicit
  The only such site in `eval_cfi_expr` is `rhs - 1` in the `@` arm (checked subtraction in a
  build with overflow checks). `evalCfiO_eq` (MdProofs) shows the panic outcome is unreachable and
  that the two evaluators agree; the driver runs this one. -/

def checkedSub (a b : UInt64) (site : String) : Outcome UInt64 :=
  if a < b then .panic site else .ok (a - b)

def applyBinO (o : BinOp) (l r : UInt64) : Outcome (Option UInt64) :=
  match o with
  | .align =>
    if r = 0 || !isPow2 r then .ok none else
    match checkedSub r 1 "eval_cfi_expr: rhs - 1" with
    | .ok m => .ok (some (l &&& (allOnes ^^^ m)))
    | .panic s => .panic s
  | o => .ok (applyBin o l r)

def stepO (env : Env) (cfa : Option UInt64) (t : Tok) (st : Stack) : Outcome (Option Stack) :=
  match t, st with
  | .bin o, r :: l :: rest =>
    match applyBinO o l r with
    | .ok v => .ok (v.map (· :: rest))
    | .panic s => .panic s
  | t, st => .ok (step env cfa t st)

def runO (env : Env) (cfa : Option UInt64) : List Tok → Stack → Outcome (Option Stack)
  | [], st => .ok (some st)
  | t :: ts, st =>
    match stepO env cfa t st with
    | .ok (some st') => runO env cfa ts st'
    | .ok none => .ok none
    | .panic s => .panic s

def evalCfiO (env : Env) (cfa : Option UInt64) (toks : List Bytes) : Outcome (Option UInt64) :=
  match runO env cfa (toks.map classify) [] with
  | .ok r => .ok (single r)
  | .panic s => .panic s

/-! ### `REG: EXPR` splitting -/

inductive CfiReg where
  | cfa
  | ra
  | other (n : Name)
  deriving DecidableEq, Repr

abbrev Expr := List Bytes
/-- The `HashMap<CfiReg, &str>`: at most one entry per key. -/
abbrev RuleMap := List (CfiReg × Expr)

/-- `HashMap::insert`: replaces an existing entry of the key. -/
def RuleMap.insert (m : RuleMap) (k : CfiReg) (e : Expr) : RuleMap :=
  (k, e) :: m.filter (fun p => p.1 ≠ k)

def RuleMap.get (m : RuleMap) (k : CfiReg) : Option Expr :=
  (m.find? (fun p => p.1 = k)).map (·.2)

/-- `token.strip_suffix(':')` -/
def stripColon (t : Bytes) : Option Bytes :=
  match t.reverse with
  | b :: rest => if b == 0x3A then some rest.reverse else none
  | [] => none

/-- which register a `REG:` label (colon already stripped) names -/
def labelOf (t : Bytes) : CfiReg :=
  if t = tCfa then .cfa
  else if t = tRa then .ra
  else match t with
    | b :: rest => if b == 0x24 then .other rest else .other t
    | [] => .other t

/-- The loop of `parse_cfi_exprs`: `cur` is `cur_reg`, `expr` the tokens between `expr_first` and
    `expr_last` (empty ⇔ both `None`). -/
def parseLoop : List Bytes → Option CfiReg → Expr → RuleMap → Option RuleMap
  | [], cur, expr, out =>
    if expr.isEmpty then none else
    match cur with
    | some r => some (out.insert r expr)
    | none => none
  | tok :: rest, cur, expr, out =>
    match stripColon tok with
    | some name =>
      match cur with
      | some r =>
        if expr.isEmpty then none
        else parseLoop rest (some (labelOf name)) [] (out.insert r expr)
      | none => parseLoop rest (some (labelOf name)) [] out
    | none =>
      match cur with
      | none => none
      | some _ => parseLoop rest cur (expr ++ [tok]) out

/-- `parse_cfi_exprs(input, &mut output)` -/
def parseCfiExprs (input : Bytes) (out : RuleMap) : Option RuleMap :=
  parseLoop (splitWs input) none [] out

/-- all rule lines, INIT first, into one map -/
def parseAll : List Bytes → RuleMap → Option RuleMap
  | [], m => some m
  | l :: ls, m =>
    match parseCfiExprs l m with
    | some m' => parseAll ls m'
    | none => none

/-! ### the frame walker (mock twin) -/

/-- The caller's frame as the walker records it. -/
structure Caller where
  cfa : Option UInt64
  ra : Option UInt64
  /-- valid caller registers (canonical names, at most one entry per name) -/
  regs : List (Name × UInt64)
  deriving Repr

structure Walker where
  /-- `get_instruction()` -/
  instr : Nat
  /-- register width in bytes (4 or 8): width of memory reads, bound of values written -/
  ptr : Nat
  /-- canonical register names (`memoize_register` succeeds on them) -/
  known : List Name
  /-- alias ↦ canonical name (`fp` ↦ `x29` …) -/
  aliases : List (Name × Name)
  /-- valid callee registers by canonical name -/
  callee : List (Name × UInt64)
  memBase : Nat
  mem : Bytes
  /-- the caller's registers before CFI runs (callee-saved registers forwarded verbatim) -/
  fwd : List (Name × UInt64)
  /-- the memory image is read big-endian (`get_memory_at_address` uses the dump's byte order) -/
  be : Bool := false

def lookupName {α} (l : List (Name × α)) (n : Name) : Option α :=
  (l.find? (fun p => p.1 = n)).map (·.2)

/-- `memoize_register`: canonical name of a register name, `None` when unknown. -/
def Walker.memo (w : Walker) (n : Name) : Option Name :=
  if w.known.contains n then some n else
  match lookupName w.aliases n with
  | some c => if w.known.contains c then some c else none
  | none => none

def Walker.getCallee (w : Walker) (n : Name) : Option UInt64 :=
  match w.memo n with
  | some c => lookupName w.callee c
  | none => none

/-- little-endian value of a byte string -/
def leVal : Bytes → Nat
  | [] => 0
  | b :: rest => b.toNat + 256 * leVal rest

/-- big-endian value of a byte string -/
def beVal : Bytes → Nat
  | [] => 0
  | b :: rest => b.toNat * 256 ^ rest.length + beVal rest

/-- `get_register_at_address`: a pointer-sized read (little-endian unless `be`) that must lie
    inside the image. -/
def Walker.readMem (w : Walker) (a : UInt64) : Option UInt64 :=
  if a.toNat < w.memBase then none else
  let off := a.toNat - w.memBase
  if off + w.ptr ≤ w.mem.length then
    some (UInt64.ofNat (if w.be then beVal ((w.mem.drop off).take w.ptr) else leVal ((w.mem.drop off).take w.ptr)))
  else none

def Walker.env (w : Walker) : Env := ⟨w.getCallee, w.readMem⟩

/-- `C::Register::try_from(val).ok()` succeeds -/
def Walker.fits (w : Walker) (v : UInt64) : Bool := v.toNat < 2 ^ (8 * w.ptr)

def Walker.caller0 (w : Walker) : Caller := ⟨none, none, w.fwd⟩

def Walker.setCfa (w : Walker) (c : Caller) (v : UInt64) : Option Caller :=
  if w.fits v then some { c with cfa := some v } else none

def Walker.setRa (w : Walker) (c : Caller) (v : UInt64) : Option Caller :=
  if w.fits v then some { c with ra := some v } else none

def eraseName (l : List (Name × UInt64)) (n : Name) : List (Name × UInt64) :=
  l.filter (fun p => p.1 ≠ n)

/-- `set_caller_register`: `None` (nothing changes) for an unknown name or a value that does not
    fit the register width. -/
def Walker.setReg (w : Walker) (c : Caller) (n : Name) (v : UInt64) : Option Caller :=
  match w.memo n with
  | none => none
  | some m => if w.fits v then some { c with regs := (m, v) :: eraseName c.regs m } else none

/-- `clear_caller_register` -/
def Walker.clearReg (w : Walker) (c : Caller) (n : Name) : Caller :=
  match w.memo n with
  | none => c
  | some m => { c with regs := eraseName c.regs m }

def Caller.get (c : Caller) (n : Name) : Option UInt64 := lookupName c.regs n

/-! ### `walk_with_stack_cfi` -/

/-- `str::cmp`: bytewise lexicographic, a proper prefix first. -/
def bytesLe : Bytes → Bytes → Bool
  | [], _ => true
  | _ :: _, [] => false
  | a :: as, b :: bs => if a < b then true else if b < a then false else bytesLe as bs

def insertBy {α} (le : α → α → Bool) (x : α) : List α → List α
  | [] => [x]
  | y :: ys => if le x y then x :: y :: ys else y :: insertBy le x ys

/-- insertion sort (stable: an element is placed before the first strictly greater one is not needed
    here — the keys sorted by it are pairwise distinct or the elements identical). -/
def sortBy {α} (le : α → α → Bool) : List α → List α
  | [] => []
  | x :: xs => insertBy le x (sortBy le xs)

/-- the entries of the map that are neither `.cfa` nor `.ra` -/
def others : RuleMap → List (Name × Expr)
  | [] => []
  | (.other n, e) :: rest => (n, e) :: others rest
  | _ :: rest => others rest

/-- `exprs.sort_by(name)` (walker.rs:531-535). -/
def sortOthers (l : List (Name × Expr)) : List (Name × Expr) :=
  sortBy (fun a b => bytesLe a.1 b.1) l

/-- one iteration of the loop over the remaining rules: set on success; a failing
    `set_caller_register` (value does not fit the register, or unknown name) clears the register
    like a rule that failed to evaluate (fix 15b778b); clear on failure -/
def applyOther (w : Walker) (cfa : UInt64) (c : Caller) (r : Name × Expr) : Caller :=
  match evalCfi w.env (some cfa) r.2 with
  | some v =>
    match w.setReg c r.1 v with
    | some c' => c'
    | none => w.clearReg c r.1
  | none => w.clearReg c r.1

/-- `walk_with_stack_cfi(init, additional, walker)`; `lines` = INIT rules :: the selected deltas.
    The iteration order of the hash map is `others m` (any order: see `C06.order_independent`). -/
def walkCfi (w : Walker) (lines : List Bytes) : Option Caller :=
  match parseAll lines [] with
  | none => none
  | some m =>
    match m.get .cfa, m.get .ra with
    | some cfaE, some raE =>
      match evalCfi w.env none cfaE with
      | none => none
      | some cfa =>
        match evalCfi w.env (some cfa) raE with
        | none => none
        | some ra =>
          match w.setCfa w.caller0 cfa with
          | none => none
          | some c1 =>
            match w.setRa c1 ra with
            | none => none
            | some c2 => some ((sortOthers (others m)).foldl (applyOther w cfa) c2)
    | _, _ => none

/-! #### the same with the panic sites explicit (`unreachable!()` for a `.cfa`/`.ra` key left in
  the map after both were removed, and the evaluator's checked subtraction) -/

def applyOtherO (w : Walker) (cfa : UInt64) (c : Caller) (r : CfiReg × Expr) : Outcome Caller :=
  match r.1 with
  | .other n =>
    match evalCfiO w.env (some cfa) r.2 with
    | .ok (some v) =>
      match w.setReg c n v with
      | some c' => .ok c'
      | none => .ok (w.clearReg c n)
    | .ok none => .ok (w.clearReg c n)
    | .panic s => .panic s
  | _ => .panic "walk_with_stack_cfi: unreachable!()"

def foldO {α β} (f : β → α → Outcome β) : List α → β → Outcome β
  | [], b => .ok b
  | a :: as, b =>
    match f b a with
    | .ok b' => foldO f as b'
    | .panic s => .panic s

def RuleMap.remove (m : RuleMap) (k : CfiReg) : RuleMap := m.filter (fun p => p.1 ≠ k)

/-- sort key of the remaining entries: `Other(a)` vs `Other(b)` by name, anything else `Equal` -/
def regLe : CfiReg × Expr → CfiReg × Expr → Bool
  | (.other a, _), (.other b, _) => bytesLe a b
  | _, _ => true

def walkCfiO (w : Walker) (lines : List Bytes) : Outcome (Option Caller) :=
  match parseAll lines [] with
  | none => .ok none
  | some m =>
    match m.get .cfa with
    | none => .ok none
    | some cfaE =>
      let m1 := m.remove .cfa
      match m1.get .ra with
      | none => .ok none
      | some raE =>
        let m2 := m1.remove .ra
        match evalCfiO w.env none cfaE with
        | .panic s => .panic s
        | .ok none => .ok none
        | .ok (some cfa) =>
          match evalCfiO w.env (some cfa) raE with
          | .panic s => .panic s
          | .ok none => .ok none
          | .ok (some ra) =>
            match w.setCfa w.caller0 cfa with
            | none => .ok none
            | some c1 =>
              match w.setRa c1 ra with
              | none => .ok none
              | some c2 =>
                match foldO (applyOtherO w cfa) (sortBy regLe m2) c2 with
                | .ok c => .ok (some c)
                | .panic s => .panic s

/-! ### rule selection (`SymbolFile::walk_frame`) -/

/-- one `STACK CFI INIT` record with its `STACK CFI` delta records in file order -/
structure CfiRec where
  addr : Nat
  size : Nat
  init : Bytes
  adds : List (Nat × Bytes)

/-- derived `Ord` of `CfiRules`: by address, then by the rule text -/
def ruleLe (a b : Nat × Bytes) : Bool :=
  a.1 < b.1 || (a.1 == b.1 && bytesLe a.2 b.2)

/-- `finish_item`: `cur.add_rules.sort()` -/
def sortAdds (l : List (Nat × Bytes)) : List (Nat × Bytes) := sortBy ruleLe l

/-- `StackInfoCfi::memory_range().contains(addr)`: `None` for size 0 or an end beyond `u64`
    (the record is then not in the table at all). -/
def CfiRec.covers (r : CfiRec) (a : Nat) : Bool :=
  r.size != 0 && r.addr + r.size ≤ U64MAX && r.addr ≤ a && a ≤ r.addr + r.size - 1

/-- the `while count < len && add_rules[count].address <= addr` prefix -/
def selectAdds (sorted : List (Nat × Bytes)) (a : Nat) : List (Nat × Bytes) :=
  sorted.takeWhile (fun r => r.1 ≤ a)

/-- the rule lines handed to `walk_with_stack_cfi` for module-relative address `a` -/
def linesAt (r : CfiRec) (a : Nat) : List Bytes :=
  r.init :: (selectAdds (sortAdds r.adds) a).map (·.2)

/-- `SymbolFile::walk_frame` on a symbol file whose only unwind record is `r`. -/
def walkFrame (r : CfiRec) (base : Nat) (w : Walker) : Option Caller :=
  if w.instr < base then none else
  let a := w.instr - base
  if r.covers a then walkCfi w (linesAt r a) else none

def walkFrameO (r : CfiRec) (base : Nat) (w : Walker) : Outcome (Option Caller) :=
  if w.instr < base then .ok none else
  let a := w.instr - base
  if r.covers a then walkCfiO w (linesAt r a) else .ok none

/-! ### line protocol
  `cfi walk base:<n> instr:<n> ptr:<4|8> init:<addr>:<size>:<hex rules> adds:<addr>:<hex>;…|-
            known:<name,…|-> alias:<a=c,…|-> callee:<name=val,…|-> fwd:<name=val,…|-> mem:<base>:<hex>`
  (numbers decimal, register names of the walker plain ASCII)
  answer: `none` | `some cfa=<n> ra=<n> regs:<name=val,…>` (valid caller registers sorted by name) | `PANIC`
-/
open Proto

def nameOf (s : String) : Name := s.toUTF8.toList
def showName (n : Name) : String := String.ofList (n.map fun b => Char.ofNat b.toNat)

def stripKey (key : String) (s : String) : Option String :=
  if s.startsWith key then some ((s.drop key.length).toString) else none

def parsePairs (s : String) : Option (List (Name × Nat)) :=
  if s == "-" then some [] else
  (s.splitOn ",").mapM fun p =>
    match p.splitOn "=" with
    | [n, v] => if n.isEmpty then none else (optNat v).map fun x => (nameOf n, x)
    | _ => none

def parseAlias (s : String) : Option (List (Name × Name)) :=
  if s == "-" then some [] else
  (s.splitOn ",").mapM fun p =>
    match p.splitOn "=" with
    | [a, c] => if a.isEmpty || c.isEmpty then none else some (nameOf a, nameOf c)
    | _ => none

def parseNames (s : String) : Option (List Name) :=
  if s == "-" then some [] else
  (s.splitOn ",").mapM fun p => if p.isEmpty then none else some (nameOf p)

def parseAdds (s : String) : Option (List (Nat × Bytes)) :=
  if s == "-" then some [] else
  (s.splitOn ";").mapM fun p =>
    match p.splitOn ":" with
    | [a, h] => match optNat a, unhex h with
      | some a, some b => some (a, b)
      | _, _ => none
    | _ => none

def u64s (l : List (Name × Nat)) : Option (List (Name × UInt64)) :=
  l.mapM fun (n, v) => if v ≤ U64MAX then some (n, UInt64.ofNat v) else none

def showCaller (c : Caller) : String :=
  let regs := sortBy (fun (a b : Name × UInt64) => bytesLe a.1 b.1) c.regs
  let f (o : Option UInt64) : String := match o with | some v => toString v.toNat | none => "-"
  s!"some cfa={f c.cfa} ra={f c.ra} regs:" ++
    joinWith "," (regs.map fun (n, v) => s!"{showName n}={v.toNat}")

/-- The rules text as the symbol-file parser stores it: the `space1` after the last hex field
    swallows every leading space/tab of the rest of the line (parser.rs `stack_cfi`,
    `stack_cfi_init`); the request carries the text as written in the file. -/
def storedRules (text : Bytes) : Bytes := text.dropWhile fun b => b == 0x20 || b == 0x09

/-- the fields shared by `walk` and `stack` requests -/
def parseWalkArgs (base instr ptr init adds known al callee fwd mem : String) :
    Option (CfiRec × Nat × Walker) := do
  let base ← (stripKey "base:" base).bind optNat
  let instr ← (stripKey "instr:" instr).bind optNat
  let ptr ← (stripKey "ptr:" ptr).bind optNat
  let init ← stripKey "init:" init
  let (ia, isz, irules) ← match init.splitOn ":" with
    | [a, s, h] => match optNat a, optNat s, unhex h with
      | some a, some s, some h => some (a, s, h)
      | _, _, _ => none
    | _ => none
  let adds ← (stripKey "adds:" adds).bind parseAdds
  let known ← (stripKey "known:" known).bind parseNames
  let al ← (stripKey "alias:" al).bind parseAlias
  let callee ← ((stripKey "callee:" callee).bind parsePairs).bind u64s
  let fwd ← ((stripKey "fwd:" fwd).bind parsePairs).bind u64s
  let mem ← stripKey "mem:" mem
  let (mb, mbytes) ← match mem.splitOn ":" with
    | [b, h] => match optNat b, unhex h with
      | some b, some h => some (b, h)
      | _, _ => none
    | _ => none
  if !(ptr == 4 || ptr == 8) || instr > U64MAX || base > U64MAX || ia > U64MAX || isz > U32MAX
      || mb > U64MAX || adds.any (fun a => a.1 > U64MAX) then none else
  some (⟨ia, isz, storedRules irules, adds.map fun (a, t) => (a, storedRules t)⟩, base, ⟨instr, ptr, known, al, callee, mb, mbytes, fwd, false⟩)

/-! register names of the `stack` cases as byte strings (`fp`, `lr`; sp / ip per architecture) -/
def nFp : Name := [0x66, 0x70]
def nLr : Name := [0x6C, 0x72]
def nEsp : Name := [0x65, 0x73, 0x70]
def nEip : Name := [0x65, 0x69, 0x70]
def nRsp : Name := [0x72, 0x73, 0x70]
def nRip : Name := [0x72, 0x69, 0x70]
def nSp : Name := [0x73, 0x70]
def nPc : Name := [0x70, 0x63]

/-- What the per-architecture glue of minidump-unwind (`get_caller_by_cfi`, `get_caller_frame`,
    the stack-pointer test of `walk_stack`) does around `walk_frame`, as far as the `stack` cases
    observe it: the callee's sp must lie in the stack memory; ARM64 strips pointer-authentication
    bits from pc/lr/fp; a caller whose pc is below 4096 or whose sp did not grow is dropped
    (ARM: an equal sp is allowed for the context frame).
    `memory_range()` is `None` for an empty memory and when `base.checked_add(size)` overflows
    (`base + size > u64::MAX`). `MdProofs.C06Env.stack_entry_eq_walker`: together with `stackFrame`
    below this is the walker model's in-range test, `get_caller_by_cfi` and epilogue. -/
def stackGlue (w : Walker) (sp : Nat) (leaf : Bool) (strip : Option UInt64) (r : Option Caller) :
    Option Caller :=
  if w.mem.isEmpty || w.memBase + w.mem.length > U64MAX || sp < w.memBase
      || sp > w.memBase + w.mem.length - 1 then none else
  match r with
  | none => none
  | some c =>
    let c : Caller := match strip with
      | none => c
      | some m => { cfa := c.cfa, ra := c.ra.map (· &&& m),
                    regs := c.regs.map fun (n, v) =>
                      if n = nFp || n = nLr then (n, v &&& m) else (n, v) }
    match c.cfa, c.ra with
    | some cfa, some ra =>
      if ra.toNat < 4096 then none
      else if cfa.toNat ≤ sp && !(leaf && cfa.toNat == sp) then none
      else some c
    | _, _ => none

/-- stack-pointer and instruction-pointer register names of the `stack` cases' architectures -/
def spIpOfArch (a : String) : Option (Name × Name) :=
  if a = "x86" then some (nEsp, nEip)
  else if a = "amd64" then some (nRsp, nRip)
  else if a = "arm64" then some (nSp, nPc)
  else none

def spIpNames (arch : String) : Option (Name × Name) :=
  spIpOfArch ((stripKey "arch:" arch).getD arch)

/-- the caller's register file after `set_cfa(cfa); set_ra(ra)` of `CfiStackWalker`: the two values
    are caller registers like any other (`MdProofs.C06Walk`'s `seedFwd` is this list) -/
def storeCfaRa (spN ipN : Name) (fwd : List (Name × UInt64)) (cfa ra : UInt64) : List (Name × UInt64) :=
  (ipN, ra) :: eraseName ((spN, cfa) :: eraseName fwd spN) ipN

/-- frame 1 of a `stack` case, from the CFA / return address of the first `walk_frame` and the
    result `c1` of the second one (CFA and RA stored as caller registers): sp / ip are read raw by
    the unwinders (a cleared register keeps its last value), reported as `-` when not valid -/
def stackOf (w : Walker) (spN ipN : Name) (sp : Nat) (leaf : Bool) (strip : Option UInt64)
    (cfa ra : UInt64) (c1 : Caller) : Option Caller :=
  let spV := c1.get spN
  let ipV := c1.get ipN
  let raw : Caller := { cfa := some (spV.getD cfa), ra := some (ipV.getD ra),
                        regs := eraseName (eraseName c1.regs spN) ipN }
  match stackGlue w sp leaf strip (some raw) with
  | none => none
  | some c => some { c with cfa := if spV.isSome then c.cfa else none,
                            ra := if ipV.isSome then c.ra else none }

/-- the `stack` protocol entry as a pure function: `get_caller_by_cfi` needs a valid callee stack
    pointer; `CfiStackWalker::set_cfa` / `set_ra` store the CFA and the return address IN the
    stack-pointer and instruction-pointer registers, where a rule labelled with one of them
    overwrites or clears it — hence the second walk with the two stored as caller registers -/
def stackFrame (r : CfiRec) (base : Nat) (w : Walker) (spN ipN : Name) (sp : Nat) (leaf : Bool)
    (strip : Option UInt64) : Option Caller :=
  if (w.getCallee spN).isNone then none else
  match walkFrame r base w with
  | none => none
  | some c0 =>
    match c0.cfa, c0.ra with
    | some cfa, some ra =>
      match walkFrame r base { w with fwd := storeCfaRa spN ipN w.fwd cfa ra } with
      | none => none
      | some c1 => stackOf w spN ipN sp leaf strip cfa ra c1
    | _, _ => none

/-- the same with the panic sites of the two walks explicit (what the driver runs) -/
def stackFrameO (r : CfiRec) (base : Nat) (w : Walker) (spN ipN : Name) (sp : Nat) (leaf : Bool)
    (strip : Option UInt64) : Outcome (Option Caller) :=
  if (w.getCallee spN).isNone then .ok none else
  match walkFrameO r base w with
  | .panic s => .panic s
  | .ok none => .ok none
  | .ok (some c0) =>
    match c0.cfa, c0.ra with
    | some cfa, some ra =>
      match walkFrameO r base { w with fwd := storeCfaRa spN ipN w.fwd cfa ra } with
      | .panic s => .panic s
      | .ok none => .ok none
      | .ok (some c1) => .ok (stackOf w spN ipN sp leaf strip cfa ra c1)
    | _, _ => .ok none

def handle (_engine : String) (args : List String) : String :=
  match args with
  | ["walk", base, instr, ptr, init, adds, known, al, callee, fwd, mem] =>
    match parseWalkArgs base instr ptr init adds known al callee fwd mem with
    | none => "bad-op"
    | some (r, base, w) =>
      match walkFrameO r base w with
      | .panic _ => "PANIC"
      | .ok none => "none"
      | .ok (some c) => showCaller c
  | ["stack", _arch, base, instr, ptr, init, adds, known, al, callee, fwd, mem, sp, leaf, strip] =>
    match parseWalkArgs base instr ptr init adds known al callee fwd mem,
          (stripKey "sp:" sp).bind optNat, stripKey "leaf:" leaf, stripKey "strip:" strip with
    | some (r, base, w), some sp, some leaf, some strip =>
      let strip? : Option (Option UInt64) :=
        if strip == "-" then some none else
        match optNat strip with
        | some m => if m ≤ U64MAX then some (some (UInt64.ofNat m)) else none
        | none => none
      match strip?, leaf == "0" || leaf == "1", spIpNames _arch with
      | some strip, true, some (spN, ipN) =>
        match stackFrameO r base w spN ipN sp (leaf == "1") strip with
        | .panic _ => "PANIC"
        | .ok none => "nocfi"
        | .ok (some c) => showCaller c
      | _, _, _ => "bad-op"
    | _, _, _, _ => "bad-op"
  | _ => "bad-op"

end MdModel.Cfi
