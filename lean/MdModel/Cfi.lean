/-
  MdModel.Cfi — placeholder (model not written yet).
-/
import MdModel.Prelude
namespace MdModel.Cfi

/-- line-protocol entry point of this model (engine(s): cfi) -/
def handle (_engine : String) (_args : List String) : String := "bad-op"

end MdModel.Cfi
