/-
  MdModel.DumpRegs — the registers of a CPU context READ FROM BYTES, in C18's representation.

  `MdModel.DumpCtx.contextRead` yields the scalars of the CONTEXT_* record in layout order
  (layouts generated from format.rs by translators/layouts_c01x.py). `MdModel.Regs` (C18) interprets
  the register tables generated from context.rs by translators/regs.py over a register file
  `State = Cell → Nat`, a cell being `field` or `field[i]`. This file connects the two:

    `regsCtxOf`   the C18 context type of a context kind (`MinidumpRawContext` variant),
    `regState`    the register file of a read context: the cell `field[i]` holds the scalar the
                  generated layout calls `field[i]` (the spelling `MdModel.Regs.showCell` produces),
    `ctxRegisters` = what the engine compares per context:
        MinidumpContext::valid_registers() [context.rs 1286] (validity `All`, which is what
            `MinidumpContext::read` [1081] sets), get_register(name) for every general-purpose
            register, register_size(), format_register(first / last general-purpose register).

  Theorem `context_registers_spec` (MdProofs.C01): every named register of a context read from
  bytes is the little/big-endian word at the field's offset in those bytes — so C18's theorems
  (names ↔ cells, aliases, validity sets, enumerations) apply to contexts coming out of a dump.
-/
import MdModel.DumpCtx
import MdModel.Regs
namespace MdModel.Dump
open MdModel
open MdModel.Gen.Layouts (Layout)

/-- the `md::CONTEXT_*` type carried by a `MinidumpRawContext` variant -/
def regsCtxOf : CtxKind → Gen.Regs.Ctx
  | .x86 => .X86 | .amd64 => .AMD64 | .ppc => .PPC | .ppc64 => .PPC64 | .sparc => .SPARC
  | .arm => .ARM | .arm64 => .ARM64 | .arm64Old => .ARM64_OLD | .mips => .MIPS

/-- byte offset and width of the scalar called `name` in a flattened layout -/
def layoutOffset : Layout → String → Option (Nat × Nat)
  | [], _ => none
  | (n, w) :: rest, name =>
    if n == name then some (0, w)
    else
      match layoutOffset rest name with
      | some (off, w') => some (w + off, w')
      | none => none

/-- the register file of a context read from bytes: C18's cell `field` / `field[i]` holds the scalar
    of that name in the record (0 for a cell the record does not have — `MdModel.Regs.inBounds`
    excludes those) -/
def regState (c : Context) : Regs.State :=
  fun cell => (getField? c.kind.layout c.vals (Regs.showCell cell)).getD 0

def outcomeToM {α : Type} : Outcome α → M α
  | .ok a => pure a
  | .panic s => M.panic s

/-- what the engine compares of one context's registers -/
structure RegsOut where
  kind : CtxKind
  /-- `valid_registers()`: (name, value) in `general_purpose_registers()` order -/
  valid : List (String × Nat)
  /-- `get_register(name)` for every name of `general_purpose_registers()` -/
  got : List (Option Nat)
  size : Nat
  /-- `format_register(name)` for the first and the last name of `general_purpose_registers()` -/
  fmt : List String
  deriving Repr

/-- `get_register(name)` for a list of names -/
def getRegs (ctx : Gen.Regs.Ctx) (st : Regs.State) : List String → M (List (Option Nat))
  | [] => pure []
  | n :: ns => outcomeToM (Regs.getRegister ctx st n .all) >>= fun v => getRegs ctx st ns >>= fun rest => pure (v :: rest)

def fmtRegs (ctx : Gen.Regs.Ctx) (st : Regs.State) : List String → M (List String)
  | [] => pure []
  | n :: ns => outcomeToM (Regs.formatRegister ctx st n) >>= fun v => fmtRegs ctx st ns >>= fun rest => pure (v :: rest)

/-- first and last element -/
def endsOf {α : Type} (l : List α) : List α :=
  match l.head?, l.getLast? with
  | some a, some b => [a, b]
  | _, _ => []

/-- the register accessors of a context that `MinidumpContext::read` produced (validity `All`) -/
def ctxRegisters (c : Context) : M RegsOut :=
  let ctx := regsCtxOf c.kind
  let st := regState c
  let names := Gen.Regs.registers (Gen.Regs.gprOf ctx)
  outcomeToM (Regs.mdValidRegisters ctx st .all) >>= fun valid =>
  getRegs ctx st names >>= fun got =>
  fmtRegs ctx st (endsOf names) >>= fun fmt =>
  pure { kind := c.kind, valid := valid, got := got, size := Regs.registerSize ctx, fmt := fmt }

/-- `MinidumpThread::context(..)` / `MinidumpException::context(..)` followed by the register
    accessors; `none` = no context bytes or the read fails -/
def registersOf (all : Bytes) (e : Endian) (arch : Nat) (range : Option (Nat × Nat)) : M (Option RegsOut) :=
  match range with
  | none => pure none
  | some (s, t) =>
    match contextRead (all.extract s t) e arch with
    | .error _ => pure none
    | .ok c => ctxRegisters c >>= fun r => pure (some r)

def threadRegisters (all : Bytes) (e : Endian) (arch : Nat) : List Thread → M (List (Option RegsOut))
  | [] => pure []
  | t :: ts =>
    registersOf all e arch t.context >>= fun r =>
    threadRegisters all e arch ts >>= fun rest => pure (r :: rest)

end MdModel.Dump
