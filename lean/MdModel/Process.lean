/-
  MdModel.Process — placeholder (model not written yet).
-/
import MdModel.Prelude
namespace MdModel.Process

/-- line-protocol entry point of this model (engine(s): process) -/
def handle (_engine : String) (_args : List String) : String := "bad-op"

end MdModel.Process
