/-
  MdModel.Process — the arithmetic kernels of `process_minidump_with_options` and of the
  text/brief/JSON printers (C03), with CHECKED operations: every Rust `+ - *`, slice index,
  `Range::new` that can panic in a build with overflow checks is an explicit `Outcome.panic`;
  `checked_*` / `wrapping_*` / `saturating_*` are modelled as what they are.

  Kernels (each follows the code as it is now, after the `fix:` commits):
    * `parseLimits`     — `LinuxProcLimits::from` (process_state.rs:164-196)
    * `guardFlag`       — `check_for_guard_pages` (processor.rs:787-835) incl. `memory_range()`
    * `implicitAccess`  — op_analysis.rs:540-548 (`rsp.wrapping_sub(8)`)
    * `winFrameSize`, `fpo`, `searchStart` — walker.rs:943-948, 985-1048, 783-787
    * `readerKeeps`, `jsonEnd`, `textEnd`, `frameOffsets`, `unloadedOffset` — the printers' own
      arithmetic (process_state.rs:796-823, 1050-1110; unwind/lib.rs:469-482; processor.rs:1180)
    * `argRecovery` read head — arg_recovery.rs:100-120
    * `contextOffset`, `nearbyIndex` — op_analysis.rs:213, process_state.rs:330
  The numeric constants (3 fields, 2 << 14, the 8 of push/call and of the ebp slot, the 4-byte
  words) come from `MdModel.Gen.ProcessConsts`, regenerated from the Rust sources by
  translators/consts_process.py on every run, which also pins the shape of every guard.
  Core-only imports (linked into the `mdmodel` driver).
-/
import MdModel.Prelude
import MdModel.ProcessCore
import MdModel.Gen.ProcessConsts
import MdModel.OpAnalysis
import MdModel.ArgRecovery
namespace MdModel.Process
open MdModel

/-! ## K1 — `/proc/<pid>/limits` (process_state.rs:164-196)

The input is the stream text after `String::from_utf8_lossy` (a `\n` byte is never part of a
multi-byte sequence, so decoding the whole text and splitting afterwards equals the code's
split-then-decode; a non-empty line decodes to a non-empty string). -/

/-- Rust `char::is_whitespace` (Unicode `White_Space`), what `str::trim` removes -/
def isWs (c : Char) : Bool :=
  let n := c.toNat
  (9 ≤ n && n ≤ 13) || n == 32 || n == 0x85 || n == 0xA0 || n == 0x1680 ||
  (0x2000 ≤ n && n ≤ 0x200A) || n == 0x2028 || n == 0x2029 || n == 0x202F || n == 0x205F || n == 0x3000

/-- `str::trim` -/
def trim (s : List Char) : List Char :=
  ((s.dropWhile isWs).reverse.dropWhile isWs).reverse

/-- `str::split('\n')` -/
def splitNl : List Char → List Char → List (List Char)
  | [], acc => [acc.reverse]
  | c :: rest, acc => if c = '\n' then acc.reverse :: splitNl rest [] else splitNl rest (c :: acc)

/-- `str::split("  ")` (leftmost, non-overlapping matches of two spaces) -/
def splitDouble : List Char → List Char → List (List Char)
  | [], acc => [acc.reverse]
  | [c], acc => [(c :: acc).reverse]
  | c :: d :: rest, acc =>
    if c = ' ' ∧ d = ' ' then acc.reverse :: splitDouble rest []
    else splitDouble (d :: rest) (c :: acc)

/-- `u64::from_str`: optional `+`, then one or more ASCII digits, value at most `u64::MAX` -/
def parseU64 (s : List Char) : Option Nat :=
  let digits := match s with
    | '+' :: rest => rest
    | _ => s
  if digits.isEmpty then none
  else if digits.all (fun c => '0' ≤ c ∧ c ≤ '9') then
    let v := digits.foldl (fun acc c => acc * 10 + (c.toNat - '0'.toNat)) 0
    if v ≤ U64MAX then some v else none
  else none

inductive Lim where
  | unlimited
  | limited (n : Nat)
  deriving Repr, DecidableEq

/-- `parse_limit` -/
def parseLimit (s : List Char) : Lim :=
  let t := trim s
  if t = "unlimited".toList then .unlimited else .limited ((parseU64 t).getD 0)

structure LimEntry where
  name : List Char
  soft : Lim
  hard : Lim
  unit : List Char
  deriving Repr

/-- the closure mapped over the field vectors: indexes `m[0]`, `m[1]`, `m[2]` and, unless the
    vector has exactly three fields, `m[3]` -/
def limitLine (m : List (List Char)) : Outcome LimEntry := do
  let u ← if m.length = 3 then pure "n/a".toList else (do let x ← cidx "limits: m[3]" m 3; pure (trim x))
  let n ← cidx "limits: m[0]" m 0
  let s ← cidx "limits: m[1]" m 1
  let h ← cidx "limits: m[2]" m 2
  pure { name := trim n, soft := parseLimit s, hard := parseLimit h, unit := u }

/-- `l.split("  ").filter(|x| !x.is_empty())` -/
def fieldsOf (line : List Char) : List (List Char) :=
  (splitDouble line []).filter (fun x => !x.isEmpty)

/-- the minimum number of fields of a limit line (`.filter(|m| m.len() >= 3)`) -/
def LIMIT_MIN_FIELDS : Nat := Consts.limit_min_fields

/-- `LinuxProcLimits::from`, up to the `HashMap` (entries in line order) -/
def parseLimits (text : List Char) : Outcome (List LimEntry) :=
  let lines := ((splitNl text []).filter (fun l => !l.isEmpty)).drop 1
  let ms := (lines.map fieldsOf).filter (fun m => decide (LIMIT_MIN_FIELDS ≤ m.length))
  mapO limitLine ms

/-- `collect::<HashMap<_,_>>()`: a later line with the same name replaces an earlier one; listed
    by name (what `print_json` does) -/
def dedupLast (es : List LimEntry) : List LimEntry :=
  es.foldl (fun acc e => (acc.filter (fun x => x.name ≠ e.name)) ++ [e]) []

def charsLt (a b : List Char) : Bool := decide (String.ofList a < String.ofList b)

def insertSorted (e : LimEntry) : List LimEntry → List LimEntry
  | [] => [e]
  | x :: xs => if charsLt e.name x.name then e :: x :: xs else x :: insertSorted e xs

def sortByName (es : List LimEntry) : List LimEntry := es.foldr insertSorted []

/-! ## K2 — guard pages (processor.rs:787-835) and `memory_range()` (minidump.rs:2525, 2680) -/

inductive InfoKind where
  | info  -- MINIDUMP_MEMORY_INFO: (base_address, region_size)
  | maps  -- /proc/self/maps line: (start, end), end inclusive
  deriving Repr, DecidableEq

structure RawRegion where
  a : Nat
  b : Nat
  /-- `is_readable() || is_writable() || is_executable()` -/
  acc : Bool
  deriving Repr

/-- `range_map::Range::new` panics on `start > end` -/
def rangeNew (s e : Nat) : Outcome (Option (Nat × Nat)) :=
  if s > e then .panic "Ranges must be ordered" else .ok (some (s, e))

/-- `UnifiedMemoryInfo::memory_range` -/
def memRange (k : InfoKind) (r : RawRegion) : Outcome (Option (Nat × Nat)) :=
  match k with
  | .info =>
    if r.b = 0 then .ok none else
    match checkedAdd64 r.a r.b with
    | none => .ok none
    | some e => do
      let e1 ← csub "memory_range: base + size - 1" e 1
      rangeNew r.a e1
  | .maps => if r.a > r.b then .ok none else rangeNew r.a r.b

/-- the closure `is_adjacent_to_accessible_memory` over `memory_info.by_addr()` -/
def adjacentLoop (k : InfoKind) (range : Nat × Nat) : List RawRegion → Outcome Bool
  | [] => .ok false
  | r :: rest =>
    match memRange k r with
    | .panic s => .panic s
    | .ok none => adjacentLoop k range rest
    | .ok (some (os, oe)) =>
      -- `other_range.end.checked_add(1) == Some(range.start) && is_accessible(&region)`
      if checkedAdd64 oe 1 = some range.1 ∧ r.acc = true then .ok true
      -- `range.end.checked_add(1) == Some(other_range.start)`
      else if checkedAdd64 range.2 1 = some os then .ok r.acc
      else adjacentLoop k range rest

/-- `GUARD_MEMORY_MAX_SIZE = 2 << 14` -/
def GUARD_MAX : Nat := Consts.guard_max

/-- one access of `check_for_guard_pages`: `info` is the region found at the accessed address -/
def guardFlag (k : InfoKind) (byAddr : List RawRegion) (info : RawRegion) : Outcome Bool :=
  match memRange k info with
  | .panic s => .panic s
  | .ok none => .ok false
  | .ok (some (s, e)) =>
    if info.acc then .ok false else
    match csub "guard: range.end - range.start" e s with
    | .panic m => .panic m
    | .ok sz => if sz < GUARD_MAX then adjacentLoop k (s, e) byAddr else .ok false

/-! ## K3 — implicit stack access of push/call/pop/ret (op_analysis.rs:540-560) -/

inductive StackOp where
  | push | call | pop | ret
  deriving Repr, DecidableEq

/-- address of the implicit access: `rsp.wrapping_sub(8)` for push/call, `rsp` for pop/ret -/
def implicitAccess (op : StackOp) (rsp : Nat) : Nat :=
  match op with
  | .push | .call => wrappingSub64 rsp Consts.push_adjust
  | .pop | .ret => rsp

/-! ## K4 — STACK WIN sizes and the FPO walk (walker.rs:943-1048) -/

structure WinInfo where
  localSize : Nat
  savedSize : Nat
  paramSize : Nat
  abp : Bool
  deriving Repr

/-- `win_frame_size`: `local_size.checked_add(saved_register_size)?.checked_add(grand_callee)` -/
def winFrameSize (i : WinInfo) (gcps : Nat) : Option Nat :=
  (checkedAdd32 i.localSize i.savedSize).bind fun x => checkedAdd32 x gcps

/-- `.raSearchStart` of `eval_win_expr` (all checked: a sum that does not fit makes the rule fail) -/
def searchStart (i : WinInfo) (gcps esp ebp : Nat) (aligned : Bool) : Option Nat :=
  if aligned then checkedAdd32 ebp Consts.win_ebp_ra
  else (winFrameSize i gcps).bind fun fs => checkedAdd32 esp fs

structure FpoIn where
  esp : Option Nat
  eip : Option Nat
  ebp : Option Nat
  ebx : Option Nat
  gcps : Nat
  hasGrandCallee : Bool
  /-- `get_register_at_address` (a u32 word of the stack memory) -/
  mem : Nat → Option Nat

structure FpoOut where
  eip : Nat
  esp : Nat
  ebp : Nat
  ebx : Option Nat
  deriving Repr, DecidableEq

/-- `set_caller_register` on an x86 context: the value must fit `u32` -/
def fitsU32 (v : Nat) : Option Nat := if v ≤ U32MAX then some v else none

/-- first half of `walk_with_stack_win_fpo`: where the return address is read, and its value.
    `?` on an `Option` is `.ok none`; the unchecked `+` are `cadd64`. -/
def fpoEip (x : FpoIn) (esp frameSize : Nat) : Outcome (Option (Nat × Nat)) :=
  match cadd64 "fpo: callee_esp + frame_size" esp frameSize with
  | .panic s => .panic s
  | .ok eipAddr0 =>
    match x.mem eipAddr0 with
    | none => .ok none
    | some eip0 =>
      -- leftover return address: only a context frame (no grand callee) compares with the callee's eip
      if x.hasGrandCallee then .ok (some (eipAddr0, eip0)) else
      match x.eip with
      | none => .ok none   -- `walker.get_callee_register("eip")?`
      | some ceip =>
        if eip0 = ceip then
          match cadd64 "fpo: eip_address += 4" eipAddr0 Consts.fpo_word with
          | .panic s => .panic s
          | .ok a =>
            match x.mem a with
            | none => .ok none
            | some e => .ok (some (a, e))
        else .ok (some (eipAddr0, eip0))

/-- second half: the caller's `ebp` (and the forwarded `ebx`) -/
def fpoEbp (i : WinInfo) (x : FpoIn) (esp : Nat) : Outcome (Option (Nat × Option Nat)) :=
  if i.abp then
    match cadd64 "fpo: callee_esp + grand_callee_param_size" esp x.gcps with
    | .panic s => .panic s
    | .ok s1 =>
      match cadd64 "fpo: … + saved_register_size" s1 i.savedSize with
      | .panic s => .panic s
      | .ok s2 =>
        -- `.checked_sub(8)?`
        if s2 < Consts.fpo_ebp_back then .ok none else
        match x.mem (s2 - Consts.fpo_ebp_back) with
        | none => .ok none
        | some v => .ok (some (v, none))
  else
    match x.ebp with
    | none => .ok none
    | some v => .ok (some (v, x.ebx))

/-- `walk_with_stack_win_fpo` -/
def fpo (i : WinInfo) (x : FpoIn) : Outcome (Option FpoOut) :=
  match winFrameSize i x.gcps with
  | none => .ok none
  | some frameSize =>
  match x.esp with
  | none => .ok none
  | some esp =>
    match fpoEip x esp frameSize with
    | .panic s => .panic s
    | .ok none => .ok none
    | .ok (some (eipAddr, callerEip)) =>
      match cadd64 "fpo: eip_address + 4" eipAddr Consts.fpo_word with
      | .panic s => .panic s
      | .ok callerEsp =>
        match fpoEbp i x esp with
        | .panic s => .panic s
        | .ok none => .ok none
        | .ok (some (callerEbp, ebx)) =>
          match fitsU32 callerEip, fitsU32 callerEsp, fitsU32 callerEbp with
          | some a, some b, some c => .ok (some { eip := a, esp := b, ebp := c, ebx := ebx })
          | _, _, _ => .ok none

/-! ## K5 — the printers' own arithmetic -/

structure ModRaw where
  base : Nat
  size : Nat
  deriving Repr

/-- the readers drop (loaded: minidump.rs:1556) or refuse (unloaded: :1662) a module with
    `size_of_image == 0 || size_of_image > u64::MAX - base_of_image` -/
def readerKeeps (m : ModRaw) : Bool := m.size != 0 && decide (m.size ≤ U64MAX - m.base)

/-- `print_json`: `"end_addr": base_of_image + size_of_image` (modules and unloaded modules) -/
def jsonEnd (m : ModRaw) : Outcome Nat := cadd64 "print_json: base_of_image + size_of_image" m.base m.size

/-- `print`: `module.base_address() + module.size() - 1` (loaded and unloaded, `by_addr()`) -/
def textEnd (m : ModRaw) : Outcome Nat := do
  let e ← cadd64 "print: base_address() + size()" m.base m.size
  csub "print: … - 1" e 1

structure FrameIn where
  instr : Nat
  /-- base of `frame.module` -/
  mbase : Option Nat
  /-- `frame.function_base` -/
  fbase : Option Nat
  /-- `frame.source_line_base` -/
  lbase : Option Nat
  deriving Repr

def optSub (site : String) (a : Nat) : Option Nat → Outcome (Option Nat)
  | none => .ok none
  | some b =>
    match csub site a b with
    | .ok v => .ok (some v)
    | .panic s => .panic s

/-- `module_offset` / `function_offset` (print_json) and `addr - src_base`, `addr - func_base`,
    `addr - module.base_address()` (CallStack::print): every subtraction the printers perform on a frame -/
def frameOffsets (f : FrameIn) : Outcome (Option Nat × Option Nat × Option Nat) := do
  let m ← optSub "frame.instruction - module.base" f.instr f.mbase
  let g ← optSub "frame.instruction - function_base" f.instr f.fbase
  let l ← optSub "frame.instruction - source_line_base" f.instr f.lbase
  pure (m, g, l)

/-- processor.rs:1180 `frame.instruction - unloaded.raw.base_of_image` for the modules
    `modules_at_address(frame.instruction)` returns (those whose range contains the address) -/
def unloadedOffsets (instr : Nat) (unl : List ModRaw) : Outcome (List Nat) :=
  mapO (fun m => csub "frame.instruction - unloaded.base_of_image" instr m.base)
    (unl.filter fun m => decide (m.base ≤ instr ∧ instr ≤ m.base + m.size - 1))

/-- what the printers see of a state: `mods`/`unl` = `modules.iter()` / `unloaded_modules.iter()`
    (JSON), `modsText`/`unlText` = the `by_addr()` sequences (text), `frames` = all frames -/
structure RenderIn where
  mods : List ModRaw
  modsText : List ModRaw
  unl : List ModRaw
  unlText : List ModRaw
  frames : List FrameIn

structure RenderOut where
  modEnds : List Nat        -- JSON `end_addr`
  modTextEnds : List Nat    -- text `base + size - 1`
  unlEnds : List Nat
  unlTextEnds : List Nat
  frames : List (Option Nat × Option Nat × Option Nat)

/-- everything the text, brief-text and JSON printers compute with `+`/`-` -/
def render (r : RenderIn) : Outcome RenderOut := do
  let a ← mapO jsonEnd r.mods
  let a' ← mapO textEnd r.modsText
  let b ← mapO jsonEnd r.unl
  let b' ← mapO textEnd r.unlText
  let c ← mapO frameOffsets r.frames
  pure { modEnds := a, modTextEnds := a', unlEnds := b, unlTextEnds := b', frames := c }

/-! ## small sites -/

/-- op_analysis.rs:213 `(instruction_pointer - memory.base_address()) as usize` then `bytes[offset..]` -/
def instructionOffset (ip base len : Nat) : Outcome Nat := do
  let off ← csub "instruction_pointer - memory.base_address()" ip base
  if off ≤ len then pure off else .panic "bytes[offset..]"

/-- process_state.rs:330 `min(nearby_registers, 4) - 1` then `NEARBY_REGISTER[nearby]` (inside `if nearby_registers > 0`) -/
def nearbyIndex (nearby : Nat) : Outcome (Option Nat) :=
  if nearby > 0 then do
    let i ← csub "min(nearby, 4) - 1" (min nearby 4) 1
    if i < 4 then pure (some i) else .panic "NEARBY_REGISTER[nearby]"
  else pure none

/-- arg_recovery.rs:100-120: the read head of `pop_value` (`read_head += POINTER_WIDTH` happens only
    while `read_head < caller_frame_pointer`) after `n` pops -/
def argReadHead (start limit : Nat) : Nat → Outcome Nat
  | 0 => .ok start
  | n + 1 =>
    match argReadHead start limit n with
    | .panic s => .panic s
    | .ok h => if h < limit then cadd64 "arg_recovery: read_head += 4" h Consts.arg_pointer_width else .ok h

/-- processor.rs:1125 `SystemTime::UNIX_EPOCH + Duration::from_secs(time_date_stamp as u64)`:
    `SystemTime + Duration` is `checked_add(..).expect("overflow when adding duration to instant")`
    on a signed 64-bit count of seconds; the result in seconds after the epoch -/
def dumpTime (stamp : Nat) : Outcome Nat :=
  if 0 + stamp ≤ 9223372036854775807 then .ok stamp else .panic "overflow when adding duration to instant"

/-- processor.rs:245/255 the `u64` counters of the stat reporter after `n` increments from 0 -/
def statCounter : Nat → Outcome Nat
  | 0 => .ok 0
  | n + 1 =>
    match statCounter n with
    | .panic s => .panic s
    | .ok c => cadd64 "stats counter += 1" c 1

/-- the frame bound the walk obeys (C05 `walk_bound`), evaluated on counts -/
def boundOk (frames bytes : Nat) : Bool := decide (frames ≤ bytes + 2)

/-! ## line protocol -/

open Proto

def hexOfChars (s : List Char) : String := hex (String.ofList s).toUTF8.toList

def limStr : Lim → String
  | .unlimited => "u"
  | .limited n => toString n

def showOutcome {α : Type} (f : α → String) : Outcome α → String
  | .ok a => f a
  | .panic _ => "PANIC"

def optStr : Option Nat → String
  | none => "-"
  | some n => toString n

def parseOptNat (s : String) : Option (Option Nat) :=
  if s == "-" then some none else (optNat s).map some

def parseBool (s : String) : Option Bool :=
  if s == "1" then some true else if s == "0" then some false else none

def parseRegion (s : String) : Option RawRegion :=
  match s.splitOn ":" with
  | [a, b, c] => do
    let a ← optNat a; let b ← optNat b; let c ← parseBool c
    pure { a := a, b := b, acc := c }
  | _ => none

def parseList {α : Type} (f : String → Option α) (s : String) : Option (List α) :=
  if s == "-" then some [] else (pieces s ",").mapM f

def parseKind (s : String) : Option InfoKind :=
  if s == "info" then some .info else if s == "maps" then some .maps else none

def parseMod (s : String) : Option ModRaw :=
  match s.splitOn ":" with
  | [a, b] => do let a ← optNat a; let b ← optNat b; pure { base := a, size := b }
  | _ => none

def parseFrame (s : String) : Option FrameIn :=
  match s.splitOn ":" with
  | [a, b, c, d] => do
    let a ← optNat a; let b ← parseOptNat b; let c ← parseOptNat c; let d ← parseOptNat d
    pure { instr := a, mbase := b, fbase := c, lbase := d }
  | _ => none

def parseOp (s : String) : Option StackOp :=
  match s with
  | "push" => some .push | "call" => some .call | "pop" => some .pop | "ret" => some .ret | _ => none

def kvField (key : String) (s : String) : Option String :=
  if s.startsWith (key ++ ":") then some (s.drop (key.length + 1)).toString else none

/-- answer of one kernel request (the fields after `process`) -/
def kernel (args : List String) : String :=
  match args with
  | ["limits", h] =>
    match unhex h with
    | none => "bad-op"
    | some bytes =>
      match String.fromUTF8? (ByteArray.mk bytes.toArray) with
      | none => "bad-op"
      | some text =>
        showOutcome (fun es =>
          let es := sortByName (dedupLast es)
          s!"ok n={es.length} " ++ joinWith ";" (es.map fun e =>
            s!"{hexOfChars e.name}={limStr e.soft}/{limStr e.hard}/{hexOfChars e.unit}"))
          (parseLimits text.toList)
  | ["guard", k, regions, accs] =>
    match parseKind k, (kvField "regions" regions).bind (parseList parseRegion),
          (kvField "acc" accs).bind (parseList fun s => if s == "none" then some none else (parseRegion s).map some) with
    | some k, some rs, some as =>
      let flags := mapO (fun (a : Option RawRegion) => match a with
        | none => Outcome.ok false
        | some info => guardFlag k rs info) as
      showOutcome (fun fs => "flags:" ++ joinWith "," (fs.map fun b => if b then "1" else "0")) flags
    | _, _, _ => "bad-op"
  | ["push", op, rsp] =>
    match parseOp op, optNat rsp with
    | some op, some rsp => if rsp ≤ U64MAX then s!"addr:{implicitAccess op rsp}" else "bad-op"
    | _, _ => "bad-op"
  | ["fpo", loc, sav, par, abp, esp, eip, ebp, ebx, gcps, hasgc, mem] =>
    match (kvField "local" loc).bind optNat, (kvField "saved" sav).bind optNat, (kvField "params" par).bind optNat,
          (kvField "abp" abp).bind parseBool, (kvField "esp" esp).bind parseOptNat, (kvField "eip" eip).bind parseOptNat,
          (kvField "ebp" ebp).bind parseOptNat, (kvField "ebx" ebx).bind parseOptNat, (kvField "gcps" gcps).bind optNat,
          (kvField "gc" hasgc).bind parseBool,
          (kvField "mem" mem).bind (parseList fun s => match s.splitOn "=" with
            | [a, v] => do let a ← optNat a; let v ← optNat v; pure (a, v)
            | _ => none) with
    | some l, some s, some p, some abp, some esp, some eip, some ebp, some ebx, some g, some gc, some m =>
      let i : WinInfo := { localSize := l, savedSize := s, paramSize := p, abp := abp }
      let x : FpoIn := { esp := esp, eip := eip, ebp := ebp, ebx := ebx, gcps := g, hasGrandCallee := gc,
                         mem := fun a => (m.find? fun e => e.1 == a).map (·.2) }
      showOutcome (fun r => match r with
        | none => "none"
        | some o => s!"some eip={o.eip} esp={o.esp} ebp={o.ebp} ebx={optStr o.ebx}") (fpo i x)
    | _, _, _, _, _, _, _, _, _, _, _ => "bad-op"
  | ["printer", mods, tmods, unl, tunl, frames] =>
    match (kvField "mods" mods).bind (parseList parseMod), (kvField "tmods" tmods).bind (parseList parseMod),
          (kvField "unl" unl).bind (parseList parseMod), (kvField "tunl" tunl).bind (parseList parseMod),
          (kvField "frames" frames).bind (parseList parseFrame) with
    | some ms, some tms, some us, some tus, some fs =>
      -- the request carries what the readers kept; anything else is not a state the printers can see
      if !(ms.all readerKeeps && tms.all readerKeeps && us.all readerKeeps && tus.all readerKeeps) then "bad-op" else
      showOutcome (fun (o : RenderOut) =>
        let ends (l : List Nat) := joinWith "," (l.map toString)
        s!"mods:{ends o.modEnds} tmods:{ends o.modTextEnds} unl:{ends o.unlEnds} tunl:{ends o.unlTextEnds} frames:" ++
          joinWith "," (o.frames.map fun f => s!"{optStr f.1}:{optStr f.2.1}:{optStr f.2.2}"))
        (render { mods := ms, modsText := tms, unl := us, unlText := tus, frames := fs })
    | _, _, _, _, _ => "bad-op"
  | ["bound", l] =>
    match parseList (fun s => match s.splitOn ":" with
        | [a, b] => do let a ← optNat a; let b ← optNat b; pure (a, b)
        | _ => none) l with
    | some ps =>
      match (ps.zipIdx.find? fun p => !boundOk p.1.1 p.1.2) with
      | none => "ok"
      | some p => s!"over:{p.2}"
    | none => "bad-op"
  | _ => "bad-op"

/-- split a list of fields at the separator `//` -/
def splitReqs : List String → List String → List (List String)
  | [], acc => [acc.reverse]
  | x :: rest, acc => if x == "//" then acc.reverse :: splitReqs rest [] else splitReqs rest (x :: acc)

/-- line-protocol entry point of this model (engine: process). `kern a // b // c` answers several
    kernel requests at once (what a pipeline case asks). -/
def handle (_engine : String) (args : List String) : String :=
  let one (a : List String) : String :=
    match a with
    | "argrec" :: rest => ArgRecovery.handle rest
    | _ => kernel a
  match args with
  | "kern" :: rest => joinWith " // " ((splitReqs rest []).map one)
  | "opana" :: rest => OpAnalysis.handle rest
  | _ => one args

end MdModel.Process
