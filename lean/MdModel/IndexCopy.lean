/-
  MdModel.IndexCopy — the small "copy rules" of `minidump_processor::process_minidump`: fields of
  `ProcessState` that are taken over from one stream, each by a function of a few lines
  (engine `index`, property C14):

    * `system_info` { os_version, os_build, cpu_info, cpu_count }    processor.rs:527,559-571
        `MinidumpSystemInfo::os_parts`                               minidump.rs:3406-3441
        `MinidumpSystemInfo::read` (the `cpu_info` string)           minidump.rs:3196-3328
    * `linux_standard_base` = `LinuxStandardBase::from(stream)`      process_state.rs:86-106
    * `mac_crash_info`  = records of the `MozMacosCrashInfoStream`   processor.rs:573-576, minidump.rs:3691-3806
    * `mac_boot_args`   = the `MozMacosBootargsStream`               processor.rs:578, minidump.rs:3850-3875
    * `assertion`       = `None`, ALWAYS (processor.rs:1129; the assertion stream is not consulted)
    * `cert_info`       = the certificates of the `evil_json` option; `process_minidump` passes no
                          such file, so the map is empty (processor.rs:502-505,1127)
    * `handles`         = the handle data stream, if it can be read  (processor.rs:605,1139)

  Strings are what the stream readers yield (`read_string_utf16` etc. belong to C01/C02); the
  text streams are key/value lists as `linux_list_iter` yields them.
-/
import MdModel.Prelude
import MdModel.Reason
namespace MdModel.Index
open MdModel
open MdModel.Reason (Os Cpu)
open MdModel.Gen

/-! ### system info -/

/-- the part of `MINIDUMP_SYSTEM_INFO` the processor looks at besides platform and architecture -/
structure SysRaw where
  level : Nat := 6          -- processor_level (u16)
  revision : Nat := 0       -- processor_revision (u16)
  ncpu : Nat := 1           -- number_of_processors (u8)
  major : Nat := 0
  minor : Nat := 0
  build : Nat := 0
  /-- `csd_version`: the UTF-16 string at `csd_version_rva`, if it can be read -/
  csd : Option String := none
  /-- `cpu.data` as the reader's integers: x86 `vendor_id[0..2]`; ARM `cpuid`, `elf_hwcaps` in d0, d1 -/
  d0 : Nat := 0
  d1 : Nat := 0
  d2 : Nat := 0
  deriving Repr, DecidableEq

/-- `minidump_processor::SystemInfo` without `os` / `cpu` (those are `Reason.Os` / `Reason.Cpu`)
    and without `cpu_microcode_version` (Linux cpuinfo stream, not part of this model) -/
structure SysInfo where
  osVersion : String
  osBuild : Option String
  cpuInfo : Option String
  cpuCount : Nat
  deriving Repr, DecidableEq

/-- Unicode `White_Space` (what `str::trim` strips) -/
def isRustWs (c : Char) : Bool :=
  let n := c.toNat
  (9 ≤ n && n ≤ 13) || n = 0x20 || n = 0x85 || n = 0xA0 || n = 0x1680 || (0x2000 ≤ n && n ≤ 0x200A) ||
  n = 0x2028 || n = 0x2029 || n = 0x202F || n = 0x205F || n = 0x3000

/-- `str::trim` -/
def rustTrim (s : String) : String :=
  String.ofList ((s.toList.dropWhile isRustWs).reverse.dropWhile isRustWs).reverse

/-- `format!("{}.{}.{}", major, minor, build)` -/
def versionString (r : SysRaw) : String := s!"{r.major}.{r.minor}.{r.build}"

/-- `csd_version().map(|v| v.trim().to_owned()).filter(|v| !v.is_empty())` -/
def csdBuild (r : SysRaw) : Option String :=
  match r.csd with
  | some v => let t := rustTrim v; if t.isEmpty then none else some t
  | none => none

/-- the pieces `raw_build.split(' ')` leaves after `nth(1)`, `next_back()` and — when that piece was
    `Linux/GNU` — one more `next_back()`, given all pieces -/
def linuxBuildPieces (pieces : List String) : String × List String :=
  match pieces with
  | _ :: v :: rest =>
    let (last, rest) : String × List String :=
      match rest.reverse with
      | l :: r => (l, r.reverse)
      | [] => ("", [])
    let rest := if last = "Linux/GNU" then rest.dropLast else rest
    (v, rest)
  | _ => ("0.0.0", [])

/-- `MinidumpSystemInfo::os_parts`: version `major.minor.build` and the trimmed CSD string, except
    on Linux with version `0.0.0`, where the `uname -srvmo` text is taken apart. -/
def osParts (platformId : Nat) (r : SysRaw) : String × Option String :=
  let v := versionString r
  if Reason.lookup Enums.PlatformId platformId ≠ some "Linux" ∨ v ≠ "0.0.0" then (v, csdBuild r)
  else
    let raw := r.csd.getD ""
    let (version, build) := linuxBuildPieces (raw.splitOn " ")
    if version = "0.0.0" then (v, csdBuild r) else (version, some (" ".intercalate build))

/-- the bytes of a `u32` in little-endian order, as Latin-1 characters (`char::from(u8)`) -/
def leChars (v : Nat) : List Char :=
  [v % 256, v / 256 % 256, v / 65536 % 256, v / 16777216 % 256].map Char.ofNat

def armVendors : List (Nat × String) :=
  [(0x41, "ARM"), (0x51, "Qualcomm"), (0x56, "Marvell"), (0x69, "Intel/Marvell")]

def armParts : List (Nat × String) :=
  [(0x4100c050, "Cortex-A5"), (0x4100c080, "Cortex-A8"), (0x4100c090, "Cortex-A9"),
   (0x4100c0f0, "Cortex-A15"), (0x4100c140, "Cortex-R4"), (0x4100c150, "Cortex-R5"),
   (0x4100b360, "ARM1136"), (0x4100b560, "ARM1156"), (0x4100b760, "ARM1176"),
   (0x4100b020, "ARM11-MPCore"), (0x41009260, "ARM926"), (0x41009460, "ARM946"),
   (0x41009660, "ARM966"), (0x510006f0, "Krait"), (0x510000f0, "Scorpion")]

/-- (bit number, name) in the order of the `features` array -/
def armFeatures : List (Nat × String) :=
  [(0, "swp"), (1, "half"), (2, "thumb"), (3, "26bit"), (4, "fastmult"), (5, "fpa"), (6, "vfpv2"),
   (7, "edsp"), (8, "java"), (9, "iwmmxt"), (10, "crunch"), (11, "thumbee"), (12, "neon"),
   (13, "vfpv3"), (14, "vfpv3d16"), (15, "tls"), (16, "vfpv4"), (17, "idiva"), (18, "idivt")]

/-- `ArmElfHwCaps::from_bits_truncate(..).is_empty()` looks at the 22 defined bits -/
def armKnownBits : Nat := 2 ^ 22 - 1

def hexLower (n : Nat) : String := String.ofList (Nat.toDigits 16 n)

/-- the ARM arm of the `cpu_info` computation -/
def armCpuInfo (r : SysRaw) : String :=
  let cpuid := r.d0
  let s := s!"ARMv{r.level}"
  let s :=
    if cpuid ≠ 0 then
      let vendorId := (cpuid / 2 ^ 24) % 256
      let partId := cpuid &&& 0xff00fff0
      let s := match armVendors.lookup vendorId with
        | some v => s ++ " " ++ v
        | none => s ++ " vendor(0x" ++ hexLower vendorId ++ ")"
      match armParts.lookup partId with
      | some p => s ++ " " ++ p
      | none => s ++ " part(0x" ++ hexLower partId ++ ")"
    else s
  if r.d1 &&& armKnownBits ≠ 0 then
    s ++ " features: " ++ ",".intercalate ((armFeatures.filter fun f => r.d1.testBit f.1).map (·.2))
  else s

/-- the `cpu_info` string of `MinidumpSystemInfo::read` -/
def cpuInfo (cpu : Cpu) (r : SysRaw) : Option String :=
  let fam := s!"family {r.level} model {(r.revision / 256) % 256} stepping {r.revision % 256}"
  match cpu with
  | .x86 => some (String.ofList (leChars r.d0 ++ leChars r.d1 ++ leChars r.d2) ++ " " ++ fam)
  | .x86_64 => some fam
  | .arm => some (armCpuInfo r)
  | _ => none

/-- `SystemInfo { os_version: Some(os_version), os_build, cpu_info, cpu_count, .. }` -/
def sysInfo (platformId arch : Nat) (r : SysRaw) : SysInfo :=
  let p := osParts platformId r
  { osVersion := p.1, osBuild := p.2, cpuInfo := cpuInfo (Cpu.ofArch arch) r, cpuCount := r.ncpu }

/-! ### Linux standard base -/

structure Lsb where
  id : String := ""
  release : String := ""
  codename : String := ""
  description : String := ""
  deriving Repr, DecidableEq

/-- one iteration of the loop of `LinuxStandardBase::from` -/
def lsbStep (l : Lsb) (e : String × String) : Lsb :=
  if e.1 = "DISTRIB_ID" ∨ e.1 = "ID" then { l with id := e.2 }
  else if e.1 = "DISTRIB_RELEASE" ∨ e.1 = "VERSION_ID" then { l with release := e.2 }
  else if e.1 = "DISTRIB_CODENAME" ∨ e.1 = "VERSION_CODENAME" then { l with codename := e.2 }
  else if e.1 = "DISTRIB_DESCRIPTION" ∨ e.1 = "PRETTY_NAME" then { l with description := e.2 }
  else l

/-- `LinuxStandardBase::from`: every entry overwrites the field its key names (either spelling),
    so the LAST entry of a group wins; other keys are ignored; a missing field stays empty. -/
def lsbOf (kv : List (String × String)) : Lsb := kv.foldl lsbStep {}

/-! ### macOS crash info -/

/-- one record of the `MozMacosCrashInfoStream` as written: fixed fields and the five C strings -/
structure MacRec where
  version : Nat
  thread : Nat
  dialogMode : Nat
  abortCause : Nat
  strs : List String
  deriving Repr, DecidableEq

/-- one `RawMacCrashInfo`: the variant (1, 4 or 5) decides which fields exist -/
structure MacOut where
  variant : Nat
  version : Nat
  thread : Option Nat
  dialogMode : Option Nat
  abortCause : Option Nat
  strs : List String
  deriving Repr, DecidableEq

def macOut (r : MacRec) : Option MacOut :=
  if r.version ≥ 5 then
    some ⟨5, r.version, some r.thread, some r.dialogMode, some r.abortCause, r.strs⟩
  else if r.version ≥ 4 then some ⟨4, r.version, some r.thread, some r.dialogMode, none, r.strs⟩
  else if r.version ≥ 1 then some ⟨1, r.version, none, none, none, []⟩
  else none

/-- every record must carry the version of the first one (`Error::VersionMismatch` otherwise) -/
def macVersionsAgree : List MacRec → Bool
  | [] => true
  | r :: rest => rest.all fun x => x.version = r.version

/-- `state.mac_crash_info`: the records in stream order (a record of version 0 is passed over),
    nothing when the versions differ or the stream is absent -/
def macCrashInfo (recs : Option (List MacRec)) : Option (List MacOut) :=
  match recs with
  | none => none
  | some rs => if macVersionsAgree rs then some (rs.filterMap macOut) else none

end MdModel.Index
