/-
  MdModel.CliTable — decision table of `minidump-stackwalk`'s `main_result`
  (minidump-stackwalk/src/main.rs:355-523): output-mode munging, the two validity tests,
  writer selection and exit status. Everything below `process_minidump_with_options` and the
  printers is *not* modelled here: a `Report` is a name for the bytes the library produces
  (`ProcessState::print`, `print_brief`, `print_json(pretty)`, and the raw-dump printers), which
  the engine `cli` computes in-process on the same file and options.
-/
import MdModel.Prelude
namespace MdModel.Cli

/-- the flags that take part in the decision (clap's `output-format` group + `--brief`/`--pretty`) -/
structure Flags where
  human : Bool
  json : Bool
  cyborg : Bool      -- `--cyborg <path>` given
  dump : Bool
  brief : Bool
  pretty : Bool
  deriving DecidableEq, Repr

/-- what the file given as the minidump turns out to be -/
inductive Input where
  | unreadable      -- missing, a directory, empty, not a minidump: `Minidump::read_path` fails
  | unprocessable   -- readable, but `process_minidump_with_options` returns an error
  | ok
  deriving DecidableEq, Repr

inductive Report where
  | human | humanBrief | json | jsonPretty | dump | dumpBrief
  deriving DecidableEq, Repr

inductive Outcome where
  | usage                                   -- clap rejects the command line (exit status 2)
  | exit1                                   -- diagnostic, no report
  | exit0 (primary cyborg : List Report)    -- reports written to the primary output / the cyborg file
  deriving DecidableEq, Repr

def b2n (b : Bool) : Nat := if b then 1 else 0

/-- clap's `ArgGroup "output-format"`: at most one of the members may be given -/
def groupCount (f : Flags) : Nat := b2n f.human + b2n f.json + b2n f.cyborg + b2n f.dump

/-- main.rs:355-523, transcribed. -/
def cli (f : Flags) (i : Input) : Outcome :=
  if groupCount f > 1 then .usage else
  let rawDump := f.dump
  let json0 := f.json
  let human0 := !json0 && !rawDump
  -- "Cyborg is just desugarred to --json --human"
  let human := if f.cyborg then true else human0
  let json := if f.cyborg then true else json0
  if f.pretty && !json then .exit1            -- "Humans must be hideous!"
  else if f.brief && !(human || rawDump) then .exit1   -- "Robots cannot be brief!"
  else
    match i with
    | .unreadable => .exit1                   -- "Error reading dump"
    | _ =>
      if rawDump then .exit0 [if f.brief then .dumpBrief else .dump] []
      else
        match i with
        | .unprocessable => .exit1            -- "Error processing dump"
        | _ =>
          let h := if human then [if f.brief then Report.humanBrief else Report.human] else []
          let j := if json then [if f.pretty then Report.jsonPretty else Report.json] else []
          if f.cyborg then .exit0 h j else .exit0 (h ++ j) []

/-! ### The documented behaviour, written independently from the option documentation
    (`--help` text of each flag), as a table over the *mode*. -/

inductive Mode where
  | human | json | cyborg | dump
  deriving DecidableEq, Repr

/-- "Emit a human-readable report (the default)"; the four formats are mutually exclusive -/
def modeOf (f : Flags) : Option Mode :=
  match f.human, f.json, f.cyborg, f.dump with
  | false, false, false, false => some .human
  | true, false, false, false => some .human
  | false, true, false, false => some .json
  | false, false, true, false => some .cyborg
  | false, false, false, true => some .dump
  | _, _, _, _ => none

def spec (f : Flags) (i : Input) : Outcome :=
  match modeOf f with
  | none => .usage
  | some m =>
    -- "Pretty-print --json output": only meaningful where JSON is produced
    if f.pretty && !(m = .json || m = .cyborg) then .exit1
    -- "Provide a briefer --human or --dump report": not for JSON alone
    else if f.brief && m = .json then .exit1
    else
      match m, i with
      | _, .unreadable => .exit1
      | .dump, _ => .exit0 [if f.brief then .dumpBrief else .dump] []
      | _, .unprocessable => .exit1
      | .human, .ok => .exit0 [if f.brief then .humanBrief else .human] []
      | .json, .ok => .exit0 [if f.pretty then .jsonPretty else .json] []
      -- "Combine --human and --json … The --human output will be the 'primary' output"
      | .cyborg, .ok => .exit0 [if f.brief then .humanBrief else .human]
                               [if f.pretty then .jsonPretty else .json]

/-! ### line protocol:  `cli <flags> <input>`   flags = subset of `hjcdbp` or `-`; input ∈ unreadable|unprocessable|ok
    answer: `usage` | `exit1` | `exit0 primary:<r+r|-> cyborg:<r|->` -/

def Report.name : Report → String
  | .human => "human" | .humanBrief => "human-brief" | .json => "json"
  | .jsonPretty => "json-pretty" | .dump => "dump" | .dumpBrief => "dump-brief"

def Outcome.render : Outcome → String
  | .usage => "usage"
  | .exit1 => "exit1"
  | .exit0 p c =>
    let show' (rs : List Report) := if rs.isEmpty then "-" else "+".intercalate (rs.map Report.name)
    s!"exit0 primary:{show' p} cyborg:{show' c}"

def parseFlags (s : String) : Option Flags :=
  if s == "-" then some ⟨false, false, false, false, false, false⟩
  else if s.toList.all (fun c => "hjcdbp".toList.contains c) then
    let has (c : Char) := s.toList.contains c
    some ⟨has 'h', has 'j', has 'c', has 'd', has 'b', has 'p'⟩
  else none

def parseInput : String → Option Input
  | "unreadable" => some .unreadable
  | "unprocessable" => some .unprocessable
  | "ok" => some .ok
  | _ => none

def handleTab (args : List String) : String :=
  match args with
  | [fs, inp] =>
    match parseFlags fs, parseInput inp with
    | some f, some i => (cli f i).render
    | _, _ => "bad-op"
  | _ => "bad-op"

end MdModel.Cli
