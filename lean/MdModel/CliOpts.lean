/-
  MdModel.CliOpts — from the command line to what is handed to the library (main.rs:340-403, 426-455):
  `--features` ↦ `ProcessorOptions`, the overloads from `--evil-json` / `--recover-function-args`,
  the symbol supplier, the interactive-UI rule. The tables (`Gen.*`) are translated from
  minidump-processor/src/processor.rs and minidump-stackwalk/src/main.rs by translators/cli_opts.py;
  this file interprets them.
-/
import MdModel.Prelude
import MdModel.Gen.CliOpts
namespace MdModel.Cli

/-- `minidump_processor::ProcessorOptions` (`stat_reporter`: subscribed or not) -/
structure ProcOptions where
  evilJson : Option String
  recoverFunctionArgs : Bool
  statReporter : Bool
  deriving DecidableEq, Repr

/-- the constructors, field values translated from processor.rs -/
def ctor (name : String) : Option ProcOptions :=
  match name with
  | "stable_basic" => some ⟨none, Gen.ctorRecover_stable_basic, false⟩
  | "stable_all" => some ⟨none, Gen.ctorRecover_stable_all, false⟩
  | "unstable_all" => some ⟨none, Gen.ctorRecover_unstable_all, false⟩
  | _ => none

/-- the options of the command line that steer processing (not: where the reports go) -/
structure ProcArgs where
  features : String
  evilJson : Option String
  recoverFunctionArgs : Bool
  useLocalDebuginfo : Bool
  symbolsUrl : List String
  symbolsCache : Option String
  symbolsTmp : Option String
  timeoutSecs : Nat
  symbolsPath : List String          -- `--symbols-path`
  symbolsPathLegacy : List String    -- positional
  noInteractive : Bool
  deriving DecidableEq, Repr

inductive Supplier where
  | none
  | simple (paths : List String)
  | http (paths urls : List String) (cache tmp : String) (timeoutSecs : Nat)
  deriving DecidableEq, Repr

/-- everything `process_minidump_with_options` and the provider are built from -/
structure Plan where
  options : ProcOptions
  localDebuginfo : Bool      -- a `DebugInfoSymbolProvider` is added first
  supplier : Supplier
  interactive : Bool
  deriving DecidableEq, Repr

inductive Planned where
  | usage                    -- clap rejects the value (status 2)
  | panic                    -- `unimplemented!("unknown --features value")`
  | ok (p : Plan)
  deriving DecidableEq, Repr

def applyOverride (kind : String) (old new : Bool) : Bool :=
  if kind == "orAssign" then old || new else new

def overrideKind (field : String) : String :=
  match Gen.overrides.find? (fun p => p.1 == field) with
  | some (_, k) => k
  | none => "none"

/-- `temp_dir.join(leaf)` for the paths used here (no trailing separator on `tempDir`) -/
def joinPath (dir leaf : String) : String := dir ++ "/" ++ leaf

def mergedPaths (a : ProcArgs) : List String :=
  Gen.symbolPathMerge.flatMap fun src =>
    if src == "named" then a.symbolsPath else if src == "legacy" then a.symbolsPathLegacy else []

def interactiveAtom (a : ProcArgs) (json outputFile : Bool) (atom : String) : Bool :=
  match atom with
  | "notJson" => !json
  | "json" => json
  | "notNoInteractive" => !a.noInteractive
  | "noInteractive" => a.noInteractive
  | "noOutputFile" => !outputFile
  | "outputFile" => outputFile
  | _ => false

/-- main.rs:340-403 + 426-455. `json`: JSON output is on (after the cyborg desugaring);
    `outputFile`: `--output-file` was given; `tempDir`: `std::env::temp_dir()`. -/
def plan (tempDir : String) (a : ProcArgs) (json outputFile : Bool) : Planned :=
  if !Gen.featureValues.contains a.features then .usage else
  match Gen.featureArms.find? (fun p => p.1 == a.features) with
  | none => .panic
  | some (_, c) =>
    match ctor c with
    | none => .panic
    | some o =>
      let interactive := Gen.interactiveRule.all (interactiveAtom a json outputFile)
      -- "Now overload the defaults"
      let evil := if overrideKind "evil_json" == "none" then o.evilJson else a.evilJson
      let rec_ := if overrideKind "recover_function_args" == "none" then o.recoverFunctionArgs
                  else applyOverride (overrideKind "recover_function_args") o.recoverFunctionArgs a.recoverFunctionArgs
      let opts : ProcOptions := ⟨evil, rec_, interactive⟩
      let paths := mergedPaths a
      let supplier :=
        if !a.symbolsUrl.isEmpty then
          Supplier.http paths a.symbolsUrl
            (a.symbolsCache.getD (joinPath tempDir Gen.cacheLeaf)) (a.symbolsTmp.getD tempDir) a.timeoutSecs
        else if !paths.isEmpty then Supplier.simple paths
        else Supplier.none
      .ok ⟨opts, a.useLocalDebuginfo, supplier, interactive⟩

/-- `--use-local-debuginfo`: does main.rs hand a dump of this CPU (`minidump::system_info::Cpu` variant
    name) to `DebugInfoSymbolProvider::new`? (main.rs, fix fb88910; `none` = no rule) -/
def localDebuginfoAllowed (cpu : String) : Bool :=
  match Gen.localDebuginfoCpus with
  | none => true
  | some l => l.contains cpu

/-- the `localUnsupported` of `MdModel.Cli.Cfg`: the flag was given and the rule refuses the dump's CPU -/
def localUnsupportedOf (useLocal : Bool) (cpu : String) : Bool := useLocal && !localDebuginfoAllowed cpu

/-! ### line protocol
    `cli opts <features> evil:<0|1> rec:<0|1> local:<0|1> url:<n> cache:<0|1> tmp:<0|1> to:<secs> named:<ids> legacy:<ids> noint:<0|1> json:<0|1> out:<0|1>`
    paths are abstract ids (`a,b,…` or `-`); urls `u1..un`; answer:
    `usage` | `panic` | `ok evil:<0|1> rec:<0|1> stat:<0|1> local:<0|1> sup:<none|simple:ids|http:ids:nurls:cache:tmp:secs> int:<0|1>` -/

def idsOf (s : String) : List String := if s == "-" then [] else Proto.pieces s ","
def showIds (l : List String) : String := if l.isEmpty then "-" else ",".intercalate l
def bit (b : Bool) : String := if b then "1" else "0"

def Supplier.render : Supplier → String
  | .none => "none"
  | .simple ps => s!"simple:{showIds ps}"
  | .http ps us c t s => s!"http:{showIds ps}:{us.length}:{c}:{t}:{s}"

def Planned.render : Planned → String
  | .usage => "usage"
  | .panic => "panic"
  | .ok p => s!"ok evil:{bit p.options.evilJson.isSome} rec:{bit p.options.recoverFunctionArgs} stat:{bit p.options.statReporter} local:{bit p.localDebuginfo} sup:{p.supplier.render} int:{bit p.interactive}"

def field? (pre : String) (s : String) : Option String :=
  if s.startsWith pre then some (s.drop pre.length).toString else none

def bit? (pre s : String) : Option Bool :=
  match field? pre s with
  | some "0" => some false
  | some "1" => some true
  | _ => none

def handleOpts (args : List String) : String :=
  match args with
  | [feat, evil, rec_, loc, url, cache, tmp, to, named, legacy, noint, json, out] =>
    match bit? "evil:" evil, bit? "rec:" rec_, bit? "local:" loc, (field? "url:" url).bind String.toNat?,
          bit? "cache:" cache, bit? "tmp:" tmp, (field? "to:" to).bind String.toNat?,
          field? "named:" named, field? "legacy:" legacy, bit? "noint:" noint, bit? "json:" json, bit? "out:" out with
    | some e, some r, some l, some n, some c, some t, some secs, some nm, some lg, some ni, some j, some o =>
      let a : ProcArgs := {
        features := feat, evilJson := if e then some "EVIL" else none, recoverFunctionArgs := r,
        useLocalDebuginfo := l, symbolsUrl := (List.range n).map (fun i => s!"u{i+1}"),
        symbolsCache := if c then some "CACHE" else none, symbolsTmp := if t then some "TMP" else none,
        timeoutSecs := secs, symbolsPath := idsOf nm, symbolsPathLegacy := idsOf lg, noInteractive := ni }
      (plan "TEMP" a j o).render
    | _, _, _, _, _, _, _, _, _, _, _, _ => "bad-op"
  | _ => "bad-op"

end MdModel.Cli
