/-
  MdModel.Symbolize — model of symbolication (property C11):
    * `SymbolFile::fill_symbol`               (breakpad-symbols/src/sym_file/mod.rs:340-492)
    * `SymbolFile::find_nearest_public`       (mod.rs:528)
    * `Function::{get_outermost_sourceloc, get_innermost_sourceloc, get_inlinee_at_depth}`
                                              (breakpad-symbols/src/sym_file/types.rs:91-147)
    * the tables as built by `SymbolParser::{finish_item, finish}` (parser.rs:660-723): lines with
      size 0 dropped, `into_rangemap_safe` (Option layer) for the line table, INLINE ranges with
      size 0 dropped (`inlinees.retain(|i| i.size > 0)`, /repo 2be1766), `inlinees.sort()`,
      FUNCs pushed only with a valid `memory_range()`, parser copy of `into_rangemap_safe`,
      `publics.sort()`, the STACK WIN overlap repair
    * `fill_source_line_info`'s module lookup and `inlines.reverse()` (minidump-unwind/src/lib.rs:681-703)
    * `core::slice::binary_search_by` as shipped with the toolchain that builds the harness
      (rustc >= 1.82: the branch-free "base/size" loop, no early exit on `Equal`), so that the
      element picked among duplicates is the one the real code picks.
  Range tables come from `MdModel.RangeMap` (C08); table *values* are positions:
  the canonical (= first equal) position of the record in its list, so that value equality in the
  table builder is exactly structural equality of the Rust records.
-/
import MdModel.Prelude
import MdModel.RangeMap
namespace MdModel.Symbolize
open MdModel MdModel.RangeMap

/-- a name (function, file, inline origin): its bytes -/
abbrev Name := List Nat

/-- `SourceLine` -/
structure Line where
  addr : Nat
  size : Nat
  file : Nat
  line : Nat
  deriving DecidableEq, Repr

/-- `Inlinee` (one address range of an INLINE record); field order = derived `Ord` order -/
structure Inl where
  depth : Nat
  addr : Nat
  size : Nat
  callFile : Nat
  callLine : Nat
  origin : Nat
  deriving DecidableEq, Repr

/-- a FUNC record with the sub-records that followed it in the file -/
structure Func where
  addr : Nat
  size : Nat
  psize : Nat
  name : Name
  lines : List Line
  inls : List Inl
  deriving DecidableEq, Repr

/-- `PublicSymbol`; field order = derived `Ord` order -/
structure Pub where
  addr : Nat
  name : Name
  psize : Nat
  deriving DecidableEq, Repr

/-- the records of one symbol file, in file order within each kind -/
structure Recs where
  files : List (Nat × Name) := []
  origins : List (Nat × Name) := []
  pubs : List Pub := []
  funcs : List Func := []
  /-- STACK WIN type 4 (frame data) / type 0 (fpo): address, size, tag = parameter size -/
  win4 : List Rec := []
  win0 : List Rec := []
  deriving Repr

/-! ### orders -/

/-- lexicographic `≤` on lists of numbers (`str`/`String` `Ord` = byte-wise lexicographic;
    derived `Ord` of a struct of integers = lexicographic on the field tuple) -/
def lexLe : List Nat → List Nat → Bool
  | [], _ => true
  | _ :: _, [] => false
  | a :: as, b :: bs => a < b || (a == b && lexLe as bs)

def Inl.key (i : Inl) : List Nat := [i.depth, i.addr, i.size, i.callFile, i.callLine, i.origin]

/-- derived `Ord` on `Inlinee` -/
def inlLe (i j : Inl) : Bool := lexLe i.key j.key

/-- derived `Ord` on `PublicSymbol`: `(address, name, parameter_size)` -/
def pubLe (p q : Pub) : Bool :=
  p.addr < q.addr ||
    (p.addr == q.addr &&
      ((lexLe p.name q.name && p.name != q.name) || (p.name == q.name && p.psize ≤ q.psize)))

/-- `HashMap::get` after the inserts of the file in order: the last insert of a key wins -/
def mapGet (m : List (Nat × Name)) (k : Nat) : Option Name :=
  (m.reverse.find? fun e => e.1 == k).map (·.2)

/-! ### `finish_item` / `finish`: the tables -/

/-- a `Function` as stored in the table -/
structure BFunc where
  addr : Nat
  size : Nat
  psize : Nat
  name : Name
  /-- the line records that survive the `size > 0` filter, in file order -/
  lines : List Line
  /-- `Function.lines`; value = canonical position in `lines` -/
  ltab : List Entry
  /-- `Function.inlinees`: the non-empty ranges, sorted -/
  inls : List Inl
  deriving DecidableEq, Repr

/-- input of the line table's `into_rangemap_safe`: `(address.checked_add(size-1) range, line)` -/
def lineInput (ls : List Line) : List (Option Rng × Val) :=
  ls.map fun l => (mkRangeLine l.addr l.size, ls.idxOf l)

/-- `finish_item` for a FUNC (parser.rs:662-684): empty line records and empty inlinee ranges are
    dropped before the tables are built -/
def finishItem (f : Func) : Outcome BFunc :=
  let ls := f.lines.filter fun l => l.size > 0
  match safe (lineInput ls) with
  | .panic s => .panic s
  | .ok t =>
    .ok { addr := f.addr, size := f.size, psize := f.psize, name := f.name,
          lines := ls, ltab := t,
          inls := (f.inls.filter fun x => x.size > 0).mergeSort inlLe }

def finishAll : List Func → Outcome (List BFunc)
  | [] => .ok []
  | f :: rest =>
    match finishItem f with
    | .panic s => .panic s
    | .ok b =>
      match finishAll rest with
      | .panic s => .panic s
      | .ok bs => .ok (b :: bs)

/-- the line table with the records themselves as values (what `RangeMap<u64, SourceLine>`
    equality looks at) -/
def BFunc.rtab (b : BFunc) : List (Rng × Option Line) := b.ltab.map fun e => (e.1, b.lines[e.2]?)

/-- everything `#[derive(PartialEq)]` on `Function` compares -/
def BFunc.key (b : BFunc) : Nat × Nat × Nat × Name × List (Rng × Option Line) × List Inl :=
  (b.addr, b.size, b.psize, b.name, b.rtab, b.inls)

/-- table value of a function: position of the first structurally equal function -/
def funcVal (bs : List BFunc) (b : BFunc) : Val := (bs.map BFunc.key).idxOf b.key

/-- input of the function table: only functions with `memory_range() = Some` are pushed -/
def funcInput (bs : List BFunc) : List Entry :=
  validOnly (bs.map fun b => (mkRange b.addr b.size, funcVal bs b))

/-- a STACK WIN table: overlap repair while inserting, then the parser copy of the safe builder -/
def winTable (recs : List Rec) : Outcome (List Entry) :=
  match insertWinAll [] recs with
  | .panic s => .panic s
  | .ok v => safeP (v.map fun (r, w) => (r, w.enc))

/-- `SymbolFile` as far as `fill_symbol` reads it -/
structure SymFile where
  files : List (Nat × Name)
  origins : List (Nat × Name)
  /-- sorted -/
  pubs : List Pub
  funcs : List BFunc
  /-- `SymbolFile.functions`; value = canonical position in `funcs` -/
  ftab : List Entry
  wfd : List Entry
  wfpo : List Entry
  deriving Repr

/-- `SymbolParser::finish` on the accumulated records -/
def build (r : Recs) : Outcome SymFile :=
  match finishAll r.funcs with
  | .panic s => .panic s
  | .ok bs =>
    match safeP (funcInput bs) with
    | .panic s => .panic s
    | .ok ftab =>
      match winTable r.win4 with
      | .panic s => .panic s
      | .ok wfd =>
        match winTable r.win0 with
        | .panic s => .panic s
        | .ok wfpo =>
          .ok { files := r.files, origins := r.origins, pubs := r.pubs.mergeSort pubLe,
                funcs := bs, ftab := ftab, wfd := wfd, wfpo := wfpo }

/-! ### `core::slice::binary_search_by` -/

inductive BS where
  | found (i : Nat)
  | notFound (i : Nat)
  deriving DecidableEq, Repr

/-- the `while size > 1` loop; `probe k` = `f(&self[k])`; fuel = initial size (each round removes
    `half ≥ 1` from `size`) -/
def bsLoop (probe : Nat → Ordering) : Nat → Nat → Nat → Nat
  | 0, base, _ => base
  | fuel + 1, base, size =>
    if size > 1 then
      let half := size / 2
      let mid := base + half
      let base' := if probe mid = .gt then base else mid
      bsLoop probe fuel base' (size - half)
    else base

def binarySearchBy (n : Nat) (probe : Nat → Ordering) : BS :=
  if n = 0 then .notFound 0 else
  let base := bsLoop probe n 0 n
  match probe base with
  | .eq => .found base
  | .lt => .notFound (base + 1)
  | .gt => .notFound base

def cmpNat (a b : Nat) : Ordering := if a < b then .lt else if a > b then .gt else .eq

/-- `(inlinee.depth, inlinee.address).cmp(&(depth, addr))` -/
def cmpDepthAddr (depth addr : Nat) (i : Inl) : Ordering :=
  match cmpNat i.depth depth with
  | .eq => cmpNat i.addr addr
  | o => o

/-- probe function over a list; the index is always in range (`bsLoop_lt`), the `none` arm is the
    `get_unchecked` that cannot happen -/
def probeOf {α : Type} (xs : List α) (cmp : α → Ordering) (k : Nat) : Ordering :=
  match xs[k]? with
  | some x => cmp x
  | none => .gt

/-! ### `Function` lookups -/

/-- `Function::get_inlinee_at_depth` (types.rs:120-147); returns the record (the Rust tuple is
    `(call_file, call_line, address, origin_id)` of it) -/
def inlineeAt (inls : List Inl) (depth addr : Nat) : Outcome (Option Inl) :=
  let cand : Outcome (Option Inl) :=
    match binarySearchBy inls.length (probeOf inls (cmpDepthAddr depth addr)) with
    | .found i =>
      match inls[i]? with
      | some x => .ok (some x)
      | none => .panic "get_inlinee_at_depth: self.inlinees[index]"
    | .notFound 0 => .ok none
    | .notFound (i + 1) =>
      match inls[i]? with
      | some x => .ok (some x)
      | none => .panic "get_inlinee_at_depth: self.inlinees[index - 1]"
  match cand with
  | .panic s => .panic s
  | .ok none => .ok none
  | .ok (some x) =>
    if x.depth ≠ depth then .ok none
    else if x.addr + x.size > U64MAX then .ok none          -- `checked_add(..)?`
    else if addr < x.addr + x.size then .ok (some x)
    else .ok none

/-- `self.lines.get(addr)` -/
def lineAt (f : BFunc) (addr : Nat) : Option Line :=
  (get f.ltab addr).bind fun v => f.lines[v]?

/-- `self.functions.get(addr)` -/
def funcAt (funcs : List BFunc) (ftab : List Entry) (addr : Nat) : Option BFunc :=
  (get ftab addr).bind fun v => funcs[v]?

/-! ### `fill_symbol` -/

structure InlineFrame where
  name : Name
  file : Option Name
  line : Option Nat
  deriving DecidableEq, Repr

/-- what a `FrameSymbolizer` receives -/
structure Frame where
  /-- `set_function(name, base, parameter_size)` -/
  fn : Option (Name × Nat × Nat) := none
  /-- `set_source_file(file, line, base)` -/
  src : Option (Name × Nat × Nat) := none
  /-- `add_inline_frame` calls in order -/
  inl : List InlineFrame := []
  deriving DecidableEq, Repr

/-- `u64 + u64` with overflow checks -/
def checkedAdd (a b : Nat) (site : String) : Outcome Nat :=
  if a + b > U64MAX then .panic site else .ok (a + b)

/-- parameter size: frame data, else fpo, else the FUNC's (mod.rs:355-361) -/
def paramSize (sf : SymFile) (addr : Nat) (f : BFunc) : Nat :=
  match get sf.wfd addr with
  | some v => (Rec.dec v).tag
  | none =>
    match get sf.wfpo addr with
    | some v => (Rec.dec v).tag
    | none => f.psize

/-- `if let Some(file) = self.files.get(&file_id) { frame.set_source_file(file, line, address + base) }` -/
def setSource (sf : SymFile) (fr : Frame) (fileId line address base : Nat) : Outcome Frame :=
  match mapGet sf.files fileId with
  | none => .ok fr
  | some file =>
    match checkedAdd address base "set_source_file: address + module.base_address()" with
    | .panic s => .panic s
    | .ok b => .ok { fr with src := some (file, line, b) }

/-- the final `add_inline_frame` after the loop (mod.rs:425-434) -/
def lastInline (sf : SymFile) (f : BFunc) (addr origin : Nat) : List InlineFrame :=
  let (file, line) : Option Name × Option Nat :=
    match lineAt f addr with
    | some l => (mapGet sf.files l.file, if l.line ≠ 0 then some l.line else none)
    | none => (none, none)
  match mapGet sf.origins origin with
  | some name => [⟨name, file, line⟩]
  | none => []

/-- `for depth in 1.. { match func.get_inlinee_at_depth(depth, addr) … }` followed by the final
    frame. `none` = out of fuel (never with fuel `inls.length + 1`: `inline_loop_terminates`). -/
def inlineLoop (sf : SymFile) (f : BFunc) (addr : Nat) :
    Nat → Nat → Nat → Option (Outcome (List InlineFrame))
  | 0, _, _ => none
  | fuel + 1, depth, origin =>
    -- `RangeFrom<u32>::next` computes `depth + 1` before yielding `depth`
    if depth ≥ U32MAX then some (.panic "for depth in 1..: u32 overflow") else
    match inlineeAt f.inls depth addr with
    | .panic s => some (.panic s)
    | .ok none => some (.ok (lastInline sf f addr origin))
    | .ok (some x) =>
      let hd : List InlineFrame :=
        match mapGet sf.origins origin with
        | some name => [⟨name, mapGet sf.files x.callFile, some x.callLine⟩]
        | none => []
      match inlineLoop sf f addr fuel (depth + 1) x.origin with
      | none => none
      | some (.panic s) => some (.panic s)
      | some (.ok rest) => some (.ok (hd ++ rest))

/-- `find_nearest_public`: `self.publics.iter().rev().find(|p| p.address <= addr)` -/
def findNearestPublic (pubs : List Pub) (addr : Nat) : Option Pub :=
  pubs.reverse.find? fun p => p.addr ≤ addr

/-- the nearest previous FUNC of the table (mod.rs:470-475) -/
def prevFunc (sf : SymFile) (addr : Nat) : Option BFunc :=
  match binarySearchBy sf.ftab.length (probeOf sf.ftab fun e => cmpNat e.1.lo addr) with
  | .found _ => none                                  -- `.err()`
  | .notFound 0 => none                               -- `checked_sub(1)`
  | .notFound (i + 1) => (sf.ftab[i]?).bind fun e => sf.funcs[e.2]?

/-- `SymbolFile::fill_symbol(module, frame)` with `module.base_address() = base`,
    `frame.get_instruction() = instr` -/
def fillSymbol (sf : SymFile) (base instr : Nat) : Outcome Frame :=
  if instr < base then .ok {} else
  let addr := instr - base
  match funcAt sf.funcs sf.ftab addr with
  | some f =>
    let ps := paramSize sf addr f
    match checkedAdd f.addr base "set_function: func.address + module.base_address()" with
    | .panic s => .panic s
    | .ok fbase =>
      let fr : Frame := { fn := some (f.name, fbase, ps) }
      -- `get_outermost_sourceloc`: the depth-0 inlinee, else the line record
      match inlineeAt f.inls 0 addr with
      | .panic s => .panic s
      | .ok (some x) =>
        match setSource sf fr x.callFile x.callLine x.addr base with
        | .panic s => .panic s
        | .ok fr =>
          match inlineLoop sf f addr (f.inls.length + 1) 1 x.origin with
          | none => .panic "model: inline loop out of fuel"
          | some (.panic s) => .panic s
          | some (.ok inl) => .ok { fr with inl := inl }
      | .ok none =>
        match lineAt f addr with
        | none => .ok fr
        | some l => setSource sf fr l.file l.line l.addr base
  | none =>
    match findNearestPublic sf.pubs addr with
    | none => .ok {}
    | some p =>
      match prevFunc sf addr with
      | some prev =>
        if p.addr ≤ prev.addr then .ok {}
        else
          match checkedAdd p.addr base "set_function: public.address + module.base_address()" with
          | .panic s => .panic s
          | .ok b => .ok { fn := some (p.name, b, p.psize) }
      | none =>
        match checkedAdd p.addr base "set_function: public.address + module.base_address()" with
        | .panic s => .panic s
        | .ok b => .ok { fn := some (p.name, b, p.psize) }

/-- `fill_source_line_info` for a module list holding the single module `[base, base+msize)`:
    `module_at_address(instruction)`, `fill_symbol`, `frame.inlines.reverse()` -/
def fillSourceLineInfo (sf : SymFile) (base msize instr : Nat) : Outcome Frame :=
  match mkRange base msize with
  | none => .ok {}
  | some r =>
    if r.contains instr then
      match fillSymbol sf base instr with
      | .panic s => .panic s
      | .ok fr => .ok { fr with inl := fr.inl.reverse }
    else .ok {}

/-! ### line protocol
  `symb fill base:<b> msize:<m> q:<a>,<a>,.. r <rec> <rec> ...`   (all numbers decimal)
   rec (file order):  F:<id>:<name>                      FILE
                      O:<id>:<name>                      INLINE_ORIGIN outside a FUNC block
                      P:<addr>:<psize>:<name>            PUBLIC
                      W:<4|0>:<addr>:<size>:<psize>      STACK WIN
                      U:<addr>:<size>:<psize>:<name>     FUNC (opens a block)
                      L:<addr>:<size>:<line>:<file>      line record         (inside a block only)
                      I:<depth>:<line>:<file>:<origin>:<a>/<s>+<a>/<s>..  INLINE (inside a block only)
                      o:<id>:<name>                      INLINE_ORIGIN inside a block
  answer: per query `<a>:fn=..;src=..;inl=..;ws=fn=..;src=..;inl=..` joined by `|`, or `PANIC`
-/

open Proto in
def nameOf (s : String) : Name := s.toUTF8.toList.map UInt8.toNat

def showName (n : Name) : String := String.ofList (n.map Char.ofNat)

structure PState where
  recs : Recs := {}
  cur : Option Func := none

def PState.close (st : PState) : PState :=
  match st.cur with
  | none => st
  | some f => { recs := { st.recs with funcs := st.recs.funcs ++ [f] }, cur := none }

open Proto in
def parseRange (s : String) : Option (Nat × Nat) :=
  match (s.splitOn "/").map optNat with
  | [some a, some b] => some (a, b)
  | _ => none

open Proto in
def parseRec (st : PState) (tok : String) : Option PState :=
  match tok.splitOn ":" with
  | ["F", id, name] => do
    let id ← optNat id
    let st := st.close
    some { st with recs := { st.recs with files := st.recs.files ++ [(id, nameOf name)] } }
  | ["O", id, name] => do
    let id ← optNat id
    let st := st.close
    some { st with recs := { st.recs with origins := st.recs.origins ++ [(id, nameOf name)] } }
  | ["P", a, ps, name] => do
    let a ← optNat a
    let ps ← optNat ps
    let st := st.close
    some { st with recs := { st.recs with pubs := st.recs.pubs ++ [⟨a, nameOf name, ps⟩] } }
  | ["W", ty, a, s, ps] => do
    let a ← optNat a
    let s ← optNat s
    let ps ← optNat ps
    let st := st.close
    if ty == "4" then some { st with recs := { st.recs with win4 := st.recs.win4 ++ [⟨a, s, ps⟩] } }
    else if ty == "0" then some { st with recs := { st.recs with win0 := st.recs.win0 ++ [⟨a, s, ps⟩] } }
    else none
  | ["U", a, s, ps, name] => do
    let a ← optNat a
    let s ← optNat s
    let ps ← optNat ps
    let st := st.close
    some { st with cur := some ⟨a, s, ps, nameOf name, [], []⟩ }
  | ["L", a, s, line, file] => do
    let a ← optNat a
    let s ← optNat s
    let line ← optNat line
    let file ← optNat file
    let f ← st.cur
    some { st with cur := some { f with lines := f.lines ++ [⟨a, s, file, line⟩] } }
  | ["I", d, line, file, origin, ranges] => do
    let d ← optNat d
    let line ← optNat line
    let file ← optNat file
    let origin ← optNat origin
    let f ← st.cur
    let rs := (ranges.splitOn "+").map parseRange
    if rs.isEmpty || rs.any Option.isNone then none else
    let new := rs.filterMap fun r => r.map fun (a, s) => (⟨d, a, s, file, line, origin⟩ : Inl)
    some { st with cur := some { f with inls := f.inls ++ new } }
  | ["o", id, name] => do
    let id ← optNat id
    let _ ← st.cur
    some { st with recs := { st.recs with origins := st.recs.origins ++ [(id, nameOf name)] } }
  | _ => none

def parseRecs : PState → List String → Option Recs
  | st, [] => some st.close.recs
  | st, t :: rest =>
    match parseRec st t with
    | none => none
    | some st' => parseRecs st' rest

def showFrame (fr : Frame) : String :=
  let fn := match fr.fn with
    | some (n, b, p) => s!"{showName n},{b},{p}"
    | none => "-"
  let src := match fr.src with
    | some (f, l, b) => s!"{showName f},{l},{b}"
    | none => "-"
  let opt (o : Option String) : String := o.getD "-"
  let inl := Proto.joinWith "+" (fr.inl.map fun i =>
    s!"{showName i.name}/{opt (i.file.map showName)}/{opt (i.line.map toString)}")
  s!"fn={fn};src={src};inl={inl}"

def showOutcome : Outcome Frame → String
  | .panic _ => "PANIC"
  | .ok fr => showFrame fr

open Proto in
def handle (_engine : String) (args : List String) : String :=
  match args with
  | "fill" :: b :: m :: q :: "r" :: toks =>
    match b.splitOn ":", m.splitOn ":", q.splitOn ":" with
    | ["base", b], ["msize", m], ["q", qs] =>
      match optNat b, optNat m, parseRecs {} toks with
      | some base, some msize, some recs =>
        let qs' := (pieces qs ",").map optNat
        if qs'.any Option.isNone then "bad-op" else
        let qs := qs'.filterMap id
        match build recs with
        | .panic _ => "PANIC"
        | .ok sf =>
          joinWith "|" (qs.map fun a =>
            s!"{a}:{showOutcome (fillSymbol sf base a)};ws={showOutcome (fillSourceLineInfo sf base msize a)}")
      | _, _, _ => "bad-op"
    | _, _, _ => "bad-op"
  | _ => "bad-op"

end MdModel.Symbolize
