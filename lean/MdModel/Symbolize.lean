/-
  MdModel.Symbolize — placeholder (model not written yet).
-/
import MdModel.Prelude
namespace MdModel.Symbolize

/-- line-protocol entry point of this model (engine(s): symb) -/
def handle (_engine : String) (_args : List String) : String := "bad-op"

end MdModel.Symbolize
