/-
  MdModel.Index — model of how `minidump_processor::process_minidump` indexes a dump into a
  `ProcessState` (engine `index`, property C14):
    * `MinidumpInfo::new`                      (minidump-processor/src/processor.rs:495-632)
    * `MinidumpInfo::get_exception_details`    (processor.rs:635-713: reason, address, context)
    * `MinidumpInfo::into_process_state`       (processor.rs:1020-1226: one `CallStack` per thread,
      dump-writer thread skipped, requesting thread, context preference, thread names, process id
      and create time, unloaded-module offsets per frame)
    * the stream readers as far as they decide what the processor sees: thread names (last readable
      duplicate wins, minidump.rs:1402-1437), Breakpad info validity bits (4189-4218), misc-info
      flag-guarded fields (3455-3560, 4058-4063), module list (bad sizes dropped, 1541-1569),
      unloaded module list (bad size ⇒ whole stream fails, 1647-1671), `/proc/<pid>/status`
      (`Pid` entry, process_state.rs:113-123).
  The crash reason and address live in `MdModel.Reason`; the range tables in `MdModel.RangeMap` (C08).

  A dump is described abstractly (`Dump`); contexts are abstracted to "readable with instruction
  pointer ip" or "unreadable" (what `MinidumpContext::read(..).ok()` yields), which is exactly the
  information `into_process_state` uses before stack walking. The engine builds real dump bytes
  from the same description; threads get no stack memory, so the walk yields the context frame only.
-/
import MdModel.Prelude
import MdModel.RangeMap
import MdModel.Reason
namespace MdModel.Index
open MdModel
open MdModel.Reason (Exc Reason Os Cpu)

/-- One `MINIDUMP_THREAD`: its id and what `thread.context(..)` yields on a CPU that has a
    context format (`some ip` = readable context with that instruction pointer). -/
structure Thread where
  id : Nat
  ctx : Option Nat
  deriving Repr, DecidableEq

/-- `MINIDUMP_BREAKPAD_INFO` -/
structure Breakpad where
  validity : Nat
  dumpId : Nat
  reqId : Nat
  deriving Repr

/-- `MINIDUMP_MISC_INFO` (the fields C14 is about; any version of the struct) -/
structure Misc where
  flags : Nat
  pid : Nat
  ctime : Nat
  deriving Repr

/-- a (loaded or unloaded) module record: base, size, name -/
structure Mod where
  base : Nat
  size : Nat
  name : String
  deriving Repr, DecidableEq

/-- The abstract dump. `none` for a stream = absent (or unreadable as a whole). -/
structure Dump where
  platformId : Nat
  arch : Nat
  timestamp : Nat
  /-- thread list stream; `none` ⇒ `ProcessError::MissingThreadList` -/
  threads : Option (List Thread)
  /-- thread-names stream entries in stream order; name `none` = unreadable string -/
  names : List (Nat × Option String)
  breakpad : Option Breakpad
  /-- exception stream and its context -/
  exc : Option (Exc × Option Nat)
  misc : Option Misc
  /-- `/proc/<pid>/status` as key/value lines -/
  status : Option (List (String × String))
  modules : List Mod
  unloaded : List Mod
  deriving Repr

inductive Info where
  | ok | missingContext | dumpThreadSkipped
  deriving DecidableEq, Repr

/-- One `CallStack` as far as indexing is concerned. -/
structure Stack where
  id : Nat
  name : Option String
  info : Info
  /-- instruction of the context frame -/
  frame0 : Option Nat
  /-- (unloaded module name, offset) of the context frame, in `by_addr` order -/
  unloaded : List (String × Nat)
  deriving Repr, DecidableEq

structure State where
  stacks : List Stack
  requesting : Option Nat
  /-- `exception_info`: reason and crash address -/
  exc : Option (Reason × Nat)
  pid : Option Nat
  ctime : Option Nat
  time : Nat
  modules : List Mod
  unloaded : List Mod
  deriving Repr

/-! ### stream readers -/

/-- `MinidumpThreadNames::read` + `get_name`: a `BTreeMap` filled in stream order, unreadable
    strings skipped ⇒ the last *readable* entry with this id. -/
def nameOf (names : List (Nat × Option String)) (id : Nat) : Option String :=
  names.foldl (fun acc e => if e.1 = id then (match e.2 with | some n => some n | none => acc) else acc) none

/-- `MinidumpBreakpadInfo::read`: `dump_thread_id` guarded by validity bit 0 -/
def dumpThreadId (b : Option Breakpad) : Option Nat :=
  match b with
  | some b => if b.validity % 2 = 1 then some b.dumpId else none
  | none => none

/-- `requesting_thread_id` guarded by validity bit 1 -/
def bpRequestingId (b : Option Breakpad) : Option Nat :=
  match b with
  | some b => if (b.validity / 2) % 2 = 1 then some b.reqId else none
  | none => none

/-- `crashing_thread_id.or(self.requesting_thread_id)`: the exception stream's thread id whenever
    an exception stream exists, else Breakpad's requesting thread id. -/
def requestingId (d : Dump) : Option Nat :=
  match d.exc with
  | some (e, _) => some e.tid
  | none => bpRequestingId d.breakpad

/-- what `MinidumpContext::read(..).ok()` yields for a context on this dump's architecture -/
def readCtx (d : Dump) (c : Option Nat) : Option Nat :=
  if Reason.archHasContext d.arch then c else none

/-- `exception_details.context` -/
def excCtx (d : Dump) : Option Nat :=
  match d.exc with
  | some (_, c) => readCtx d c
  | none => none

/-- `"…".parse::<u32>()`: optional `+`, at least one ASCII digit, value ≤ u32::MAX -/
def parseU32 (s : String) : Option Nat :=
  let cs := s.toList
  let ds := match cs with
    | '+' :: rest => rest
    | _ => cs
  if ds.isEmpty then none
  else if ds.all Char.isDigit then
    let v := ds.foldl (fun a c => a * 10 + (c.toNat - '0'.toNat)) 0
    if v ≤ U32MAX then some v else none
  else none

/-- `LinuxProcStatus::from`: first `Pid` entry, unparsable ⇒ 0; no entry ⇒ 0 -/
def statusPid (kv : List (String × String)) : Nat :=
  match kv.find? (fun e => e.1 == "Pid") with
  | some e => (parseU32 e.2).getD 0
  | none => 0

/-- `process_id`: misc-info (flag `MINIDUMP_MISC1_PROCESS_ID`) if the stream exists, else Linux status -/
def processId (d : Dump) : Option Nat :=
  match d.misc with
  | some m => if m.flags % 2 = 1 then some m.pid else none
  | none => d.status.map statusPid

/-- `process_create_time`: misc-info only (flag `MINIDUMP_MISC1_PROCESS_TIMES`), seconds since epoch -/
def createTime (d : Dump) : Option Nat :=
  match d.misc with
  | some m => if (m.flags / 2) % 2 = 1 then some m.ctime else none
  | none => none

/-- module / unloaded-module size test shared by both readers -/
def badSize (m : Mod) : Bool := m.size = 0 || m.size > U64MAX - m.base

/-- `MinidumpModuleList::read`: bad entries are dropped -/
def loadedModules (d : Dump) : List Mod := d.modules.filter (fun m => !badSize m)

/-- `MinidumpUnloadedModuleList::read`: one bad entry fails the stream ⇒ empty list -/
def unloadedModules (d : Dump) : List Mod :=
  if d.unloaded.any badSize then [] else d.unloaded

/-- `modules.module_at_address(a).is_some()` through C08's `into_rangemap_safe` + `RangeMap::get`.
    `none` = the `unwrap` in `into_rangemap_safe` fired (C08 proves it cannot). -/
def inLoadedModule (ms : List Mod) (a : Nat) : Option Bool :=
  match RangeMap.safe (ms.zipIdx.map fun (m, i) => (RangeMap.mkRange m.base m.size, i)) with
  | .ok t => some (RangeMap.get t a).isSome
  | .panic _ => none

/-- `frame.instruction - unloaded.raw.base_of_image` for every module of
    `unloaded_modules.modules_at_address(frame.instruction)`; overflow checks are on, so a module
    that did not cover the address would be a panic (`none`). -/
def offsetsAt (ums : List Mod) (a : Nat) : Option (List (String × Nat)) :=
  let table := RangeMap.unloadedFrom (ums.map fun m => RangeMap.mkRange m.base m.size)
  (RangeMap.unloadedAt table a).mapM fun i =>
    match ums[i]? with
    | some m => if m.base ≤ a then some (m.name, a - m.base) else none
    | none => none

/-- `frame.unloaded_modules` of a frame at `a`: only when no loaded module covers it -/
def frameUnloaded (ms ums : List Mod) (a : Nat) : Option (List (String × Nat)) :=
  match inLoadedModule ms a with
  | none => none
  | some true => some []
  | some false => offsetsAt ums a

/-! ### into_process_state -/

/-- this thread is the dump-writer thread (`self.dump_thread_id == Some(id)`) -/
def isDumpThread (d : Dump) (t : Thread) : Bool := dumpThreadId d.breakpad == some t.id

/-- the closure marks this thread as requesting: not skipped, and its id is the requesting id -/
def isRequesting (d : Dump) (t : Thread) : Bool :=
  !isDumpThread d t && requestingId d == some t.id

/-- the context the walk of this thread starts from -/
def startCtx (d : Dump) (t : Thread) : Option Nat :=
  if isDumpThread d t then none
  else if isRequesting d t then (excCtx d).orElse (fun _ => readCtx d t.ctx)
  else readCtx d t.ctx

/-- the `CallStack` built for one thread (before unloaded-module attribution) -/
def stackOf (d : Dump) (t : Thread) : Stack :=
  if isDumpThread d t then
    -- `CallStack::with_info(id, DumpThreadSkipped)` + its name from the names stream: no frames
    { id := t.id, name := nameOf d.names t.id, info := .dumpThreadSkipped, frame0 := none, unloaded := [] }
  else
    match startCtx d t with
    | some ip => { id := t.id, name := nameOf d.names t.id, info := .ok, frame0 := some ip, unloaded := [] }
    | none => { id := t.id, name := nameOf d.names t.id, info := .missingContext, frame0 := none, unloaded := [] }

/-- the `.enumerate().map(..)` over the thread list with its side effect on `requesting_thread`:
    returns the call stacks and the final value of `requesting_thread` (last assignment wins). -/
def loop (d : Dump) : Nat → List Thread → Option Nat → List Stack × Option Nat
  | _, [], req => ([], req)
  | i, t :: ts, req =>
    let r := loop d (i + 1) ts (if isRequesting d t then some i else req)
    (stackOf d t :: r.1, r.2)

/-- attach `frame.unloaded_modules` to the context frame; `none` = panic -/
def attachUnloaded (ms ums : List Mod) : List Stack → Option (List Stack)
  | [] => some []
  | s :: rest =>
    match s.frame0 with
    | none => (attachUnloaded ms ums rest).map (s :: ·)
    | some a =>
      match frameUnloaded ms ums a, attachUnloaded ms ums rest with
      | some u, some r => some ({ s with unloaded := u } :: r)
      | _, _ => none

inductive Result where
  | missingThreadList
  | panic
  | state (s : State)
  deriving Repr

/-- `process_minidump` as far as C14 observes it. -/
def index (d : Dump) : Result :=
  match d.threads with
  | none => .missingThreadList
  | some ts =>
    let os := Os.ofPlatformId d.platformId
    let cpu := Cpu.ofArch d.arch
    let (stacks, req) := loop d 0 ts none
    let ms := loadedModules d
    let ums := unloadedModules d
    match attachUnloaded ms ums stacks with
    | none => .panic
    | some stacks =>
      .state {
        stacks := stacks
        requesting := req
        exc := d.exc.map fun (e, _) => (Reason.fromException e os cpu, Reason.crashAddress e os cpu)
        pid := processId d
        ctime := createTime d
        time := d.timestamp
        modules := ms
        unloaded := ums }

/-! ### line protocol
  request (fields `key=value`, in this order, numbers decimal):
    `index ts=<u32> os=<platform id> cpu=<arch> th=<T> nm=<N> bp=<B> ex=<E> mi=<M> st=<S> mo=<L> um=<L>`
    T = `-` (no thread list) | `.` (empty) | `id:ctx,..`   ctx = `r<ip>` | `u<mode>`
    N = `-`/`.` | `id:name,..`  name = `!` for an unreadable string
    B = `-` | `validity:dump:req`
    E = `-` | `x` (unreadable stream) | `tid:code:flags:addr:np:p0:p1:p2:ctx`
    M = `-` | `x` | `flags:pid:ctime:version`
    S = `-` | `.` | `Key~value,..`
    L = `.` | `base:size:name,..`
  answer:
    `threads:id/name/info/ip/name=off+off&..;.. req:i exc:Reason addr:n pid:n ctime:n time:n mods:b:s:n,.. umods:..`
    | `err:MissingThreadList` | `PANIC`
-/
namespace Parse
open Proto

def kv (tok : String) (key : String) : Option String :=
  if tok.startsWith (key ++ "=") then some (tok.drop (key.length + 1)).toString else none

def ctx (s : String) : Option (Option Nat) :=
  if s.startsWith "r" then (optNat (s.drop 1).toString).map some
  else if s.startsWith "u" then (optNat (s.drop 1).toString).map fun _ => none
  else none

def listOf {α} (s : String) (item : String → Option α) : Option (List α) :=
  if s == "." then some [] else (s.splitOn ",").mapM item

def thread (s : String) : Option Thread :=
  match s.splitOn ":" with
  | [a, c] => do let id ← optNat a; let c ← ctx c; pure ⟨id, c⟩
  | _ => none

def nameEntry (s : String) : Option (Nat × Option String) :=
  match s.splitOn ":" with
  | [a, n] => do
    let id ← optNat a
    if n == "!" then pure (id, none) else if n.isEmpty then none else pure (id, some n)
  | _ => none

def modEntry (s : String) : Option Mod :=
  match s.splitOn ":" with
  | [b, z, n] => do let b ← optNat b; let z ← optNat z; if n.isEmpty then none else pure ⟨b, z, n⟩
  | _ => none

def statusEntry (s : String) : Option (String × String) :=
  match s.splitOn "~" with
  | [k, v] => if k.isEmpty then none else some (k, v)
  | _ => none

def exc (s : String) : Option (Option (Exc × Option Nat)) :=
  if s == "-" || s == "x" then some none else
  match s.splitOn ":" with
  | [tid, code, flags, addr, np, p0, p1, p2, c] => do
    let tid ← optNat tid; let code ← optNat code; let flags ← optNat flags; let addr ← optNat addr
    let np ← optNat np; let p0 ← optNat p0; let p1 ← optNat p1; let p2 ← optNat p2; let c ← ctx c
    pure (some (⟨tid, code, flags, addr, np, p0, p1, p2⟩, c))
  | _ => none

def breakpad (s : String) : Option (Option Breakpad) :=
  if s == "-" then some none else
  match (s.splitOn ":").map optNat with
  | [some v, some dmp, some r] => some (some ⟨v, dmp, r⟩)
  | _ => none

def misc (s : String) : Option (Option Misc) :=
  if s == "-" || s == "x" then some none else
  match (s.splitOn ":").map optNat with
  | [some f, some p, some c, some _ver] => some (some ⟨f, p, c⟩)
  | _ => none

def dump (args : List String) : Option Dump :=
  match args with
  | [ts, os, cpu, th, nm, bp, ex, mi, st, mo, um] => do
    let ts ← (kv ts "ts").bind optNat
    let os ← (kv os "os").bind optNat
    let cpu ← (kv cpu "cpu").bind optNat
    let th ← kv th "th"
    let threads ← if th == "-" then pure none else (listOf th thread).map some
    let nm ← kv nm "nm"
    let names ← if nm == "-" then pure [] else listOf nm nameEntry
    let bp ← (kv bp "bp").bind breakpad
    let ex ← (kv ex "ex").bind exc
    let mi ← (kv mi "mi").bind misc
    let st ← kv st "st"
    let status ← if st == "-" then pure none else (listOf st statusEntry).map some
    let mo ← (kv mo "mo").bind (listOf · modEntry)
    let um ← (kv um "um").bind (listOf · modEntry)
    pure { platformId := os, arch := cpu, timestamp := ts, threads := threads, names := names,
           breakpad := bp, exc := ex, misc := mi, status := status, modules := mo, unloaded := um }
  | _ => none

end Parse

def optStr (o : Option Nat) : String := match o with | some n => toString n | none => "-"

/-- canonical rendering of `frame.unloaded_modules` (a `BTreeMap<String, BTreeSet<u64>>`):
    distinct (name, offset) pairs ordered by name, then offset -/
def renderOffsets (u : List (String × Nat)) : String :=
  let sorted := (u.eraseDups).mergeSort fun a b => a.1 < b.1 || (a.1 == b.1 && a.2 ≤ b.2)
  let names := (sorted.map (·.1)).eraseDups
  "&".intercalate (names.map fun n =>
    n ++ "=" ++ "+".intercalate ((sorted.filter (·.1 == n)).map fun e => toString e.2))

def renderStack (s : Stack) : String :=
  let info := match s.info with
    | .ok => "ok" | .missingContext => "missing" | .dumpThreadSkipped => "skipped"
  s!"{s.id}/{s.name.getD "-"}/{info}/{optStr s.frame0}/{renderOffsets s.unloaded}"

def renderMods (ms : List Mod) : String :=
  ",".intercalate (ms.map fun m => s!"{m.base}:{m.size}:{m.name}")

def render : Result → String
  | .missingThreadList => "err:MissingThreadList"
  | .panic => "PANIC"
  | .state s =>
    let exc := match s.exc with
      | some (r, a) => s!"exc:{r.render} addr:{a}"
      | none => "exc:- addr:-"
    s!"threads:{";".intercalate (s.stacks.map renderStack)} req:{optStr s.requesting} {exc} " ++
    s!"pid:{optStr s.pid} ctime:{optStr s.ctime} time:{s.time} mods:{renderMods s.modules} umods:{renderMods s.unloaded}"

/-- line-protocol entry point of this model (engine: index) -/
def handle (_engine : String) (args : List String) : String :=
  match args with
  | ["table", name] =>
    -- the translated table itself, for validation against the real `from_u32`
    match Gen.Enums.all.find? (·.1 == name) with
    | some (_, t) => ",".intercalate (t.map fun e => s!"{e.1}={e.2}")
    | none => "bad-op"
  | _ =>
    match Parse.dump args with
    | some d => render (index d)
    | none => "bad-op"

end MdModel.Index
