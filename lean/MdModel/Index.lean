/-
  MdModel.Index — placeholder (model not written yet).
-/
import MdModel.Prelude
namespace MdModel.Index

/-- line-protocol entry point of this model (engine(s): index) -/
def handle (_engine : String) (_args : List String) : String := "bad-op"

end MdModel.Index
