/-
  MdModel.Index — model of how `minidump_processor::process_minidump` indexes a dump into a
  `ProcessState` (engine `index`, property C14):
    * `MinidumpInfo::new`                      (minidump-processor/src/processor.rs:495-639)
    * `MinidumpInfo::get_exception_details`    (processor.rs:642-720: reason, address, context)
    * `MinidumpInfo::into_process_state`       (processor.rs:1027-1239: one `CallStack` per thread,
      dump-writer thread skipped, requesting thread, context preference, thread names, process id
      and create time, STACK-MEMORY SELECTION (1166-1183), `walk_stack` on the selected memory
      (1185-1198), unloaded-module offsets for every frame (1200-1218))
    * the stream readers as far as they decide what the processor sees: thread names (last readable
      duplicate wins, minidump.rs:1402-1437), Breakpad info validity bits, misc-info flag-guarded
      fields, module list (bad sizes dropped; an unreadable name fails the stream, 1541-1569),
      unloaded module list (bad size or unreadable name ⇒ whole stream fails, 1647-1671),
      `/proc/<pid>/status`, the thread's stack descriptor (`MinidumpMemory::read`, 1979-1999),
      `MinidumpThread::stack_memory` (2865-2878), `Minidump::get_memory` (5635-5643: memory-64 list
      preferred), `MinidumpMemoryList::read` (unreadable descriptors dropped, 2314-2334),
      `memory_at_address` (C08's range table, 2162-2184), `get_memory_at_address::<u64>` (2048-2055).
  The crash reason and address live in `MdModel.Reason`; the range tables in `MdModel.RangeMap`
  (C08); the stack walker in `MdModel.Walk` (C05/C04): `index` CALLS `Walk.walk` on the selected
  memory with the chosen start context, so every call stack of the state is a walk by construction.
  The copy rules (system info, LSB, macOS crash info, …) are in `MdModel.IndexCopy`.

  A dump is described abstractly (`Dump`). A context is "readable with these register values" or
  "unreadable" (what `MinidumpContext::read(..).ok()` yields): ip / sp / frame pointer and any
  other general-purpose registers (`Regs.rest`; a register not listed is 0). The symbol supplier is
  part of the description (`Dump.syms`: per module NAME the FUNC / PUBLIC / STACK CFI records and
  the STACK WIN records of its symbol file), so walks use CFI / STACK WIN where records exist and
  frames carry the function `fill_symbol` finds. Names are what `read_string_utf16` yields
  (`none` = unreadable or not well-formed UTF-16; the protocol layer decodes the code units with
  C01's `utf16Decode`). A BIG-endian dump's stack memory is read big-endian
  (`MinidumpMemoryBase::get_memory_at_address` uses the dump's byte order): `walkMem` hands the
  walker model a `Mem` with `be := d.bigEndian`.
-/
import MdModel.Prelude
import MdModel.RangeMap
import MdModel.Reason
import MdModel.Dump
import MdModel.Walk
import MdModel.IndexCopy
namespace MdModel.Index
open MdModel
open MdModel.Reason (Exc Reason Os Cpu)
open MdModel.Gen
open MdModel.Walk (Mem)

/-- the registers of a context record: instruction pointer, stack pointer, frame pointer, and
    the other general-purpose registers by canonical name (a register not listed is 0) -/
structure Regs where
  ip : Nat
  sp : Nat := 0
  fp : Nat := 0
  rest : List (String × Nat) := []
  deriving Repr, DecidableEq

/-- `MINIDUMP_THREAD.stack` as `MinidumpMemory::read` sees it -/
inductive StackDesc where
  /-- rva 0, or a location outside the file -/
  | unreadable
  /-- `data_size = b.size` bytes at a valid location (size 0 is unreadable too) -/
  | bytes (b : Array UInt8)
  deriving Repr, DecidableEq

/-- One `MINIDUMP_THREAD`: its id, what `thread.context(..)` yields on a CPU that has a context
    format, and its stack descriptor. -/
structure Thread where
  id : Nat
  ctx : Option Regs
  /-- `stack.start_of_memory_range` -/
  stackStart : Nat := 0
  stack : StackDesc := .unreadable
  deriving Repr, DecidableEq

/-- `MINIDUMP_BREAKPAD_INFO` -/
structure Breakpad where
  validity : Nat
  dumpId : Nat
  reqId : Nat
  deriving Repr

/-- `MINIDUMP_MISC_INFO` (the fields C14 is about; any version of the struct) -/
structure Misc where
  flags : Nat
  pid : Nat
  ctime : Nat
  deriving Repr

/-- a module record of a stream: base, size, and the name if `read_string_utf16` yields one -/
structure RawMod where
  base : Nat
  size : Nat
  name : Option String
  deriving Repr, DecidableEq

/-- a (loaded or unloaded) module of the process state -/
structure Mod where
  base : Nat
  size : Nat
  name : String
  deriving Repr, DecidableEq

/-- a `MINIDUMP_MEMORY_DESCRIPTOR` of the memory list: `bytes = none` when the location cannot be
    read (rva 0 or outside the file) -/
structure MemDesc where
  base : Nat
  bytes : Option (Array UInt8)
  deriving Repr

/-- The abstract dump. `none` for a stream = absent (or unreadable as a whole). -/
structure Dump where
  platformId : Nat
  arch : Nat
  timestamp : Nat
  /-- thread list stream; `none` ⇒ `ProcessError::MissingThreadList` -/
  threads : Option (List Thread)
  /-- thread-names stream entries in stream order; name `none` = unreadable string -/
  names : List (Nat × Option String)
  breakpad : Option Breakpad
  /-- exception stream and its context -/
  exc : Option (Exc × Option Regs)
  misc : Option Misc
  /-- `/proc/<pid>/status` as key/value lines -/
  status : Option (List (String × String))
  modules : List RawMod
  unloaded : List RawMod
  /-- the dump is big-endian (swapped signature) -/
  bigEndian : Bool := false
  /-- memory list stream -/
  memList : Option (List MemDesc) := none
  /-- memory-64 list stream; `some none` = present but unreadable -/
  mem64 : Option (Option (List Mem)) := none
  sys : SysRaw := {}
  /-- `/etc/lsb-release` stream as key/value lines -/
  lsb : Option (List (String × String)) := none
  /-- records of a readable macOS crash-info stream -/
  macCrash : Option (List MacRec) := none
  /-- macOS boot-args stream: `some s` = stream readable, `s` = the string if IT is readable -/
  bootArgs : Option (Option String) := none
  /-- number of descriptors of a readable handle-data stream -/
  handles : Option Nat := none
  /-- what the symbol supplier has, keyed by module name (`module.code_file()`): the FUNC / PUBLIC /
      STACK CFI records and the STACK WIN records of the module's symbol file -/
  syms : List (String × Walk.SymFile × List Win.Rec) := []

inductive Info where
  | ok | missingContext | dumpThreadSkipped
  deriving DecidableEq, Repr

/-- a frame of the process state: the walker's frame and `frame.unloaded_modules`
    ((name, offset) pairs in `by_addr` order) -/
structure IFrame where
  f : Walk.Frame
  unloaded : List (String × Nat)

/-- One `CallStack` as far as indexing is concerned. -/
structure Stack where
  id : Nat
  name : Option String
  info : Info
  frames : List IFrame

structure State where
  stacks : List Stack
  requesting : Option Nat
  /-- `exception_info`: reason and crash address -/
  exc : Option (Reason × Nat)
  pid : Option Nat
  ctime : Option Nat
  time : Nat
  modules : List Mod
  unloaded : List Mod
  sys : SysInfo
  lsb : Option Lsb
  macCrash : Option (List MacOut)
  bootArgs : Option (Option String)
  /-- `assertion` -/
  assertion : Option String
  /-- `cert_info` (module name, certificate) -/
  certs : List (String × String)
  handles : Option Nat

/-! ### stream readers -/

/-- `MinidumpThreadNames::read` + `get_name`: a `BTreeMap` filled in stream order, unreadable
    strings skipped ⇒ the last *readable* entry with this id. -/
def nameOf (names : List (Nat × Option String)) (id : Nat) : Option String :=
  names.foldl (fun acc e => if e.1 = id then (match e.2 with | some n => some n | none => acc) else acc) none

/-- `MinidumpBreakpadInfo::read`: `dump_thread_id` guarded by validity bit 0 -/
def dumpThreadId (b : Option Breakpad) : Option Nat :=
  match b with
  | some b => if b.validity % 2 = 1 then some b.dumpId else none
  | none => none

/-- `requesting_thread_id` guarded by validity bit 1 -/
def bpRequestingId (b : Option Breakpad) : Option Nat :=
  match b with
  | some b => if (b.validity / 2) % 2 = 1 then some b.reqId else none
  | none => none

/-- `crashing_thread_id.or(self.requesting_thread_id)`: the exception stream's thread id whenever
    an exception stream exists, else Breakpad's requesting thread id. -/
def requestingId (d : Dump) : Option Nat :=
  match d.exc with
  | some (e, _) => some e.tid
  | none => bpRequestingId d.breakpad

/-- what `MinidumpContext::read(..).ok()` yields for a context on this dump's architecture -/
def readCtx (d : Dump) (c : Option Regs) : Option Regs :=
  if Reason.archHasContext d.arch then c else none

/-- `exception_details.context` -/
def excCtx (d : Dump) : Option Regs :=
  match d.exc with
  | some (_, c) => readCtx d c
  | none => none

/-- `"…".parse::<u32>()`: optional `+`, at least one ASCII digit, value ≤ u32::MAX -/
def parseU32 (s : String) : Option Nat :=
  let cs := s.toList
  let ds := match cs with
    | '+' :: rest => rest
    | _ => cs
  if ds.isEmpty then none
  else if ds.all Char.isDigit then
    let v := ds.foldl (fun a c => a * 10 + (c.toNat - '0'.toNat)) 0
    if v ≤ U32MAX then some v else none
  else none

/-- `LinuxProcStatus::from`: first `Pid` entry, unparsable ⇒ 0; no entry ⇒ 0 -/
def statusPid (kv : List (String × String)) : Nat :=
  match kv.find? (fun e => e.1 == "Pid") with
  | some e => (parseU32 e.2).getD 0
  | none => 0

/-- `process_id`: misc-info (flag `MINIDUMP_MISC1_PROCESS_ID`) if the stream exists, else Linux status -/
def processId (d : Dump) : Option Nat :=
  match d.misc with
  | some m => if m.flags % 2 = 1 then some m.pid else none
  | none => d.status.map statusPid

/-- `process_create_time`: misc-info only (flag `MINIDUMP_MISC1_PROCESS_TIMES`), seconds since epoch -/
def createTime (d : Dump) : Option Nat :=
  match d.misc with
  | some m => if (m.flags / 2) % 2 = 1 then some m.ctime else none
  | none => none

/-- module / unloaded-module size test shared by both readers -/
def badSize (m : RawMod) : Bool := m.size = 0 || m.size > U64MAX - m.base

def RawMod.toMod (m : RawMod) : Mod := ⟨m.base, m.size, m.name.getD ""⟩

/-- `MinidumpModuleList::read`: entries with an impossible size are dropped; a remaining entry
    whose name cannot be read fails the stream (`MinidumpModule::read(..)?`) ⇒ empty list -/
def loadedModules (d : Dump) : List Mod :=
  let ok := d.modules.filter (fun m => !badSize m)
  if ok.any (fun m => m.name.isNone) then [] else ok.map RawMod.toMod

/-- `MinidumpUnloadedModuleList::read`: one bad size or one unreadable name fails the stream -/
def unloadedModules (d : Dump) : List Mod :=
  if d.unloaded.any badSize || d.unloaded.any (fun m => m.name.isNone) then [] else d.unloaded.map RawMod.toMod

/-- `MinidumpMemoryList::read`: descriptors whose `MinidumpMemory::read` fails (rva 0, size 0,
    outside the file) are skipped -/
def memoryOfList (l : List MemDesc) : List Mem :=
  l.filterMap fun e =>
    match e.bytes with
    | some b => if b.size = 0 then none else some { base := e.base, bytes := b }
    | none => none

/-- `Minidump::get_memory().unwrap_or_default()`: the memory-64 list if that stream can be read,
    else the memory list, else nothing -/
def memoryList (d : Dump) : List Mem :=
  match d.mem64 with
  | some (some rs) => rs
  | _ =>
    match d.memList with
    | some l => memoryOfList l
    | none => []

/-- input of `into_rangemap_safe` for a memory list: `(region.memory_range(), index)` -/
def memEntries (rs : List Mem) : List (Option RangeMap.Rng × Nat) :=
  rs.zipIdx.map fun (m, i) => (RangeMap.mkRange m.base m.size, i)

/-- input of `into_rangemap_safe` for the loaded modules -/
def modEntries (ms : List Mod) : List (Option RangeMap.Rng × Nat) :=
  ms.zipIdx.map fun (m, i) => (RangeMap.mkRange m.base m.size, i)

/-- `memory_list.memory_at_address(a)`: C08's table, then the region by index -/
def memAt (rs : List Mem) (a : Nat) : Option Mem :=
  (RangeMap.get (RangeMap.safeVec (memEntries rs)) a).bind fun i => rs[i]?

/-- the `unwrap` inside `into_rangemap_safe` does not fire (C08 proves it never does) -/
def tableOk (xs : List (Option RangeMap.Rng × Nat)) : Bool :=
  match RangeMap.safe xs with
  | .ok _ => true
  | .panic _ => false

/-- `frame.instruction - unloaded.raw.base_of_image` for every module of
    `unloaded_modules.modules_at_address(frame.instruction)`; overflow checks are on, so a module
    that did not cover the address would be a panic (`none`). -/
def offsetsAt (ums : List Mod) (a : Nat) : Option (List (String × Nat)) :=
  let table := RangeMap.unloadedFrom (ums.map fun m => RangeMap.mkRange m.base m.size)
  (RangeMap.unloadedAt table a).mapM fun i =>
    match ums[i]? with
    | some m => if m.base ≤ a then some (m.name, a - m.base) else none
    | none => none

/-! ### stack-memory selection (processor.rs:1166-1183) -/

/-- `thread.stack`: what `MinidumpMemory::read(&raw.stack, ..).ok()` yields -/
def ownDesc (t : Thread) : Option Mem :=
  match t.stack with
  | .bytes b => if b.size = 0 then none else some { base := t.stackStart, bytes := b }
  | .unreadable => none

/-- `thread.stack_memory(memory_list)`: the thread's own stack descriptor if readable, else the
    region of the memory list that contains `stack.start_of_memory_range` -/
def ownStack (mem : List Mem) (t : Thread) : Option Mem :=
  match ownDesc t with
  | some m => some m
  | none => memAt mem t.stackStart

/-- `memory.get_memory_at_address::<u64>(sp).is_some()`: EIGHT bytes at `sp` lie inside the
    region, whatever the pointer width of the CPU -/
def hasWord (m : Option Mem) (sp : Nat) : Bool := (m.bind fun m => m.read sp 8).isSome

/-- the memory handed to `walk_stack`: the thread's own stack memory when it holds eight bytes at
    the START context's stack pointer (or when there is no start context), else the region of the
    memory list containing that stack pointer, else the thread's own stack memory after all -/
def selectMem (mem : List Mem) (t : Thread) (sp : Option Nat) : Option Mem :=
  let own := ownStack mem t
  match sp with
  | none => own
  | some sp =>
    if hasWord own sp then own
    else
      match memAt mem sp with
      | some r => some r
      | none => own

/-! ### the walk of one thread -/

/-- the unwinder `get_caller_frame` dispatches to for contexts of this architecture
    (minidump-unwind/src/lib.rs:665-678); PPC, PPC64 and SPARC contexts have none -/
def unwinderOf (arch : Nat) : Option Walk.Arch :=
  match Reason.lookup Enums.ProcessorArchitecture arch with
  | some "PROCESSOR_ARCHITECTURE_INTEL" | some "PROCESSOR_ARCHITECTURE_IA32_ON_WIN64" => some .x86
  | some "PROCESSOR_ARCHITECTURE_AMD64" => some .amd64
  | some "PROCESSOR_ARCHITECTURE_ARM" => some .arm
  | some "PROCESSOR_ARCHITECTURE_ARM64" => some .arm64
  | some "PROCESSOR_ARCHITECTURE_ARM64_OLD" => some .arm64old
  | some "PROCESSOR_ARCHITECTURE_MIPS" => some .mips32
  | _ => none

/-- the distinctions of `system_info.os` the unwinders observe -/
def walkOs (os : Os) : Walk.Os :=
  match os with
  | .windows => .windows
  | .ios => .ios
  | _ => .other

def fpName : Walk.Arch → String
  | .x86 => "ebp"
  | .amd64 => "rbp"
  | _ => "fp"

/-- `MinidumpContext::from_raw`: all registers valid, with the values of the context record -/
def toCtx (arch : Nat) (r : Regs) : Walk.Ctx :=
  { ip := r.ip, sp := r.sp,
    rest := match unwinderOf arch with
      | some a => (fpName a, r.fp) :: r.rest
      | none => [],
    valid := none }

def toModule (m : Mod) : Walk.Module := { base := m.base, size := m.size, name := m.name }

/-- the loaded modules as the walker sees them, each with the symbol file the supplier has under
    its name (if any) -/
def worldOf (d : Dump) : Walk.World :=
  { mods := (loadedModules d).map toModule,
    syms := (loadedModules d).map fun m => (d.syms.lookup m.name).map (·.1) }

/-- the STACK WIN records of the loaded modules' symbol files, by module position -/
def winsOf (d : Dump) : List (List Win.Rec) :=
  (loadedModules d).map fun m => ((d.syms.lookup m.name).map (·.2)).getD []

/-- the stack memory the unwinders can use: none on a CPU without an unwinder; read in the dump's
    byte order (`MinidumpMemory.endian` is the dump's) -/
def walkMem (d : Dump) (sel : Option Mem) : Option Mem :=
  if (unwinderOf d.arch).isSome then sel.map fun m => { m with be := d.bigEndian } else none

/-- the environment of a walk of this dump: `Walk.mkEnv` (the environment of engine `walk` and of
    C05 / C04's single-technique theorems) unless some symbol file has STACK WIN records, then
    `Walk.mkEnvW` (the environment of engine `chain` and of C04's STACK WIN / mixed theorems) -/
def envOf (d : Dump) (sel : Option Mem) : Walk.Env :=
  let arch := (unwinderOf d.arch).getD .x86
  let os := walkOs (Os.ofPlatformId d.platformId)
  let mem := (walkMem d sel).getD { base := 0, bytes := #[] }
  if Walk.noWins (winsOf d) then Walk.mkEnv arch os (worldOf d) mem
  else Walk.mkEnvW arch os (worldOf d) (winsOf d) mem

/-- `walk_stack` on `[StackFrame::from_context(ctx, Context)]` with the selected memory -/
def framesOf (d : Dump) (sel : Option Mem) (c : Walk.Ctx) : List Walk.Frame :=
  Walk.walk (envOf d sel) (walkMem d sel) c

/-! ### into_process_state -/

/-- this thread is the dump-writer thread (`self.dump_thread_id == Some(id)`) -/
def isDumpThread (d : Dump) (t : Thread) : Bool := dumpThreadId d.breakpad == some t.id

/-- the closure marks this thread as requesting: not skipped, and its id is the requesting id -/
def isRequesting (d : Dump) (t : Thread) : Bool :=
  !isDumpThread d t && requestingId d == some t.id

/-- the context the walk of this thread starts from -/
def startCtx (d : Dump) (t : Thread) : Option Regs :=
  if isDumpThread d t then none
  else if isRequesting d t then (excCtx d).orElse (fun _ => readCtx d t.ctx)
  else readCtx d t.ctx

/-- the memory `walk_stack` gets for this thread -/
def stackMemOf (d : Dump) (t : Thread) : Option Mem :=
  selectMem (memoryList d) t ((startCtx d t).map (·.sp))

/-- a call stack before unloaded-module attribution -/
structure PreStack where
  id : Nat
  name : Option String
  info : Info
  /-- the stack memory selected for the walk -/
  sel : Option Mem
  frames : List Walk.Frame

/-- the `CallStack` built and walked for one thread -/
def stackOf (d : Dump) (t : Thread) : PreStack :=
  if isDumpThread d t then
    -- `CallStack::with_info(id, DumpThreadSkipped)` + its name from the names stream: no frames
    { id := t.id, name := nameOf d.names t.id, info := .dumpThreadSkipped, sel := stackMemOf d t, frames := [] }
  else
    match startCtx d t with
    | some r =>
      { id := t.id, name := nameOf d.names t.id, info := .ok, sel := stackMemOf d t,
        frames := framesOf d (stackMemOf d t) (toCtx d.arch r) }
    | none =>
      { id := t.id, name := nameOf d.names t.id, info := .missingContext, sel := stackMemOf d t, frames := [] }

/-- the `.enumerate().map(..)` over the thread list with its side effect on `requesting_thread`:
    returns the call stacks and the final value of `requesting_thread` (last assignment wins). -/
def loop (d : Dump) : Nat → List Thread → Option Nat → List PreStack × Option Nat
  | _, [], req => ([], req)
  | i, t :: ts, req =>
    let r := loop d (i + 1) ts (if isRequesting d t then some i else req)
    (stackOf d t :: r.1, r.2)

/-- `g` on every element; `none` as soon as one fails -/
def optMap {α β : Type} (g : α → Option β) : List α → Option (List β)
  | [] => some []
  | a :: as =>
    match g a, optMap g as with
    | some b, some bs => some (b :: bs)
    | _, _ => none

/-- `frame.unloaded_modules`: only for a frame without a loaded module; `none` = panic -/
def attachFrame (ums : List Mod) (f : Walk.Frame) : Option IFrame :=
  match f.module with
  | some _ => some { f := f, unloaded := [] }
  | none =>
    match offsetsAt ums f.instruction with
    | some u => some { f := f, unloaded := u }
    | none => none

def attachStack (ums : List Mod) (s : PreStack) : Option Stack :=
  match optMap (attachFrame ums) s.frames with
  | some fs => some { id := s.id, name := s.name, info := s.info, frames := fs }
  | none => none

inductive Result where
  | missingThreadList
  | panic
  | state (s : State)

/-- `process_minidump` as far as C14 observes it. -/
def index (d : Dump) : Result :=
  match d.threads with
  | none => .missingThreadList
  | some ts =>
    let os := Os.ofPlatformId d.platformId
    let cpu := Cpu.ofArch d.arch
    let ms := loadedModules d
    let ums := unloadedModules d
    if !(tableOk (modEntries ms) && tableOk (memEntries (memoryList d))) then .panic
    else
      let (stacks, req) := loop d 0 ts none
      match optMap (attachStack ums) stacks with
      | none => .panic
      | some stacks =>
        .state {
          stacks := stacks
          requesting := req
          exc := d.exc.map fun (e, _) => (Reason.fromException e os cpu, Reason.crashAddress e os cpu)
          pid := processId d
          ctime := createTime d
          time := d.timestamp
          modules := ms
          unloaded := ums
          sys := sysInfo d.platformId d.arch d.sys
          lsb := d.lsb.map lsbOf
          macCrash := macCrashInfo d.macCrash
          bootArgs := d.bootArgs
          assertion := none
          certs := []
          handles := d.handles }

/-! ### line protocol
  request (fields `key=value`; the first eleven in this order, numbers decimal; the others optional,
  in any order, each at most once):
    `index ts=<u32> os=<platform id> cpu=<arch> th=<T> nm=<N> bp=<B> ex=<E> mi=<M> st=<S> mo=<L> um=<L>`
          `[rg=<R>] [en=<le|be>] [ml=<ML>] [si=<SI>] [lsb=<S'>] [mac=<MC>] [ba=<BA>] [hd=<n ≥ 1>] [ps=<mask>]`
          `[sy=<SY>] [sw=<SW>]`
    (`rg` first when present; `ps` = bit mask of streams that are present but not consulted:
     1 thread-info list, 2 Crashpad info, 4 assertion info, 8 memory-info list)
    T  = `-` (no thread list) | `.` (empty) | `id:ctx[:stk],..`
         ctx = `r<ip>` | `r<ip>/<sp>/<fp>[/<reg>=<value>]*` | `u<mode>`   (reg: a canonical register name of
               the CPU's context other than ip / sp / frame pointer, each at most once)
         stk = `<start>/n` (descriptor rva 0) | `<start>/o` (outside the file) | `<start>/m<k>` (cites the
               bytes of pool region k)
    N  = `-`/`.` | `id:name,..`   name = `!` unreadable | ASCII token | `x<hex of UTF-16 code units>`
    B  = `-` | `validity:dump:req`
    E  = `-` | `x` (unreadable stream) | `tid:code:flags:addr:np:p0:p1:p2:ctx`
    M  = `-` | `x` | `flags:pid:ctime:version[:size_of_info]`   (the 5th item: what the stream's own
         size field says when that is not the struct's size — untrusted, not consulted)
    S  = `-` | `.` | `Key~value,..`
    L  = `.` | `base:size:name,..`          (name as above)
    R  = pool of memory regions `base/size[/off.hexbytes]*,..` (zero-filled, then patched)
    ML = `;`-separated sections `L:<i>.<i>..` (memory list of pool regions; `!<base>` = unreadable
         descriptor) | `Q:<i>.<i>..` (memory-64 list) | `X` (unreadable memory-64 stream)
    SI = `level:revision:ncpu:major:minor:build:csd:d0:d1:d2`   csd = `-` | name as above
    S' = `.` | `KEY~x<hex utf8>,..`
    MC = `.` | `version/thread/dialog/abort/<s0>/../<s4>,..`   (strings `x<hex utf8>`)
    BA = `!` (string unreadable) | name as above
    SY = `<module name>~<records>,..`  symbol files of the supplier; records as in `walk` requests
         (`F|addr|size|psize|name;P|..;C|addr|size|rules;A|addr|rules`)
    SW = `<module name>~<rec>;<rec>..,..`  their STACK WIN records, `rec` as in `chain` requests
         (`ty|addr|size|par|sav|loc|hp|rest`); a module named here and not in SY has a symbol file
         without FUNC / PUBLIC / STACK CFI records
  answer:
    `threads:id/name/info/<frame>^<frame>..;.. req:i exc:Reason addr:n pid:n ctime:n time:n mods:b:s:n,.. umods:..`
    ` sys:<osver>/<osbuild>/<cpuinfo>/<ncpu> lsb:.. mac:.. ba:.. as:- certs:0 hd:..`
    | `err:MissingThreadList` | `PANIC`
    frame = `trust|ip=..|in=..|sp=..|m=<idx|->|f=<name@base/psize|->|v=<all|r=v,..>|u=name=off+off&..`
    names: ASCII tokens not starting with `x` as they are, everything else `x<hex utf8>`
-/
namespace Parse
open Proto

def kv (tok : String) (key : String) : Option String :=
  if tok.startsWith (key ++ "=") then some (tok.drop (key.length + 1)).toString else none

/-- is this architecture's context record made of 32-bit registers (x86, PPC, ARM)? -/
def ctx32 (arch : Nat) : Bool :=
  match Reason.lookup Enums.ProcessorArchitecture arch with
  | some "PROCESSOR_ARCHITECTURE_INTEL" | some "PROCESSOR_ARCHITECTURE_IA32_ON_WIN64"
  | some "PROCESSOR_ARCHITECTURE_PPC" | some "PROCESSOR_ARCHITECTURE_ARM" => true
  | _ => false

/-- `<reg>=<value>` items of a context: canonical register names of the CPU's context other than
    ip / sp / frame pointer, pairwise distinct, values within the register width -/
def ctxRest (arch : Nat) (lim : Nat) (items : List String) : Option (List (String × Nat)) :=
  match unwinderOf arch with
  | none => if items.isEmpty then some [] else none
  | some a =>
    items.foldlM (fun (acc : List (String × Nat)) it =>
      match it.splitOn "=" with
      | [n, v] =>
        match optNat v with
        | some v =>
          if a.registers.contains n ∧ n ≠ a.ipName ∧ n ≠ a.spName ∧ n ≠ fpName a ∧ v ≤ lim ∧
             !(acc.any fun e => e.1 == n) then some (acc ++ [(n, v)]) else none
        | none => none
      | _ => none) []

def ctx (arch : Nat) (s : String) : Option (Option Regs) :=
  if s.startsWith "r" then
    let lim := if ctx32 arch then U32MAX else U64MAX
    match (s.drop 1).toString.splitOn "/" with
    | [ip] =>
      match optNat ip with
      | some ip => if ip ≤ lim then some (some { ip := ip }) else none
      | none => none
    | ip :: sp :: fp :: more =>
      match optNat ip, optNat sp, optNat fp, ctxRest arch lim more with
      | some ip, some sp, some fp, some rest =>
        if ip ≤ lim ∧ sp ≤ lim ∧ fp ≤ lim then some (some { ip := ip, sp := sp, fp := fp, rest := rest }) else none
      | _, _, _, _ => none
    | _ => none
  else if s.startsWith "u" then (optNat (s.drop 1).toString).map fun _ => none
  else none

def listOf {α} (s : String) (item : String → Option α) : Option (List α) :=
  if s == "." then some [] else (s.splitOn ",").mapM item

def isTokenChar (c : Char) : Bool := c.isAlphanum || c = '_' || c = '.'

/-- pairs of bytes, big-endian, as 16-bit code units -/
def unitsOfBytes : List UInt8 → Option (List Nat)
  | [] => some []
  | [_] => none
  | a :: b :: rest => (unitsOfBytes rest).map fun r => (a.toNat * 256 + b.toNat) :: r

/-- a name field: `some none` = the string is unreadable / not well-formed UTF-16 -/
def name (s : String) : Option (Option String) :=
  if s == "!" then some none
  else if s.startsWith "x" then do
    let bytes ← unhex (s.drop 1).toString
    let units ← unitsOfBytes bytes
    match Dump.utf16Decode units with
    | some cs => pure (some (String.ofList (cs.map Char.ofNat)))
    | none => pure none
  else if !s.isEmpty && s.toList.all isTokenChar then some (some s)
  else none

/-- a UTF-8 text field `x<hex>` -/
def text (s : String) : Option String :=
  if s.startsWith "x" then do
    let bytes ← unhex (s.drop 1).toString
    String.fromUTF8? (ByteArray.mk bytes.toArray)
  else none

/-- pool region `base/size[/off.hex]*` -/
def region (s : String) : Option Mem :=
  match s.splitOn "/" with
  | b :: z :: patches => do
    let base ← optNat b
    let size ← optNat z
    if base > U64MAX ∨ size > 1048576 then none
    let bytes ← patches.foldlM (fun (acc : Array UInt8) p =>
      match p.splitOn "." with
      | [o, h] => do
        let off ← optNat o
        let hs ← unhex h
        if off + hs.length > acc.size then none
        else pure ((hs.zipIdx).foldl (fun a (x, i) => a.set! (off + i) x) acc)
      | _ => none) (Array.replicate size (0 : UInt8))
    pure { base := base, bytes := bytes }
  | _ => none

def stackSpec (pool : List Mem) (s : String) : Option (Nat × StackDesc) :=
  match s.splitOn "/" with
  | [st, o] => do
    let start ← optNat st
    if start > U64MAX then none
    if o == "n" || o == "o" then pure (start, .unreadable)
    else if o.startsWith "m" then do
      let k ← optNat (o.drop 1).toString
      let r ← pool[k]?
      pure (start, .bytes r.bytes)
    else none
  | _ => none

def thread (arch : Nat) (pool : List Mem) (s : String) : Option Thread :=
  match s.splitOn ":" with
  | [a, c] => do let id ← optNat a; let c ← ctx arch c; pure { id := id, ctx := c }
  | [a, c, st] => do
    let id ← optNat a; let c ← ctx arch c; let (start, desc) ← stackSpec pool st
    pure { id := id, ctx := c, stackStart := start, stack := desc }
  | _ => none

def nameEntry (s : String) : Option (Nat × Option String) :=
  match s.splitOn ":" with
  | [a, n] => do let id ← optNat a; let n ← name n; pure (id, n)
  | _ => none

def modEntry (s : String) : Option RawMod :=
  match s.splitOn ":" with
  | [b, z, n] => do let b ← optNat b; let z ← optNat z; let n ← name n; pure ⟨b, z, n⟩
  | _ => none

def statusEntry (s : String) : Option (String × String) :=
  match s.splitOn "~" with
  | [k, v] => if k.isEmpty then none else some (k, v)
  | _ => none

def lsbEntry (s : String) : Option (String × String) :=
  match s.splitOn "~" with
  | [k, v] => if k.isEmpty then none else (text v).map fun v => (k, v)
  | _ => none

def exc (arch : Nat) (s : String) : Option (Option (Exc × Option Regs)) :=
  if s == "-" || s == "x" then some none else
  match s.splitOn ":" with
  | [tid, code, flags, addr, np, p0, p1, p2, c] => do
    let tid ← optNat tid; let code ← optNat code; let flags ← optNat flags; let addr ← optNat addr
    let np ← optNat np; let p0 ← optNat p0; let p1 ← optNat p1; let p2 ← optNat p2; let c ← ctx arch c
    pure (some (⟨tid, code, flags, addr, np, p0, p1, p2⟩, c))
  | _ => none

def breakpad (s : String) : Option (Option Breakpad) :=
  if s == "-" then some none else
  match (s.splitOn ":").map optNat with
  | [some v, some dmp, some r] => some (some ⟨v, dmp, r⟩)
  | _ => none

def misc (s : String) : Option (Option Misc) :=
  if s == "-" || s == "x" then some none else
  match (s.splitOn ":").map optNat with
  | [some f, some p, some c, some _ver] => some (some ⟨f, p, c⟩)
  -- the stream's own `size_of_info` field when it is not the struct's size: not consulted by
  -- `MinidumpMiscInfo::read` (the stream length selects the revision), so not by the model either
  | [some f, some p, some c, some _ver, some soi] => if soi ≤ U32MAX then some (some ⟨f, p, c⟩) else none
  | _ => none

structure MemLists where
  memList : Option (List MemDesc) := none
  mem64 : Option (Option (List Mem)) := none

def memDescItem (pool : List Mem) (it : String) : Option MemDesc :=
  if it.startsWith "!" then
    (optNat (it.drop 1).toString).map fun b => { base := b, bytes := none }
  else
    match (optNat it).bind (pool[·]?) with
    | some r => some { base := r.base, bytes := some r.bytes }
    | none => none

def dotList {α} (body : String) (item : String → Option α) : Option (List α) :=
  if body.isEmpty then some [] else (body.splitOn ".").mapM item

def memSection (pool : List Mem) (acc : MemLists) (s : String) : Option MemLists :=
  if s == "X" then
    if acc.mem64.isSome then none else some { acc with mem64 := some none }
  else if s.startsWith "L:" then
    if acc.memList.isSome then none
    else (dotList (s.drop 2).toString (memDescItem pool)).map fun items => { acc with memList := some items }
  else if s.startsWith "Q:" then
    if acc.mem64.isSome then none
    else (dotList (s.drop 2).toString fun it => (optNat it).bind (pool[·]?)).map fun items =>
      { acc with mem64 := some (some items) }
  else none

def sysRaw (s : String) : Option SysRaw :=
  match s.splitOn ":" with
  | [lv, rev, n, ma, mi, bu, csd, d0, d1, d2] => do
    let lv ← optNat lv; let rev ← optNat rev; let n ← optNat n
    let ma ← optNat ma; let mi ← optNat mi; let bu ← optNat bu
    let d0 ← optNat d0; let d1 ← optNat d1; let d2 ← optNat d2
    let csd ← if csd == "-" then pure none else name csd
    if lv > 65535 ∨ rev > 65535 ∨ n > 255 ∨ ma > U32MAX ∨ mi > U32MAX ∨ bu > U32MAX ∨
       d0 > U32MAX ∨ d1 > U32MAX ∨ d2 > U32MAX then none
    pure { level := lv, revision := rev, ncpu := n, major := ma, minor := mi, build := bu, csd := csd,
           d0 := d0, d1 := d1, d2 := d2 }
  | _ => none

def macRec (s : String) : Option MacRec :=
  match s.splitOn "/" with
  | [v, t, dm, ab, s0, s1, s2, s3, s4] => do
    let v ← optNat v; let t ← optNat t; let dm ← optNat dm; let ab ← optNat ab
    let strs ← [s0, s1, s2, s3, s4].mapM text
    pure ⟨v, t, dm, ab, strs⟩
  | _ => none

/-- the optional fields after the first eleven -/
structure Extra where
  en : Option Bool := none
  ml : Option String := none
  si : Option SysRaw := none
  lsb : Option (List (String × String)) := none
  mac : Option (List MacRec) := none
  ba : Option (Option String) := none
  hd : Option Nat := none
  /-- streams that are present without being consulted (bit mask; no influence on the state) -/
  ps : Option Nat := none
  sy : Option (List (String × Walk.SymFile)) := none
  sw : Option (List (String × List Win.Rec)) := none

/-- `<module name>~<body>`: the name is an ASCII token -/
def named {α} (body : String → Option α) (s : String) : Option (String × α) :=
  match s.splitOn "~" with
  | [n, b] => if !n.isEmpty && n.toList.all isTokenChar then (body b).map fun x => (n, x) else none
  | _ => none

def winRecs (s : String) : Option (List Win.Rec) := (pieces s ";").mapM Walk.parseWinRec

/-- names at most once -/
def distinctNames {α} (l : List (String × α)) : Bool := (l.map (·.1)).eraseDups.length == l.length

def extra (acc : Extra) (tok : String) : Option Extra :=
  if let some v := kv tok "en" then
    if acc.en.isSome then none
    else if v == "be" then some { acc with en := some true }
    else if v == "le" then some { acc with en := some false } else none
  else if let some v := kv tok "ml" then
    if acc.ml.isSome then none else some { acc with ml := some v }
  else if let some v := kv tok "si" then
    if acc.si.isSome then none else (sysRaw v).map fun r => { acc with si := some r }
  else if let some v := kv tok "lsb" then
    if acc.lsb.isSome then none else (listOf v lsbEntry).map fun r => { acc with lsb := some r }
  else if let some v := kv tok "mac" then
    if acc.mac.isSome then none else (listOf v macRec).map fun r => { acc with mac := some r }
  else if let some v := kv tok "ba" then
    if acc.ba.isSome then none else (name v).map fun r => { acc with ba := some r }
  else if let some v := kv tok "hd" then
    if acc.hd.isSome then none
    else match optNat v with
      | some (r + 1) => some { acc with hd := some (r + 1) }
      | _ => none
  else if let some v := kv tok "ps" then
    if acc.ps.isSome then none else (optNat v).map fun r => { acc with ps := some r }
  else if let some v := kv tok "sy" then
    if acc.sy.isSome then none
    else ((v.splitOn ",").mapM (named Walk.parseRecords)).bind fun r =>
      if distinctNames r then some { acc with sy := some r } else none
  else if let some v := kv tok "sw" then
    if acc.sw.isSome then none
    else ((v.splitOn ",").mapM (named winRecs)).bind fun r =>
      if distinctNames r then some { acc with sw := some r } else none
  else none

/-- the supplier's symbol files: the modules of `sy`, then those that only `sw` names -/
def symFiles (sy : List (String × Walk.SymFile)) (sw : List (String × List Win.Rec)) :
    List (String × Walk.SymFile × List Win.Rec) :=
  (sy.map fun (n, sf) => (n, sf, (sw.lookup n).getD [])) ++
  (sw.filter fun (n, _) => (sy.lookup n).isNone).map fun (n, w) => (n, ({} : Walk.SymFile), w)

def dump (args : List String) : Option Dump :=
  match args with
  | ts :: os :: cpu :: th :: nm :: bp :: ex :: mi :: st :: mo :: um :: rest => do
    let ts ← (kv ts "ts").bind optNat
    let os ← (kv os "os").bind optNat
    let cpu ← (kv cpu "cpu").bind optNat
    -- the pool of regions comes first among the optional fields when present
    let (pool, rest) ← match rest with
      | r :: more =>
        match kv r "rg" with
        | some v => (listOf v region).map fun p => (p, more)
        | none => some ([], rest)
      | [] => some ([], [])
    let x ← rest.foldlM extra {}
    let th ← kv th "th"
    let threads ← if th == "-" then pure none else (listOf th (thread cpu pool)).map some
    let nm ← kv nm "nm"
    let names ← if nm == "-" then pure [] else listOf nm nameEntry
    let bp ← (kv bp "bp").bind breakpad
    let ex ← (kv ex "ex").bind (exc cpu)
    let mi ← (kv mi "mi").bind misc
    let st ← kv st "st"
    let status ← if st == "-" then pure none else (listOf st statusEntry).map some
    let mo ← (kv mo "mo").bind (listOf · modEntry)
    let um ← (kv um "um").bind (listOf · modEntry)
    let ml ← match x.ml with
      | some v => (v.splitOn ";").foldlM (memSection pool) {}
      | none => some {}
    pure { platformId := os, arch := cpu, timestamp := ts, threads := threads, names := names,
           breakpad := bp, exc := ex, misc := mi, status := status, modules := mo, unloaded := um,
           bigEndian := x.en.getD false, memList := ml.memList, mem64 := ml.mem64,
           sys := x.si.getD {}, lsb := x.lsb, macCrash := x.mac, bootArgs := x.ba, handles := x.hd,
           syms := symFiles (x.sy.getD []) (x.sw.getD []) }
  | _ => none

end Parse

def optStr (o : Option Nat) : String := match o with | some n => toString n | none => "-"

/-- names in answers: ASCII tokens not starting with `x` as they are, everything else as the hex
    of the UTF-8 bytes (injective) -/
def showName (s : String) : String :=
  if !s.isEmpty && s.toList.all Parse.isTokenChar && !s.startsWith "x" then s
  else "x" ++ Proto.hex s.toUTF8.toList

def showOptName (o : Option String) : String := match o with | some s => showName s | none => "-"

/-- canonical rendering of `frame.unloaded_modules` (a `BTreeMap<String, BTreeSet<u64>>`):
    distinct (name, offset) pairs ordered by name, then offset -/
def renderOffsets (u : List (String × Nat)) : String :=
  let sorted := (u.eraseDups).mergeSort fun a b => a.1 < b.1 || (a.1 == b.1 && a.2 ≤ b.2)
  let names := (sorted.map (·.1)).eraseDups
  "&".intercalate (names.map fun n =>
    showName n ++ "=" ++ "+".intercalate ((sorted.filter (·.1 == n)).map fun e => toString e.2))

def renderFrame (arch : Nat) (f : IFrame) : String :=
  Walk.showFrame ((unwinderOf arch).getD .x86) f.f ++ "|u=" ++ renderOffsets f.unloaded

def renderStack (arch : Nat) (s : Stack) : String :=
  let info := match s.info with
    | .ok => "ok" | .missingContext => "missing" | .dumpThreadSkipped => "skipped"
  s!"{s.id}/{showOptName s.name}/{info}/{"^".intercalate (s.frames.map (renderFrame arch))}"

def renderMods (ms : List Mod) : String :=
  ",".intercalate (ms.map fun m => s!"{m.base}:{m.size}:{showName m.name}")

def renderSys (s : SysInfo) : String :=
  s!"{showName s.osVersion}/{showOptName s.osBuild}/{showOptName s.cpuInfo}/{s.cpuCount}"

def renderLsb (l : Option Lsb) : String :=
  match l with
  | none => "-"
  | some l => s!"{showName l.id}/{showName l.release}/{showName l.codename}/{showName l.description}"

def renderMac (m : Option (List MacOut)) : String :=
  match m with
  | none => "-"
  | some rs =>
    if rs.isEmpty then "." else
    ",".intercalate (rs.map fun r =>
      s!"v{r.variant}/{r.version}/{optStr r.thread}/{optStr r.dialogMode}/{optStr r.abortCause}/" ++
      "/".intercalate (r.strs.map showName))

def renderBoot (b : Option (Option String)) : String :=
  match b with
  | none => "-"
  | some none => "!"
  | some (some s) => showName s

def render (arch : Nat) : Result → String
  | .missingThreadList => "err:MissingThreadList"
  | .panic => "PANIC"
  | .state s =>
    let exc := match s.exc with
      | some (r, a) => s!"exc:{r.render} addr:{a}"
      | none => "exc:- addr:-"
    s!"threads:{";".intercalate (s.stacks.map (renderStack arch))} req:{optStr s.requesting} {exc} " ++
    s!"pid:{optStr s.pid} ctime:{optStr s.ctime} time:{s.time} mods:{renderMods s.modules} umods:{renderMods s.unloaded}" ++
    s!" sys:{renderSys s.sys} lsb:{renderLsb s.lsb} mac:{renderMac s.macCrash} ba:{renderBoot s.bootArgs}" ++
    s!" as:{showOptName s.assertion} certs:{s.certs.length} hd:{optStr s.handles}"

/-- line-protocol entry point of this model (engine: index) -/
def handle (_engine : String) (args : List String) : String :=
  match args with
  | ["table", name] =>
    -- the translated table itself, for validation against the real `from_u32`
    match Gen.Enums.all.find? (·.1 == name) with
    | some (_, t) => ",".intercalate (t.map fun e => s!"{e.1}={e.2}")
    | none => "bad-op"
  | _ =>
    match Parse.dump args with
    | some d => render d.arch (index d)
    | none => "bad-op"

end MdModel.Index
