/-
  MdModel.DumpFull — `readFull`: everything the `read` engine compares with the real reader.

    `readAll` (MdModel.Dump: `Minidump::read` + `get_stream` of the eleven list / record streams)
    followed by `readExtra`:
      * the system info (`Minidump::read`'s eager parse + `get_stream::<MinidumpSystemInfo>`),
      * `from_regions` of both memory lists and the view `get_memory` serves,
      * per thread: `context`, `stack_memory`, `last_error` (dump CPU, x86, x86-64), the stack dump
        loop of `print`; the exception's `context`; `get_crash_reason` / `get_crash_address` for the
        dump's OS and CPU (array reads here, decision tables in `MdModel.Reason`),
      * `print_contents` of the first region `get_memory` serves (when it is at most 64 KiB: the
        engine prints that region only, to keep a case cheap; the theorem covers every length),
      * the five Linux text streams with their iterators driven to the end,
      * Breakpad info, assertion info, macOS crash info (+ the printer's indexing), macOS boot args.
    Errors of single streams are values (`get_stream(..)` → `Except`), as in `readAll`.
-/
import MdModel.DumpCtx
import MdModel.DumpText
import MdModel.DumpMisc
import MdModel.DumpMiscInfo
import MdModel.DumpMaps
import MdModel.DumpUnified
import MdModel.DumpIds
import MdModel.DumpRegs
namespace MdModel.Dump
open MdModel
open MdModel.Gen.LayoutsX
open MdModel.Gen.LayoutsC02 (ST_MiscInfoStream ST_LinuxMaps)

structure Extra where
  sys : Except Err SysInfo
  /-- `none`: the thread list could not be read -/
  threads : Option (List ThreadX)
  /-- `none`: no exception stream or no system info -/
  excCtx : Option (Option (Except CtxErr CtxOut))
  /-- crash reason (canonical tag) and crash address for the dump's own OS / CPU -/
  reason : Option (String × Nat)
  /-- final offset of `print_contents` of the first served region (`none`: no such region, or > 64 KiB) -/
  memPrinted : Option Nat
  lsb : Except Err (List (Span × Span))
  environ : Except Err (List (Span × Span))
  cpuinfo : Except Err (List (Span × Span))
  status : Except Err (List (Span × Span))
  limits : Except Err (List Span)
  breakpad : Except Err BreakpadInfo
  assertion : Except Err Assertion
  mac : Except Err (List MacRecord)
  /-- the records `MinidumpMacCrashInfo::print` indexes -/
  macPrinted : Nat
  bootargs : Except Err MacBootargs

structure Full where
  base : Parsed
  extra : Extra

/-- `from_regions` for a list that was read -/
def tableOf (r : Except Err (List Region)) : M (Option (List RangeMap.Entry)) :=
  match r with
  | .ok rs => memTable rs >>= fun t => pure (some t)
  | .error _ => pure none

/-- `get_memory` [5635] as a view: the memory-64 list if it reads, else the memory list, else nothing -/
def memViewOf (p : Parsed) (t32 t64 : Option (List RangeMap.Entry)) : MemView :=
  match p.memory64, t64, p.memory, t32 with
  | .ok rs, some t, _, _ => ⟨rs.toArray, t.toArray⟩
  | .error _, _, .ok rs, some t => ⟨rs.toArray, t.toArray⟩
  | _, _, _, _ => MemView.empty

def PRINT_CONTENTS_TIE_LIMIT : Nat := 65536

/-- the `print` of `MinidumpMacCrashInfo`: `self.raw[i]` for `i in 0..self.raw.len()` -/
def macPrint (rs : List MacRecord) : M Nat :=
  M.loop rs.length 0 fun n i => macRecordAt rs i >>= fun _ => pure (n + 1)

def readExtra (b : Bytes) (p : Parsed) : M Extra :=
  let d := p.dump
  let e := d.endian
  getSystemInfo d b >>= fun sys =>
  let sysOpt := match sys with
    | .ok si => some si
    | .error _ => none
  tableOf p.memory >>= fun t32 =>
  tableOf p.memory64 >>= fun t64 =>
  let mv := memViewOf p t32 t64
  (match p.threads with
   | .ok ts => threadsX b e sysOpt mv ts >>= fun xs => pure (some xs)
   | .error _ => pure none) >>= fun threads =>
  (match p.exception, sysOpt with
   | .ok x, some si => contextOf b e si.arch x.context >>= fun c => pure (some c)
   | _, _ => pure none) >>= fun excCtx =>
  (match p.exception, sysOpt with
   | .ok x, some si =>
     reasonInputs x >>= fun ex =>
     let os := Reason.Os.ofPlatformId si.platform
     let cpu := Reason.Cpu.ofArch si.arch
     pure (some ((Reason.fromException ex os cpu).render, Reason.crashAddress ex os cpu))
   | _, _ => pure none) >>= fun reason =>
  (match mv.regions[0]? with
   | some r =>
     let n := (b.extract r.rva (r.rva + r.size)).size
     if n ≤ PRINT_CONTENTS_TIE_LIMIT then printContents n >>= fun o => pure (some o) else pure none
   | none => pure none) >>= fun memPrinted =>
  getStream d b ST_LinuxLsbRelease (fun s => readKvStream s SEP_EQUALS) >>= fun lsb =>
  getStream d b ST_LinuxEnviron (fun s => readKvStream s SEP_EQUALS) >>= fun environ =>
  getStream d b ST_LinuxCpuInfo (fun s => readKvStream s SEP_COLON) >>= fun cpuinfo =>
  getStream d b ST_LinuxProcStatus (fun s => readKvStream s SEP_COLON) >>= fun status =>
  getStream d b ST_MozLinuxLimits (fun s => readLinesStream s) >>= fun limits =>
  getStream d b ST_BreakpadInfoStream (fun s => readBreakpadInfo s e) >>= fun breakpad =>
  getStream d b ST_AssertionInfoStream (fun s => readAssertion s e) >>= fun assertion =>
  getStream d b ST_MozMacosCrashInfoStream (fun s => readMacCrashInfo s b e) >>= fun mac =>
  (match mac with
   | .ok rs => macPrint rs
   | .error _ => pure 0) >>= fun macPrinted =>
  getStream d b ST_MozMacosBootargsStream (fun s => readMacBootargs s b e) >>= fun bootargs =>
  pure { sys := sys, threads := threads, excCtx := excCtx, reason := reason, memPrinted := memPrinted,
         lsb := lsb, environ := environ, cpuinfo := cpuinfo, status := status, limits := limits,
         breakpad := breakpad, assertion := assertion, mac := mac, macPrinted := macPrinted, bootargs := bootargs }

/-- `readAll`, then everything above. -/
def readFull (ms : MemSizes) (b : Bytes) : M (Except Err Full) :=
  readAll ms b >>= fun r =>
  match r with
  | .error er => pure (.error er)
  | .ok p => readExtra b p >>= fun x => pure (.ok ⟨p, x⟩)

/-! ## the third group (`readMore`): what was only sampled until round 4

    * `MinidumpMiscInfo` with its accessors and printer (MdModel.DumpMiscInfo),
    * `MinidumpLinuxMaps` (MdModel.DumpMaps): the reader — which PANICS on hostile lines, the open
      finding C01-procfs-mmappath —, its lookup table, `memory_info_at_address` around every entry,
    * `UnifiedMemoryInfoList` over the memory-info list and the maps (MdModel.DumpUnified),
    * `os_parts`, the `Module` identifier accessors and `print` of every module, the unloaded
      modules' code identifiers, the soft-errors stream (MdModel.DumpIds),
    * the register accessors (`valid_registers`, `get_register`, `format_register`, `register_size`)
      of every thread's and the exception's context, through C18's tables (MdModel.DumpRegs).

  `readWhole` = `readFull` then `readMore` is what the driver runs. -/

/-- `std::panic::catch_unwind` as the harness applies it to ONE operation: a panic outcome becomes
    the value `.error site`, so that the remaining operations can still be rendered. The property
    counts the panic whoever catches it: the theorems are about `readWholeWith false`. -/
def M.catchUnwind {α : Type} (x : M α) : M (Except String α) :=
  match x.res with
  | .ok a => ⟨.ok (.ok a), x.allocs⟩
  | .err e => ⟨.err e, x.allocs⟩
  | .panic s => ⟨.ok (.error s), x.allocs⟩

/-- what the engine compares of a Linux-maps stream -/
structure MapsOut where
  maps : LinuxMapsX
  /-- `memory_info_at_address` at both ends of every entry and next to them: the index served -/
  probes : List (Nat × Option Nat)

/-- `get_stream::<MinidumpLinuxMaps>` followed by the lookups -/
def readMapsOutG (guarded : Bool) (s : Bytes) : M MapsOut :=
  readLinuxMapsG guarded s >>= fun m =>
  mapsProbes m (mapsProbeAddrs m.entries) >>= fun ps =>
  pure ⟨m, ps⟩

/-- … of the repository under test (`MAPS_GUARDED` is set by translators/maps_guard.py) -/
def readMapsOut (s : Bytes) : M MapsOut := readMapsOutG MdModel.Gen.MapsGuard.MAPS_GUARDED s

structure More where
  misc : Except Err MiscPrinted
  /-- `.error site`: the panic of the operation, caught (render mode only) -/
  maps : Except String (Except Err MapsOut)
  /-- `UnifiedMemoryInfoList::new(..)` and its accessors; `.error site`: building it needs
      `get_stream::<MinidumpLinuxMaps>()`, whose panic propagates -/
  unified : Except String (Option UnifiedOut)
  /-- `os_parts()` (`none`: no system info) -/
  osParts : Option (List Nat × Option (List Nat))
  /-- per module of the module list: the four identifier accessors and what `print` adds -/
  modules : Option (List ModOut)
  /-- `code_identifier()` of every unloaded module -/
  unloaded : Option (List String)
  softErrors : Except Err Nat
  /-- per thread: the register accessors of its context (`none`: no thread list or no system info) -/
  regs : Option (List (Option RegsOut))
  /-- the same for the exception's context -/
  excRegs : Option (Option RegsOut)

/-- one operation, wrapped in `catch_unwind` in render mode -/
def guarded {α : Type} (caught : Bool) (x : M α) : M (Except String α) :=
  if caught then M.catchUnwind x else x >>= fun a => pure (.ok a)

/-- `caught` = render mode (see `M.catchUnwind`): only the Linux-maps operation can panic -/
def readMore (caught : Bool) (b : Bytes) (f : Full) : M More :=
  let d := f.base.dump
  let e := d.endian
  getStream d b ST_MiscInfoStream (fun s => readMiscInfoX s e) >>= fun misc =>
  guarded caught (getStream d b ST_LinuxMaps readMapsOut) >>= fun maps =>
  let infoOpt := match f.base.memInfo with
    | .ok is => some is
    | .error _ => none
  (match maps with
   | .error site => pure (.error site)
   | .ok r =>
     let mapsOpt := match r with
       | .ok mo => some mo.maps
       | .error _ => none
     unifiedOut infoOpt mapsOpt >>= fun u => pure (.ok u)) >>= fun unified =>
  let osp := match f.extra.sys with
    | .ok si => some (osPartsOf si)
    | .error _ => none
  let os := match f.extra.sys with
    | .ok si => Encode.osOfPlatform si.platform
    | .error _ => Encode.Os.unknown
  (match f.base.modules with
   | .ok ms => modulesOut os e ms >>= fun r => pure (some r)
   | .error _ => pure none) >>= fun modules =>
  let unloaded := match f.base.unloaded with
    | .ok us => some (us.map unloadedIds)
    | .error _ => none
  getStream d b ST_MozSoftErrors readSoftErrors >>= fun soft =>
  (match f.base.threads, f.extra.sys with
   | .ok ts, .ok si => threadRegisters b e si.arch ts >>= fun r => pure (some r)
   | _, _ => pure none) >>= fun regs =>
  (match f.base.exception, f.extra.sys with
   | .ok x, .ok si => registersOf b e si.arch x.context >>= fun r => pure (some r)
   | _, _ => pure none) >>= fun excRegs =>
  pure { misc := misc, maps := maps, unified := unified, osParts := osp, modules := modules, unloaded := unloaded,
         softErrors := soft, regs := regs, excRegs := excRegs }

structure Whole where
  full : Full
  more : More

def readWholeWith (caught : Bool) (ms : MemSizes) (b : Bytes) : M (Except Err Whole) :=
  readFull ms b >>= fun r =>
  match r with
  | .error er => pure (.error er)
  | .ok f => readMore caught b f >>= fun m => pure (.ok ⟨f, m⟩)

/-- `readFull`, then the third group: the function the theorems of MdProofs.C01 §12-16 are about -/
def readWhole (ms : MemSizes) (b : Bytes) : M (Except Err Whole) := readWholeWith false ms b

end MdModel.Dump
