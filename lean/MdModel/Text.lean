/-
  MdModel.Text — model of the human-readable report of `minidump-processor`
    * `ProcessState::print` / `print_brief` / `print_internal` (minidump-processor/src/process_state.rs:548-875)
    * `CallStack::print` with its local `print_registers`     (minidump-unwind/src/lib.rs:384-550)
    * `FrameTrust::description`                               (minidump-unwind/src/lib.rs:76-86)
    * `Display for MemoryAccessType` / `is_read_or_write`     (minidump-processor/src/op_analysis.rs:140-154)
    * `Display for CrashInconsistency`                        (process_state.rs:438-458)
    * `MinidumpModuleList::{main_module, by_addr}` / `MinidumpUnloadedModuleList::by_addr`
      (minidump/src/minidump.rs:1486-1513, 1580-1619) through `MdModel.RangeMap` (C08's model)
    * `f32::total_cmp` (the key of the bit-flip sort), `SystemTime::duration_since(..).as_secs()`
    * serde_json's `PrettyFormatter` (`{soft_errors:#}`), two-space indent
  The printed state is `MdModel.Json.StateModel` (what the JSON report reads — the very structure
  engine `json` abstracts a `ProcessState` into) plus `TextExtra`: the fields only the text report
  reads (source-line base, recovered arguments, dump-thread marker, times, stream lists, the
  three-decimal confidence text).
  Every Rust operation of the printer that can panic is an explicit `Outcome.panic`:
    `self.threads[requesting_thread]`, `addr - src_base`, `addr - func_base`,
    `addr - module.base_address()`, `base + size - 1` (both module lists), `self.modules[index]`.
  Leaves that are NOT modelled and arrive already rendered: `CrashReason` Display, module
  `version()`, `{confidence:.3}` of the `f32`, derived `Debug` of `MINIDUMP_STREAM_TYPE`, the
  register tables of a context (`general_purpose_registers`, `get_register_always`,
  `register_size`), and the ORDER `sort_unstable_by` leaves tied bit flips in (`flipOrder`:
  validated to be a sorted permutation, see `validOrder`).
-/
import MdModel.Json
import MdModel.RangeMap
namespace MdModel.Text
open MdModel MdModel.Json

/-! ## 1. what the text report reads beyond the JSON state -/

inductive CallConv where
  | cdecl | windowsThisCall | otherThisCall
  deriving DecidableEq, Repr, Inhabited

structure ArgsM where
  cc : CallConv
  /-- `FunctionArg { name, value }` -/
  args : List (String × Option Nat)
  deriving Repr, Inhabited

structure FrameX where
  /-- `source_line_base` -/
  lineBase : Option Nat
  /-- `arguments` -/
  args : Option ArgsM
  /-- 4 for X86/Ppc/Sparc/Arm/Mips raw contexts, 8 for Ppc64/Amd64/Arm64/OldArm64 -/
  ptrBytes : Nat
  deriving Repr, Inhabited

structure ThreadX where
  /-- `info == CallStackInfo::DumpThreadSkipped` -/
  skipped : Bool
  frames : List FrameX
  deriving Repr, Inhabited

structure FlipX where
  /-- `confidence.unwrap_or_default().to_bits()` -/
  confBits : Nat
  /-- external leaf: `format!("{:.3}", confidence.unwrap_or_default())` -/
  conf3 : String
  deriving Repr, Inhabited

structure StreamM where
  /-- `stream_type as u32` -/
  ty : Nat
  /-- external leaf: derived `Debug` of `MINIDUMP_STREAM_TYPE` (unimplemented streams only) -/
  debugName : String
  vendor : String
  rva : Nat
  deriving Repr, Inhabited

structure TextExtra where
  /-- `(time, process_create_time)` in nanoseconds since the Unix epoch (signed), when
      `process_create_time` is `Some` -/
  times : Option (Int × Int)
  /-- per thread, per frame (same shape as `StateModel.threads`) -/
  threads : List ThreadX
  /-- per entry of `possible_bit_flips` (same length) -/
  flips : List FlipX
  /-- the permutation `sort_unstable_by` produced (positions into `possible_bit_flips`) -/
  flipOrder : List Nat
  unimplemented : List StreamM
  unknown : List StreamM
  deriving Repr, Inhabited

def FrameX.dflt : FrameX := ⟨none, none, 8⟩
def ThreadX.dflt : ThreadX := ⟨false, []⟩
def FlipX.dflt : FlipX := ⟨0, ""⟩

/-- pair every element with the extra at the same position (a default where the extras end) -/
def zipD {α β : Type} (d : β) : List α → List β → List (α × β)
  | [], _ => []
  | a :: as, [] => (a, d) :: zipD d as []
  | a :: as, b :: bs => (a, b) :: zipD d as bs

/-! ## 2. lines -/

inductive Kind where
  /-- `Thread {i} …` header of thread `idx`; `marked`: carries `(crashed)` / `(requested dump …)` -/
  | header (idx : Nat) (marked : Bool)
  /-- a numbered frame line (real or inlined frame) -/
  | frame (idx : Nat)
  /-- a line of the `Loaded modules:` list, showing module `idx` of the state -/
  | loaded (idx : Nat)
  /-- a line of the `Unloaded modules:` list -/
  | unloaded (idx : Nat)
  | plain
  deriving DecidableEq, Repr, Inhabited

/-- one `writeln!` (or a run of `write!`s closed by a `writeln!`): the text before the `\n` -/
structure TLine where
  kind : Kind
  text : List Char
  deriving Repr, Inhabited

def pl (s : String) : TLine := ⟨.plain, s.toList⟩
def plc (cs : List Char) : TLine := ⟨.plain, cs⟩

/-- what is written: every line followed by `\n` -/
def renderLines (ls : List TLine) : List Char := ls.flatMap fun l => l.text ++ ['\n']

/-! ## 3. number formatting -/

/-- `{:w$}` of a string / number: right-aligned in `w` columns (pads with spaces, never cuts) -/
def padSp (w : Nat) (cs : List Char) : List Char := List.replicate (w - cs.length) ' ' ++ cs

/-- `{}` of an unsigned integer -/
def dec (n : Nat) : List Char := natDigits n
/-- `{:#x}` -/
def hexX (n : Nat) : List Char := '0' :: 'x' :: hexDigits n
/-- `{:#010x}` = `0x{:08x}` -/
def hex8 (n : Nat) : List Char := '0' :: 'x' :: padLeft 8 (hexDigits n)
/-- `0x{:016x}` -/
def hex16 (n : Nat) : List Char := '0' :: 'x' :: padLeft 16 (hexDigits n)
/-- `Address` Display under the print context -/
def addr (pw : PW) (v : Nat) : List Char := (hexAddr pw v).toList

def baseN (s : String) : List Char := basenameL s.toList []

/-! ## 4. the summary at the top -/

def sysLines (s : StateModel) : List TLine :=
  [plc ("Operating system: ".toList ++ s.sys.os.longName.toList)] ++
  (match s.sys.osVer with
   | some v => [plc ("                  ".toList ++ v.toList)]
   | none => []) ++
  [plc ("CPU: ".toList ++ s.sys.cpu.name.toList)] ++
  (match s.sys.cpuInfo with
   | some i => [plc ("     ".toList ++ i.toList)]
   | none => []) ++
  [plc ("     ".toList ++ dec s.sys.cpuCount ++ " CPU".toList ++
        (if s.sys.cpuCount > 1 then ['s'] else []))] ++
  (match s.lsb with
   | some l => [plc ("Linux ".toList ++ l.id.toList ++ [' '] ++ l.release.toList ++ " - ".toList ++
                     l.codename.toList ++ " (".toList ++ l.description.toList ++ [')'])]
   | none => []) ++
  [plc []]

/-- `Display for MemoryAccessType` -/
def AccessType.display : AccessType → String
  | .read => "Read" | .write => "Write" | .readWrite => "ReadWrite" | .underivable => "Underivable"

/-- `Display for CrashInconsistency` -/
def Inconsistency.display : Inconsistency → String
  | .intDivByZeroNotPossible =>
    "Crash reason is an integer division by zero but the crashing instruction is not a division"
  | .privInstructionCrashWithoutPrivInstruction =>
    "Crash reason is a privileged instruction but crashing instruction is not a privileged one"
  | .nonCanonicalAddressFalselyReported =>
    "Crash address is reported as a non-canonical x86-64 address but the actual address is a canonical one"
  | .accessViolationWhenAccessAllowed =>
    "Crash reason is access violation exception but access is allowed"
  | .crashingAccessNotFoundInMemoryAccesses =>
    "Crash address not found among the memory accesses of the crashing instruction"

def guardLine : TLine := pl "     This address falls in a likely guard page."

def memAccessLines (pw : PW) : Nat → List MemAccess → List TLine
  | _, [] => []
  | idx, a :: rest =>
    [plc ("  ".toList ++ dec idx ++ ". Address: ".toList ++ addr pw a.address)] ++
    [match a.size with
     | some n => plc ("     Size: ".toList ++ dec n)
     | none => pl "     Size: Unknown"] ++
    (if a.guard then [guardLine] else []) ++
    (if a.ty ≠ .underivable then [plc ("     Access type: ".toList ++ (AccessType.display a.ty).toList)] else []) ++
    memAccessLines pw (idx + 1) rest

/-- the key of `f32::total_cmp` as a natural number (order isomorphic to the `i32` the std uses):
    sign bit clear: `2^31 + bits`; sign bit set: `2^32 - 1 - bits` -/
def totalKey (bits : Nat) : Nat :=
  if bits < 2147483648 then 2147483648 + bits else 4294967295 - bits

/-- the comparator of the bit-flip sort: confidence descending (`total_cmp(..).reverse()`), then
    address ascending. `true`: `a` may stand before `b`. -/
def flipLe (a b : BitFlip × FlipX) : Bool :=
  totalKey a.2.confBits > totalKey b.2.confBits ||
  (totalKey a.2.confBits == totalKey b.2.confBits && a.1.address ≤ b.1.address)

def insertFlip (x : BitFlip × FlipX) : List (BitFlip × FlipX) → List (BitFlip × FlipX)
  | [] => [x]
  | y :: ys => if flipLe y x then y :: insertFlip x ys else x :: y :: ys
/-- a stable sort by `flipLe` (the reference arrangement) -/
def sortFlips (fs : List (BitFlip × FlipX)) : List (BitFlip × FlipX) := fs.foldr insertFlip []

def flipKey (f : BitFlip × FlipX) : Nat × Nat := (totalKey f.2.confBits, f.1.address)

/-- `order` is what a correct `sort_unstable_by` may return on `fs`: a permutation of the
    positions whose key sequence is the sorted one. -/
def validOrder (fs : List (BitFlip × FlipX)) (order : List Nat) : Bool :=
  order.length == fs.length && order.all (· < fs.length) && order.eraseDups.length == order.length &&
  (order.filterMap (fs[·]?)).map flipKey == (sortFlips fs).map flipKey

def flipLines (pw : PW) : Nat → List (BitFlip × FlipX) → List TLine
  | _, [] => []
  | idx, (b, x) :: rest =>
    plc ("  ".toList ++ dec idx ++ ". Valid address: ".toList ++
         (match b.sourceRegister with
          | none => []
          | some r => r.toList ++ ['=']) ++
         addr pw b.address ++ " (".toList ++ x.conf3.toList ++ [')']) ::
    flipLines pw (idx + 1) rest

def crashLines (pw : PW) (e : ExcInfo) (x : TextExtra) : List TLine :=
  [plc ("Crash reason:  ".toList ++ e.reason.toList)] ++
  (match e.adjusted with
   | some (.nonCanonical a) =>
     [plc ("Crash address: ".toList ++ addr pw e.address ++ " **".toList),
      plc ("    ** Non-canonical address detected: ".toList ++ addr pw a)]
   | some (.nullOffset o) =>
     [plc ("Crash address: ".toList ++ addr pw e.address ++ " **".toList),
      plc ("    ** Null pointer detected with offset: ".toList ++ addr pw o)]
   | none => [plc ("Crash address: ".toList ++ addr pw e.address)]) ++
  (match e.instruction with
   | some i => [plc ("Crashing instruction: `".toList ++ i.toList ++ ['`'])]
   | none => []) ++
  (match e.memAccesses with
   | some [] => [pl "No memory accessed by instruction"]
   | some l => pl "Memory accessed by instruction:" :: memAccessLines pw 0 l
   | none => []) ++
  (match e.ipUpdate with
   | some (.update a guard) =>
     [pl "Instruction pointer update done by instruction:", plc ("  Address: ".toList ++ addr pw a)] ++
     (if guard then [guardLine] else [])
   | some .noUpdate => [pl "No instruction pointer update by instruction"]
   | none => []) ++
  (if e.bitFlips.isEmpty then []
   else pl "Crashing address may be the result of a flipped bit:" ::
        flipLines pw 0 (x.flipOrder.filterMap ((zipD FlipX.dflt e.bitFlips x.flips)[·]?))) ++
  (if e.inconsistencies.isEmpty then []
   else pl "Crash is inconsistent:" ::
        e.inconsistencies.map fun i => plc ("  ".toList ++ (Inconsistency.display i).toList))

def optLine (label : String) : Option String → List TLine
  | some v => [plc (label.toList ++ v.toList)]
  | none => []
/-- `0x{val}` of a `&u64`: the decimal digits behind a hex prefix (sic) -/
def optLine0x (label : String) : Option Nat → List TLine
  | some v => [plc (label.toList ++ "0x".toList ++ dec v)]
  | none => []

def macRecordLines : Nat → List MacRecord → List TLine
  | _, [] => []
  | idx, r :: rest =>
    [plc ("  Record ".toList ++ dec idx)] ++
    optLine0x "    thread: " r.thread ++
    optLine0x "    dialog mode: " r.dialogMode ++
    optLine0x "    abort_cause: " r.abortCause ++
    optLine "    module: " r.modulePath ++
    optLine "    message: " r.message ++
    optLine "    signature string: " r.signature ++
    optLine "    backtrace: " r.backtrace ++
    optLine "    message2: " r.message2 ++
    macRecordLines (idx + 1) rest

/-- `self.time.duration_since(create).unwrap_or_default().as_secs()` on nanosecond time stamps -/
def uptimeSecs (time create : Int) : Nat := (time - create).toNat / 1000000000

def miscLines (s : StateModel) (x : TextExtra) : List TLine :=
  optLine "Assertion: " s.assertion ++
  (match s.macCrashInfo with
   | some rs => pl "Mac Crash Info:" :: (macRecordLines 0 rs ++ [plc []])
   | none => []) ++
  (match s.macBootArgs with
   | some a => [plc ("Mac Boot Args: ".toList ++ (a.getD "").toList), plc []]
   | none => []) ++
  [match x.times with
   | some (t, c) => plc ("Process uptime: ".toList ++ dec (uptimeSecs t c) ++ " seconds".toList)
   | none => pl "Process uptime: not available"] ++
  [plc []] ++
  (match s.memoryMapCount with
   | some n => [plc ("Linux memory map count: ".toList ++ dec n), plc []]
   | none => [])

/-! ## 5. `CallStack::print` -/

/-- `FrameTrust::description` -/
def Trust.description : Trust → String
  | .context => "given as instruction pointer in context"
  | .preWalked => "recovered by external stack walker"
  | .cfi => "call frame info"
  | .cfiScan => "call frame info with scanning"
  | .framePointer => "previous frame's frame pointer"
  | .scan => "stack scanning"
  | .none => "unknown"

def CallConv.summary : CallConv → String
  | .cdecl => "cdecl [static function]"
  | .windowsThisCall => "windows thiscall [C++ member function]"
  | .otherThisCall => "non-windows thiscall [C++ member function]"

/-- is `reg` in the set `print_registers` tests (`All`: the set of all general purpose registers) -/
def regValid (c : RegCtx) (name : String) : Bool :=
  match c.valid with
  | none => true
  | some names => names.contains name

/-- ` {reg: >6} = {reg_val}` -/
def regCell (c : RegCtx) (r : String × Nat) : List Char :=
  [' '] ++ padSp 6 r.1.toList ++ " = ".toList ++ (hexPad (c.regSize * 2) r.2).toList

/-- the loop of `print_registers`: `out` = lines flushed so far (reversed), `cur` = the buffer -/
def regLoop (c : RegCtx) : List (String × Nat) → List (List Char) → List Char → List (List Char)
  | [], out, cur => (if cur.isEmpty then out else (' ' :: cur) :: out).reverse
  | r :: rest, out, cur =>
    if regValid c r.1 then
      let next := regCell c r
      if cur.length + next.length > 80 then regLoop c rest ((' ' :: cur) :: out) next
      else regLoop c rest out (cur ++ next)
    else regLoop c rest out cur

def regLines (c : RegCtx) : List TLine := (regLoop c c.gpr [] []).map plc

/-- ` [{basename(file)} : {line}]` of an inline frame -/
def inlineLine (idx : Nat) (f : FrameM) (i : InlineM) : TLine :=
  ⟨.frame idx,
   padSp 2 (dec idx) ++ "  ".toList ++
   (match f.module with
    | some (name, _) => baseN name
    | none => []) ++
   ['!'] ++ i.function.toList ++
   (match i.file, i.line with
    | some file, some line => " [".toList ++ baseN file ++ " : ".toList ++ dec line ++ [']']
    | _, _ => [])⟩

def inlineLines (f : FrameM) : Nat → List InlineM → List TLine
  | _, [] => []
  | idx, i :: rest => inlineLine idx f i :: pl "    Found by: inlining" :: inlineLines f (idx + 1) rest

def offsetsText : List Nat → List Char
  | [] => []
  | [o] => hexX o
  | o :: rest => hexX o ++ ['|'] ++ offsetsText rest

def unloadedText : List (String × List Nat) → List Char
  | [] => []
  | (name, offs) :: rest =>
    " (unloaded ".toList ++ name.toList ++ ['@'] ++ offsetsText offs ++ [')'] ++ unloadedText rest

/-- what follows the frame number on the line of a real frame (lib.rs:453-507) -/
def frameBody (f : FrameM) (x : FrameX) : Outcome (List Char) :=
  match f.module with
  | some (name, base) =>
    match f.functionName, f.functionBase with
    | some fn, some fb =>
      match f.sourceFile, f.sourceLine, x.lineBase with
      | some file, some line, some lb =>
        obind (checkedSub "frame line: addr - src_base" f.instruction lb) fun o =>
        .ok (baseN name ++ ['!'] ++ fn.toList ++ " [".toList ++ baseN file ++ " : ".toList ++
             dec line ++ " + ".toList ++ hexX o ++ [']'])
      | _, _, _ =>
        obind (checkedSub "frame line: addr - func_base" f.instruction fb) fun o =>
        .ok (baseN name ++ ['!'] ++ fn.toList ++ " + ".toList ++ hexX o)
    | _, _ =>
      obind (checkedSub "frame line: addr - module.base_address()" f.instruction base) fun o =>
      .ok (baseN name ++ " + ".toList ++ hexX o)
  | none => .ok (hexX f.instruction ++ unloadedText f.unloaded)

def argLines (ptrBytes : Nat) : Nat → List (String × Option Nat) → List TLine
  | _, [] => []
  | idx, (name, v) :: rest =>
    plc ("        arg ".toList ++ dec idx ++ " (".toList ++ name.toList ++ ") = ".toList ++
         (match v with
          | some val => if ptrBytes = 4 then hex8 val else hex16 val
          | none => "<unknown>".toList)) ::
    argLines ptrBytes (idx + 1) rest

def argsLines (x : FrameX) : List TLine :=
  match x.args with
  | none => []
  | some a =>
    plc ("    Arguments (assuming ".toList ++ (CallConv.summary a.cc).toList ++ [')']) ::
    (argLines x.ptrBytes 0 a.args ++ [plc []])

/-- the frames of one call stack; `n` = `frame_count` so far -/
def framesLines : Nat → List (FrameM × FrameX) → Outcome (List TLine)
  | _, [] => .ok []
  | n, (f, x) :: rest =>
    obind (frameBody f x) fun body =>
    obind (framesLines (n + f.inlines.length + 1) rest) fun more =>
    .ok (inlineLines f n f.inlines ++
         [⟨.frame (n + f.inlines.length), padSp 2 (dec (n + f.inlines.length)) ++ "  ".toList ++ body⟩] ++
         regLines f.ctx ++
         [plc ("    Found by: ".toList ++ (Trust.description f.trust).toList)] ++
         argsLines x ++ more)

/-- `CallStack::print` -/
def stackLines (t : ThreadM) (x : ThreadX) : Outcome (List TLine) :=
  obind (framesLines 0 (zipD FrameX.dflt t.frames x.frames)) fun ls =>
  .ok ((if t.frames.isEmpty then [pl "<no frames>"] else []) ++ ls)

/-! ## 6. threads -/

def headerText (idx : Nat) (t : ThreadM) (mark : Option Bool) : List Char :=
  "Thread ".toList ++ dec idx ++ [' '] ++ (t.threadName.getD "").toList ++
  (match mark with
   | some true => " (crashed)".toList
   | some false => " (requested dump, did not crash)".toList
   | none => []) ++
  " - tid: ".toList ++ dec t.threadId

/-- the block of the requesting thread (process_state.rs:743-759) -/
def requestingLines (s : StateModel) (x : TextExtra) : Outcome (List TLine) :=
  match s.requestingThread with
  | none => .ok []
  | some i =>
    match s.threads[i]? with
    | none => .panic "self.threads[requesting_thread]: index out of bounds"
    | some t =>
      obind (stackLines t (x.threads[i]?.getD ThreadX.dflt)) fun ls =>
      .ok (⟨.header i true, headerText i t (some s.exc.isSome)⟩ :: (ls ++ [plc []]))

/-- the loop over all threads (process_state.rs:766-782) -/
def otherThreadsLines (req : Option Nat) : Nat → List (ThreadM × ThreadX) → Outcome (List TLine)
  | _, [] => .ok []
  | i, (t, x) :: rest =>
    if req = some i ∨ x.skipped then otherThreadsLines req (i + 1) rest
    else
      obind (stackLines t x) fun ls =>
      obind (otherThreadsLines req (i + 1) rest) fun more =>
      .ok (⟨.header i false, headerText i t none⟩ :: (ls ++ more))

/-! ## 7. module lists -/

/-- `MinidumpModuleList::by_addr`: positions into `modules`, in address order — the values of the
    table `from_modules` built with `into_rangemap_safe` (C08 `safe_ok`: the final `unwrap` never
    fires and the table is `safeVec`). -/
def modulesByAddr (ms : List ModuleM) : List Nat :=
  (RangeMap.safeVec (ms.zipIdx.map fun (m, i) => (RangeMap.mkRange m.base m.size, i))).map (·.2)

/-- `MinidumpUnloadedModuleList::by_addr` -/
def unloadedByAddr (ms : List UnloadedM) : List Nat :=
  (RangeMap.unloadedFrom (ms.map fun m => RangeMap.mkRange m.base m.size)).map (·.2)

/-- `{:#010x} - {:#010x}` of `base` and `base + size - 1` -/
def rangeText (site : String) (base size : Nat) : Outcome (List Char) :=
  obind (checkedAdd (site ++ ": base_address() + size()") base size) fun e =>
  obind (checkedSub (site ++ ": base_address() + size() - 1") e 1) fun last =>
  .ok (hex8 base ++ " - ".toList ++ hex8 last)

def certText (certInfo : List (String × String)) (name : String) : List Char :=
  match lookupS name certInfo with
  | some c => " (".toList ++ c.toList ++ [')']
  | none => []

def moduleLine (s : StateModel) (idx : Nat) (m : ModuleM) : Outcome TLine :=
  obind (rangeText "Loaded modules" m.base m.size) fun r =>
  .ok ⟨.loaded idx,
       r ++ "  ".toList ++ baseN m.name ++ "  ".toList ++ (m.version.getD "???").toList ++
       (if s.modules.head?.map (·.base) = some m.base then "  (main)".toList else []) ++
       certText s.certInfo (basename m.name)⟩

def moduleLines (s : StateModel) : List Nat → Outcome (List TLine)
  | [] => .ok []
  | i :: rest =>
    match s.modules[i]? with
    | none => .panic "by_addr: self.modules[index]"
    | some m =>
      obind (moduleLine s i m) fun l => obind (moduleLines s rest) fun ls => .ok (l :: ls)

def unloadedLine (s : StateModel) (idx : Nat) (m : UnloadedM) : Outcome TLine :=
  obind (rangeText "Unloaded modules" m.base m.size) fun r =>
  .ok ⟨.unloaded idx, r ++ "  ".toList ++ baseN m.name ++ certText s.certInfo (basename m.name)⟩

def unloadedLines (s : StateModel) : List Nat → Outcome (List TLine)
  | [] => .ok []
  | i :: rest =>
    match s.unloaded[i]? with
    | none => .panic "by_addr: self.modules[index] (unloaded)"
    | some m =>
      obind (unloadedLine s i m) fun l => obind (unloadedLines s rest) fun ls => .ok (l :: ls)

/-! ## 8. streams, soft errors -/

def unimplementedLine (st : StreamM) : TLine :=
  plc ("Stream ".toList ++ hex8 st.ty ++ [' '] ++ st.debugName.toList ++ " (".toList ++
       st.vendor.toList ++ ") @ ".toList ++ hex8 st.rva)

def unknownLine (st : StreamM) : TLine :=
  plc ("Stream ".toList ++ hex8 st.ty ++ " (".toList ++ st.vendor.toList ++ ") @ ".toList ++ hex8 st.rva)

def indent (n : Nat) : List Char := List.replicate (2 * n) ' '

mutual
/-- `serde_json::to_writer_pretty` (PrettyFormatter, indent of two spaces) at nesting depth `d` -/
def pretty (d : Nat) : Json → List Char
  | .arr [] => ['[', ']']
  | .arr (x :: xs) => '[' :: '\n' :: (indent (d + 1) ++ pretty (d + 1) x ++ prettyTail d xs)
  | .obj [] => ['{', '}']
  | .obj ((k, v) :: kvs) =>
    '{' :: '\n' :: (indent (d + 1) ++ renderStr k ++ ':' :: ' ' :: (pretty (d + 1) v ++ prettyFTail d kvs))
  | j => render j
def prettyTail (d : Nat) : List Json → List Char
  | [] => '\n' :: (indent d ++ [']'])
  | x :: xs => ',' :: '\n' :: (indent (d + 1) ++ pretty (d + 1) x ++ prettyTail d xs)
def prettyFTail (d : Nat) : List (String × Json) → List Char
  | [] => '\n' :: (indent d ++ ['}'])
  | (k, v) :: kvs =>
    ',' :: '\n' :: (indent (d + 1) ++ renderStr k ++ ':' :: ' ' :: (pretty (d + 1) v ++ prettyFTail d kvs))
end

def softLines (s : StateModel) : List TLine :=
  match s.softErrors with
  | some (.arr (x :: xs)) =>
    [plc [], pl "Soft errors were encountered when minidump was written:", plc (pretty 0 (.arr (x :: xs)))]
  | _ => []

def streamLines (x : TextExtra) : List TLine :=
  (if x.unimplemented.isEmpty then []
   else plc [] :: pl "Unimplemented streams encountered:" :: x.unimplemented.map unimplementedLine) ++
  (if x.unknown.isEmpty then []
   else plc [] :: pl "Unknown streams encountered:" :: x.unknown.map unknownLine)

/-! ## 9. `print_internal` -/

/-- everything up to "We're done if this is a brief report!" — the whole of `print_brief`.
    `pw` is the pointer width `Address` Display finds in the thread-local print context. -/
def briefLines (pw : PW) (s : StateModel) (x : TextExtra) : Outcome (List TLine) :=
  obind (requestingLines s x) fun req =>
  .ok (sysLines s ++
       (match s.exc with
        | some e => crashLines pw e x
        | none => [pl "No crash"]) ++
       miscLines s x ++ req)

/-- what `print` writes after that -/
def restLines (s : StateModel) (x : TextExtra) : Outcome (List TLine) :=
  obind (otherThreadsLines s.requestingThread 0 (zipD ThreadX.dflt s.threads x.threads)) fun others =>
  obind (moduleLines s (modulesByAddr s.modules)) fun mods =>
  obind (unloadedLines s (unloadedByAddr s.unloaded)) fun unl =>
  .ok (others ++ [plc [], pl "Loaded modules:"] ++ mods ++ [plc [], pl "Unloaded modules:"] ++ unl ++
       streamLines x ++ softLines s)

/-- `print_internal` after `set_print_context` -/
def linesWith (pw : PW) (s : StateModel) (x : TextExtra) (brief : Bool) : Outcome (List TLine) :=
  obind (briefLines pw s x) fun head =>
  if brief then .ok head
  else obind (restLines s x) fun rest => .ok (head ++ rest)

/-- `set_print_context`: the thread-local pointer width is overwritten with the printed state's -/
def setCtx (_before : Option PW) (s : StateModel) : PW := s.sys.cpu.pw
/-- the variant "fill the context only when it is empty" (seeded break C13-2b) -/
def setCtxOnce (before : Option PW) (s : StateModel) : PW := before.getD s.sys.cpu.pw

/-- `print_internal` on a thread whose print context holds `before` -/
def linesAfter (set : Option PW → StateModel → PW) (before : Option PW)
    (s : StateModel) (x : TextExtra) (brief : Bool) : Outcome (List TLine) :=
  linesWith (set before s) s x brief

/-- the structured report -/
def printLines (s : StateModel) (x : TextExtra) (brief : Bool) : Outcome (List TLine) :=
  linesAfter setCtx none s x brief

/-- `ProcessState::print` (`brief = false`) / `print_brief` (`brief = true`): the characters written -/
def printText (s : StateModel) (x : TextExtra) (brief : Bool) : Outcome (List Char) :=
  obind (printLines s x brief) fun ls => .ok (renderLines ls)

/-- the bytes -/
def textBytes (cs : List Char) : ByteArray := (String.ofList cs).toUTF8

/-- does the abstraction have the shape of the state? (checked by `handle`, never defaulted) -/
def shapeOk (s : StateModel) (x : TextExtra) : Bool :=
  x.threads.length == s.threads.length &&
  (zipD ThreadX.dflt s.threads x.threads).all (fun p => p.2.frames.length == p.1.frames.length) &&
  (match s.exc with
   | some e => x.flips.length == e.bitFlips.length &&
               validOrder (zipD FlipX.dflt e.bitFlips x.flips) x.flipOrder
   | none => x.flips.isEmpty && x.flipOrder.isEmpty)

/-! ## 10. line protocol
  `text <the 17 trees of engine json> <extra>` -> `F:<hex(print)|PANIC> B:<hex(print_brief)|PANIC>`
  extra = `( <times> ( thread… ) ( flip… ) ( n<pos>… ) ( stream… ) ( stream… ) )`
    times  = `-` | `( <int> <int> )`, int = `n<abs>` | `m<abs>` (negative)
    thread = `( t|f ( frame… ) )`, frame = `( <n|-> <args|-> n<4|8> )`,
    args   = `( cdecl|winthis|otherthis ( ( s<name> <n|-> )… ) )`
    flip   = `( n<bits> s<text> )`, stream = `( n<type> s<debug> s<vendor> n<rva> )`
-/
namespace Dec
open MdModel.Json.Dec

def int : Sx → Option Int
  | .atom a =>
    if a.startsWith "n" then (a.drop 1).toString.toNat?.map Int.ofNat
    else if a.startsWith "m" then (a.drop 1).toString.toNat?.map fun n => - Int.ofNat n
    else none
  | _ => none

def times : Sx → Option (Int × Int)
  | .list [a, b] => do some (← int a, ← int b)
  | _ => none

def cc : Sx → Option CallConv
  | .atom "cdecl" => some .cdecl
  | .atom "winthis" => some .windowsThisCall
  | .atom "otherthis" => some .otherThisCall
  | _ => none

def arg : Sx → Option (String × Option Nat)
  | .list [a, b] => do some (← str a, ← opt nat b)
  | _ => none

def args : Sx → Option ArgsM
  | .list [a, b] => do some ⟨← cc a, ← list arg b⟩
  | _ => none

def frameX : Sx → Option FrameX
  | .list [a, b, c] => do some ⟨← opt nat a, ← opt args b, ← nat c⟩
  | _ => none

def threadX : Sx → Option ThreadX
  | .list [a, b] => do some ⟨← bool a, ← list frameX b⟩
  | _ => none

def flipX : Sx → Option FlipX
  | .list [a, b] => do some ⟨← nat a, ← str b⟩
  | _ => none

def stream : Sx → Option StreamM
  | .list [a, b, c, d] => do some ⟨← nat a, ← str b, ← str c, ← nat d⟩
  | _ => none

def extra : Sx → Option TextExtra
  | .list [a, b, c, d, e, f] => do
    some ⟨← opt times a, ← list threadX b, ← list flipX c, ← list nat d, ← list stream e, ← list stream f⟩
  | _ => none

end Dec

def outHex : Outcome (List Char) → String
  | .panic _ => "PANIC"
  | .ok cs => Proto.hex (textBytes cs).toList

/-- line-protocol entry point of this model (engine: text) -/
def handle (engine : String) (args : List String) : String :=
  if engine = "text" then
    match sxParse (args.length + 1) args [] with
    | some (sxs, []) =>
      match Json.Dec.state (sxs.take 17), sxs.drop 17 with
      | some s, [xt] =>
        match Dec.extra xt with
        | none => "bad-op"
        | some x =>
          if shapeOk s x then
            "F:" ++ outHex (printText s x false) ++ " B:" ++ outHex (printText s x true)
          else "bad-shape"
      | _, _ => "bad-op"
    | _ => "bad-op"
  else "bad-op"

end MdModel.Text
