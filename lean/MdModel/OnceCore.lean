/-
  MdModel.OnceCore (namespace MdModel.Once) — small-step interleaving model of
    * `CachedAsyncResult::get`            (breakpad-symbols/src/lib.rs:702-713): an async mutex
      (`futures_util::lock::Mutex`) is taken, and HELD ACROSS the supplier call when the slot is empty;
    * `Symbolizer::get_symbols`           (breakpad-symbols/src/lib.rs:862-902):
      `symbols.cache_default(module_key(module))` (insert-only per-key slot, `cachemap2`), and the
      `pending_stats.symbols_requested / symbols_processed` bookkeeping around the supplier call;
    * `futures_util::lock::Mutex` 0.3.31  (src/lock/mutex.rs): `poll` acquires iff the lock is free; a
      failed poll registers (or re-registers) the task in the waiter slab; `unlock` wakes the FIRST
      slab entry if it is still `Waiting` (and marks it `Woken`); an acquiring poll removes its entry.

  A *task* runs a program: a list of module keys it looks up one after another
  (`fill_symbol`/`walk_frame` → `get_symbols`). One `poll` of a task runs it until it has to
  return `Pending` (lock not free, or the supplier suspends) or until the program ends — so a single
  poll may complete several lookups. `poll t` is the only transition; a schedule is any list of
  task ids (polls of tasks that cannot progress — spurious polls — are allowed, as `join_all` does).
  The supplier is a parameter: for every key the number of times it returns `Pending` before
  answering, and its outcome.

  Waiter slab abstraction: for one key, insertions into the slab only happen while the lock is held
  across a suspension (slot `held`), removals only afterwards (slot `done`), so slab order =
  registration order and the slab is modelled by a list (first = lowest slab index).
  Cancellation (dropping a task) is excluded by the property and not modelled.
-/
import MdModel.Prelude
namespace MdModel.Once
open MdModel

/-- outcome of `SymbolSupplier::locate_symbols` as far as the cache is concerned -/
inductive Res where
  | ok | notFound | parseError
  deriving DecidableEq, Repr, Inhabited

/-- supplier behaviour for one key: `delay` × `Pending`, then `res` -/
structure Sup where
  delay : Nat
  res : Res
  deriving Repr, Inhabited

/-- a configuration: one program (list of keys) per task, and the supplier table -/
structure Cfg where
  progs : List (List Nat)
  sup : Nat → Sup

def Cfg.prog (cfg : Cfg) (t : Nat) : List Nat := cfg.progs.getD t []
def Cfg.ntasks (cfg : Cfg) : Nat := cfg.progs.length
def Cfg.outcome (cfg : Cfg) (k : Nat) : Res := (cfg.sup k).res

/-- per-key slot = (`FutMutex` state, `Option<Arc<Result>>` value) between polls:
    `empty`: unlocked, value `None`; `held t`: locked by `t` which is inside the supplier call,
    value `None`; `done r`: unlocked, value `Some(r)`. -/
inductive Slot where
  | empty | held (t : Nat) | done (r : Res)
  deriving DecidableEq, Repr, Inhabited

/-- control state of a task between polls -/
inductive Ctl where
  | ready                      -- not polled yet / between two lookups during a poll
  | waiting (k : Nat)          -- `MutexLockFuture` for key k returned `Pending` (registered waiter)
  | inSup (k : Nat) (n : Nat)  -- holds the lock of k, supplier will return `Pending` n more times
  | fin                        -- program finished (the future returned `Ready`)
  deriving DecidableEq, Repr, Inhabited

structure Task where
  ctl : Ctl
  /-- keys still to look up after the current one -/
  rest : List Nat
  /-- the task's waker has fired since its last poll (an executor that only polls woken tasks
      would poll it) -/
  woken : Bool
  deriving Repr, Inhabited

inductive Event where
  | call (k : Nat)               -- `locate_symbols` started for key k
  | ret (k : Nat)                -- `locate_symbols` returned for key k
  | seen (t k : Nat) (r : Res)   -- task t's lookup of key k finished, observing r
  deriving DecidableEq, Repr

structure State where
  task : Nat → Task
  slot : Nat → Slot
  /-- waiter slab of the key's mutex, in slab order; `true` = entry is `Waiter::Woken` -/
  waiters : Nat → List (Nat × Bool)
  requested : Nat
  processed : Nat
  log : List Event

def upd {α : Type} (f : Nat → α) (i : Nat) (v : α) : Nat → α := fun j => if j = i then v else f j

def init (cfg : Cfg) : State where
  task := fun t => if t < cfg.ntasks then ⟨.ready, cfg.prog t, true⟩ else ⟨.fin, [], false⟩
  slot := fun _ => .empty
  waiters := fun _ => []
  requested := 0
  processed := 0
  log := []

def setCtl (s : State) (t : Nat) (c : Ctl) (r : List Nat) : State :=
  { s with task := upd s.task t { ctl := c, rest := r, woken := (s.task t).woken } }

def setWoken (s : State) (t : Nat) (b : Bool) : State :=
  { s with task := upd s.task t { ctl := (s.task t).ctl, rest := (s.task t).rest, woken := b } }

def emit (s : State) (e : Event) : State := { s with log := s.log ++ [e] }

def setSlot (s : State) (k : Nat) (v : Slot) : State := { s with slot := upd s.slot k v }

def setWaiters (s : State) (k : Nat) (ws : List (Nat × Bool)) : State :=
  { s with waiters := upd s.waiters k ws }

/-- a failed `MutexLockFuture::poll`: first time → `waiters.insert(Waiting)`, later →
    `waiters[key].register(waker)` which turns a `Woken` entry back into `Waiting` -/
def register (ws : List (Nat × Bool)) (t : Nat) : List (Nat × Bool) :=
  if ws.any (fun e => e.1 == t) then ws.map (fun e => if e.1 == t then (t, false) else e)
  else ws ++ [(t, false)]

/-- `remove_waker(wait_key, false)` of an acquiring poll (nothing to remove for a fresh future) -/
def deregister (ws : List (Nat × Bool)) (t : Nat) : List (Nat × Bool) :=
  ws.filter (fun e => e.1 != t)

/-- `Mutex::unlock`: the first slab entry is woken if it is still `Waiting` -/
def unlock (s : State) (k : Nat) : State :=
  match s.waiters k with
  | (u, false) :: ws => setWoken (setWaiters s k ((u, true) :: ws)) u true
  | _ => s

/-- the supplier call of task `t` for key `k` returns: `symbols_processed += 1`, the slot value is
    set, the guard is dropped, the task observes the outcome and goes on with `r` -/
def complete (cfg : Cfg) (t k : Nat) (r : List Nat) (s : State) : State :=
  let res := cfg.outcome k
  let s := emit { s with processed := s.processed + 1 } (.ret k)
  let s := setSlot s k (.done res)
  -- (the guard is dropped before the task records what it saw; the two touch disjoint parts of
  --  the state, the model applies `unlock` last)
  unlock (setCtl (emit s (.seen t k res)) t .ready r) k

/-- task `t` polls its lock future for key `k` (fresh, or already registered); `r` is its program
    after this lookup. Returns the new state and whether the lookup completed (the poll goes on). -/
def lookup (cfg : Cfg) (t k : Nat) (r : List Nat) (s : State) : State × Bool :=
  match s.slot k with
  | .held _ =>
    (setCtl (setWaiters s k (register (s.waiters k) t)) t (.waiting k) r, false)
  | .done res =>
    let s := setWaiters s k (deregister (s.waiters k) t)
    (unlock (setCtl (emit s (.seen t k res)) t .ready r) k, true)
  | .empty =>
    let s := setWaiters s k (deregister (s.waiters k) t)
    let s := setSlot (emit { s with requested := s.requested + 1 } (.call k)) k (.held t)
    match (cfg.sup k).delay with
    | 0 => (complete cfg t k r (setCtl s t (.inSup k 0) r), true)
    | n + 1 => (setWoken (setCtl s t (.inSup k n) r) t true, false)

/-- the rest of a poll of task `t`, which is `ready` with program `ks` -/
def runReady (cfg : Cfg) (t : Nat) : List Nat → State → State
  | [], s => setCtl s t .fin []
  | k :: r, s =>
    match lookup cfg t k r s with
    | (s', true) => runReady cfg t r s'
    | (s', false) => s'

/-- THE transition: the executor polls task `t` (its wake flag is consumed first). Polling a
    finished task (or an id that is no task) is a no-op: executors never do it. -/
def poll (cfg : Cfg) (t : Nat) (s : State) : State :=
  let T := s.task t
  match T.ctl with
  | .fin => s
  | .ready => runReady cfg t T.rest (setWoken s t false)
  | .waiting k =>
    match lookup cfg t k T.rest (setWoken s t false) with
    | (s', true) => runReady cfg t T.rest s'
    | (s', false) => s'
  | .inSup k (n + 1) => setWoken (setCtl s t (.inSup k n) T.rest) t true
  | .inSup k 0 => runReady cfg t T.rest (complete cfg t k T.rest (setWoken s t false))

/-- run a schedule -/
def exec (cfg : Cfg) : List Nat → State → State
  | [], s => s
  | t :: ts, s => exec cfg ts (poll cfg t s)

def isFin (s : State) (t : Nat) : Bool := (s.task t).ctl == .fin

def allFin (cfg : Cfg) (s : State) : Bool := (List.range cfg.ntasks).all (isFin s)

/-! ### progress measure -/

def cost (cfg : Cfg) (ks : List Nat) : Nat := (ks.map fun k => (cfg.sup k).delay + 3).sum

def taskMeasure (cfg : Cfg) (T : Task) : Nat :=
  match T.ctl with
  | .ready => cost cfg T.rest + 1
  | .waiting k => (cfg.sup k).delay + 3 + cost cfg T.rest
  | .inSup _ n => n + 2 + cost cfg T.rest
  | .fin => 0

def measure (cfg : Cfg) (s : State) : Nat :=
  ((List.range cfg.ntasks).map fun t => taskMeasure cfg (s.task t)).sum

/-! ### observations -/

def seenBy (t : Nat) (log : List Event) : List (Nat × Res) :=
  log.filterMap fun e => match e with
    | .seen t' k r => if t' = t then some (k, r) else none
    | _ => none

def callCount (k : Nat) (log : List Event) : Nat := log.count (.call k)

/-- remove duplicates (keeps the last occurrence) -/
def dedup : List Nat → List Nat
  | [] => []
  | a :: l => if a ∈ dedup l then dedup l else a :: dedup l

/-- all keys mentioned by the programs, without duplicates -/
def allKeys (cfg : Cfg) : List Nat := dedup cfg.progs.flatten

def Slot.isDone : Slot → Bool
  | .done _ => true
  | _ => false

def Slot.nonEmpty : Slot → Bool
  | .empty => false
  | _ => true

/-- what a task still has to look up, including the lookup it is in the middle of -/
def todo (T : Task) : List Nat :=
  match T.ctl with
  | .ready => T.rest
  | .waiting k => k :: T.rest
  | .inSup k _ => k :: T.rest
  | .fin => []

/-- the answer every lookup of key `k` must see: a function of the supplier table only -/
def expected (cfg : Cfg) (k : Nat) : Nat × Res := (k, cfg.outcome k)

/-- the keys task `t` has begun to look up: those it has an answer for, and the one it is in
    the middle of -/
def begun (s : State) (t : Nat) : List Nat :=
  (seenBy t s.log).map Prod.fst ++
    (match (s.task t).ctl with
     | .waiting k => [k]
     | .inSup k _ => [k]
     | _ => [])

/-- distinct keys some task has begun to look up -/
def startedKeys (cfg : Cfg) (s : State) : List Nat :=
  (allKeys cfg).filter fun k => (List.range cfg.ntasks).any fun t => (begun s t).contains k

/-! ### executors used by the tie -/

/-- tasks an executor that respects wakers would consider: woken and unfinished -/
def runnable (cfg : Cfg) (s : State) : List Nat :=
  (List.range cfg.ntasks).filter fun t => (s.task t).woken && !isFin s t

/-- one round of round-robin over all tasks -/
def roundRobin (cfg : Cfg) (s : State) : State := exec cfg (List.range cfg.ntasks) s

/-- completion phase: round-robin rounds (`fuel` of them) -/
def finish (cfg : Cfg) : Nat → State → State
  | 0, s => s
  | f + 1, s => if allFin cfg s then s else finish cfg f (roundRobin cfg s)

/-- completion phase of a waker-respecting executor: rounds that poll the tasks that are woken at
    the start of the round (stops when there is none) -/
def finishW (cfg : Cfg) : Nat → State → State
  | 0, s => s
  | f + 1, s =>
    if allFin cfg s then s
    else if (runnable cfg s).isEmpty then s
    else finishW cfg f (exec cfg (runnable cfg s) s)

end MdModel.Once
