/-
  MdModel.DumpMisc — executable model of the small vendor streams (line numbers of the pinned
  minidump/src/minidump.rs in brackets).

    MinidumpBreakpadInfo::read [4192]              -> `readBreakpadInfo`
    MinidumpAssertion::read [5035], utf16_to_string [5048], expression/function/file [5061]
                                                   -> `readAssertion`, `utf16ToString`
    MinidumpMacCrashInfo::read [3694] (record versions, the C-string table walk; `read_cstring_utf8`
        with its UTF-8 check and `String::from`)   -> `readMacCrashInfo`, `readMacRecord`, `readCStrings`
    MinidumpMacCrashInfo::print's `self.raw[idx]` [3831] -> `macPrintIndices`
    MinidumpMacBootargs::read [3853]               -> `readMacBootargs`
    the `exception_information[0..=2]` reads of CrashReason::from_exception [4250-4530] and of
        get_crash_address [4918] (the decision tables themselves are `MdModel.Reason`, C14's model)
                                                   -> `reasonInputs`

  Not logged as allocations: vectors/strings whose size is bounded by a constant of the code
  (`infos`: at most 20 records; the three 128-unit assertion strings are logged with their
  decoder estimate).
-/
import MdModel.Dump
import MdModel.Gen.LayoutsX
import MdModel.Reason
namespace MdModel.Dump
open MdModel
open MdModel.Gen.Layouts
open MdModel.Gen.LayoutsX

/-! ## Breakpad info -/

structure BreakpadInfo where
  validity : Nat
  dumpThreadId : Option Nat
  requestingThreadId : Option Nat
  deriving Repr

/-- `MinidumpBreakpadInfo::read` [4192]: `BreakpadInfoValid::from_bits_truncate(validity).contains(..)` -/
def readBreakpadInfo (b : Bytes) (e : Endian) : M BreakpadInfo :=
  match readFields MINIDUMP_BREAKPAD_INFO b 0 e with
  | none => M.fail .StreamReadFailure
  | some v =>
    let validity := fld v 0
    pure { validity := validity,
           dumpThreadId := if validity &&& BREAKPAD_VALID_DumpThreadId = BREAKPAD_VALID_DumpThreadId then some (fld v 1) else none,
           requestingThreadId :=
             if validity &&& BREAKPAD_VALID_RequestingThreadId = BREAKPAD_VALID_RequestingThreadId then some (fld v 2) else none }

/-! ## assertion info -/

/-- `utf16_to_string(data: &[u16])` [5048] on a fixed array of `n = data.len()` code units:
    `len` = number of units before the first 0, `&data[..len]` (panics if `len > n`), strict
    UTF-16LE decoding of the host's little-endian bytes of those units (i.e. of the VALUES, whatever
    the dump's byte order was). The decoder's buffer is logged with the usual 3-bytes-per-unit estimate. -/
def utf16ToString (data : List Nat) : M (Option (List Nat)) :=
  let len := (data.takeWhile (· ≠ 0)).length
  if len ≤ data.length then
    M.alloc len 3 false >>= fun _ => pure (utf16Decode (data.take len))
  else M.panic "utf16_to_string: &data[..len]"

structure Assertion where
  expression : Option (List Nat)
  function : Option (List Nat)
  file : Option (List Nat)
  line : Nat
  ty : Nat
  deriving Repr

/-- `MinidumpAssertion::read` [5035] followed by the three accessors (which `print` calls as well) -/
def readAssertion (b : Bytes) (e : Endian) : M Assertion :=
  match readFields MINIDUMP_ASSERTION_INFO b 0 e with
  | none => M.fail .StreamReadFailure
  | some v =>
    utf16ToString (v.take 128) >>= fun ex =>
    utf16ToString ((v.drop 128).take 128) >>= fun fn =>
    utf16ToString ((v.drop 256).take 128) >>= fun fl =>
    pure { expression := ex, function := fn, file := fl, line := fld v 384, ty := fld v 385 }

/-! ## macOS crash info -/

/-- `read_cstring_utf8` [750] in full: the scan and slice of `MdModel.Dump.readCStringUtf8`, then
    `str::from_utf8(..).map(String::from).ok()` — invalid UTF-8 is `None`, a valid string is copied. -/
def readCStringUtf8X (b : Bytes) (off : Nat) : M (Option (Bytes × Nat)) :=
  readCStringUtf8 b off >>= fun r =>
  match r with
  | none => pure none
  | some (s, stop) =>
    if utf8Valid s.toList then M.alloc s.size 1 >>= fun _ => pure (some (s, stop)) else pure none

/-- the `for i in 0..num_strings` loop [3767]: `n` consecutive C strings from `off` on -/
def readCStrings (rec : Bytes) : Nat → Nat → M (List Bytes)
  | 0, _ => pure []
  | n + 1, off =>
    readCStringUtf8X rec off >>= fun r =>
    match r with
    | none => M.fail .StreamReadFailure
    | some (s, off') => readCStrings rec n off' >>= fun rest => pure (s :: rest)

structure MacRecord where
  /-- 1, 4 or 5: the variant of `RawMacCrashInfo` that was read -/
  variant : Nat
  /-- the scalars of the fixed part (2, 4 or 5 of them) -/
  fixed : List Nat
  strings : List Bytes
  deriving Repr

/-- one arm of `do_read!` [3746]: `gread_with` of the fixed part, the sanity check
    `*offset > strings_offset`, the jump to `strings_offset`, the strings -/
def readMacVariant (rec : Bytes) (e : Endian) (stringsOffset : Nat) (variant : Nat) (l : Layout) (nStrings : Nat) :
    M MacRecord :=
  match readFields l rec 0 e with
  | none => M.fail .StreamReadFailure
  | some fixed =>
    if Layout.size l > stringsOffset then M.fail .StreamReadFailure
    else
      readCStrings rec nStrings stringsOffset >>= fun strings =>
      pure ⟨variant, fixed, strings⟩

/-- the body of the record loop [3713-3804] for one location descriptor; `prev` = version of the
    previous record. Returns the version and the record (none for a version-0 record, which matches
    no arm of `do_read!` and is silently skipped). -/
def readMacRecord (all : Bytes) (e : Endian) (stringsOffset : Nat) (loc : Loc) (prev : Option Nat) :
    M (Nat × Option MacRecord) :=
  match locationSlice all loc with
  | none => M.fail .StreamReadFailure
  | some rec =>
    match readFields MINIDUMP_MAC_CRASH_INFO_RECORD rec 0 e with
    | none => M.fail .StreamReadFailure
    | some base =>
      let version := fld base 1
      if prev.isSome ∧ prev ≠ some version then M.fail .VersionMismatch
      else if version ≥ 5 then
        readMacVariant rec e stringsOffset 5 MINIDUMP_MAC_CRASH_INFO_RECORD_5 NUM_STRINGS_MINIDUMP_MAC_CRASH_INFO_RECORD_STRINGS_5
          >>= fun r => pure (version, some r)
      else if version ≥ 4 then
        readMacVariant rec e stringsOffset 4 MINIDUMP_MAC_CRASH_INFO_RECORD_4 NUM_STRINGS_MINIDUMP_MAC_CRASH_INFO_RECORD_STRINGS_4
          >>= fun r => pure (version, some r)
      else if version ≥ 1 then
        readMacVariant rec e stringsOffset 1 MINIDUMP_MAC_CRASH_INFO_RECORD NUM_STRINGS_MINIDUMP_MAC_CRASH_INFO_RECORD_STRINGS
          >>= fun r => pure (version, some r)
      else pure (version, none)

/-- the loop over `header.records.iter().take(header.record_count as usize)` -/
def readMacRecords (all : Bytes) (e : Endian) (stringsOffset : Nat) : List Loc → Option Nat → M (List MacRecord)
  | [], _ => pure []
  | loc :: rest, prev =>
    readMacRecord all e stringsOffset loc prev >>= fun r =>
    readMacRecords all e stringsOffset rest (some r.1) >>= fun rs =>
    pure (match r.2 with
      | some x => x :: rs
      | none => rs)

/-- the 20 location descriptors of the header: scalars 3.. in pairs (data_size, rva) -/
def macRecordLocs : List Nat → List Loc
  | sz :: rva :: rest => ⟨sz, rva⟩ :: macRecordLocs rest
  | _ => []

/-- `MinidumpMacCrashInfo::read` [3694] -/
def readMacCrashInfo (b all : Bytes) (e : Endian) : M (List MacRecord) :=
  match readFields MINIDUMP_MAC_CRASH_INFO b 0 e with
  | none => M.fail .StreamReadFailure
  | some v =>
    let count := fld v 1
    let stringsOffset := fld v 2
    readMacRecords all e stringsOffset ((macRecordLocs (v.drop 3)).take count) none

/-- `MinidumpMacCrashInfo::print` [3831]: `for i in 0..self.raw.len()` indexes `self.raw[i]` (nine
    times per record); the indices it uses -/
def macPrintIndices (n : Nat) : List Nat := List.range n

/-- `self.raw[idx]` -/
def macRecordAt (rs : List MacRecord) (i : Nat) : M MacRecord :=
  match rs[i]? with
  | some r => pure r
  | none => M.panic "MinidumpMacCrashInfo::print: self.raw[idx]"

/-! ## macOS boot args -/

structure MacBootargs where
  streamType : Nat
  rva : Nat
  bootargs : Option (List Nat)
  deriving Repr

/-- `MinidumpMacBootargs::read` [3853]: the 64-bit RVA is used as the offset of a UTF-16 string -/
def readMacBootargs (b all : Bytes) (e : Endian) : M MacBootargs :=
  match readFields MINIDUMP_MAC_BOOTARGS b 0 e with
  | none => M.fail .StreamReadFailure
  | some v =>
    readStringUtf16 all (fld v 1) e >>= fun r =>
    pure ⟨fld v 0, fld v 1, r.map (·.1)⟩

/-! ## crash reason / crash address: the array reads -/

/-- `CrashReason::from_exception` [4250] and `get_crash_address` [4918] read
    `exception_information[0]`, `[1]` and `[2]` (constant indices into the 15-element array);
    the decision tables over these values are `MdModel.Reason.fromException` / `crashAddress`. -/
def reasonInputs (x : Exception) : M Reason.Exc :=
  infoAt x 0 >>= fun p0 => infoAt x 1 >>= fun p1 => infoAt x 2 >>= fun p2 =>
  pure { tid := x.threadId, code := x.code, flags := x.flags, addr := x.address,
         nparams := x.numberParameters, p0 := p0, p1 := p1, p2 := p2 }

end MdModel.Dump
