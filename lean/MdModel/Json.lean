/-
  MdModel.Json — placeholder (model not written yet).
-/
import MdModel.Prelude
namespace MdModel.Json

/-- line-protocol entry point of this model (engine(s): json, jsonck) -/
def handle (_engine : String) (_args : List String) : String := "bad-op"

end MdModel.Json
