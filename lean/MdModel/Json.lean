/-
  MdModel.Json — model of the JSON report of `minidump-processor`
    * `ProcessState::print_json`            (minidump-processor/src/process_state.rs:877-1185)
    * `json_registers`                      (process_state.rs:512-530)
    * `Address` Display / thread-local pointer width (process_state.rs:20-74, 1180-1184)
    * `serde_json` (1.0.140, no `preserve_order`: objects are `BTreeMap`s, keys in byte order):
      the compact writer and its string escaping — re-implemented, tied by correspondence
    * `minidump_common::utils::basename`, `Os::long_name`, `Cpu` Display / `pointer_width`,
      `SystemInfo::format_os_version`, `CpuContext::format_register`
    * json-schema.md, transcribed into `schema` (ONE place) and decided by `Conforms`.
  Leaves that are *not* modelled (crash-reason text, debug/code identifiers, module version,
  the shortest-round-trip float text of `confidence`) enter the state model as already rendered
  values; the harness obtains them by calling the real leaf function.
-/
import MdModel.Prelude
namespace MdModel.Json
open MdModel

/-! ## 1. digits -/

/-- digit `d < 16` as a lower-case character -/
def digitChar (d : Nat) : Char := Proto.hexNibble d

/-- Positional digits of `n` in base `b` (most significant first, no leading zero, `0 ↦ "0"`):
    what `itoa` (b = 10) and `{:x}` (b = 16) print. -/
def digitsB (b n : Nat) : List Char :=
  if h : n < b ∨ b < 2 then [digitChar n] else digitsB b (n / b) ++ [digitChar (n % b)]
termination_by n
decreasing_by
  have h1 : ¬ n < b := fun x => h (Or.inl x)
  have h2 : ¬ b < 2 := fun x => h (Or.inr x)
  exact Nat.div_lt_self (by omega) (by omega)

def natDigits (n : Nat) : List Char := digitsB 10 n
def hexDigits (n : Nat) : List Char := digitsB 16 n

def isDigit (c : Char) : Bool := 48 ≤ c.toNat && c.toNat ≤ 57
def decVal (c : Char) : Nat := c.toNat - 48
/-- value of a lower-case hex digit character (anything else ↦ 0; guarded by `isHexLower`) -/
def hexVal (c : Char) : Nat := if isDigit c then c.toNat - 48 else c.toNat - 87
def isHexLower (c : Char) : Bool := isDigit c || (97 ≤ c.toNat && c.toNat ≤ 102)
def isHexAny (c : Char) : Bool := isHexLower c || (65 ≤ c.toNat && c.toNat ≤ 70)
def hexValAny (c : Char) : Nat :=
  if isDigit c then c.toNat - 48 else if 97 ≤ c.toNat then c.toNat - 87 else c.toNat - 55

def valB (b : Nat) (dv : Char → Nat) (ds : List Char) : Nat := ds.foldl (fun a c => a * b + dv c) 0
def decValue (ds : List Char) : Nat := valB 10 decVal ds
def hexValue (ds : List Char) : Nat := valB 16 hexVal ds

/-! ## 2. JSON values, the compact renderer -/

/-- A JSON number token in serde_json/ryu's canonical spelling:
    `-`? int (`.` frac)? (`e` `-`? exp)?  -/
structure JNum where
  neg : Bool
  int : Nat
  frac : List (Fin 10)
  exp : Option (Bool × Nat)
  deriving DecidableEq, Repr, Inhabited

def JNum.ofNat (n : Nat) : JNum := ⟨false, n, [], none⟩

inductive Json where
  | null
  | bool (b : Bool)
  | num (n : JNum)
  | str (s : String)
  | arr (xs : List Json)
  | obj (kvs : List (String × Json))
  deriving Repr, Inhabited

abbrev Json.nat (n : Nat) : Json := .num (JNum.ofNat n)

mutual
def Json.beq : Json → Json → Bool
  | .null, .null => true
  | .bool a, .bool b => a == b
  | .num a, .num b => a == b
  | .str a, .str b => a == b
  | .arr a, .arr b => Json.beqL a b
  | .obj a, .obj b => Json.beqF a b
  | _, _ => false
def Json.beqL : List Json → List Json → Bool
  | [], [] => true
  | x :: xs, y :: ys => Json.beq x y && Json.beqL xs ys
  | _, _ => false
def Json.beqF : List (String × Json) → List (String × Json) → Bool
  | [], [] => true
  | (k, x) :: xs, (l, y) :: ys => k == l && Json.beq x y && Json.beqF xs ys
  | _, _ => false
end

/-- serde_json `format_escaped_str_contents`: `\" \\ \b \f \n \r \t`, `\u00XX` for the other
    controls below 0x20, everything else (incl. 0x7f and all non-ASCII) raw. -/
def escChar (c : Char) : List Char :=
  if c = '"' then ['\\', '"']
  else if c = '\\' then ['\\', '\\']
  else if c.toNat = 8 then ['\\', 'b']
  else if c.toNat = 12 then ['\\', 'f']
  else if c.toNat = 10 then ['\\', 'n']
  else if c.toNat = 13 then ['\\', 'r']
  else if c.toNat = 9 then ['\\', 't']
  else if c.toNat < 32 then ['\\', 'u', '0', '0', digitChar (c.toNat / 16), digitChar (c.toNat % 16)]
  else [c]

def renderStr (s : String) : List Char := '"' :: (s.toList.flatMap escChar ++ ['"'])

def fracChar (d : Fin 10) : Char := digitChar d.val

def renderNum (n : JNum) : List Char :=
  (if n.neg then ['-'] else []) ++ natDigits n.int ++
  (if n.frac = [] then [] else '.' :: n.frac.map fracChar) ++
  (match n.exp with
   | none => []
   | some (neg, e) => 'e' :: ((if neg then ['-'] else []) ++ natDigits e))

mutual
/-- `serde_json::to_writer` (CompactFormatter). -/
def render : Json → List Char
  | .null => ['n', 'u', 'l', 'l']
  | .bool true => ['t', 'r', 'u', 'e']
  | .bool false => ['f', 'a', 'l', 's', 'e']
  | .num n => renderNum n
  | .str s => renderStr s
  | .arr [] => ['[', ']']
  | .arr (x :: xs) => '[' :: (render x ++ renderTail xs)
  | .obj [] => ['{', '}']
  | .obj ((k, v) :: kvs) => '{' :: (renderStr k ++ ':' :: (render v ++ renderFTail kvs))
/-- the remaining elements of an array, each preceded by `,`, then `]` -/
def renderTail : List Json → List Char
  | [] => [']']
  | x :: xs => ',' :: (render x ++ renderTail xs)
/-- the remaining members of an object, each preceded by `,`, then `}` -/
def renderFTail : List (String × Json) → List Char
  | [] => ['}']
  | (k, v) :: kvs => ',' :: (renderStr k ++ ':' :: (render v ++ renderFTail kvs))
end

/-- the bytes written: UTF-8 of the rendered characters (valid UTF-8 by construction) -/
def renderBytes (j : Json) : ByteArray := (String.ofList (render j)).toUTF8

/-! ## 3. parser (RFC 8259; strict: no leading zeros, no raw controls in strings, no lone
    surrogates, nothing but white space after the value) -/

def isWs (c : Char) : Bool := c.toNat = 32 || c.toNat = 9 || c.toNat = 10 || c.toNat = 13
def skipWs (cs : List Char) : List Char := cs.dropWhile isWs

def unescSimple (e : Char) : Option Char :=
  if e = '"' then some '"' else if e = '\\' then some '\\' else if e = '/' then some '/'
  else if e = 'b' then some (Char.ofNat 8) else if e = 'f' then some (Char.ofNat 12)
  else if e = 'n' then some (Char.ofNat 10) else if e = 'r' then some (Char.ofNat 13)
  else if e = 't' then some (Char.ofNat 9) else none

def hex4 (a b c d : Char) : Option Nat :=
  if isHexAny a && isHexAny b && isHexAny c && isHexAny d then
    some (((hexValAny a * 16 + hexValAny b) * 16 + hexValAny c) * 16 + hexValAny d)
  else none

/-- after `\u`: four hex digits, a high surrogate must be followed by `\uDC00..DFFF` -/
def parseU (r2 : List Char) : Option (Char × List Char) :=
  match r2 with
  | a :: b :: c :: d :: r3 =>
    match hex4 a b c d with
    | none => none
    | some h =>
      if 0xD800 ≤ h ∧ h < 0xDC00 then
        match r3 with
        | bs :: u :: a2 :: b2 :: c2 :: d2 :: r4 =>
          if bs = '\\' ∧ u = 'u' then
            match hex4 a2 b2 c2 d2 with
            | none => none
            | some l =>
              if 0xDC00 ≤ l ∧ l < 0xE000 then
                some (Char.ofNat (0x10000 + (h - 0xD800) * 0x400 + (l - 0xDC00)), r4)
              else none
          else none
        | _ => none
      else if 0xDC00 ≤ h ∧ h < 0xE000 then none
      else some (Char.ofNat h, r3)
  | _ => none

/-- after a backslash -/
def parseEscape (r : List Char) : Option (Char × List Char) :=
  match r with
  | [] => none
  | e :: r2 =>
    if e = 'u' then parseU r2
    else
      match unescSimple e with
      | some ch => some (ch, r2)
      | none => none

/-- after the opening quote: characters up to the closing quote, unescaped; `acc` reversed.
    One unit of fuel per character read (`parseStr` supplies the input length). -/
def parseStrBody : Nat → List Char → List Char → Option (String × List Char)
  | 0, _, _ => none
  | fuel + 1, cs, acc =>
    match cs with
    | [] => none
    | c :: r =>
      if c = '"' then some (String.ofList acc.reverse, r)
      else if c = '\\' then
        match parseEscape r with
        | some (ch, r') => parseStrBody fuel r' (ch :: acc)
        | none => none
      else if c.toNat < 32 then none
      else parseStrBody fuel r (c :: acc)

/-- Number of characters before the closing quote of a string body (the whole remainder if there
    is none), found with `parseStrBody`'s own control flow reduced to two states: the character
    after a backslash is never the closing quote (`esc`); everything else an escape consumes
    (`uXXXX`, a second `\uXXXX`) is made of hex digits, which are neither `"` nor `\`.
    Tail recursive, `acc` counts. Costs one pass over the STRING, not over the rest of the
    document (`parseStr` used to take `r.length` as fuel: O(document) per string). -/
def strEnd : Bool → List Char → Nat → Nat
  | _, [], acc => acc
  | true, _ :: r, acc => strEnd false r (acc + 1)
  | false, c :: r, acc =>
    if c = '"' then acc
    else if c = '\\' then strEnd true r (acc + 1)
    else strEnd false r (acc + 1)

/-- `parseStrBody` reads at least one character per unit of fuel and stops at the closing quote:
    `strEnd false r 0 + 1` units always suffice — `parseStr_fuel` (Lemmas/JsonParse) proves that
    this is the same function as with the old fuel `r.length`. -/
def parseStr (r : List Char) : Option (String × List Char) := parseStrBody (strEnd false r 0 + 1) r []

def toFin10 (c : Char) : Fin 10 := ⟨(c.toNat - 48) % 10, Nat.mod_lt _ (by decide)⟩

/-- optional fraction: `.` and at least one digit -/
def parseFrac (r1 : List Char) : Option (List Char × List Char) :=
  match r1 with
  | [] => some ([], [])
  | c :: r =>
    if c = '.' then
      let fd := r.takeWhile isDigit
      if fd = [] then none else some (fd, r.dropWhile isDigit)
    else some ([], c :: r)

/-- optional exponent: `e`/`E`, optional sign, at least one digit -/
def parseExp (r2 : List Char) : Option (Option (Bool × Nat) × List Char) :=
  match r2 with
  | [] => some (none, [])
  | e :: r =>
    if e = 'e' ∨ e = 'E' then
      let eneg := r.head? = some '-'
      let r' := if eneg ∨ r.head? = some '+' then r.drop 1 else r
      let ed := r'.takeWhile isDigit
      if ed = [] then none else some (some (eneg, decValue ed), r'.dropWhile isDigit)
    else some (none, e :: r)

/-- `cs` starts at the first character of the number (`-` or a digit) -/
def parseNum (cs : List Char) : Option (JNum × List Char) :=
  let neg := cs.head? = some '-'
  let cs1 := if neg then cs.drop 1 else cs
  let ip := cs1.takeWhile isDigit
  let r1 := cs1.dropWhile isDigit
  if ip = [] then none
  else if ip.head? = some '0' ∧ ip.length > 1 then none
  else
    match parseFrac r1 with
    | none => none
    | some (fd, r2) =>
      match parseExp r2 with
      | none => none
      | some (e, r3) => some (⟨neg, decValue ip, fd.map toFin10, e⟩, r3)

mutual
/-- one JSON value (leading white space allowed); `fuel` bounds nesting + element count -/
def parseValue : Nat → List Char → Option (Json × List Char)
  | 0, _ => none
  | fuel + 1, cs =>
    match skipWs cs with
    | [] => none
    | c :: r =>
      if c = '"' then
        match parseStr r with
        | some (s, r') => some (.str s, r')
        | none => none
      else if c = '[' then
        match skipWs r with
        | [] => none
        | c2 :: r2 => if c2 = ']' then some (.arr [], r2) else parseElems fuel (c2 :: r2) []
      else if c = '{' then
        match skipWs r with
        | [] => none
        | c2 :: r2 => if c2 = '}' then some (.obj [], r2) else parseMembers fuel (c2 :: r2) []
      else if c = 'n' then
        match r with
        | 'u' :: 'l' :: 'l' :: r' => some (.null, r')
        | _ => none
      else if c = 't' then
        match r with
        | 'r' :: 'u' :: 'e' :: r' => some (.bool true, r')
        | _ => none
      else if c = 'f' then
        match r with
        | 'a' :: 'l' :: 's' :: 'e' :: r' => some (.bool false, r')
        | _ => none
      else if c = '-' ∨ isDigit c then
        match parseNum (c :: r) with
        | some (n, r') => some (.num n, r')
        | none => none
      else none
/-- elements of a non-empty array, `acc` reversed -/
def parseElems : Nat → List Char → List Json → Option (Json × List Char)
  | 0, _, _ => none
  | fuel + 1, cs, acc =>
    match parseValue fuel cs with
    | none => none
    | some (v, r) =>
      match skipWs r with
      | [] => none
      | c :: r2 =>
        if c = ',' then parseElems fuel r2 (v :: acc)
        else if c = ']' then some (.arr (v :: acc).reverse, r2)
        else none
/-- members of a non-empty object, `acc` reversed -/
def parseMembers : Nat → List Char → List (String × Json) → Option (Json × List Char)
  | 0, _, _ => none
  | fuel + 1, cs, acc =>
    match skipWs cs with
    | [] => none
    | q :: r0 =>
      if q = '"' then
        match parseStr r0 with
        | none => none
        | some (k, r1) =>
          match skipWs r1 with
          | [] => none
          | col :: r2 =>
            if col = ':' then
              match parseValue fuel r2 with
              | none => none
              | some (v, r3) =>
                match skipWs r3 with
                | [] => none
                | c :: r4 =>
                  if c = ',' then parseMembers fuel r4 ((k, v) :: acc)
                  else if c = '}' then some (.obj ((k, v) :: acc).reverse, r4)
                  else none
            else none
      else none
end

/-- a whole document -/
def parse (cs : List Char) : Option Json :=
  match parseValue (cs.length + 1) cs with
  | some (j, r) => if skipWs r = [] then some j else none
  | none => none

/-- bytes → value: UTF-8 validation, then `parse` -/
def parseBytes (bs : ByteArray) : Option Json :=
  match String.fromUTF8? bs with
  | none => none
  | some s => parse s.toList

/-! ## 4. objects as key-sorted association lists (`BTreeMap<String, Value>`) -/

/-- `Map::insert`: replace an equal key, else insert in key order. -/
def insertKV (k : String) (v : Json) : List (String × Json) → List (String × Json)
  | [] => [(k, v)]
  | (k', v') :: rest =>
    if k = k' then (k, v) :: rest
    else if k < k' then (k, v) :: (k', v') :: rest
    else (k', v') :: insertKV k v rest

def getKV (k : String) : List (String × Json) → Option Json
  | [] => none
  | (k', v) :: rest => if k = k' then some v else getKV k rest

/-- `json!({ k: v, … })` -/
def mkObj (kvs : List (String × Json)) : Json :=
  .obj (kvs.foldl (fun m kv => insertKV kv.1 kv.2 m) [])

def Json.get (k : String) : Json → Option Json
  | .obj m => getKV k m
  | _ => none

def optJ {α : Type} (f : α → Json) : Option α → Json
  | none => .null
  | some a => f a

/-! ## 5. hex strings -/

inductive PW where
  | b32 | b64 | unknown
  deriving DecidableEq, Repr, Inhabited

def padLeft (w : Nat) (ds : List Char) : List Char := List.replicate (w - ds.length) '0' ++ ds

/-- `format!("0x{:0w$x}", v)` -/
def hexPad (w v : Nat) : String := String.ofList ('0' :: 'x' :: padLeft w (hexDigits v))

def PW.digits : PW → Nat
  | .b32 => 8
  | _ => 16

/-- `Address` Display: `{:#010x}` on 32-bit platforms, `{:#018x}` otherwise (incl. unknown). -/
def hexAddr (pw : PW) (v : Nat) : String := hexPad pw.digits v

/-- inverse, used by `hex_roundtrip`: the number after the `0x` prefix -/
def parseHexStr (s : String) : Option Nat :=
  match s.toList with
  | '0' :: 'x' :: ds => if ds ≠ [] ∧ ds.all isHexLower then some (hexValue ds) else none
  | _ => none

/-! ## 6. the state model (what `print_json` reads from a `ProcessState`) -/

inductive Os where
  | windows | macos | ios | linux | solaris | android | ps3 | nacl
  | unknown (id : Nat)
  deriving DecidableEq, Repr, Inhabited

inductive Cpu where
  | x86 | amd64 | ppc | ppc64 | sparc | arm | arm64 | mips | mips64 | unknown
  deriving DecidableEq, Repr, Inhabited

/-- `Os::long_name` (minidump/src/system_info.rs:49-61). NB the unknown arm is
    `format!("0x{val:#08x}")`: a doubled prefix. -/
def Os.longName : Os → String
  | .windows => "Windows NT" | .macos => "Mac OS X" | .ios => "iOS" | .linux => "Linux"
  | .solaris => "Solaris" | .android => "Android" | .ps3 => "PS3" | .nacl => "NaCl"
  | .unknown v => "0x" ++ hexPad 6 v

def Cpu.name : Cpu → String
  | .x86 => "x86" | .amd64 => "amd64" | .ppc => "ppc" | .ppc64 => "ppc64" | .sparc => "sparc"
  | .arm => "arm" | .arm64 => "arm64" | .mips => "mips" | .mips64 => "mips64" | .unknown => "unknown"

def Cpu.pw : Cpu → PW
  | .x86 | .ppc | .sparc | .arm | .mips => .b32
  | .amd64 | .ppc64 | .arm64 | .mips64 => .b64
  | .unknown => .unknown

structure SysInfo where
  os : Os
  osVersion : Option String
  osBuild : Option String
  cpu : Cpu
  cpuInfo : Option String
  cpuCount : Nat
  microcode : Option Nat
  deriving Repr, Inhabited

/-- `SystemInfo::format_os_version` -/
def SysInfo.osVer (s : SysInfo) : Option String :=
  match s.osVersion, s.osBuild with
  | some v, some b => some (v ++ " " ++ b)
  | some v, none => some v
  | none, some b => some b
  | none, none => none

inductive Adjusted where
  | nonCanonical (a : Nat)
  | nullOffset (o : Nat)
  deriving Repr, Inhabited

inductive AccessType where
  | read | write | readWrite | underivable
  deriving DecidableEq, Repr, Inhabited

structure MemAccess where
  address : Nat
  size : Option Nat
  guard : Bool
  ty : AccessType
  deriving Repr, Inhabited

inductive IpUpdate where
  | update (addr : Nat) (guard : Bool)
  | noUpdate
  deriving Repr, Inhabited

structure BitFlip where
  address : Nat
  sourceRegister : Option String
  wasNonCanonical : Bool
  isNull : Bool
  wasLow : Bool
  nearby : Nat
  poison : Bool
  /-- external leaf: serde_json's text for the `f32` (as a number token) -/
  confidence : Option JNum
  deriving Repr, Inhabited

inductive Inconsistency where
  | intDivByZeroNotPossible | privInstructionCrashWithoutPrivInstruction
  | nonCanonicalAddressFalselyReported | accessViolationWhenAccessAllowed
  | crashingAccessNotFoundInMemoryAccesses
  deriving DecidableEq, Repr, Inhabited

def Inconsistency.name : Inconsistency → String
  | .intDivByZeroNotPossible => "int_div_by_zero_not_possible"
  | .privInstructionCrashWithoutPrivInstruction => "priv_instruction_crash_without_priv_instruction"
  | .nonCanonicalAddressFalselyReported => "non_canonical_address_falsely_reported"
  | .accessViolationWhenAccessAllowed => "access_violation_when_access_allowed"
  | .crashingAccessNotFoundInMemoryAccesses => "crashing_access_not_found_in_memory_accesses"

structure ExcInfo where
  /-- external leaf: `CrashReason` Display -/
  reason : String
  address : Nat
  adjusted : Option Adjusted
  instruction : Option String
  memAccesses : Option (List MemAccess)
  ipUpdate : Option IpUpdate
  bitFlips : List BitFlip
  inconsistencies : List Inconsistency
  deriving Repr, Inhabited

structure Lsb where
  id : String
  release : String
  codename : String
  description : String
  deriving Repr, Inhabited

inductive Limit where
  | err | unlimited | limited (n : Nat)
  deriving Repr, Inhabited

structure ProcLimit where
  name : String
  soft : Limit
  hard : Limit
  unit : String
  deriving Repr, Inhabited

structure MacRecord where
  thread : Option Nat
  dialogMode : Option Nat
  abortCause : Option Nat
  modulePath : Option String
  message : Option String
  signature : Option String
  backtrace : Option String
  message2 : Option String
  deriving Repr, Inhabited

structure ModuleM where
  base : Nat
  size : Nat
  name : String
  /-- external leaves: `debug_file()`, `debug_identifier().unwrap_or_default().breakpad()`,
      `code_identifier().unwrap_or_default()`, `version()` -/
  debugFile : Option String
  debugId : String
  codeId : String
  version : Option String
  deriving Repr, Inhabited

structure Stats where
  url : Option String
  loaded : Bool
  corrupt : Bool
  /-- `extra_debug_info`: (debug_file, breakpad text of the debug id [external leaf]) -/
  extra : Option (String × String)
  deriving Repr, Inhabited

structure InlineM where
  function : String
  file : Option String
  line : Option Nat
  deriving Repr, Inhabited

inductive Trust where
  | none | scan | cfiScan | framePointer | cfi | preWalked | context
  deriving DecidableEq, Repr, Inhabited

/-- `FrameTrust::as_str` (minidump-unwind/src/lib.rs:88-98) — `None` is spelled "non" there. -/
def Trust.name : Trust → String
  | .context => "context" | .preWalked => "prewalked" | .cfi => "cfi" | .cfiScan => "cfi_scan"
  | .framePointer => "frame_pointer" | .scan => "scan" | .none => "non"

/-- what `json_registers` reads from a context -/
structure RegCtx where
  /-- `size_of::<Register>()` of the context type -/
  regSize : Nat
  /-- `general_purpose_registers()` with `get_register_always` -/
  gpr : List (String × Nat)
  /-- `MinidumpContextValidity`: `none` = `All`, `some names` = `Some(set)` -/
  valid : Option (List String)
  deriving Repr, Inhabited

structure FrameM where
  instruction : Nat
  /-- (`module.name`, `module.raw.base_of_image`) -/
  module : Option (String × Nat)
  /-- `BTreeMap<String, BTreeSet<u64>>` in iteration order -/
  unloaded : List (String × List Nat)
  functionName : Option String
  functionBase : Option Nat
  sourceFile : Option String
  sourceLine : Option Nat
  inlines : List InlineM
  trust : Trust
  ctx : RegCtx
  deriving Repr, Inhabited

structure ThreadM where
  frames : List FrameM
  threadId : Nat
  threadName : Option String
  /-- external leaf: `CrashReason` Display -/
  lastError : Option String
  deriving Repr, Inhabited

structure UnloadedM where
  base : Nat
  size : Nat
  name : String
  codeId : String
  deriving Repr, Inhabited

structure HandleM where
  handle : Nat
  typeName : Option String
  objectName : Option String
  deriving Repr, Inhabited

structure StateModel where
  pid : Option Nat
  /-- `HashMap`: unique keys, any order -/
  certInfo : List (String × String)
  exc : Option ExcInfo
  assertion : Option String
  requestingThread : Option Nat
  threads : List ThreadM
  sys : SysInfo
  lsb : Option Lsb
  /-- `HashMap` values in any order (unique names) -/
  procLimits : Option (List ProcLimit)
  macCrashInfo : Option (List MacRecord)
  macBootArgs : Option (Option String)
  modules : List ModuleM
  unloaded : List UnloadedM
  handles : Option (List HandleM)
  symbolStats : List (String × Stats)
  memoryMapCount : Option Nat
  softErrors : Option Json
  deriving Repr, Inhabited

/-! ## 7. `print_json` -/

def obind {α β : Type} (x : Outcome α) (f : α → Outcome β) : Outcome β :=
  match x with
  | .ok a => f a
  | .panic s => .panic s

def omapM {α β : Type} (f : α → Outcome β) : List α → Outcome (List β)
  | [] => .ok []
  | x :: xs => obind (f x) fun y => obind (omapM f xs) fun ys => .ok (y :: ys)

/-- `minidump_common::utils::basename`: text after the last `/` or `\`. -/
def basenameL : List Char → List Char → List Char
  | [], acc => acc.reverse
  | c :: r, acc => if c = '/' ∨ c = '\\' then basenameL r [] else basenameL r (c :: acc)
def basename (s : String) : String := String.ofList (basenameL s.toList [])

def lookupS {α : Type} (k : String) : List (String × α) → Option α
  | [] => none
  | (k', v) :: r => if k = k' then some v else lookupS k r

def strJ (s : String) : Json := .str s
def optStr : Option String → Json := optJ .str
def optNat : Option Nat → Json := optJ Json.nat

/-- `u64 - u64` with overflow checks -/
def checkedSub (site : String) (a b : Nat) : Outcome Nat :=
  if a < b then .panic site else .ok (a - b)
/-- `u64 + u64` with overflow checks -/
def checkedAdd (site : String) (a b : Nat) : Outcome Nat :=
  if a + b > U64MAX then .panic site else .ok (a + b)

def inlineJson (i : InlineM) : Json :=
  mkObj [("function", .str i.function), ("file", optStr i.file), ("line", optNat i.line)]

def unloadedRefJson (pw : PW) (m : String × List Nat) : Json :=
  mkObj [("module", .str m.1), ("offsets", .arr (m.2.map fun o => .str (hexAddr pw o)))]

/-- one entry of `frames` (process_state.rs:1075-1121) -/
def frameJson (pw : PW) (idx : Nat) (f : FrameM) : Outcome Json :=
  obind (match f.module with
         | none => .ok .null
         | some (_, base) =>
           obind (checkedSub "module_offset: frame.instruction - module.raw.base_of_image" f.instruction base)
             fun o => .ok (.str (hexAddr pw o))) fun moduleOffset =>
  obind (match f.functionBase with
         | none => .ok .null
         | some fb =>
           obind (checkedSub "function_offset: frame.instruction - func_base" f.instruction fb)
             fun o => .ok (.str (hexAddr pw o))) fun functionOffset =>
  .ok (mkObj [
    ("frame", .nat idx),
    ("module", optJ (fun m : String × Nat => .str (basename m.1)) f.module),
    ("function", optStr f.functionName),
    ("file", optStr f.sourceFile),
    ("line", optNat f.sourceLine),
    ("offset", .str (hexAddr pw f.instruction)),
    ("inlines", if f.inlines.isEmpty then .null else .arr (f.inlines.map inlineJson)),
    ("module_offset", moduleOffset),
    ("unloaded_modules", if f.unloaded.isEmpty then .null else .arr (f.unloaded.map (unloadedRefJson pw))),
    ("function_offset", functionOffset),
    ("missing_symbols", .bool f.functionName.isNone),
    ("trust", .str f.trust.name)])

def framesJson (pw : PW) : Nat → List FrameM → Outcome (List Json)
  | _, [] => .ok []
  | i, f :: fs => obind (frameJson pw i f) fun j => obind (framesJson pw (i + 1) fs) fun js => .ok (j :: js)

/-- one entry of `threads` (process_state.rs:1068-1122) -/
def threadJson (pw : PW) (t : ThreadM) : Outcome Json :=
  obind (framesJson pw 0 t.frames) fun frames =>
  .ok (mkObj [
    ("frame_count", .nat t.frames.length),
    ("last_error_value", optStr t.lastError),
    ("thread_name", optStr t.threadName),
    ("thread_id", .nat t.threadId),
    ("frames", .arr frames)])

/-- `json_registers` (process_state.rs:512-530) with `CpuContext::format_register` -/
def registersJson (c : RegCtx) : Json :=
  mkObj ((c.gpr.filter fun r => match c.valid with
                                | none => true
                                | some names => names.contains r.1).map
         fun r => (r.1, .str (hexPad (c.regSize * 2) r.2)))

def defaultStats : Stats := ⟨none, false, false, none⟩

/-- one entry of `modules` (process_state.rs:1017-1065) -/
def moduleJson (pw : PW) (certInfo : List (String × String)) (symbolStats : List (String × Stats))
    (m : ModuleM) : Outcome Json :=
  let name := basename m.name
  let st := lookupS name symbolStats
  let hadStats := st.isSome
  let stats := st.getD defaultStats
  let dbg : String × String :=
    match stats.extra with
    | some (df, did) => (df, did)
    | none => (m.debugFile.getD "", m.debugId)
  obind (checkedAdd "modules.end_addr: base_of_image + size_of_image" m.base m.size) fun endAddr =>
  .ok (mkObj [
    ("base_addr", .str (hexAddr pw m.base)),
    ("debug_file", .str (basename dbg.1)),
    ("debug_id", .str dbg.2),
    ("end_addr", .str (hexAddr pw endAddr)),
    ("filename", .str name),
    ("code_id", .str m.codeId),
    ("version", optStr m.version),
    ("cert_subject", optStr (lookupS name certInfo)),
    ("missing_symbols", .bool (hadStats && !stats.loaded)),
    ("loaded_symbols", .bool stats.loaded),
    ("corrupt_symbols", .bool stats.corrupt),
    ("symbol_url", optStr stats.url)])

/-- one entry of `unloaded_modules` (process_state.rs:1124-1130) -/
def unloadedJson (pw : PW) (certInfo : List (String × String)) (m : UnloadedM) : Outcome Json :=
  obind (checkedAdd "unloaded_modules.end_addr: base_of_image + size_of_image" m.base m.size) fun endAddr =>
  .ok (mkObj [
    ("base_addr", .str (hexAddr pw m.base)),
    ("code_id", .str m.codeId),
    ("end_addr", .str (hexAddr pw endAddr)),
    ("filename", .str m.name),
    ("cert_subject", optStr (lookupS m.name certInfo))])

def AccessType.lower : AccessType → String
  | .read => "read" | .write => "write" | .readWrite => "readwrite" | .underivable => "underivable"

def memAccessJson (pw : PW) (a : MemAccess) : Json :=
  let m0 := [("address", Json.str (hexAddr pw a.address)), ("size", optNat a.size)]
  let m1 := if a.guard then m0 ++ [("is_likely_guard_page", .bool true)] else m0
  let m2 := if a.ty ≠ .underivable then m1 ++ [("access_type", .str a.ty.lower)] else m1
  mkObj m2

def ipUpdateJson (pw : PW) : IpUpdate → Json
  | .noUpdate => .null
  | .update addr guard =>
    mkObj ([("address", Json.str (hexAddr pw addr))] ++
           (if guard then [("is_likely_guard_page", .bool true)] else []))

def bitFlipJson (pw : PW) (b : BitFlip) : Json :=
  mkObj [
    ("address", .str (hexAddr pw b.address)),
    ("source_register", optStr b.sourceRegister),
    ("details", mkObj [
      ("was_non_canonical", .bool b.wasNonCanonical),
      ("is_null", .bool b.isNull),
      ("was_low", .bool b.wasLow),
      ("nearby_registers", .nat b.nearby),
      ("poison_registers", .bool b.poison)]),
    ("confidence", optJ .num b.confidence)]

def adjustedJson (pw : PW) : Adjusted → Json
  | .nonCanonical a => mkObj [("kind", .str "non-canonical"), ("address", .str (hexAddr pw a))]
  | .nullOffset o => mkObj [("kind", .str "null-pointer"), ("offset", .str (hexAddr pw o))]

/-- `crash_info` (process_state.rs:906-967) -/
def crashInfoJson (pw : PW) (s : StateModel) : Json :=
  mkObj [
    ("type", optJ (fun e : ExcInfo => .str e.reason) s.exc),
    ("address", optJ (fun e : ExcInfo => .str (hexAddr pw e.address)) s.exc),
    ("adjusted_address", optJ (fun e : ExcInfo => optJ (adjustedJson pw) e.adjusted) s.exc),
    ("instruction", optJ (fun e : ExcInfo => optStr e.instruction) s.exc),
    ("memory_accesses", optJ (fun e : ExcInfo =>
        optJ (fun l : List MemAccess => .arr (l.map (memAccessJson pw))) e.memAccesses) s.exc),
    ("instruction_pointer_update", optJ (fun e : ExcInfo => optJ (ipUpdateJson pw) e.ipUpdate) s.exc),
    ("possible_bit_flips", optJ (fun e : ExcInfo =>
        if e.bitFlips.isEmpty then .null else .arr (e.bitFlips.map (bitFlipJson pw))) s.exc),
    ("crash_inconsistencies", optJ (fun e : ExcInfo =>
        .arr (e.inconsistencies.map fun i => .str i.name)) s.exc),
    ("crashing_thread", optNat s.requestingThread),
    ("assertion", optStr s.assertion)]

def systemInfoJson (s : SysInfo) : Json :=
  mkObj [
    ("os", .str s.os.longName),
    ("os_ver", optStr s.osVer),
    ("cpu_arch", .str s.cpu.name),
    ("cpu_info", optStr s.cpuInfo),
    ("cpu_count", .nat s.cpuCount),
    ("cpu_microcode_version", optJ (fun n : Nat => .str (hexPad 0 n)) s.microcode)]

def limitJson : Limit → Json
  | .err => .str "err"
  | .unlimited => .str "unlimited"
  | .limited n => .nat n

/-- insertion sort by name (`sort_by(|a, b| a.0.cmp(b.0))`; names are unique map keys) -/
def insertLimit (l : ProcLimit) : List ProcLimit → List ProcLimit
  | [] => [l]
  | x :: xs => if x.name ≤ l.name then x :: insertLimit l xs else l :: x :: xs
def sortLimits (ls : List ProcLimit) : List ProcLimit := ls.foldr insertLimit []

def procLimitsJson (ls : List ProcLimit) : Json :=
  mkObj [("limits", .arr ((sortLimits ls).map fun l =>
    mkObj [("name", .str l.name), ("soft", limitJson l.soft), ("hard", limitJson l.hard),
           ("unit", .str l.unit)]))]

def macRecordJson (pw : PW) (r : MacRecord) : Json :=
  let hx : Option Nat → Json := optJ fun n => .str (hexAddr pw n)
  mkObj [
    ("thread", hx r.thread), ("dialog_mode", hx r.dialogMode), ("abort_cause", hx r.abortCause),
    ("module", optStr r.modulePath), ("message", optStr r.message),
    ("signature_string", optStr r.signature), ("backtrace", optStr r.backtrace),
    ("message2", optStr r.message2)]

def handleJson (h : HandleM) : Json :=
  mkObj [("handle", .nat h.handle), ("type_name", optStr h.typeName),
         ("object_name", optStr h.objectName)]

/-- the `crashing_thread` copy (process_state.rs:1138-1171): the indexed entry of `threads`
    with `registers` inserted into its first frame and `threads_index` added. `none`: one of
    the `unwrap`s / the frame-0 index would panic (cannot happen on `threadJson` output). -/
def crashingCopy (thread : Json) (regs : Json) (idx : Nat) : Option Json :=
  match thread with
  | .obj kvs =>
    match getKV "frames" kvs with
    | some (.arr (.obj f0 :: rest)) =>
      some (.obj (insertKV "threads_index" (.nat idx)
        (insertKV "frames" (.arr (.obj (insertKV "registers" regs f0) :: rest)) kvs)))
    | _ => none
  | _ => none

/-- the members of the `json!({…})` literal (process_state.rs:891-1136) -/
def baseFields (pw : PW) (s : StateModel) (modules threads unloaded : List Json) :
    List (String × Json) := [
    ("status", .str "OK"),
    ("system_info", systemInfoJson s.sys),
    ("crash_info", crashInfoJson pw s),
    ("lsb_release", optJ (fun l : Lsb => mkObj [("id", .str l.id), ("release", .str l.release),
        ("codename", .str l.codename), ("description", .str l.description)]) s.lsb),
    ("proc_limits", optJ procLimitsJson s.procLimits),
    ("soft_errors", optJ id s.softErrors),
    ("mac_crash_info", optJ (fun rs : List MacRecord => mkObj [("num_records", .nat rs.length),
        ("records", .arr (rs.map (macRecordJson pw)))]) s.macCrashInfo),
    ("mac_boot_args", optJ optStr s.macBootArgs),
    ("linux_memory_map_count", optNat s.memoryMapCount),
    ("main_module", .nat 0),
    ("modules_contains_cert_info", .bool (!s.certInfo.isEmpty)),
    ("modules", .arr modules),
    ("pid", optNat s.pid),
    ("thread_count", .nat s.threads.length),
    ("threads", .arr threads),
    ("unloaded_modules", .arr unloaded),
    ("handles", optJ (fun hs : List HandleM => .arr (hs.map handleJson)) s.handles)]

/-- the second half of `print_json` (process_state.rs:1138-1171): add the `crashing_thread` copy -/
def addCrashing (s : StateModel) (threads : List Json) (output : List (String × Json)) : Outcome Json :=
  match s.requestingThread with
  | none => .ok (mkObj output)
  | some i =>
    match s.threads[i]?, threads[i]? with
    | some t, some tj =>
      match t.frames with
      | [] => .ok (mkObj output)
      | f0 :: _ =>
        match crashingCopy tj (registersJson f0.ctx) i with
        | some c => .ok (mkObj (output ++ [("crashing_thread", c)]))
        | none => .panic "crashing_thread: unwrap on the threads entry"
    | _, _ => .panic "self.threads[requesting_thread]: index out of bounds"

/-- `ProcessState::print_json` up to the final `to_writer`: the `serde_json::Value`. -/
def printJson (s : StateModel) : Outcome Json :=
  let pw := s.sys.cpu.pw
  obind (omapM (moduleJson pw s.certInfo s.symbolStats) s.modules) fun modules =>
  obind (omapM (threadJson pw) s.threads) fun threads =>
  obind (omapM (unloadedJson pw s.certInfo) s.unloaded) fun unloaded =>
  addCrashing s threads (baseFields pw s modules threads unloaded)

/-! ## 8. the documented schema (json-schema.md), in ONE place

  Reading of the document (DESIGN.md §6.C15 "Scope of Conforms"):
  * every documented field may be absent or `null`; a present, non-null documented field must
    have the documented type; fields the document does not mention are allowed (and reported
    by `undocumented`);
  * `<u32>`/`<u64>`: a non-negative integer token below 2^32 / 2^64 (`<u64>` is used by the
    document for `handles[].handle` only, since /repo b67afac); `<f32>`: any number token;
  * `<hexstring>` for addresses/offsets (`hexA`): `0x` + lower-case hex digits, at least the
    platform's pointer width (8 digits on 32-bit CPUs, 16 otherwise), value below 2^64;
    `<hexstring>` that is not an address (`hexN`: microcode version, registers — "formatted
    to [the register's] natural width"): `0x` + at least one lower-case hex digit;
  * enumerations are closed over what the document lists PLUS the values the code can emit
    today that the document forgot (marked `-- undocumented` below); `system_info.os` is one
    of the listed names or a `<hexstring>`;
  * `unloaded_modules[].offsets`: "never empty, no duplicates, sorted".
-/

inductive Ty where
  | u32 | u64 | f32 | bool | str
  | boolTrue        -- "this field may only be present when the value is `true`"
  | hexA            -- address-like hex string, padded to the platform width
  | hexN            -- other hex string
  | enum (vals : List String) (orHex : Bool)
  | arr (elem : Ty)
  | offsets         -- non-empty, strictly ascending array of `hexA`
  | regs            -- object: register name ↦ `hexN`
  | adjusted        -- `crash_info.adjusted_address`: `kind` decides which member is present
  | obj (fields : List (String × Ty))
  | any
  deriving Repr, Inhabited

/-! the enumerations, verbatim from json-schema.md (`…Documented`), and the values the code
    emits today that the document does not list (`…Undocumented`; tolerated because the document
    says "do not assume enums are exhaustive", and REPORTED by `undocumentedEnums`) -/
def trustDocumented : List String := ["context", "cfi", "frame_pointer", "scan"]
def trustUndocumented : List String := ["cfi_scan", "prewalked", "non"]
def cpuDocumented : List String := ["x86", "amd64", "ppc", "ppc64", "sparc", "arm", "arm64", "unknown"]
def cpuUndocumented : List String := ["mips", "mips64"]
def osDocumented : List String :=
  ["Windows NT", "Mac OS X", "iOS", "Linux", "Solaris", "Android", "PS3", "NaCl"]
def accessTypeDocumented : List String := ["read", "write", "readwrite"]
def inconsistencyDocumented : List String := ["int_div_by_zero_not_possible",
  "priv_instruction_crash_without_priv_instruction", "non_canonical_address_falsely_reported",
  "access_violation_when_access_allowed", "crashing_access_not_found_in_memory_accesses"]
/-- `adjusted_address.kind`: documented `<string>`, with exactly these two values named in the
    comments that say which other member is present -/
def adjustedKindDocumented : List String := ["non-canonical", "null-pointer"]

def trustTy : Ty := .enum (trustDocumented ++ trustUndocumented) false
def cpuTy : Ty := .enum (cpuDocumented ++ cpuUndocumented) false
def osTy : Ty := .enum osDocumented true
def accessTy : Ty := .enum accessTypeDocumented false
def inconsistencyTy : Ty := .enum inconsistencyDocumented false

def frameFields : List (String × Ty) := [
  ("frame", .u32), ("trust", trustTy), ("registers", .regs), ("offset", .hexA),
  ("module", .str), ("module_offset", .hexA),
  ("unloaded_modules", .arr (.obj [("module", .str), ("offsets", .offsets)])),
  ("inlines", .arr (.obj [("function", .str), ("file", .str), ("line", .u32)])),
  ("function", .str), ("function_offset", .hexA), ("file", .str), ("line", .u32),
  ("missing_symbols", .bool)]

def threadFields : List (String × Ty) := [
  ("thread_name", .str), ("thread_id", .u32), ("last_error_value", .str),
  ("frame_count", .u32), ("frames", .arr (.obj frameFields))]

def memAccessFields : List (String × Ty) := [("address", .hexA), ("size", .u32),
  ("is_likely_guard_page", .boolTrue), ("access_type", accessTy)]

def ipUpdateFields : List (String × Ty) := [("address", .hexA), ("is_likely_guard_page", .boolTrue)]

def bitFlipFields : List (String × Ty) := [("address", .hexA),
  ("details", .obj [("was_non_canonical", .bool), ("is_null", .bool), ("was_low", .bool),
                    ("poison_registers", .bool), ("nearby_registers", .u32)]),
  ("confidence", .f32), ("source_register", .str)]

def crashInfoFields : List (String × Ty) := [
  ("type", .str),
  ("address", .hexA),
  ("adjusted_address", .adjusted),
  ("instruction", .str),
  ("memory_accesses", .arr (.obj memAccessFields)),
  ("instruction_pointer_update", .obj ipUpdateFields),
  ("possible_bit_flips", .arr (.obj bitFlipFields)),
  ("crash_inconsistencies", .arr inconsistencyTy),
  ("crashing_thread", .u32),
  ("assertion", .str)]

def systemInfoFields : List (String × Ty) := [
  ("os", osTy),
  ("os_ver", .str),
  ("cpu_arch", cpuTy),
  ("cpu_info", .str),
  ("cpu_count", .u32),
  ("cpu_microcode_version", .hexN)]

def moduleFields : List (String × Ty) := [
  ("base_addr", .hexA), ("end_addr", .hexA), ("debug_file", .str), ("debug_id", .str),
  ("filename", .str), ("code_id", .str), ("version", .str), ("cert_subject", .str),
  ("missing_symbols", .bool), ("loaded_symbols", .bool), ("corrupt_symbols", .bool),
  ("symbol_url", .str)]

def unloadedFields : List (String × Ty) := [
  ("base_addr", .hexA), ("end_addr", .hexA), ("code_id", .str), ("filename", .str),
  ("cert_subject", .str)]

def handleFields : List (String × Ty) := [("handle", .u64), ("type_name", .str), ("object_name", .str)]

def lsbFields : List (String × Ty) :=
  [("id", .str), ("release", .str), ("codename", .str), ("description", .str)]

def macRecordFields : List (String × Ty) := [("thread", .hexA), ("dialog_mode", .hexA),
  ("abort_cause", .hexA), ("module", .str), ("message", .str), ("signature_string", .str),
  ("backtrace", .str), ("message2", .str)]

def macFields : List (String × Ty) := [("num_records", .u32), ("records", .arr (.obj macRecordFields))]

def schema : Ty := .obj [
  ("status", .str),
  ("pid", .u32),
  ("crash_info", .obj crashInfoFields),
  ("system_info", .obj systemInfoFields),
  ("linux_memory_map_count", .u32),
  ("thread_count", .u32),
  ("threads", .arr (.obj threadFields)),
  ("crashing_thread", .obj (("threads_index", .u32) :: threadFields)),
  ("main_module", .u32),
  ("modules_contains_cert_info", .bool),
  ("modules", .arr (.obj moduleFields)),
  ("unloaded_modules", .arr (.obj unloadedFields)),
  ("handles", .arr (.obj handleFields)),
  ("lsb_release", .obj lsbFields),
  ("mac_crash_info", .obj macFields),
  ("mac_boot_args", .str),
  ("soft_errors", .arr (.obj []))]

/-- `0x` + ≥ `w` lower-case hex digits (≥ 1), value < 2^64 -/
def isHexString (w : Nat) (s : String) : Bool :=
  match s.toList with
  | '0' :: 'x' :: ds => !ds.isEmpty && ds.all isHexLower && w ≤ ds.length && hexValue ds ≤ U64MAX
  | _ => false

def isU32 (n : JNum) : Bool := !n.neg && n.frac.isEmpty && n.exp.isNone && n.int ≤ U32MAX
def isU64 (n : JNum) : Bool := !n.neg && n.frac.isEmpty && n.exp.isNone && n.int ≤ U64MAX

def hexStringValue (j : Json) : Nat :=
  match j with
  | .str s => hexValue (s.toList.drop 2)
  | _ => 0

def ascending : List Nat → Bool
  | [] => true
  | [_] => true
  | a :: b :: r => a < b && ascending (b :: r)

/-- first `some` of `f x i` over the elements with their positions -/
def firstSome {α : Type} (f : α → Nat → Option String) : List α → Nat → Option String
  | [], _ => none
  | x :: xs, i =>
    match f x i with
    | some q => some q
    | none => firstSome f xs (i + 1)

def isHexJ (w : Nat) : Json → Bool
  | .null => true
  | .str s => isHexString w s
  | _ => false

def isAbsent : Option Json → Bool
  | none => true
  | some .null => true
  | _ => false

/-- `adjusted_address`: `kind` is one of the two documented strings; "non-canonical" comes with
    a hex `address` (and no `offset`), "null-pointer" with a hex `offset` (and no `address`). -/
def checkAdjusted (w : Nat) (kvs : List (String × Json)) (p : String) : Option String :=
  match getKV "kind" kvs with
  | some (.str k) =>
    if k = "non-canonical" then
      match getKV "address" kvs with
      | some (.str a) =>
        if isHexString w a then (if isAbsent (getKV "offset" kvs) then none else some (p ++ ".offset"))
        else some (p ++ ".address")
      | _ => some (p ++ ".address")
    else if k = "null-pointer" then
      match getKV "offset" kvs with
      | some (.str a) =>
        if isHexString w a then (if isAbsent (getKV "address" kvs) then none else some (p ++ ".address"))
        else some (p ++ ".offset")
      | _ => some (p ++ ".offset")
    else some (p ++ ".kind")
  | _ => some (p ++ ".kind")

mutual
/-- first offending path (`none`: the value has the documented type); `w` = platform digits -/
def check (w : Nat) : Ty → Json → String → Option String
  | _, .null, _ => none
  | .any, _, _ => none
  | .u32, .num n, p => if isU32 n then none else some p
  | .u64, .num n, p => if isU64 n then none else some p
  | .f32, .num _, _ => none
  | .bool, .bool _, _ => none
  | .boolTrue, .bool b, p => if b then none else some p
  | .adjusted, .obj kvs, p => checkAdjusted w kvs p
  | .str, .str _, _ => none
  | .hexA, .str s, p => if isHexString w s then none else some p
  | .hexN, .str s, p => if isHexString 1 s then none else some p
  | .enum vals orHex, .str s, p =>
    if vals.contains s || (orHex && isHexString 1 s) then none else some p
  | .arr t, .arr xs, p => firstSome (fun x i => check w t x (p ++ "[" ++ toString i ++ "]")) xs 0
  | .offsets, .arr xs, p =>
    if xs.all (isHexJ w) && !xs.isEmpty && ascending (xs.map hexStringValue) then none else some p
  | .regs, .obj kvs, p => if kvs.all (fun kv => isHexJ 1 kv.2) then none else some p
  | .obj fields, .obj kvs, p => checkFields w fields kvs p
  | _, _, p => some p
/-- schema-driven: every documented field, if present, has its type -/
def checkFields (w : Nat) : List (String × Ty) → List (String × Json) → String → Option String
  | [], _, _ => none
  | (k, t) :: fs, kvs, p =>
    match (match getKV k kvs with
           | none => none
           | some v => check w t v (p ++ "." ++ k)) with
    | some q => some q
    | none => checkFields w fs kvs p
end

/-- the platform's digit count, read off the document itself (`system_info.cpu_arch`) -/
def widthOf (j : Json) : Nat :=
  match (j.get "system_info").bind (Json.get "cpu_arch") with
  | some (.str a) => if ["x86", "ppc", "sparc", "arm", "mips"].contains a then 8 else 16
  | _ => 16

def conformsAt (j : Json) : Option String :=
  match j with
  | .obj _ => check (widthOf j) schema j "$"
  | _ => some "$"

/-- **the schema predicate** -/
def Conforms (j : Json) : Bool := (conformsAt j).isNone

/-- top-level members the document does not mention (allowed; listed in the evidence) -/
def undocumented (j : Json) : List String :=
  match j, schema with
  | .obj kvs, .obj fields => (kvs.map (·.1)).filter fun k => !(fields.map (·.1)).contains k
  | _, _ => []

/-- the `trust` values of a thread's frames, in order -/
def frameTrusts (t : Json) : List String :=
  match t.get "frames" with
  | some (.arr fs) => fs.filterMap fun f =>
      match f.get "trust" with
      | some (.str s) => some s
      | _ => none
  | _ => []

/-- enumeration values in the report that json-schema.md does not list (tolerated by `schema`,
    and therefore reported: `cpu_arch=…` first, then `trust=…` in order of first occurrence) -/
def undocumentedEnums (j : Json) : List String :=
  let ts := match j.get "threads" with
    | some (.arr ts) => ts
    | _ => []
  let ct := match j.get "crashing_thread" with
    | some c => [c]
    | none => []
  let cpu := match (j.get "system_info").bind (Json.get "cpu_arch") with
    | some (.str a) => [a]
    | _ => []
  ((cpu.filter fun a => !cpuDocumented.contains a).map fun a => "cpu_arch=" ++ a) ++
  (((ts ++ ct).flatMap frameTrusts).filter fun a => !trustDocumented.contains a).eraseDups.map
    fun a => "trust=" ++ a

/-! ## 8b. the redundancies of the report, as a predicate on the document alone

  json-schema.md marks `thread_count`, `frame_count`, `frame`, `missing_symbols`, `num_records`
  and the `crashing_thread` copy as redundant; `Consistent` recomputes each of them from the rest
  of the document. (The offsets `module_offset`/`function_offset` and the `modules` mirror need
  the state the document was printed from: theorems `offsets_agree`, `modules_mirror`, and the
  engine's oracle.) -/

def optBeq : Option Json → Option Json → Bool
  | none, none => true
  | some a, some b => Json.beq a b
  | _, _ => false

def isNatJ (j : Option Json) (n : Nat) : Bool :=
  match j with
  | some (.num m) => m == JNum.ofNat n
  | _ => false

/-- `frames[k].frame = k`; `missing_symbols` says whether `function` is null -/
def framesConsistent : List Json → Nat → Bool
  | [], _ => true
  | f :: fs, k =>
    isNatJ (f.get "frame") k &&
    optBeq (f.get "missing_symbols") (some (.bool (isAbsent (f.get "function")))) &&
    framesConsistent fs (k + 1)

def threadConsistent (t : Json) : Bool :=
  match t.get "frames" with
  | some (.arr fs) => isNatJ (t.get "frame_count") fs.length && framesConsistent fs 0
  | _ => false

/-- the members of `a` and `b` agree outside `skip` (the order of members is irrelevant) -/
def sameExcept (skip : List String) (a b : List (String × Json)) : Bool :=
  (a.map (·.1) ++ b.map (·.1)).all fun k => skip.contains k || optBeq (getKV k a) (getKV k b)

/-- `c` is `t` plus `threads_index`, plus `registers` in its first frame -/
def copyOf (c t : Json) : Bool :=
  match c, t with
  | .obj ckvs, .obj tkvs =>
    sameExcept ["threads_index", "frames"] ckvs tkvs &&
    (match getKV "frames" ckvs, getKV "frames" tkvs with
     | some (.arr (.obj cf0 :: crest)), some (.arr (.obj tf0 :: trest)) =>
       sameExcept ["registers"] cf0 tf0 && Json.beqL crest trest && (getKV "registers" cf0).isSome
     | _, _ => false)
  | _, _ => false

/-- a `crashing_thread` member, if present, carries an index into `threads`, equal to
    `crash_info.crashing_thread`, and is a copy of the entry at that index -/
def crashingConsistent (j : Json) (ts : List Json) : Bool :=
  match j.get "crashing_thread" with
  | none => true
  | some c =>
    match c.get "threads_index" with
    | some (.num n) =>
      n == JNum.ofNat n.int &&
      optBeq ((j.get "crash_info").bind (Json.get "crashing_thread")) (some (.num n)) &&
      (match ts[n.int]? with
       | some t => copyOf c t
       | none => false)
    | _ => false

def macConsistent (j : Json) : Bool :=
  match j.get "mac_crash_info" with
  | some (.obj kvs) =>
    (match getKV "records" kvs with
     | some (.arr rs) => isNatJ (getKV "num_records" kvs) rs.length
     | _ => false)
  | _ => true

/-- **the redundancy predicate** -/
def Consistent (j : Json) : Bool :=
  (match j.get "threads" with
   | some (.arr ts) =>
     isNatJ (j.get "thread_count") ts.length && ts.all threadConsistent && crashingConsistent j ts
   | _ => false) && macConsistent j

/-! ## 9. line protocol

  `json <state> [ck <hex compact> <hex pretty>]`
      -> `M:<hex(compact json)|PANIC>`
         [` C:<parsed><conforms>[@path] R:<consistent> U:<undocumented members,> E:<undocumented enum values,> P:<0|1>`]
  `jsonck <hex(json bytes)>` -> `parsed:<0|1> conforms:<0|1>[@path] consistent:<0|1>`
  The state is a token tree: `(` … `)` lists, atoms `-` (None), `n<dec>`, `s<hex utf-8>`,
  `t`/`f`, `j<hex json text>`, bare enum tags.
-/

inductive Sx where
  | atom (s : String)
  | list (xs : List Sx)
  deriving Repr, Inhabited

/-- parse tokens into trees; returns the trees of the current level and the rest after `)` -/
def sxParse : Nat → List String → List Sx → Option (List Sx × List String)
  | 0, _, _ => none
  | _ + 1, [], acc => some (acc.reverse, [])
  | fuel + 1, t :: ts, acc =>
    if t = "(" then
      match sxParse fuel ts [] with
      | some (inner, rest) => sxParse fuel rest (.list inner :: acc)
      | none => none
    else if t = ")" then some (acc.reverse, ts)
    else sxParse fuel ts (.atom t :: acc)

namespace Dec
open Proto

def str : Sx → Option String
  | .atom a =>
    if a.startsWith "s" then
      let h := (a.drop 1).toString
      if h.isEmpty then some "" else
      match unhex h with
      | some bs => String.fromUTF8? bs.toByteArray
      | none => none
    else none
  | _ => none

def nat : Sx → Option Nat
  | .atom a => if a.startsWith "n" then (a.drop 1).toString.toNat? else none
  | _ => none

def bool : Sx → Option Bool
  | .atom "t" => some true
  | .atom "f" => some false
  | _ => none

def json : Sx → Option Json
  | .atom a =>
    if a.startsWith "j" then
      match unhex (a.drop 1).toString with
      | some bs => parseBytes bs.toByteArray
      | none => none
    else none
  | _ => none

def jnum (x : Sx) : Option JNum :=
  match json x with
  | some (.num n) => some n
  | _ => none

def opt {α : Type} (f : Sx → Option α) : Sx → Option (Option α)
  | .atom "-" => some none
  | x => (f x).map some

def list {α : Type} (f : Sx → Option α) : Sx → Option (List α)
  | .list xs => xs.mapM f
  | _ => none

def os : Sx → Option Os
  | .atom "windows" => some .windows | .atom "macos" => some .macos | .atom "ios" => some .ios
  | .atom "linux" => some .linux | .atom "solaris" => some .solaris
  | .atom "android" => some .android | .atom "ps3" => some .ps3 | .atom "nacl" => some .nacl
  | .list [.atom "unknown", n] => (nat n).map Os.unknown
  | _ => none

def cpu : Sx → Option Cpu
  | .atom "x86" => some .x86 | .atom "amd64" => some .amd64 | .atom "ppc" => some .ppc
  | .atom "ppc64" => some .ppc64 | .atom "sparc" => some .sparc | .atom "arm" => some .arm
  | .atom "arm64" => some .arm64 | .atom "mips" => some .mips | .atom "mips64" => some .mips64
  | .atom "unknown" => some .unknown
  | _ => none

def sys : Sx → Option SysInfo
  | .list [a, b, c, d, e, f, g] => do
    some ⟨← os a, ← opt str b, ← opt str c, ← cpu d, ← opt str e, ← nat f, ← opt nat g⟩
  | _ => none

def adjusted : Sx → Option Adjusted
  | .list [.atom "noncanonical", n] => (nat n).map .nonCanonical
  | .list [.atom "nulloffset", n] => (nat n).map .nullOffset
  | _ => none

def accessType : Sx → Option AccessType
  | .atom "read" => some .read | .atom "write" => some .write
  | .atom "readwrite" => some .readWrite | .atom "underivable" => some .underivable
  | _ => none

def memAccess : Sx → Option MemAccess
  | .list [a, b, c, d] => do some ⟨← nat a, ← opt nat b, ← bool c, ← accessType d⟩
  | _ => none

def ipUpdate : Sx → Option IpUpdate
  | .atom "noupdate" => some .noUpdate
  | .list [.atom "update", a, g] => do some (.update (← nat a) (← bool g))
  | _ => none

def bitFlip : Sx → Option BitFlip
  | .list [a, b, c, d, e, f, g, h] => do
    some ⟨← nat a, ← opt str b, ← bool c, ← bool d, ← bool e, ← nat f, ← bool g, ← opt jnum h⟩
  | _ => none

def inconsistency : Sx → Option Inconsistency
  | .atom "intdiv" => some .intDivByZeroNotPossible
  | .atom "priv" => some .privInstructionCrashWithoutPrivInstruction
  | .atom "noncanon" => some .nonCanonicalAddressFalselyReported
  | .atom "accessallowed" => some .accessViolationWhenAccessAllowed
  | .atom "notfound" => some .crashingAccessNotFoundInMemoryAccesses
  | _ => none

def exc : Sx → Option ExcInfo
  | .list [a, b, c, d, e, f, g, h] => do
    some ⟨← str a, ← nat b, ← opt adjusted c, ← opt str d, ← opt (list memAccess) e,
          ← opt ipUpdate f, ← list bitFlip g, ← list inconsistency h⟩
  | _ => none

def lsb : Sx → Option Lsb
  | .list [a, b, c, d] => do some ⟨← str a, ← str b, ← str c, ← str d⟩
  | _ => none

def limit : Sx → Option Limit
  | .atom "err" => some .err
  | .atom "unlimited" => some .unlimited
  | x => (nat x).map .limited

def procLimit : Sx → Option ProcLimit
  | .list [a, b, c, d] => do some ⟨← str a, ← limit b, ← limit c, ← str d⟩
  | _ => none

def macRecord : Sx → Option MacRecord
  | .list [a, b, c, d, e, f, g, h] => do
    some ⟨← opt nat a, ← opt nat b, ← opt nat c, ← opt str d, ← opt str e, ← opt str f,
          ← opt str g, ← opt str h⟩
  | _ => none

def module : Sx → Option ModuleM
  | .list [a, b, c, d, e, f, g] => do
    some ⟨← nat a, ← nat b, ← str c, ← opt str d, ← str e, ← str f, ← opt str g⟩
  | _ => none

def pairSS : Sx → Option (String × String)
  | .list [a, b] => do some (← str a, ← str b)
  | _ => none

def stats : Sx → Option (String × Stats)
  | .list [k, a, b, c, d] => do some (← str k, ⟨← opt str a, ← bool b, ← bool c, ← opt pairSS d⟩)
  | _ => none

def inline : Sx → Option InlineM
  | .list [a, b, c] => do some ⟨← str a, ← opt str b, ← opt nat c⟩
  | _ => none

def trust : Sx → Option Trust
  | .atom "none" => some .none | .atom "scan" => some .scan | .atom "cfi_scan" => some .cfiScan
  | .atom "frame_pointer" => some .framePointer | .atom "cfi" => some .cfi
  | .atom "prewalked" => some .preWalked | .atom "context" => some .context
  | _ => none

def pairSN : Sx → Option (String × Nat)
  | .list [a, b] => do some (← str a, ← nat b)
  | _ => none

def pairSNs : Sx → Option (String × List Nat)
  | .list [a, b] => do some (← str a, ← list nat b)
  | _ => none

def regCtx : Sx → Option RegCtx
  | .list [a, b, c] => do some ⟨← nat a, ← list pairSN b, ← opt (list str) c⟩
  | _ => none

def frame : Sx → Option FrameM
  | .list [a, b, c, d, e, f, g, h, i, j] => do
    some ⟨← nat a, ← opt pairSN b, ← list pairSNs c, ← opt str d, ← opt nat e, ← opt str f,
          ← opt nat g, ← list inline h, ← trust i, ← regCtx j⟩
  | _ => none

def thread : Sx → Option ThreadM
  | .list [a, b, c, d] => do some ⟨← list frame a, ← nat b, ← opt str c, ← opt str d⟩
  | _ => none

def unloaded : Sx → Option UnloadedM
  | .list [a, b, c, d] => do some ⟨← nat a, ← nat b, ← str c, ← str d⟩
  | _ => none

def handle : Sx → Option HandleM
  | .list [a, b, c] => do some ⟨← nat a, ← opt str b, ← opt str c⟩
  | _ => none

def bootArgs : Sx → Option (Option String)
  | .list [a] => opt str a
  | _ => none

def state : List Sx → Option StateModel
  | [a, b, c, d, e, f, g, h, i, j, k, l, m, n, o, p, q] => do
    some ⟨← opt nat a, ← list pairSS b, ← opt exc c, ← opt str d, ← opt nat e, ← list thread f,
          ← sys g, ← opt lsb h, ← opt (list procLimit) i, ← opt (list macRecord) j,
          ← opt bootArgs k, ← list module l, ← list unloaded m, ← opt (list handle) n,
          ← list stats o, ← opt nat p, ← opt json q⟩
  | _ => none

end Dec

def ckAnswer (compact : List UInt8) : String :=
  match parseBytes compact.toByteArray with
  | none => "parsed:0 conforms:0 consistent:0"
  | some j =>
    (match conformsAt j with
     | none => "parsed:1 conforms:1"
     | some p => "parsed:1 conforms:0@" ++ p) ++ " consistent:" ++ (if Consistent j then "1" else "0")

/-- line-protocol entry point of this model (engine(s): json, jsonck) -/
def handle (engine : String) (args : List String) : String :=
  if engine = "jsonck" then
    match args with
    | [h] =>
      match Proto.unhex h with
      | some bs => ckAnswer bs
      | none => "bad-op"
    | _ => "bad-op"
  else if engine = "json" then
    -- split off the optional `ck <hex> <hex>` suffix
    let (stTokens, ck) : List String × Option (String × String) :=
      match args.reverse with
      | p :: c :: "ck" :: rest => (rest.reverse, some (c, p))
      | _ => (args, none)
    match sxParse (stTokens.length + 1) stTokens [] with
    | some (sxs, []) =>
      match Dec.state sxs with
      | none => "bad-op"
      | some s =>
        let m := match printJson s with
          | .panic _ => "M:PANIC"
          | .ok j => "M:" ++ Proto.hex (renderBytes j).toList
        match ck with
        | none => m
        | some (c, p) =>
          match Proto.unhex c, Proto.unhex p with
          | some cb, some pb =>
            match parseBytes cb.toByteArray with
            | none => m ++ " C:00 R:0 U: E: P:0"
            | some j =>
              let c := match conformsAt j with
                | none => "11"
                | some path => "10@" ++ path
              let u := ",".intercalate (undocumented j)
              let e := ",".intercalate (undocumentedEnums j)
              let r := if Consistent j then "1" else "0"
              let pp := match parseBytes pb.toByteArray with
                | some j' => if Json.beq j j' then "1" else "0"
                | none => "0"
              m ++ " C:" ++ c ++ " R:" ++ r ++ " U:" ++ u ++ " E:" ++ e ++ " P:" ++ pp
          | _, _ => "bad-op"
    | _ => "bad-op"
  else "bad-op"

end MdModel.Json
