/-
  MdModel.Bytes — placeholder (model not written yet).
-/
import MdModel.Prelude
namespace MdModel.Bytes

/-- line-protocol entry point of this model (engine(s): read, roundtrip) -/
def handle (_engine : String) (_args : List String) : String := "bad-op"

end MdModel.Bytes
