/-
  MdModel.Bytes — line-protocol entry of the byte-level reader model (`MdModel.Dump`).

  engine `read` (C01):
      read <hex(bytes)> [sizes:<19 decimal numbers, comma separated>]
    -> hdr:err <Error>
     | hdr:ok <le|be> ver=<v> n=<stream_count> dir=<rva> | dir:[<type>@<idx>:<size>:<rva>,..]
       | thr:<S> | mod:<S> | unl:<S> | mem:<S> | mem64:<S> | minfo:<S> | tnames:<S> | tinfo:<S>
       | hnd:<S> | exc:<S> | cp:<S> | getmem:<mem64|mem|none>
       | sys:<S> | tx:<-|ok[..]> | xctx:.. | rsn:.. | mpr:.. | lsb:<S> | env:<S> | cpui:<S> | stat:<S> | lim:<S>
       | bp:<S> | asrt:<S> | mac:<S>/<n> | boot:<S>          (`MdModel.DumpFull.readExtra`, see `showExtra`)
     followed by  ` ## allocs:<n>*<sz>[~],..`  (the allocation log; `~` = inexact estimate)
     or `PANIC <site> ## allocs:..` when the model reaches a panic outcome.
    <S> = `err <Error>` or `ok[..]` with one `;`-terminated item per element (see `show*` below).
    `sizes:` = `size_of` of the Rust element types in the order of `MemSizes`' fields; absent ⇒
    `MemSizes.default`.
  engine `roundtrip` (C02): dispatched to `MdModel.Encode.handle`.
-/
import MdModel.Prelude
import MdModel.Dump
import MdModel.DumpFull
import MdModel.Encode
import MdModel.TimeFmt
namespace MdModel.Bytes
open MdModel MdModel.Dump

def showName (cs : List Nat) : String := Proto.joinWith "." (cs.map Proto.natToHex)

def showOptRange : Option (Nat × Nat) → String
  | none => "-"
  | some (s, e) => toString (e - s)

def showItems {α : Type} (f : α → String) (xs : List α) : String :=
  "ok[" ++ String.join (xs.map fun x => f x ++ ";") ++ "]"

def showRes {α : Type} (f : α → String) : Except Err α → String
  | .error e => "err " ++ e.name
  | .ok a => f a

def showThread (t : Thread) : String :=
  s!"{t.id}/{t.teb}/{showOptRange t.context}/" ++
    (match t.stack with
     | none => "-"
     | some r => s!"{r.base}:{r.size}")

def showModule (m : Module) : String :=
  s!"{m.raw.base}/{m.raw.size}/{showName m.name}/" ++
    (match m.codeview with
     | none => "-"
     | some cv => cv.kind)

def showUnloaded (m : UnloadedModule) : String := s!"{m.base}/{m.size}/{showName m.name}"
def showRegion (r : Region) : String := s!"{r.base}/{r.size}/{r.rva}"
def showMemInfo (i : MemInfo) : String := s!"{i.base}/{i.size}/{i.state}/{i.prot}/{i.ty}"
def showThreadName (p : Nat × List Nat) : String := s!"{p.1}={showName p.2}"
def showThreadInfo (v : List Nat) : String := toString (fld v 0)

def showOptName : Option (List Nat) → String
  | none => "-"
  | some cs => "=" ++ showName cs

def showHandle (h : Handle) : String :=
  s!"{fld h.vals 0}/{showOptName h.typeName}/{showOptName h.objectName}/" ++
    Proto.joinWith "," (h.infos.map fun oi => s!"{oi.ty}:{oi.next}")

/-- The exception line also carries what the two accessors of the property's `observe_at` that
    index `exception_information` produce: the printed parameter list and the raw crash address
    (Windows rules). A panic outcome of the accessor is shown as `PANIC`. -/
def showException (x : Exception) : String :=
  let ca := match (crashAddressRaw x true).res with
    | .ok a => toString a
    | .err e => "err " ++ e.name
    | .panic _ => "PANIC"
  s!"ok {x.threadId}/{x.code}/{x.flags}/{x.address}/{x.numberParameters}/{showOptRange x.context}/p=" ++
    Proto.joinWith "," ((printedParams x).map fun (i, v) => s!"{i}:{v}") ++ s!"/ca={ca}"

def showBytes (b : Bytes) : String := Proto.hex b.toList

def showDict (d : List (Bytes × Bytes)) : String :=
  "[" ++ Proto.joinWith "," (d.map fun (k, v) => s!"{showBytes k}:{showBytes v}") ++ "]"

def showAnnotationValue : AnnotationValue → String
  | .invalid => "i"
  | .string s => "s" ++ showBytes s
  | .userDefined ty v => s!"u{ty}:{v}"
  | .unsupported ty v => s!"x{ty}:{v}"

def showModuleCrashpad (m : ModuleCrashpadInfo) : String :=
  s!"{m.moduleIndex}/{m.version}/L[" ++ Proto.joinWith "," (m.listAnnotations.map showBytes) ++ "]/D" ++
    showDict m.simpleAnnotations ++ "/A[" ++
    Proto.joinWith "," (m.annotationObjects.map fun (k, v) => s!"{showBytes k}:{showAnnotationValue v}") ++ "]"

def showCrashpad (c : CrashpadInfo) : String :=
  s!"ok {c.version}/D" ++ showDict c.simpleAnnotations ++ "/M[" ++
    String.join (c.modules.map fun m => showModuleCrashpad m ++ ";") ++ "]"

def showDir (d : Dump) : String :=
  "dir:[" ++ Proto.joinWith "," (d.streams.map fun (ty, ent) => s!"{ty}@{ent.idx}:{ent.loc.size}:{ent.loc.rva}") ++ "]"

def showParsed (p : Parsed) : String :=
  let d := p.dump
  let en := match d.endian with
    | .little => "le"
    | .big => "be"
  Proto.joinWith " | " [
    s!"hdr:ok {en} ver={d.header.version} n={d.header.streamCount} dir={d.header.dirRva}",
    showDir d,
    "thr:" ++ showRes (showItems showThread) p.threads,
    "mod:" ++ showRes (showItems showModule) p.modules,
    "unl:" ++ showRes (showItems showUnloaded) p.unloaded,
    "mem:" ++ showRes (showItems showRegion) p.memory,
    "mem64:" ++ showRes (showItems showRegion) p.memory64,
    "minfo:" ++ showRes (showItems showMemInfo) p.memInfo,
    "tnames:" ++ showRes (showItems showThreadName) p.threadNames,
    "tinfo:" ++ showRes (showItems showThreadInfo) p.threadInfo,
    "hnd:" ++ showRes (showItems showHandle) p.handles,
    "exc:" ++ showRes showException p.exception,
    "cp:" ++ showRes showCrashpad p.crashpad,
    "getmem:" ++ getMemoryKind p]

def showAllocs (as : List Alloc) : String :=
  "allocs:" ++ Proto.joinWith "," (as.map fun a => s!"{a.n}*{a.sz}" ++ (if a.exact then "" else "~"))

def parseSizes (s : String) : Option MemSizes :=
  match (s.splitOn ",").map Proto.optNat with
  | [some a, some b, some c, some d, some e, some f, some g, some h, some i, some j, some k, some l,
     some m, some n, some o, some p, some q, some r, some t] =>
    some ⟨a, b, c, d, e, f, g, h, i, j, k, l, m, n, o, p, q, r, t⟩
  | _ => none

/-! ### the second group of streams / accessors (`MdModel.DumpFull.readExtra`) -/

def showOptNat : Option Nat → String
  | none => "-"
  | some n => toString n

def showSys (s : SysInfo) : String :=
  "ok " ++ Proto.joinWith "/" ((s.vals.take 11).map toString) ++ "/" ++ showBytes s.cpuData ++ "/csd" ++ showOptName s.csd ++
    "/" ++ s.cpu.name ++ "/i" ++ (match s.cpuInfo with
      | none => "-"
      | some t => "=" ++ showBytes t.toUTF8.data)

def showCtx : Option (Except CtxErr CtxOut) → String
  | none => "-"
  | some (.error .readFailure) => "e:read"
  | some (.error .unknownCpu) => "e:unknown"
  | some (.ok c) => s!"{c.kind.name}:{c.flags}:{c.ip}:{c.sp}:{c.printed}"

def showThreadX (t : ThreadX) : String :=
  s!"{t.id}/{showCtx t.ctx}/" ++ (match t.stack with
    | none => "-"
    | some r => s!"{r.base}:{r.size}:{r.rva}") ++ "/" ++ Proto.joinWith "," (t.lastErrors.map fun o => match o with
      | none => "-"
      | some v => (Reason.windowsError v).render) ++ s!"/{t.printed}"

def showSpan (sp : Span) : String := s!"{sp.1}+{sp.2 - sp.1}"
def showKv (kv : Span × Span) : String := showSpan kv.1 ++ ":" ++ showSpan kv.2

def showBreakpad (i : BreakpadInfo) : String :=
  s!"ok {i.validity}/{showOptNat i.dumpThreadId}/{showOptNat i.requestingThreadId}"

def showAssertion (a : Assertion) : String :=
  s!"ok {showOptName a.expression}/{showOptName a.function}/{showOptName a.file}/{a.line}/{a.ty}"

def showMacRecord (r : MacRecord) : String :=
  s!"{r.variant}/" ++ Proto.joinWith "," (r.fixed.map toString) ++ "/" ++ Proto.joinWith "," (r.strings.map showBytes)

def showBootargs (m : MacBootargs) : String := s!"ok {m.streamType}/{m.rva}/{showOptName m.bootargs}"

def showExtra (x : Extra) : String :=
  Proto.joinWith " | " [
    "sys:" ++ showRes showSys x.sys,
    "tx:" ++ (match x.threads with
      | none => "-"
      | some ts => showItems showThreadX ts),
    "xctx:" ++ (match x.excCtx with
      | none => "-"
      | some none => "0"
      | some c => showCtx c),
    "rsn:" ++ (match x.reason with
      | none => "-"
      | some (tag, addr) => s!"{tag}/{addr}"),
    "mpr:" ++ showOptNat x.memPrinted,
    "lsb:" ++ showRes (showItems showKv) x.lsb,
    "env:" ++ showRes (showItems showKv) x.environ,
    "cpui:" ++ showRes (showItems showKv) x.cpuinfo,
    "stat:" ++ showRes (showItems showKv) x.status,
    "lim:" ++ showRes (showItems showSpan) x.limits,
    "bp:" ++ showRes showBreakpad x.breakpad,
    "asrt:" ++ showRes showAssertion x.assertion,
    "mac:" ++ showRes (showItems showMacRecord) x.mac ++ s!"/{x.macPrinted}",
    "boot:" ++ showRes showBootargs x.bootargs]

/-! ### the third group (`MdModel.DumpFull.readMore`) -/

def showOptNatList (l : List (Option Nat)) : String := Proto.joinWith "," (l.map showOptNat)

def showNats (l : List Nat) : String := Proto.joinWith "." (l.map toString)

def showMiscTz (t : MiscTimeZone) : String :=
  s!"{t.bias}:{showOptName t.standardName}:{showNats t.standardDate}:{t.standardBias}:{showOptName t.daylightName}:" ++
    s!"{showNats t.daylightDate}:{t.daylightBias}"

def showMisc (m : MiscPrinted) : String :=
  s!"ok {m.ver}/{showOptNatList m.simple}/tz" ++ (match m.timeZone with
    | none => "-"
    | some t => "=" ++ showMiscTz t) ++ s!"/bs{showOptName m.buildString}/dbs{showOptName m.dbgBldStr}/xs" ++
    (match m.xstate with
     | none => "-"
     | some fs => "=" ++ Proto.joinWith "," (fs.map fun (i, o, z) => s!"{i}:{o}:{z}"))

/-- lookups: in full for up to 160 of them, else their number and a hash -/
def showProbes (ps : List (Nat × Option Nat)) : String :=
  if ps.length ≤ 160 then
    Proto.joinWith "," (ps.map fun (a, r) => match r with
      | none => s!"{a}:~"
      | some i => s!"{a}:{i}")
  else
    let h := ps.foldl (fun h (a, r) => (h * 1000003 + a % 4294967296 + 7 * (match r with
      | none => 0
      | some i => i + 1)) % 4294967296) 0
    s!"#{ps.length}:{h}"

def showIndices (is : List Nat) : String :=
  if is.length ≤ 160 then Proto.joinWith "," (is.map toString)
  else s!"#{is.length}:{is.foldl (fun h i => (h * 1000003 + i + 1) % 4294967296) 0}"

def showMapsOut (m : MapsOut) : String :=
  "ok [" ++ Proto.joinWith ";" (m.maps.entries.map Encode.showMapEntry) ++ "]|" ++ showProbes m.probes

def showUnified (u : UnifiedOut) : String :=
  (match u.kind with
   | .info => "info"
   | .maps => "maps") ++ s!"/{u.count}/[{showIndices u.byAddr}]/{showProbes u.probes}"

def showOptStr : Option String → String
  | none => "-"
  | some s => "=" ++ s

def showModOut (m : ModOut) : String :=
  s!"{showOptStr m.ids.debugId}/{showOptStr m.ids.codeId}/{showOptName m.ids.debugFile}/{showOptStr m.ids.version}/{m.hexPrinted}"

def showRegsOut : Option RegsOut → String
  | none => "-"
  | some r =>
    s!"{r.kind.name}:" ++ Proto.joinWith "," (r.valid.map fun (n, v) => n ++ "=" ++ Proto.natToHex v) ++ "|" ++
      Proto.joinWith "," (r.got.map fun o => match o with
        | none => "none"
        | some v => Proto.natToHex v) ++ s!"|{r.size}|" ++ Proto.joinWith "," r.fmt

def showMore (x : More) : String :=
  Proto.joinWith " | " [
    "misc:" ++ showRes showMisc x.misc,
    "maps:" ++ (match x.maps with
      | .error site => "PANIC:" ++ mapsPanicClass site
      | .ok r => showRes showMapsOut r),
    "uni:" ++ (match x.unified with
      | .error site => "PANIC:" ++ mapsPanicClass site
      | .ok none => "-"
      | .ok (some u) => showUnified u),
    "osp:" ++ (match x.osParts with
      | none => "-"
      | some (v, b) => showName v ++ "/" ++ showOptName b),
    "ids:" ++ (match x.modules with
      | none => "-"
      | some ms => showItems showModOut ms),
    "uids:" ++ (match x.unloaded with
      | none => "-"
      | some us => showItems id us),
    "soft:" ++ showRes (fun n => s!"ok {n}") x.softErrors,
    "regs:" ++ (match x.regs with
      | none => "-"
      | some rs => showItems showRegsOut rs),
    "xregs:" ++ (match x.excRegs with
      | none => "-"
      | some r => showRegsOut r)]

def renderWhole (r : M (Except Err Whole)) : Option String :=
  match r.res with
  | .panic _ => none
  | .err e => some ("hdr:err " ++ e.name)    -- not produced (errors are values)
  | .ok (.error e) => some ("hdr:err " ++ e.name)
  | .ok (.ok w) => some (showParsed w.full.base ++ " | " ++ showExtra w.full.extra ++ " | " ++ showMore w.more)

/-- The driver runs `readWhole`. When it reaches a panic outcome (the Linux-maps reader on a hostile
    line is the only way, theorem `whole_panics_iff`) the line is rendered from the run in which
    that one operation is wrapped the way the harness wraps it (`catch_unwind`), so that every other
    group can still be compared; the maps group then reads `PANIC:<site class>`. -/
def answerRead (ms : MemSizes) (b : Bytes) : String :=
  let r := readWhole ms b
  match renderWhole r with
  | some line => line ++ " ## " ++ showAllocs r.allocs
  | none =>
    let r' := readWholeWith true ms b
    match renderWhole r' with
    | some line => line ++ " ## " ++ showAllocs r'.allocs
    | none => (match r'.res with
      | .panic site => "PANIC " ++ site
      | _ => "PANIC") ++ " ## " ++ showAllocs r'.allocs

/-- line-protocol entry point of this model (engine(s): read, roundtrip) -/
def handle (engine : String) (args : List String) : String :=
  match engine, args with
  | "read", "timefmt" :: rest => MdModel.TimeFmt.handle rest   -- format_time_t / format_system_time (MdModel.TimeFmt)
  | "read", [hex] =>
    match Proto.unhex hex with
    | none => "bad-op"
    | some bs => answerRead MemSizes.default bs.toArray
  | "read", [hex, sizes] =>
    if !sizes.startsWith "sizes:" then "bad-op" else
    match Proto.unhex hex, parseSizes (sizes.drop 6).toString with
    | some bs, some ms => if ms.bounded then answerRead ms bs.toArray else "bad-op"
    | _, _ => "bad-op"
  | "roundtrip", args => MdModel.Encode.handle args
  | _, _ => "bad-op"

end MdModel.Bytes
